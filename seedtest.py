#!/usr/bin/env python3
"""seedtest.py <ID> <k> [--check-id <CID>]
Confirms a seeded change produced by an independent sub-agent (files /tmp/seed/<ID>/m<k>.{diff,json},
m<k>_demo_test.go) in the scratch worktree /tmp/seed/<ID>/wt and runs the registered check against it:
  1. worktree reset to /repo's HEAD (so hooks and earlier fixes are present), demo passes on the clean tree
  2. patch applies, `go build ./...` and the baseline test packages pass
  3. the demo fails on the changed tree
  4. `VERIF_REPO=<wt> ./check <CID> quick` -> verdict
and, when 1-3 hold, stores it as /verif/seeded/<ID>-m<k>/ (patch.diff, demo, meta.json).
The worktree is left clean.  /repo itself is never touched."""
import sys, os, json, subprocess, re, shutil, time

ID, K = sys.argv[1], sys.argv[2]
CID = sys.argv[sys.argv.index("--check-id") + 1] if "--check-id" in sys.argv else ID
D = "/tmp/seed/%s" % ID
WT = D + "/wt"
ENV = dict(os.environ, GOFLAGS="-mod=mod", GOPROXY="off", GOSUMDB="off", GOTOOLCHAIN="local")

def sh(cmd, cwd=None, env=ENV, timeout=3600):
    p = subprocess.run(cmd, shell=True, cwd=cwd, env=env, stdout=subprocess.PIPE, stderr=subprocess.STDOUT, text=True, timeout=timeout)
    return p.returncode, p.stdout

def reset():
    sh("git checkout -q -- . ; git clean -fdq", cwd=WT)

head = sh("git -C /repo rev-parse HEAD")[1].strip()
reset()
sh("git checkout -q --detach %s" % head, cwd=WT)
demo_src = "%s/m%s_demo_test.go" % (D, K)
txt = open(demo_src).read()
m = re.search(r"copy (?:this file )?(?:in)?to\s+`?([A-Za-z0-9_/.]+?)/?`?[\s,)]", txt)
pkg = m.group(1).strip("/").replace("/tmp/seed/%s/wt/" % ID, "") if m else "render"
tests = re.findall(r"^func (Test[A-Za-z0-9_]*)", txt, flags=re.M)
pat = "^(%s)$" % "|".join(tests)
res = {"id": ID, "k": K, "repo_head": head, "pkg": pkg, "tests": tests}

def run_demo():
    shutil.copy(demo_src, os.path.join(WT, pkg, "zz_seed_demo_test.go"))
    rc, out = sh("go test -vet=off -count=1 -run '%s' ./%s/" % (pat, pkg), cwd=WT)
    os.remove(os.path.join(WT, pkg, "zz_seed_demo_test.go"))
    return rc, out[-1500:]

rc, out = run_demo()
res["demo_on_clean"] = "pass" if rc == 0 else "FAIL"
res["demo_on_clean_out"] = out if rc else ""
rc, out = sh("git apply %s/m%s.diff" % (D, K), cwd=WT)
res["patch_applies"] = rc == 0
if rc != 0:
    res["patch_out"] = out
else:
    rc, out = sh("go build ./... && go test -vet=off -count=1 ./render/ ./sdf/ ./vec/v3/", cwd=WT)
    res["suite_on_changed"] = "pass" if rc == 0 else "FAIL"
    if rc: res["suite_out"] = out[-1500:]
    rc, out = run_demo()
    res["demo_on_changed"] = "FAIL" if rc != 0 else "pass"
    res["demo_on_changed_out"] = out[-800:]
    t0 = time.time()
    rc, out = sh("./check %s quick" % CID, cwd="/verif", env=dict(os.environ, VERIF_REPO=WT), timeout=7200)
    lines = [l for l in out.split("\n") if l and not l.startswith("KNOWN-FINDING")]
    res["check_exit"] = rc
    res["check_lines"] = lines[-3:]
    res["check_wall_s"] = round(time.time() - t0, 1)
    res["detected"] = rc == 1 and any(l.startswith("VIOLATION") for l in lines)
    res["with_failing_input"] = res["detected"] and not any("no-failing-input-found" in l for l in lines if l.startswith("VIOLATION"))
    for f in ("/verif/replays/%s_violation.json" % CID, "/verif/replays/%s_broken.json" % CID):
        if os.path.exists(f) and os.path.getmtime(f) > t0:
            try:
                rp = json.load(open(f))
                fi = rp.get("failing_inputs") or []
                res["replay_first"] = (fi[0].get("what") if fi else json.dumps(rp.get("no_longer_checks", [])[:2])[:600])
            except Exception as e:
                res["replay_first"] = str(e)
reset()
valid = res.get("demo_on_clean") == "pass" and res.get("patch_applies") and res.get("suite_on_changed") == "pass" and res.get("demo_on_changed") == "FAIL"
res["confirmed"] = bool(valid)
print(json.dumps(res, indent=1))
if valid:
    out = "/verif/seeded/%s-m%s" % (ID, K)
    os.makedirs(out, exist_ok=True)
    shutil.copy("%s/m%s.diff" % (D, K), out + "/patch.diff")
    shutil.copy(demo_src, out + "/demo_test.go.txt")
    meta = {}
    try:
        meta = json.load(open("%s/m%s.json" % (D, K)))
    except Exception:
        pass
    json.dump({"breaks_property": CID, "checked_with": CID, "from_seeder": meta,
               "needs": meta.get("needs"), "summary": meta.get("summary"),
               "confirmation": {k: v for k, v in res.items() if not k.endswith("_out")},
               "ran": ["git -C <wt> checkout --detach %s" % head, "demo on clean tree: pass", "git apply patch.diff",
                       "go build ./... && go test ./render/ ./sdf/ ./vec/v3/: pass", "demo on changed tree: FAIL",
                       "VERIF_REPO=<wt> ./check %s quick -> exit %s" % (CID, res.get("check_exit"))]},
              open(out + "/meta.json", "w"), indent=1)
