package sysgen

// Normal forms.  Before a target function is translated its body is rewritten, Go to Go, by the
// passes of this file; each pass is a standard behaviour-preserving transformation of Go code
// (the side conditions are checked on the syntax, a rewrite whose conditions cannot be checked
// is not made, and what the translators then do not recognise is an error as before).  The
// translators therefore see ONE spelling of each of these families:
//
//	desugar     tagless / tagged `switch` without fallthrough, break -> if / else-if chain;
//	            `else if` -> `else { if }`
//	exprCalls   a call of an unexported function or method of the package whose body is
//	            `return e` -> e with the parameters replaced by the (side-effect free) arguments
//	closures    `v := func() {..}` used once as `go v()` / `v()` / `defer v()` -> the literal at that
//	            place; a call statement `func() {..}()` (no parameters, return, defer) -> its body
//	locals      `v := e` (e without calls other than len / cap) used only in the condition of
//	            the statement that follows (or in the next such definition) -> e substituted;
//	            `if v := e; cond(v)` likewise; `v := CALL; x.m(a, v)` -> `x.m(a, CALL)` (a simple);
//	            `(&x).f` -> `x.f`, `(x)` -> `x`; n += 1, n = n + 1 -> n++
//	loops       `for { x, ok := <-c; if !ok { break }; .. }` -> `for x := range c { .. }`;
//	            `for i := 0; i < len(X); i++` -> `for i := range X`;
//	            `for i := range X { .. X[i] .. }` -> `for i, t := range X { .. t .. }`
//	            (`for _, t` when i is no longer used)
//	control     (function without results or goroutine, "tail" = falling off the end returns)
//	            trailing bare `return` dropped; error tests take the early-return form
//	              if err == nil {B} else {H}            -> if err != nil {H} else {B}
//	              if err != nil {H; return} else {B}; R -> if err != nil {H; return}; B; R
//	              if err != nil {H} else {B}   (tail)   -> if err != nil {H; return}; B
//	              if err != nil {H}            (tail)   -> if err != nil {H; return}
//	              if err != nil {H} else {B}; R (tail)  -> if err != nil {H; R; return}; B; R
//	            other tests take the single-exit form
//	              if c {A; return}; R                   -> if c {A; return} else {R}
//	              if c {A; S} else {B; S}               -> if c {A} else {B}; S
//	              if c {} else {B}                      -> if !c {B}   (!(len(x) < n) is len(x) >= n)
//
//	undefer     (drivers, buffer methods) top-level `defer CALL` -> CALL before every return that
//	            follows and at the end, last deferred first; only where every return carries
//	            constants (a deferred call runs AFTER the operands of return are evaluated)
//
// Helper inlining (sysgen.go: expand) runs between exprCalls and locals; it uses singleExit on the
// callee's body when the call is not in tail position (early returns of the callee must become
// else-branches before the body can stand in the middle of the caller).

import (
	"bytes"
	"go/ast"
	"go/parser"
	"go/printer"
	"go/token"
	"strconv"

	"golang.org/x/tools/go/ast/astutil"
)

// ---------------------------------------------------------------- small utilities

func unparen(e ast.Expr) ast.Expr {
	for {
		pe, ok := e.(*ast.ParenExpr)
		if !ok {
			return e
		}
		e = pe.X
	}
}

func (p *pkg) text(n ast.Node) string {
	if n == nil {
		return ""
	}
	return nodeText(p.fset, n)
}

// identsIn: every identifier of n used as a variable / function / type name (not the selected
// name of x.f, not the field name of a composite literal key).
func identsIn(n ast.Node) map[string]bool {
	out := map[string]bool{}
	if n == nil {
		return out
	}
	var walk func(n ast.Node) bool
	walk = func(m ast.Node) bool {
		switch x := m.(type) {
		case *ast.SelectorExpr:
			ast.Inspect(x.X, walk)
			return false
		case *ast.KeyValueExpr:
			if _, isID := x.Key.(*ast.Ident); !isID {
				ast.Inspect(x.Key, walk)
			}
			ast.Inspect(x.Value, walk)
			return false
		case *ast.Ident:
			out[x.Name] = true
		}
		return true
	}
	ast.Inspect(n, walk)
	return out
}

func identsInList(list []ast.Stmt) map[string]bool {
	out := map[string]bool{}
	for _, s := range list {
		for k := range identsIn(s) {
			out[k] = true
		}
	}
	return out
}

// topDeclared: the names a statement list declares in its own scope (not in nested blocks).
func topDeclared(list []ast.Stmt) map[string]bool {
	out := map[string]bool{}
	for _, s := range list {
		switch x := s.(type) {
		case *ast.AssignStmt:
			if x.Tok == token.DEFINE {
				for _, l := range x.Lhs {
					if id, ok := l.(*ast.Ident); ok && id.Name != "_" {
						out[id.Name] = true
					}
				}
			}
		case *ast.DeclStmt:
			if gd, ok := x.Decl.(*ast.GenDecl); ok {
				for _, sp := range gd.Specs {
					switch y := sp.(type) {
					case *ast.ValueSpec:
						for _, id := range y.Names {
							out[id.Name] = true
						}
					case *ast.TypeSpec:
						out[y.Name.Name] = true
					}
				}
			}
		case *ast.LabeledStmt:
			out[x.Label.Name] = true
		}
	}
	return out
}

func disjoint(a, b map[string]bool) bool {
	for k := range a {
		if b[k] {
			return false
		}
	}
	return true
}

// terminates: the list ends in a statement after which control does not continue (return, panic,
// an if / else whose branches both terminate).
func terminates(list []ast.Stmt) bool {
	if len(list) == 0 {
		return false
	}
	switch s := list[len(list)-1].(type) {
	case *ast.ReturnStmt:
		return true
	case *ast.BlockStmt:
		return terminates(s.List)
	case *ast.IfStmt:
		if s.Else == nil {
			return false
		}
		switch e := s.Else.(type) {
		case *ast.BlockStmt:
			return terminates(s.Body.List) && terminates(e.List)
		case *ast.IfStmt:
			return terminates(s.Body.List) && terminates([]ast.Stmt{e})
		}
	case *ast.ExprStmt:
		if c, ok := s.X.(*ast.CallExpr); ok && isIdent(c.Fun, "panic") {
			return true
		}
	}
	return false
}

// hasReturn: a return statement of the function itself (not of a function literal) inside n.
func hasReturn(n ast.Node) bool {
	found := false
	var walk func(m ast.Node) bool
	walk = func(m ast.Node) bool {
		switch m.(type) {
		case *ast.FuncLit:
			return false
		case *ast.ReturnStmt:
			found = true
		}
		return !found
	}
	ast.Inspect(n, walk)
	return found
}

func hasDefer(n ast.Node) bool {
	found := false
	ast.Inspect(n, func(m ast.Node) bool {
		switch m.(type) {
		case *ast.FuncLit:
			return false
		case *ast.DeferStmt:
			found = true
		}
		return !found
	})
	return found
}

func block(list []ast.Stmt) *ast.BlockStmt { return &ast.BlockStmt{List: list} }

func elseList(s *ast.IfStmt) ([]ast.Stmt, bool) {
	switch e := s.Else.(type) {
	case *ast.BlockStmt:
		return e.List, true
	case *ast.IfStmt:
		return []ast.Stmt{e}, true
	}
	return nil, false
}

// pure: an expression without side effects whose value depends only on the variables it names
// (no calls other than len / cap, no receive, no function literal, no address-of).
func pure(e ast.Expr) bool {
	switch x := e.(type) {
	case *ast.Ident, *ast.BasicLit:
		return true
	case *ast.ParenExpr:
		return pure(x.X)
	case *ast.SelectorExpr:
		return pure(x.X)
	case *ast.UnaryExpr:
		return x.Op != token.ARROW && x.Op != token.AND && pure(x.X)
	case *ast.BinaryExpr:
		return pure(x.X) && pure(x.Y)
	case *ast.CallExpr:
		return (isIdent(x.Fun, "len") || isIdent(x.Fun, "cap")) && len(x.Args) == 1 && pure(x.Args[0])
	}
	return false
}

// forEachList applies f to every statement list nested in the statement s (bodies of if / for /
// range / switch / select / block / labelled statements and of the function literal of a go
// statement), innermost last: f gets the list and must return its replacement.
func forEachList(s ast.Stmt, f func([]ast.Stmt) []ast.Stmt) {
	switch x := s.(type) {
	case *ast.BlockStmt:
		x.List = f(x.List)
	case *ast.IfStmt:
		x.Body.List = f(x.Body.List)
		switch e := x.Else.(type) {
		case *ast.BlockStmt:
			e.List = f(e.List)
		case *ast.IfStmt:
			forEachList(e, f)
		}
	case *ast.ForStmt:
		x.Body.List = f(x.Body.List)
	case *ast.RangeStmt:
		x.Body.List = f(x.Body.List)
	case *ast.SwitchStmt:
		for _, c := range x.Body.List {
			cc := c.(*ast.CaseClause)
			cc.Body = f(cc.Body)
		}
	case *ast.TypeSwitchStmt:
		for _, c := range x.Body.List {
			cc := c.(*ast.CaseClause)
			cc.Body = f(cc.Body)
		}
	case *ast.SelectStmt:
		for _, c := range x.Body.List {
			cc := c.(*ast.CommClause)
			cc.Body = f(cc.Body)
		}
	case *ast.LabeledStmt:
		forEachList(x.Stmt, f)
	case *ast.GoStmt:
		if fl, ok := x.Call.Fun.(*ast.FuncLit); ok {
			fl.Body.List = f(fl.Body.List)
		}
	}
}

// ---------------------------------------------------------------- desugar: switch, else-if

// switchToIf turns a switch without init, fallthrough and break into an if / else chain
// (nil: not possible).  The tag of a tagged switch must be pure.
func (p *pkg) switchToIf(x *ast.SwitchStmt) ast.Stmt {
	if x.Init != nil || (x.Tag != nil && !pure(x.Tag)) {
		return nil
	}
	var def *ast.CaseClause
	var clauses []*ast.CaseClause
	for _, c := range x.Body.List {
		cc := c.(*ast.CaseClause)
		bad := false
		for _, s := range cc.Body {
			depth := 0
			var walk func(n ast.Node) bool
			walk = func(n ast.Node) bool {
				switch y := n.(type) {
				case *ast.FuncLit:
					return false
				case *ast.ForStmt, *ast.RangeStmt, *ast.SwitchStmt, *ast.TypeSwitchStmt, *ast.SelectStmt:
					depth++
					switch z := y.(type) {
					case *ast.ForStmt:
						ast.Inspect(z.Body, walk)
					case *ast.RangeStmt:
						ast.Inspect(z.Body, walk)
					case *ast.SwitchStmt:
						ast.Inspect(z.Body, walk)
					case *ast.TypeSwitchStmt:
						ast.Inspect(z.Body, walk)
					case *ast.SelectStmt:
						ast.Inspect(z.Body, walk)
					}
					depth--
					return false
				case *ast.BranchStmt:
					if y.Tok == token.FALLTHROUGH || y.Tok == token.GOTO || y.Label != nil || (y.Tok == token.BREAK && depth == 0) {
						bad = true
					}
				}
				return !bad
			}
			ast.Inspect(s, walk)
		}
		if bad {
			return nil
		}
		if cc.List == nil {
			if def != nil {
				return nil
			}
			def = cc
		} else {
			clauses = append(clauses, cc)
		}
	}
	var tail ast.Stmt // what the chain ends in
	if def != nil {
		tail = block(def.Body)
	}
	for i := len(clauses) - 1; i >= 0; i-- {
		cc := clauses[i]
		var cond ast.Expr
		for _, e := range cc.List {
			c := e
			if x.Tag != nil {
				c = &ast.BinaryExpr{X: x.Tag, Op: token.EQL, Y: e}
			} else if !pure(e) && len(clauses) > 1 {
				return nil // conditions with calls are evaluated lazily by both forms, but keep to the simple case
			}
			if cond == nil {
				cond = c
			} else {
				cond = &ast.BinaryExpr{X: cond, Op: token.LOR, Y: c}
			}
		}
		is := &ast.IfStmt{Cond: cond, Body: block(cc.Body)}
		if tail != nil {
			is.Else = tail
		}
		tail = is
	}
	if tail == nil {
		return &ast.EmptyStmt{Implicit: true}
	}
	if b, ok := tail.(*ast.BlockStmt); ok && len(clauses) == 0 {
		return b
	}
	return tail
}

// desugar: switch -> if chain, else-if -> else { if }, everywhere in the list.
func (p *pkg) desugar(list []ast.Stmt) []ast.Stmt {
	var out []ast.Stmt
	for _, s := range list {
		if sw, ok := s.(*ast.SwitchStmt); ok {
			if r := p.switchToIf(sw); r != nil {
				s = r
			}
		}
		if _, empty := s.(*ast.EmptyStmt); empty {
			continue
		}
		var fix func(is *ast.IfStmt)
		fix = func(is *ast.IfStmt) {
			if e, ok := is.Else.(*ast.IfStmt); ok {
				fix(e)
				is.Else = block([]ast.Stmt{e})
			}
		}
		if is, ok := s.(*ast.IfStmt); ok {
			fix(is)
		}
		forEachList(s, p.desugar)
		out = append(out, s)
	}
	return out
}

// ---------------------------------------------------------------- locals: hoisted sub-expressions put back

// countIdent counts the occurrences of the variable v in n.
func countIdent(n ast.Node, v string) int {
	if n == nil {
		return 0
	}
	c := 0
	var walk func(m ast.Node) bool
	walk = func(m ast.Node) bool {
		switch x := m.(type) {
		case *ast.SelectorExpr:
			ast.Inspect(x.X, walk)
			return false
		case *ast.KeyValueExpr:
			if _, isID := x.Key.(*ast.Ident); !isID {
				ast.Inspect(x.Key, walk)
			}
			ast.Inspect(x.Value, walk)
			return false
		case *ast.Ident:
			if x.Name == v {
				c++
			}
		}
		return true
	}
	ast.Inspect(n, walk)
	return c
}

// substIdent replaces the variable v by e in the expression (returned; the argument may be modified).
func substIdent(in ast.Expr, v string, e ast.Expr) ast.Expr {
	if isIdent(unparen(in), v) {
		return e
	}
	holder := &ast.ParenExpr{X: in}
	astutil.Apply(holder, func(cur *astutil.Cursor) bool {
		id, ok := cur.Node().(*ast.Ident)
		if !ok || id.Name != v {
			return true
		}
		switch par := cur.Parent().(type) {
		case *ast.SelectorExpr:
			if par.Sel == id {
				return true
			}
		case *ast.KeyValueExpr:
			if par.Key == id {
				return true
			}
		}
		switch e.(type) {
		case *ast.Ident, *ast.BasicLit, *ast.CallExpr, *ast.SelectorExpr, *ast.ParenExpr:
			cur.Replace(e)
		default:
			cur.Replace(&ast.ParenExpr{X: e})
		}
		return false
	}, nil)
	return holder.X
}

// pureDef matches `v := e` / `var v = e` with e pure.
func pureDef(s ast.Stmt) (string, ast.Expr, bool) {
	switch x := s.(type) {
	case *ast.AssignStmt:
		if x.Tok == token.DEFINE && len(x.Lhs) == 1 && len(x.Rhs) == 1 {
			if id, ok := x.Lhs[0].(*ast.Ident); ok && id.Name != "_" && pure(x.Rhs[0]) {
				return id.Name, x.Rhs[0], true
			}
		}
	case *ast.DeclStmt:
		if gd, ok := x.Decl.(*ast.GenDecl); ok && gd.Tok == token.VAR && len(gd.Specs) == 1 {
			vs := gd.Specs[0].(*ast.ValueSpec)
			if len(vs.Names) == 1 && len(vs.Values) == 1 && vs.Type == nil && vs.Names[0].Name != "_" && pure(vs.Values[0]) {
				return vs.Names[0].Name, vs.Values[0], true
			}
		}
	}
	return "", nil, false
}

// header: the expressions of a statement that are evaluated before anything else of it runs -
// the condition of an if (and of the else-if chain below it), the right-hand side of a pure
// definition, the tag of a switch.  get / set access them by index.
func header(s ast.Stmt) []*ast.Expr {
	switch x := s.(type) {
	case *ast.IfStmt:
		if x.Init != nil {
			return nil
		}
		out := []*ast.Expr{&x.Cond}
		if eb, ok := x.Else.(*ast.BlockStmt); ok && len(eb.List) == 1 {
			if e, ok := eb.List[0].(*ast.IfStmt); ok && e.Init == nil {
				out = append(out, header(e)...)
			}
		}
		return out
	case *ast.AssignStmt:
		if _, _, ok := pureDef(x); ok {
			return []*ast.Expr{&x.Rhs[0]}
		}
	case *ast.DeclStmt:
		if _, _, ok := pureDef(x); ok {
			return []*ast.Expr{&x.Decl.(*ast.GenDecl).Specs[0].(*ast.ValueSpec).Values[0]}
		}
	case *ast.SwitchStmt:
		if x.Init == nil && x.Tag != nil {
			return []*ast.Expr{&x.Tag}
		}
	}
	return nil
}

func (p *pkg) locals(list []ast.Stmt) []ast.Stmt {
	for i := 0; i < len(list); i++ {
		// if v := e; cond(v) { no v }  ->  if cond(e) { }
		if is, ok := list[i].(*ast.IfStmt); ok && is.Init != nil {
			if v, e, ok := pureDef(is.Init); ok {
				n := countIdent(is.Cond, v)
				rest := countIdent(is.Body, v)
				if is.Else != nil {
					rest += countIdent(is.Else, v)
				}
				if n >= 1 && rest == 0 {
					is.Cond = substIdent(is.Cond, v, e)
					is.Init = nil
				}
			}
		}
		// v := CALL; x.m(a, v)  ->  x.m(a, CALL)   (the other operands are simple: nothing is reordered)
		if as, ok := list[i].(*ast.AssignStmt); ok && as.Tok == token.DEFINE && len(as.Lhs) == 1 && len(as.Rhs) == 1 && i+1 < len(list) {
			if id, ok := as.Lhs[0].(*ast.Ident); ok && id.Name != "_" {
				if _, isCall := as.Rhs[0].(*ast.CallExpr); isCall {
					total := 0
					for _, s := range list[i+1:] {
						total += countIdent(s, id.Name)
					}
					if c := callOf(list[i+1]); c != nil && total == 1 && simpleArg(c.Fun) {
						at := -1
						for k, a := range c.Args {
							if isIdent(a, id.Name) {
								at = k
							} else if !simpleArg(a) {
								at = -2
								break
							}
						}
						if at >= 0 && !c.Ellipsis.IsValid() {
							c.Args[at] = as.Rhs[0]
							list = append(list[:i:i], list[i+1:]...)
							i--
							continue
						}
					}
				}
			}
		}
		v, e, ok := pureDef(list[i])
		if !ok || i+1 >= len(list) {
			continue
		}
		total := 0
		for _, s := range list[i+1:] {
			total += countIdent(s, v)
		}
		hs := header(list[i+1])
		inHeader := 0
		for _, h := range hs {
			inHeader += countIdent(*h, v)
		}
		if total == 0 || total != inHeader {
			continue
		}
		for _, h := range hs {
			*h = substIdent(*h, v, e)
		}
		list = append(list[:i:i], list[i+1:]...)
		i-- // the next statement may be a definition of the same kind
		if i >= 0 {
			i-- // and the previous one may now qualify (its only use was in the removed definition)
		}
	}
	for _, s := range list {
		forEachList(s, p.locals)
	}
	return list
}

// tidy removes the parentheses and address-of / dereference pairs that substitution leaves:
// (&x).f -> x.f, *(&x) -> x, (x) -> x for an operand.
func tidy(n ast.Node) {
	astutil.Apply(n, nil, func(cur *astutil.Cursor) bool {
		switch x := cur.Node().(type) {
		case *ast.SelectorExpr:
			if u, ok := unparen(x.X).(*ast.UnaryExpr); ok && u.Op == token.AND {
				if _, isPar := x.X.(*ast.ParenExpr); isPar {
					x.X = u.X
				}
			} else if pe, ok := x.X.(*ast.ParenExpr); ok {
				switch pe.X.(type) {
				case *ast.Ident, *ast.SelectorExpr, *ast.CallExpr, *ast.IndexExpr:
					x.X = pe.X
				}
			}
		case *ast.StarExpr:
			if u, ok := unparen(x.X).(*ast.UnaryExpr); ok && u.Op == token.AND {
				cur.Replace(u.X)
			}
		case *ast.ParenExpr:
			switch x.X.(type) {
			case *ast.Ident, *ast.BasicLit, *ast.ParenExpr:
				if _, isStmtExpr := cur.Parent().(*ast.ExprStmt); !isStmtExpr {
					cur.Replace(x.X)
				}
				return true
			}
			// a whole argument, right-hand side, condition, operand of return needs no parentheses
			switch par := cur.Parent().(type) {
			case *ast.CallExpr:
				if par.Fun != x {
					cur.Replace(x.X)
				}
			case *ast.AssignStmt, *ast.ReturnStmt, *ast.IfStmt, *ast.ValueSpec, *ast.SendStmt, *ast.IndexExpr:
				if ix, ok := par.(*ast.IndexExpr); !ok || ix.Index == x {
					cur.Replace(x.X)
				}
			}
		}
		return true
	})
}

// ---------------------------------------------------------------- loops

// onlyIndexedBy: every occurrence of the expression X (by its text) inside body is the operand
// of a read `X[i]`; returns the number of such reads (-1: some other use).
func (p *pkg) onlyIndexedBy(body *ast.BlockStmt, X ast.Expr, i string) int {
	xt := p.text(X)
	reads, others := 0, 0
	var walk func(n ast.Node, lhs bool)
	walk = func(n ast.Node, lhs bool) {
		if n == nil {
			return
		}
		if e, ok := n.(ast.Expr); ok && p.text(e) == xt {
			others++
			return
		}
		switch x := n.(type) {
		case *ast.IndexExpr:
			if p.text(x.X) == xt && isIdent(x.Index, i) && !lhs {
				reads++
				return
			}
		case *ast.AssignStmt:
			for _, l := range x.Lhs {
				walk(l, true)
			}
			for _, r := range x.Rhs {
				walk(r, false)
			}
			return
		case *ast.IncDecStmt:
			walk(x.X, true)
			return
		case *ast.UnaryExpr:
			if x.Op == token.AND {
				walk(x.X, true)
				return
			}
		}
		ast.Inspect(n, func(m ast.Node) bool {
			if m == nil || m == n {
				return true
			}
			walk(m, lhs)
			return false
		})
	}
	walk(body, false)
	if others > 0 {
		return -1
	}
	return reads
}

func simpleOperand(e ast.Expr) bool {
	switch x := e.(type) {
	case *ast.Ident:
		return true
	case *ast.SelectorExpr:
		return simpleOperand(x.X)
	case *ast.ParenExpr:
		return simpleOperand(x.X)
	}
	return false
}

func (p *pkg) loops(list []ast.Stmt) []ast.Stmt {
	for k, s := range list {
		// for { x, ok := <-c; if !ok { break }; body }  ->  for x := range c { body }
		if fs, ok := s.(*ast.ForStmt); ok && fs.Init == nil && fs.Cond == nil && fs.Post == nil && len(fs.Body.List) >= 2 {
			if as, ok := fs.Body.List[0].(*ast.AssignStmt); ok && as.Tok == token.DEFINE && len(as.Lhs) == 2 && len(as.Rhs) == 1 {
				x, ok1 := as.Lhs[0].(*ast.Ident)
				okv, ok2 := as.Lhs[1].(*ast.Ident)
				rcv, ok3 := unparen(as.Rhs[0]).(*ast.UnaryExpr)
				if ok1 && ok2 && ok3 && rcv.Op == token.ARROW && simpleOperand(rcv.X) && okv.Name != "_" {
					if is, ok := fs.Body.List[1].(*ast.IfStmt); ok && is.Init == nil && is.Else == nil && len(is.Body.List) == 1 {
						neg, isNot := unparen(is.Cond).(*ast.UnaryExpr)
						br, isBr := is.Body.List[0].(*ast.BranchStmt)
						rest := fs.Body.List[2:]
						used := 0
						for _, r := range rest {
							used += countIdent(r, okv.Name)
						}
						if isNot && neg.Op == token.NOT && isIdent(unparen(neg.X), okv.Name) && isBr && br.Tok == token.BREAK && br.Label == nil && used == 0 &&
							!assignsTo(rest, x.Name) {
							var key ast.Expr
							if x.Name != "_" {
								key = ast.NewIdent(x.Name)
							}
							rs := &ast.RangeStmt{For: fs.For, Key: key, Tok: token.DEFINE, X: rcv.X, Body: block(rest)}
							if key == nil {
								rs.Tok = token.ILLEGAL
							}
							list[k] = rs
							s = rs
						}
					}
				}
			}
		}
		// for i := 0; i < len(X); i++ { body }  ->  for i := range X { body }
		if fs, ok := s.(*ast.ForStmt); ok {
			var X ast.Expr
			if p.countedLoop(fs, func(e ast.Expr) bool {
				c, ok := unparen(e).(*ast.CallExpr)
				if ok && isIdent(c.Fun, "len") && len(c.Args) == 1 && simpleOperand(c.Args[0]) {
					X = c.Args[0]
					return true
				}
				return false
			}) {
				i := fs.Init.(*ast.AssignStmt).Lhs[0].(*ast.Ident)
				if !assignsTo(fs.Body.List, i.Name) && p.onlyIndexedBy(fs.Body, X, i.Name) >= 0 {
					rs := &ast.RangeStmt{For: fs.For, Key: ast.NewIdent(i.Name), Tok: token.DEFINE, X: X, Body: fs.Body}
					list[k] = rs
					s = rs
				}
			}
		}
		// for i := range X { .. X[i] .. }  ->  for i, t := range X { .. t .. }
		if rs, ok := s.(*ast.RangeStmt); ok && rs.Value == nil && rs.Tok == token.DEFINE && simpleOperand(rs.X) {
			if key, ok := rs.Key.(*ast.Ident); ok && key.Name != "_" && !assignsTo(rs.Body.List, key.Name) {
				if n := p.onlyIndexedBy(rs.Body, rs.X, key.Name); n > 0 {
					name := ""
					// a leading `t := X[i]` gives the name
					if len(rs.Body.List) > 0 {
						if as, ok := rs.Body.List[0].(*ast.AssignStmt); ok && as.Tok == token.DEFINE && len(as.Lhs) == 1 && len(as.Rhs) == 1 {
							if id, ok := as.Lhs[0].(*ast.Ident); ok && id.Name != "_" {
								if ix, ok := unparen(as.Rhs[0]).(*ast.IndexExpr); ok && p.text(ix.X) == p.text(rs.X) && isIdent(ix.Index, key.Name) &&
									!assignsTo(rs.Body.List[1:], id.Name) {
									name = id.Name
									rs.Body.List = rs.Body.List[1:]
								}
							}
						}
					}
					if name == "" {
						used := identsIn(rs.Body)
						name = "elem"
						for j := 0; used[name] || name == key.Name; j++ {
							name = "elem" + strconv.Itoa(j)
						}
					}
					xt := p.text(rs.X)
					astutil.Apply(rs.Body, func(cur *astutil.Cursor) bool {
						if ix, ok := cur.Node().(*ast.IndexExpr); ok && p.text(ix.X) == xt && isIdent(ix.Index, key.Name) {
							cur.Replace(ast.NewIdent(name))
							return false
						}
						return true
					}, nil)
					rs.Value = ast.NewIdent(name)
					if countIdent(rs.Body, key.Name) == 0 {
						rs.Key = ast.NewIdent("_")
					}
				}
			}
		}
		forEachList(s, p.loops)
	}
	return list
}

// ---------------------------------------------------------------- control: early returns, else branches, common tails

// errCond matches `v != nil` (positive) and `v == nil` / `nil == v` .. for an identifier v.
func errCond(e ast.Expr) (string, bool, bool) {
	be, ok := unparen(e).(*ast.BinaryExpr)
	if !ok || (be.Op != token.NEQ && be.Op != token.EQL) {
		return "", false, false
	}
	x, y := unparen(be.X), unparen(be.Y)
	if isIdent(x, "nil") {
		x, y = y, x
	}
	id, ok := x.(*ast.Ident)
	if !ok || !isIdent(y, "nil") || id.Name == "nil" {
		return "", false, false
	}
	return id.Name, true, be.Op == token.NEQ
}

var negOp = map[token.Token]token.Token{token.LSS: token.GEQ, token.GEQ: token.LSS, token.GTR: token.LEQ, token.LEQ: token.GTR,
	token.EQL: token.NEQ, token.NEQ: token.EQL}

func integral(e ast.Expr) bool {
	switch x := unparen(e).(type) {
	case *ast.BasicLit:
		return x.Kind == token.INT
	case *ast.CallExpr:
		return isIdent(x.Fun, "len") || isIdent(x.Fun, "cap")
	}
	return false
}

// negate: the condition with the opposite truth value.  A comparison is flipped only when one
// side is visibly an integer (len(..), a literal): !(a < b) is not a >= b for floats.
func negate(c ast.Expr) ast.Expr {
	c = unparen(c)
	if u, ok := c.(*ast.UnaryExpr); ok && u.Op == token.NOT {
		return unparen(u.X)
	}
	if be, ok := c.(*ast.BinaryExpr); ok {
		if op, ok := negOp[be.Op]; ok && (integral(be.X) || integral(be.Y) || be.Op == token.EQL || be.Op == token.NEQ) {
			return &ast.BinaryExpr{X: be.X, Op: op, Y: be.Y}
		}
	}
	return &ast.UnaryExpr{Op: token.NOT, X: &ast.ParenExpr{X: c}}
}

// control normalises a statement list.  tail: falling off the end of the list returns from a
// function without results.
func (p *pkg) control(list []ast.Stmt, tail bool) []ast.Stmt {
	var out []ast.Stmt
	for i := 0; i < len(list); i++ {
		s := list[i]
		rest := list[i+1:]
		last := len(rest) == 0
		switch x := s.(type) {
		case *ast.ReturnStmt:
			if tail && last && len(x.Results) == 0 {
				continue
			}
		case *ast.IfStmt:
			res, consumed := p.controlIf(x, rest, tail)
			out = append(out, res...)
			if consumed {
				return out
			}
			continue
		case *ast.BlockStmt:
			x.List = p.control(x.List, tail && last)
		case *ast.GoStmt:
			if fl, ok := x.Call.Fun.(*ast.FuncLit); ok && (fl.Type.Results == nil || len(fl.Type.Results.List) == 0) {
				fl.Body.List = p.control(fl.Body.List, true)
			}
		default:
			forEachList(s, func(l []ast.Stmt) []ast.Stmt { return p.control(l, false) })
		}
		out = append(out, s)
	}
	return out
}

func (p *pkg) controlIf(x *ast.IfStmt, rest []ast.Stmt, tail bool) ([]ast.Stmt, bool) {
	last := len(rest) == 0
	body := x.Body.List
	els, hasElse := elseList(x)
	if ev, isErr, positive := errCond(x.Cond); isErr {
		H, B := body, els
		cond := x.Cond
		if !positive {
			H, B = els, body
			cond = &ast.BinaryExpr{X: ast.NewIdent(ev), Op: token.NEQ, Y: ast.NewIdent("nil")}
		}
		if len(B) > 0 {
			// names declared by the init statement stay visible to B when the statement is split
			initOK := true
			var pre []ast.Stmt
			if x.Init != nil {
				pre = []ast.Stmt{x.Init}
				initOK = disjoint(topDeclared(pre), identsInList(rest))
			}
			if initOK && (terminates(H) || (tail && last)) && disjoint(topDeclared(B), identsInList(rest)) {
				H2 := p.control(H, tail && last)
				if !terminates(H2) {
					H2 = append(H2, &ast.ReturnStmt{})
				}
				is := &ast.IfStmt{If: x.If, Cond: cond, Body: block(H2)}
				newRest := append(append([]ast.Stmt{}, B...), rest...)
				return append(append(pre, is), p.control(newRest, tail)...), true
			}
			// if err != nil {H} else {B}; R   (tail, H falls through)  ->  if err != nil {H; R; return}; B; R
			if initOK && tail && !terminates(H) && !hasReturn(block(rest)) && disjoint(topDeclared(B), identsInList(rest)) &&
				disjoint(topDeclared(H), identsInList(rest)) {
				if copyR, ok := p.cloneStmts(rest); ok {
					H2 := p.control(append(append([]ast.Stmt{}, H...), copyR...), true)
					H2 = append(H2, &ast.ReturnStmt{})
					is := &ast.IfStmt{If: x.If, Cond: cond, Body: block(H2)}
					newRest := append(append([]ast.Stmt{}, B...), rest...)
					return append(append(pre, is), p.control(newRest, tail)...), true
				}
			}
			// not of the early-return kind: leave the shape alone
			x.Body.List = p.control(body, tail && last)
			if hasElse {
				x.Else = block(p.control(els, tail && last))
			}
			return []ast.Stmt{x}, false
		}
		H2 := p.control(H, tail && last)
		if tail && last && !terminates(H2) {
			H2 = append(H2, &ast.ReturnStmt{})
		}
		x.Cond = cond
		x.Body = block(H2)
		x.Else = nil
		return []ast.Stmt{x}, false
	}
	A, B := body, els
	consumed := false
	if x.Init == nil && !last {
		if len(B) == 0 && terminates(A) {
			B, consumed = rest, true
		} else if len(B) > 0 && terminates(B) && !terminates(A) && disjoint(topDeclared(A), identsInList(rest)) {
			A, consumed = append(append([]ast.Stmt{}, A...), rest...), true
		}
	}
	lastNow := last || consumed
	A2 := p.control(A, tail && lastNow)
	B2 := p.control(B, tail && lastNow)
	var suffix []ast.Stmt
	if x.Init == nil && len(B2) > 0 {
		k := 0
		for k < len(A2) && k < len(B2) && p.text(A2[len(A2)-1-k]) == p.text(B2[len(B2)-1-k]) {
			k++
		}
		if k > 0 {
			pa, pb, sfx := A2[:len(A2)-k], B2[:len(B2)-k], A2[len(A2)-k:]
			used := identsInList(sfx)
			if disjoint(topDeclared(pa), used) && disjoint(topDeclared(pb), used) {
				A2, B2, suffix = pa, pb, sfx
			}
		}
	}
	if len(A2) == 0 && len(B2) > 0 {
		x.Cond = negate(x.Cond)
		A2, B2 = B2, nil
	}
	x.Body = block(A2)
	if len(B2) > 0 {
		x.Else = block(B2)
	} else {
		x.Else = nil
	}
	return append([]ast.Stmt{x}, suffix...), consumed
}

// singleExit rewrites the body of a function without results so that it contains no return
// statement (early returns become else-branches); ok = false if that is not possible (a return
// inside a loop or switch, a defer).
func (p *pkg) singleExit(list []ast.Stmt) ([]ast.Stmt, bool) {
	var elim func(list []ast.Stmt) ([]ast.Stmt, bool)
	elim = func(list []ast.Stmt) ([]ast.Stmt, bool) {
		for i, s := range list {
			if !hasReturn(s) {
				continue
			}
			switch x := s.(type) {
			case *ast.ReturnStmt:
				if len(x.Results) != 0 {
					return nil, false
				}
				return list[:i:i], true
			case *ast.IfStmt:
				rest := list[i+1:]
				A := x.Body.List
				B, _ := elseList(x)
				if len(rest) > 0 {
					aFalls, bFalls := !terminates(A), !terminates(B)
					if aFalls && bFalls {
						return nil, false // the rest would have to be duplicated
					}
					if x.Init != nil && !disjoint(topDeclared([]ast.Stmt{x.Init}), identsInList(rest)) {
						return nil, false
					}
					if aFalls {
						if !disjoint(topDeclared(A), identsInList(rest)) {
							return nil, false
						}
						A = append(append([]ast.Stmt{}, A...), rest...)
					} else if bFalls {
						if !disjoint(topDeclared(B), identsInList(rest)) {
							return nil, false
						}
						B = append(append([]ast.Stmt{}, B...), rest...)
					}
				}
				A2, ok1 := elim(A)
				B2, ok2 := elim(B)
				if !ok1 || !ok2 {
					return nil, false
				}
				x.Body = block(A2)
				if len(B2) > 0 {
					x.Else = block(B2)
				} else {
					x.Else = nil
				}
				return append(list[:i:i], x), true
			case *ast.BlockStmt:
				if i == len(list)-1 {
					l, ok := elim(x.List)
					if !ok {
						return nil, false
					}
					x.List = l
					return list, true
				}
				return nil, false
			default:
				return nil, false
			}
		}
		return list, true
	}
	if hasDeferIn(list) {
		return nil, false
	}
	return elim(list)
}

// cloneStmts: a private copy of a statement list (printed and parsed again).
func (p *pkg) cloneStmts(list []ast.Stmt) ([]ast.Stmt, bool) {
	var b bytes.Buffer
	b.WriteString("package p\nfunc _() {\n")
	for _, s := range list {
		if err := printer.Fprint(&b, p.fset, s); err != nil {
			return nil, false
		}
		b.WriteString("\n")
	}
	b.WriteString("}\n")
	f, err := parser.ParseFile(p.fset, "", b.Bytes(), 0)
	if err != nil || len(f.Decls) != 1 {
		return nil, false
	}
	return f.Decls[0].(*ast.FuncDecl).Body.List, true
}

func hasDeferIn(list []ast.Stmt) bool {
	for _, s := range list {
		if hasDefer(s) {
			return true
		}
	}
	return false
}

// ---------------------------------------------------------------- integer expressions as polynomials

// poly: an integer expression built from + - * as a polynomial over its atoms (variables, fields,
// len(..)): monomial (sorted atoms joined by *) -> coefficient.  Two expressions with the same
// polynomial have the same value (int overflow aside, as in the rest of the translation).
type poly map[string]int

func (a poly) equal(b poly) bool {
	for k, v := range a {
		if v != 0 && b[k] != v {
			return false
		}
	}
	for k, v := range b {
		if v != 0 && a[k] != v {
			return false
		}
	}
	return true
}

func mulMono(a, b string) string {
	if a == "" {
		return b
	}
	if b == "" {
		return a
	}
	xs := append(splitMono(a), splitMono(b)...)
	for i := 1; i < len(xs); i++ {
		for j := i; j > 0 && xs[j] < xs[j-1]; j-- {
			xs[j], xs[j-1] = xs[j-1], xs[j]
		}
	}
	out := xs[0]
	for _, x := range xs[1:] {
		out += "*" + x
	}
	return out
}

func splitMono(a string) []string {
	var out []string
	cur := ""
	for _, r := range a {
		if r == '*' {
			out = append(out, cur)
			cur = ""
		} else {
			cur += string(r)
		}
	}
	return append(out, cur)
}

// polyOf: defs are the locals defined once (v := e) and never reassigned; they are replaced by
// their definitions, so that `n := ny + 1` and `ny + 1` are the same polynomial.
func (p *pkg) polyOf(e ast.Expr, defs map[string]ast.Expr, local map[string]int, depth int) (poly, bool) {
	if depth > 12 {
		return nil, false
	}
	if v, ok := p.constVal(e, local); ok {
		return poly{"": v}, true
	}
	switch x := e.(type) {
	case *ast.ParenExpr:
		return p.polyOf(x.X, defs, local, depth+1)
	case *ast.Ident:
		if d, ok := defs[x.Name]; ok {
			return p.polyOf(d, defs, local, depth+1)
		}
		return poly{x.Name: 1}, true
	case *ast.SelectorExpr:
		if simpleOperand(x) {
			return poly{p.text(x): 1}, true
		}
	case *ast.CallExpr:
		if (isIdent(x.Fun, "len") || isIdent(x.Fun, "cap")) && len(x.Args) == 1 && simpleOperand(x.Args[0]) {
			return poly{p.text(x): 1}, true
		}
		if id, ok := x.Fun.(*ast.Ident); ok && intTypes[id.Name] && len(x.Args) == 1 {
			return p.polyOf(x.Args[0], defs, local, depth+1)
		}
	case *ast.UnaryExpr:
		if x.Op == token.SUB {
			a, ok := p.polyOf(x.X, defs, local, depth+1)
			if !ok {
				return nil, false
			}
			out := poly{}
			for k, v := range a {
				out[k] = -v
			}
			return out, true
		}
	case *ast.BinaryExpr:
		a, ok1 := p.polyOf(x.X, defs, local, depth+1)
		b, ok2 := p.polyOf(x.Y, defs, local, depth+1)
		if !ok1 || !ok2 {
			return nil, false
		}
		out := poly{}
		switch x.Op {
		case token.ADD, token.SUB:
			for k, v := range a {
				out[k] += v
			}
			for k, v := range b {
				if x.Op == token.ADD {
					out[k] += v
				} else {
					out[k] -= v
				}
			}
			return out, true
		case token.MUL:
			for k1, v1 := range a {
				for k2, v2 := range b {
					out[mulMono(k1, k2)] += v1 * v2
				}
			}
			return out, true
		}
	}
	return nil, false
}

// ---------------------------------------------------------------- closures: a named function literal used once

// closures: `v := func(..) {..}` whose only use is one call `v(..)` / `go v(..)` / `defer v(..)`
// later in the same list (or nested in it) -> the literal at the place of v; a call statement
// `func() {..}()` of a literal without parameters, results, return and defer -> its body.
func (p *pkg) closures(list []ast.Stmt) []ast.Stmt {
	for i := 0; i < len(list); i++ {
		var name string
		var lit *ast.FuncLit
		switch x := list[i].(type) {
		case *ast.AssignStmt:
			if x.Tok == token.DEFINE && len(x.Lhs) == 1 && len(x.Rhs) == 1 {
				if id, ok := x.Lhs[0].(*ast.Ident); ok && id.Name != "_" {
					if fl, ok := x.Rhs[0].(*ast.FuncLit); ok {
						name, lit = id.Name, fl
					}
				}
			}
		case *ast.DeclStmt:
			if gd, ok := x.Decl.(*ast.GenDecl); ok && gd.Tok == token.VAR && len(gd.Specs) == 1 {
				vs := gd.Specs[0].(*ast.ValueSpec)
				if len(vs.Names) == 1 && len(vs.Values) == 1 && vs.Type == nil {
					if fl, ok := vs.Values[0].(*ast.FuncLit); ok {
						name, lit = vs.Names[0].Name, fl
					}
				}
			}
		}
		if lit == nil {
			continue
		}
		rest := list[i+1:]
		uses := 0
		for _, s := range rest {
			uses += countIdent(s, name)
		}
		if uses != 1 || countIdent(lit, name) != 0 {
			continue
		}
		// the free names of the literal must mean the same at the place of use
		free := identsIn(lit)
		for k := range declaredNames(lit) {
			delete(free, k)
		}
		declLater := map[string]bool{}
		for _, s := range rest {
			for k := range declaredNames(s) {
				declLater[k] = true
			}
		}
		if !disjoint(free, declLater) {
			continue
		}
		done := false
		for _, s := range rest {
			ast.Inspect(s, func(n ast.Node) bool {
				if c, ok := n.(*ast.CallExpr); ok && isIdent(c.Fun, name) {
					c.Fun = lit
					done = true
				}
				return !done
			})
			if done {
				break
			}
		}
		if done {
			list = append(list[:i:i], list[i+1:]...)
			i--
		}
	}
	var out []ast.Stmt
	for i, s := range list {
		forEachList(s, p.closures)
		if c := callOf(s); c != nil && len(c.Args) == 0 {
			if fl, ok := c.Fun.(*ast.FuncLit); ok && (fl.Type.Params == nil || len(fl.Type.Params.List) == 0) &&
				(fl.Type.Results == nil || len(fl.Type.Results.List) == 0) && !hasReturn(fl.Body) && !hasDefer(fl.Body) &&
				disjoint(topDeclared(fl.Body.List), identsInList(list[i+1:])) && disjoint(topDeclared(fl.Body.List), topDeclared(list[:i])) {
				out = append(out, p.closures(fl.Body.List)...)
				continue
			}
		}
		out = append(out, s)
	}
	return out
}

// ---------------------------------------------------------------- small spellings

// incdec: x += 1, x = x + 1, x = 1 + x -> x++ (x an identifier).
func incdec(n ast.Node) {
	astutil.Apply(n, nil, func(cur *astutil.Cursor) bool {
		as, ok := cur.Node().(*ast.AssignStmt)
		if !ok || len(as.Lhs) != 1 || len(as.Rhs) != 1 {
			return true
		}
		id, ok := as.Lhs[0].(*ast.Ident)
		if !ok {
			return true
		}
		isOne := func(e ast.Expr) bool { v, ok := intLit(unparen(e)); return ok && v == 1 }
		match := false
		switch as.Tok {
		case token.ADD_ASSIGN:
			match = isOne(as.Rhs[0])
		case token.ASSIGN:
			if be, ok := unparen(as.Rhs[0]).(*ast.BinaryExpr); ok && be.Op == token.ADD {
				match = (isIdent(unparen(be.X), id.Name) && isOne(be.Y)) || (isIdent(unparen(be.Y), id.Name) && isOne(be.X))
			}
		}
		if match {
			if _, inFor := cur.Parent().(*ast.ForStmt); inFor && cur.Name() != "Post" {
				return true
			}
			cur.Replace(&ast.IncDecStmt{X: id, Tok: token.INC})
		}
		return true
	})
}

// constReturns: every return statement of the list (function literals aside) returns constants
// only (nil, true, false, literals) - so that it does not matter whether a deferred call runs
// before or after the operands of the return are evaluated.
func constReturns(list []ast.Stmt) bool {
	ok := true
	for _, s := range list {
		ast.Inspect(s, func(n ast.Node) bool {
			switch x := n.(type) {
			case *ast.FuncLit:
				return false
			case *ast.ReturnStmt:
				for _, r := range x.Results {
					switch y := unparen(r).(type) {
					case *ast.BasicLit:
					case *ast.Ident:
						if y.Name != "nil" && y.Name != "true" && y.Name != "false" {
							ok = false
						}
					default:
						ok = false
					}
				}
			}
			return ok
		})
	}
	return ok
}

// undefer writes the top-level `defer CALL` statements of a list out at its exits: before every
// return that follows them (also nested in if / blocks) and at the end, last deferred first.
// Only for lists whose returns carry constants (constReturns) and whose deferred calls have
// arguments that are evaluated to the same values at the exit (simple operands never assigned
// in the list); accept tells which calls may be moved.  ok = false: a defer that cannot be moved.
func (p *pkg) undefer(list []ast.Stmt, accept func(*ast.CallExpr) bool) ([]ast.Stmt, bool) {
	if !hasDeferIn(list) {
		return list, true
	}
	if !constReturns(list) {
		return list, false
	}
	var pending []*ast.CallExpr
	exits := func() []ast.Stmt {
		var out []ast.Stmt
		for i := len(pending) - 1; i >= 0; i-- {
			out = append(out, &ast.ExprStmt{X: pending[i]})
		}
		return out
	}
	good := true
	var ins func(l []ast.Stmt) []ast.Stmt
	ins = func(l []ast.Stmt) []ast.Stmt {
		var out []ast.Stmt
		for _, s := range l {
			if _, isRet := s.(*ast.ReturnStmt); isRet {
				out = append(out, exits()...)
			}
			switch s.(type) {
			case *ast.ReturnStmt:
			case *ast.IfStmt, *ast.BlockStmt:
				if hasDefer(s) {
					good = false
				}
				forEachList(s, ins)
			default:
				if _, isDefer := s.(*ast.DeferStmt); !isDefer && (hasReturn(s) || hasDefer(s)) {
					good = false // a return or defer inside a loop / switch / select
				}
			}
			out = append(out, s)
		}
		return out
	}
	var out []ast.Stmt
	for idx, s := range list {
		if ds, ok := s.(*ast.DeferStmt); ok {
			if !accept(ds.Call) {
				return list, false
			}
			if _, lit := ds.Call.Fun.(*ast.FuncLit); lit || !simpleArg(ds.Call.Fun) {
				return list, false
			}
			for _, a := range ds.Call.Args {
				if !simpleArg(a) {
					return list, false
				}
				for v := range identsIn(a) {
					if assignsTo(list[idx+1:], v) {
						return list, false
					}
				}
			}
			pending = append(pending, ds.Call)
			continue
		}
		out = append(out, ins([]ast.Stmt{s})...)
	}
	if !good {
		return list, false
	}
	if !terminates(out) {
		out = append(out, exits()...)
	}
	return out, true
}
