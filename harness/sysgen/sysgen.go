// Package sysgen extracts the control skeleton of the concurrency / pipeline code of the
// CURRENT source tree (Go AST) as programs of the mini language of coq/Sys/SysLang.v and
// writes them to coq/Generated/SysProgs.v:
//
//	package sdf     Triangle3Buffer.Write / Close, Line2Buffer.Write / Close, WriteTriangles
//	package render  ToTriangles, ToSTL, To3MF, ToDXF, ToSVG
//	                writeSTL, write3MF, writeDXF, writeSVG (the function and its writer goroutine)
//	                evalRoutines, layerYZ.Evaluate, marchingCubes
//
// (every non-test file of the two directories is read; a declaration is found wherever it stands)
//
// coq/Sys/BufferProg.v, PipeProg.v, SchedProg.v give these programs a small-step meaning and
// prove that it is the hand-written models of Sys/Buffer.v, Pipeline.v, Sched.v; Props/C11.v,
// C12.v, C09.v state those theorems about the GENERATED programs, so an edit that changes the
// order of lock / append / test / send / reset / unlock, the threshold comparison, the order
// create / render / close / wait, the error path of a writer goroutine or the way the
// evaluation pool is started breaks a named proof obligation.
//
// Every statement of a target function is translated, in source order.  A statement is
//   - one of the protocol statements listed with each translator below, or
//   - a Data statement: it mentions none of the tracked objects of the function (receiver,
//     mutex, buffer slice, channels, WaitGroups, the request struct, the counter), starts or
//     defers nothing, does not send / receive / close, and contains no return, break, continue,
//     goto, select, label, panic, or Lock/Unlock/Wait/Done call.  (What Data statements compute
//     is the business of other properties; here they only have to be unable to block, to fail
//     the protocol or to touch its state.)
//
// Anything else is an error: the translation fails and the check reports a broken tie.
//
// Before a function is translated it is brought to a normal form (normalize.go: Go to Go rewrites
// with syntactic side conditions, each a standard behaviour-preserving transformation), so that
// one spelling stands for each of these families:
//   - helpers, both directions: a call statement `f(args)` / `x.m(args)` / `go f(args)` /
//     `return f(args)` of an unexported function or method of the same package (not itself a
//     target) is replaced by the callee's body with the parameters replaced by the arguments
//     (arguments: variables, fields, &x, function names, allocations with constant sizes); a
//     callee with early returns stands verbatim in tail position, elsewhere its returns become
//     else-branches first; a call of a one-line `return e` helper stands for e anywhere in an
//     expression; a function literal bound to a local and used once stands at its use; methods
//     and functions are treated alike.  Declarations are looked up in the whole package
//     directory: moving them between files changes nothing.
//   - control flow: early return vs if / else (error tests take the early-return form, other
//     tests the single-exit form with the common tail factored out), `else if` chains, tagless
//     and tagged switch, a trailing `return`, `if err == nil {..} else {..}`, `defer mu.Unlock()`
//     and the deferred `wg.Wait()` / `close(c)` of a driver (written out at the exits; only where
//     the returned values are constants).
//   - data flow: a hoisted sub-expression `v := e` used only in the next condition, `if v := e; ..`,
//     named constants (package level or local const blocks, constant expressions) vs literals,
//     `x, err := f(); if err != nil` vs `if x, err := f(); err != nil` vs assignment to variables
//     declared before, n++ / n += 1 / n = n + 1.
//   - loops: `for i := 0; i < len(x); i++` / `for i := range x` with x[i] / `for _, t := range x`;
//     `for i := 0; i < n; i++` / `i <= n-1` / `for i := range n`; the number of points of the
//     layer is compared with the allocated length as a polynomial.
//
// What is NOT normalised here is decided in Coq: the comparison operators of the buffer and batch
// thresholds are kept as written and Sys/BufferProg.v / Sys/SchedProg.v prove the written test
// equivalent to the model's (`len > N-1`, `!(len < N)`, `len != 0` for `len > 0`, `>=` for `==`
// where the length never exceeds the bound).
//
// A Data statement may call functions of this package, but not one whose body (three levels deep)
// contains go / send / receive / select / close / Lock / Unlock / Wait / Done: such a helper takes
// part in the protocol, and if it could not be inlined the translation fails.
package sysgen

import (
	"bytes"
	"fmt"
	"go/ast"
	"go/parser"
	"go/printer"
	"go/token"
	"os"
	"path/filepath"
	"regexp"
	"sort"
	"strconv"
	"strings"
	"unicode"

	"golang.org/x/tools/go/ast/astutil"

	"verifharness/kit"
)

// ---------------------------------------------------------------- programs

// Node is a statement of the mini language, printed as a Coq term of type SysLang.stmt.
type Node struct {
	Op   string // constructor: Data Do IfLen IfErr RangeChan RangeItems Drain ForPoints ForCPU ForSteps Go OnceDo Defer Return ReturnErr
	Prim string // Do / IfErr / Defer: the primitive, printed form e.g. `PCreate "writeSTL"`
	Text string // Data: the Go source of the statement; OnceDo: the function
	Cmp  string // IfLen
	N    int    // IfLen
	A, B []Node // bodies (IfLen: then, else)
}

func data(fset *token.FileSet, n ast.Node) Node { return Node{Op: "Data", Text: src(fset, n)} }
func do(p string) Node                          { return Node{Op: "Do", Prim: p} }

func coqString(s string) string { return `"` + strings.ReplaceAll(s, `"`, `""`) + `"` }

func (n Node) coq(ind string) string {
	list := func(ns []Node) string {
		if len(ns) == 0 {
			return "[]"
		}
		var parts []string
		for _, m := range ns {
			parts = append(parts, ind+"  "+m.coq(ind+"  "))
		}
		return "[\n" + strings.Join(parts, ";\n") + "]"
	}
	switch n.Op {
	case "Data":
		return "Data " + coqString(n.Text)
	case "Do":
		return "Do (" + n.Prim + ")"
	case "Defer":
		return "Defer (" + n.Prim + ")"
	case "IfLen":
		return fmt.Sprintf("IfLen %s %d %s %s", n.Cmp, n.N, list(n.A), list(n.B))
	case "IfErr":
		return "IfErr (" + n.Prim + ") " + list(n.A)
	case "RangeChan", "RangeItems", "ForPoints", "ForCPU", "ForSteps", "Go":
		return n.Op + " " + list(n.A)
	case "OnceDo":
		return "OnceDo " + coqString(n.Text)
	case "Drain", "Return", "ReturnErr":
		return n.Op
	}
	panic("sysgen: unknown node " + n.Op)
}

func src(fset *token.FileSet, n ast.Node) string {
	var b bytes.Buffer
	printer.Fprint(&b, fset, n)
	s := strings.Join(strings.Fields(b.String()), " ")
	if len(s) > 70 {
		s = s[:67] + "..."
	}
	// keep the generated file 7-bit
	out := make([]byte, 0, len(s))
	for i := 0; i < len(s); i++ {
		if s[i] < 0x20 || s[i] > 0x7e {
			out = append(out, '?')
		} else {
			out = append(out, s[i])
		}
	}
	// the check driver scans every .v file (strings included) for axiom-like keywords
	return forbidden.ReplaceAllStringFunc(string(out), func(w string) string { return w[:1] + "_" + w[1:] })
}

var forbidden = regexp.MustCompile(`Admitted|admit|Axiom|Parameter|Conjecture|Obligations|bypass_check|Unset|Hypothes|Variable`)

func expr(fset *token.FileSet, e ast.Expr) string { return nodeText(fset, e) }

// nodeText prints a node without white space (used to compare pieces of source).
func nodeText(fset *token.FileSet, n ast.Node) string {
	var b bytes.Buffer
	printer.Fprint(&b, fset, n)
	return strings.Join(strings.Fields(b.String()), "")
}

// ---------------------------------------------------------------- a package of the source tree

type pkg struct {
	fset   *token.FileSet
	dir    string
	files  []*ast.File
	consts map[string]int  // package-level integer constants
	shadow map[string]bool // names declared inside the function being translated (they hide package-level functions)
}

func loadPkg(repo, rel string) (*pkg, error) {
	p := &pkg{fset: token.NewFileSet(), dir: filepath.Join(repo, rel), consts: map[string]int{}}
	ents, err := os.ReadDir(p.dir)
	if err != nil {
		return nil, err
	}
	for _, e := range ents {
		n := e.Name()
		if e.IsDir() || !strings.HasSuffix(n, ".go") || strings.HasSuffix(n, "_test.go") || strings.HasPrefix(n, "verif_hooks") {
			continue
		}
		path := filepath.Join(p.dir, n)
		text, err := os.ReadFile(path)
		if err != nil {
			return nil, err
		}
		// files excluded from the normal build (the hooks) are not part of the library
		if i := bytes.Index(text, []byte("\npackage ")); i >= 0 && bytes.Contains(text[:i], []byte("//go:build")) {
			continue
		}
		f, err := parser.ParseFile(p.fset, path, text, 0)
		if err != nil {
			return nil, err
		}
		p.files = append(p.files, f)
	}
	// package-level integer constants, wherever they are declared and however they are spelled
	// (a literal, another constant, + - * / << of constants, a conversion to an integer type)
	type cdef struct {
		name string
		val  ast.Expr
	}
	var defs []cdef
	for _, f := range p.files {
		for _, d := range f.Decls {
			gd, ok := d.(*ast.GenDecl)
			if !ok || gd.Tok != token.CONST {
				continue
			}
			for _, s := range gd.Specs {
				vs := s.(*ast.ValueSpec)
				for i, id := range vs.Names {
					if i < len(vs.Values) {
						defs = append(defs, cdef{id.Name, vs.Values[i]})
					}
				}
			}
		}
	}
	for round := 0; round < 8; round++ {
		progress := false
		for _, d := range defs {
			if _, done := p.consts[d.name]; done {
				continue
			}
			if v, ok := p.constVal(d.val, nil); ok {
				p.consts[d.name] = v
				progress = true
			}
		}
		if !progress {
			break
		}
	}
	return p, nil
}

func intLit(e ast.Expr) (int, bool) {
	if bl, ok := e.(*ast.BasicLit); ok && bl.Kind == token.INT {
		v, err := strconv.ParseInt(bl.Value, 0, 32)
		if err == nil && v >= 0 {
			return int(v), true
		}
	}
	return 0, false
}

// funcDecl finds `func name` (recv == "") or `func (x *recv) name`.
func (p *pkg) funcDecl(recv, name string) (*ast.FuncDecl, error) {
	var found *ast.FuncDecl
	for _, f := range p.files {
		for _, d := range f.Decls {
			fd, ok := d.(*ast.FuncDecl)
			if !ok || fd.Name.Name != name || fd.Body == nil {
				continue
			}
			r := ""
			if fd.Recv != nil && len(fd.Recv.List) == 1 {
				r = typeName(fd.Recv.List[0].Type)
			}
			if r != recv {
				continue
			}
			if found != nil {
				return nil, fmt.Errorf("%s: %s.%s declared twice", p.dir, recv, name)
			}
			found = fd
		}
	}
	if found == nil {
		return nil, fmt.Errorf("%s: function %s.%s not found", p.dir, recv, name)
	}
	return found, nil
}

func typeName(e ast.Expr) string {
	switch t := e.(type) {
	case *ast.StarExpr:
		return typeName(t.X)
	case *ast.Ident:
		return t.Name
	case *ast.SelectorExpr:
		return typeName(t.X) + "." + t.Sel.Name
	}
	return ""
}

func (p *pkg) structDecl(name string) (*ast.StructType, error) {
	for _, f := range p.files {
		for _, d := range f.Decls {
			gd, ok := d.(*ast.GenDecl)
			if !ok || gd.Tok != token.TYPE {
				continue
			}
			for _, s := range gd.Specs {
				ts := s.(*ast.TypeSpec)
				if st, ok := ts.Type.(*ast.StructType); ok && ts.Name.Name == name {
					return st, nil
				}
			}
		}
	}
	return nil, fmt.Errorf("%s: struct %s not found", p.dir, name)
}

// globalVar returns the initialiser of the package-level variable `name` (nil if it has none) and its type.
func (p *pkg) globalVar(name string) (ast.Expr, ast.Expr, bool) {
	for _, f := range p.files {
		for _, d := range f.Decls {
			gd, ok := d.(*ast.GenDecl)
			if !ok || gd.Tok != token.VAR {
				continue
			}
			for _, s := range gd.Specs {
				vs := s.(*ast.ValueSpec)
				for i, id := range vs.Names {
					if id.Name == name {
						var v ast.Expr
						if i < len(vs.Values) {
							v = vs.Values[i]
						}
						return v, vs.Type, true
					}
				}
			}
		}
	}
	return nil, nil, false
}

func (p *pkg) errf(n ast.Node, format string, a ...interface{}) error {
	return fmt.Errorf("%s: %s [%s]", p.fset.Position(n.Pos()), fmt.Sprintf(format, a...), src(p.fset, n))
}

// constVal evaluates an integer literal or a named integer constant (package level or local).
func (p *pkg) constVal(e ast.Expr, local map[string]int) (int, bool) {
	if v, ok := intLit(e); ok {
		return v, true
	}
	if id, ok := e.(*ast.Ident); ok {
		if v, ok := local[id.Name]; ok {
			return v, true
		}
		if v, ok := p.consts[id.Name]; ok {
			return v, true
		}
	}
	if pe, ok := e.(*ast.ParenExpr); ok {
		return p.constVal(pe.X, local)
	}
	if be, ok := e.(*ast.BinaryExpr); ok {
		x, ok1 := p.constVal(be.X, local)
		y, ok2 := p.constVal(be.Y, local)
		if ok1 && ok2 {
			switch be.Op {
			case token.ADD:
				return x + y, true
			case token.SUB:
				if x >= y {
					return x - y, true
				}
			case token.MUL:
				if x*y < 1<<31 {
					return x * y, true
				}
			case token.QUO:
				if y > 0 {
					return x / y, true
				}
			case token.REM:
				if y > 0 {
					return x % y, true
				}
			case token.SHL:
				if y < 31 && x<<uint(y) < 1<<31 {
					return x << uint(y), true
				}
			case token.SHR:
				if y < 63 {
					return x >> uint(y), true
				}
			}
		}
	}
	if c, ok := e.(*ast.CallExpr); ok && len(c.Args) == 1 {
		if id, ok := c.Fun.(*ast.Ident); ok && intTypes[id.Name] {
			return p.constVal(c.Args[0], local)
		}
	}
	return 0, false
}

var intTypes = map[string]bool{"int": true, "int32": true, "int64": true, "uint": true, "uint32": true, "uint64": true}

// localConsts: the integer constants declared by const statements anywhere in a function body
// (a later declaration of the same name wins; the translators use them for thresholds only).
func (p *pkg) localConsts(body *ast.BlockStmt, local map[string]int) {
	ast.Inspect(body, func(n ast.Node) bool {
		ds, ok := n.(*ast.DeclStmt)
		if !ok {
			return true
		}
		gd := ds.Decl.(*ast.GenDecl)
		if gd.Tok != token.CONST {
			return true
		}
		for _, sp := range gd.Specs {
			vs := sp.(*ast.ValueSpec)
			for i, id := range vs.Names {
				if i < len(vs.Values) {
					if v, ok := p.constVal(vs.Values[i], local); ok {
						local[id.Name] = v
					}
				}
			}
		}
		return true
	})
}

// ---------------------------------------------------------------- inlining of helpers

// targetNames are never inlined: they are translated on their own.
var targetNames = map[string]bool{"evalRoutines": true, "marchingCubes": true, "writeSTL": true, "write3MF": true,
	"writeDXF": true, "writeSVG": true, "WriteTriangles": true}

func unexported(name string) bool {
	for _, r := range name {
		return unicode.IsLower(r) || r == '_'
	}
	return false
}

// freshDecl re-parses the file of fd and returns a private copy of the declaration (safe to rewrite).
func (p *pkg) freshDecl(fd *ast.FuncDecl) *ast.FuncDecl {
	file := p.fset.Position(fd.Pos()).Filename
	f, err := parser.ParseFile(p.fset, file, nil, 0)
	if err != nil {
		return nil
	}
	recv := ""
	if fd.Recv != nil && len(fd.Recv.List) == 1 {
		recv = typeName(fd.Recv.List[0].Type)
	}
	for _, d := range f.Decls {
		if g, ok := d.(*ast.FuncDecl); ok && g.Name.Name == fd.Name.Name && g.Body != nil {
			r := ""
			if g.Recv != nil && len(g.Recv.List) == 1 {
				r = typeName(g.Recv.List[0].Type)
			}
			if r == recv {
				return g
			}
		}
	}
	return nil
}

// callee finds the declaration a call refers to: a function of this package, or a method
// (on the enclosing receiver type when called on the receiver, else the only method of that name).
func (p *pkg) callee(c *ast.CallExpr, encRecvName, encRecvType string) (*ast.FuncDecl, ast.Expr) {
	switch f := c.Fun.(type) {
	case *ast.Ident:
		if fd, err := p.funcDecl("", f.Name); err == nil {
			return fd, nil
		}
	case *ast.SelectorExpr:
		var cands []*ast.FuncDecl
		for _, file := range p.files {
			for _, d := range file.Decls {
				if fd, ok := d.(*ast.FuncDecl); ok && fd.Recv != nil && fd.Body != nil && fd.Name.Name == f.Sel.Name && len(fd.Recv.List) == 1 {
					cands = append(cands, fd)
				}
			}
		}
		if encRecvName != "" && isIdent(f.X, encRecvName) {
			for _, fd := range cands {
				if typeName(fd.Recv.List[0].Type) == encRecvType {
					return fd, f.X
				}
			}
			return nil, nil
		}
		if id, ok := f.X.(*ast.Ident); ok && len(cands) == 1 {
			// a package qualifier (fmt.Printf) is not a method call; a package has no lower-case methods here anyway
			_ = id
			return cands[0], f.X
		}
	}
	return nil, nil
}

func simpleArg(e ast.Expr) bool {
	switch x := e.(type) {
	case *ast.Ident, *ast.BasicLit:
		return true
	case *ast.SelectorExpr:
		return simpleArg(x.X)
	case *ast.UnaryExpr:
		return x.Op == token.AND && simpleArg(x.X)
	case *ast.StarExpr:
		return simpleArg(x.X)
	case *ast.ParenExpr:
		return simpleArg(x.X)
	}
	return false
}

// declaredNames collects every name a statement list declares (:=, var, const, range, function literal parameters).
func declaredNames(n ast.Node) map[string]bool {
	out := map[string]bool{}
	ast.Inspect(n, func(m ast.Node) bool {
		switch x := m.(type) {
		case *ast.AssignStmt:
			if x.Tok == token.DEFINE {
				for _, l := range x.Lhs {
					if id, ok := l.(*ast.Ident); ok {
						out[id.Name] = true
					}
				}
			}
		case *ast.RangeStmt:
			if x.Tok == token.DEFINE {
				for _, l := range []ast.Expr{x.Key, x.Value} {
					if id, ok := l.(*ast.Ident); ok {
						out[id.Name] = true
					}
				}
			}
		case *ast.ValueSpec:
			for _, id := range x.Names {
				out[id.Name] = true
			}
		case *ast.FuncLit:
			if x.Type.Params != nil {
				for _, f := range x.Type.Params.List {
					for _, id := range f.Names {
						out[id.Name] = true
					}
				}
			}
		}
		return true
	})
	return out
}

func freeIdents(e ast.Expr) map[string]bool {
	out := map[string]bool{}
	ast.Inspect(e, func(m ast.Node) bool {
		if se, ok := m.(*ast.SelectorExpr); ok {
			for k := range freeIdents(se.X) {
				out[k] = true
			}
			return false
		}
		if id, ok := m.(*ast.Ident); ok {
			out[id.Name] = true
		}
		return true
	})
	return out
}

// bind prepares the inlining of the call c of orig: a private copy of the declaration and the
// substitution of its parameters (and receiver) by the arguments.  ok = false if the call cannot
// be inlined (an argument with side effects, a parameter that is assigned or shadowed, a local of
// the callee that would capture a variable of an argument, a variadic call).
func (p *pkg) bind(orig *ast.FuncDecl, c *ast.CallExpr, recvArg ast.Expr) (*ast.FuncDecl, map[string]ast.Expr, bool) {
	if c.Ellipsis.IsValid() {
		return nil, nil, false
	}
	fd := p.freshDecl(orig)
	if fd == nil {
		return nil, nil, false
	}
	subst := map[string]ast.Expr{}
	if fd.Recv != nil {
		if len(fd.Recv.List[0].Names) == 1 {
			if !simpleArg(recvArg) {
				return nil, nil, false
			}
			subst[fd.Recv.List[0].Names[0].Name] = recvArg
		}
	}
	var params []string
	if fd.Type.Params != nil {
		for _, f := range fd.Type.Params.List {
			if _, variadic := f.Type.(*ast.Ellipsis); variadic {
				return nil, nil, false
			}
			for _, id := range f.Names {
				params = append(params, id.Name)
			}
		}
	}
	if len(params) != len(c.Args) {
		return nil, nil, false
	}
	for i, a := range c.Args {
		if !simpleArg(a) {
			// an allocation may move to the parameter's use only if that is the only one and is
			// executed once per call
			if !p.freshValue(a) || !usedOnceStraight(fd.Body, params[i]) {
				return nil, nil, false
			}
		}
		subst[params[i]] = a
	}
	decl := declaredNames(fd.Body)
	for name, a := range subst {
		if decl[name] {
			return nil, nil, false // the parameter is shadowed somewhere in the body
		}
		for v := range freeIdents(a) {
			if decl[v] {
				return nil, nil, false // a local of the callee would capture a variable of the argument
			}
		}
	}
	// parameters must not be assigned (they would be copies in the callee)
	for name := range subst {
		if assignsTo(fd.Body.List, name) {
			return nil, nil, false
		}
	}
	// named results are variables of the callee
	if fd.Type.Results != nil {
		for _, f := range fd.Type.Results.List {
			if len(f.Names) > 0 {
				return nil, nil, false
			}
		}
	}
	return fd, subst, true
}

// freshValue: an argument that may be evaluated at the place of the parameter's use instead of
// at the call: an allocation with constant sizes - make(T, consts..), new(T), T{} - has no side
// effect and does not depend on the state.
func (p *pkg) freshValue(e ast.Expr) bool {
	switch x := unparen(e).(type) {
	case *ast.CallExpr:
		if isIdent(x.Fun, "new") && len(x.Args) == 1 {
			return true
		}
		if isIdent(x.Fun, "make") && len(x.Args) >= 1 {
			for _, a := range x.Args[1:] {
				if _, ok := p.constVal(a, nil); !ok {
					return false
				}
			}
			return true
		}
	case *ast.CompositeLit:
		return len(x.Elts) == 0
	}
	return false
}

// usedOnceStraight: the variable occurs exactly once in body, outside loops and function literals.
func usedOnceStraight(body *ast.BlockStmt, v string) bool {
	if countIdent(body, v) != 1 {
		return false
	}
	ok := true
	ast.Inspect(body, func(n ast.Node) bool {
		switch x := n.(type) {
		case *ast.ForStmt, *ast.RangeStmt, *ast.FuncLit:
			if countIdent(x, v) > 0 {
				ok = false
			}
			return false
		}
		return ok
	})
	return ok
}

// substitute replaces the identifiers of subst inside n (n itself must not be one of them).
func substitute(n ast.Node, subst map[string]ast.Expr) {
	astutil.Apply(n, func(cur *astutil.Cursor) bool {
		id, ok := cur.Node().(*ast.Ident)
		if !ok {
			return true
		}
		e, ok := subst[id.Name]
		if !ok {
			return true
		}
		switch par := cur.Parent().(type) {
		case *ast.SelectorExpr:
			if par.Sel == id {
				return true
			}
		case *ast.KeyValueExpr:
			if par.Key == id {
				return true
			}
		}
		if _, plain := e.(*ast.Ident); plain {
			cur.Replace(e)
		} else {
			cur.Replace(&ast.ParenExpr{X: e})
		}
		return false
	}, nil)
}

// inlinable: the declaration a call refers to may be inlined (an unexported function or method of
// this package that is not a target and whose name is not hidden by a local of the function being
// translated).
func (p *pkg) inlinable(c *ast.CallExpr, encRecvName, encRecvType string) (*ast.FuncDecl, ast.Expr) {
	if id, ok := c.Fun.(*ast.Ident); ok && p.shadow[id.Name] {
		return nil, nil
	}
	orig, recvArg := p.callee(c, encRecvName, encRecvType)
	if orig == nil || !unexported(orig.Name.Name) || (orig.Recv == nil && targetNames[orig.Name.Name]) {
		return nil, nil
	}
	return orig, recvArg
}

// inlined returns the body of the callee of the call statement c with its parameters (and
// receiver) replaced by the arguments, or nil if the call is not an inlinable helper call.
// verbatim (the body becomes the body of a new goroutine, or the call is the last statement of a
// function without results): defer and return keep their meaning.  Otherwise the body is brought
// to single-exit form first (early returns become else-branches); a body with a defer, or with a
// return inside a loop, cannot stand in the middle of the caller.
func (p *pkg) inlined(c *ast.CallExpr, encRecvName, encRecvType string, verbatim bool) []ast.Stmt {
	return p.inlinedR(c, encRecvName, encRecvType, verbatim, false)
}

// inlinedR: withResults - the call is the operand of `return f(..)`: the callee has results and its
// body stands verbatim for the return statement (its returns return from the caller).
func (p *pkg) inlinedR(c *ast.CallExpr, encRecvName, encRecvType string, verbatim, withResults bool) []ast.Stmt {
	orig, recvArg := p.inlinable(c, encRecvName, encRecvType)
	if orig == nil {
		return nil
	}
	if hasResults := orig.Type.Results != nil && len(orig.Type.Results.List) > 0; hasResults != withResults {
		return nil
	}
	fd, subst, ok := p.bind(orig, c, recvArg)
	if !ok {
		return nil
	}
	body := p.desugar(fd.Body.List)
	if !verbatim {
		body, ok = p.singleExit(body)
		if !ok {
			return nil
		}
	}
	blk := &ast.BlockStmt{List: body}
	substitute(blk, subst)
	for k := range declaredNames(blk) {
		p.shadow[k] = true
	}
	return blk.List
}

// inlinedExpr: the call c of an unexported function or method whose body is `return e`, as the
// expression e with the parameters replaced by the arguments (nil: not such a call).
func (p *pkg) inlinedExpr(c *ast.CallExpr, encRecvName, encRecvType string) ast.Expr {
	orig, recvArg := p.inlinable(c, encRecvName, encRecvType)
	if orig == nil || len(orig.Body.List) != 1 {
		return nil
	}
	if rs, ok := orig.Body.List[0].(*ast.ReturnStmt); !ok || len(rs.Results) != 1 {
		return nil
	}
	fd, subst, ok := p.bind(orig, c, recvArg)
	if !ok {
		return nil
	}
	rs := fd.Body.List[0].(*ast.ReturnStmt)
	if id, ok := rs.Results[0].(*ast.Ident); ok {
		if e, ok := subst[id.Name]; ok {
			return e
		}
		return id
	}
	substitute(rs, subst)
	return rs.Results[0]
}

// exprCalls replaces, everywhere in n, the calls of one-line `return e` helpers by e.
func (p *pkg) exprCalls(n ast.Node, encRecvName, encRecvType string) {
	for round := 0; round < 4; round++ {
		changed := false
		astutil.Apply(n, nil, func(cur *astutil.Cursor) bool {
			c, ok := cur.Node().(*ast.CallExpr)
			if !ok {
				return true
			}
			e := p.inlinedExpr(c, encRecvName, encRecvType)
			if e == nil {
				return true
			}
			if _, isStmt := cur.Parent().(*ast.ExprStmt); isStmt {
				if _, isCall := e.(*ast.CallExpr); !isCall {
					return true
				}
			}
			bare := false // positions in which no parentheses are needed
			switch par := cur.Parent().(type) {
			case *ast.AssignStmt, *ast.ValueSpec, *ast.ReturnStmt, *ast.IfStmt, *ast.ParenExpr:
				bare = true
			case *ast.CallExpr:
				bare = par.Fun != c
			}
			switch e.(type) {
			case *ast.Ident, *ast.BasicLit, *ast.CallExpr, *ast.SelectorExpr, *ast.CompositeLit, *ast.IndexExpr:
				bare = true
			}
			if bare {
				cur.Replace(e)
			} else {
				cur.Replace(&ast.ParenExpr{X: e})
			}
			changed = true
			return true
		})
		if !changed {
			break
		}
	}
}

// expand replaces helper calls in a statement list (recursively, also inside nested blocks).
// tail: falling off the end of the list returns from a function without results (or ends a goroutine).
func (p *pkg) expand(stmts []ast.Stmt, encRecvName, encRecvType string, depth int, tail bool) []ast.Stmt {
	var out []ast.Stmt
	for idx, s := range stmts {
		last := idx == len(stmts)-1
		if depth < 4 {
			if c := callOf(s); c != nil {
				if b := p.inlined(c, encRecvName, encRecvType, tail && last); b != nil {
					p.exprCalls(&ast.BlockStmt{List: b}, encRecvName, encRecvType)
					out = append(out, p.expand(b, encRecvName, encRecvType, depth+1, tail && last)...)
					continue
				}
			}
			if rs, ok := s.(*ast.ReturnStmt); ok && len(rs.Results) == 1 {
				if c, ok := rs.Results[0].(*ast.CallExpr); ok {
					if b := p.inlinedR(c, encRecvName, encRecvType, true, true); b != nil && terminates(b) {
						p.exprCalls(&ast.BlockStmt{List: b}, encRecvName, encRecvType)
						out = append(out, p.expand(b, encRecvName, encRecvType, depth+1, false)...)
						continue
					}
				}
			}
			if gs, ok := s.(*ast.GoStmt); ok {
				if _, lit := gs.Call.Fun.(*ast.FuncLit); !lit {
					if b := p.inlined(gs.Call, encRecvName, encRecvType, true); b != nil {
						p.exprCalls(&ast.BlockStmt{List: b}, encRecvName, encRecvType)
						gs.Call = &ast.CallExpr{Fun: &ast.FuncLit{Type: &ast.FuncType{Params: &ast.FieldList{}}, Body: &ast.BlockStmt{List: b}}}
					}
				}
			}
		}
		switch x := s.(type) {
		case *ast.BlockStmt:
			x.List = p.expand(x.List, encRecvName, encRecvType, depth, tail && last)
		case *ast.IfStmt:
			var walk func(is *ast.IfStmt)
			walk = func(is *ast.IfStmt) {
				is.Body.List = p.expand(is.Body.List, encRecvName, encRecvType, depth, tail && last)
				switch e := is.Else.(type) {
				case *ast.BlockStmt:
					e.List = p.expand(e.List, encRecvName, encRecvType, depth, tail && last)
				case *ast.IfStmt:
					walk(e)
				}
			}
			walk(x)
		case *ast.GoStmt:
			if fl, ok := x.Call.Fun.(*ast.FuncLit); ok && (fl.Type.Results == nil || len(fl.Type.Results.List) == 0) {
				fl.Body.List = p.expand(fl.Body.List, encRecvName, encRecvType, depth, true)
			}
		default:
			ast.Inspect(s, func(n ast.Node) bool {
				if blk, ok := n.(*ast.BlockStmt); ok {
					blk.List = p.expand(blk.List, encRecvName, encRecvType, depth, false)
					return false
				}
				return true
			})
		}
		out = append(out, s)
	}
	return out
}

// expandFunc brings a target function to normal form (in place): one-line helpers and helper
// calls inlined, then the passes of normalize.go.  pre, if not nil, runs after the inlining and
// before the control-flow normalisation (the buffers' `defer Unlock`).
func (p *pkg) expandFunc(fd *ast.FuncDecl) { p.prepare(fd, nil) }

func (p *pkg) prepare(fd *ast.FuncDecl, pre func([]ast.Stmt) []ast.Stmt) {
	rn, rt := "", ""
	if fd.Recv != nil && len(fd.Recv.List) == 1 && len(fd.Recv.List[0].Names) == 1 {
		rn, rt = fd.Recv.List[0].Names[0].Name, typeName(fd.Recv.List[0].Type)
	}
	p.shadow = declaredNames(fd.Body)
	if fd.Type.Params != nil {
		for _, f := range fd.Type.Params.List {
			for _, id := range f.Names {
				p.shadow[id.Name] = true
			}
		}
	}
	if rn != "" {
		p.shadow[rn] = true
	}
	resultless := fd.Type.Results == nil || len(fd.Type.Results.List) == 0
	fd.Body.List = p.closures(fd.Body.List)
	p.exprCalls(fd.Body, rn, rt)
	fd.Body.List = p.expand(fd.Body.List, rn, rt, 0, resultless)
	fd.Body.List = p.closures(fd.Body.List)
	fd.Body.List = p.desugar(fd.Body.List)
	tidy(fd.Body)
	incdec(fd.Body)
	fd.Body.List = p.locals(fd.Body.List)
	tidy(fd.Body)
	fd.Body.List = p.loops(fd.Body.List)
	if pre != nil {
		fd.Body.List = pre(fd.Body.List)
	}
	fd.Body.List = p.control(fd.Body.List, resultless)
}

// resolve replaces `f()` by e when f is a parameterless unexported function of this package
// whose body is `return e`, and a local variable by its only definition `v := e`.
func (p *pkg) resolve(e ast.Expr, locals map[string]ast.Expr) ast.Expr {
	for i := 0; i < 4; i++ {
		switch x := e.(type) {
		case *ast.ParenExpr:
			e = x.X
			continue
		case *ast.Ident:
			if d, ok := locals[x.Name]; ok {
				e = d
				continue
			}
		case *ast.CallExpr:
			if id, ok := x.Fun.(*ast.Ident); ok && len(x.Args) == 0 && unexported(id.Name) {
				if fd, err := p.funcDecl("", id.Name); err == nil && (fd.Type.Params == nil || len(fd.Type.Params.List) == 0) && len(fd.Body.List) == 1 {
					if rs, ok := fd.Body.List[0].(*ast.ReturnStmt); ok && len(rs.Results) == 1 {
						e = rs.Results[0]
						continue
					}
				}
			}
		}
		break
	}
	return e
}

// singleDefs: the variables of a function body that are defined once by `v := e` at the top level
// of the body and never assigned again.
func singleDefs(body *ast.BlockStmt) map[string]ast.Expr {
	defs := map[string]ast.Expr{}
	for _, s := range body.List {
		if as, ok := s.(*ast.AssignStmt); ok && as.Tok == token.DEFINE && len(as.Lhs) == len(as.Rhs) {
			for i, l := range as.Lhs {
				if id, ok := l.(*ast.Ident); ok && id.Name != "_" {
					defs[id.Name] = as.Rhs[i]
				}
			}
		}
	}
	for v := range defs {
		n := 0
		ast.Inspect(body, func(m ast.Node) bool {
			switch x := m.(type) {
			case *ast.AssignStmt:
				for _, l := range x.Lhs {
					if isIdent(l, v) {
						n++
					}
				}
			case *ast.IncDecStmt:
				if isIdent(x.X, v) {
					n++
				}
			case *ast.UnaryExpr:
				if x.Op == token.AND && isIdent(x.X, v) {
					n++
				}
			case *ast.RangeStmt:
				if isIdent(x.Key, v) || isIdent(x.Value, v) {
					n++
				}
			}
			return true
		})
		if n != 1 {
			delete(defs, v)
		}
	}
	return defs
}

// ---------------------------------------------------------------- Data statements

var syncMethods = map[string]bool{"Lock": true, "Unlock": true, "RLock": true, "RUnlock": true, "Wait": true,
	"Done": true, "Signal": true, "Broadcast": true, "TryLock": true}

// isData: the statement (or expression) cannot take part in the protocol of a function whose
// tracked objects are `tracked`.
func isData0(n ast.Node, tracked map[string]bool) (ok bool, why string) {
	ok = true
	fail := func(s string) { ok = false; why = s }
	depth := 0 // nesting depth of function literals (their own `return` is harmless)
	var walk func(n ast.Node)
	walk = func(n ast.Node) {
		if n == nil || !ok {
			return
		}
		switch x := n.(type) {
		case *ast.GoStmt:
			fail("go statement")
		case *ast.DeferStmt:
			fail("defer statement")
		case *ast.SendStmt:
			fail("channel send")
		case *ast.SelectStmt:
			fail("select")
		case *ast.LabeledStmt:
			fail("label")
		case *ast.BranchStmt:
			fail(x.Tok.String())
		case *ast.ReturnStmt:
			if depth == 0 {
				fail("return")
			} else {
				for _, r := range x.Results {
					walk(r)
				}
			}
		case *ast.UnaryExpr:
			if x.Op == token.ARROW {
				fail("channel receive")
			} else {
				walk(x.X)
			}
		case *ast.FuncLit:
			depth++
			walk(x.Body)
			depth--
		case *ast.SelectorExpr:
			walk(x.X) // the selected name is a field or method, not a variable
		case *ast.KeyValueExpr:
			if _, isID := x.Key.(*ast.Ident); !isID { // a field name of a composite literal is not a variable
				walk(x.Key)
			}
			walk(x.Value)
		case *ast.CallExpr:
			if id, isID := x.Fun.(*ast.Ident); isID && (id.Name == "close" || id.Name == "panic" || id.Name == "recover") {
				fail("call of " + id.Name)
				return
			}
			if se, isSel := x.Fun.(*ast.SelectorExpr); isSel && syncMethods[se.Sel.Name] {
				fail("call of a synchronisation method " + se.Sel.Name)
				return
			}
			walk(x.Fun)
			for _, a := range x.Args {
				walk(a)
			}
		case *ast.Ident:
			if tracked[x.Name] {
				fail("mentions " + x.Name)
			}
		case *ast.DeclStmt:
			gd := x.Decl.(*ast.GenDecl)
			for _, s := range gd.Specs {
				if vs, isVS := s.(*ast.ValueSpec); isVS {
					for _, v := range vs.Values {
						walk(v)
					}
				}
			}
		default:
			ast.Inspect(n, func(m ast.Node) bool {
				if m == nil || !ok {
					return false
				}
				if m == n {
					return true
				}
				walk(m)
				return false
			})
		}
	}
	walk(n)
	return
}

// isData: isData0, and the statement calls no function or method of this package whose body
// (or the body of what that calls, three levels deep) starts a goroutine, sends, receives, selects,
// closes a channel or calls a synchronisation method: such a helper takes part in the protocol
// and must have been inlined to be understood.
func (p *pkg) isData(n ast.Node, tracked map[string]bool) (bool, string) {
	if ok, why := isData0(n, tracked); !ok {
		return false, why
	}
	bad := ""
	ast.Inspect(n, func(m ast.Node) bool {
		c, ok := m.(*ast.CallExpr)
		if !ok || bad != "" {
			return bad == ""
		}
		if id, ok := c.Fun.(*ast.Ident); ok && p.shadow[id.Name] {
			return true
		}
		if fd, _ := p.callee(c, "", ""); fd != nil {
			if what := p.protocolInside(fd, 0, map[*ast.FuncDecl]bool{}); what != "" {
				bad = "calls " + fd.Name.Name + ", which contains " + what
			}
		}
		return true
	})
	return bad == "", bad
}

func (p *pkg) protocolInside(fd *ast.FuncDecl, depth int, seen map[*ast.FuncDecl]bool) string {
	if seen[fd] || depth > 3 || fd.Body == nil {
		return ""
	}
	seen[fd] = true
	rn, rt := "", ""
	if fd.Recv != nil && len(fd.Recv.List) == 1 && len(fd.Recv.List[0].Names) == 1 {
		rn, rt = fd.Recv.List[0].Names[0].Name, typeName(fd.Recv.List[0].Type)
	}
	local := declaredNames(fd.Body)
	what := ""
	ast.Inspect(fd.Body, func(m ast.Node) bool {
		if what != "" {
			return false
		}
		switch x := m.(type) {
		case *ast.GoStmt:
			what = "a go statement"
		case *ast.SendStmt:
			what = "a channel send"
		case *ast.SelectStmt:
			what = "a select"
		case *ast.UnaryExpr:
			if x.Op == token.ARROW {
				what = "a channel receive"
			}
		case *ast.CallExpr:
			if isIdent(x.Fun, "close") {
				what = "a close"
			} else if se, ok := x.Fun.(*ast.SelectorExpr); ok && syncMethods[se.Sel.Name] {
				what = "a call of " + se.Sel.Name
			} else {
				if id, ok := x.Fun.(*ast.Ident); ok && local[id.Name] {
					return true
				}
				if g, _ := p.callee(x, rn, rt); g != nil {
					if w := p.protocolInside(g, depth+1, seen); w != "" {
						what = "a call of " + g.Name.Name + " (" + w + ")"
					}
				}
			}
		}
		return what == ""
	})
	return what
}

// ---------------------------------------------------------------- small matchers

func isIdent(e ast.Expr, name string) bool {
	id, ok := e.(*ast.Ident)
	return ok && id.Name == name
}

// isSel matches x.f
func isSel(e ast.Expr, x, f string) bool {
	se, ok := e.(*ast.SelectorExpr)
	return ok && isIdent(se.X, x) && se.Sel.Name == f
}

// callOf returns the call expression of an expression statement.
func callOf(s ast.Stmt) *ast.CallExpr {
	es, ok := s.(*ast.ExprStmt)
	if !ok {
		return nil
	}
	c, _ := es.X.(*ast.CallExpr)
	return c
}

// methodCall matches recv.f.m() / recv.m() and returns the receiver expression and the method.
func methodCall(c *ast.CallExpr) (ast.Expr, string) {
	if c == nil {
		return nil, ""
	}
	se, ok := c.Fun.(*ast.SelectorExpr)
	if !ok {
		return nil, ""
	}
	return se.X, se.Sel.Name
}

func calleeName(c *ast.CallExpr) string {
	switch f := c.Fun.(type) {
	case *ast.Ident:
		return f.Name
	case *ast.SelectorExpr:
		if id, ok := f.X.(*ast.Ident); ok {
			return id.Name + "." + f.Sel.Name
		}
		return f.Sel.Name
	}
	return "?"
}

// errTest matches `err != nil`.
func errTest(e ast.Expr) (string, bool) {
	be, ok := e.(*ast.BinaryExpr)
	if !ok || be.Op != token.NEQ {
		return "", false
	}
	id, ok := be.X.(*ast.Ident)
	if !ok || !isIdent(be.Y, "nil") {
		return "", false
	}
	return id.Name, true
}

// fallible recognises the two spellings of a call whose error result is tested:
//
//	if [x,] err := CALL; err != nil { H }          (one statement)
//	[x,] err := CALL  ;  if err != nil { H }       (two statements)
//
// It returns the call, the handler and how many statements were used (0: no match).
func fallible(stmts []ast.Stmt, i int) (*ast.CallExpr, *ast.AssignStmt, *ast.BlockStmt, int) {
	asCall := func(s ast.Stmt) (*ast.CallExpr, *ast.AssignStmt, string) {
		as, ok := s.(*ast.AssignStmt)
		if !ok || len(as.Rhs) != 1 || len(as.Lhs) < 1 || len(as.Lhs) > 2 {
			return nil, nil, ""
		}
		c, ok := as.Rhs[0].(*ast.CallExpr)
		if !ok {
			return nil, nil, ""
		}
		id, ok := as.Lhs[len(as.Lhs)-1].(*ast.Ident)
		if !ok {
			return nil, nil, ""
		}
		return c, as, id.Name
	}
	if is, ok := stmts[i].(*ast.IfStmt); ok && is.Init != nil && is.Else == nil {
		if c, as, ev := asCall(is.Init); c != nil {
			if tv, ok := errTest(is.Cond); ok && tv == ev {
				return c, as, is.Body, 1
			}
		}
	}
	if i+1 < len(stmts) {
		if c, as, ev := asCall(stmts[i]); c != nil {
			if is, ok := stmts[i+1].(*ast.IfStmt); ok && is.Init == nil && is.Else == nil {
				if tv, ok := errTest(is.Cond); ok && tv == ev {
					return c, as, is.Body, 2
				}
			}
		}
	}
	return nil, nil, nil, 0
}

var cmpOf = map[token.Token]string{token.GEQ: "CGe", token.GTR: "CGt", token.LEQ: "CLe", token.LSS: "CLt", token.EQL: "CEq", token.NEQ: "CNe"}
var cmpFlip = map[string]string{"CGe": "CLe", "CGt": "CLt", "CLe": "CGe", "CLt": "CGt", "CEq": "CEq", "CNe": "CNe"}

// lenTest matches `len(X) op K` / `K op len(X)` where isX recognises the tracked slice.
func (p *pkg) lenTest(e ast.Expr, isX func(ast.Expr) bool, local map[string]int) (string, int, bool) {
	if pe, ok := e.(*ast.ParenExpr); ok {
		return p.lenTest(pe.X, isX, local)
	}
	be, ok := e.(*ast.BinaryExpr)
	if !ok {
		return "", 0, false
	}
	op, ok := cmpOf[be.Op]
	if !ok {
		return "", 0, false
	}
	isLen := func(e ast.Expr) bool {
		c, ok := e.(*ast.CallExpr)
		return ok && isIdent(c.Fun, "len") && len(c.Args) == 1 && isX(c.Args[0])
	}
	if isLen(be.X) {
		if k, ok := p.constVal(be.Y, local); ok {
			return op, k, true
		}
	}
	if isLen(be.Y) {
		if k, ok := p.constVal(be.X, local); ok {
			return cmpFlip[op], k, true
		}
	}
	return "", 0, false
}

// emptyLit matches []T{}
func emptyLit(e ast.Expr) bool {
	cl, ok := e.(*ast.CompositeLit)
	if !ok || len(cl.Elts) != 0 {
		return false
	}
	at, ok := cl.Type.(*ast.ArrayType)
	return ok && at.Len == nil
}

// emptyMake matches make(T, 0 [, cap])
func emptyMake(e ast.Expr) bool {
	c, ok := e.(*ast.CallExpr)
	if !ok || !isIdent(c.Fun, "make") || len(c.Args) < 2 {
		return false
	}
	v, ok := intLit(c.Args[1])
	return ok && v == 0
}

// ---------------------------------------------------------------- Triangle3Buffer / Line2Buffer methods
//
//	a.<mutex>.Lock()                     Do PLock
//	a.<mutex>.Unlock()                   Do PUnlock     (`defer a.<mutex>.Unlock()` directly after the Lock: an
//	                                                     Unlock before the final return; no other return allowed then)
//	a.<slice> = append(a.<slice>, in...) Do PAppendIn
//	if len(a.<slice>) op K {..} else {..} IfLen op K
//	a.<chan> <- a.<slice>                Do PSendBuf
//	a.<slice> = make(T, 0, ..) | nil     Do PResetBuf
//	return ..                            Return

type bufRoles struct{ recv, mutex, slice, ch, in string }

func (p *pkg) bufferMethod(typ, method string) ([]Node, error) {
	fd, err := p.funcDecl(typ, method)
	if err != nil {
		return nil, err
	}
	st, err := p.structDecl(typ)
	if err != nil {
		return nil, err
	}
	var r bufRoles
	for _, f := range st.Fields.List {
		for _, nm := range f.Names {
			switch t := f.Type.(type) {
			case *ast.ArrayType:
				if t.Len == nil {
					if r.slice != "" {
						return nil, p.errf(f, "%s has two slice fields", typ)
					}
					r.slice = nm.Name
				}
			case *ast.ChanType:
				if r.ch != "" {
					return nil, p.errf(f, "%s has two channel fields", typ)
				}
				r.ch = nm.Name
			case *ast.SelectorExpr:
				if typeName(t) == "sync.Mutex" {
					if r.mutex != "" {
						return nil, p.errf(f, "%s has two mutex fields", typ)
					}
					r.mutex = nm.Name
				}
			}
		}
	}
	if r.slice == "" || r.ch == "" || r.mutex == "" {
		return nil, fmt.Errorf("%s: struct %s: need one slice, one channel and one sync.Mutex field", p.dir, typ)
	}
	if len(fd.Recv.List[0].Names) != 1 {
		return nil, p.errf(fd, "unnamed receiver")
	}
	r.recv = fd.Recv.List[0].Names[0].Name
	tracked := map[string]bool{r.recv: true}
	if fd.Type.Params != nil {
		for _, f := range fd.Type.Params.List {
			for _, nm := range f.Names {
				r.in = nm.Name
				tracked[nm.Name] = true
			}
		}
	}
	// `a.<mutex>.Lock(); defer a.<mutex>.Unlock()` is the Unlock written out before every return
	// (the values returned must not depend on the protected state: they are checked to be Data below)
	isMutexCall := func(c *ast.CallExpr, m string) bool {
		x, mm := methodCall(c)
		return c != nil && x != nil && isSel(x, r.recv, r.mutex) && mm == m && len(c.Args) == 0
	}
	var deferErr error
	p.prepare(fd, func(list []ast.Stmt) []ast.Stmt {
		for i := 0; i+1 < len(list); i++ {
			ds, ok := list[i+1].(*ast.DeferStmt)
			if !ok || !isMutexCall(callOf(list[i]), "Lock") || !isMutexCall(ds.Call, "Unlock") {
				continue
			}
			rest := list[i+2:]
			if hasDeferIn(rest) {
				deferErr = p.errf(ds, "a second defer after the deferred Unlock")
				return list
			}
			if !constReturns(rest) {
				deferErr = p.errf(ds, "deferred Unlock in a function that returns a computed value")
				return list
			}
			unlock := func() ast.Stmt { return &ast.ExprStmt{X: ds.Call} }
			var ins func(l []ast.Stmt) []ast.Stmt
			ins = func(l []ast.Stmt) []ast.Stmt {
				var out []ast.Stmt
				for _, s := range l {
					if _, isRet := s.(*ast.ReturnStmt); isRet {
						out = append(out, unlock())
					}
					forEachList(s, ins)
					out = append(out, s)
				}
				return out
			}
			rest = ins(append([]ast.Stmt{}, rest...))
			if !terminates(rest) {
				rest = append(rest, unlock())
			}
			return append(append([]ast.Stmt{}, list[:i+1]...), rest...)
		}
		return list
	})
	if deferErr != nil {
		return nil, deferErr
	}
	local := map[string]int{}
	p.localConsts(fd.Body, local)
	var block func(stmts []ast.Stmt, top bool) ([]Node, error)
	block = func(stmts []ast.Stmt, top bool) ([]Node, error) {
		var out []Node
		for _, s := range stmts {
			if c := callOf(s); c != nil && len(c.Args) == 0 {
				if x, m := methodCall(c); x != nil && isSel(x, r.recv, r.mutex) && (m == "Lock" || m == "Unlock") {
					out = append(out, do("P"+m))
					continue
				}
			}
			if _, ok := s.(*ast.DeferStmt); ok {
				return nil, p.errf(s, "defer not understood")
			}
			if as, ok := s.(*ast.AssignStmt); ok && as.Tok == token.ASSIGN && len(as.Lhs) == 1 && len(as.Rhs) == 1 && isSel(as.Lhs[0], r.recv, r.slice) {
				rhs := as.Rhs[0]
				if c, ok := rhs.(*ast.CallExpr); ok && isIdent(c.Fun, "append") && len(c.Args) == 2 && c.Ellipsis.IsValid() &&
					isSel(c.Args[0], r.recv, r.slice) && r.in != "" && isIdent(c.Args[1], r.in) {
					out = append(out, do("PAppendIn"))
					continue
				}
				if isIdent(rhs, "nil") || emptyMake(p.resolve(rhs, nil)) || emptyLit(p.resolve(rhs, nil)) {
					out = append(out, do("PResetBuf"))
					continue
				}
				return nil, p.errf(s, "assignment to the buffer slice not understood")
			}
			// for _, t := range in { a.<slice> = append(a.<slice>, t) }  is  a.<slice> = append(a.<slice>, in...)
			if fr, ok := s.(*ast.RangeStmt); ok && r.in != "" && isIdent(fr.X, r.in) && fr.Tok == token.DEFINE &&
				(fr.Key == nil || isIdent(fr.Key, "_")) && len(fr.Body.List) == 1 {
				if v, ok := fr.Value.(*ast.Ident); ok && v.Name != "_" {
					if as, ok := fr.Body.List[0].(*ast.AssignStmt); ok && as.Tok == token.ASSIGN && len(as.Lhs) == 1 && len(as.Rhs) == 1 && isSel(as.Lhs[0], r.recv, r.slice) {
						if c, ok := as.Rhs[0].(*ast.CallExpr); ok && isIdent(c.Fun, "append") && len(c.Args) == 2 && !c.Ellipsis.IsValid() &&
							isSel(c.Args[0], r.recv, r.slice) && isIdent(c.Args[1], v.Name) {
							out = append(out, do("PAppendIn"))
							continue
						}
					}
				}
			}
			if ss, ok := s.(*ast.SendStmt); ok {
				if isSel(ss.Chan, r.recv, r.ch) && isSel(ss.Value, r.recv, r.slice) {
					out = append(out, do("PSendBuf"))
					continue
				}
				return nil, p.errf(s, "send not understood")
			}
			if is, ok := s.(*ast.IfStmt); ok && is.Init == nil {
				if op, k, ok := p.lenTest(is.Cond, func(e ast.Expr) bool { return isSel(e, r.recv, r.slice) }, local); ok {
					th, err := block(is.Body.List, false)
					if err != nil {
						return nil, err
					}
					var el []Node
					if is.Else != nil {
						eb, ok := is.Else.(*ast.BlockStmt)
						if !ok {
							return nil, p.errf(is.Else, "else-if not understood")
						}
						if el, err = block(eb.List, false); err != nil {
							return nil, err
						}
					}
					out = append(out, Node{Op: "IfLen", Cmp: op, N: k, A: th, B: el})
					continue
				}
			}
			if rs, ok := s.(*ast.ReturnStmt); ok {
				for _, e := range rs.Results {
					if ok, why := p.isData(e, tracked); !ok {
						return nil, p.errf(s, "return value %s", why)
					}
				}
				out = append(out, Node{Op: "Return"})
				continue
			}
			if ok, why := p.isData(s, tracked); ok {
				out = append(out, data(p.fset, s))
				continue
			} else {
				return nil, p.errf(s, "statement not understood (%s)", why)
			}
		}
		return out, nil
	}
	return block(fd.Body.List, true)
}

// ---------------------------------------------------------------- the To* drivers
//
//	var wg sync.WaitGroup                               Data (wg becomes tracked)
//	output, err := writeX(&wg, ..); if err != nil { H } IfErr (PCreate "writeX") H
//	output := sdf.WriteTriangles(&wg, ..)               Do (PCreate "WriteTriangles")
//	r.Render(s, sdf.NewXBuffer(output))                 Do (PRender "XBuffer")
//	close(output)                                       Do PCloseChan
//	wg.Wait()                                           Do PWgWait
//	return ..                                           Return

func mentionsAddrOf(c *ast.CallExpr, name string) bool {
	for _, a := range c.Args {
		if u, ok := a.(*ast.UnaryExpr); ok && u.Op == token.AND && isIdent(u.X, name) {
			return true
		}
	}
	return false
}

func (p *pkg) driver(name string) ([]Node, error) {
	fd, err := p.funcDecl("", name)
	if err != nil {
		return nil, err
	}
	// `defer wg.Wait()`, `defer close(output)` .. of a driver that returns nothing computed are
	// written out at its exits
	p.prepare(fd, func(list []ast.Stmt) []ast.Stmt {
		l, _ := p.undefer(list, func(*ast.CallExpr) bool { return true })
		return l
	})
	tracked := map[string]bool{}
	wg, output := "", ""
	var handler func(stmts []ast.Stmt) ([]Node, error)
	handler = func(stmts []ast.Stmt) ([]Node, error) {
		var out []Node
		for _, s := range stmts {
			if rs, ok := s.(*ast.ReturnStmt); ok {
				for _, e := range rs.Results {
					if ok, why := p.isData(e, tracked); !ok {
						return nil, p.errf(s, "return value %s", why)
					}
				}
				out = append(out, Node{Op: "Return"})
				continue
			}
			if ok, why := p.isData(s, tracked); ok {
				out = append(out, data(p.fset, s))
			} else {
				return nil, p.errf(s, "statement not understood (%s)", why)
			}
		}
		return out, nil
	}
	var out []Node
	stmts := fd.Body.List
	for i := 0; i < len(stmts); i++ {
		s := stmts[i]
		// var wg sync.WaitGroup
		if ds, ok := s.(*ast.DeclStmt); ok {
			gd := ds.Decl.(*ast.GenDecl)
			if gd.Tok == token.VAR && len(gd.Specs) == 1 {
				vs := gd.Specs[0].(*ast.ValueSpec)
				if len(vs.Names) == 1 && len(vs.Values) == 0 && typeName(vs.Type) == "sync.WaitGroup" {
					if wg != "" {
						return nil, p.errf(s, "second WaitGroup")
					}
					wg = vs.Names[0].Name
					tracked[wg] = true
					out = append(out, data(p.fset, s))
					continue
				}
			}
		}
		// the creation of the writer
		if wg != "" && output == "" {
			if c, as, h, n := fallible(stmts, i); n > 0 && mentionsAddrOf(c, wg) && len(as.Lhs) == 2 {
				id, ok := as.Lhs[0].(*ast.Ident)
				if !ok {
					return nil, p.errf(s, "channel variable not understood")
				}
				output = id.Name
				tracked[output] = true
				hn, err := handler(h.List)
				if err != nil {
					return nil, err
				}
				out = append(out, Node{Op: "IfErr", Prim: "PCreate " + coqString(lastName(calleeName(c))), A: hn})
				i += n - 1
				continue
			}
			if as, ok := s.(*ast.AssignStmt); ok && len(as.Lhs) == 1 && len(as.Rhs) == 1 {
				if c, ok := as.Rhs[0].(*ast.CallExpr); ok && mentionsAddrOf(c, wg) {
					id, ok := as.Lhs[0].(*ast.Ident)
					if !ok {
						return nil, p.errf(s, "channel variable not understood")
					}
					output = id.Name
					tracked[output] = true
					out = append(out, do("PCreate "+coqString(lastName(calleeName(c)))))
					continue
				}
			}
		}
		if c := callOf(s); c != nil {
			// r.Render(s, sdf.NewXBuffer(output))
			if _, m := methodCall(c); m == "Render" && len(c.Args) == 2 && output != "" {
				if bc, ok := c.Args[1].(*ast.CallExpr); ok && len(bc.Args) == 1 && isIdent(bc.Args[0], output) {
					if ok, why := p.isData(c.Args[0], tracked); !ok {
						return nil, p.errf(s, "Render argument %s", why)
					}
					b := lastName(calleeName(bc))
					if !strings.HasPrefix(b, "New") {
						return nil, p.errf(s, "buffer constructor not understood")
					}
					out = append(out, do("PRender "+coqString(strings.TrimPrefix(b, "New"))))
					continue
				}
				return nil, p.errf(s, "Render call not understood")
			}
			if isIdent(c.Fun, "close") && len(c.Args) == 1 && output != "" && isIdent(c.Args[0], output) {
				out = append(out, do("PCloseChan"))
				continue
			}
			if x, m := methodCall(c); m == "Wait" && wg != "" && isIdent(x, wg) && len(c.Args) == 0 {
				out = append(out, do("PWgWait"))
				continue
			}
		}
		if rs, ok := s.(*ast.ReturnStmt); ok {
			for _, e := range rs.Results {
				if ok, why := p.isData(e, tracked); !ok {
					return nil, p.errf(s, "return value %s", why)
				}
			}
			out = append(out, Node{Op: "Return"})
			continue
		}
		if ok, why := p.isData(s, tracked); ok {
			out = append(out, data(p.fset, s))
			continue
		} else {
			return nil, p.errf(s, "statement not understood (%s)", why)
		}
	}
	return out, nil
}

func lastName(s string) string {
	if i := strings.LastIndex(s, "."); i >= 0 {
		return s[i+1:]
	}
	return s
}

// ---------------------------------------------------------------- writeXXX / WriteTriangles
//
// before the go statement:
//	[x,] err := CALL; if err != nil { H }   IfErr (POpen "CALL") H      H: Data | return nil, err -> ReturnErr
//	c := make(chan T [, n])                 Do (PMakeChan n)
//	wg.Add(n)                               Do (PWgAdd n)
//	go func() { .. }()                      Go [..]
//	return c[, nil]                         Return
// the goroutine:
//	defer wg.Done()                         Defer PWgDone
//	defer x.Close()                         Defer PCloseFile
//	for ts := range c { .. }                RangeChan [..]
//	  for _, t := range ts { .. }           RangeItems [..]
//	    if err := CALL; err != nil { H }    IfErr PWriteItem H          H: Data | for range c {} -> Drain | return -> Return
//	    n++                                 Do PCount
//	    (a body of Data statements only)    .. Do PAccItem
//	x.f = n                                 Do PSetHdr
//	[x,] err := CALL; if err != nil { H }   IfErr (PFinal "CALL") H     H: Data | return -> Return
//	return                                  Return

func (p *pkg) writer(name string) ([]Node, error) {
	fd, err := p.funcDecl("", name)
	if err != nil {
		return nil, err
	}
	p.expandFunc(fd)
	local := map[string]int{}
	p.localConsts(fd.Body, local)
	wg := ""
	for _, f := range fd.Type.Params.List {
		if typeName(f.Type) == "sync.WaitGroup" {
			if _, isPtr := f.Type.(*ast.StarExpr); !isPtr || len(f.Names) != 1 || wg != "" {
				return nil, p.errf(fd, "WaitGroup parameter not understood")
			}
			wg = f.Names[0].Name
		}
	}
	if wg == "" {
		return nil, p.errf(fd, "no *sync.WaitGroup parameter")
	}
	tracked := map[string]bool{wg: true}
	ch := ""
	nres := 0
	if fd.Type.Results != nil {
		for _, f := range fd.Type.Results.List {
			if len(f.Names) == 0 {
				nres++
			} else {
				nres += len(f.Names)
			}
		}
	}
	// return c, nil -> Return ; return nil, err -> ReturnErr
	ret := func(rs *ast.ReturnStmt) (Node, error) {
		if len(rs.Results) != nres || nres == 0 {
			return Node{}, p.errf(rs, "return not understood")
		}
		if nres == 2 && !isIdent(rs.Results[1], "nil") {
			if !isIdent(rs.Results[0], "nil") {
				return Node{}, p.errf(rs, "return of a channel together with an error")
			}
			return Node{Op: "ReturnErr"}, nil
		}
		if ch == "" || !isIdent(rs.Results[0], ch) {
			return Node{}, p.errf(rs, "the function does not return its channel")
		}
		return Node{Op: "Return"}, nil
	}
	// handler of a failing call before the go statement
	openHandler := func(stmts []ast.Stmt) ([]Node, error) {
		var out []Node
		for _, s := range stmts {
			if rs, ok := s.(*ast.ReturnStmt); ok {
				n, err := ret(rs)
				if err != nil {
					return nil, err
				}
				out = append(out, n)
				continue
			}
			if ok, why := p.isData(s, tracked); ok {
				out = append(out, data(p.fset, s))
			} else {
				return nil, p.errf(s, "statement not understood (%s)", why)
			}
		}
		return out, nil
	}
	var out []Node
	stmts := fd.Body.List
	for i := 0; i < len(stmts); i++ {
		s := stmts[i]
		if c, _, h, n := fallible(stmts, i); n > 0 {
			for _, a := range c.Args {
				if ok, why := p.isData(a, tracked); !ok {
					return nil, p.errf(s, "argument %s", why)
				}
			}
			hn, err := openHandler(h.List)
			if err != nil {
				return nil, err
			}
			out = append(out, Node{Op: "IfErr", Prim: "POpen " + coqString(calleeName(c)), A: hn})
			i += n - 1
			continue
		}
		if as, ok := s.(*ast.AssignStmt); ok && as.Tok == token.DEFINE && len(as.Lhs) == 1 && len(as.Rhs) == 1 {
			if c, ok := as.Rhs[0].(*ast.CallExpr); ok && isIdent(c.Fun, "make") && len(c.Args) >= 1 {
				if _, isChan := c.Args[0].(*ast.ChanType); isChan {
					id, ok := as.Lhs[0].(*ast.Ident)
					if !ok || ch != "" {
						return nil, p.errf(s, "channel creation not understood")
					}
					capn := 0
					if len(c.Args) == 2 {
						v, ok := p.constVal(c.Args[1], local)
						if !ok {
							return nil, p.errf(s, "channel capacity is not a constant")
						}
						capn = v
					}
					ch = id.Name
					tracked[ch] = true
					out = append(out, do(fmt.Sprintf("PMakeChan %d", capn)))
					continue
				}
			}
		}
		if c := callOf(s); c != nil {
			if x, m := methodCall(c); m == "Add" && isIdent(x, wg) && len(c.Args) == 1 {
				v, ok := p.constVal(c.Args[0], local)
				if !ok {
					return nil, p.errf(s, "WaitGroup.Add of a non-constant")
				}
				out = append(out, do(fmt.Sprintf("PWgAdd %d", v)))
				continue
			}
		}
		if gs, ok := s.(*ast.GoStmt); ok {
			fl, ok := gs.Call.Fun.(*ast.FuncLit)
			if !ok || len(gs.Call.Args) != 0 || (fl.Type.Params != nil && len(fl.Type.Params.List) != 0) || ch == "" {
				return nil, p.errf(s, "go statement not understood")
			}
			body, err := p.writerGoroutine(fl.Body.List, wg, ch, tracked)
			if err != nil {
				return nil, err
			}
			out = append(out, Node{Op: "Go", A: body})
			continue
		}
		if rs, ok := s.(*ast.ReturnStmt); ok {
			if nres == 1 { // WriteTriangles: return c
				if ch == "" || len(rs.Results) != 1 || !isIdent(rs.Results[0], ch) {
					return nil, p.errf(s, "return not understood")
				}
				out = append(out, Node{Op: "Return"})
				continue
			}
			n, err := ret(rs)
			if err != nil {
				return nil, err
			}
			out = append(out, n)
			continue
		}
		if ok, why := p.isData(s, tracked); ok {
			out = append(out, data(p.fset, s))
			continue
		} else {
			return nil, p.errf(s, "statement not understood (%s)", why)
		}
	}
	return out, nil
}

// unconv strips parentheses and a conversion to an integer type: uint32(n) -> n.
func unconv(e ast.Expr) ast.Expr {
	e = unparen(e)
	if c, ok := e.(*ast.CallExpr); ok && len(c.Args) == 1 {
		if id, ok := c.Fun.(*ast.Ident); ok && intTypes[id.Name] {
			return unconv(c.Args[0])
		}
	}
	return e
}

func copyTracked(m map[string]bool) map[string]bool {
	n := map[string]bool{}
	for k, v := range m {
		n[k] = v
	}
	return n
}

func (p *pkg) writerGoroutine(stmts []ast.Stmt, wg, ch string, tracked0 map[string]bool) ([]Node, error) {
	tracked := copyTracked(tracked0)
	count := ""
	// the counter is the variable incremented inside the item loop
	for _, s := range stmts {
		ast.Inspect(s, func(n ast.Node) bool {
			if ids, ok := n.(*ast.IncDecStmt); ok && ids.Tok == token.INC {
				if id, ok := ids.X.(*ast.Ident); ok {
					count = id.Name
				}
			}
			return true
		})
	}
	if count == "" {
		// no increment found: a local of the goroutine that is copied into a field after the loops
		// (hdr.Count = n) is still the counter - the program then lacks its PCount
		local := topDeclared(stmts)
		for _, s := range stmts {
			if as, ok := s.(*ast.AssignStmt); ok && as.Tok == token.ASSIGN && len(as.Lhs) == 1 && len(as.Rhs) == 1 {
				if _, isSel := as.Lhs[0].(*ast.SelectorExpr); isSel {
					if id, ok := unconv(as.Rhs[0]).(*ast.Ident); ok && local[id.Name] {
						count = id.Name
					}
				}
			}
		}
	}
	if count != "" {
		tracked[count] = true
	}
	// handler of a failing call: where = "item" (inside the item loop) or "final"
	handler := func(hs []ast.Stmt, where string) ([]Node, error) {
		var out []Node
		for _, s := range hs {
			if rs, ok := s.(*ast.ReturnStmt); ok && len(rs.Results) == 0 {
				out = append(out, Node{Op: "Return"})
				continue
			}
			if fr, ok := s.(*ast.RangeStmt); ok && where == "item" && (fr.Key == nil || isIdent(fr.Key, "_")) && fr.Value == nil && isIdent(fr.X, ch) && len(fr.Body.List) == 0 {
				out = append(out, Node{Op: "Drain"})
				continue
			}
			if ok, why := p.isData(s, tracked); ok {
				out = append(out, data(p.fset, s))
			} else {
				return nil, p.errf(s, "statement of an error path not understood (%s)", why)
			}
		}
		return out, nil
	}
	itemBody := func(is []ast.Stmt) ([]Node, error) {
		var out []Node
		protocol := false
		for i := 0; i < len(is); i++ {
			s := is[i]
			if c, _, h, n := fallible(is, i); n > 0 {
				for _, a := range c.Args {
					if ok, why := p.isData(a, tracked); !ok {
						return nil, p.errf(s, "argument %s", why)
					}
				}
				hn, err := handler(h.List, "item")
				if err != nil {
					return nil, err
				}
				out = append(out, Node{Op: "IfErr", Prim: "PWriteItem", A: hn})
				protocol = true
				i += n - 1
				continue
			}
			if ids, ok := s.(*ast.IncDecStmt); ok && ids.Tok == token.INC && count != "" && isIdent(ids.X, count) {
				out = append(out, do("PCount"))
				protocol = true
				continue
			}
			if ok, why := p.isData(s, tracked); ok {
				out = append(out, data(p.fset, s))
			} else {
				return nil, p.errf(s, "statement of the item loop not understood (%s)", why)
			}
		}
		if !protocol {
			out = append(out, do("PAccItem"))
		}
		return out, nil
	}
	var out []Node
	for i := 0; i < len(stmts); i++ {
		s := stmts[i]
		if ds, ok := s.(*ast.DeferStmt); ok {
			x, m := methodCall(ds.Call)
			if x != nil && len(ds.Call.Args) == 0 {
				if m == "Done" && isIdent(x, wg) {
					out = append(out, Node{Op: "Defer", Prim: "PWgDone"})
					continue
				}
				if id, ok := x.(*ast.Ident); ok && m == "Close" && !tracked[id.Name] {
					out = append(out, Node{Op: "Defer", Prim: "PCloseFile"})
					continue
				}
			}
			return nil, p.errf(s, "defer not understood")
		}
		if fr, ok := s.(*ast.RangeStmt); ok && isIdent(fr.X, ch) {
			key, ok := fr.Key.(*ast.Ident)
			if !ok || fr.Value != nil || fr.Tok != token.DEFINE {
				return nil, p.errf(s, "receive loop not understood")
			}
			tr2 := tracked
			tracked = copyTracked(tracked)
			tracked[key.Name] = true
			var body []Node
			for _, b := range fr.Body.List {
				if ir, ok := b.(*ast.RangeStmt); ok && isIdent(ir.X, key.Name) {
					if ir.Tok != token.DEFINE && ir.Key != nil {
						return nil, p.errf(b, "item loop not understood")
					}
					for _, kv := range []ast.Expr{ir.Key, ir.Value} {
						if kv == nil {
							continue
						}
						if id, ok := kv.(*ast.Ident); !ok || tracked[id.Name] {
							return nil, p.errf(b, "item loop not understood")
						}
					}
					ib, err := itemBody(ir.Body.List)
					if err != nil {
						return nil, err
					}
					body = append(body, Node{Op: "RangeItems", A: ib})
					continue
				}
				if ok, why := p.isData(b, tracked); ok {
					body = append(body, data(p.fset, b))
				} else {
					return nil, p.errf(b, "statement of the receive loop not understood (%s)", why)
				}
			}
			tracked = tr2
			out = append(out, Node{Op: "RangeChan", A: body})
			continue
		}
		if c, _, h, n := fallible(stmts, i); n > 0 {
			for _, a := range c.Args {
				if ok, why := p.isData(a, tracked); !ok {
					return nil, p.errf(s, "argument %s", why)
				}
			}
			hn, err := handler(h.List, "final")
			if err != nil {
				return nil, err
			}
			out = append(out, Node{Op: "IfErr", Prim: "PFinal " + coqString(calleeName(c)), A: hn})
			i += n - 1
			continue
		}
		if as, ok := s.(*ast.AssignStmt); ok && as.Tok == token.ASSIGN && len(as.Lhs) == 1 && len(as.Rhs) == 1 && count != "" && isIdent(unconv(as.Rhs[0]), count) {
			if ok, why := p.isData(as.Lhs[0], tracked); !ok {
				return nil, p.errf(s, "assignment of the counter: %s", why)
			}
			out = append(out, do("PSetHdr"))
			continue
		}
		if rs, ok := s.(*ast.ReturnStmt); ok && len(rs.Results) == 0 {
			out = append(out, Node{Op: "Return"})
			continue
		}
		// the declaration of the counter: `var n T`, `n := 0`, `var n = 0` (before the receive loop)
		if as, ok := s.(*ast.AssignStmt); ok && as.Tok == token.DEFINE && len(as.Lhs) == 1 && len(as.Rhs) == 1 && count != "" && isIdent(as.Lhs[0], count) {
			seenLoop := false
			for _, n := range out {
				seenLoop = seenLoop || n.Op == "RangeChan"
			}
			if z, ok := intLit(unconv(as.Rhs[0])); ok && z == 0 && !seenLoop {
				out = append(out, data(p.fset, s))
				continue
			}
			return nil, p.errf(s, "the counter does not start at 0")
		}
		if ds, ok := s.(*ast.DeclStmt); ok && count != "" {
			if gd, ok := ds.Decl.(*ast.GenDecl); ok && gd.Tok == token.VAR {
				for _, sp := range gd.Specs {
					vs := sp.(*ast.ValueSpec)
					for i, id := range vs.Names {
						if id.Name == count && i < len(vs.Values) {
							if z, ok := intLit(unconv(vs.Values[i])); !ok || z != 0 {
								return nil, p.errf(s, "the counter does not start at 0")
							}
						}
					}
				}
			}
		}
		if ok, why := p.isData(s, tracked); ok {
			out = append(out, data(p.fset, s))
			continue
		} else {
			return nil, p.errf(s, "statement of the writer goroutine not understood (%s)", why)
		}
	}
	return out, nil
}

// ---------------------------------------------------------------- render/march3.go

type reqRoles struct{ typ, out, pts, fn, wg, queue string }

// evalReq: one []float64 (out), one other slice (p), one func (fn), one *sync.WaitGroup (wg);
// the request queue is the package-level `make(chan evalReq, n)`.
func (p *pkg) requestRoles() (reqRoles, int, error) {
	r := reqRoles{typ: "evalReq"}
	st, err := p.structDecl(r.typ)
	if err != nil {
		return r, 0, err
	}
	for _, f := range st.Fields.List {
		for _, nm := range f.Names {
			switch t := f.Type.(type) {
			case *ast.ArrayType:
				if t.Len != nil {
					return r, 0, p.errf(f, "array field")
				}
				if isIdent(t.Elt, "float64") {
					if r.out != "" {
						return r, 0, p.errf(f, "two []float64 fields")
					}
					r.out = nm.Name
				} else {
					if r.pts != "" {
						return r, 0, p.errf(f, "two point slices")
					}
					r.pts = nm.Name
				}
			case *ast.FuncType:
				if r.fn != "" {
					return r, 0, p.errf(f, "two function fields")
				}
				r.fn = nm.Name
			case *ast.StarExpr:
				if typeName(t) == "sync.WaitGroup" {
					if r.wg != "" {
						return r, 0, p.errf(f, "two WaitGroup fields")
					}
					r.wg = nm.Name
				} else {
					return r, 0, p.errf(f, "field not understood")
				}
			default:
				return r, 0, p.errf(f, "field not understood")
			}
		}
	}
	if r.out == "" || r.pts == "" || r.fn == "" || r.wg == "" {
		return r, 0, fmt.Errorf("%s: struct %s: need out []float64, a point slice, a function and a *sync.WaitGroup", p.dir, r.typ)
	}
	capn := -1
	for _, f := range p.files {
		for _, d := range f.Decls {
			gd, ok := d.(*ast.GenDecl)
			if !ok || gd.Tok != token.VAR {
				continue
			}
			for _, s := range gd.Specs {
				vs := s.(*ast.ValueSpec)
				for i, id := range vs.Names {
					if i >= len(vs.Values) {
						continue
					}
					c, ok := vs.Values[i].(*ast.CallExpr)
					if !ok || !isIdent(c.Fun, "make") || len(c.Args) < 1 {
						continue
					}
					ct, ok := c.Args[0].(*ast.ChanType)
					if !ok || !isIdent(ct.Value, r.typ) {
						continue
					}
					if r.queue != "" {
						return r, 0, p.errf(vs, "two request queues")
					}
					r.queue = id.Name
					capn = 0
					if len(c.Args) == 2 {
						v, ok := p.constVal(c.Args[1], nil)
						if !ok {
							return r, 0, p.errf(vs, "queue capacity is not a constant")
						}
						capn = v
					}
				}
			}
		}
	}
	if r.queue == "" {
		return r, 0, fmt.Errorf("%s: no package-level chan %s", p.dir, r.typ)
	}
	return r, capn, nil
}

// evalRoutines:
//
//	for i := 0; i < runtime.NumCPU(); i++ { .. }   ForCPU [..]
//	go func() { .. }()                             Go [..]
//	for r := range <queue> { .. }                  RangeChan [..]
//	for i, p = range r.<pts> { .. }                RangeItems [..]
//	r.<out>[i] = r.<fn>(p)                         Do PEvalStore
//	r.<wg>.Done()                                  Do PReqDone
func (p *pkg) evalRoutines(name string, r reqRoles) ([]Node, error) {
	fd, err := p.funcDecl("", name)
	if err != nil {
		return nil, err
	}
	p.expandFunc(fd)
	locals := singleDefs(fd.Body)
	tracked := map[string]bool{r.queue: true}
	var worker func(stmts []ast.Stmt, req, idx, pt string) ([]Node, error)
	worker = func(stmts []ast.Stmt, req, idx, pt string) ([]Node, error) {
		var out []Node
		for _, s := range stmts {
			if fr, ok := s.(*ast.RangeStmt); ok && req == "" && isIdent(fr.X, r.queue) {
				key, ok := fr.Key.(*ast.Ident)
				if !ok || fr.Value != nil || fr.Tok != token.DEFINE {
					return nil, p.errf(s, "receive loop not understood")
				}
				tracked[key.Name] = true
				b, err := worker(fr.Body.List, key.Name, "", "")
				delete(tracked, key.Name)
				if err != nil {
					return nil, err
				}
				out = append(out, Node{Op: "RangeChan", A: b})
				continue
			}
			if fr, ok := s.(*ast.RangeStmt); ok && req != "" && idx == "" && isSel(fr.X, req, r.pts) {
				k, ok1 := fr.Key.(*ast.Ident)
				v, ok2 := fr.Value.(*ast.Ident)
				if !ok1 || !ok2 || k.Name == "_" || v.Name == "_" {
					return nil, p.errf(s, "point loop not understood")
				}
				b, err := worker(fr.Body.List, req, k.Name, v.Name)
				if err != nil {
					return nil, err
				}
				out = append(out, Node{Op: "RangeItems", A: b})
				continue
			}
			if as, ok := s.(*ast.AssignStmt); ok && idx != "" && as.Tok == token.ASSIGN && len(as.Lhs) == 1 && len(as.Rhs) == 1 {
				ix, ok1 := as.Lhs[0].(*ast.IndexExpr)
				c, ok2 := as.Rhs[0].(*ast.CallExpr)
				if ok1 && ok2 && isSel(ix.X, req, r.out) && isIdent(ix.Index, idx) && isSel(c.Fun, req, r.fn) && len(c.Args) == 1 && isIdent(c.Args[0], pt) {
					out = append(out, do("PEvalStore"))
					continue
				}
			}
			if c := callOf(s); c != nil && req != "" && idx == "" {
				if x, m := methodCall(c); m == "Done" && isSel(x, req, r.wg) && len(c.Args) == 0 {
					out = append(out, do("PReqDone"))
					continue
				}
			}
			if ok, why := p.isData(s, tracked); ok {
				out = append(out, data(p.fset, s))
			} else {
				return nil, p.errf(s, "statement of the evaluation routine not understood (%s)", why)
			}
		}
		return out, nil
	}
	var top func(stmts []ast.Stmt, inCPU bool) ([]Node, error)
	top = func(stmts []ast.Stmt, inCPU bool) ([]Node, error) {
		var out []Node
		for _, s := range stmts {
			if fs, ok := asCounted(s); ok && !inCPU {
				if !p.countedLoop(fs, func(e ast.Expr) bool {
					c, ok := p.resolve(e, locals).(*ast.CallExpr)
					return ok && calleeName(c) == "runtime.NumCPU" && len(c.Args) == 0
				}) {
					return nil, p.errf(s, "loop is not `for i := 0; i < runtime.NumCPU(); i++`")
				}
				b, err := top(fs.Body.List, true)
				if err != nil {
					return nil, err
				}
				out = append(out, Node{Op: "ForCPU", A: b})
				continue
			}
			if gs, ok := s.(*ast.GoStmt); ok {
				fl, ok := gs.Call.Fun.(*ast.FuncLit)
				if !ok || len(gs.Call.Args) != 0 || (fl.Type.Params != nil && len(fl.Type.Params.List) != 0) {
					return nil, p.errf(s, "go statement not understood")
				}
				b, err := worker(fl.Body.List, "", "", "")
				if err != nil {
					return nil, err
				}
				out = append(out, Node{Op: "Go", A: b})
				continue
			}
			if ok, why := p.isData(s, tracked); ok {
				out = append(out, data(p.fset, s))
			} else {
				return nil, p.errf(s, "statement not understood (%s)", why)
			}
		}
		return out, nil
	}
	return top(fd.Body.List, false)
}

// asCounted: a for statement, or `for v := range N` (Go 1.22: N an integer) as `for v := 0; v < N; v++`.
// Whether N is an integer is not visible here: the callers use the bound in a way that is only
// right for an integer (it must be runtime.NumCPU(), or its product must be the allocated length),
// or do not depend on it (ForSteps: any number of iterations).
func asCounted(s ast.Stmt) (*ast.ForStmt, bool) {
	switch x := s.(type) {
	case *ast.ForStmt:
		return x, true
	case *ast.RangeStmt:
		if x.Value != nil || (x.Key != nil && x.Tok != token.DEFINE) {
			return nil, false
		}
		name := "i_"
		if x.Key != nil {
			id, ok := x.Key.(*ast.Ident)
			if !ok {
				return nil, false
			}
			if id.Name != "_" {
				name = id.Name
			}
		}
		return &ast.ForStmt{For: x.For,
			Init: &ast.AssignStmt{Lhs: []ast.Expr{ast.NewIdent(name)}, Tok: token.DEFINE, Rhs: []ast.Expr{&ast.BasicLit{Kind: token.INT, Value: "0"}}},
			Cond: &ast.BinaryExpr{X: ast.NewIdent(name), Op: token.LSS, Y: x.X},
			Post: &ast.IncDecStmt{X: ast.NewIdent(name), Tok: token.INC},
			Body: x.Body}, true
	}
	return nil, false
}

// countedLoop matches `for v := 0; v < BOUND; v++ { }` with isBound(BOUND).
func (p *pkg) countedLoop(fs *ast.ForStmt, isBound func(ast.Expr) bool) bool {
	if fs.Init == nil || fs.Cond == nil || fs.Post == nil {
		return false
	}
	as, ok := fs.Init.(*ast.AssignStmt)
	if !ok || as.Tok != token.DEFINE || len(as.Lhs) != 1 || len(as.Rhs) != 1 {
		return false
	}
	v, ok := as.Lhs[0].(*ast.Ident)
	if !ok {
		return false
	}
	if z, ok := intLit(as.Rhs[0]); !ok || z != 0 {
		return false
	}
	be, ok := unparen(fs.Cond).(*ast.BinaryExpr)
	if !ok {
		return false
	}
	x, y, op := be.X, be.Y, be.Op
	if isIdent(unparen(y), v.Name) { // N > v
		x, y = y, x
		op = map[token.Token]token.Token{token.GTR: token.LSS, token.GEQ: token.LEQ}[op]
	}
	if op == token.LEQ {
		y = &ast.BinaryExpr{X: y, Op: token.ADD, Y: &ast.BasicLit{Kind: token.INT, Value: "1"}}
		op = token.LSS
	}
	if op != token.LSS || !isIdent(unparen(x), v.Name) || !isBound(y) {
		return false
	}
	if ids, ok := fs.Post.(*ast.IncDecStmt); ok {
		return ids.Tok == token.INC && isIdent(ids.X, v.Name)
	}
	// v += 1
	if as, ok := fs.Post.(*ast.AssignStmt); ok && as.Tok == token.ADD_ASSIGN && len(as.Lhs) == 1 && len(as.Rhs) == 1 && isIdent(as.Lhs[0], v.Name) {
		one, ok := intLit(as.Rhs[0])
		return ok && one == 1
	}
	return false
}

// assignsTo: does the statement list assign to (or take the address of) the variable v?
func assignsTo(stmts []ast.Stmt, v string) bool {
	found := false
	for _, s := range stmts {
		ast.Inspect(s, func(n ast.Node) bool {
			switch x := n.(type) {
			case *ast.AssignStmt:
				for _, l := range x.Lhs {
					if isIdent(l, v) {
						found = true
					}
				}
			case *ast.IncDecStmt:
				if isIdent(x.X, v) {
					found = true
				}
			case *ast.UnaryExpr:
				if x.Op == token.AND && isIdent(x.X, v) {
					found = true
				}
			}
			return true
		})
	}
	return found
}

// layerYZ.Evaluate:
//
//	eReq := evalReq{<wg>: new(sync.WaitGroup), <fn>: .., <out>: ARRAY}   Do PNewReq   (+ Do PResetPts if the literal
//	                                                                      also has <pts>: make(T, 0, ..) | nil)
//	eReq.<pts> = make(T, 0, ..)                                          Do PResetPts
//	for y := 0; y < NY; y++ { D.. for z := 0; z < NZ; z++ { B } D.. }     ForPoints B   (D: Data; the layer array is
//	                                                                      allocated as make([]float64, (NY)*(NZ)))
//	eReq.<pts> = append(eReq.<pts>, p)                                   Do PAppendPt
//	if len(eReq.<pts>) op K {..}                                         IfLen op K
//	eReq.<wg>.Add(n)                                                     Do (PReqAdd n)
//	<queue> <- eReq                                                      Do PSendReq
//	eReq.<out> = eReq.<out>[K:]                                          Do (PShiftOut K)
//	eReq.<wg>.Wait()                                                     Do PReqWait
func (p *pkg) layerEvaluate(typ, method string, r reqRoles) ([]Node, error) {
	fd, err := p.funcDecl(typ, method)
	if err != nil {
		return nil, err
	}
	p.expandFunc(fd)
	tracked := map[string]bool{r.queue: true}
	local := map[string]int{}
	p.localConsts(fd.Body, local)
	req := ""
	arrayExpr := ""
	var layerLen []ast.Expr // make([]float64, E) found in the function
	ast.Inspect(fd.Body, func(n ast.Node) bool {
		if c, ok := n.(*ast.CallExpr); ok && isIdent(c.Fun, "make") && len(c.Args) == 2 {
			if at, ok := c.Args[0].(*ast.ArrayType); ok && at.Len == nil && isIdent(at.Elt, "float64") {
				layerLen = append(layerLen, c.Args[1])
			}
		}
		return true
	})
	defs := singleDefs(fd.Body)
	isPts := func(e ast.Expr) bool { return req != "" && isSel(e, req, r.pts) }
	var block func(stmts []ast.Stmt, inPoints bool) ([]Node, error)
	block = func(stmts []ast.Stmt, inPoints bool) ([]Node, error) {
		var out []Node
		for _, s := range stmts {
			// local integer constants
			if ds, ok := s.(*ast.DeclStmt); ok {
				gd := ds.Decl.(*ast.GenDecl)
				if gd.Tok == token.CONST {
					out = append(out, data(p.fset, s))
					continue
				}
			}
			// eReq := evalReq{...}
			if as, ok := s.(*ast.AssignStmt); ok && as.Tok == token.DEFINE && len(as.Lhs) == 1 && len(as.Rhs) == 1 && req == "" {
				if cl, ok := as.Rhs[0].(*ast.CompositeLit); ok && isIdent(cl.Type, r.typ) {
					id, ok := as.Lhs[0].(*ast.Ident)
					if !ok || inPoints {
						return nil, p.errf(s, "request not understood")
					}
					seen := map[string]bool{}
					resetInLit := false
					for _, el := range cl.Elts {
						kv, ok := el.(*ast.KeyValueExpr)
						if !ok {
							return nil, p.errf(s, "request literal without field names")
						}
						k, _ := kv.Key.(*ast.Ident)
						if k == nil {
							return nil, p.errf(s, "request literal not understood")
						}
						seen[k.Name] = true
						switch k.Name {
						case r.wg:
							c, ok := kv.Value.(*ast.CallExpr)
							if !ok || !isIdent(c.Fun, "new") || len(c.Args) != 1 || typeName(c.Args[0]) != "sync.WaitGroup" {
								return nil, p.errf(s, "the request does not get a fresh WaitGroup")
							}
						case r.out:
							arrayExpr = expr(p.fset, kv.Value)
							if ok, why := p.isData(kv.Value, tracked); !ok {
								return nil, p.errf(s, "output array %s", why)
							}
						case r.fn:
							if ok, why := p.isData(kv.Value, tracked); !ok {
								return nil, p.errf(s, "function %s", why)
							}
						case r.pts:
							// the point slice may be given its empty start value in the literal
							if v := p.resolve(kv.Value, nil); !isIdent(v, "nil") && !emptyMake(v) && !emptyLit(v) {
								return nil, p.errf(s, "the request is created with points")
							}
							resetInLit = true
						default:
							return nil, p.errf(s, "request field %s set at creation", k.Name)
						}
					}
					if !seen[r.wg] || !seen[r.out] || !seen[r.fn] {
						return nil, p.errf(s, "request literal must set the WaitGroup, the function and the output array")
					}
					req = id.Name
					tracked[req] = true
					out = append(out, do("PNewReq"))
					if resetInLit {
						out = append(out, do("PResetPts"))
					}
					continue
				}
			}
			if as, ok := s.(*ast.AssignStmt); ok && as.Tok == token.ASSIGN && len(as.Lhs) == 1 && len(as.Rhs) == 1 && req != "" {
				if isPts(as.Lhs[0]) {
					if emptyMake(p.resolve(as.Rhs[0], nil)) {
						out = append(out, do("PResetPts"))
						continue
					}
					if c, ok := as.Rhs[0].(*ast.CallExpr); ok && inPoints && isIdent(c.Fun, "append") && len(c.Args) == 2 && !c.Ellipsis.IsValid() && isPts(c.Args[0]) {
						if ok, why := p.isData(c.Args[1], tracked); !ok {
							return nil, p.errf(s, "appended point %s", why)
						}
						out = append(out, do("PAppendPt"))
						continue
					}
					return nil, p.errf(s, "assignment to the point slice not understood")
				}
				if isSel(as.Lhs[0], req, r.out) {
					if sl, ok := as.Rhs[0].(*ast.SliceExpr); ok && isSel(sl.X, req, r.out) && sl.High == nil && sl.Max == nil && sl.Low != nil {
						if k, ok := p.constVal(sl.Low, local); ok {
							out = append(out, do(fmt.Sprintf("PShiftOut %d", k)))
							continue
						}
					}
					return nil, p.errf(s, "assignment to the output slice not understood")
				}
			}
			if ss, ok := s.(*ast.SendStmt); ok {
				if isIdent(ss.Chan, r.queue) && req != "" && isIdent(ss.Value, req) {
					out = append(out, do("PSendReq"))
					continue
				}
				return nil, p.errf(s, "send not understood")
			}
			if c := callOf(s); c != nil && req != "" {
				if x, m := methodCall(c); x != nil && isSel(x, req, r.wg) {
					if m == "Add" && len(c.Args) == 1 {
						if v, ok := p.constVal(c.Args[0], local); ok {
							out = append(out, do(fmt.Sprintf("PReqAdd %d", v)))
							continue
						}
					}
					if m == "Wait" && len(c.Args) == 0 && !inPoints {
						out = append(out, do("PReqWait"))
						continue
					}
					return nil, p.errf(s, "WaitGroup call not understood")
				}
			}
			if is, ok := s.(*ast.IfStmt); ok && is.Init == nil && req != "" {
				if op, k, ok := p.lenTest(is.Cond, isPts, local); ok {
					th, err := block(is.Body.List, inPoints)
					if err != nil {
						return nil, err
					}
					var el []Node
					if is.Else != nil {
						eb, ok := is.Else.(*ast.BlockStmt)
						if !ok {
							return nil, p.errf(is.Else, "else-if not understood")
						}
						if el, err = block(eb.List, inPoints); err != nil {
							return nil, err
						}
					}
					out = append(out, Node{Op: "IfLen", Cmp: op, N: k, A: th, B: el})
					continue
				}
			}
			// the loop nest over the points of the layer
			if fs, ok := asCounted(s); ok && !inPoints && req != "" {
				var ob, ib ast.Expr
				if !p.countedLoop(fs, func(e ast.Expr) bool { ob = e; return true }) {
					return nil, p.errf(s, "outer loop is not `for v := 0; v < N; v++`")
				}
				var inner *ast.ForStmt
				var pre, post []ast.Stmt
				for _, b := range fs.Body.List {
					if f2, ok := asCounted(b); ok {
						if inner != nil {
							return nil, p.errf(b, "two inner loops")
						}
						inner = f2
					} else if inner == nil {
						pre = append(pre, b)
					} else {
						post = append(post, b)
					}
				}
				if inner == nil || !p.countedLoop(inner, func(e ast.Expr) bool { ib = e; return true }) {
					return nil, p.errf(s, "inner loop is not `for v := 0; v < N; v++`")
				}
				ov := fs.Init.(*ast.AssignStmt).Lhs[0].(*ast.Ident).Name
				iv := inner.Init.(*ast.AssignStmt).Lhs[0].(*ast.Ident).Name
				if assignsTo(fs.Body.List, ov) || assignsTo(inner.Body.List, iv) || assignsTo(inner.Body.List, ov) {
					return nil, p.errf(s, "a loop variable is modified inside the loop")
				}
				// the number of points is compared with the allocated length as a polynomial in the
				// variables of the function (locals defined once stand for their definitions)
				want, okW := p.polyOf(&ast.BinaryExpr{X: &ast.ParenExpr{X: ob}, Op: token.MUL, Y: &ast.ParenExpr{X: ib}}, defs, local, 0)
				okLen := false
				var found []string
				for _, l := range layerLen {
					found = append(found, expr(p.fset, l))
					if have, ok := p.polyOf(l, defs, local, 0); ok && okW && have.equal(want) {
						okLen = true
					}
				}
				if !okLen {
					return nil, p.errf(s, "the loops run over (%s)*(%s) points but no make([]float64, ..) of that length is in the function (found %v)",
						expr(p.fset, ob), expr(p.fset, ib), found)
				}
				// the variables the count is made of keep their values throughout the function
				assigned := map[string]bool{}
				ast.Inspect(fd.Body, func(n ast.Node) bool {
					switch x := n.(type) {
					case *ast.AssignStmt:
						if x.Tok != token.DEFINE {
							for _, l := range x.Lhs {
								assigned[expr(p.fset, l)] = true
							}
						}
					case *ast.IncDecStmt:
						assigned[expr(p.fset, x.X)] = true
					}
					return true
				})
				for mono := range want {
					for _, atom := range splitMono(mono) {
						if assigned[atom] {
							return nil, p.errf(s, "%s, which the number of points depends on, is assigned in the function", atom)
						}
					}
				}
				for _, d := range append(append([]ast.Stmt{}, pre...), post...) {
					if ok, why := p.isData(d, tracked); !ok {
						return nil, p.errf(d, "statement of the outer loop not understood (%s)", why)
					}
					out = append(out, Node{Op: "Data", Text: "(outer loop) " + src(p.fset, d)})
				}
				b, err := block(inner.Body.List, true)
				if err != nil {
					return nil, err
				}
				out = append(out, Node{Op: "ForPoints", A: b})
				continue
			}
			if ok, why := p.isData(s, tracked); ok {
				out = append(out, data(p.fset, s))
				continue
			} else {
				return nil, p.errf(s, "statement not understood (%s)", why)
			}
		}
		return out, nil
	}
	out, err := block(fd.Body.List, false)
	if err != nil {
		return nil, err
	}
	// the output array of the request must be the array allocated with the size of the loop nest:
	// `if X == nil { X = make([]float64, ..) }` with X the expression given to the request
	if arrayExpr == "" {
		return nil, p.errf(fd, "no request created")
	}
	okArr := false
	ast.Inspect(fd.Body, func(n ast.Node) bool {
		if as, ok := n.(*ast.AssignStmt); ok && len(as.Lhs) == 1 && len(as.Rhs) == 1 && expr(p.fset, as.Lhs[0]) == arrayExpr {
			if c, ok := as.Rhs[0].(*ast.CallExpr); ok && isIdent(c.Fun, "make") {
				okArr = true
			}
		}
		return true
	})
	if !okArr {
		return nil, p.errf(fd, "the output array %s of the request is not the array allocated in this function", arrayExpr)
	}
	return out, nil
}

// marchingCubes:
//
//	<sync.Once>.Do(f)                 OnceDo "f"
//	f()                               Do (PCall "f")        (f a function of this package without arguments and results)
//	x.Evaluate(s, i)                  Do PLayerEval         (x := a value of the layer type: literal, new, constructor)
//	output.Write(..)                  Do POutWrite
//	for v := 0; v < N; v++ { .. }     ForSteps [..]
//
// hasType: the expression visibly has type T or *T - a composite literal (or its address), new(T),
// or a call of a function of this package declared with that single result type.
func (p *pkg) hasType(e ast.Expr, T string) bool {
	switch x := unparen(e).(type) {
	case *ast.CompositeLit:
		return x.Type != nil && typeName(x.Type) == T
	case *ast.UnaryExpr:
		return x.Op == token.AND && p.hasType(x.X, T)
	case *ast.CallExpr:
		if isIdent(x.Fun, "new") && len(x.Args) == 1 {
			return typeName(x.Args[0]) == T
		}
		if id, ok := x.Fun.(*ast.Ident); ok && !p.shadow[id.Name] {
			if fd, err := p.funcDecl("", id.Name); err == nil && fd.Type.Results != nil && len(fd.Type.Results.List) == 1 &&
				len(fd.Type.Results.List[0].Names) <= 1 {
				return typeName(fd.Type.Results.List[0].Type) == T
			}
		}
	}
	return false
}

func (p *pkg) marching(name, layerType string) ([]Node, error) {
	fd, err := p.funcDecl("", name)
	if err != nil {
		return nil, err
	}
	p.expandFunc(fd)
	output := ""
	for _, f := range fd.Type.Params.List {
		if strings.HasSuffix(typeName(f.Type), "Triangle3Writer") && len(f.Names) == 1 {
			output = f.Names[0].Name
		}
	}
	if output == "" {
		return nil, p.errf(fd, "no Triangle3Writer parameter")
	}
	tracked := map[string]bool{output: true}
	layer := ""
	var block func(stmts []ast.Stmt) ([]Node, error)
	block = func(stmts []ast.Stmt) ([]Node, error) {
		var out []Node
		for _, s := range stmts {
			if as, ok := s.(*ast.AssignStmt); ok && as.Tok == token.DEFINE && len(as.Lhs) == 1 && len(as.Rhs) == 1 && layer == "" {
				if c := as.Rhs[0]; p.hasType(c, layerType) {
					id, ok := as.Lhs[0].(*ast.Ident)
					if !ok {
						return nil, p.errf(s, "layer variable not understood")
					}
					if ok, why := p.isData(c, tracked); !ok {
						return nil, p.errf(s, "layer creation %s", why)
					}
					layer = id.Name
					out = append(out, data(p.fset, s))
					continue
				}
			}
			if c := callOf(s); c != nil {
				x, m := methodCall(c)
				if id, ok := x.(*ast.Ident); ok && m == "Do" && len(c.Args) == 1 {
					if _, t, found := p.globalVar(id.Name); found && typeName(t) == "sync.Once" {
						f, ok := c.Args[0].(*ast.Ident)
						if !ok {
							return nil, p.errf(s, "Once.Do of a function literal")
						}
						out = append(out, Node{Op: "OnceDo", Text: f.Name})
						continue
					}
				}
				if f, ok := c.Fun.(*ast.Ident); ok && len(c.Args) == 0 {
					if cd, err := p.funcDecl("", f.Name); err == nil && cd.Type.Results == nil {
						out = append(out, do("PCall "+coqString(f.Name)))
						continue
					}
				}
				if layer != "" && isIdent(x, layer) && m == "Evaluate" {
					for _, a := range c.Args {
						if ok, why := p.isData(a, tracked); !ok {
							return nil, p.errf(s, "argument %s", why)
						}
					}
					out = append(out, do("PLayerEval"))
					continue
				}
				if isIdent(x, output) && m == "Write" && len(c.Args) == 1 {
					if ok, why := p.isData(c.Args[0], tracked); !ok {
						return nil, p.errf(s, "argument %s", why)
					}
					out = append(out, do("POutWrite"))
					continue
				}
			}
			if fs, ok := asCounted(s); ok {
				if !p.countedLoop(fs, func(e ast.Expr) bool { ok, _ := p.isData(e, tracked); return ok }) {
					return nil, p.errf(s, "loop is not `for v := 0; v < N; v++`")
				}
				b, err := block(fs.Body.List)
				if err != nil {
					return nil, err
				}
				out = append(out, Node{Op: "ForSteps", A: b})
				continue
			}
			if ok, why := p.isData(s, tracked); ok {
				// a Data statement must not call a target function behind our back
				bad := ""
				ast.Inspect(s, func(n ast.Node) bool {
					if c, ok := n.(*ast.CallExpr); ok {
						if f, ok := c.Fun.(*ast.Ident); ok && (f.Name == "evalRoutines") {
							bad = f.Name
						}
						if se, ok := c.Fun.(*ast.SelectorExpr); ok && layer != "" && isIdent(se.X, layer) && se.Sel.Name == "Evaluate" {
							bad = "Evaluate"
						}
					}
					return true
				})
				if bad != "" {
					return nil, p.errf(s, "call of %s inside another statement", bad)
				}
				out = append(out, data(p.fset, s))
				continue
			} else {
				return nil, p.errf(s, "statement not understood (%s)", why)
			}
		}
		return out, nil
	}
	return block(fd.Body.List)
}

// ---------------------------------------------------------------- the generated file

type def struct {
	Name string
	From string
	Body []Node
}

// batchOf finds the batch size in the program of layerYZ.Evaluate: the length of the point slice
// at which the loop over the points of the layer sends a request.
func batchOf(prog []Node) (int, error) {
	found := []int{}
	var walk func(ns []Node, inPoints bool)
	walk = func(ns []Node, inPoints bool) {
		for _, n := range ns {
			if n.Op == "IfLen" && inPoints {
				// the length at which the branch that sends is taken: == n, >= n, > n-1 (and the
				// negated tests when the send is in the else branch)
				sends := func(ns []Node) bool {
					for _, m := range ns {
						if m.Op == "Do" && m.Prim == "PSendReq" {
							return true
						}
					}
					return false
				}
				switch {
				case sends(n.A) && (n.Cmp == "CEq" || n.Cmp == "CGe"), sends(n.B) && (n.Cmp == "CNe" || n.Cmp == "CLt"):
					found = append(found, n.N)
				case sends(n.A) && n.Cmp == "CGt", sends(n.B) && n.Cmp == "CLe":
					found = append(found, n.N+1)
				}
			}
			walk(n.A, inPoints || n.Op == "ForPoints")
			walk(n.B, inPoints || n.Op == "ForPoints")
		}
	}
	walk(prog, false)
	if len(found) != 1 || found[0] < 1 {
		return 0, fmt.Errorf("sysgen: the batching loop of layerYZ.Evaluate compares the batch length with %v: no unique positive batch size", found)
	}
	return found[0], nil
}

// BatchSize returns the batch size of layerYZ.Evaluate of the tree at repo, found from its use.
func BatchSize(repo string) (int, error) {
	render, err := loadPkg(repo, "render")
	if err != nil {
		return 0, err
	}
	roles, _, err := render.requestRoles()
	if err != nil {
		return 0, fmt.Errorf("sysgen: render: %v", err)
	}
	b, err := render.layerEvaluate("layerYZ", "Evaluate", roles)
	if err != nil {
		return 0, fmt.Errorf("sysgen: render: layerYZ.Evaluate: %v", err)
	}
	return batchOf(b)
}

// Translate extracts every target of the tree at repo.
func Translate(repo string) ([]byte, error) {
	sdf, err := loadPkg(repo, "sdf")
	if err != nil {
		return nil, err
	}
	render, err := loadPkg(repo, "render")
	if err != nil {
		return nil, err
	}
	var defs []def
	add := func(name, from string, b []Node, err error) error {
		if err != nil {
			return fmt.Errorf("sysgen: %s: %v", from, err)
		}
		defs = append(defs, def{name, from, b})
		return nil
	}
	for _, t := range []struct{ name, typ, m string }{
		{"T3_Write", "Triangle3Buffer", "Write"}, {"T3_Close", "Triangle3Buffer", "Close"},
		{"L2_Write", "Line2Buffer", "Write"}, {"L2_Close", "Line2Buffer", "Close"}} {
		b, err := sdf.bufferMethod(t.typ, t.m)
		if err := add(t.name, "sdf: "+t.typ+"."+t.m, b, err); err != nil {
			return nil, err
		}
	}
	b, err := sdf.writer("WriteTriangles")
	if err := add("WriteTriangles", "sdf: WriteTriangles", b, err); err != nil {
		return nil, err
	}
	for _, n := range []string{"ToTriangles", "ToSTL", "To3MF", "ToDXF", "ToSVG"} {
		b, err := render.driver(n)
		if err := add(n, "render: "+n, b, err); err != nil {
			return nil, err
		}
	}
	for _, n := range []string{"writeSTL", "write3MF", "writeDXF", "writeSVG"} {
		b, err := render.writer(n)
		if err := add(n, "render: "+n, b, err); err != nil {
			return nil, err
		}
	}
	roles, qcap, err := render.requestRoles()
	if err != nil {
		return nil, fmt.Errorf("sysgen: render: %v", err)
	}
	b, err = render.evalRoutines("evalRoutines", roles)
	if err := add("evalRoutines", "render: evalRoutines", b, err); err != nil {
		return nil, err
	}
	b, err = render.layerEvaluate("layerYZ", "Evaluate", roles)
	if err := add("layerYZ_Evaluate", "render: layerYZ.Evaluate", b, err); err != nil {
		return nil, err
	}
	batch, err := batchOf(b)
	if err != nil {
		return nil, err
	}
	b, err = render.marching("marchingCubes", "layerYZ")
	if err := add("marchingCubes", "render: marchingCubes", b, err); err != nil {
		return nil, err
	}

	var w strings.Builder
	w.WriteString("(* generated by harness/sysgen from the Go source (packages sdf and render: every file of the two\n")
	w.WriteString("   directories is read, a declaration is found wherever it stands) - do not edit.\n")
	w.WriteString("   One program per function: the statements of its normal form (harness/sysgen/normalize.go) in\n")
	w.WriteString("   source order, in the language of Sys/SysLang.v. *)\n")
	w.WriteString("From Coq Require Import List String.\nFrom Sdfx Require Import Sys.SysLang.\nImport ListNotations.\nLocal Open Scope string_scope.\n\n")
	for _, d := range defs {
		fmt.Fprintf(&w, "(* %s *)\nDefinition %s : list stmt := ", d.From, d.Name)
		if len(d.Body) == 0 {
			w.WriteString("[].\n\n")
			continue
		}
		var parts []string
		for _, n := range d.Body {
			parts = append(parts, "  "+n.coq("  "))
		}
		w.WriteString("[\n" + strings.Join(parts, ";\n") + "].\n\n")
	}
	fmt.Fprintf(&w, "(* the batch size: what the batching loop of layerYZ.Evaluate compares the length of the point slice with *)\nDefinition batchSize : nat := %d.\n\n", batch)
	fmt.Fprintf(&w, "(* capacity of the request queue (package-level make(chan %s, n)) *)\nDefinition evalQueueCap : nat := %d.\n\n", roles.typ, qcap)
	names := make([]string, 0, len(defs))
	for _, d := range defs {
		names = append(names, d.Name)
	}
	sort.Strings(names)
	fmt.Fprintf(&w, "(* %d programs: %s *)\n", len(names), strings.Join(names, " "))
	return []byte(w.String()), nil
}

// Gen is the GenFn writing coq/Generated/SysProgs.v.
func Gen(c *kit.Ctx) (string, []byte, error) {
	b, err := Translate(c.Repo)
	if err != nil {
		return "", nil, err
	}
	return "SysProgs.v", b, nil
}
