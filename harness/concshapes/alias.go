package concshapes

// ALIASED CONSTRUCTION: shapes built from other shapes that are ALSO still in use.
//
// The families of shapes.go and the holders of probe.go hammer ONE shape at a time.  A constructor
// that looks at what it is handed (a type switch on its argument: "already a cache", "already a
// transform: compose the matrices", "already a union: flatten") may build its result out of the
// INTERNALS of the argument - the same map, the same slice, the same counters - while the argument
// stays in use.  Each of the two shapes alone is then still correct, sequentially everything is
// still correct, but state that was private to one shape (and guarded by that shape's lock) is now
// reachable from two shapes with two locks.  An alias group is a set of shapes (members) that were
// built from one another / around the same operand VALUES and are used TOGETHER:
//
//	operand0     the (stateful: Cache2D in front, or an extrusion of a Cache2D) first operand itself
//	w1, w2       two results of the same constructor around the same operand values
//	w-of-w1      the constructor applied to its own result (cache of a cache, transform of a
//	             transform, union of a union, array of an array, ...) where dimensions allow
//	cache-of-w1  a Cache2D in front of a 2D result (cache - wrapper - cache)
//
// for every operand-holding constructor of Holders(), plus hand-written groups (chains of caches,
// two Transform3D of one cached extrusion, unions sharing an operand, one profile under several
// extrusions, one operand value passed twice to one constructor, meshes built from one triangle
// slice, texts from one font, polygons / multis from one vertex slice).
//
// Make(e, true) builds the members SHARING (every sub-shape that is mentioned twice is one value);
// Make(e, false) builds the same members with nothing shared (every mention is a fresh private
// tree): the reference.  The caller hammers all shared members at once and compares with the
// reference members evaluated sequentially.
//
// LockDomains walks the heap reachable from the members (reflection, read only) and reports every
// map / slice / channel that is held directly by two distinct struct values each of which has its
// own mutex and no mutex in common: one container in two lock domains.  This needs no schedule.

import (
	"fmt"
	"math"
	"path/filepath"
	"reflect"
	"sort"
	"strings"

	"github.com/deadsy/sdfx/obj"
	"github.com/deadsy/sdfx/sdf"
	v2 "github.com/deadsy/sdfx/vec/v2"
	v3 "github.com/deadsy/sdfx/vec/v3"
)

// AliasMember is one shape of an alias group (exactly one of S2, S3 is non-nil).
type AliasMember struct {
	Name string
	S2   sdf.SDF2
	S3   sdf.SDF3
}

// AliasGroup builds its members, sharing sub-shapes (shared) or not (the reference).
type AliasGroup struct {
	Name string
	Kind string // holder | explicit
	Make func(e *Env, shared bool) ([]AliasMember, error)
}

// sharer turns a constructor expression into "the one value" (shared) or "a fresh value per mention".
type sharer struct{ shared bool }

func (s sharer) v2(f func() sdf.SDF2) func() sdf.SDF2 {
	if !s.shared {
		return f
	}
	var v sdf.SDF2
	return func() sdf.SDF2 {
		if v == nil {
			v = f()
		}
		return v
	}
}
func (s sharer) v3(f func() sdf.SDF3) func() sdf.SDF3 {
	if !s.shared {
		return f
	}
	var v sdf.SDF3
	return func() sdf.SDF3 {
		if v == nil {
			v = f()
		}
		return v
	}
}

// AliasOps2 / AliasOps3: the operands of BaseOps2 / BaseOps3, every second one stateful (a Cache2D
// in front of it, in 3D an extrusion of a cached profile at the same place).
func AliasOps2(n int) []sdf.SDF2 {
	ops := BaseOps2(n)
	for i := range ops {
		if i%2 == 0 {
			ops[i] = sdf.Cache2D(ops[i])
		}
	}
	return ops
}
func AliasOps3(n int) []sdf.SDF3 {
	ops := BaseOps3(n)
	b2 := BaseOps2(n)
	for i := range ops {
		if i%2 == 0 {
			ops[i] = sdf.Extrude3D(sdf.Cache2D(b2[i]), 0.8)
		}
	}
	return ops
}

func aliasFromHolder(hd Holder) AliasGroup {
	return AliasGroup{Name: hd.Name, Kind: "holder", Make: func(e *Env, shared bool) (ms []AliasMember, err error) {
		defer func() {
			if x := recover(); x != nil {
				err = fmt.Errorf("alias group %s: %v", hd.Name, x)
			}
		}()
		resetRand()
		sh := sharer{shared}
		x2 := make([]func() sdf.SDF2, hd.N2)
		x3 := make([]func() sdf.SDF3, hd.N3)
		for i := range x2 {
			i := i
			x2[i] = sh.v2(func() sdf.SDF2 { return AliasOps2(hd.N2)[i] })
		}
		for i := range x3 {
			i := i
			x3[i] = sh.v3(func() sdf.SDF3 { return AliasOps3(hd.N3)[i] })
		}
		ops2 := func() []sdf.SDF2 {
			o := make([]sdf.SDF2, len(x2))
			for i := range o {
				o[i] = x2[i]()
			}
			return o
		}
		ops3 := func() []sdf.SDF3 {
			o := make([]sdf.SDF3, len(x3))
			for i := range o {
				o[i] = x3[i]()
			}
			return o
		}
		type both struct {
			s2 sdf.SDF2
			s3 sdf.SDF3
		}
		build := func(o2 []sdf.SDF2, o3 []sdf.SDF3) both {
			s2, s3, err := hd.Build(o2, o3)
			if err != nil {
				panic(err)
			}
			return both{s2, s3}
		}
		share := func(f func() both) func() both {
			if !shared {
				return f
			}
			var v *both
			return func() both {
				if v == nil {
					b := f()
					v = &b
				}
				return *v
			}
		}
		w1 := share(func() both { return build(ops2(), ops3()) })
		w2 := share(func() both { return build(ops2(), ops3()) })
		if hd.N2 > 0 {
			ms = append(ms, AliasMember{Name: "operand0", S2: x2[0]()})
		} else {
			ms = append(ms, AliasMember{Name: "operand0", S3: x3[0]()})
		}
		a := w1()
		ms = append(ms, AliasMember{"w1", a.s2, a.s3})
		b := w2()
		ms = append(ms, AliasMember{"w2", b.s2, b.s3})
		// the constructor applied to its own result (the other operands are the same values again)
		switch {
		case a.s2 != nil && hd.N2 > 0:
			o := ops2()
			o[0] = w1().s2
			c := build(o, ops3())
			ms = append(ms, AliasMember{"w-of-w1", c.s2, c.s3})
		case a.s3 != nil && hd.N3 > 0:
			o := ops3()
			o[0] = w1().s3
			c := build(ops2(), o)
			ms = append(ms, AliasMember{"w-of-w1", c.s2, c.s3})
		}
		if a.s2 != nil {
			ms = append(ms, AliasMember{Name: "cache-of-w1", S2: sdf.Cache2D(w1().s2)})
		}
		return ms, nil
	}}
}

func m2(name string, s sdf.SDF2) AliasMember { return AliasMember{Name: name, S2: s} }
func m3(name string, s sdf.SDF3) AliasMember { return AliasMember{Name: name, S3: s} }

func explicitAlias(name string, mk func(e *Env, sh sharer) ([]AliasMember, error)) AliasGroup {
	return AliasGroup{Name: name, Kind: "explicit", Make: func(e *Env, shared bool) (ms []AliasMember, err error) {
		defer func() {
			if x := recover(); x != nil {
				err = fmt.Errorf("alias group %s: %v", name, x)
			}
		}()
		resetRand()
		return mk(e, sharer{shared})
	}}
}

// AliasGroups lists every alias group.
func AliasGroups() []AliasGroup {
	var gs []AliasGroup
	poly := func() sdf.SDF2 { return must2(sdf.Polygon2D(star(5, 2, 0.9))) }
	gs = append(gs,
		explicitAlias("cache-chain3", func(e *Env, sh sharer) ([]AliasMember, error) {
			c1 := sh.v2(func() sdf.SDF2 { return sdf.Cache2D(poly()) })
			c2 := sh.v2(func() sdf.SDF2 { return sdf.Cache2D(c1()) })
			c3 := sh.v2(func() sdf.SDF2 { return sdf.Cache2D(c2()) })
			return []AliasMember{m2("cache1", c1()), m2("cache2", c2()), m2("cache3", c3()), m3("extrude-of-cache3", sdf.Extrude3D(c3(), 1))}, nil
		}),
		explicitAlias("two-transform3d-of-cached-extrusion", func(e *Env, sh sharer) ([]AliasMember, error) {
			ex := sh.v3(func() sdf.SDF3 { return sdf.Extrude3D(sdf.Cache2D(must2(sdf.Polygon2D(star(6, 2, 1)))), 1.5) })
			t1 := sh.v3(func() sdf.SDF3 { return sdf.Transform3D(ex(), sdf.RotateX(0.3).Mul(sdf.Translate3d(v3.Vec{X: 0.5}))) })
			t2 := sh.v3(func() sdf.SDF3 {
				return sdf.Transform3D(ex(), sdf.RotateZ(0.7).Mul(sdf.Translate3d(v3.Vec{Y: -0.4, Z: 0.2})))
			})
			return []AliasMember{m3("extrusion", ex()), m3("transform1", t1()), m3("transform2", t2()), m3("union-of-both", sdf.Union3D(t1(), t2()))}, nil
		}),
		explicitAlias("two-unions-sharing-an-operand-2d", func(e *Env, sh sharer) ([]AliasMember, error) {
			a := sh.v2(func() sdf.SDF2 { return box2() })
			b := sh.v2(func() sdf.SDF2 { return sdf.Cache2D(sdf.Transform2D(circle2(), sdf.Translate2d(v2.Vec{X: 1, Y: 0.5}))) })
			c := sh.v2(func() sdf.SDF2 { return sdf.Transform2D(circle2(), sdf.Translate2d(v2.Vec{X: 2.2})) })
			u1 := sh.v2(func() sdf.SDF2 { return sdf.Union2D(a(), b()) })
			u2 := sh.v2(func() sdf.SDF2 { return sdf.Union2D(b(), c()) })
			u3 := sh.v2(func() sdf.SDF2 {
				s := sdf.Union2D(u1(), b(), u2())
				s.(*sdf.UnionSDF2).SetMin(sdf.PolyMin(0.2))
				return s
			})
			// two different unions that both START with the same union (a constructor that flattens by
			// appending to the slice of its first operand would let the second overwrite the first)
			u4 := sdf.Union2D(u1(), c())
			u5 := sdf.Union2D(u1(), sdf.Transform2D(box2(), sdf.Translate2d(v2.Vec{X: -2.5, Y: 1})))
			return []AliasMember{m2("union-ab", u1()), m2("union-bc", u2()), m2("operand-b", b()), m2("blended-union-of-unions", u3()), m2("difference-of-unions", sdf.Difference2D(u1(), u2())),
				m2("union-ab-then-c", u4), m2("union-ab-then-box", u5)}, nil
		}),
		explicitAlias("two-unions-sharing-an-operand-3d", func(e *Env, sh sharer) ([]AliasMember, error) {
			a := sh.v3(func() sdf.SDF3 { return box3() })
			b := sh.v3(func() sdf.SDF3 { return sdf.Transform3D(sphere3(), sdf.Translate3d(v3.Vec{X: 1, Y: 0.5, Z: 0.3})) })
			c := sh.v3(func() sdf.SDF3 { return sdf.Transform3D(cyl3(), sdf.Translate3d(v3.Vec{X: 1.8})) })
			u1 := sh.v3(func() sdf.SDF3 { return sdf.Union3D(a(), b()) })
			u2 := sh.v3(func() sdf.SDF3 { return sdf.Union3D(b(), c()) })
			u4 := sdf.Union3D(u1(), c())
			u5 := sdf.Union3D(u1(), sdf.Transform3D(box3(), sdf.Translate3d(v3.Vec{X: -2.5, Y: 1})))
			return []AliasMember{m3("union-ab", u1()), m3("union-bc", u2()), m3("operand-b", b()), m3("union-of-unions", sdf.Union3D(u1(), u2(), b())), m3("intersection-of-unions", sdf.Intersect3D(u1(), u2())),
				m3("union-ab-then-c", u4), m3("union-ab-then-box", u5)}, nil
		}),
		explicitAlias("one-profile-under-several-extrusions", func(e *Env, sh sharer) ([]AliasMember, error) {
			c := sh.v2(func() sdf.SDF2 { return sdf.Cache2D(sdf.Transform2D(poly(), sdf.Translate2d(v2.Vec{X: 2.5}))) })
			return []AliasMember{
				m2("profile", c()),
				m3("extrude", sdf.Extrude3D(c(), 1)),
				m3("twist-extrude", sdf.TwistExtrude3D(c(), 2, 1.5)),
				m3("scale-extrude", sdf.ScaleExtrude3D(c(), 2, v2.Vec{X: 0.5, Y: 0.7})),
				m3("revolve", must3(sdf.Revolve3D(c()))),
				m3("extrude-rounded", must3(sdf.ExtrudeRounded3D(c(), 1, 0.2))),
				m2("offset", sdf.Offset2D(c(), 0.1)),
			}, nil
		}),
		explicitAlias("one-operand-value-passed-twice", func(e *Env, sh sharer) ([]AliasMember, error) {
			c := sh.v2(func() sdf.SDF2 { return sdf.Cache2D(box2()) })
			s := sh.v3(func() sdf.SDF3 { return sdf.Extrude3D(sdf.Cache2D(circle2()), 1) })
			return []AliasMember{
				m2("operand", c()),
				m2("union-xx", sdf.Union2D(c(), c())),
				m2("intersect-xx", sdf.Intersect2D(c(), c())),
				m2("difference-x-cache-of-x", sdf.Difference2D(c(), sdf.Cache2D(sdf.Transform2D(c(), sdf.Translate2d(v2.Vec{X: 0.7}))))),
				m3("loft-xx", must3(sdf.Loft3D(c(), c(), 2, 0.1))),
				m3("union3d-xx", sdf.Union3D(s(), s())),
				m3("difference3d-x-moved-x", sdf.Difference3D(s(), sdf.Transform3D(s(), sdf.Translate3d(v3.Vec{X: 0.5})))),
			}, nil
		}),
		explicitAlias("meshes-from-one-triangle-slice", func(e *Env, sh sharer) ([]AliasMember, error) {
			var tris []*sdf.Triangle3
			get := func() []*sdf.Triangle3 {
				if !sh.shared {
					return SphereMesh(7)
				}
				if tris == nil {
					tris = SphereMesh(7)
				}
				return tris
			}
			im := sh.v3(func() sdf.SDF3 { return obj.ImportTriMesh(get(), 12, 3, 5) })
			return []AliasMember{
				m3("mesh3d", must3(sdf.Mesh3D(get()))),
				m3("mesh3dslow", must3(sdf.Mesh3DSlow(get()))),
				m3("importtrimesh", im()),
				m3("importtrimesh-again", obj.ImportTriMesh(get(), 10, 3, 5)),
				m3("transform-of-import", sdf.Transform3D(im(), sdf.RotateY(0.4))),
				m3("scale-of-import", sdf.ScaleUniform3D(im(), 1.3)),
				m3("voxel-of-import", sdf.NewVoxelSDF3(im(), 8, nil)),
			}, nil
		}),
		explicitAlias("texts-from-one-font", func(e *Env, sh sharer) ([]AliasMember, error) {
			f0, err := sdf.LoadFont(filepath.Join(e.Repo, "files", "cmr10.ttf"))
			if err != nil {
				return nil, err
			}
			f1 := f0
			if !sh.shared {
				if f1, err = sdf.LoadFont(filepath.Join(e.Repo, "files", "cmr10.ttf")); err != nil {
					return nil, err
				}
			}
			// bezier sampling draws from the library's private random source: every construction of a text
			// starts from the same state, however many were built before it
			t1 := sh.v2(func() sdf.SDF2 { resetRand(); return must2(sdf.Text2D(f0, sdf.NewText("aB"), 4)) })
			resetRand()
			t2 := must2(sdf.Text2D(f1, sdf.NewText("Q"), 3))
			return []AliasMember{m2("text-aB", t1()), m2("text-Q", t2), m2("offset-of-text", sdf.Offset2D(t1(), 0.05)), m3("extrude-of-text", sdf.Extrude3D(t1(), 0.5)), m2("cache-of-text", sdf.Cache2D(t1()))}, nil
		}),
		explicitAlias("shapes-from-one-vertex-slice", func(e *Env, sh sharer) ([]AliasMember, error) {
			var vs []v2.Vec
			verts := func() []v2.Vec {
				if !sh.shared {
					return star(5, 2, 0.9)
				}
				if vs == nil {
					vs = star(5, 2, 0.9)
				}
				return vs
			}
			var ps v2.VecSet
			pos := func() v2.VecSet {
				if !sh.shared || ps == nil {
					ps = v2.VecSet{{X: 0}, {X: 2, Y: 1}, {X: -1, Y: 2}}
				}
				return ps
			}
			lines := func(v []v2.Vec) []*sdf.Line2 {
				var ls []*sdf.Line2
				for i := range v {
					ls = append(ls, &sdf.Line2{v[i], v[(i+1)%len(v)]})
				}
				return ls
			}
			var shl []*sdf.Line2
			ln := func() []*sdf.Line2 {
				if !sh.shared {
					return lines(star(5, 2, 0.9))
				}
				if shl == nil {
					shl = lines(verts())
				}
				return shl
			}
			c := sh.v2(func() sdf.SDF2 { return sdf.Cache2D(circle2()) })
			return []AliasMember{
				m2("polygon", must2(sdf.Polygon2D(verts()))),
				m2("polygon-again", must2(sdf.Polygon2D(verts()))),
				m2("mesh2dslow", must2(sdf.Mesh2DSlow(ln()))),
				m2("mesh2dslow-again", must2(sdf.Mesh2DSlow(ln()))),
				m2("multi", sdf.Multi2D(c(), pos())),
				m2("multi-again", sdf.Multi2D(c(), pos())),
				m2("multi-of-multi", sdf.Multi2D(sdf.Multi2D(c(), pos()), pos())),
			}, nil
		}),
	)
	for _, hd := range Holders() {
		gs = append(gs, aliasFromHolder(hd))
	}
	return gs
}

// AliasByName finds an alias group.
func AliasByName(n string) *AliasGroup {
	for _, g := range AliasGroups() {
		if g.Name == n {
			gg := g
			return &gg
		}
	}
	return nil
}

// ---------------------------------------------------------------------------- lock domains

// SharedContainer: one map / slice / channel held directly by several distinct struct values whose
// mutexes are pairwise different.
type SharedContainer struct {
	Container string   `json:"container"` // type of the container
	Holders   []string `json:"holders"`   // type.field of every holding struct value, with the members it is reached from
	What      string   `json:"what"`
}

type holderRef struct {
	addr    uintptr
	typ     string
	field   string
	locks   []uintptr
	members map[string]bool
}

type visitKey struct {
	p uintptr
	t reflect.Type
	n int
}

type heapWalker struct {
	seen    map[visitKey]bool
	holders map[uintptr]map[uintptr]*holderRef // container -> holder address -> holder
	ctype   map[uintptr]string
	member  string
	budget  int
	anon    uintptr
	ptrs    map[reflect.Type]bool
}

func (w *heapWalker) hasPointers(t reflect.Type) bool {
	if v, ok := w.ptrs[t]; ok {
		return v
	}
	w.ptrs[t] = true // recursive types contain pointers
	r := false
	switch t.Kind() {
	case reflect.Ptr, reflect.Map, reflect.Slice, reflect.Interface, reflect.Chan, reflect.Func, reflect.UnsafePointer:
		r = true
	case reflect.Array:
		r = t.Len() > 0 && w.hasPointers(t.Elem())
	case reflect.Struct:
		for i := 0; i < t.NumField(); i++ {
			if w.hasPointers(t.Field(i).Type) {
				r = true
				break
			}
		}
	}
	w.ptrs[t] = r
	return r
}

func isSyncType(t reflect.Type) bool {
	return t.PkgPath() == "sync" || t.PkgPath() == "sync/atomic"
}

func isLock(t reflect.Type) bool {
	return t.PkgPath() == "sync" && (t.Name() == "Mutex" || t.Name() == "RWMutex")
}

func (w *heapWalker) visit(v reflect.Value, inherited []uintptr) {
	if w.budget <= 0 {
		return
	}
	w.budget--
	switch v.Kind() {
	case reflect.Ptr:
		if v.IsNil() {
			return
		}
		k := visitKey{v.Pointer(), v.Type(), 0}
		if w.seen[k] {
			return
		}
		w.seen[k] = true
		w.visit(v.Elem(), nil)
	case reflect.Interface:
		if v.IsNil() {
			return
		}
		w.visit(v.Elem(), nil)
	case reflect.Struct:
		t := v.Type()
		if isSyncType(t) {
			return
		}
		locks := append([]uintptr{}, inherited...)
		for i := 0; i < t.NumField(); i++ {
			f := v.Field(i)
			ft := f.Type()
			switch {
			case isLock(ft) && f.CanAddr():
				locks = append(locks, f.UnsafeAddr())
			case ft.Kind() == reflect.Ptr && isLock(ft.Elem()) && !f.IsNil():
				locks = append(locks, f.Pointer())
			}
		}
		var self uintptr
		if v.CanAddr() {
			self = v.UnsafeAddr()
		} else {
			w.anon++
			self = ^uintptr(0) - w.anon
		}
		for i := 0; i < t.NumField(); i++ {
			f := v.Field(i)
			switch f.Kind() {
			case reflect.Map, reflect.Chan:
				if !f.IsNil() {
					w.hold(f.Pointer(), f.Type(), self, t, t.Field(i).Name, locks)
				}
			case reflect.Slice:
				if !f.IsNil() && f.Cap() > 0 {
					w.hold(f.Pointer(), f.Type(), self, t, t.Field(i).Name, locks)
				}
			}
			if f.Kind() == reflect.Struct || f.Kind() == reflect.Array {
				w.visit(f, locks) // a struct value inside this one lives under this one's locks
			} else {
				w.visit(f, nil)
			}
		}
	case reflect.Map:
		if v.IsNil() {
			return
		}
		k := visitKey{v.Pointer(), v.Type(), 0}
		if w.seen[k] {
			return
		}
		w.seen[k] = true
		kp, ep := w.hasPointers(v.Type().Key()), w.hasPointers(v.Type().Elem())
		if !kp && !ep {
			return
		}
		it := v.MapRange()
		for n := 0; it.Next() && n < 5000; n++ {
			if kp {
				w.visit(it.Key(), nil)
			}
			if ep {
				w.visit(it.Value(), nil)
			}
		}
	case reflect.Slice:
		if v.IsNil() || v.Len() == 0 || !w.hasPointers(v.Type().Elem()) {
			return
		}
		k := visitKey{v.Pointer(), v.Type(), v.Len()}
		if w.seen[k] {
			return
		}
		w.seen[k] = true
		for i := 0; i < v.Len() && i < 5000; i++ {
			w.visit(v.Index(i), nil)
		}
	case reflect.Array:
		if !w.hasPointers(v.Type().Elem()) {
			return
		}
		for i := 0; i < v.Len() && i < 5000; i++ {
			w.visit(v.Index(i), inherited)
		}
	}
}

func (w *heapWalker) hold(c uintptr, ct reflect.Type, self uintptr, st reflect.Type, field string, locks []uintptr) {
	if c == 0 {
		return
	}
	hs := w.holders[c]
	if hs == nil {
		hs = map[uintptr]*holderRef{}
		w.holders[c] = hs
		w.ctype[c] = ct.String()
	}
	h := hs[self]
	if h == nil {
		h = &holderRef{addr: self, typ: st.String(), field: field, locks: locks, members: map[string]bool{}}
		hs[self] = h
	}
	h.members[w.member] = true
}

// LockDomainStats says what the walk saw.
type LockDomainStats struct {
	Containers    int  `json:"containers"`          // maps / slices / channels held in struct fields
	SharedNoLock  int  `json:"shared_without_lock"` // held by several struct values none of which has a mutex (read-only sharing is legitimate; the race detector judges it)
	LockedHolders int  `json:"holders_with_a_mutex"`
	Truncated     bool `json:"truncated"`
}

// LockDomains walks everything reachable from the members.
func LockDomains(ms []AliasMember) (out []SharedContainer, st LockDomainStats) {
	w := &heapWalker{seen: map[visitKey]bool{}, holders: map[uintptr]map[uintptr]*holderRef{}, ctype: map[uintptr]string{}, ptrs: map[reflect.Type]bool{}}
	for _, m := range ms {
		w.member = m.Name
		w.seen = map[visitKey]bool{} // per member: every holder learns all members it is reachable from
		w.budget = 400000
		func() {
			defer func() { recover() }() // reflection on an odd value: the walk is best effort
			if m.S2 != nil {
				w.visit(reflect.ValueOf(m.S2), nil)
			} else if m.S3 != nil {
				w.visit(reflect.ValueOf(m.S3), nil)
			}
		}()
		if w.budget <= 0 {
			st.Truncated = true
		}
	}
	var cs []uintptr
	for c := range w.holders {
		cs = append(cs, c)
	}
	sort.Slice(cs, func(i, j int) bool { return cs[i] < cs[j] })
	lockedSeen := map[uintptr]bool{}
	for _, c := range cs {
		hs := w.holders[c]
		st.Containers++
		var list []*holderRef
		for _, h := range hs {
			list = append(list, h)
			if len(h.locks) > 0 && !lockedSeen[h.addr] {
				lockedSeen[h.addr] = true
				st.LockedHolders++
			}
		}
		if len(list) < 2 {
			continue
		}
		sort.Slice(list, func(i, j int) bool { return list[i].addr < list[j].addr })
		// two holders with mutexes and none in common
		var bad []*holderRef
		for i := 0; i < len(list) && bad == nil; i++ {
			for j := i + 1; j < len(list); j++ {
				a, b := list[i], list[j]
				if len(a.locks) == 0 || len(b.locks) == 0 {
					continue
				}
				common := false
				for _, x := range a.locks {
					for _, y := range b.locks {
						if x == y {
							common = true
						}
					}
				}
				if !common {
					bad = []*holderRef{a, b}
					break
				}
			}
		}
		if bad == nil {
			locked := false
			for _, h := range list {
				if len(h.locks) > 0 {
					locked = true
				}
			}
			if !locked {
				st.SharedNoLock++
			}
			continue
		}
		var hn []string
		for _, h := range bad {
			var mem []string
			for m := range h.members {
				mem = append(mem, m)
			}
			sort.Strings(mem)
			hn = append(hn, fmt.Sprintf("%s.%s (reached from %s)", h.typ, h.field, strings.Join(mem, ", ")))
		}
		out = append(out, SharedContainer{Container: w.ctype[c], Holders: hn,
			What: fmt.Sprintf("one %s is held by %d distinct struct values; two of them (%s and %s) each lock their OWN mutex around it and have no mutex in common: evaluations through the two shapes access the same container without mutual exclusion",
				w.ctype[c], len(list), hn[0], hn[1])})
	}
	return
}

// AliasPoint: a point of the box (2D: Z = 0) scaled by f about its centre, from three numbers in [0,1).
func AliasPoint(m AliasMember, u [3]float64, f float64) Pt {
	var lo, hi Pt
	d := 3
	if m.S2 != nil {
		bb := m.S2.BoundingBox()
		lo, hi, d = Pt{bb.Min.X, bb.Min.Y, 0}, Pt{bb.Max.X, bb.Max.Y, 0}, 2
	} else {
		bb := m.S3.BoundingBox()
		lo, hi = Pt{bb.Min.X, bb.Min.Y, bb.Min.Z}, Pt{bb.Max.X, bb.Max.Y, bb.Max.Z}
	}
	var p Pt
	for i := 0; i < d; i++ {
		c, s := (lo[i]+hi[i])/2, hi[i]-lo[i]
		if math.IsInf(s, 0) || math.IsNaN(s) || s > 1e6 {
			c, s = 0, 10
		}
		p[i] = c + s*f*(u[i]-0.5)
	}
	return p
}

// Eval evaluates the member at p.
func (m AliasMember) Eval(p Pt) float64 {
	if m.S2 != nil {
		return m.S2.Evaluate(v2.Vec{X: p[0], Y: p[1]})
	}
	return m.S3.Evaluate(v3.Vec{X: p[0], Y: p[1], Z: p[2]})
}
