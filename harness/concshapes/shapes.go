// Package concshapes: one shape of every constructor family of sdf and obj, used by the
// C09 (determinism) and C10 (concurrent evaluation) harnesses.
package concshapes

import (
	"fmt"
	"math"
	"os"
	"path/filepath"

	"github.com/deadsy/sdfx/obj"
	"github.com/deadsy/sdfx/render"
	"github.com/deadsy/sdfx/sdf"
	v2 "github.com/deadsy/sdfx/vec/v2"
	"github.com/deadsy/sdfx/vec/v2i"
	v3 "github.com/deadsy/sdfx/vec/v3"
	"github.com/deadsy/sdfx/vec/v3i"
)

// Env is what constructors need from the outside.
type Env struct {
	Repo string // sdfx source tree (font, STL files)
	Tmp  string // scratch directory
}

// Family builds a fresh instance of one kind of shape (exactly one of the results is non-nil).
type Family struct {
	Name  string
	Group string // primitive, combinator, wrapper, cache, voxel, mesh, text, part
	Make  func(e *Env) (sdf.SDF2, sdf.SDF3, error)
}

func must2(s sdf.SDF2, err error) sdf.SDF2 {
	if err != nil {
		panic(err)
	}
	return s
}
func must3(s sdf.SDF3, err error) sdf.SDF3 {
	if err != nil {
		panic(err)
	}
	return s
}

func f2(name, group string, mk func(e *Env) (sdf.SDF2, error)) Family {
	return Family{name, group, func(e *Env) (sdf.SDF2, sdf.SDF3, error) { resetRand(); s, err := mk(e); return s, nil, err }}
}
func f3(name, group string, mk func(e *Env) (sdf.SDF3, error)) Family {
	return Family{name, group, func(e *Env) (sdf.SDF2, sdf.SDF3, error) { resetRand(); s, err := mk(e); return nil, s, err }}
}

func star(n int, r0, r1 float64) []v2.Vec {
	var vs []v2.Vec
	for i := 0; i < 2*n; i++ {
		r := r0
		if i%2 == 1 {
			r = r1
		}
		a := float64(i) * math.Pi / float64(n)
		vs = append(vs, v2.Vec{X: r * math.Cos(a), Y: r * math.Sin(a)})
	}
	return vs
}

func box2() sdf.SDF2    { return sdf.Box2D(v2.Vec{X: 2, Y: 1}, 0.1) }
func circle2() sdf.SDF2 { return must2(sdf.Circle2D(0.8)) }
func box3() sdf.SDF3    { return must3(sdf.Box3D(v3.Vec{X: 2, Y: 1.5, Z: 1}, 0.1)) }
func sphere3() sdf.SDF3 { return must3(sdf.Sphere3D(0.9)) }
func cyl3() sdf.SDF3    { return must3(sdf.Cylinder3D(2, 0.5, 0.1)) }

// SphereMesh renders a sphere to triangles (sequential octree renderer: no workers involved).
func SphereMesh(cells int) []*sdf.Triangle3 {
	return render.ToTriangles(sphere3(), render.NewMarchingCubesOctree(cells))
}

// All lists the families.
func All() []Family {
	fs := []Family{
		// ---- 2D primitives
		f2("circle2d", "primitive", func(e *Env) (sdf.SDF2, error) { return sdf.Circle2D(1.25) }),
		f2("box2d", "primitive", func(e *Env) (sdf.SDF2, error) { return box2(), nil }),
		f2("line2d", "primitive", func(e *Env) (sdf.SDF2, error) { return sdf.Line2D(3, 0.25), nil }),
		f2("polygon2d", "primitive", func(e *Env) (sdf.SDF2, error) { return sdf.Polygon2D(star(5, 2, 0.9)) }),
		f2("mesh2dslow", "primitive", func(e *Env) (sdf.SDF2, error) {
			vs := star(4, 2, 1)
			var ls []*sdf.Line2
			for i := range vs {
				ls = append(ls, &sdf.Line2{vs[i], vs[(i+1)%len(vs)]})
			}
			return sdf.Mesh2DSlow(ls)
		}),
		f2("cubicspline2d", "primitive", func(e *Env) (sdf.SDF2, error) {
			return sdf.CubicSpline2D([]v2.Vec{{X: 0, Y: 0}, {X: 1, Y: 1.5}, {X: 2, Y: 0.5}, {X: 3, Y: 2}, {X: 4, Y: 0}})
		}),
		f2("gearrack2d", "primitive", func(e *Env) (sdf.SDF2, error) {
			return sdf.GearRack2D(&sdf.GearRackParms{NumberTeeth: 6, Module: 0.5, PressureAngle: sdf.DtoR(20), Backlash: 0, BaseHeight: 0.6})
		}),
		f2("flatflankcam2d", "primitive", func(e *Env) (sdf.SDF2, error) { return sdf.FlatFlankCam2D(1.5, 1, 0.4) }),
		f2("threearccam2d", "primitive", func(e *Env) (sdf.SDF2, error) { return sdf.ThreeArcCam2D(1.5, 1, 0.4, 4) }),
		f2("flange1", "primitive", func(e *Env) (sdf.SDF2, error) { return sdf.NewFlange1(2, 1, 0.5), nil }),
		f2("arcspiral2d", "primitive", func(e *Env) (sdf.SDF2, error) { return sdf.ArcSpiral2D(0.2, 0.15, 0, 4*math.Pi, 0.1) }),
		f2("isothread", "primitive", func(e *Env) (sdf.SDF2, error) { return sdf.ISOThread(2, 0.5, true) }),
		f2("text2d", "text", func(e *Env) (sdf.SDF2, error) {
			f, err := sdf.LoadFont(filepath.Join(e.Repo, "files", "cmr10.ttf"))
			if err != nil {
				return nil, err
			}
			return sdf.Text2D(f, sdf.NewText("aB"), 4)
		}),
		// ---- 2D combinators and wrappers
		f2("offset2d", "combinator", func(e *Env) (sdf.SDF2, error) { return sdf.Offset2D(box2(), 0.2), nil }),
		f2("intersect2d", "combinator", func(e *Env) (sdf.SDF2, error) {
			s := sdf.Intersect2D(box2(), circle2())
			s.(*sdf.IntersectionSDF2).SetMax(sdf.PolyMax(0.1))
			return s, nil
		}),
		f2("cut2d", "combinator", func(e *Env) (sdf.SDF2, error) { return sdf.Cut2D(box2(), v2.Vec{X: 0.2}, v2.Vec{X: 1, Y: 1}), nil }),
		f2("transform2d", "wrapper", func(e *Env) (sdf.SDF2, error) {
			return sdf.Transform2D(box2(), sdf.Rotate2d(0.4).Mul(sdf.Translate2d(v2.Vec{X: 0.5, Y: -0.25}))), nil
		}),
		f2("scaleuniform2d", "wrapper", func(e *Env) (sdf.SDF2, error) { return sdf.ScaleUniform2D(box2(), 1.5), nil }),
		f2("center2d", "wrapper", func(e *Env) (sdf.SDF2, error) {
			return sdf.CenterAndScale2D(sdf.Transform2D(box2(), sdf.Translate2d(v2.Vec{X: 3})), 0.75), nil
		}),
		f2("array2d", "wrapper", func(e *Env) (sdf.SDF2, error) {
			s := sdf.Array2D(circle2(), v2i.Vec{X: 3, Y: 2}, v2.Vec{X: 1.2, Y: 1.3})
			s.(*sdf.ArraySDF2).SetMin(sdf.PolyMin(0.2))
			return s, nil
		}),
		f2("rotateunion2d", "wrapper", func(e *Env) (sdf.SDF2, error) {
			s := sdf.RotateUnion2D(sdf.Transform2D(circle2(), sdf.Translate2d(v2.Vec{X: 1.5})), 5, sdf.Rotate2d(sdf.DtoR(50)))
			s.(*sdf.RotateUnionSDF2).SetMin(sdf.RoundMin(0.1))
			return s, nil
		}),
		f2("rotatecopy2d", "wrapper", func(e *Env) (sdf.SDF2, error) {
			return sdf.RotateCopy2D(sdf.Transform2D(box2(), sdf.Translate2d(v2.Vec{X: 2})), 7), nil
		}),
		f2("slice2d", "wrapper", func(e *Env) (sdf.SDF2, error) {
			return sdf.Slice2D(box3(), v3.Vec{Z: 0.1}, v3.Vec{X: 0.2, Y: 0.1, Z: 1}), nil
		}),
		f2("union2d", "combinator", func(e *Env) (sdf.SDF2, error) {
			s := sdf.Union2D(box2(), sdf.Transform2D(circle2(), sdf.Translate2d(v2.Vec{X: 1, Y: 0.5})), sdf.Transform2D(circle2(), sdf.Translate2d(v2.Vec{X: -3})))
			return s, nil
		}),
		f2("union2d-polymin", "combinator", func(e *Env) (sdf.SDF2, error) {
			s := sdf.Union2D(box2(), sdf.Transform2D(circle2(), sdf.Translate2d(v2.Vec{X: 1, Y: 0.5})))
			s.(*sdf.UnionSDF2).SetMin(sdf.PolyMin(0.3))
			return s, nil
		}),
		f2("difference2d", "combinator", func(e *Env) (sdf.SDF2, error) {
			s := sdf.Difference2D(box2(), circle2())
			s.(*sdf.DifferenceSDF2).SetMax(sdf.PolyMax(0.1))
			return s, nil
		}),
		f2("elongate2d", "combinator", func(e *Env) (sdf.SDF2, error) { return sdf.Elongate2D(circle2(), v2.Vec{X: 1, Y: 0.5}), nil }),
		f2("lineof2d", "wrapper", func(e *Env) (sdf.SDF2, error) {
			return sdf.LineOf2D(circle2(), v2.Vec{}, v2.Vec{X: 6}, "x.xx"), nil
		}),
		f2("multi2d", "wrapper", func(e *Env) (sdf.SDF2, error) {
			return sdf.Multi2D(circle2(), v2.VecSet{{X: 0}, {X: 2, Y: 1}, {X: -1, Y: 2}}), nil
		}),
		f2("cache2d", "cache", func(e *Env) (sdf.SDF2, error) { return sdf.Cache2D(must2(sdf.Polygon2D(star(5, 2, 0.9)))), nil }),
		f2("involutegear", "part", func(e *Env) (sdf.SDF2, error) {
			return obj.InvoluteGear(&obj.InvoluteGearParms{NumberTeeth: 12, Module: 0.4, PressureAngle: sdf.DtoR(20), RingWidth: 0.3, Facets: 5})
		}),
		f2("hex2d", "part", func(e *Env) (sdf.SDF2, error) { return obj.Hex2D(1, 0.1) }),
		f2("washer2d", "part", func(e *Env) (sdf.SDF2, error) {
			return obj.Washer2D(&obj.WasherParms{InnerRadius: 0.5, OuterRadius: 1.2})
		}),
		// ---- 3D primitives
		f3("box3d", "primitive", func(e *Env) (sdf.SDF3, error) { return sdf.Box3D(v3.Vec{X: 2, Y: 1.5, Z: 1}, 0.2) }),
		f3("sphere3d", "primitive", func(e *Env) (sdf.SDF3, error) { return sdf.Sphere3D(1) }),
		f3("cylinder3d", "primitive", func(e *Env) (sdf.SDF3, error) { return sdf.Cylinder3D(2, 0.7, 0.1) }),
		f3("capsule3d", "primitive", func(e *Env) (sdf.SDF3, error) { return sdf.Capsule3D(2.5, 0.5) }),
		f3("cone3d", "primitive", func(e *Env) (sdf.SDF3, error) { return sdf.Cone3D(2, 1, 0.3, 0.1) }),
		f3("gyroid3d", "primitive", func(e *Env) (sdf.SDF3, error) {
			g, err := sdf.Gyroid3D(v3.Vec{X: 1, Y: 1, Z: 1})
			if err != nil {
				return nil, err
			}
			return sdf.Intersect3D(box3(), g), nil
		}),
		// ---- 2D -> 3D
		f3("revolve3d", "combinator", func(e *Env) (sdf.SDF3, error) {
			return sdf.Revolve3D(sdf.Transform2D(circle2(), sdf.Translate2d(v2.Vec{X: 2})))
		}),
		f3("revolvetheta3d", "combinator", func(e *Env) (sdf.SDF3, error) {
			return sdf.RevolveTheta3D(sdf.Transform2D(box2(), sdf.Translate2d(v2.Vec{X: 2})), sdf.DtoR(200))
		}),
		f3("extrude3d", "combinator", func(e *Env) (sdf.SDF3, error) { return sdf.Extrude3D(must2(sdf.Polygon2D(star(5, 2, 0.9))), 1), nil }),
		f3("twistextrude3d", "combinator", func(e *Env) (sdf.SDF3, error) { return sdf.TwistExtrude3D(box2(), 2, 1.5), nil }),
		f3("scaleextrude3d", "combinator", func(e *Env) (sdf.SDF3, error) { return sdf.ScaleExtrude3D(box2(), 2, v2.Vec{X: 0.5, Y: 0.7}), nil }),
		f3("scaletwistextrude3d", "combinator", func(e *Env) (sdf.SDF3, error) {
			return sdf.ScaleTwistExtrude3D(box2(), 2, 1, v2.Vec{X: 0.5, Y: 0.7}), nil
		}),
		f3("extruderounded3d", "combinator", func(e *Env) (sdf.SDF3, error) { return sdf.ExtrudeRounded3D(box2(), 1, 0.2) }),
		f3("loft3d", "combinator", func(e *Env) (sdf.SDF3, error) { return sdf.Loft3D(box2(), circle2(), 2, 0.1) }),
		f3("extrude-cache2d", "cache", func(e *Env) (sdf.SDF3, error) {
			return sdf.Extrude3D(sdf.Cache2D(must2(sdf.Polygon2D(star(6, 2, 1)))), 1.5), nil
		}),
		f3("screw3d", "combinator", func(e *Env) (sdf.SDF3, error) {
			t, err := sdf.ISOThread(1, 0.4, true)
			if err != nil {
				return nil, err
			}
			return sdf.Screw3D(t, 2, 0, 0.4, 1)
		}),
		// ---- 3D combinators and wrappers
		f3("transform3d", "wrapper", func(e *Env) (sdf.SDF3, error) {
			return sdf.Transform3D(box3(), sdf.RotateX(0.3).Mul(sdf.RotateZ(0.7)).Mul(sdf.Translate3d(v3.Vec{X: 0.3, Y: 0.2, Z: -0.1}))), nil
		}),
		f3("scaleuniform3d", "wrapper", func(e *Env) (sdf.SDF3, error) { return sdf.ScaleUniform3D(box3(), 0.6), nil }),
		f3("union3d", "combinator", func(e *Env) (sdf.SDF3, error) {
			return sdf.Union3D(box3(), sdf.Transform3D(sphere3(), sdf.Translate3d(v3.Vec{X: 1, Y: 0.5, Z: 0.3}))), nil
		}),
		f3("union3d-polymin", "combinator", func(e *Env) (sdf.SDF3, error) {
			s := sdf.Union3D(box3(), sdf.Transform3D(sphere3(), sdf.Translate3d(v3.Vec{X: 1, Y: 0.5, Z: 0.3})))
			s.(*sdf.UnionSDF3).SetMin(sdf.PolyMin(0.2))
			return s, nil
		}),
		f3("difference3d", "combinator", func(e *Env) (sdf.SDF3, error) {
			s := sdf.Difference3D(box3(), sphere3())
			s.(*sdf.DifferenceSDF3).SetMax(sdf.PolyMax(0.1))
			return s, nil
		}),
		f3("elongate3d", "combinator", func(e *Env) (sdf.SDF3, error) { return sdf.Elongate3D(sphere3(), v3.Vec{X: 1, Y: 0.5, Z: 0.2}), nil }),
		f3("intersect3d", "combinator", func(e *Env) (sdf.SDF3, error) {
			s := sdf.Intersect3D(box3(), sphere3())
			s.(*sdf.IntersectionSDF3).SetMax(sdf.PolyMax(0.1))
			return s, nil
		}),
		f3("cut3d", "combinator", func(e *Env) (sdf.SDF3, error) {
			return sdf.Cut3D(box3(), v3.Vec{X: 0.1}, v3.Vec{X: 1, Y: 1, Z: 0.5}), nil
		}),
		f3("array3d", "wrapper", func(e *Env) (sdf.SDF3, error) {
			s := sdf.Array3D(sphere3(), v3i.Vec{X: 2, Y: 2, Z: 2}, v3.Vec{X: 1.5, Y: 1.4, Z: 1.3})
			s.(*sdf.ArraySDF3).SetMin(sdf.PolyMin(0.2))
			return s, nil
		}),
		// many copies with overlapping blend ranges: any "parallel fold" would depend on completion order
		f3("array3d-32-blend", "wrapper", func(e *Env) (sdf.SDF3, error) {
			s := sdf.Array3D(sphere3(), v3i.Vec{X: 4, Y: 4, Z: 2}, v3.Vec{X: 1.1, Y: 1.0, Z: 1.2})
			s.(*sdf.ArraySDF3).SetMin(sdf.PolyMin(0.6))
			return s, nil
		}),
		f2("array2d-36-blend", "wrapper", func(e *Env) (sdf.SDF2, error) {
			s := sdf.Array2D(circle2(), v2i.Vec{X: 6, Y: 6}, v2.Vec{X: 1.0, Y: 1.1})
			s.(*sdf.ArraySDF2).SetMin(sdf.PolyMin(0.6))
			return s, nil
		}),
		f3("union3d-40-blend", "combinator", func(e *Env) (sdf.SDF3, error) {
			var parts []sdf.SDF3
			for i := 0; i < 40; i++ {
				parts = append(parts, sdf.Transform3D(sphere3(), sdf.Translate3d(v3.Vec{X: 0.7 * float64(i%8), Y: 0.8 * float64(i/8), Z: 0.1 * float64(i%3)})))
			}
			s := sdf.Union3D(parts...)
			s.(*sdf.UnionSDF3).SetMin(sdf.PolyMin(0.5))
			return s, nil
		}),
		f3("rotateunion3d-36-blend", "wrapper", func(e *Env) (sdf.SDF3, error) {
			s := sdf.RotateUnion3D(sdf.Transform3D(sphere3(), sdf.Translate3d(v3.Vec{X: 3})), 36, sdf.RotateZ(sdf.DtoR(10)))
			s.(*sdf.RotateUnionSDF3).SetMin(sdf.PolyMin(0.4))
			return s, nil
		}),
		f3("rotateunion3d", "wrapper", func(e *Env) (sdf.SDF3, error) {
			s := sdf.RotateUnion3D(sdf.Transform3D(sphere3(), sdf.Translate3d(v3.Vec{X: 1.6})), 5, sdf.RotateZ(sdf.DtoR(50)))
			s.(*sdf.RotateUnionSDF3).SetMin(sdf.PolyMin(0.1))
			return s, nil
		}),
		f3("rotatecopy3d", "wrapper", func(e *Env) (sdf.SDF3, error) {
			return sdf.RotateCopy3D(sdf.Transform3D(box3(), sdf.Translate3d(v3.Vec{X: 2})), 5), nil
		}),
		f3("offset3d", "combinator", func(e *Env) (sdf.SDF3, error) { return sdf.Offset3D(box3(), 0.2), nil }),
		f3("shell3d", "combinator", func(e *Env) (sdf.SDF3, error) { return sdf.Shell3D(sphere3(), 0.2) }),
		f3("lineof3d", "wrapper", func(e *Env) (sdf.SDF3, error) {
			return sdf.LineOf3D(sphere3(), v3.Vec{}, v3.Vec{X: 6}, "x.x"), nil
		}),
		f3("multi3d", "wrapper", func(e *Env) (sdf.SDF3, error) {
			return sdf.Multi3D(sphere3(), v3.VecSet{{X: 0}, {X: 2, Y: 1}, {Y: 2, Z: 1}}), nil
		}),
		f3("orient3d", "wrapper", func(e *Env) (sdf.SDF3, error) {
			return sdf.Orient3D(cyl3(), v3.Vec{Z: 1}, v3.VecSet{{X: 1}, {Y: 1}, {X: 1, Y: 1, Z: 1}}), nil
		}),
		// ---- meshes, voxels, imports
		f3("mesh3d", "mesh", func(e *Env) (sdf.SDF3, error) { return sdf.Mesh3D(SphereMesh(8)) }),
		f3("mesh3dslow", "mesh", func(e *Env) (sdf.SDF3, error) { return sdf.Mesh3DSlow(SphereMesh(6)) }),
		f3("voxel3d", "voxel", func(e *Env) (sdf.SDF3, error) {
			return sdf.NewVoxelSDF3(sdf.Union3D(box3(), sdf.Transform3D(sphere3(), sdf.Translate3d(v3.Vec{X: 1}))), 12, nil), nil
		}),
		f3("importtrimesh", "mesh", func(e *Env) (sdf.SDF3, error) { return obj.ImportTriMesh(SphereMesh(8), 12, 3, 5), nil }),
		f3("importstl", "mesh", func(e *Env) (sdf.SDF3, error) {
			p := filepath.Join(e.Tmp, fmt.Sprintf("sphere-%d.stl", os.Getpid()))
			if err := render.SaveSTL(p, SphereMesh(8)); err != nil {
				return nil, err
			}
			defer os.Remove(p)
			return obj.ImportSTL(p, 12, 3, 5)
		}),
		f3("voxel-of-importstl", "voxel", func(e *Env) (sdf.SDF3, error) {
			p := filepath.Join(e.Tmp, fmt.Sprintf("sphere-v-%d.stl", os.Getpid()))
			if err := render.SaveSTL(p, SphereMesh(6)); err != nil {
				return nil, err
			}
			defer os.Remove(p)
			s, err := obj.ImportSTL(p, 8, 3, 5)
			if err != nil {
				return nil, err
			}
			return sdf.NewVoxelSDF3(s, 8, nil), nil
		}),
		f3("extrude-text2d", "text", func(e *Env) (sdf.SDF3, error) {
			f, err := sdf.LoadFont(filepath.Join(e.Repo, "files", "cmr10.ttf"))
			if err != nil {
				return nil, err
			}
			t, err := sdf.Text2D(f, sdf.NewText("Q"), 3)
			if err != nil {
				return nil, err
			}
			return sdf.Extrude3D(t, 0.5), nil
		}),
		// ---- obj parts
		f3("bolt", "part", func(e *Env) (sdf.SDF3, error) {
			return obj.Bolt(&obj.BoltParms{Thread: "M8x1.25", Style: "hex", TotalLength: 12, ShankLength: 4})
		}),
		f3("nut", "part", func(e *Env) (sdf.SDF3, error) {
			return obj.Nut(&obj.NutParms{Thread: "M8x1.25", Style: "hex"})
		}),
		f3("washer3d", "part", func(e *Env) (sdf.SDF3, error) {
			return obj.Washer3D(&obj.WasherParms{Thickness: 0.3, InnerRadius: 0.5, OuterRadius: 1.2})
		}),
		f3("hex3d", "part", func(e *Env) (sdf.SDF3, error) { return obj.Hex3D(1, 0.8, 0.1) }),
		f3("pipe3d", "part", func(e *Env) (sdf.SDF3, error) { return obj.Pipe3D(1, 0.8, 2) }),
		f3("standoff3d", "part", func(e *Env) (sdf.SDF3, error) {
			return obj.Standoff3D(&obj.StandoffParms{PillarHeight: 3, PillarDiameter: 1, HoleDepth: 1, HoleDiameter: 0.4, NumberWebs: 3, WebHeight: 1, WebDiameter: 2, WebWidth: 0.2})
		}),
		f3("arrow3d", "part", func(e *Env) (sdf.SDF3, error) {
			return obj.Arrow3D(&obj.ArrowParms{Axis: [2]float64{2, 0.15}, Head: [2]float64{0.6, 0.35}, Tail: [2]float64{0.4, 0.3}, Style: "cb"})
		}),
		f3("knurl3d", "part", func(e *Env) (sdf.SDF3, error) {
			return obj.Knurl3D(&obj.KnurlParms{Length: 2, Radius: 1, Pitch: 0.4, Height: 0.1, Theta: sdf.DtoR(45)})
		}),
		f3("chamferedcylinder", "part", func(e *Env) (sdf.SDF3, error) { return obj.ChamferedCylinder(cyl3(), 0.2, 0.3) }),
		// ---- unions with many operands and the plain minimum (sizes beyond any fixed-size buffer
		// an implementation may keep for small unions)
		f2("union2d-100", "combinator", func(e *Env) (sdf.SDF2, error) { return sdf.Union2D(BaseOps2(100)...), nil }),
		f3("union3d-100", "combinator", func(e *Env) (sdf.SDF3, error) { return sdf.Union3D(BaseOps3(100)...), nil }),
	}
	return fs
}

// ByName finds a family.
func ByName(n string) *Family {
	for _, f := range All() {
		if f.Name == n {
			ff := f
			return &ff
		}
	}
	return nil
}

// As3 gives the renderable solid of an instance (2D shapes are extruded).
func As3(s2 sdf.SDF2, s3 sdf.SDF3) sdf.SDF3 {
	if s3 != nil {
		return s3
	}
	return sdf.Extrude3D(s2, 0.75)
}
