package concshapes

// Probe operands: two evaluations of ONE shape that overlap in time, made deterministic.
//
// Every combinator of the library evaluates its operands through the SDF2/SDF3 interface, so an
// operand may be a type defined outside the library.  A probe operand reports the value and the
// box of the library shape it wraps, but while it is being evaluated it makes another complete
// evaluation of the ENCLOSING shape happen:
//
//	re-entrant  the operand itself calls host.Evaluate(q) (depth limited) and then returns its
//	            own value.  One goroutine, no scheduler involved.  This is the schedule "the
//	            evaluation at p is pre-empted inside its operand, the evaluation at q runs to
//	            completion, the evaluation at p resumes" - any state of the host that the outer
//	            evaluation wrote before the operand call and reads after it (scratch slices
//	            kept in the shape, a remembered index, a half-built result) is exposed.
//	gated       the operand parks the evaluation (channel) until the driver releases it; other
//	            goroutines evaluate the host meanwhile.  Two schedules: nested (A parks, B runs
//	            completely, A resumes) and crossed (A parks, B starts and parks, A finishes,
//	            B finishes: exposes save/restore disciplines that survive re-entrance).
//
// The oracle is the caller's: every value (outer and nested) must equal what a second instance
// built from plain operands returns sequentially.
//
// A host that holds a lock across its operand's evaluation (CacheSDF2) cannot be re-entered from
// the same goroutine: the re-entrant evaluation is run under a watchdog and classified Blocked
// (not a finding); under the gate the second evaluation simply waits (Serialised).  Timeouts only
// ever classify a run as blocked/serialised, they never produce a finding.

import (
	"fmt"
	"sync/atomic"
	"time"

	"github.com/deadsy/sdfx/sdf"
	v2 "github.com/deadsy/sdfx/vec/v2"
	"github.com/deadsy/sdfx/vec/v2i"
	v3 "github.com/deadsy/sdfx/vec/v3"
	"github.com/deadsy/sdfx/vec/v3i"
)

// Pt is a point of a 2D (Z ignored) or 3D host.
type Pt [3]float64

type slot struct {
	skip    int           // operand calls to let through before parking
	entered chan struct{} // buffered: the operand never blocks on the driver here
	resume  chan struct{} // closed by the driver
}

// Probe is the state shared by all probe operands of one host.
type Probe struct {
	// re-entrant mode (single goroutine)
	reenter  func(depth, call int) // one complete evaluation of the host at another point
	perLevel []int                 // perLevel[d]: an evaluation at depth d re-enters on its first perLevel[d] operand calls
	depth    int
	calls    []int // operand calls seen by the evaluation at each depth
	// gated mode
	armed chan *slot
	// statistics
	Calls int64
}

func (pr *Probe) hook() {
	atomic.AddInt64(&pr.Calls, 1)
	if pr.armed != nil {
		select {
		case s := <-pr.armed:
			if s.skip > 0 {
				s.skip--
				pr.armed <- s
				break
			}
			s.entered <- struct{}{}
			<-s.resume
		default:
		}
		return
	}
	if pr.reenter == nil || pr.depth >= len(pr.perLevel) {
		return
	}
	d := pr.depth
	k := pr.calls[d]
	pr.calls[d]++
	if k >= pr.perLevel[d] {
		return
	}
	pr.depth = d + 1
	pr.calls[d+1] = 0
	pr.reenter(d+1, k)
	pr.depth = d
}

// Probe2 / Probe3: the operand types.
type Probe2 struct {
	sdf.SDF2
	P *Probe
}

func (o *Probe2) Evaluate(p v2.Vec) float64 {
	o.P.hook()
	return o.SDF2.Evaluate(p)
}

type Probe3 struct {
	sdf.SDF3
	P *Probe
}

func (o *Probe3) Evaluate(p v3.Vec) float64 {
	o.P.hook()
	return o.SDF3.Evaluate(p)
}

// Wrap2 / Wrap3 wrap every operand with a probe operand sharing pr.
func Wrap2(ops []sdf.SDF2, pr *Probe) []sdf.SDF2 {
	out := make([]sdf.SDF2, len(ops))
	for i, o := range ops {
		out[i] = &Probe2{o, pr}
	}
	return out
}
func Wrap3(ops []sdf.SDF3, pr *Probe) []sdf.SDF3 {
	out := make([]sdf.SDF3, len(ops))
	for i, o := range ops {
		out[i] = &Probe3{o, pr}
	}
	return out
}

// Host is one shape under probe.
type Host struct {
	Name     string
	Dim      int
	Eval     func(p Pt) float64 // the instance whose operands are probe operands
	Ref      func(p Pt) float64 // a second instance built from the plain operands (never probed)
	Probe    *Probe
	Min, Max Pt   // bounding box of the host
	Dead     bool // a goroutine is stuck inside Eval (lock held across a re-entrant call): do not use again
}

// NewHost2 / NewHost3 make a host of library shapes.
func NewHost2(name string, probed, ref sdf.SDF2, pr *Probe) *Host {
	bb := ref.BoundingBox()
	return &Host{Name: name, Dim: 2, Probe: pr,
		Eval: func(p Pt) float64 { return probed.Evaluate(v2.Vec{X: p[0], Y: p[1]}) },
		Ref:  func(p Pt) float64 { return ref.Evaluate(v2.Vec{X: p[0], Y: p[1]}) },
		Min:  Pt{bb.Min.X, bb.Min.Y, 0}, Max: Pt{bb.Max.X, bb.Max.Y, 0}}
}
func NewHost3(name string, probed, ref sdf.SDF3, pr *Probe) *Host {
	bb := ref.BoundingBox()
	return &Host{Name: name, Dim: 3, Probe: pr,
		Eval: func(p Pt) float64 { return probed.Evaluate(v3.Vec{X: p[0], Y: p[1], Z: p[2]}) },
		Ref:  func(p Pt) float64 { return ref.Evaluate(v3.Vec{X: p[0], Y: p[1], Z: p[2]}) },
		Min:  Pt{bb.Min.X, bb.Min.Y, bb.Min.Z}, Max: Pt{bb.Max.X, bb.Max.Y, bb.Max.Z}}
}

// NestedEval is one evaluation made from inside an operand.
type NestedEval struct {
	Depth int     `json:"depth"`
	Call  int     `json:"call"` // index of the operand call (of the enclosing evaluation) it was made from
	Q     Pt      `json:"q"`
	Got   float64 `json:"got"`
}

// Overlapped is what one probed run observed.
type Overlapped struct {
	Got     float64      // value of the outer evaluation (A)
	Got2    float64      // gated: value of the other evaluation (B)
	Nested  []NestedEval // re-entrant: the evaluations made from inside operands
	Entered bool         // gated: A reached an operand and was parked
	Crossed bool         // gated: B was parked too while A ran on
	Blocked bool         // the overlapping evaluation could not proceed while the first was inside its operand (lock)
	Hang    string       // an evaluation did not return although nothing held it
	Panic   string
}

const (
	blockedAfter = 300 * time.Millisecond
	hangAfter    = 30 * time.Second
)

// Reentrant evaluates the host at p; operand calls re-enter it at qs (chosen by depth and call
// index) as far as perLevel allows.
func (h *Host) Reentrant(p Pt, qs []Pt, perLevel []int) (res Overlapped) {
	pr := h.Probe
	pr.armed = nil
	pr.perLevel = perLevel
	pr.calls = make([]int, len(perLevel)+1)
	pr.depth = 0
	pr.reenter = func(depth, call int) {
		q := qs[(depth-1+call)%len(qs)]
		v := h.Eval(q)
		res.Nested = append(res.Nested, NestedEval{depth, call, q, v})
	}
	done := make(chan struct{})
	go func() {
		defer func() {
			if x := recover(); x != nil {
				res.Panic = fmt.Sprint(x)
			}
			close(done)
		}()
		res.Got = h.Eval(p)
	}()
	select {
	case <-done:
	case <-time.After(blockedAfter):
		// no progress: the host waits for itself (or the machine is very busy: wait a bit longer, once)
		select {
		case <-done:
		case <-time.After(2 * blockedAfter):
			h.Dead = true
			return Overlapped{Blocked: true}
		}
	}
	pr.reenter = nil
	return
}

// Gated runs the evaluation A at p1 until its (skip+1)-th operand call, parks it there, runs the
// evaluation B at p2 (crossed: B is parked at its first operand call as well, A finishes first),
// then lets everything finish.
func (h *Host) Gated(p1, p2 Pt, skip int, crossed bool) (res Overlapped) {
	pr := h.Probe
	pr.reenter = nil
	pr.armed = make(chan *slot, 1)
	defer func() { pr.armed = nil }()
	run := func(p Pt, out *float64) chan string {
		done := make(chan string, 1)
		go func() {
			defer func() {
				if x := recover(); x != nil {
					done <- fmt.Sprint(x)
					return
				}
				done <- ""
			}()
			*out = h.Eval(p)
		}()
		return done
	}
	finish := func(done chan string, finished *bool) bool {
		if *finished {
			return true
		}
		select {
		case e := <-done:
			*finished = true
			if e != "" {
				res.Panic = e
			}
			return true
		case <-time.After(hangAfter):
			res.Hang = "an evaluation did not return within 30 s after every gate was released"
			h.Dead = true
			return false
		}
	}
	sa := &slot{skip: skip, entered: make(chan struct{}, 1), resume: make(chan struct{})}
	sb := &slot{entered: make(chan struct{}, 1), resume: make(chan struct{})}
	var aDone, bDone bool
	pr.armed <- sa
	da := run(p1, &res.Got)
	select {
	case <-sa.entered:
		res.Entered = true
	case e := <-da:
		// A finished without (skip+1) operand calls: nothing overlaps; B runs after it
		aDone = true
		if e != "" {
			res.Panic = e
		}
		select {
		case <-pr.armed:
		default:
		}
	case <-time.After(hangAfter):
		res.Hang = "the evaluation neither reached an operand nor returned within 30 s"
		h.Dead = true
		return
	}
	if crossed && res.Entered {
		pr.armed <- sb
	}
	db := run(p2, &res.Got2)
	select {
	case e := <-db:
		bDone = true
		if e != "" {
			res.Panic = e
		}
	case <-sb.entered:
		res.Crossed = true
	case <-time.After(blockedAfter):
		// B cannot proceed while A sits in its operand: the host serialises evaluations
		res.Blocked = res.Entered
	}
	if !res.Crossed {
		// B finished, or cannot proceed: nobody may take B's gate any more (A would park on it)
		select {
		case <-pr.armed:
		default:
		}
	}
	close(sa.resume)
	if !finish(da, &aDone) {
		return
	}
	// B may reach its gate only now (it was waiting for A's lock)
	if !bDone && !res.Crossed {
		select {
		case e := <-db:
			bDone = true
			if e != "" {
				res.Panic = e
			}
		case <-sb.entered:
		case <-time.After(hangAfter):
			res.Hang = "the second evaluation did not proceed within 30 s after the first had returned"
			h.Dead = true
			return
		}
	}
	close(sb.resume)
	select {
	case <-pr.armed: // B never took its slot
	default:
	}
	finish(db, &bDone)
	return
}

// Finding: one value that differs from sequential evaluation.
type Finding struct {
	Host  string  `json:"host"`
	Mode  string  `json:"mode"` // reentrant | gated-nested | gated-crossed
	P     Pt      `json:"p"`    // point of the evaluation whose value is wrong
	Other []Pt    `json:"other"`
	Got   float64 `json:"got"`
	Want  float64 `json:"want"`
	What  string  `json:"what"`
}

// ProbeStats counts what the probing exercised.
type ProbeStats struct {
	Runs, NestedEvals, Parked, Crossed, Blocked int
}

func bitsEq(a, b float64) bool { return a == b || (a != a && b != b) }

// SplitMix64 (the same generator as kit.Rng; concshapes does not import kit)
type prng struct{ s uint64 }

func (r *prng) u64() uint64 {
	r.s += 0x9E3779B97F4A7C15
	z := r.s
	z = (z ^ (z >> 30)) * 0xBF58476D1CE4E5B9
	z = (z ^ (z >> 27)) * 0x94D049BB133111EB
	return z ^ (z >> 31)
}
func (r *prng) float() float64 { return float64(r.u64()>>11) / (1 << 53) }

// pointIn: a point of the box scaled by f about its centre.
func (h *Host) pointIn(r *prng, f float64) Pt {
	var p Pt
	for i := 0; i < h.Dim; i++ {
		c, s := (h.Min[i]+h.Max[i])/2, h.Max[i]-h.Min[i]
		p[i] = c + s*f*(r.float()-0.5)
	}
	return p
}

// far: a point many box sizes away from the host.
func (h *Host) far(r *prng) Pt {
	var p Pt
	for i := 0; i < h.Dim; i++ {
		c, s := (h.Min[i]+h.Max[i])/2, h.Max[i]-h.Min[i]+1
		sg := 1.0
		if r.u64()&1 == 1 {
			sg = -1
		}
		p[i] = c + sg*s*(20+30*r.float())
	}
	return p
}

// SweepReentrant / SweepGated probe one host at n points and return every value that differs from
// the reference instance.  A host found blocked / serialised is not probed further in that mode
// (after a blocked re-entrant run the host is Dead: build a new one for the gated sweep).
func (h *Host) SweepReentrant(seed uint64, n int, st *ProbeStats) (finds []Finding) {
	r := &prng{s: seed*0x9E3779B97F4A7C15 + 12345}
	add := func(mode string, p Pt, other []Pt, got, want float64, what string) {
		if len(finds) < 8 {
			finds = append(finds, Finding{h.Name, mode, p, other, got, want, what})
		}
	}
	for k := 0; k < n && !h.Dead; k++ {
		p := h.pointIn(r, 1.3)
		qs := []Pt{h.far(r), h.pointIn(r, 1.3), h.pointIn(r, 0.6), h.far(r), p}
		if k%3 == 1 {
			qs[0], qs[1] = qs[1], qs[0]
		}
		per := []int{4, 1}
		if k%4 == 3 {
			per = []int{2, 2, 1}
		}
		res := h.Reentrant(p, qs, per)
		st.Runs++
		if res.Blocked {
			st.Blocked++
			break
		}
		if res.Panic != "" {
			add("reentrant", p, qs, 0, h.Ref(p), "panic: "+res.Panic)
			break
		}
		st.NestedEvals += len(res.Nested)
		var other []Pt
		for _, ne := range res.Nested {
			other = append(other, ne.Q)
		}
		if want := h.Ref(p); !bitsEq(res.Got, want) {
			add("reentrant", p, other, res.Got, want, fmt.Sprintf("Evaluate(p) with %d evaluation(s) of the same shape at other points made while its operands were being evaluated", len(res.Nested)))
		}
		for _, ne := range res.Nested {
			if want := h.Ref(ne.Q); !bitsEq(ne.Got, want) {
				add("reentrant", ne.Q, []Pt{p}, ne.Got, want, fmt.Sprintf("Evaluate(q) made at depth %d from inside operand call %d of the evaluation at another point", ne.Depth, ne.Call))
			}
		}
	}
	return
}

func (h *Host) SweepGated(seed uint64, n int, st *ProbeStats) (finds []Finding) {
	r := &prng{s: seed*0x9E3779B97F4A7C15 + 54321}
	add := func(mode string, p Pt, other []Pt, got, want float64, what string) {
		if len(finds) < 8 {
			finds = append(finds, Finding{h.Name, mode, p, other, got, want, what})
		}
	}
	serialised := false
	for k := 0; k < n && !h.Dead && !serialised; k++ {
		p1 := h.pointIn(r, 1.3)
		p2 := h.far(r)
		if k%3 == 2 {
			p2 = h.pointIn(r, 1.3)
		}
		crossed := k%2 == 1
		mode := "gated-nested"
		if crossed {
			mode = "gated-crossed"
		}
		res := h.Gated(p1, p2, (k/2)%2, crossed)
		st.Runs++
		if res.Hang != "" {
			add(mode, p1, []Pt{p2}, 0, h.Ref(p1), "hang: "+res.Hang)
			break
		}
		if res.Panic != "" {
			add(mode, p1, []Pt{p2}, 0, h.Ref(p1), "panic: "+res.Panic)
			break
		}
		if res.Entered {
			st.Parked++
		}
		if res.Crossed {
			st.Crossed++
		}
		if res.Blocked {
			st.Blocked++
			serialised = true
		}
		if want := h.Ref(p1); !bitsEq(res.Got, want) {
			add(mode, p1, []Pt{p2}, res.Got, want, "Evaluate(p) of the evaluation that was parked inside an operand while another goroutine evaluated the same shape at the other point")
		}
		if want := h.Ref(p2); !bitsEq(res.Got2, want) {
			add(mode, p2, []Pt{p1}, res.Got2, want, "Evaluate(p) of the evaluation that ran while another evaluation of the same shape was parked inside an operand")
		}
	}
	return
}

// ---------------------------------------------------------------------------- holders

// Holder: a library constructor that keeps operands.
type Holder struct {
	Name   string
	N2, N3 int // number of 2D / 3D operands
	Build  func(o2 []sdf.SDF2, o3 []sdf.SDF3) (sdf.SDF2, sdf.SDF3, error)
}

// BaseOps2 / BaseOps3: n overlapping and separate library shapes on a grid (circles and boxes of
// several sizes; the closest box is often not the closest solid).
func BaseOps2(n int) []sdf.SDF2 {
	ops := make([]sdf.SDF2, n)
	for i := range ops {
		var s sdf.SDF2
		if i%3 == 1 {
			s = sdf.Box2D(v2.Vec{X: 0.6 + 0.5*float64(i%4), Y: 0.5 + 0.25*float64(i%5)}, 0)
		} else {
			s = must2(sdf.Circle2D(0.4 + 0.15*float64(i%5)))
		}
		ops[i] = sdf.Transform2D(s, sdf.Translate2d(v2.Vec{X: 1.3 * float64(i%10), Y: 1.7*float64(i/10) + 0.4*float64(i%3)}))
	}
	return ops
}
func BaseOps3(n int) []sdf.SDF3 {
	ops := make([]sdf.SDF3, n)
	for i := range ops {
		var s sdf.SDF3
		if i%3 == 1 {
			s = must3(sdf.Box3D(v3.Vec{X: 0.6 + 0.5*float64(i%4), Y: 0.5 + 0.25*float64(i%5), Z: 0.7}, 0))
		} else {
			s = must3(sdf.Sphere3D(0.4 + 0.15*float64(i%5)))
		}
		ops[i] = sdf.Transform3D(s, sdf.Translate3d(v3.Vec{X: 1.3 * float64(i%10), Y: 1.7*float64(i/10) + 0.4*float64(i%3), Z: 0.3 * float64(i%4)}))
	}
	return ops
}

func h2(name string, n int, mk func(o []sdf.SDF2) (sdf.SDF2, error)) Holder {
	return Holder{name, n, 0, func(o2 []sdf.SDF2, _ []sdf.SDF3) (sdf.SDF2, sdf.SDF3, error) { s, err := mk(o2); return s, nil, err }}
}
func h23(name string, n int, mk func(o []sdf.SDF2) (sdf.SDF3, error)) Holder {
	return Holder{name, n, 0, func(o2 []sdf.SDF2, _ []sdf.SDF3) (sdf.SDF2, sdf.SDF3, error) { s, err := mk(o2); return nil, s, err }}
}
func h3(name string, n int, mk func(o []sdf.SDF3) (sdf.SDF3, error)) Holder {
	return Holder{name, 0, n, func(_ []sdf.SDF2, o3 []sdf.SDF3) (sdf.SDF2, sdf.SDF3, error) { s, err := mk(o3); return nil, s, err }}
}

// Holders lists every constructor of package sdf that keeps operands and evaluates them in Evaluate.
func Holders() []Holder {
	off2 := func(s sdf.SDF2) sdf.SDF2 { return sdf.Transform2D(s, sdf.Translate2d(v2.Vec{X: 2.5, Y: 0.3})) }
	off3 := func(s sdf.SDF3) sdf.SDF3 { return sdf.Transform3D(s, sdf.Translate3d(v3.Vec{X: 2.5, Y: 0.3})) }
	union2 := func(n int, blend bool) Holder {
		name := fmt.Sprintf("union2d-%d", n)
		if blend {
			name += "-polymin"
		}
		return h2(name, n, func(o []sdf.SDF2) (sdf.SDF2, error) {
			s := sdf.Union2D(o...)
			if blend {
				s.(*sdf.UnionSDF2).SetMin(sdf.PolyMin(0.3))
			}
			return s, nil
		})
	}
	union3 := func(n int, blend bool) Holder {
		name := fmt.Sprintf("union3d-%d", n)
		if blend {
			name += "-polymin"
		}
		return h3(name, n, func(o []sdf.SDF3) (sdf.SDF3, error) {
			s := sdf.Union3D(o...)
			if blend {
				s.(*sdf.UnionSDF3).SetMin(sdf.PolyMin(0.3))
			}
			return s, nil
		})
	}
	return []Holder{
		// ---- 2D
		union2(2, false), union2(3, false), union2(7, false), union2(63, false), union2(64, false), union2(65, false),
		union2(100, false), union2(300, false), union2(3, true), union2(65, true),
		h2("intersect2d", 2, func(o []sdf.SDF2) (sdf.SDF2, error) { return sdf.Intersect2D(o[0], o[1]), nil }),
		h2("intersect2d-polymax", 2, func(o []sdf.SDF2) (sdf.SDF2, error) {
			s := sdf.Intersect2D(o[0], o[1])
			s.(*sdf.IntersectionSDF2).SetMax(sdf.PolyMax(0.1))
			return s, nil
		}),
		h2("difference2d", 2, func(o []sdf.SDF2) (sdf.SDF2, error) { return sdf.Difference2D(o[0], o[1]), nil }),
		h2("difference2d-polymax", 2, func(o []sdf.SDF2) (sdf.SDF2, error) {
			s := sdf.Difference2D(o[0], o[1])
			s.(*sdf.DifferenceSDF2).SetMax(sdf.PolyMax(0.1))
			return s, nil
		}),
		h2("offset2d", 1, func(o []sdf.SDF2) (sdf.SDF2, error) { return sdf.Offset2D(o[0], 0.2), nil }),
		h2("cut2d", 1, func(o []sdf.SDF2) (sdf.SDF2, error) { return sdf.Cut2D(o[0], v2.Vec{X: 0.1}, v2.Vec{X: 1, Y: 1}), nil }),
		h2("transform2d", 1, func(o []sdf.SDF2) (sdf.SDF2, error) {
			return sdf.Transform2D(o[0], sdf.Rotate2d(0.4).Mul(sdf.Translate2d(v2.Vec{X: 0.5, Y: -0.25}))), nil
		}),
		h2("scaleuniform2d", 1, func(o []sdf.SDF2) (sdf.SDF2, error) { return sdf.ScaleUniform2D(o[0], 1.5), nil }),
		h2("centerandscale2d", 1, func(o []sdf.SDF2) (sdf.SDF2, error) { return sdf.CenterAndScale2D(off2(o[0]), 0.75), nil }),
		h2("array2d", 1, func(o []sdf.SDF2) (sdf.SDF2, error) {
			return sdf.Array2D(o[0], v2i.Vec{X: 3, Y: 2}, v2.Vec{X: 1.2, Y: 1.3}), nil
		}),
		h2("array2d-polymin", 1, func(o []sdf.SDF2) (sdf.SDF2, error) {
			s := sdf.Array2D(o[0], v2i.Vec{X: 3, Y: 2}, v2.Vec{X: 1.2, Y: 1.3})
			s.(*sdf.ArraySDF2).SetMin(sdf.PolyMin(0.2))
			return s, nil
		}),
		h2("rotateunion2d", 1, func(o []sdf.SDF2) (sdf.SDF2, error) {
			return sdf.RotateUnion2D(off2(o[0]), 5, sdf.Rotate2d(sdf.DtoR(50))), nil
		}),
		h2("rotateunion2d-roundmin", 1, func(o []sdf.SDF2) (sdf.SDF2, error) {
			s := sdf.RotateUnion2D(off2(o[0]), 5, sdf.Rotate2d(sdf.DtoR(50)))
			s.(*sdf.RotateUnionSDF2).SetMin(sdf.RoundMin(0.1))
			return s, nil
		}),
		h2("rotatecopy2d", 1, func(o []sdf.SDF2) (sdf.SDF2, error) { return sdf.RotateCopy2D(off2(o[0]), 7), nil }),
		h2("elongate2d", 1, func(o []sdf.SDF2) (sdf.SDF2, error) { return sdf.Elongate2D(o[0], v2.Vec{X: 1, Y: 0.5}), nil }),
		h2("lineof2d", 1, func(o []sdf.SDF2) (sdf.SDF2, error) { return sdf.LineOf2D(o[0], v2.Vec{}, v2.Vec{X: 6}, "x.xx"), nil }),
		h2("multi2d", 1, func(o []sdf.SDF2) (sdf.SDF2, error) {
			return sdf.Multi2D(o[0], v2.VecSet{{X: 0}, {X: 2, Y: 1}, {X: -1, Y: 2}}), nil
		}),
		h2("cache2d", 1, func(o []sdf.SDF2) (sdf.SDF2, error) { return sdf.Cache2D(o[0]), nil }),
		h2("union2d-of-cache2d", 2, func(o []sdf.SDF2) (sdf.SDF2, error) { return sdf.Union2D(sdf.Cache2D(o[0]), off2(o[1])), nil }),
		Holder{"slice2d", 0, 1, func(_ []sdf.SDF2, o []sdf.SDF3) (sdf.SDF2, sdf.SDF3, error) {
			return sdf.Slice2D(o[0], v3.Vec{Z: 0.1}, v3.Vec{X: 0.2, Y: 0.1, Z: 1}), nil, nil
		}},
		// ---- 2D operands, 3D shape
		h23("extrude3d", 1, func(o []sdf.SDF2) (sdf.SDF3, error) { return sdf.Extrude3D(o[0], 1), nil }),
		h23("twistextrude3d", 1, func(o []sdf.SDF2) (sdf.SDF3, error) { return sdf.TwistExtrude3D(o[0], 2, 1.5), nil }),
		h23("scaleextrude3d", 1, func(o []sdf.SDF2) (sdf.SDF3, error) {
			return sdf.ScaleExtrude3D(o[0], 2, v2.Vec{X: 0.5, Y: 0.7}), nil
		}),
		h23("scaletwistextrude3d", 1, func(o []sdf.SDF2) (sdf.SDF3, error) {
			return sdf.ScaleTwistExtrude3D(o[0], 2, 1, v2.Vec{X: 0.5, Y: 0.7}), nil
		}),
		h23("extruderounded3d", 1, func(o []sdf.SDF2) (sdf.SDF3, error) { return sdf.ExtrudeRounded3D(o[0], 1, 0.2) }),
		h23("loft3d", 2, func(o []sdf.SDF2) (sdf.SDF3, error) { return sdf.Loft3D(o[0], o[1], 2, 0.1) }),
		h23("revolve3d", 1, func(o []sdf.SDF2) (sdf.SDF3, error) { return sdf.Revolve3D(off2(o[0])) }),
		h23("revolvetheta3d", 1, func(o []sdf.SDF2) (sdf.SDF3, error) { return sdf.RevolveTheta3D(off2(o[0]), sdf.DtoR(200)) }),
		h23("screw3d", 1, func(o []sdf.SDF2) (sdf.SDF3, error) { return sdf.Screw3D(o[0], 2, 0, 0.4, 1) }),
		h23("extrude-cache2d", 1, func(o []sdf.SDF2) (sdf.SDF3, error) { return sdf.Extrude3D(sdf.Cache2D(o[0]), 1.5), nil }),
		// ---- 3D
		union3(2, false), union3(3, false), union3(65, false), union3(100, false), union3(3, true), union3(65, true),
		h3("intersect3d", 2, func(o []sdf.SDF3) (sdf.SDF3, error) { return sdf.Intersect3D(o[0], o[1]), nil }),
		h3("intersect3d-polymax", 2, func(o []sdf.SDF3) (sdf.SDF3, error) {
			s := sdf.Intersect3D(o[0], o[1])
			s.(*sdf.IntersectionSDF3).SetMax(sdf.PolyMax(0.1))
			return s, nil
		}),
		h3("difference3d", 2, func(o []sdf.SDF3) (sdf.SDF3, error) { return sdf.Difference3D(o[0], o[1]), nil }),
		h3("difference3d-polymax", 2, func(o []sdf.SDF3) (sdf.SDF3, error) {
			s := sdf.Difference3D(o[0], o[1])
			s.(*sdf.DifferenceSDF3).SetMax(sdf.PolyMax(0.1))
			return s, nil
		}),
		h3("elongate3d", 1, func(o []sdf.SDF3) (sdf.SDF3, error) { return sdf.Elongate3D(o[0], v3.Vec{X: 1, Y: 0.5, Z: 0.2}), nil }),
		h3("cut3d", 1, func(o []sdf.SDF3) (sdf.SDF3, error) {
			return sdf.Cut3D(o[0], v3.Vec{X: 0.1}, v3.Vec{X: 1, Y: 1, Z: 0.5}), nil
		}),
		h3("array3d", 1, func(o []sdf.SDF3) (sdf.SDF3, error) {
			return sdf.Array3D(o[0], v3i.Vec{X: 2, Y: 2, Z: 2}, v3.Vec{X: 1.5, Y: 1.4, Z: 1.3}), nil
		}),
		h3("array3d-polymin", 1, func(o []sdf.SDF3) (sdf.SDF3, error) {
			s := sdf.Array3D(o[0], v3i.Vec{X: 2, Y: 2, Z: 2}, v3.Vec{X: 1.5, Y: 1.4, Z: 1.3})
			s.(*sdf.ArraySDF3).SetMin(sdf.PolyMin(0.2))
			return s, nil
		}),
		h3("rotateunion3d", 1, func(o []sdf.SDF3) (sdf.SDF3, error) {
			return sdf.RotateUnion3D(off3(o[0]), 5, sdf.RotateZ(sdf.DtoR(50))), nil
		}),
		h3("rotateunion3d-polymin", 1, func(o []sdf.SDF3) (sdf.SDF3, error) {
			s := sdf.RotateUnion3D(off3(o[0]), 5, sdf.RotateZ(sdf.DtoR(50)))
			s.(*sdf.RotateUnionSDF3).SetMin(sdf.PolyMin(0.1))
			return s, nil
		}),
		h3("rotatecopy3d", 1, func(o []sdf.SDF3) (sdf.SDF3, error) { return sdf.RotateCopy3D(off3(o[0]), 5), nil }),
		h3("transform3d", 1, func(o []sdf.SDF3) (sdf.SDF3, error) {
			return sdf.Transform3D(o[0], sdf.RotateX(0.3).Mul(sdf.RotateZ(0.7)).Mul(sdf.Translate3d(v3.Vec{X: 0.3, Y: 0.2, Z: -0.1}))), nil
		}),
		h3("scaleuniform3d", 1, func(o []sdf.SDF3) (sdf.SDF3, error) { return sdf.ScaleUniform3D(o[0], 0.6), nil }),
		h3("offset3d", 1, func(o []sdf.SDF3) (sdf.SDF3, error) { return sdf.Offset3D(o[0], 0.2), nil }),
		h3("shell3d", 1, func(o []sdf.SDF3) (sdf.SDF3, error) { return sdf.Shell3D(o[0], 0.2) }),
		h3("lineof3d", 1, func(o []sdf.SDF3) (sdf.SDF3, error) { return sdf.LineOf3D(o[0], v3.Vec{}, v3.Vec{X: 6}, "x.x"), nil }),
		h3("multi3d", 1, func(o []sdf.SDF3) (sdf.SDF3, error) {
			return sdf.Multi3D(o[0], v3.VecSet{{X: 0}, {X: 2, Y: 1}, {Y: 2, Z: 1}}), nil
		}),
		h3("orient3d", 1, func(o []sdf.SDF3) (sdf.SDF3, error) {
			return sdf.Orient3D(o[0], v3.Vec{Z: 1}, v3.VecSet{{X: 1}, {Y: 1}, {X: 1, Y: 1, Z: 1}}), nil
		}),
	}
}

// NewHolderHost builds the probed instance and the reference instance of a holder.
func NewHolderHost(hd Holder) (h *Host, err error) {
	defer func() {
		if x := recover(); x != nil {
			err = fmt.Errorf("constructor of %s: %v", hd.Name, x)
		}
	}()
	pr := &Probe{}
	p2, p3, err := hd.Build(Wrap2(BaseOps2(hd.N2), pr), Wrap3(BaseOps3(hd.N3), pr))
	if err != nil {
		return nil, err
	}
	r2, r3, err := hd.Build(BaseOps2(hd.N2), BaseOps3(hd.N3))
	if err != nil {
		return nil, err
	}
	if p2 != nil {
		return NewHost2(hd.Name, p2, r2, pr), nil
	}
	return NewHost3(hd.Name, p3, r3, pr), nil
}
