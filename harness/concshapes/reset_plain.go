//go:build !verif

package concshapes

func resetRand() {}
