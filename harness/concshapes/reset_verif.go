//go:build verif

package concshapes

import "github.com/deadsy/sdfx/sdf"

// resetRand: the hook sdf/verif_hooks_c10.go makes construction reproducible within one process.
func resetRand() { sdf.VerifResetRand() }
