package iogen

import (
	"fmt"
	"go/types"
	"strings"
)

// Coq name of a translated function
func coqName(fo *types.Func) string {
	sig := fo.Type().(*types.Signature)
	pk := ""
	switch fo.Pkg().Path() {
	case module + "/vec/v2":
		pk = "v2_"
	case module + "/vec/v3":
		pk = "v3_"
	}
	if sig.Recv() != nil {
		t := sig.Recv().Type()
		if p, ok := t.(*types.Pointer); ok {
			t = p.Elem()
		}
		if n, ok := t.(*types.Named); ok {
			return "gen_" + pk + n.Obj().Name() + "_" + fo.Name()
		}
	}
	return "gen_" + pk + fo.Name()
}

func (g *gen) translate(fo *types.Func) (*fnInfo, error) {
	if inf, ok := g.funcs[fo]; ok {
		return inf, nil
	}
	fd := g.decls[fo]
	if fd == nil {
		return nil, fmt.Errorf("function %s has no body in the source tree", fo.FullName())
	}
	if g.busy[fo] {
		return nil, g.errf(fd, "recursive function %s is not understood", fo.Name())
	}
	g.busy[fo] = true
	defer delete(g.busy, fo)
	p := g.declPkg[fo]
	sc := g.scanFunc(fo)
	sig := fo.Type().(*types.Signature)
	if sc.bad != "" {
		return nil, g.errf(fd, "%s", sc.bad)
	}
	inf := &fnInfo{name: coqName(fo), res: sc.res, world: sc.world, mutRecv: sc.mutRecv, mutPar: sc.mutList()}
	f := &fn{g: g, p: p, info: p.TypesInfo, inf: inf, env: map[types.Object]*binding{}, names: map[string]int{},
		pure: !sc.res && !sc.world, sig: sig, body: fd.Body, assignCount: map[types.Object]int{}}
	if sc.world && !sc.res {
		inf.res = true
		f.pure = false
	}
	var params []string
	if sig.Recv() != nil {
		if fd.Recv == nil || len(fd.Recv.List) != 1 || len(fd.Recv.List[0].Names) != 1 {
			return nil, g.errf(fd, "receiver form is not understood")
		}
		ro := p.TypesInfo.Defs[fd.Recv.List[0].Names[0]].(*types.Var)
		t, err := f.ctype(fd, ro.Type())
		if err != nil {
			return nil, err
		}
		b := f.declare(ro, t)
		inf.recv = ro
		params = append(params, "("+b.name+" : "+t.coq()+")")
	}
	for i := 0; i < sig.Params().Len(); i++ {
		pv := sig.Params().At(i)
		inf.params = append(inf.params, pv)
		t, err := f.ctype(fd, pv.Type())
		if err != nil {
			return nil, err
		}
		// the object of the parameter as used in the body
		var po types.Object = pv
		b := f.declare(po, t)
		if !b.tok {
			params = append(params, "("+b.name+" : "+t.coq()+")")
		}
	}
	if sig.Variadic() {
		return nil, g.errf(fd, "variadic function %s is not understood", fo.Name())
	}
	var resT []string
	for i := 0; i < sig.Results().Len(); i++ {
		rt := sig.Results().At(i).Type()
		t, err := f.ctype(fd, rt)
		if err != nil {
			return nil, err
		}
		switch t.k {
		case kError:
			inf.hasErr = true
		case kToken:
		case kChan:
			inf.chanW = true
			params = append(params, "(batches : list "+t.elem.coq()+")")
		default:
			inf.results = append(inf.results, t)
			resT = append(resT, t.coq())
		}
	}
	if inf.mutRecv {
		resT = append(resT, f.env[inf.recv].t.coq())
	}
	for _, i := range inf.mutPar {
		b := f.env[inf.params[i]]
		if b == nil || b.tok {
			return nil, g.errf(fd, "parameter %s is written through but has no value in the model", inf.params[i].Name())
		}
		resT = append(resT, b.t.coq())
	}
	if inf.world {
		params = append(params, "(w : World)")
		resT = append(resT, "World")
	}
	retT := "unit"
	if len(resT) == 1 {
		retT = resT[0]
	} else if len(resT) > 1 {
		retT = "(" + strings.Join(resT, " * ") + ")"
	}
	if !f.pure {
		retT = "res " + retT
	}
	g.funcs[fo] = inf
	// named results are variables holding the zero value
	namedPrefix := ""
	for i := 0; i < sig.Results().Len(); i++ {
		rv := sig.Results().At(i)
		if rv.Name() == "" || rv.Name() == "_" {
			continue
		}
		t, err := f.ctype(fd, rv.Type())
		if err != nil {
			return nil, err
		}
		if t.k == kToken || t.k == kChan {
			return nil, g.errf(fd, "named result %s of this type is not understood", rv.Name())
		}
		z, err := g.zero(t)
		if err != nil {
			return nil, g.errf(fd, "named result %s: %v", rv.Name(), err)
		}
		b := f.declare(rv, t)
		namedPrefix += "let " + b.name + " := " + z + " in\n"
	}
	body, err := f.block(fd.Body.List, func() (string, error) {
		if sig.Results().Len() != 0 {
			return "", g.errf(fd, "the body of %s may end without a return", fo.Name())
		}
		return f.retTerm(fd, nil, "None")
	})
	if err != nil {
		delete(g.funcs, fo)
		return nil, err
	}
	body = namedPrefix + body
	def := fmt.Sprintf("(* %s: func %s *)\nDefinition %s %s : %s :=\n%s.", g.pos(fd), strings.TrimPrefix(inf.name, "gen_"),
		inf.name, strings.Join(params, " "), retT, indent(body, "  "))
	g.out = append(g.out, def)
	if !g.isTarget[fo] {
		g.helpers = append(g.helpers, inf.name)
	}
	if len(f.setup) > 0 {
		var ss []string
		for _, s := range f.setup {
			cs, err := coqString(s)
			if err != nil {
				return nil, g.errf(fd, "%v", err)
			}
			ss = append(ss, "    "+cs)
		}
		g.extra = append(g.extra, fmt.Sprintf("(* statements of %s that build the 3MF model around the mesh (not translated: compared as text) *)\nDefinition %s_setup : list string :=\n  [\n%s\n  ].",
			fo.Name(), inf.name, strings.Join(ss, ";\n")))
	}
	return inf, nil
}

// Targets: the functions the tie is claimed for (callees are translated on demand)
// res: translated as a `res` (value + error, or panic) whatever its body looks like today, so
// that the type of the generated definition does not depend on whether the current spelling
// happens to contain a loop or a slice index (functions with an error result always are)
var targets = []struct {
	pkg, recv, name string
	res             bool
}{
	{"/sdf", "Triangle3", "Normal", false},
	{"/render", "", "parseFloats", true}, {"/render", "", "loadSTLAscii", true}, {"/render", "", "loadSTLBinary", true}, {"/render", "", "LoadSTL", true},
	{"/render", "", "SaveSTL", true}, {"/render", "", "writeSTL", true},
	{"/render", "", "toPoint3D", false}, {"/render", "", "write3MF", true},
	{"/render", "", "NewDXF", false}, {"/render", "DXF", "Line", false}, {"/render", "DXF", "Lines", true}, {"/render", "DXF", "Points", true},
	{"/render", "DXF", "Triangle", true}, {"/render", "DXF", "Box", true}, {"/render", "DXF", "Save", true}, {"/render", "", "SaveDXF", true}, {"/render", "", "writeDXF", true},
	{"/render", "", "NewSVG", false}, {"/render", "SVG", "Line", false}, {"/render", "SVG", "Save", true}, {"/render", "", "SaveSVG", true}, {"/render", "", "writeSVG", true},
}

func (g *gen) findFunc(pkg, recv, name string) *types.Func {
	p := g.pkgs[module+pkg]
	if recv == "" {
		fo, _ := p.Types.Scope().Lookup(name).(*types.Func)
		return fo
	}
	tn, _ := p.Types.Scope().Lookup(recv).(*types.TypeName)
	if tn == nil {
		return nil
	}
	n, _ := tn.Type().(*types.Named)
	if n == nil {
		return nil
	}
	for i := 0; i < n.NumMethods(); i++ {
		if n.Method(i).Name() == name {
			return n.Method(i)
		}
	}
	return nil
}

func (g *gen) generate() ([]byte, error) {
	if err := g.findLayouts(); err != nil {
		return nil, err
	}
	var names []string
	g.isTarget = map[*types.Func]bool{}
	g.forceRes = map[*types.Func]bool{}
	for _, t := range targets {
		fo := g.findFunc(t.pkg, t.recv, t.name)
		if fo == nil {
			return nil, fmt.Errorf("target %s %s.%s not found in the source tree", t.pkg, t.recv, t.name)
		}
		g.isTarget[fo] = true
		if t.res {
			g.forceRes[fo] = true
		}
	}
	for _, t := range targets {
		fo := g.findFunc(t.pkg, t.recv, t.name)
		inf, err := g.translate(fo)
		if err != nil {
			return nil, err
		}
		names = append(names, inf.name)
	}
	var b strings.Builder
	b.WriteString(`(* GENERATED by harness/iogen from render/stl.go, render/3mf.go, render/dxf.go, render/svg.go,
   sdf/triangle3.go, vec/v2/v2.go, vec/v3/v3.go of the current source tree - do not edit.
   One definition per Go function, one let / match per Go statement.  Struct types handed to
   encoding/binary are layouts, their values lists of scalar slots; other structs and small
   arrays are tuples; slices are lists; integers are Z wrapped to the width of sized types.
   Library calls, the two float types and the world (the file a function opens, the drawing
   library, ...) are Section variables; Io/IoEq.v instantiates them with the models of
   Io/GoSem.v, Io/F32.v, Io/Export.v and proves every definition equal to the hand-written
   model (Io/Stl.v, Io/StlLoad.v, Io/Export.v, Io/ExportOps.v). *)
From Coq Require Import ZArith NArith List Bool.
From Coq Require String.
From Sdfx Require Import Io.GoSem.
Import ListNotations.
Import String.StringSyntax.
Delimit Scope string_scope with string.
Local Open Scope list_scope.

`)
	for _, n := range g.lorder {
		l := g.layouts[n]
		fmt.Fprintf(&b, "(* %s: type %s *)\nDefinition %s_layout : layout :=\n  %s.\n\n", g.posOf(l), l.name, l.name, l.coq())
	}
	for _, e := range g.extra {
		b.WriteString(e + "\n\n")
	}
	b.WriteString("Section IoExpr.\n")
	for _, v := range sectionVars {
		t := sectionVarType(v.name)
		if t == "" {
			return nil, fmt.Errorf("internal: no type for section variable %s", v.name)
		}
		fmt.Fprintf(&b, "  Variable %s : %s.\n", v.name, t)
	}
	b.WriteString("\n")
	for _, d := range g.out {
		for _, l := range strings.Split(d, "\n") {
			b.WriteString("  " + l + "\n")
		}
		b.WriteString("\n")
	}
	b.WriteString("End IoExpr.\n\n")
	// functions the targets call that are not targets themselves (vector methods, helpers a
	// refactoring extracts): the equality proofs unfold them wherever they occur
	b.WriteString("Create HintDb iogen_helpers.\n")
	if len(g.helpers) > 0 {
		b.WriteString("#[global] Hint Unfold " + strings.Join(g.helpers, " ") + " : iogen_helpers.\n")
	}
	b.WriteString("\n(* translated: " + strings.Join(names, " ") + " *)\n")
	return []byte(b.String()), nil
}

func (g *gen) posOf(l *layoutT) string {
	p := g.fset.Position(l.pos)
	r, _ := relPath(g.repo, p.Filename)
	return fmt.Sprintf("%s:%d", r, p.Line)
}
