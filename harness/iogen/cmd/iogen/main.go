// Command iogen prints coq/Generated/IoExpr.v for a source tree (debugging aid).
package main

import (
	"flag"
	"fmt"
	"os"

	"verifharness/iogen"
	"verifharness/kit"
)

func main() {
	repo := flag.String("repo", "/repo", "sdfx source tree")
	flag.Parse()
	_, b, err := iogen.Gen(&kit.Ctx{Repo: *repo})
	if err != nil {
		fmt.Fprintln(os.Stderr, "iogen:", err)
		os.Exit(1)
	}
	os.Stdout.Write(b)
}
