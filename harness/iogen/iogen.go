// Package iogen translates the file-format code of render/stl.go, render/3mf.go, render/dxf.go,
// render/svg.go (and Triangle3.Normal plus the vector methods they call) from the Go AST of the
// CURRENT source tree into Gallina (coq/Generated/IoExpr.v).  coq/Io/IoEq.v proves each
// generated definition equal to the hand-written model (Io/Stl.v, Io/StlLoad.v, Io/Export.v,
// Io/ExportOps.v) for all inputs, so an edit that changes the byte layout, a decision of the
// loader or the arithmetic of a writer breaks a named obligation of C13/C14/C15.
//
// The source is loaded with go/packages (type information from go/types), so every identifier
// is resolved to the object it denotes.  What is understood:
//   - struct types handed to binary.Read/Write become layouts (field order, element type, count);
//     their values are lists of scalar slots; d.F[i] is slot number k, known statically;
//   - other structs and small arrays are tuples of their fields / elements, pointers are
//     transparent (a method with a pointer receiver returns the updated receiver);
//   - integers are Z, wrapped to the width of sized types after every operation (int is not
//     wrapped: only constants are added to lengths); constants are folded by go/types;
//   - float64 / float32 and their operations are Section variables (F64, F32, fadd, to32, ...);
//   - slices are lists; l[i], l[i:], l[i] = v, make are partial (None = run-time panic);
//   - statements: := = op= ++, var, local const, if/else with init, switch (tagless and tagged,
//     no fallthrough / break) as the chain of ifs, return, for-range over slices, arrays, ints
//     and channels, `for sc.Scan()`, `for i := a; i < n; i += k`, `continue`,
//     defer x.Close()/wg.Done() (ignored), fmt.Printf (ignored), closures assigned to a local
//     (lambda-lifted), the writer pattern
//     `c := make(chan ..); go func(){ for x := range c {..} }(); return c, nil` (the goroutine
//     body is the function, the channel the list of batches it receives);
//   - a function that writes through a pointer / slice parameter (`func fill(d *T, ..)`) returns
//     the final value of that parameter after its results and the receiver; the caller stores it
//     back into the argument (`fill(&d, ..)`).  A write through a local that may share memory
//     with another variable (a range value of pointer type, `p := q`, `p := &x`) is an error;
//   - normal forms, so that equivalent spellings give the same term (loops.go): index loops over
//     len(X) are range loops, X[i] inside `for i := range X` is the element, loops over arrays
//     and short constant loops are unrolled with the index known to the translator (conditions
//     on it are decided), `if !c {A} else {B}` is `if c {B} else {A}`, make([]T, 0, c) and
//     make([]T, 0) are the empty list;
//   - library calls are Section variables with a fixed signature (table in prims.go); the file
//     a function opens is the world threaded through every call that touches it.
//
// Anything else inside a target function is an error (= broken tie), never skipped.
package iogen

import (
	"fmt"
	"go/ast"
	"go/token"
	"go/types"
	"os"
	"sort"
	"strings"

	"golang.org/x/tools/go/packages"
	"verifharness/kit"
)

const module = "github.com/deadsy/sdfx"

// ---------------------------------------------------------------- Coq-side types

type kind int

const (
	kZ kind = iota
	kF64
	kF32
	kString
	kBool
	kError
	kUnit
	kList
	kTuple
	kSlots
	kMap
	kOpaque
	kToken
	kScanner
	kExt
	kChan
	kFunc
)

type cty struct {
	k     kind
	elem  *cty   // list / chan element, map value
	key   *cty   // map key
	elems []*cty // tuple
	names []string
	name  string // opaque type, token kind, layout name, ext type
	goInt string // kZ: Go basic type
}

func (t *cty) coq() string {
	switch t.k {
	case kZ:
		return "Z"
	case kF64:
		return "F64"
	case kF32:
		return "F32"
	case kString:
		return "string"
	case kBool:
		return "bool"
	case kError:
		return "error"
	case kUnit:
		return "unit"
	case kList:
		return "(list " + t.elem.coq() + ")"
	case kTuple:
		if len(t.elems) == 1 {
			return t.elems[0].coq()
		}
		var s []string
		for _, e := range t.elems {
			s = append(s, e.coq())
		}
		return "(" + strings.Join(s, " * ") + ")"
	case kSlots:
		return "(list N)"
	case kMap:
		return "(list (" + t.key.coq() + " * " + t.elem.coq() + "))"
	case kOpaque:
		return t.name
	case kScanner:
		return "(list string * error)"
	}
	return "_"
}

func tupleOf(elems []*cty) *cty {
	if len(elems) == 0 {
		return &cty{k: kUnit}
	}
	return &cty{k: kTuple, elems: elems}
}

// proj returns component i of an n-tuple term (left-nested pairs)
func proj(term string, i, n int) string {
	if n == 1 {
		return term
	}
	s := term
	for j := 0; j < n-1-i; j++ {
		s = "(fst " + s + ")"
	}
	if i > 0 {
		s = "(snd " + s + ")"
	}
	return s
}

func tuple(parts []string) string {
	switch len(parts) {
	case 0:
		return "tt"
	case 1:
		return parts[0]
	}
	return "(" + strings.Join(parts, ", ") + ")"
}

func pattern(parts []string) string {
	switch len(parts) {
	case 0:
		return "_"
	case 1:
		return parts[0]
	}
	return "'(" + strings.Join(parts, ", ") + ")"
}

// ---------------------------------------------------------------- layouts

type lfield struct {
	name   string
	blank  bool
	scalar string // U8 ...
	count  int
	array  bool
	off    int // first slot
}

type layoutT struct {
	name   string
	fields []lfield
	slots  int
	pos    token.Pos
}

var scalarOf = map[types.BasicKind]string{
	types.Uint8: "U8", types.Uint16: "U16", types.Uint32: "U32", types.Uint64: "U64",
	types.Int8: "I8", types.Int16: "I16", types.Int32: "I32", types.Int64: "I64",
	types.Float32: "F32", types.Float64: "F64",
}

func (g *gen) makeLayout(n *types.Named) (*layoutT, error) {
	st, ok := n.Underlying().(*types.Struct)
	if !ok {
		return nil, fmt.Errorf("%s: binary.Read/Write of a non-struct type", n.Obj().Name())
	}
	l := &layoutT{name: n.Obj().Name(), pos: n.Obj().Pos()}
	for i := 0; i < st.NumFields(); i++ {
		f := st.Field(i)
		lf := lfield{name: f.Name(), blank: f.Name() == "_", count: 1, off: l.slots}
		ft := f.Type()
		if a, ok := ft.(*types.Array); ok {
			lf.array = true
			lf.count = int(a.Len())
			ft = a.Elem()
		}
		b, ok := ft.Underlying().(*types.Basic)
		if !ok || scalarOf[b.Kind()] == "" {
			return nil, fmt.Errorf("%s.%s: field type %s has no fixed-size encoding that is understood", l.name, f.Name(), f.Type())
		}
		lf.scalar = scalarOf[b.Kind()]
		l.slots += lf.count
		l.fields = append(l.fields, lf)
	}
	return l, nil
}

func (l *layoutT) coq() string {
	var fs []string
	for _, f := range l.fields {
		b := "false"
		if f.blank {
			b = "true"
		}
		fs = append(fs, fmt.Sprintf("mkfield %s %s %d", b, f.scalar, f.count))
	}
	return "[" + strings.Join(fs, "; ") + "]"
}

// ---------------------------------------------------------------- generator state

type gen struct {
	fset     *token.FileSet
	pkgs     map[string]*packages.Package
	repo     string
	layouts  map[string]*layoutT // by type name (package render)
	lorder   []string
	decls    map[*types.Func]*ast.FuncDecl
	declPkg  map[*types.Func]*packages.Package
	funcs    map[*types.Func]*fnInfo
	busy     map[*types.Func]bool
	out      []string // definitions, in dependency order
	used     map[string]bool
	errSite  int
	scan     map[*types.Func]*scanInfo
	extra    []string // extra generated data definitions
	isTarget map[*types.Func]bool
	forceRes map[*types.Func]bool // targets translated as `res` whatever their body
	helpers  []string             // Coq names of translated functions that are not targets
}

type fnInfo struct {
	name    string // Coq name
	res     bool   // returns a res (may panic / returns an error / loops)
	world   bool   // takes and returns the world
	mutRecv bool   // pointer receiver is updated and returned
	mutPar  []int  // parameters (pointer / slice) written through: their final values are returned after the receiver
	params  []*types.Var
	results []*cty // non-error, non-token Go results
	hasErr  bool
	chanW   bool // writer pattern: extra parameter batches
	recv    *types.Var
}

func (g *gen) pos(n ast.Node) string {
	p := g.fset.Position(n.Pos())
	rel := p.Filename
	if r, err := relPath(g.repo, p.Filename); err == nil {
		rel = r
	}
	return fmt.Sprintf("%s:%d", rel, p.Line)
}

func relPath(base, p string) (string, error) {
	if strings.HasPrefix(p, base+"/") {
		return p[len(base)+1:], nil
	}
	return p, nil
}

type terr struct{ msg string }

func (e *terr) Error() string { return e.msg }

func (g *gen) errf(n ast.Node, format string, a ...interface{}) error {
	return &terr{g.pos(n) + ": " + fmt.Sprintf(format, a...)}
}

// qname of a named type: "pkgpath.Name"
func qname(n *types.Named) string {
	o := n.Obj()
	if o.Pkg() == nil {
		return o.Name()
	}
	return o.Pkg().Path() + "." + o.Name()
}

func inModule(n *types.Named) bool {
	return n.Obj().Pkg() != nil && strings.HasPrefix(n.Obj().Pkg().Path(), module)
}

var tokenTypes = map[string]string{
	"os.File":                            "file",
	"bufio.Reader":                       "bufreader",
	"bufio.Writer":                       "bufwriter",
	"sync.WaitGroup":                     "waitgroup",
	"github.com/ajstarks/svgo/float.SVG": "canvas",
	"github.com/hpinc/go3mf.WriteCloser": "mfwriter",
}

var opaqueTypes = map[string]string{
	"io/fs.FileInfo":                      "FileInfo",
	"github.com/yofu/dxf/drawing.Drawing": "Drawing",
}

func (g *gen) ctype(t types.Type) (*cty, error) {
	switch t := t.(type) {
	case *types.Pointer:
		return g.ctype(t.Elem())
	case *types.Alias:
		return g.ctype(types.Unalias(t))
	case *types.Named:
		q := qname(t)
		if q == "error" {
			return &cty{k: kError}, nil
		}
		if k, ok := tokenTypes[q]; ok {
			return &cty{k: kToken, name: k}, nil
		}
		if o, ok := opaqueTypes[q]; ok {
			return &cty{k: kOpaque, name: o}, nil
		}
		if q == "bufio.Scanner" {
			return &cty{k: kScanner}, nil
		}
		switch u := t.Underlying().(type) {
		case *types.Struct:
			if inModule(t) {
				if l, ok := g.layouts[t.Obj().Name()]; ok && t.Obj().Pkg().Path() == module+"/render" {
					return &cty{k: kSlots, name: l.name}, nil
				}
				c := &cty{k: kTuple, name: t.Obj().Name()}
				for i := 0; i < u.NumFields(); i++ {
					e, err := g.ctype(u.Field(i).Type())
					if err != nil {
						return nil, fmt.Errorf("field %s.%s: %v", t.Obj().Name(), u.Field(i).Name(), err)
					}
					c.elems = append(c.elems, e)
					c.names = append(c.names, u.Field(i).Name())
				}
				return c, nil
			}
			return &cty{k: kExt, name: q}, nil
		case *types.Array, *types.Slice, *types.Basic:
			return g.ctype(u)
		}
		return nil, fmt.Errorf("type %s is not understood", q)
	case *types.Basic:
		switch {
		case t.Kind() == types.Float64 || t.Kind() == types.UntypedFloat:
			return &cty{k: kF64}, nil
		case t.Kind() == types.Float32:
			return &cty{k: kF32}, nil
		case t.Info()&types.IsInteger != 0:
			return &cty{k: kZ, goInt: t.Name()}, nil
		case t.Info()&types.IsString != 0:
			return &cty{k: kString}, nil
		case t.Info()&types.IsBoolean != 0:
			return &cty{k: kBool}, nil
		case t.Kind() == types.UntypedNil:
			return &cty{k: kExt, name: "nil"}, nil
		}
		return nil, fmt.Errorf("basic type %s is not understood", t)
	case *types.Slice:
		e, err := g.ctype(t.Elem())
		if err != nil {
			return nil, err
		}
		return &cty{k: kList, elem: e}, nil
	case *types.Array:
		if t.Len() > 4 {
			return nil, fmt.Errorf("array type %s outside a binary layout is not understood", t)
		}
		e, err := g.ctype(t.Elem())
		if err != nil {
			return nil, err
		}
		c := &cty{k: kTuple}
		for i := int64(0); i < t.Len(); i++ {
			c.elems = append(c.elems, e)
		}
		return c, nil
	case *types.Map:
		k, err := g.ctype(t.Key())
		if err != nil {
			return nil, err
		}
		v, err := g.ctype(t.Elem())
		if err != nil {
			return nil, err
		}
		return &cty{k: kMap, key: k, elem: v}, nil
	case *types.Chan:
		e, err := g.ctype(t.Elem())
		if err != nil {
			return nil, err
		}
		return &cty{k: kChan, elem: e}, nil
	case *types.Signature:
		return &cty{k: kFunc}, nil
	}
	return nil, fmt.Errorf("type %s is not understood", t)
}

// zero value of a Go type
func (g *gen) zero(t *cty) (string, error) {
	switch t.k {
	case kZ:
		return "0%Z", nil
	case kF64:
		return "(fz 0%Z)", nil
	case kF32:
		return "(to32 (fz 0%Z))", nil
	case kString:
		return "\"\"%string", nil
	case kBool:
		return "false", nil
	case kError:
		return "(None : error)", nil
	case kList, kMap:
		return "[]", nil
	case kSlots:
		return "(zero_slots " + t.name + "_layout)", nil
	case kTuple:
		var ps []string
		for _, e := range t.elems {
			z, err := g.zero(e)
			if err != nil {
				return "", err
			}
			ps = append(ps, z)
		}
		return tuple(ps), nil
	}
	return "", fmt.Errorf("no zero value for %s", t.coq())
}

// ---------------------------------------------------------------- loading

func load(repo string) (*gen, error) {
	cfg := &packages.Config{Mode: packages.LoadSyntax, Dir: repo, Env: os.Environ()}
	pkgs, err := packages.Load(cfg, "./render", "./sdf", "./vec/v2", "./vec/v3")
	if err != nil {
		return nil, fmt.Errorf("iogen: go/packages: %v", err)
	}
	g := &gen{pkgs: map[string]*packages.Package{}, repo: repo, layouts: map[string]*layoutT{},
		decls: map[*types.Func]*ast.FuncDecl{}, declPkg: map[*types.Func]*packages.Package{},
		funcs: map[*types.Func]*fnInfo{}, busy: map[*types.Func]bool{}, used: map[string]bool{},
		scan: map[*types.Func]*scanInfo{}}
	var errs []string
	for _, p := range pkgs {
		for _, e := range p.Errors {
			errs = append(errs, e.Error())
		}
		g.pkgs[p.PkgPath] = p
		g.fset = p.Fset
		for _, f := range p.Syntax {
			for _, d := range f.Decls {
				if fd, ok := d.(*ast.FuncDecl); ok && fd.Body != nil {
					if o, ok := p.TypesInfo.Defs[fd.Name].(*types.Func); ok {
						g.decls[o] = fd
						g.declPkg[o] = p
					}
				}
			}
		}
	}
	if len(errs) > 0 {
		return nil, fmt.Errorf("iogen: the source tree does not type-check: %s", strings.Join(errs, "; "))
	}
	for _, want := range []string{"/render", "/sdf", "/vec/v2", "/vec/v3"} {
		if g.pkgs[module+want] == nil {
			return nil, fmt.Errorf("iogen: package %s%s not found", module, want)
		}
	}
	return g, nil
}

// findLayouts: every struct type passed (by pointer) to binary.Read / binary.Write in package render
func (g *gen) findLayouts() error {
	p := g.pkgs[module+"/render"]
	var ferr error
	for _, f := range p.Syntax {
		ast.Inspect(f, func(n ast.Node) bool {
			c, ok := n.(*ast.CallExpr)
			if !ok || ferr != nil {
				return true
			}
			fn := calleeFunc(p.TypesInfo, c)
			if fn == nil || (fn.FullName() != "encoding/binary.Read" && fn.FullName() != "encoding/binary.Write") {
				return true
			}
			if len(c.Args) != 3 {
				return true
			}
			t := p.TypesInfo.TypeOf(c.Args[2])
			if pt, ok := t.(*types.Pointer); ok {
				t = pt.Elem()
			}
			n2, ok := t.(*types.Named)
			if !ok || !inModule(n2) {
				ferr = g.errf(c, "binary.%s of a value of type %s is not understood", fn.Name(), t)
				return true
			}
			if _, ok := g.layouts[n2.Obj().Name()]; !ok {
				l, err := g.makeLayout(n2)
				if err != nil {
					ferr = g.errf(c, "%v", err)
					return true
				}
				g.layouts[l.name] = l
				g.lorder = append(g.lorder, l.name)
			}
			return true
		})
	}
	sort.Strings(g.lorder)
	return ferr
}

func calleeFunc(info *types.Info, c *ast.CallExpr) *types.Func {
	var id *ast.Ident
	switch f := ast.Unparen(c.Fun).(type) {
	case *ast.Ident:
		id = f
	case *ast.SelectorExpr:
		id = f.Sel
	}
	if id == nil {
		return nil
	}
	fn, _ := info.Uses[id].(*types.Func)
	return fn
}

// ---------------------------------------------------------------- entry

// Gen is the kit.GenFn of this translator.
func Gen(c *kit.Ctx) (string, []byte, error) {
	g, err := load(c.Repo)
	if err != nil {
		return "", nil, err
	}
	b, err := g.generate()
	if err != nil {
		return "", nil, fmt.Errorf("iogen: %v", err)
	}
	return "IoExpr.v", b, nil
}
