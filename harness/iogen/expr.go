package iogen

import (
	"fmt"
	"go/ast"
	"go/constant"
	"go/token"
	"go/types"
	"strings"
)

func coqString(s string) (string, error) {
	for _, r := range s {
		if r < 32 || r > 126 {
			return "", fmt.Errorf("string constant %q with non-printable characters", s)
		}
	}
	return "\"" + strings.ReplaceAll(s, "\"", "\"\"") + "\"%string", nil
}

func zlit(s string) string {
	if strings.HasPrefix(s, "-") {
		return "(" + s + ")%Z"
	}
	return s + "%Z"
}

func (f *fn) constLit(n ast.Node, v constant.Value, t types.Type) (val, error) {
	ct, err := f.ctype(n, t)
	if err != nil {
		return val{}, err
	}
	switch ct.k {
	case kZ:
		iv := constant.ToInt(v)
		if iv.Kind() != constant.Int {
			return val{}, f.errf(n, "constant %s is not an integer", v)
		}
		return val{term: zlit(iv.ExactString()), t: ct}, nil
	case kF64:
		iv := constant.ToInt(v)
		if iv.Kind() != constant.Int {
			return val{}, f.errf(n, "float constant %s is not integer valued (not understood)", v)
		}
		return val{term: "(fz " + zlit(iv.ExactString()) + ")", t: ct}, nil
	case kString:
		s, err := coqString(constant.StringVal(v))
		if err != nil {
			return val{}, f.errf(n, "%v", err)
		}
		return val{term: s, t: ct}, nil
	case kBool:
		if constant.BoolVal(v) {
			return val{term: "true", t: ct}, nil
		}
		return val{term: "false", t: ct}, nil
	}
	return val{}, f.errf(n, "constant of type %s is not understood", t)
}

func wrapInt(goInt, term string) (string, error) {
	switch goInt {
	case "int", "untyped int", "untyped rune":
		return term, nil
	case "uint8", "byte":
		return "(wrapu 8 " + term + ")", nil
	case "uint16":
		return "(wrapu 16 " + term + ")", nil
	case "uint32":
		return "(wrapu 32 " + term + ")", nil
	case "uint64":
		return "(wrapu 64 " + term + ")", nil
	case "int8":
		return "(wraps 8 " + term + ")", nil
	case "int16":
		return "(wraps 16 " + term + ")", nil
	case "int32", "rune":
		return "(wraps 32 " + term + ")", nil
	case "int64":
		return "(wraps 64 " + term + ")", nil
	}
	return "", fmt.Errorf("integer type %s is not understood", goInt)
}

func isConst(f *fn, e ast.Expr) bool {
	tv, ok := f.info.Types[e]
	return ok && tv.Value != nil
}

func (f *fn) lookup(id *ast.Ident) (*binding, types.Object, error) {
	o := f.info.Uses[id]
	if o == nil {
		o = f.info.Defs[id]
	}
	b := f.env[o]
	if b == nil {
		return nil, o, f.errf(id, "identifier %s is not a local variable, parameter or understood constant", id.Name)
	}
	if b.wrapped {
		return nil, o, f.errf(id, "%s is used after a bufio reader/scanner was put on it (read-ahead makes its offset unknown)", id.Name)
	}
	return b, o, nil
}

// layoutField resolves x.F on a value whose type is a binary layout
func (f *fn) layoutField(sel *ast.SelectorExpr) (*layoutT, *lfield, bool) {
	t := f.info.TypeOf(sel.X)
	if t == nil {
		return nil, nil, false
	}
	if p, ok := t.(*types.Pointer); ok {
		t = p.Elem()
	}
	n, ok := t.(*types.Named)
	if !ok || n.Obj().Pkg() == nil || n.Obj().Pkg().Path() != module+"/render" {
		return nil, nil, false
	}
	l := f.g.layouts[n.Obj().Name()]
	if l == nil {
		return nil, nil, false
	}
	for i := range l.fields {
		if l.fields[i].name == sel.Sel.Name && !l.fields[i].blank {
			return l, &l.fields[i], true
		}
	}
	return l, nil, true
}

func slotRead(d string, k int, scalar string) (string, *cty, error) {
	switch scalar {
	case "U8", "U16", "U32", "U64":
		names := map[string]string{"U8": "uint8", "U16": "uint16", "U32": "uint32", "U64": "uint64"}
		return fmt.Sprintf("(Z.of_N (slot %s %d))", d, k), &cty{k: kZ, goInt: names[scalar]}, nil
	case "F32":
		return fmt.Sprintf("(unbits32 (slot %s %d))", d, k), &cty{k: kF32}, nil
	}
	return "", nil, fmt.Errorf("reading a %s slot is not understood", scalar)
}

func slotWrite(scalar, term string) (string, error) {
	switch scalar {
	case "U8", "U16", "U32", "U64":
		return "(Z.to_N " + term + ")", nil
	case "F32":
		return "(bits32 " + term + ")", nil
	}
	return "", fmt.Errorf("writing a %s slot is not understood", scalar)
}

func (f *fn) constIndex(e ast.Expr) (int, bool) {
	i, ok := f.constInt(e)
	return int(i), ok
}

// extPath: x.A.B on a local of an external struct type -> its variable
func (f *fn) extPath(e ast.Expr) (*binding, types.Object, string, bool) {
	var parts []string
	for {
		switch x := ast.Unparen(e).(type) {
		case *ast.SelectorExpr:
			parts = append([]string{x.Sel.Name}, parts...)
			e = x.X
			continue
		case *ast.Ident:
			o := f.info.Uses[x]
			b := f.env[o]
			if b == nil || b.ext == nil || len(parts) == 0 {
				return nil, nil, "", false
			}
			p := strings.Join(parts, ".")
			return b, o, p, true
		}
		return nil, nil, "", false
	}
}

func (f *fn) expr(e ast.Expr) (val, error) {
	if tv, ok := f.info.Types[e]; ok && tv.Value != nil {
		return f.constLit(e, tv.Value, tv.Type)
	}
	switch x := e.(type) {
	case *ast.ParenExpr:
		return f.expr(x.X)
	case *ast.StarExpr:
		return f.expr(x.X)
	case *ast.Ident:
		if x.Name == "nil" {
			return val{}, f.errf(x, "nil in this position is not understood")
		}
		b, _, err := f.lookup(x)
		if err != nil {
			return val{}, err
		}
		if b.ext != nil {
			// a local of an external struct type as a value: the fields the function mentions, in
			// declaration order (as for a composite literal of that type)
			if v, ok := f.extValue(x, b); ok {
				return v, nil
			}
		}
		if b.tok || b.closure != nil || b.ext != nil {
			return val{}, f.errf(x, "%s is a handle / closure / external struct and cannot be used as a value here", x.Name)
		}
		if b.cval != nil {
			return val{term: zlit(fmt.Sprint(*b.cval)), t: b.t}, nil
		}
		return val{term: b.name, t: b.t}, nil
	case *ast.UnaryExpr:
		switch x.Op {
		case token.AND:
			return f.expr(x.X)
		case token.NOT:
			a, err := f.expr(x.X)
			if err != nil {
				return val{}, err
			}
			return val{term: "(negb " + a.term + ")", pre: a.pre, t: a.t}, nil
		case token.SUB:
			a, err := f.expr(x.X)
			if err != nil {
				return val{}, err
			}
			if a.t.k == kF64 {
				return val{term: "(fneg " + a.term + ")", pre: a.pre, t: a.t}, nil
			}
			if a.t.k == kZ {
				w, err := wrapInt(a.t.goInt, "(- "+a.term+")%Z")
				if err != nil {
					return val{}, f.errf(x, "%v", err)
				}
				return val{term: w, pre: a.pre, t: a.t}, nil
			}
		}
		return val{}, f.errf(x, "unary %s is not understood here", x.Op)
	case *ast.SelectorExpr:
		return f.selector(x)
	case *ast.IndexExpr:
		return f.index(x)
	case *ast.SliceExpr:
		if x.High != nil || x.Max != nil || x.Low == nil {
			return val{}, f.errf(x, "only slice expressions of the form x[lo:] are understood")
		}
		a, err := f.expr(x.X)
		if err != nil {
			return val{}, err
		}
		if a.t.k != kList {
			return val{}, f.errf(x, "slice expression on a non-slice")
		}
		lo, err := f.expr(x.Low)
		if err != nil {
			return val{}, err
		}
		tmp := f.temp()
		pre := append(append([]pbind{}, a.pre...), lo.pre...)
		pre = append(pre, pbind{tmp, "(slice_from " + a.term + " " + lo.term + ")"})
		return val{term: tmp, pre: pre, t: a.t}, nil
	case *ast.CallExpr:
		return f.callExpr(x)
	case *ast.BinaryExpr:
		return f.binary(x)
	case *ast.CompositeLit:
		return f.composite(x)
	}
	return val{}, f.errf(e, "expression %T is not understood", e)
}

func (f *fn) selector(x *ast.SelectorExpr) (val, error) {
	// package-level objects of other packages
	if id, ok := x.X.(*ast.Ident); ok {
		if _, isPkg := f.info.Uses[id].(*types.PkgName); isPkg {
			o := f.info.Uses[x.Sel]
			full := ""
			if o != nil && o.Pkg() != nil {
				full = o.Pkg().Path() + "." + o.Name()
			}
			switch full {
			case "encoding/binary.LittleEndian":
				return val{term: "LittleEndian", t: &cty{k: kOpaque, name: "byte_order"}}, nil
			case "encoding/binary.BigEndian":
				return val{term: "BigEndian", t: &cty{k: kOpaque, name: "byte_order"}}, nil
			case "io.EOF":
				return val{term: "io_EOF", t: &cty{k: kError}}, nil
			case "io.ErrUnexpectedEOF":
				return val{term: "io_ErrUnexpectedEOF", t: &cty{k: kError}}, nil
			}
			return val{}, f.errf(x, "package-level object %s is not understood", full)
		}
	}
	if b, _, p, ok := f.extPath(x); ok {
		pb := b.ext[p]
		if pb == nil {
			return val{}, f.errf(x, "field path %s of an external struct is not understood here", p)
		}
		return val{term: pb.name, t: pb.t}, nil
	}
	if l, lf, ok := f.layoutField(x); ok {
		if lf == nil {
			return val{}, f.errf(x, "field %s of layout %s is not understood", x.Sel.Name, l.name)
		}
		if lf.array {
			// the whole array field as a value: the tuple of its slots
			if lf.count > 4 {
				return val{}, f.errf(x, "array field %s.%s as a value is not understood (more than 4 elements)", l.name, lf.name)
			}
			d, err := f.expr(x.X)
			if err != nil {
				return val{}, err
			}
			var parts []string
			var ts []*cty
			for k := 0; k < lf.count; k++ {
				t, ct, err := slotRead(d.term, lf.off+k, lf.scalar)
				if err != nil {
					return val{}, f.errf(x, "%v", err)
				}
				parts = append(parts, t)
				ts = append(ts, ct)
			}
			return val{term: tuple(parts), pre: d.pre, t: &cty{k: kTuple, elems: ts}}, nil
		}
		d, err := f.expr(x.X)
		if err != nil {
			return val{}, err
		}
		t, ct, err := slotRead(d.term, lf.off, lf.scalar)
		if err != nil {
			return val{}, f.errf(x, "%v", err)
		}
		return val{term: t, pre: d.pre, t: ct}, nil
	}
	sel := f.info.Selections[x]
	if sel == nil || sel.Kind() != types.FieldVal || len(sel.Index()) != 1 {
		return val{}, f.errf(x, "selector %s is not a direct field", x.Sel.Name)
	}
	a, err := f.expr(x.X)
	if err != nil {
		return val{}, err
	}
	if a.t.k != kTuple || len(a.t.names) == 0 {
		return val{}, f.errf(x, "field %s of a value that is not a struct of the module", x.Sel.Name)
	}
	i := sel.Index()[0]
	return val{term: proj(a.term, i, len(a.t.elems)), pre: a.pre, t: a.t.elems[i]}, nil
}

func (f *fn) index(x *ast.IndexExpr) (val, error) {
	// d.Field[k] on a layout
	if se, ok := ast.Unparen(x.X).(*ast.SelectorExpr); ok {
		if l, lf, ok := f.layoutField(se); ok {
			if lf == nil || !lf.array {
				return val{}, f.errf(x, "indexing %s.%s is not understood", l.name, se.Sel.Name)
			}
			k, ok := f.constIndex(x.Index)
			if !ok || k < 0 || k >= lf.count {
				return val{}, f.errf(x, "index of %s.%s must be a constant in range", l.name, lf.name)
			}
			d, err := f.expr(se.X)
			if err != nil {
				return val{}, err
			}
			t, ct, err := slotRead(d.term, lf.off+k, lf.scalar)
			if err != nil {
				return val{}, f.errf(x, "%v", err)
			}
			return val{term: t, pre: d.pre, t: ct}, nil
		}
	}
	a, err := f.expr(x.X)
	if err != nil {
		return val{}, err
	}
	switch a.t.k {
	case kTuple:
		if len(a.t.names) != 0 {
			return val{}, f.errf(x, "indexing a struct")
		}
		k, ok := f.constIndex(x.Index)
		if !ok || k < 0 || k >= len(a.t.elems) {
			return val{}, f.errf(x, "an array outside a layout must be indexed by a constant in range")
		}
		return val{term: proj(a.term, k, len(a.t.elems)), pre: a.pre, t: a.t.elems[k]}, nil
	case kList:
		// X[i] inside `for i := range X` (X and i not written by the body): the element
		if id, ok := ast.Unparen(x.Index).(*ast.Ident); ok {
			for j := len(f.ranges) - 1; j >= 0; j-- {
				re := f.ranges[j]
				if f.info.Uses[id] == re.key && f.src(x.X) == re.src {
					re.used = true
					return val{term: re.name, t: re.t}, nil
				}
			}
		}
		i, err := f.expr(x.Index)
		if err != nil {
			return val{}, err
		}
		tmp := f.temp()
		pre := append(append([]pbind{}, a.pre...), i.pre...)
		pre = append(pre, pbind{tmp, "(idx " + a.term + " " + i.term + ")"})
		return val{term: tmp, pre: pre, t: a.t.elem}, nil
	}
	return val{}, f.errf(x, "index expression on %s is not understood here", a.t.coq())
}

// optOf turns (pre, term) into one option-valued term
func optOf(pre []pbind, term string) string {
	s := "(Some " + term + ")"
	for i := len(pre) - 1; i >= 0; i-- {
		s = "(obind " + pre[i].term + " (fun " + pre[i].name + " => " + s + "))"
	}
	return s
}

func (f *fn) binary(x *ast.BinaryExpr) (val, error) {
	// comparisons with nil
	if x.Op == token.EQL || x.Op == token.NEQ {
		var other ast.Expr
		if id, ok := ast.Unparen(x.Y).(*ast.Ident); ok && id.Name == "nil" && f.info.Uses[id] == types.Universe.Lookup("nil") {
			other = x.X
		} else if id, ok := ast.Unparen(x.X).(*ast.Ident); ok && id.Name == "nil" && f.info.Uses[id] == types.Universe.Lookup("nil") {
			other = x.Y
		}
		if other != nil {
			a, err := f.expr(other)
			if err != nil {
				return val{}, err
			}
			if a.t.k != kError {
				return val{}, f.errf(x, "comparison of a %s with nil is not understood", a.t.coq())
			}
			t := "(err_nonnil " + a.term + ")"
			if x.Op == token.EQL {
				t = "(negb " + t + ")"
			}
			return val{term: t, pre: a.pre, t: &cty{k: kBool}}, nil
		}
	}
	a, err := f.expr(x.X)
	if err != nil {
		return val{}, err
	}
	b, err := f.expr(x.Y)
	if err != nil {
		return val{}, err
	}
	boolT := &cty{k: kBool}
	switch x.Op {
	case token.LAND, token.LOR:
		if len(b.pre) == 0 {
			op := "&&"
			if x.Op == token.LOR {
				op = "||"
			}
			return val{term: "(" + a.term + " " + op + " " + b.term + ")", pre: a.pre, t: boolT}, nil
		}
		tmp := f.temp()
		var t string
		if x.Op == token.LAND {
			t = "(if " + a.term + " then " + optOf(b.pre, b.term) + " else Some false)"
		} else {
			t = "(if " + a.term + " then Some true else " + optOf(b.pre, b.term) + ")"
		}
		return val{term: tmp, pre: append(append([]pbind{}, a.pre...), pbind{tmp, t}), t: boolT}, nil
	}
	pre := append(append([]pbind{}, a.pre...), b.pre...)
	ot := a.t
	switch x.Op {
	case token.EQL, token.NEQ, token.LSS, token.LEQ, token.GTR, token.GEQ:
		var t string
		switch ot.k {
		case kZ:
			switch x.Op {
			case token.EQL:
				t = "(" + a.term + " =? " + b.term + ")%Z"
			case token.NEQ:
				t = "(negb (" + a.term + " =? " + b.term + ")%Z)"
			case token.LSS:
				t = "(" + a.term + " <? " + b.term + ")%Z"
			case token.LEQ:
				t = "(" + a.term + " <=? " + b.term + ")%Z"
			case token.GTR:
				t = "(" + b.term + " <? " + a.term + ")%Z"
			case token.GEQ:
				t = "(" + b.term + " <=? " + a.term + ")%Z"
			}
		case kString:
			switch x.Op {
			case token.EQL:
				t = "(String.eqb " + a.term + " " + b.term + ")"
			case token.NEQ:
				t = "(negb (String.eqb " + a.term + " " + b.term + "))"
			}
		case kError:
			switch x.Op {
			case token.EQL:
				t = "(err_eqb " + a.term + " " + b.term + ")"
			case token.NEQ:
				t = "(negb (err_eqb " + a.term + " " + b.term + "))"
			}
		}
		if t == "" {
			return val{}, f.errf(x, "comparison %s on %s is not understood", x.Op, ot.coq())
		}
		return val{term: t, pre: pre, t: boolT}, nil
	case token.ADD, token.SUB, token.MUL, token.QUO, token.REM:
		rt, err := f.ctype(x, f.info.TypeOf(x))
		if err != nil {
			return val{}, err
		}
		switch rt.k {
		case kF64:
			op := map[token.Token]string{token.ADD: "fadd", token.SUB: "fsub", token.MUL: "fmul", token.QUO: "fdiv"}[x.Op]
			if op == "" {
				return val{}, f.errf(x, "float operation %s is not understood", x.Op)
			}
			return val{term: "(" + op + " " + a.term + " " + b.term + ")", pre: pre, t: rt}, nil
		case kZ:
			var t string
			switch x.Op {
			case token.ADD:
				t = "(" + a.term + " + " + b.term + ")%Z"
			case token.SUB:
				t = "(" + a.term + " - " + b.term + ")%Z"
			case token.MUL:
				t = "(" + a.term + " * " + b.term + ")%Z"
			case token.QUO:
				t = "(Z.quot " + a.term + " " + b.term + ")"
			case token.REM:
				t = "(Z.rem " + a.term + " " + b.term + ")"
			}
			if rt.goInt == "int" {
				// int is not wrapped: accept only what cannot leave 64 bits from a length
				if x.Op == token.MUL || ((x.Op == token.ADD || x.Op == token.SUB) && !isConst(f, x.X) && !isConst(f, x.Y)) {
					return val{}, f.errf(x, "arithmetic on int other than adding a constant is not understood (int is modelled without overflow)")
				}
				if (x.Op == token.QUO || x.Op == token.REM) && !isConst(f, x.Y) {
					return val{}, f.errf(x, "division of ints by a non-constant is not understood")
				}
			}
			w, err := wrapInt(rt.goInt, t)
			if err != nil {
				return val{}, f.errf(x, "%v", err)
			}
			if x.Op == token.QUO || x.Op == token.REM {
				w = t
				if !isConst(f, x.Y) {
					return val{}, f.errf(x, "division by a non-constant is not understood")
				}
			}
			return val{term: w, pre: pre, t: rt}, nil
		}
	}
	return val{}, f.errf(x, "operator %s on %s is not understood", x.Op, ot.coq())
}

func (f *fn) convert(n ast.Node, a val, to types.Type) (val, error) {
	tt, err := f.ctype(n, to)
	if err != nil {
		return val{}, err
	}
	switch {
	case tt.k == kF32 && a.t.k == kF64:
		return val{term: "(to32 " + a.term + ")", pre: a.pre, t: tt}, nil
	case tt.k == kF64 && a.t.k == kF32:
		return val{term: "(to64 " + a.term + ")", pre: a.pre, t: tt}, nil
	case tt.k == kF64 && a.t.k == kF64, tt.k == kF32 && a.t.k == kF32, tt.k == kString && a.t.k == kString:
		return val{term: a.term, pre: a.pre, t: tt}, nil
	case tt.k == kZ && a.t.k == kZ:
		w, err := wrapInt(tt.goInt, a.term)
		if err != nil {
			return val{}, f.errf(n, "%v", err)
		}
		if tt.goInt == "int" && (a.t.goInt == "uint64" || a.t.goInt == "uint") {
			return val{}, f.errf(n, "conversion %s -> int is not understood", a.t.goInt)
		}
		return val{term: w, pre: a.pre, t: tt}, nil
	case tt.k == kTuple && a.t.k == kTuple && tt.coq() == a.t.coq():
		return val{term: a.term, pre: a.pre, t: tt}, nil
	}
	return val{}, f.errf(n, "conversion from %s to %s is not understood", a.t.coq(), tt.coq())
}

func (f *fn) callExpr(x *ast.CallExpr) (val, error) {
	if tv, ok := f.info.Types[x.Fun]; ok && tv.IsType() {
		if len(x.Args) != 1 {
			return val{}, f.errf(x, "conversion with %d arguments", len(x.Args))
		}
		a, err := f.expr(x.Args[0])
		if err != nil {
			return val{}, err
		}
		return f.convert(x, a, tv.Type)
	}
	if id, ok := ast.Unparen(x.Fun).(*ast.Ident); ok {
		if b, ok := f.info.Uses[id].(*types.Builtin); ok {
			return f.builtin(x, b.Name())
		}
	}
	fnObj := calleeFunc(f.info, x)
	if fnObj == nil {
		return val{}, f.errf(x, "call of a function value is not understood inside an expression")
	}
	full := fnObj.FullName()
	if p, ok := prims[full]; ok {
		if p.noop || p.world || p.recv == "value" || p.recv == "token" || len(p.res) != 1 || p.res[0] != "val" {
			return val{}, f.errf(x, "call of %s must be a statement of its own", full)
		}
		args, pre, err := f.primArgs(x, p)
		if err != nil {
			return val{}, err
		}
		f.g.used[p.coq] = true
		rt, err := f.ctype(x, f.info.TypeOf(x))
		if err != nil {
			return val{}, err
		}
		return val{term: app(p.coq, args), pre: pre, t: rt}, nil
	}
	if full == "(*bufio.Scanner).Text" || full == "(*bufio.Scanner).Err" {
		se := ast.Unparen(x.Fun).(*ast.SelectorExpr)
		id, ok := ast.Unparen(se.X).(*ast.Ident)
		if !ok {
			return val{}, f.errf(x, "scanner expression is not understood")
		}
		b, _, err := f.lookup(id)
		if err != nil {
			return val{}, err
		}
		if fnObj.Name() == "Text" {
			if b.text == "" {
				return val{}, f.errf(x, "%s.Text() outside the loop `for %s.Scan()`", id.Name, id.Name)
			}
			return val{term: b.text, t: &cty{k: kString}}, nil
		}
		if !b.scanned || b.text != "" {
			return val{}, f.errf(x, "%s.Err() is understood only after the loop `for %s.Scan()`", id.Name, id.Name)
		}
		return val{term: "(snd " + b.name + ")", t: &cty{k: kError}}, nil
	}
	if full == "fmt.Errorf" || full == "errors.New" {
		// the arguments are evaluated for their panics only when they are partial: not supported
		for _, a := range x.Args {
			v, err := f.expr(a)
			if err != nil {
				return val{}, err
			}
			if len(v.pre) != 0 {
				return val{}, f.errf(x, "partial expression inside an error message")
			}
		}
		t := fmt.Sprintf("(new_error %d)", f.g.errSite)
		f.g.errSite++
		return val{term: t, t: &cty{k: kError}}, nil
	}
	if f.g.decls[fnObj] != nil {
		inf, err := f.g.translate(fnObj)
		if err != nil {
			return val{}, err
		}
		if inf.res || inf.world || inf.mutRecv || len(inf.mutPar) != 0 || len(inf.results) != 1 {
			return val{}, f.errf(x, "call of %s must be a statement of its own", fnObj.Name())
		}
		args, pre, err := f.userArgs(x, inf)
		if err != nil {
			return val{}, err
		}
		return val{term: app(inf.name, args), pre: pre, t: inf.results[0]}, nil
	}
	return val{}, f.errf(x, "call of %s is not understood", full)
}

func app(fn string, args []string) string {
	if len(args) == 0 {
		return fn
	}
	return "(" + fn + " " + strings.Join(args, " ") + ")"
}

// arguments of a call of a translated function: receiver first, handles dropped
func (f *fn) userArgs(x *ast.CallExpr, inf *fnInfo) ([]string, []pbind, error) {
	var args []string
	var pre []pbind
	if inf.recv != nil {
		se, ok := ast.Unparen(x.Fun).(*ast.SelectorExpr)
		if !ok {
			return nil, nil, f.errf(x, "method expression is not understood")
		}
		r, err := f.expr(se.X)
		if err != nil {
			return nil, nil, err
		}
		pre = append(pre, r.pre...)
		args = append(args, r.term)
	}
	if len(x.Args) != len(inf.params) {
		return nil, nil, f.errf(x, "call with %d arguments of a function with %d parameters (variadic calls are not understood)", len(x.Args), len(inf.params))
	}
	for i, a := range x.Args {
		pt, err := f.ctype(a, inf.params[i].Type())
		if err != nil {
			return nil, nil, err
		}
		if pt.k == kToken {
			continue
		}
		v, err := f.expr(a)
		if err != nil {
			return nil, nil, err
		}
		pre = append(pre, v.pre...)
		args = append(args, v.term)
	}
	return args, pre, nil
}

// value arguments of a library call (receiver value first for "ro"/"value")
func (f *fn) primArgs(x *ast.CallExpr, p *prim) ([]string, []pbind, error) {
	var args []string
	var pre []pbind
	if p.recv == "ro" {
		se := ast.Unparen(x.Fun).(*ast.SelectorExpr)
		r, err := f.expr(se.X)
		if err != nil {
			return nil, nil, err
		}
		pre = append(pre, r.pre...)
		args = append(args, r.term)
	}
	sig := calleeFunc(f.info, x).Type().(*types.Signature)
	nfixed := sig.Params().Len()
	if sig.Variadic() {
		nfixed--
	}
	use := p.args
	if use == nil {
		for i := 0; i < nfixed; i++ {
			use = append(use, i)
		}
	}
	if len(x.Args) < nfixed {
		return nil, nil, f.errf(x, "too few arguments")
	}
	for _, i := range use {
		v, err := f.expr(x.Args[i])
		if err != nil {
			return nil, nil, err
		}
		pre = append(pre, v.pre...)
		args = append(args, v.term)
	}
	if sig.Variadic() {
		if x.Ellipsis.IsValid() {
			return nil, nil, f.errf(x, "variadic call with ... is not understood")
		}
		if !p.list {
			if len(x.Args) > nfixed {
				return nil, nil, f.errf(x, "variadic arguments of %s are not understood", p.coq)
			}
		} else {
			var vs []string
			for _, a := range x.Args[nfixed:] {
				v, err := f.expr(a)
				if err != nil {
					return nil, nil, err
				}
				pre = append(pre, v.pre...)
				vs = append(vs, v.term)
			}
			args = append(args, "["+strings.Join(vs, "; ")+"]")
		}
	}
	return args, pre, nil
}

func (f *fn) builtin(x *ast.CallExpr, name string) (val, error) {
	switch name {
	case "len":
		a, err := f.expr(x.Args[0])
		if err != nil {
			return val{}, err
		}
		if a.t.k != kList && a.t.k != kMap {
			return val{}, f.errf(x, "len of %s is not understood", a.t.coq())
		}
		return val{term: "(zlen " + a.term + ")", pre: a.pre, t: &cty{k: kZ, goInt: "int"}}, nil
	case "append":
		a, err := f.expr(x.Args[0])
		if err != nil {
			return val{}, err
		}
		if a.t.k != kList {
			return val{}, f.errf(x, "append to %s is not understood", a.t.coq())
		}
		pre := append([]pbind{}, a.pre...)
		if x.Ellipsis.IsValid() {
			b, err := f.expr(x.Args[1])
			if err != nil {
				return val{}, err
			}
			return val{term: "(" + a.term + " ++ " + b.term + ")", pre: append(pre, b.pre...), t: a.t}, nil
		}
		var vs []string
		for _, e := range x.Args[1:] {
			v, err := f.expr(e)
			if err != nil {
				return val{}, err
			}
			pre = append(pre, v.pre...)
			vs = append(vs, v.term)
		}
		return val{term: "(" + a.term + " ++ [" + strings.Join(vs, "; ") + "])", pre: pre, t: a.t}, nil
	case "new":
		// new(T): a pointer to a zero T (pointers are transparent)
		t, err := f.ctype(x, f.info.TypeOf(x))
		if err != nil {
			return val{}, err
		}
		z, err := f.g.zero(t)
		if err != nil {
			return val{}, f.errf(x, "%v", err)
		}
		return val{term: z, t: t}, nil
	case "make":
		t, err := f.ctype(x, f.info.TypeOf(x))
		if err != nil {
			return val{}, err
		}
		switch t.k {
		case kMap:
			return val{term: "[]", t: t}, nil
		case kList:
			if len(x.Args) == 3 {
				// make([]T, 0, c) with c >= 0 by construction: the empty slice (the capacity has no meaning here)
				if n, ok := f.constInt(x.Args[1]); !ok || n != 0 || !f.nonNeg(x.Args[2]) {
					return val{}, f.errf(x, "make of a slice with a capacity is understood only as make([]T, 0, c) with c a length or a non-negative constant")
				}
				return val{term: "[]", t: t}, nil
			}
			if len(x.Args) != 2 {
				return val{}, f.errf(x, "make form is not understood")
			}
			if n, ok := f.constInt(x.Args[1]); ok && n == 0 {
				return val{term: "[]", t: t}, nil
			}
			n, err := f.expr(x.Args[1])
			if err != nil {
				return val{}, err
			}
			z, err := f.g.zero(t.elem)
			if err != nil {
				return val{}, f.errf(x, "%v", err)
			}
			tmp := f.temp()
			pre := append(append([]pbind{}, n.pre...), pbind{tmp, "(make_slice " + z + " " + n.term + ")"})
			return val{term: tmp, pre: pre, t: t}, nil
		}
		return val{}, f.errf(x, "make of %s is not understood here", t.coq())
	}
	return val{}, f.errf(x, "builtin %s is not understood", name)
}

func (f *fn) composite(x *ast.CompositeLit) (val, error) {
	gt := f.info.TypeOf(x)
	t, err := f.ctype(x, gt)
	if err != nil {
		return val{}, err
	}
	var pre []pbind
	switch t.k {
	case kSlots:
		l := f.g.layouts[t.name]
		term := "(zero_slots " + l.name + "_layout)"
		for _, el := range x.Elts {
			kv, ok := el.(*ast.KeyValueExpr)
			if !ok {
				return val{}, f.errf(x, "positional literal of layout %s is not understood", l.name)
			}
			var lf *lfield
			for i := range l.fields {
				if id, ok := kv.Key.(*ast.Ident); ok && l.fields[i].name == id.Name {
					lf = &l.fields[i]
				}
			}
			if lf == nil || lf.array || lf.blank {
				return val{}, f.errf(kv, "field of layout %s is not understood in a literal", l.name)
			}
			v, err := f.expr(kv.Value)
			if err != nil {
				return val{}, err
			}
			pre = append(pre, v.pre...)
			w, err := slotWrite(lf.scalar, v.term)
			if err != nil {
				return val{}, f.errf(kv, "%v", err)
			}
			term = fmt.Sprintf("(set_slot %s %d %s)", term, lf.off, w)
		}
		return val{term: term, pre: pre, t: t}, nil
	case kTuple:
		parts := make([]string, len(t.elems))
		for i, el := range x.Elts {
			k := i
			ve := el
			if kv, ok := el.(*ast.KeyValueExpr); ok {
				ve = kv.Value
				k = -1
				if id, ok := kv.Key.(*ast.Ident); ok {
					for j, n := range t.names {
						if n == id.Name {
							k = j
						}
					}
				}
				if k < 0 {
					return val{}, f.errf(kv, "key of a composite literal is not understood")
				}
			}
			if k >= len(parts) {
				return val{}, f.errf(x, "too many elements in a composite literal")
			}
			v, err := f.expr(ve)
			if err != nil {
				return val{}, err
			}
			pre = append(pre, v.pre...)
			parts[k] = v.term
		}
		for i := range parts {
			if parts[i] == "" {
				z, err := f.g.zero(t.elems[i])
				if err != nil {
					return val{}, f.errf(x, "%v", err)
				}
				parts[i] = z
			}
		}
		return val{term: tuple(parts), pre: pre, t: t}, nil
	case kList:
		var vs []string
		for _, el := range x.Elts {
			if _, ok := el.(*ast.KeyValueExpr); ok {
				return val{}, f.errf(x, "keyed slice literal is not understood")
			}
			v, err := f.expr(el)
			if err != nil {
				return val{}, err
			}
			pre = append(pre, v.pre...)
			vs = append(vs, v.term)
		}
		return val{term: "[" + strings.Join(vs, "; ") + "]", pre: pre, t: t}, nil
	case kExt:
		// external struct: the fields given, in declaration order
		n, _ := gt.(*types.Named)
		if n == nil {
			return val{}, f.errf(x, "literal of %s is not understood", gt)
		}
		st, ok := n.Underlying().(*types.Struct)
		if !ok {
			return val{}, f.errf(x, "literal of %s is not understood", gt)
		}
		given := map[string]val{}
		for _, el := range x.Elts {
			kv, ok := el.(*ast.KeyValueExpr)
			if !ok {
				return val{}, f.errf(x, "positional literal of external struct %s is not understood", gt)
			}
			id, ok := kv.Key.(*ast.Ident)
			if !ok {
				return val{}, f.errf(kv, "key is not understood")
			}
			v, err := f.expr(kv.Value)
			if err != nil {
				return val{}, err
			}
			given[id.Name] = v
		}
		var parts []string
		var ts []*cty
		for i := 0; i < st.NumFields(); i++ {
			if v, ok := given[st.Field(i).Name()]; ok {
				pre = append(pre, v.pre...)
				parts = append(parts, v.term)
				ts = append(ts, v.t)
			}
		}
		return val{term: tuple(parts), pre: pre, t: tupleOf(ts)}, nil
	}
	return val{}, f.errf(x, "composite literal of %s is not understood", gt)
}

// nonNeg: an int expression that cannot be negative: a constant >= 0, len(..) / cap(..), and
// sums, products with and quotients by such constants
func (f *fn) nonNeg(e ast.Expr) bool {
	if n, ok := f.constInt(e); ok {
		return n >= 0
	}
	switch x := ast.Unparen(e).(type) {
	case *ast.Ident:
		if b := f.env[f.info.Uses[x]]; b != nil {
			return b.nonneg
		}
	case *ast.CallExpr:
		if id, ok := ast.Unparen(x.Fun).(*ast.Ident); ok && (id.Name == "len" || id.Name == "cap") {
			_, isB := f.info.Uses[id].(*types.Builtin)
			return isB
		}
		// int(x) of an unsigned value of at most 32 bits
		if tv, ok := f.info.Types[x.Fun]; ok && tv.IsType() && len(x.Args) == 1 {
			if t, ok := tv.Type.Underlying().(*types.Basic); ok && (t.Kind() == types.Int || t.Kind() == types.Int64) {
				if a, ok := f.info.TypeOf(x.Args[0]).Underlying().(*types.Basic); ok {
					switch a.Kind() {
					case types.Uint8, types.Uint16, types.Uint32:
						return true
					}
				}
			}
		}
	case *ast.BinaryExpr:
		switch x.Op {
		case token.ADD:
			return f.nonNeg(x.X) && f.nonNeg(x.Y)
		case token.MUL:
			if c, ok := f.constInt(x.Y); ok && c >= 0 && c <= 1024 {
				return f.nonNeg(x.X)
			}
			if c, ok := f.constInt(x.X); ok && c >= 0 && c <= 1024 {
				return f.nonNeg(x.Y)
			}
		case token.QUO:
			if c, ok := f.constInt(x.Y); ok && c > 0 {
				return f.nonNeg(x.X)
			}
		}
	}
	return false
}

func (f *fn) extValue(id *ast.Ident, b *binding) (val, bool) {
	t := f.info.TypeOf(id)
	if p, ok := t.(*types.Pointer); ok {
		t = p.Elem()
	}
	n, _ := t.(*types.Named)
	if n == nil {
		return val{}, false
	}
	st, ok := n.Underlying().(*types.Struct)
	if !ok {
		return val{}, false
	}
	var parts []string
	var ts []*cty
	for i := 0; i < st.NumFields(); i++ {
		if pb := b.ext[st.Field(i).Name()]; pb != nil {
			parts = append(parts, pb.name)
			ts = append(ts, pb.t)
		}
	}
	// every path the function mentions must be a direct field (no nested paths)
	if len(parts) == 0 || len(parts) != len(b.ext) {
		return val{}, false
	}
	return val{term: tuple(parts), t: tupleOf(ts)}, true
}
