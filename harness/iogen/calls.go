package iogen

import (
	"fmt"
	"go/ast"
	"go/types"
	"strings"
)

type callRes struct {
	term string
	t    *cty
	tok  bool
	fin  func(k cont) (string, error)
}

func (f *fn) nextPH() int { f.ph++; return f.ph }

func (f *fn) countAssign(o types.Object) int { return f.assignCount[o] }

func (f *fn) inf_body() ast.Node { return f.body }

// isStmtCall: the call cannot be part of an expression
func (f *fn) isStmtCall(c *ast.CallExpr) bool {
	if id, ok := ast.Unparen(c.Fun).(*ast.Ident); ok {
		if b := f.env[f.info.Uses[id]]; b != nil && b.closure != nil {
			return true
		}
	}
	fo := calleeFunc(f.info, c)
	if fo == nil {
		return false
	}
	full := fo.FullName()
	switch full {
	case "encoding/binary.Read", "encoding/binary.Write", "bufio.NewReader", "bufio.NewWriter", "bufio.NewScanner",
		"(*github.com/hpinc/go3mf.Encoder).Encode":
		return true
	}
	if p, ok := prims[full]; ok {
		return p.noop || p.world || p.recv == "value" || p.recv == "token" || len(p.res) != 1 || p.res[0] != "val"
	}
	if f.g.decls[fo] != nil {
		s := f.g.scanFunc(fo)
		sig := fo.Type().(*types.Signature)
		return s.res || s.world || s.mutRecv || sig.Results().Len() != 1
	}
	return false
}

func (f *fn) bindCall(x *ast.CallExpr, lhs []ast.Expr, define bool, k func([]callRes) (string, error)) (string, error) {
	want := func(i int, t *cty) (callRes, error) {
		if lhs == nil {
			return callRes{term: "_", t: t}, nil
		}
		if i >= len(lhs) {
			return callRes{}, f.errf(x, "more results than targets")
		}
		if lhs[i] == nil {
			return callRes{term: f.temp(), t: t}, nil
		}
		n, fin, err := f.target(lhs[i], define, t)
		return callRes{term: n, t: t, fin: fin, tok: t.k == kToken}, err
	}
	tokRes := func(i int, kindName string) (callRes, error) {
		r, err := want(i, &cty{k: kToken, name: kindName})
		r.tok = true
		return r, err
	}
	// closures
	if id, ok := ast.Unparen(x.Fun).(*ast.Ident); ok {
		if b := f.env[f.info.Uses[id]]; b != nil && b.closure != nil {
			return f.callClosure(x, b.closure, want, k)
		}
	}
	fo := calleeFunc(f.info, x)
	if fo == nil {
		return "", f.errf(x, "call of a function value is not understood")
	}
	full := fo.FullName()
	argIdent := func(i int) (*binding, *ast.Ident, error) {
		id, ok := ast.Unparen(x.Args[i]).(*ast.Ident)
		if !ok {
			return nil, nil, f.errf(x.Args[i], "this argument must be a variable")
		}
		b, _, err := f.lookup(id)
		return b, id, err
	}
	switch full {
	case "bufio.NewReader", "bufio.NewScanner":
		b, id, err := argIdent(0)
		if err != nil {
			return "", err
		}
		if !b.tok || b.t.name != "file" {
			return "", f.errf(x, "%s of something that is not the file", fo.Name())
		}
		if full == "bufio.NewReader" {
			r, err := tokRes(0, "bufreader")
			if err != nil {
				return "", err
			}
			b.wrapped = true
			_ = id
			return k([]callRes{r})
		}
		r, err := want(0, &cty{k: kScanner})
		if err != nil {
			return "", err
		}
		b.wrapped = true
		f.g.used["bufio_scan"] = true
		rest, err := k([]callRes{r})
		if err != nil {
			return "", err
		}
		return "let " + r.term + " := bufio_scan w in\n" + rest, nil
	case "bufio.NewWriter":
		b, _, err := argIdent(0)
		if err != nil {
			return "", err
		}
		if !b.tok || b.t.name != "file" {
			return "", f.errf(x, "bufio.NewWriter of something that is not the file")
		}
		r, err := tokRes(0, "bufwriter")
		if err != nil {
			return "", err
		}
		return k([]callRes{r})
	case "encoding/binary.Read", "encoding/binary.Write":
		hb, _, err := argIdent(0)
		if err != nil {
			return "", err
		}
		if !hb.tok {
			return "", f.errf(x, "binary.%s on something that is not a handle on the file", fo.Name())
		}
		ord, err := f.expr(x.Args[1])
		if err != nil {
			return "", err
		}
		d, err := f.expr(x.Args[2])
		if err != nil {
			return "", err
		}
		if d.t.k != kSlots || len(d.pre)+len(ord.pre) != 0 {
			return "", f.errf(x, "binary.%s of a value that is not a layout struct", fo.Name())
		}
		er, err := want(0, &cty{k: kError})
		if err != nil {
			return "", err
		}
		f.touchWorld()
		lay := d.t.name + "_layout"
		if fo.Name() == "Read" {
			if hb.t.name != "file" && hb.t.name != "bufreader" {
				return "", f.errf(x, "binary.Read from a %s", hb.t.name)
			}
			f.g.used["binary_Read"] = true
			tmp := f.temp()
			body, err := f.assignLval(x.Args[2], tmp, func() (string, error) { return k([]callRes{er}) })
			if err != nil {
				return "", err
			}
			return fmt.Sprintf("let '(%s, %s, w) := binary_Read %s %s %s w in\n", tmp, er.term, ord.term, lay, d.term) + body, nil
		}
		pn := ""
		switch hb.t.name {
		case "file":
			pn = "binary_Write_file"
		case "bufwriter":
			pn = "binary_Write_bufio"
		default:
			return "", f.errf(x, "binary.Write to a %s", hb.t.name)
		}
		f.g.used[pn] = true
		rest, err := k([]callRes{er})
		if err != nil {
			return "", err
		}
		return fmt.Sprintf("let '(%s, w) := %s %s %s %s w in\n", er.term, pn, ord.term, lay, d.term) + rest, nil
	case "(*github.com/hpinc/go3mf.Encoder).Encode":
		var vt, tt string
		for _, b := range f.env {
			if b.ext != nil {
				if p := b.ext["Vertices.Vertex"]; p != nil {
					vt = p.name
				}
				if p := b.ext["Triangles.Triangle"]; p != nil {
					tt = p.name
				}
			}
		}
		if vt == "" || tt == "" || !strings.Contains(f.src(x.Args[0]), "model") {
			return "", f.errf(x, "Encode of something that is not the model holding the mesh")
		}
		f.setup = append(f.setup, f.src(x))
		er, err := want(0, &cty{k: kError})
		if err != nil {
			return "", err
		}
		f.touchWorld()
		f.g.used["mf_Encode"] = true
		rest, err := k([]callRes{er})
		if err != nil {
			return "", err
		}
		return fmt.Sprintf("let '(%s, w) := mf_Encode %s %s w in\n", er.term, vt, tt) + rest, nil
	}
	if p, ok := prims[full]; ok {
		if p.noop {
			return k(nil)
		}
		f.g.used[p.coq] = true
		args, pre, err := f.primArgs(x, p)
		if err != nil {
			return "", err
		}
		var pat []string
		var recvExpr ast.Expr
		var recvTmp string
		if p.recv == "value" {
			recvExpr = ast.Unparen(x.Fun).(*ast.SelectorExpr).X
			rv, err := f.expr(recvExpr)
			if err != nil {
				return "", err
			}
			pre = append(rv.pre, pre...)
			args = append([]string{rv.term}, args...)
			recvTmp = f.temp()
			pat = append(pat, recvTmp)
		}
		sig := fo.Type().(*types.Signature)
		var rs []callRes
		for i, r := range p.res {
			switch r {
			case "val":
				t, err := f.ctype(x, sig.Results().At(i).Type())
				if err != nil {
					return "", err
				}
				cr, err := want(i, t)
				if err != nil {
					return "", err
				}
				pat = append(pat, cr.term)
				rs = append(rs, cr)
			case "tok":
				t, err := f.ctype(x, sig.Results().At(i).Type())
				if err != nil {
					return "", err
				}
				cr, err := tokRes(i, t.name)
				if err != nil {
					return "", err
				}
				rs = append(rs, cr)
			default:
				if lhs != nil && i < len(lhs) && lhs[i] != nil && !isBlank(lhs[i]) {
					return "", f.errf(x, "result %d of %s is not modelled and cannot be used", i, full)
				}
				rs = append(rs, callRes{term: "_", tok: true})
			}
		}
		if p.world {
			args = append(args, "w")
			pat = append(pat, "w")
			f.touchWorld()
		}
		cont2 := func() (string, error) { return k(rs) }
		var body string
		if recvExpr != nil {
			if err := f.checkWriteThrough(recvExpr); err != nil {
				return "", err
			}
			body, err = f.assignLval(recvExpr, recvTmp, cont2)
		} else {
			body, err = cont2()
		}
		if err != nil {
			return "", err
		}
		code := body
		if len(pat) > 0 {
			code = "let " + pattern(pat) + " := " + app(p.coq, args) + " in\n" + body
		}
		return f.wrapPre(x, pre, code)
	}
	if f.g.decls[fo] != nil {
		inf, err := f.g.translate(fo)
		if err != nil {
			return "", err
		}
		if inf.chanW {
			return "", f.errf(x, "call of a channel writer is not understood")
		}
		args, pre, err := f.userArgs(x, inf)
		if err != nil {
			return "", err
		}
		sig := fo.Type().(*types.Signature)
		var pat []string
		var rs []callRes
		errName := "_"
		for i := 0; i < sig.Results().Len(); i++ {
			rt := sig.Results().At(i).Type()
			t, err := f.ctype(x, rt)
			if err != nil {
				return "", err
			}
			cr, err := want(i, t)
			if err != nil {
				return "", err
			}
			switch {
			case t.k == kError:
				errName = cr.term
			case t.k == kToken || t.k == kChan:
				cr.tok = true
			default:
				pat = append(pat, cr.term)
			}
			rs = append(rs, cr)
		}
		// values written back by the callee: the receiver, then the parameters it writes through
		var backExpr []ast.Expr
		var backTmp []string
		if inf.mutRecv {
			backExpr = append(backExpr, ast.Unparen(x.Fun).(*ast.SelectorExpr).X)
		}
		for _, i := range inf.mutPar {
			backExpr = append(backExpr, x.Args[i])
		}
		for range backExpr {
			t := f.temp()
			backTmp = append(backTmp, t)
			pat = append(pat, t)
		}
		if inf.world {
			args = append(args, "w")
			pat = append(pat, "w")
			f.touchWorld()
		}
		var store func(i int) (string, error)
		store = func(i int) (string, error) {
			if i == len(backExpr) {
				return k(rs)
			}
			if err := f.checkWriteThrough(backExpr[i]); err != nil {
				return "", err
			}
			return f.assignLval(backExpr[i], backTmp[i], func() (string, error) { return store(i + 1) })
		}
		body, err := store(0)
		if err != nil {
			return "", err
		}
		var code string
		if !inf.res {
			code = "let " + pattern(pat) + " := " + app(inf.name, args) + " in\n" + body
		} else {
			pt, err := f.panicTerm(x)
			if err != nil {
				return "", err
			}
			code = "match " + app(inf.name, args) + " with\n| Panic => " + pt + "\n| Val " + matchPat(pat) + " " + errName + " =>\n" + body + "\nend"
		}
		return f.wrapPre(x, pre, code)
	}
	// an ordinary expression call with one result
	v, err := f.expr(x)
	if err != nil {
		return "", err
	}
	cr, err := want(0, v.t)
	if err != nil {
		return "", err
	}
	rest, err := k([]callRes{cr})
	if err != nil {
		return "", err
	}
	code := rest
	if cr.term != "_" {
		code = "let " + cr.term + " := " + v.term + " in\n" + rest
	}
	return f.wrapPre(x, v.pre, code)
}

// ---------------------------------------------------------------- closures

func (f *fn) callClosure(x *ast.CallExpr, c *closureInfo, want func(int, *cty) (callRes, error), k func([]callRes) (string, error)) (string, error) {
	var args []string
	var pre []pbind
	for _, o := range c.captured {
		b := f.env[o]
		if b == nil {
			return "", f.errf(x, "captured variable of %s is out of scope", c.name)
		}
		args = append(args, b.name)
	}
	for _, a := range x.Args {
		v, err := f.expr(a)
		if err != nil {
			return "", err
		}
		pre = append(pre, v.pre...)
		args = append(args, v.term)
	}
	var pat []string
	var rs []callRes
	for i, t := range c.resTypes {
		cr, err := want(i, t)
		if err != nil {
			return "", err
		}
		pat = append(pat, cr.term)
		rs = append(rs, cr)
	}
	for _, o := range c.mutated {
		pat = append(pat, f.env[o].name)
		f.assigned(o)
	}
	rest, err := k(rs)
	if err != nil {
		return "", err
	}
	return f.wrapPre(x, pre, "let "+pattern(pat)+" := "+app(c.name, args)+" in\n"+rest)
}

// addVertex := func(p T) R { ... }: lambda-lifted into a definition of its own; the variables
// of the enclosing function it uses are passed at every call, those it assigns are returned
func (f *fn) closureDef(id *ast.Ident, fl *ast.FuncLit, k cont) (string, error) {
	sig := f.info.TypeOf(fl).(*types.Signature)
	cf := &fn{g: f.g, p: f.p, info: f.info, inf: &fnInfo{name: f.inf.name + "_" + id.Name}, env: map[types.Object]*binding{},
		names: map[string]int{}, pure: true, closureOf: f, sig: sig, body: fl.Body, assignCount: map[types.Object]int{}}
	for n, c := range f.names {
		cf.names[n] = c
	}
	// the enclosing variables are visible
	outer := map[types.Object]bool{}
	for o, b := range f.env {
		cf.env[o] = b
		outer[o] = true
	}
	fr := &frame{pre: outer}
	cf.frames = []*frame{fr}
	var params []string
	for i := 0; i < sig.Params().Len(); i++ {
		pv := sig.Params().At(i)
		t, err := f.ctype(fl, pv.Type())
		if err != nil {
			return "", err
		}
		b := cf.declare(pv, t)
		params = append(params, "("+b.name+" : "+t.coq()+")")
	}
	var resTypes []*cty
	for i := 0; i < sig.Results().Len(); i++ {
		t, err := f.ctype(fl, sig.Results().At(i).Type())
		if err != nil {
			return "", err
		}
		resTypes = append(resTypes, t)
	}
	body, err := cf.block(fl.Body.List, func() (string, error) {
		if sig.Results().Len() != 0 {
			return "", f.errf(fl, "closure body may end without a return")
		}
		return cf.retTerm(fl, nil, "None")
	})
	if err != nil {
		return "", err
	}
	if fr.world {
		return "", f.errf(fl, "a closure that touches the file is not understood")
	}
	// captured: every enclosing variable with a Coq value that the body mentions
	mentioned := map[types.Object]bool{}
	var captured []types.Object
	note := func(o types.Object) {
		if o != nil && outer[o] && !mentioned[o] {
			b := f.env[o]
			if b.tok || b.closure != nil || b.ext != nil {
				return
			}
			mentioned[o] = true
			captured = append(captured, o)
		}
	}
	ast.Inspect(fl.Body, func(n ast.Node) bool {
		switch y := n.(type) {
		case *ast.SelectorExpr:
			if b, _, p, ok := cf.extPath(y); ok {
				if pb := b.ext[p]; pb != nil {
					note(f.objOf(pb))
				}
			}
		case *ast.Ident:
			note(f.info.Uses[y])
		}
		return true
	})
	mut := ""
	for _, o := range fr.list {
		mut += ", " + f.env[o].name
	}
	body = strings.ReplaceAll(body, mutPH, mut)
	var cparams []string
	for _, o := range captured {
		b := f.env[o]
		cparams = append(cparams, "("+b.name+" : "+b.t.coq()+")")
	}
	ci := &closureInfo{name: cf.inf.name, captured: captured, mutated: fr.list, resTypes: resTypes}
	def := fmt.Sprintf("(* %s: closure %s *)\nDefinition %s %s :=\n%s.", f.g.pos(fl), id.Name, ci.name, strings.Join(append(cparams, params...), " "), indent(body, "  "))
	f.g.out = append(f.g.out, def)
	o := f.info.Defs[id]
	f.env[o] = &binding{name: id.Name, closure: ci, t: &cty{k: kFunc}}
	return k()
}

func indent(s, ind string) string {
	lines := strings.Split(s, "\n")
	depth := 0
	for i, l := range lines {
		t := strings.TrimSpace(l)
		d := depth
		if strings.HasPrefix(t, "end") || strings.HasPrefix(t, "|") || strings.HasPrefix(t, "else") {
			d--
		}
		if d < 0 {
			d = 0
		}
		lines[i] = ind + strings.Repeat("  ", d) + t
		depth += strings.Count(t, "match ") - countEnds(t)
		if depth < 0 {
			depth = 0
		}
	}
	return strings.Join(lines, "\n")
}

func countEnds(t string) int {
	n := 0
	for _, w := range strings.FieldsFunc(t, func(r rune) bool {
		return !(r == '_' || r >= 'a' && r <= 'z' || r >= 'A' && r <= 'Z' || r >= '0' && r <= '9')
	}) {
		if w == "end" {
			n++
		}
	}
	return n
}
