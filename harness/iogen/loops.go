package iogen

import (
	"fmt"
	"go/ast"
	"go/constant"
	"go/token"
	"go/types"
	"strings"
)

// Loops.  Normal forms (so that equivalent spellings of a loop give the same Gallina term):
//   - `for i := 0; i < len(X); i++ {..}` is `for i := range X {..}` when the body neither writes
//     X nor i (X an identifier / field path);
//   - inside `for i := range X` / `for i, v := range X`, a read `X[i]` is the element variable
//     (same side condition), so index loops and value loops coincide;
//   - loops over a fixed-size array (`for k := range t`, `for k, v := range t`) and counted loops
//     with constant bounds and at most maxUnroll iterations are unrolled, the index being a
//     constant known to the translator in each copy of the body (array elements are tuple
//     components, d.Field[k] a slot number);
//   - `continue` ends the current iteration.  `break`, `goto`, labels are errors.

const maxUnroll = 16

type rangeElem struct {
	src  string       // source text of the ranged expression
	key  types.Object // the index variable
	name string       // Coq name of the element
	t    *cty
	used bool
}

// stableRoot: e is an identifier or a field path on one (possibly through pointers); returns the variable
func (f *fn) stableRoot(e ast.Expr) (types.Object, bool) {
	for {
		switch x := ast.Unparen(e).(type) {
		case *ast.SelectorExpr:
			if sel := f.info.Selections[x]; sel == nil || sel.Kind() != types.FieldVal {
				return nil, false
			}
			e = x.X
		case *ast.StarExpr:
			e = x.X
		case *ast.Ident:
			o := f.info.Uses[x]
			if _, ok := o.(*types.Var); !ok {
				return nil, false
			}
			return o, true
		default:
			return nil, false
		}
	}
}

// bodyTouches: the body may change the value of a path rooted at root, or the variable key.
// Writes are: assignment / ++ to a path on root, taking its address, calling a pointer-receiver
// method on it, passing it (or a path on it of pointer / slice / map type) to a call other than
// len / cap, mentioning it in a closure.  Plain reads are harmless.
func (f *fn) bodyTouches(body ast.Node, root types.Object, src string, key types.Object) bool {
	written := map[*ast.Ident]bool{}
	markWrite := func(e ast.Expr) {
		for {
			switch x := ast.Unparen(e).(type) {
			case *ast.SelectorExpr:
				e = x.X
			case *ast.IndexExpr:
				e = x.X
			case *ast.SliceExpr:
				e = x.X
			case *ast.StarExpr:
				e = x.X
			case *ast.UnaryExpr:
				e = x.X
			case *ast.Ident:
				written[x] = true
				return
			default:
				return
			}
		}
	}
	touched := false
	ast.Inspect(body, func(n ast.Node) bool {
		switch x := n.(type) {
		case *ast.AssignStmt:
			if x.Tok != token.DEFINE {
				for _, l := range x.Lhs {
					markWrite(l)
				}
			}
		case *ast.IncDecStmt:
			markWrite(x.X)
		case *ast.UnaryExpr:
			if x.Op == token.AND {
				markWrite(x.X)
			}
		case *ast.RangeStmt:
			if x.Tok == token.ASSIGN {
				if x.Key != nil {
					markWrite(x.Key)
				}
				if x.Value != nil {
					markWrite(x.Value)
				}
			}
		case *ast.CallExpr:
			if id, ok := ast.Unparen(x.Fun).(*ast.Ident); ok {
				if _, isB := f.info.Uses[id].(*types.Builtin); isB && (id.Name == "len" || id.Name == "cap") {
					return true
				}
			}
			if tv, ok := f.info.Types[x.Fun]; ok && tv.IsType() {
				return true // a conversion
			}
			// a function of the module: what it writes through is known from its body
			if fo := calleeFunc(f.info, x); fo != nil && f.g.decls[fo] != nil {
				sc := f.g.scanFunc(fo)
				if sc.mutRecv {
					if se, ok := ast.Unparen(x.Fun).(*ast.SelectorExpr); ok {
						markWrite(se.X)
					}
				}
				for i := range sc.mutParams {
					if i < len(x.Args) {
						markWrite(x.Args[i])
					}
				}
				return true
			}
			if se, ok := ast.Unparen(x.Fun).(*ast.SelectorExpr); ok {
				if sel := f.info.Selections[se]; sel != nil && sel.Kind() == types.MethodVal {
					if fo, ok := sel.Obj().(*types.Func); ok {
						if r := fo.Type().(*types.Signature).Recv(); r != nil {
							if _, ptr := r.Type().(*types.Pointer); ptr {
								markWrite(se.X)
							}
						}
					}
				}
			}
			for _, a := range x.Args {
				if isRefType(f.info.TypeOf(a)) {
					markWrite(a)
				}
			}
		case *ast.FuncLit:
			ast.Inspect(x, func(m ast.Node) bool {
				if id, ok := m.(*ast.Ident); ok && (f.info.Uses[id] == root || (key != nil && f.info.Uses[id] == key)) {
					touched = true
				}
				return true
			})
			return false
		}
		return true
	})
	for id := range written {
		o := f.info.Uses[id]
		if o == root || (key != nil && o == key) {
			touched = true
		}
	}
	return touched
}

// constInt: the value of an integer expression known at translation time (a Go constant, the
// index of an unrolled loop, sums / products of such)
func (f *fn) constInt(e ast.Expr) (int64, bool) {
	if tv, ok := f.info.Types[e]; ok && tv.Value != nil {
		iv := constant.ToInt(tv.Value)
		if iv.Kind() != constant.Int {
			return 0, false
		}
		return constant.Int64Val(iv)
	}
	switch x := ast.Unparen(e).(type) {
	case *ast.Ident:
		if b := f.env[f.info.Uses[x]]; b != nil && b.cval != nil {
			return *b.cval, true
		}
	case *ast.BinaryExpr:
		a, ok1 := f.constInt(x.X)
		b, ok2 := f.constInt(x.Y)
		if !ok1 || !ok2 {
			return 0, false
		}
		if t, ok := f.info.TypeOf(x).Underlying().(*types.Basic); !ok || t.Kind() != types.Int {
			return 0, false // only int arithmetic (no wrap-around to think about for these small values)
		}
		const lim = 1 << 31
		var r int64
		switch x.Op {
		case token.ADD:
			r = a + b
		case token.SUB:
			r = a - b
		case token.MUL:
			r = a * b
		case token.REM:
			if b <= 0 || a < 0 {
				return 0, false
			}
			r = a % b
		case token.QUO:
			if b <= 0 || a < 0 {
				return 0, false
			}
			r = a / b
		default:
			return 0, false
		}
		if a > lim || a < -lim || b > lim || b < -lim {
			return 0, false
		}
		return r, true
	case *ast.CallExpr:
		// int(k) of a known value
		if tv, ok := f.info.Types[x.Fun]; ok && tv.IsType() && len(x.Args) == 1 {
			if t, ok := tv.Type.Underlying().(*types.Basic); ok && t.Kind() == types.Int {
				return f.constInt(x.Args[0])
			}
		}
	}
	return 0, false
}

// unroll translates `body` once per value of the loop variable; memoises the continuation of
// each copy (reached by falling off the end of the body and by `continue`)
func (f *fn) unroll(n ast.Node, iv types.Object, vals []int64, perIter func(j int) (string, error), body *ast.BlockStmt, k cont) (string, error) {
	before := 0
	if iv != nil {
		before = f.countAssign(iv)
	}
	var iter func(j int) (string, error)
	iter = func(j int) (string, error) {
		if j == len(vals) {
			return k()
		}
		if iv != nil {
			b := f.declare(iv, &cty{k: kZ, goInt: "int"})
			c := vals[j]
			b.cval = &c
		}
		prefix := ""
		if perIter != nil {
			p, err := perIter(j)
			if err != nil {
				return "", err
			}
			prefix = p
		}
		var memo string
		var done bool
		next := func() (string, error) {
			if !done {
				s, err := iter(j + 1)
				if err != nil {
					return "", err
				}
				memo, done = s, true
			}
			return memo, nil
		}
		// translate the body with a placeholder for what follows it, then what follows (once, in
		// the environment after the body), as for if statements
		ph := fmt.Sprintf("\x00REST%d\x00", f.nextPH())
		phK := func() (string, error) { return ph, nil }
		f.conts = append(f.conts, phK)
		s, err := f.block(body.List, phK)
		f.conts = f.conts[:len(f.conts)-1]
		if err != nil {
			return "", err
		}
		if strings.Contains(s, ph) {
			r, err := next()
			if err != nil {
				return "", err
			}
			s = strings.ReplaceAll(s, ph, r)
		}
		return prefix + s, nil
	}
	s, err := iter(0)
	if err != nil {
		return "", err
	}
	if iv != nil && f.countAssign(iv) != before {
		return "", f.errf(n, "the index of an unrolled loop is assigned in its body")
	}
	return s, nil
}

func arrayOf(t types.Type) *types.Array {
	if t == nil {
		return nil
	}
	if p, ok := t.Underlying().(*types.Pointer); ok {
		t = p.Elem()
	}
	a, _ := t.Underlying().(*types.Array)
	return a
}

func (f *fn) defObj(e ast.Expr) types.Object {
	if e == nil || isBlank(e) {
		return nil
	}
	id, ok := e.(*ast.Ident)
	if !ok {
		return nil
	}
	return f.info.Defs[id]
}

func (f *fn) rangeStmt(x *ast.RangeStmt, k cont) (string, error) {
	if x.Tok != token.DEFINE && (x.Key != nil || x.Value != nil) {
		return "", f.errf(x, "range with assignment to existing variables is not understood")
	}
	// the channel of the writer pattern
	if id, ok := ast.Unparen(x.X).(*ast.Ident); ok {
		if b := f.env[f.info.Uses[id]]; b != nil && b.batches != "" {
			if len(x.Body.List) == 0 && x.Key == nil {
				return k() // `for range c {}`: drain the channel
			}
			if b.drained {
				return "", f.errf(x, "a second loop over the channel is not understood")
			}
			b.drained = true
			ct, err := f.ctype(x, f.info.TypeOf(x.X))
			if err != nil {
				return "", err
			}
			// the channel delivers values only: `for v := range c`
			return f.listLoop(x, b.batches, nil, ct.elem, nil, f.defObj(x.Key), nil, k)
		}
	}
	gt := f.info.TypeOf(x.X)
	// for i := range n
	if bt, ok := gt.Underlying().(*types.Basic); ok && bt.Info()&types.IsInteger != 0 {
		if x.Value != nil {
			return "", f.errf(x, "range over an integer with two variables")
		}
		iv := f.defObj(x.Key)
		if n, ok := f.constInt(x.X); ok && n <= maxUnroll {
			var vals []int64
			for j := int64(0); j < n; j++ {
				vals = append(vals, j)
			}
			return f.unroll(x, iv, vals, nil, x.Body, k)
		}
		if bt.Kind() != types.Int && bt.Kind() != types.UntypedInt {
			return "", f.errf(x, "range over an integer of type %s is not understood", bt)
		}
		return f.countedLoop(x, iv, "0%Z", x.X, 1, x.Body, k)
	}
	// arrays: unrolled
	if arr := arrayOf(gt); arr != nil {
		v, err := f.expr(x.X)
		if err != nil {
			return "", err
		}
		if v.t.k != kTuple || len(v.t.names) != 0 || len(v.pre) != 0 {
			return "", f.errf(x, "range over this array value is not understood")
		}
		n := len(v.t.elems)
		vals := make([]int64, n)
		for j := range vals {
			vals[j] = int64(j)
		}
		valObj := f.defObj(x.Value)
		src, tmp := v.term, ""
		if _, isPtr := gt.Underlying().(*types.Pointer); isPtr && valObj != nil {
			return "", f.errf(x, "range with a value variable over a pointer to an array is not understood")
		}
		if valObj != nil {
			// the value variable reads a copy of the array taken before the loop
			tmp = f.temp()
			src = tmp
		}
		per := func(j int) (string, error) {
			if valObj == nil {
				return "", nil
			}
			b := f.declare(valObj, v.t.elems[j])
			b.alias = isRefType(valObj.Type())
			return "let " + b.name + " := " + proj(src, j, n) + " in\n", nil
		}
		s, err := f.unroll(x, f.defObj(x.Key), vals, per, x.Body, k)
		if err != nil {
			return "", err
		}
		if tmp != "" {
			s = "let " + tmp + " := " + v.term + " in\n" + s
		}
		return s, nil
	}
	v, err := f.expr(x.X)
	if err != nil {
		return "", err
	}
	if v.t.k != kList {
		return "", f.errf(x, "range over %s is not understood", v.t.coq())
	}
	return f.listLoop(x, v.term, v.pre, v.t.elem, x.X, f.defObj(x.Key), f.defObj(x.Value), k)
}

// listLoop: range_loop over the list xs.  ranged is the Go expression (nil for the channel, whose
// only variable is the value, passed as keyObj).
func (f *fn) listLoop(x *ast.RangeStmt, xs string, pre []pbind, elemT *cty, ranged ast.Expr, keyObj, valObj types.Object, k cont) (string, error) {
	isChan := ranged == nil
	if isChan {
		keyObj, valObj = nil, keyObj
	}
	fr := f.pushFrame()
	keyN, valN := "_", "_"
	if keyObj != nil {
		keyN = f.declare(keyObj, &cty{k: kZ, goInt: "int"}).name
	}
	if valObj != nil {
		b := f.declare(valObj, elemT)
		b.alias = isRefType(valObj.Type())
		valN = b.name
	}
	// reads X[i] of the ranged slice are the element
	var re *rangeElem
	var root types.Object
	if !isChan && keyObj != nil {
		if r, ok := f.stableRoot(ranged); ok {
			root = r
			if !f.bodyTouches(x.Body, r, f.src(ranged), keyObj) {
				name := valN
				if name == "_" {
					name = f.fresh("x_" + keyObj.Name())
				}
				re = &rangeElem{src: f.src(ranged), key: keyObj, name: name, t: elemT}
				f.ranges = append(f.ranges, re)
			}
		}
	}
	id := f.nextPH()
	next := func() (string, error) { return "(Next " + statePH(id) + ")", nil }
	f.loop++
	f.conts = append(f.conts, next)
	body, err := f.block(x.Body.List, next)
	f.conts = f.conts[:len(f.conts)-1]
	f.loop--
	f.popFrame()
	if re != nil {
		f.ranges = f.ranges[:len(f.ranges)-1]
		if re.used {
			valN = re.name
		}
	}
	if err != nil {
		return "", err
	}
	vars := f.frameVars(fr)
	if valObj != nil && !isChan {
		// the value variable is a copy taken before the body runs: the ranged slice must not be rebound
		if root == nil {
			if rid, ok := ast.Unparen(ranged).(*ast.Ident); ok {
				root = f.info.Uses[rid]
			}
		}
		for _, o := range fr.list {
			if root != nil && o == root {
				return "", f.errf(x, "the ranged slice is assigned in the loop body while its elements are read")
			}
		}
	}
	body = strings.ReplaceAll(body, statePH(id), tuple(vars))
	loopTerm := fmt.Sprintf("(range_loop (fun %s %s %s =>\n%s) 0%%Z %s %s)", keyN, valN, pattern(vars), body, xs, tuple(vars))
	code, err := f.loopCode(loopTerm, fr, k)
	if err != nil {
		return "", err
	}
	return f.wrapPre(x, pre, code)
}

// countedLoop: for iv := a; iv < n; iv += step  (a a term, n a Go expression not changed by the body)
func (f *fn) countedLoop(x ast.Node, iv types.Object, aTerm string, nExpr ast.Expr, step int64, bodyB *ast.BlockStmt, k cont) (string, error) {
	n, err := f.expr(nExpr)
	if err != nil {
		return "", err
	}
	if len(n.pre) != 0 || n.t.k != kZ {
		return "", f.errf(x, "for loop bounds are not understood")
	}
	var boundObjs []types.Object
	ast.Inspect(nExpr, func(m ast.Node) bool {
		if id, ok := m.(*ast.Ident); ok {
			if o := f.info.Uses[id]; o != nil && f.env[o] != nil {
				boundObjs = append(boundObjs, o)
			}
		}
		return true
	})
	fr := f.pushFrame()
	ivName := "_"
	before := 0
	if iv != nil {
		ivName = f.declare(iv, &cty{k: kZ, goInt: "int"}).name
		before = f.countAssign(iv)
	}
	ph := f.nextPH()
	next := func() (string, error) { return "(Next " + statePH(ph) + ")", nil }
	f.loop++
	f.conts = append(f.conts, next)
	body, err := f.block(bodyB.List, next)
	f.conts = f.conts[:len(f.conts)-1]
	f.loop--
	f.popFrame()
	if err != nil {
		return "", err
	}
	if iv != nil && f.countAssign(iv) != before {
		return "", f.errf(x, "the loop variable is assigned in the body")
	}
	for _, o := range boundObjs {
		for _, m := range fr.list {
			if m == o {
				return "", f.errf(x, "the loop bound is changed by the body")
			}
		}
	}
	vars := f.frameVars(fr)
	body = strings.ReplaceAll(body, statePH(ph), tuple(vars))
	loopTerm := fmt.Sprintf("(for_upto %s %s %d%%Z (fun %s %s =>\n%s) %s)", aTerm, n.term, step, ivName, pattern(vars), body, tuple(vars))
	return f.loopCode(loopTerm, fr, k)
}

func (f *fn) forStmt(x *ast.ForStmt, k cont) (string, error) {
	// for sc.Scan() { ... }
	if x.Init == nil && x.Post == nil && x.Cond != nil {
		if c, ok := ast.Unparen(x.Cond).(*ast.CallExpr); ok {
			if fo := calleeFunc(f.info, c); fo != nil && fo.FullName() == "(*bufio.Scanner).Scan" {
				se := ast.Unparen(c.Fun).(*ast.SelectorExpr)
				id, ok := ast.Unparen(se.X).(*ast.Ident)
				if !ok {
					return "", f.errf(x, "scanner expression is not understood")
				}
				b, _, err := f.lookup(id)
				if err != nil {
					return "", err
				}
				if b.scanned {
					return "", f.errf(x, "a second scan loop is not understood")
				}
				fr := f.pushFrame()
				b.text = f.fresh("line")
				ph := f.nextPH()
				next := func() (string, error) { return "(Next " + statePH(ph) + ")", nil }
				f.loop++
				f.conts = append(f.conts, next)
				body, err := f.block(x.Body.List, next)
				f.conts = f.conts[:len(f.conts)-1]
				f.loop--
				f.popFrame()
				if err != nil {
					return "", err
				}
				text := b.text
				b.text = ""
				b.scanned = true
				vars := f.frameVars(fr)
				body = strings.ReplaceAll(body, statePH(ph), tuple(vars))
				loopTerm := fmt.Sprintf("(range_loop (fun _ %s %s =>\n%s) 0%%Z (fst %s) %s)", text, pattern(vars), body, b.name, tuple(vars))
				return f.loopCode(loopTerm, fr, k)
			}
		}
	}
	// for i := a; i < n; i += k { ... }
	init, ok := x.Init.(*ast.AssignStmt)
	if !ok || init.Tok != token.DEFINE || len(init.Lhs) != 1 || len(init.Rhs) != 1 {
		return "", f.errf(x, "for loop form is not understood (init)")
	}
	iv := f.info.Defs[init.Lhs[0].(*ast.Ident)]
	if x.Cond == nil {
		return "", f.errf(x, "for loop form is not understood (no condition)")
	}
	cond, ok := ast.Unparen(x.Cond).(*ast.BinaryExpr)
	if !ok || cond.Op != token.LSS {
		return "", f.errf(x, "for loop form is not understood (condition must be i < n)")
	}
	if cid, ok := ast.Unparen(cond.X).(*ast.Ident); !ok || f.info.Uses[cid] != iv {
		return "", f.errf(x, "for loop form is not understood (condition must be i < n)")
	}
	var step int64
	switch p := x.Post.(type) {
	case *ast.IncDecStmt:
		if pid, ok := p.X.(*ast.Ident); !ok || f.info.Uses[pid] != iv || p.Tok != token.INC {
			return "", f.errf(x, "for loop form is not understood (post)")
		}
		step = 1
	case *ast.AssignStmt:
		if pid, ok := p.Lhs[0].(*ast.Ident); !ok || len(p.Lhs) != 1 || f.info.Uses[pid] != iv || p.Tok != token.ADD_ASSIGN {
			return "", f.errf(x, "for loop form is not understood (post)")
		}
		kk, ok := f.constInt(p.Rhs[0])
		if !ok || kk <= 0 {
			return "", f.errf(x, "the step of a for loop must be a positive constant")
		}
		step = kk
	default:
		return "", f.errf(x, "for loop form is not understood (post)")
	}
	if bt, ok := iv.Type().Underlying().(*types.Basic); !ok || bt.Kind() != types.Int {
		return "", f.errf(x, "for loop bounds are not understood (the loop variable must be an int)")
	}
	// constant bounds, few iterations: unrolled
	if a, ok := f.constInt(init.Rhs[0]); ok {
		if n, ok := f.constInt(cond.Y); ok && n-a <= maxUnroll*step {
			var vals []int64
			for j := a; j < n; j += step {
				vals = append(vals, j)
			}
			return f.unroll(x, iv, vals, nil, x.Body, k)
		}
		// for i := 0; i < len(X); i++  =  for i := range X
		if a == 0 && step == 1 {
			if c, ok := ast.Unparen(cond.Y).(*ast.CallExpr); ok && len(c.Args) == 1 {
				if id, ok := ast.Unparen(c.Fun).(*ast.Ident); ok && id.Name == "len" {
					if _, isB := f.info.Uses[id].(*types.Builtin); isB {
						if _, isSlice := f.info.TypeOf(c.Args[0]).Underlying().(*types.Slice); isSlice {
							if root, ok := f.stableRoot(c.Args[0]); ok && !f.bodyTouches(x.Body, root, f.src(c.Args[0]), iv) {
								r := &ast.RangeStmt{For: x.For, Key: init.Lhs[0], Tok: token.DEFINE, X: c.Args[0], Body: x.Body}
								return f.rangeStmt(r, k)
							}
						}
					}
				}
			}
		}
	}
	a, err := f.expr(init.Rhs[0])
	if err != nil {
		return "", err
	}
	if len(a.pre) != 0 || a.t.k != kZ || a.t.goInt != "int" {
		return "", f.errf(x, "for loop bounds are not understood")
	}
	return f.countedLoop(x, iv, a.term, cond.Y, step, x.Body, k)
}

// constBool: the value of a condition known at translation time
func (f *fn) constBool(e ast.Expr) (bool, bool) {
	if tv, ok := f.info.Types[e]; ok && tv.Value != nil && tv.Value.Kind() == constant.Bool {
		return constant.BoolVal(tv.Value), true
	}
	switch x := ast.Unparen(e).(type) {
	case *ast.UnaryExpr:
		if x.Op == token.NOT {
			v, ok := f.constBool(x.X)
			return !v, ok
		}
	case *ast.BinaryExpr:
		switch x.Op {
		case token.LAND, token.LOR:
			a, ok1 := f.constBool(x.X)
			b, ok2 := f.constBool(x.Y)
			if ok1 && ok2 {
				if x.Op == token.LAND {
					return a && b, true
				}
				return a || b, true
			}
			// short circuit on a known left operand
			if ok1 && x.Op == token.LAND && !a {
				return false, true
			}
			if ok1 && x.Op == token.LOR && a {
				return true, true
			}
		case token.EQL, token.NEQ, token.LSS, token.LEQ, token.GTR, token.GEQ:
			a, ok1 := f.constInt(x.X)
			b, ok2 := f.constInt(x.Y)
			if ok1 && ok2 {
				switch x.Op {
				case token.EQL:
					return a == b, true
				case token.NEQ:
					return a != b, true
				case token.LSS:
					return a < b, true
				case token.LEQ:
					return a <= b, true
				case token.GTR:
					return a > b, true
				case token.GEQ:
					return a >= b, true
				}
			}
		}
	}
	return false, false
}
