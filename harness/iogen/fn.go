package iogen

import (
	"fmt"
	"go/ast"
	"go/token"
	"go/types"
	"sort"
	"strings"

	"golang.org/x/tools/go/packages"
)

// ---------------------------------------------------------------- pre-scan of a function

type scanInfo struct {
	res, world, mutRecv bool
	mutParams           map[int]bool // parameters of pointer / slice type that the body writes through
	bad                 string
}

func (g *gen) scanFunc(fn *types.Func) *scanInfo {
	if s, ok := g.scan[fn]; ok {
		return s
	}
	s := &scanInfo{mutParams: map[int]bool{}}
	g.scan[fn] = s // recursion: assume false
	if g.forceRes[fn] {
		s.res = true
	}
	fd := g.decls[fn]
	if fd == nil {
		return s
	}
	info := g.declPkg[fn].TypesInfo
	sig := fn.Type().(*types.Signature)
	for i := 0; i < sig.Results().Len(); i++ {
		if isErrorType(sig.Results().At(i).Type()) {
			s.res = true
		}
	}
	var recv types.Object
	if sig.Recv() != nil {
		if _, ok := sig.Recv().Type().(*types.Pointer); ok && fd.Recv != nil && len(fd.Recv.List) == 1 && len(fd.Recv.List[0].Names) == 1 {
			recv = info.Defs[fd.Recv.List[0].Names[0]]
		}
	}
	// parameters through which a write is visible to the caller (pointer, slice)
	refParam := map[types.Object]int{}
	for i := 0; i < sig.Params().Len(); i++ {
		switch sig.Params().At(i).Type().Underlying().(type) {
		case *types.Pointer, *types.Slice:
			refParam[sig.Params().At(i)] = i
		}
	}
	rootObj := func(e ast.Expr) types.Object {
		for {
			switch x := ast.Unparen(e).(type) {
			case *ast.SelectorExpr:
				e = x.X
			case *ast.IndexExpr:
				e = x.X
			case *ast.StarExpr:
				e = x.X
			case *ast.UnaryExpr:
				if x.Op != token.AND {
					return nil
				}
				e = x.X
			case *ast.Ident:
				return info.Uses[x]
			default:
				return nil
			}
		}
	}
	noteWrite := func(e ast.Expr) {
		if o := rootObj(e); o != nil {
			if i, ok := refParam[o]; ok {
				s.mutParams[i] = true
			}
		}
	}
	rootIs := func(e ast.Expr, o types.Object) bool { return o != nil && rootObj(e) == o }
	repointed := map[int]bool{}
	ast.Inspect(fd.Body, func(n ast.Node) bool {
		switch x := n.(type) {
		case *ast.ForStmt, *ast.RangeStmt, *ast.GoStmt:
			s.res = true
		case *ast.SliceExpr:
			s.res = true
		case *ast.IndexExpr:
			if t := info.TypeOf(x.X); t != nil {
				if _, ok := t.Underlying().(*types.Slice); ok {
					s.res = true
				}
			}
		case *ast.AssignStmt:
			for _, l := range x.Lhs {
				if id, isId := ast.Unparen(l).(*ast.Ident); isId {
					if i, ok := refParam[info.Uses[id]]; ok {
						repointed[i] = true
					}
				}
				if _, isId := ast.Unparen(l).(*ast.Ident); !isId {
					if rootIs(l, recv) {
						s.mutRecv = true
					}
					noteWrite(l)
				}
			}
		case *ast.IncDecStmt:
			if _, isId := ast.Unparen(x.X).(*ast.Ident); !isId {
				if rootIs(x.X, recv) {
					s.mutRecv = true
				}
				noteWrite(x.X)
			}
		case *ast.CallExpr:
			c := calleeFunc(info, x)
			if c == nil {
				return true
			}
			full := c.FullName()
			if p, ok := prims[full]; ok {
				if p.world {
					s.world = true
				}
				if p.recv == "value" {
					if se, ok := ast.Unparen(x.Fun).(*ast.SelectorExpr); ok {
						if rootIs(se.X, recv) {
							s.mutRecv = true
						}
						noteWrite(se.X)
					}
				}
				return true
			}
			switch full {
			case "encoding/binary.Read", "encoding/binary.Write", "bufio.NewScanner":
				s.world = true
				return true
			case "(*github.com/hpinc/go3mf.Encoder).Encode":
				s.world = true
				return true
			}
			if g.decls[c] != nil {
				cs := g.scanFunc(c)
				if cs.res {
					s.res = true
				}
				if cs.world {
					s.world = true
				}
				if cs.mutRecv {
					if se, ok := ast.Unparen(x.Fun).(*ast.SelectorExpr); ok {
						if rootIs(se.X, recv) {
							s.mutRecv = true
						}
						noteWrite(se.X)
					}
				}
				for i := range cs.mutParams {
					if i < len(x.Args) {
						if rootIs(x.Args[i], recv) {
							s.mutRecv = true
						}
						noteWrite(x.Args[i])
					}
				}
			}
		}
		return true
	})
	for i := range s.mutParams {
		if repointed[i] {
			s.bad = fmt.Sprintf("parameter %s is assigned and also written through (aliasing is not understood)", sig.Params().At(i).Name())
		}
	}
	return s
}

func (s *scanInfo) mutList() []int {
	var l []int
	for i := range s.mutParams {
		l = append(l, i)
	}
	sort.Ints(l)
	return l
}

func isErrorType(t types.Type) bool {
	n, ok := t.(*types.Named)
	return ok && n.Obj().Pkg() == nil && n.Obj().Name() == "error"
}

// ---------------------------------------------------------------- function context

type binding struct {
	name    string
	t       *cty
	tok     bool
	alias   bool   // a pointer / slice / map that may share memory with another variable: writes through it are not understood
	cval    *int64 // value known to the translator (index of an unrolled loop)
	nonneg  bool   // an int known to be >= 0 (a length, a loop index) since its last assignment
	wrapped bool
	closure *closureInfo
	ext     map[string]*binding // local of an external struct type: field path -> variable
	batches string              // channel: the list of batches it delivers
	drained bool
	text    string // scanner: name of the current token inside its loop
	scanned bool
}

type closureInfo struct {
	name     string
	captured []types.Object // passed at every call
	mutated  []types.Object // returned at every call (subset of captured)
	resTypes []*cty
}

type frame struct {
	pre   map[types.Object]bool
	list  []types.Object
	world bool
}

type fn struct {
	g           *gen
	p           *packages.Package
	info        *types.Info
	inf         *fnInfo
	env         map[types.Object]*binding
	names       map[string]int
	frames      []*frame
	loop        int
	tmp         int
	pure        bool
	goBody      bool // inside the goroutine of the writer pattern: `return` has no results
	setup       []string
	closureOf   *fn
	sig         *types.Signature
	body        ast.Node
	assignCount map[types.Object]int
	ph          int
	reassign    map[types.Object]bool
	conts       []cont       // what `continue` means in the enclosing loops (innermost last)
	ranges      []*rangeElem // enclosing `for i := range X` loops whose X[i] is the element
}

var reserved = map[string]bool{"w": true, "fst": true, "snd": true, "tt": true, "fun": true, "let": true, "in": true,
	"match": true, "with": true, "end": true, "if": true, "then": true, "else": true, "Some": true, "None": true,
	"Val": true, "Panic": true, "Next": true, "Return": true, "slot": true, "idx": true, "upd": true, "at": true,
	"batches": true, "Type": true, "Set": true, "Prop": true, "as": true, "return": true, "forall": true, "exists": true,
	"fix": true, "cofix": true, "mod": true, "length": true, "map": true}

func (f *fn) fresh(base string) string {
	if base == "_" || base == "" {
		base = "x"
	}
	if reserved[base] || sectionVarType(base) != "" || strings.HasPrefix(base, "gen_") {
		base = base + "_"
	}
	n := f.names[base]
	f.names[base] = n + 1
	if n == 0 {
		return base
	}
	return fmt.Sprintf("%s_%d", base, n)
}

func (f *fn) temp() string {
	f.tmp++
	return fmt.Sprintf("t%d", f.tmp)
}

// declare a new Go variable
func (f *fn) declare(o types.Object, t *cty) *binding {
	b := &binding{name: f.fresh(o.Name()), t: t}
	if t.k == kToken || t.k == kChan {
		b.tok = true
	}
	f.env[o] = b
	return b
}

func (f *fn) pushFrame() *frame {
	fr := &frame{pre: map[types.Object]bool{}}
	for o := range f.env {
		fr.pre[o] = true
	}
	f.frames = append(f.frames, fr)
	return fr
}

func (f *fn) popFrame() { f.frames = f.frames[:len(f.frames)-1] }

// record that the Coq variable of o was rebound
func (f *fn) assigned(o types.Object) {
	if f.assignCount != nil {
		f.assignCount[o]++
	}
	if b := f.env[o]; b != nil {
		b.nonneg = false
	}
	for _, fr := range f.frames {
		if !fr.pre[o] {
			continue
		}
		seen := false
		for _, x := range fr.list {
			if x == o {
				seen = true
			}
		}
		if !seen {
			fr.list = append(fr.list, o)
		}
	}
}

func (f *fn) touchWorld() {
	for _, fr := range f.frames {
		fr.world = true
	}
}

// the variables a frame rebinds, as a tuple / pattern
func (f *fn) frameVars(fr *frame) []string {
	var s []string
	for _, o := range fr.list {
		b := f.env[o]
		if b == nil {
			continue
		}
		if b.ext != nil {
			continue
		}
		s = append(s, b.name)
	}
	if fr.world {
		s = append(s, "w")
	}
	return s
}

func (f *fn) errf(n ast.Node, format string, a ...interface{}) error {
	return f.g.errf(n, format, a...)
}

func (f *fn) ctype(n ast.Node, t types.Type) (*cty, error) {
	c, err := f.g.ctype(t)
	if err != nil {
		return nil, f.errf(n, "%v", err)
	}
	return c, nil
}

// panic / return terms in the current context
func (f *fn) panicTerm(n ast.Node) (string, error) {
	if f.pure {
		return "", f.errf(n, "an operation that can panic occurs in a function translated as a total expression")
	}
	if f.loop > 0 {
		return "(Return Panic)", nil
	}
	return "Panic", nil
}

func (f *fn) retWrap(term string) string {
	if f.loop > 0 {
		return "(Return " + term + ")"
	}
	return term
}

// wrap the partial bindings of an expression around a statement
func (f *fn) wrapPre(n ast.Node, pre []pbind, body string) (string, error) {
	if len(pre) == 0 {
		return body, nil
	}
	pt, err := f.panicTerm(n)
	if err != nil {
		return "", err
	}
	for i := len(pre) - 1; i >= 0; i-- {
		body = fmt.Sprintf("match %s with\n| None => %s\n| Some %s =>\n%s\nend", pre[i].term, pt, pre[i].name, body)
	}
	return body, nil
}

type pbind struct{ name, term string }

type val struct {
	term string
	pre  []pbind
	t    *cty
}

func isBlank(e ast.Expr) bool {
	id, ok := e.(*ast.Ident)
	return ok && id.Name == "_"
}

// isRefType: values of this Go type share memory when copied
func isRefType(t types.Type) bool {
	if t == nil {
		return false
	}
	switch t.Underlying().(type) {
	case *types.Pointer, *types.Slice, *types.Map:
		return true
	}
	return false
}

// freshValue: the expression yields memory no other variable of the function refers to
// (a call result, a composite literal or its address, nil)
func freshValue(e ast.Expr) bool {
	switch x := ast.Unparen(e).(type) {
	case *ast.CallExpr, *ast.CompositeLit, *ast.FuncLit:
		return true
	case *ast.UnaryExpr:
		if x.Op == token.AND {
			_, ok := ast.Unparen(x.X).(*ast.CompositeLit)
			return ok
		}
	case *ast.Ident:
		return x.Name == "nil"
	}
	return false
}

// noteAlias records, for a variable of reference type being defined or assigned from rhs,
// whether writes through it could be visible through another variable
func (f *fn) noteAlias(lhs ast.Expr, rhs ast.Expr) {
	id, ok := ast.Unparen(lhs).(*ast.Ident)
	if !ok || id.Name == "_" {
		return
	}
	o := f.info.Defs[id]
	if o == nil {
		o = f.info.Uses[id]
	}
	b := f.env[o]
	if b == nil || o == nil || !isRefType(o.Type()) {
		return
	}
	if rhs == nil || freshValue(rhs) {
		b.alias = false
		return
	}
	b.alias = true
}

// noteNonNeg records that an int variable just defined / assigned from rhs cannot be negative
func (f *fn) noteNonNeg(lhs ast.Expr, rhs ast.Expr) {
	id, ok := ast.Unparen(lhs).(*ast.Ident)
	if !ok || id.Name == "_" {
		return
	}
	o := f.info.Defs[id]
	if o == nil {
		o = f.info.Uses[id]
	}
	if b := f.env[o]; b != nil && b.t != nil && b.t.k == kZ && b.t.goInt == "int" && f.info.Defs[id] != nil && !f.reassigned(o) {
		// only for a variable that keeps the value it is defined with
		b.nonneg = f.nonNeg(rhs)
	}
}

// reassigned: the variable is the target of an assignment, ++/--, & or a range clause somewhere in
// the function, besides its definition
func (f *fn) reassigned(o types.Object) bool {
	if f.reassign == nil {
		f.reassign = map[types.Object]bool{}
		mark := func(e ast.Expr) {
			if id, ok := ast.Unparen(e).(*ast.Ident); ok {
				if u := f.info.Uses[id]; u != nil {
					f.reassign[u] = true
				}
			}
		}
		root := f.body
		for c := f.closureOf; c != nil; c = c.closureOf {
			root = c.body
		}
		ast.Inspect(root, func(n ast.Node) bool {
			switch x := n.(type) {
			case *ast.AssignStmt:
				for _, l := range x.Lhs {
					mark(l)
				}
			case *ast.IncDecStmt:
				mark(x.X)
			case *ast.UnaryExpr:
				if x.Op == token.AND {
					mark(x.X)
				}
			case *ast.RangeStmt:
				if x.Tok == token.ASSIGN {
					if x.Key != nil {
						mark(x.Key)
					}
					if x.Value != nil {
						mark(x.Value)
					}
				}
			}
			return true
		})
	}
	return f.reassign[o]
}

// rootBinding: the variable at the root of an lvalue path
func (f *fn) rootBinding(e ast.Expr) (*binding, *ast.Ident) {
	for {
		switch x := ast.Unparen(e).(type) {
		case *ast.SelectorExpr:
			e = x.X
		case *ast.IndexExpr:
			e = x.X
		case *ast.StarExpr:
			e = x.X
		case *ast.UnaryExpr:
			if x.Op != token.AND {
				return nil, nil
			}
			e = x.X
		case *ast.Ident:
			o := f.info.Uses[x]
			if o == nil {
				o = f.info.Defs[x]
			}
			return f.env[o], x
		default:
			return nil, nil
		}
	}
}

// checkWriteThrough: a write into memory reached through this expression (a field, an
// element, the target of a pointer handed to a callee that writes through it)
func (f *fn) checkWriteThrough(e ast.Expr) error {
	if b, id := f.rootBinding(e); b != nil && b.alias {
		return f.errf(e, "write through %s, which may share memory with another variable (aliasing is not understood)", id.Name)
	}
	return nil
}
