package iogen

import (
	"fmt"
	"go/ast"
	"go/types"
	"strings"

	"golang.org/x/tools/go/packages"
)

// ---------------------------------------------------------------- pre-scan of a function

type scanInfo struct {
	res, world, mutRecv bool
}

func (g *gen) scanFunc(fn *types.Func) *scanInfo {
	if s, ok := g.scan[fn]; ok {
		return s
	}
	s := &scanInfo{}
	g.scan[fn] = s // recursion: assume false
	fd := g.decls[fn]
	if fd == nil {
		return s
	}
	info := g.declPkg[fn].TypesInfo
	sig := fn.Type().(*types.Signature)
	for i := 0; i < sig.Results().Len(); i++ {
		if isErrorType(sig.Results().At(i).Type()) {
			s.res = true
		}
	}
	var recv types.Object
	if sig.Recv() != nil {
		if _, ok := sig.Recv().Type().(*types.Pointer); ok && fd.Recv != nil && len(fd.Recv.List) == 1 && len(fd.Recv.List[0].Names) == 1 {
			recv = info.Defs[fd.Recv.List[0].Names[0]]
		}
	}
	rootIs := func(e ast.Expr, o types.Object) bool {
		for {
			switch x := ast.Unparen(e).(type) {
			case *ast.SelectorExpr:
				e = x.X
			case *ast.IndexExpr:
				e = x.X
			case *ast.StarExpr:
				e = x.X
			case *ast.Ident:
				return o != nil && info.Uses[x] == o
			default:
				return false
			}
		}
	}
	ast.Inspect(fd.Body, func(n ast.Node) bool {
		switch x := n.(type) {
		case *ast.ForStmt, *ast.RangeStmt, *ast.GoStmt:
			s.res = true
		case *ast.SliceExpr:
			s.res = true
		case *ast.IndexExpr:
			if t := info.TypeOf(x.X); t != nil {
				if _, ok := t.Underlying().(*types.Slice); ok {
					s.res = true
				}
			}
		case *ast.AssignStmt:
			for _, l := range x.Lhs {
				if _, isId := ast.Unparen(l).(*ast.Ident); !isId && rootIs(l, recv) {
					s.mutRecv = true
				}
			}
		case *ast.CallExpr:
			c := calleeFunc(info, x)
			if c == nil {
				return true
			}
			full := c.FullName()
			if p, ok := prims[full]; ok {
				if p.world {
					s.world = true
				}
				if p.recv == "value" {
					if se, ok := ast.Unparen(x.Fun).(*ast.SelectorExpr); ok && rootIs(se.X, recv) {
						s.mutRecv = true
					}
				}
				return true
			}
			switch full {
			case "encoding/binary.Read", "encoding/binary.Write", "bufio.NewScanner":
				s.world = true
				return true
			case "(*github.com/hpinc/go3mf.Encoder).Encode":
				s.world = true
				return true
			}
			if g.decls[c] != nil {
				cs := g.scanFunc(c)
				if cs.res {
					s.res = true
				}
				if cs.world {
					s.world = true
				}
				if cs.mutRecv {
					if se, ok := ast.Unparen(x.Fun).(*ast.SelectorExpr); ok && rootIs(se.X, recv) {
						s.mutRecv = true
					}
				}
			}
		}
		return true
	})
	return s
}

func isErrorType(t types.Type) bool {
	n, ok := t.(*types.Named)
	return ok && n.Obj().Pkg() == nil && n.Obj().Name() == "error"
}

// ---------------------------------------------------------------- function context

type binding struct {
	name    string
	t       *cty
	tok     bool
	wrapped bool
	closure *closureInfo
	ext     map[string]*binding // local of an external struct type: field path -> variable
	batches string              // channel: the list of batches it delivers
	drained bool
	text    string // scanner: name of the current token inside its loop
	scanned bool
}

type closureInfo struct {
	name     string
	captured []types.Object // passed at every call
	mutated  []types.Object // returned at every call (subset of captured)
	resTypes []*cty
}

type frame struct {
	pre   map[types.Object]bool
	list  []types.Object
	world bool
}

type fn struct {
	g           *gen
	p           *packages.Package
	info        *types.Info
	inf         *fnInfo
	env         map[types.Object]*binding
	names       map[string]int
	frames      []*frame
	loop        int
	tmp         int
	pure        bool
	goBody      bool // inside the goroutine of the writer pattern: `return` has no results
	setup       []string
	closureOf   *fn
	sig         *types.Signature
	body        ast.Node
	assignCount map[types.Object]int
	ph          int
}

var reserved = map[string]bool{"w": true, "fst": true, "snd": true, "tt": true, "fun": true, "let": true, "in": true,
	"match": true, "with": true, "end": true, "if": true, "then": true, "else": true, "Some": true, "None": true,
	"Val": true, "Panic": true, "Next": true, "Return": true, "slot": true, "idx": true, "upd": true, "at": true,
	"batches": true, "Type": true, "Set": true, "Prop": true, "as": true, "return": true, "forall": true, "exists": true,
	"fix": true, "cofix": true, "mod": true, "length": true, "map": true}

func (f *fn) fresh(base string) string {
	if base == "_" || base == "" {
		base = "x"
	}
	if reserved[base] || sectionVarType(base) != "" || strings.HasPrefix(base, "gen_") {
		base = base + "_"
	}
	n := f.names[base]
	f.names[base] = n + 1
	if n == 0 {
		return base
	}
	return fmt.Sprintf("%s_%d", base, n)
}

func (f *fn) temp() string {
	f.tmp++
	return fmt.Sprintf("t%d", f.tmp)
}

// declare a new Go variable
func (f *fn) declare(o types.Object, t *cty) *binding {
	b := &binding{name: f.fresh(o.Name()), t: t}
	if t.k == kToken || t.k == kChan {
		b.tok = true
	}
	f.env[o] = b
	return b
}

func (f *fn) pushFrame() *frame {
	fr := &frame{pre: map[types.Object]bool{}}
	for o := range f.env {
		fr.pre[o] = true
	}
	f.frames = append(f.frames, fr)
	return fr
}

func (f *fn) popFrame() { f.frames = f.frames[:len(f.frames)-1] }

// record that the Coq variable of o was rebound
func (f *fn) assigned(o types.Object) {
	if f.assignCount != nil {
		f.assignCount[o]++
	}
	for _, fr := range f.frames {
		if !fr.pre[o] {
			continue
		}
		seen := false
		for _, x := range fr.list {
			if x == o {
				seen = true
			}
		}
		if !seen {
			fr.list = append(fr.list, o)
		}
	}
}

func (f *fn) touchWorld() {
	for _, fr := range f.frames {
		fr.world = true
	}
}

// the variables a frame rebinds, as a tuple / pattern
func (f *fn) frameVars(fr *frame) []string {
	var s []string
	for _, o := range fr.list {
		b := f.env[o]
		if b == nil {
			continue
		}
		if b.ext != nil {
			continue
		}
		s = append(s, b.name)
	}
	if fr.world {
		s = append(s, "w")
	}
	return s
}

func (f *fn) errf(n ast.Node, format string, a ...interface{}) error {
	return f.g.errf(n, format, a...)
}

func (f *fn) ctype(n ast.Node, t types.Type) (*cty, error) {
	c, err := f.g.ctype(t)
	if err != nil {
		return nil, f.errf(n, "%v", err)
	}
	return c, nil
}

// panic / return terms in the current context
func (f *fn) panicTerm(n ast.Node) (string, error) {
	if f.pure {
		return "", f.errf(n, "an operation that can panic occurs in a function translated as a total expression")
	}
	if f.loop > 0 {
		return "(Return Panic)", nil
	}
	return "Panic", nil
}

func (f *fn) retWrap(term string) string {
	if f.loop > 0 {
		return "(Return " + term + ")"
	}
	return term
}

// wrap the partial bindings of an expression around a statement
func (f *fn) wrapPre(n ast.Node, pre []pbind, body string) (string, error) {
	if len(pre) == 0 {
		return body, nil
	}
	pt, err := f.panicTerm(n)
	if err != nil {
		return "", err
	}
	for i := len(pre) - 1; i >= 0; i-- {
		body = fmt.Sprintf("match %s with\n| None => %s\n| Some %s =>\n%s\nend", pre[i].term, pt, pre[i].name, body)
	}
	return body, nil
}

type pbind struct{ name, term string }

type val struct {
	term string
	pre  []pbind
	t    *cty
}

func isBlank(e ast.Expr) bool {
	id, ok := e.(*ast.Ident)
	return ok && id.Name == "_"
}
