package iogen

import (
	"bytes"
	"fmt"
	"go/ast"
	"go/printer"
	"go/token"
	"go/types"
	"strings"
)

type cont func() (string, error)

const mutPH = "\x00MUT\x00"

func statePH(k int) string { return fmt.Sprintf("\x00STATE%d\x00", k) }

func matchPat(vars []string) string {
	switch len(vars) {
	case 0:
		return "_"
	case 1:
		return vars[0]
	}
	return "(" + strings.Join(vars, ", ") + ")"
}

func (f *fn) src(n ast.Node) string {
	var b bytes.Buffer
	printer.Fprint(&b, f.g.fset, n)
	return strings.Join(strings.Fields(b.String()), " ")
}

// ---------------------------------------------------------------- blocks

func (f *fn) block(list []ast.Stmt, tail cont) (string, error) {
	if len(list) == 0 {
		return tail()
	}
	s := list[0]
	if gs, ok := s.(*ast.GoStmt); ok {
		return f.goStmt(gs, list[1:])
	}
	return f.stmt(s, func() (string, error) { return f.block(list[1:], tail) })
}

func (f *fn) stmt(s ast.Stmt, k cont) (string, error) {
	switch x := s.(type) {
	case *ast.BlockStmt:
		return f.block(x.List, k)
	case *ast.EmptyStmt:
		return k()
	case *ast.ExprStmt:
		c, ok := ast.Unparen(x.X).(*ast.CallExpr)
		if !ok {
			return "", f.errf(x, "expression statement is not a call")
		}
		return f.bindCall(c, nil, false, func([]callRes) (string, error) { return k() })
	case *ast.DeferStmt:
		fnObj := calleeFunc(f.info, x.Call)
		if fnObj != nil {
			switch fnObj.FullName() {
			case "(*os.File).Close", "(*sync.WaitGroup).Done", "(*github.com/hpinc/go3mf.WriteCloser).Close":
				return k() // closing the file / signalling the wait group has no modelled effect
			}
		}
		return "", f.errf(x, "defer of anything but Close() / Done() is not understood")
	case *ast.DeclStmt:
		return f.declStmt(x, k)
	case *ast.IncDecStmt:
		a, err := f.expr(x.X)
		if err != nil {
			return "", err
		}
		if a.t.k != kZ || len(a.pre) != 0 {
			return "", f.errf(x, "++/-- on this operand is not understood")
		}
		op := " + 1)%Z"
		if x.Tok == token.DEC {
			op = " - 1)%Z"
		}
		w, err := wrapInt(a.t.goInt, "("+a.term+op)
		if err != nil {
			return "", f.errf(x, "%v", err)
		}
		return f.assignLval(x.X, w, k)
	case *ast.AssignStmt:
		return f.assignStmt(x, k)
	case *ast.ReturnStmt:
		return f.returnStmt(x)
	case *ast.IfStmt:
		return f.ifStmt(x, k)
	case *ast.RangeStmt:
		return f.rangeStmt(x, k)
	case *ast.ForStmt:
		return f.forStmt(x, k)
	case *ast.SwitchStmt:
		return f.switchStmt(x, k)
	case *ast.BranchStmt:
		if x.Tok == token.CONTINUE && x.Label == nil && len(f.conts) > 0 {
			return f.conts[len(f.conts)-1]()
		}
		return "", f.errf(x, "%s is not understood here", x.Tok)
	}
	return "", f.errf(s, "statement %T is not understood", s)
}

// ---------------------------------------------------------------- declarations, assignments

func (f *fn) isSetupType(t types.Type) bool {
	if p, ok := t.(*types.Pointer); ok {
		t = p.Elem()
	}
	n, ok := t.(*types.Named)
	if !ok {
		return false
	}
	q := qname(n)
	return q == "github.com/hpinc/go3mf.Model" || q == "github.com/hpinc/go3mf.Object"
}

func (f *fn) declStmt(x *ast.DeclStmt, k cont) (string, error) {
	gd, ok := x.Decl.(*ast.GenDecl)
	if ok && gd.Tok == token.CONST {
		return k() // local constants are folded by the type checker wherever they are used
	}
	if !ok || gd.Tok != token.VAR {
		return "", f.errf(x, "declaration is not understood")
	}
	code := ""
	for _, sp := range gd.Specs {
		vs := sp.(*ast.ValueSpec)
		for i, id := range vs.Names {
			o := f.info.Defs[id]
			if o == nil {
				continue
			}
			if f.isSetupType(o.Type()) {
				f.setup = append(f.setup, f.src(x))
				f.env[o] = &binding{name: id.Name, tok: true, t: &cty{k: kToken, name: "setup"}}
				continue
			}
			t, err := f.ctype(id, o.Type())
			if err != nil {
				return "", err
			}
			if t.k == kExt {
				c, err := f.declareExt(id, o)
				if err != nil {
					return "", err
				}
				code += c
				continue
			}
			var term string
			if i < len(vs.Values) {
				v, err := f.expr(vs.Values[i])
				if err != nil {
					return "", err
				}
				if len(v.pre) != 0 {
					return "", f.errf(x, "partial initialiser in a var declaration is not understood")
				}
				term = v.term
			} else {
				term, err = f.g.zero(t)
				if err != nil {
					return "", f.errf(x, "%v", err)
				}
			}
			b := f.declare(o, t)
			if i < len(vs.Values) {
				f.noteAlias(id, vs.Values[i])
			}
			if !b.tok {
				code += "let " + b.name + " := " + term + " in\n"
			}
		}
	}
	rest, err := k()
	if err != nil {
		return "", err
	}
	return code + rest, nil
}

// a local of an external struct type: one variable per leaf field path used in the function
func (f *fn) declareExt(id *ast.Ident, o types.Object) (string, error) {
	b := &binding{name: id.Name, ext: map[string]*binding{}, t: &cty{k: kExt}}
	f.env[o] = b
	var paths []string
	seen := map[string]bool{}
	inner := map[ast.Expr]bool{}
	var ferr error
	ast.Inspect(f.inf_body(), func(n ast.Node) bool {
		se, ok := n.(*ast.SelectorExpr)
		if !ok || inner[se] {
			return true
		}
		var parts []string
		var e ast.Expr = se
		for {
			s2, ok := ast.Unparen(e).(*ast.SelectorExpr)
			if !ok {
				break
			}
			inner[s2] = true
			parts = append([]string{s2.Sel.Name}, parts...)
			e = s2.X
		}
		rid, ok := ast.Unparen(e).(*ast.Ident)
		if !ok || f.info.Uses[rid] != o {
			return true
		}
		p := strings.Join(parts, ".")
		if !seen[p] {
			seen[p] = true
			paths = append(paths, p)
			t, err := f.g.ctype(f.info.TypeOf(se))
			if err != nil {
				ferr = f.errf(se, "%v", err)
				return true
			}
			pb := &binding{name: f.fresh(id.Name + "_" + strings.ReplaceAll(p, ".", "_")), t: t}
			b.ext[p] = pb
			f.env[types.NewVar(token.NoPos, nil, pb.name, nil)] = pb
		}
		return true
	})
	if ferr != nil {
		return "", ferr
	}
	code := ""
	for _, p := range paths {
		z, err := f.g.zero(b.ext[p].t)
		if err != nil {
			return "", f.errf(id, "field path %s.%s: %v", id.Name, p, err)
		}
		code += "let " + b.ext[p].name + " := " + z + " in\n"
	}
	return code, nil
}

// object standing for a binding (the synthetic variable of an external field path)
func (f *fn) objOf(b *binding) types.Object {
	for o, x := range f.env {
		if x == b {
			return o
		}
	}
	return nil
}

// assignLval emits the rebinding that stores term into the lvalue
func (f *fn) assignLval(lhs ast.Expr, term string, k cont) (string, error) {
	lhs = ast.Unparen(lhs)
	if u, ok := lhs.(*ast.UnaryExpr); ok && u.Op == token.AND {
		lhs = ast.Unparen(u.X)
	}
	if st, ok := lhs.(*ast.StarExpr); ok {
		lhs = ast.Unparen(st.X)
	}
	switch x := lhs.(type) {
	case *ast.Ident:
		if x.Name == "_" {
			return k()
		}
		b, o, err := f.lookup(x)
		if err != nil {
			return "", err
		}
		if b.tok || b.ext != nil || b.closure != nil {
			return "", f.errf(x, "assignment to %s is not understood", x.Name)
		}
		f.assigned(o)
		rest, err := k()
		if err != nil {
			return "", err
		}
		if term == b.name {
			return rest, nil
		}
		return "let " + b.name + " := " + term + " in\n" + rest, nil
	case *ast.SelectorExpr:
		if err := f.checkWriteThrough(x); err != nil {
			return "", err
		}
		if b, _, p, ok := f.extPath(x); ok {
			pb := b.ext[p]
			if pb == nil {
				return "", f.errf(x, "field path %s is not understood", p)
			}
			f.assigned(f.objOf(pb))
			rest, err := k()
			if err != nil {
				return "", err
			}
			return "let " + pb.name + " := " + term + " in\n" + rest, nil
		}
		if l, lf, ok := f.layoutField(x); ok {
			if lf == nil {
				return "", f.errf(x, "assignment to %s.%s is not understood", l.name, x.Sel.Name)
			}
			if lf.array {
				// d.F = <array value>: every slot of the field, from the components of the tuple
				if lf.count > 4 {
					return "", f.errf(x, "assignment to array field %s.%s is not understood (more than 4 elements)", l.name, lf.name)
				}
				d, err := f.expr(x.X)
				if err != nil {
					return "", err
				}
				tmp := f.temp()
				cur := d.term
				for kk := 0; kk < lf.count; kk++ {
					w, err := slotWrite(lf.scalar, proj(tmp, kk, lf.count))
					if err != nil {
						return "", f.errf(x, "%v", err)
					}
					cur = fmt.Sprintf("(set_slot %s %d %s)", cur, lf.off+kk, w)
				}
				body, err := f.assignLval(x.X, cur, k)
				if err != nil {
					return "", err
				}
				return "let " + tmp + " := " + term + " in\n" + body, nil
			}
			d, err := f.expr(x.X)
			if err != nil {
				return "", err
			}
			w, err := slotWrite(lf.scalar, term)
			if err != nil {
				return "", f.errf(x, "%v", err)
			}
			return f.assignLval(x.X, fmt.Sprintf("(set_slot %s %d %s)", d.term, lf.off, w), k)
		}
		sel := f.info.Selections[x]
		if sel == nil || sel.Kind() != types.FieldVal || len(sel.Index()) != 1 {
			return "", f.errf(x, "assignment to selector %s is not understood", x.Sel.Name)
		}
		a, err := f.expr(x.X)
		if err != nil {
			return "", err
		}
		if a.t.k != kTuple || len(a.pre) != 0 {
			return "", f.errf(x, "assignment to a field of this value is not understood")
		}
		i, n := sel.Index()[0], len(a.t.elems)
		parts := make([]string, n)
		for j := range parts {
			parts[j] = proj(a.term, j, n)
		}
		parts[i] = term
		return f.assignLval(x.X, tuple(parts), k)
	case *ast.IndexExpr:
		if err := f.checkWriteThrough(x); err != nil {
			return "", err
		}
		if se, ok := ast.Unparen(x.X).(*ast.SelectorExpr); ok {
			if l, lf, ok := f.layoutField(se); ok {
				if lf == nil || !lf.array {
					return "", f.errf(x, "assignment to %s.%s[..] is not understood", l.name, se.Sel.Name)
				}
				kk, ok := f.constIndex(x.Index)
				if !ok || kk < 0 || kk >= lf.count {
					return "", f.errf(x, "index of %s.%s must be a constant in range", l.name, lf.name)
				}
				d, err := f.expr(se.X)
				if err != nil {
					return "", err
				}
				w, err := slotWrite(lf.scalar, term)
				if err != nil {
					return "", f.errf(x, "%v", err)
				}
				return f.assignLval(se.X, fmt.Sprintf("(set_slot %s %d %s)", d.term, lf.off+kk, w), k)
			}
		}
		a, err := f.expr(x.X)
		if err != nil {
			return "", err
		}
		i, err := f.expr(x.Index)
		if err != nil {
			return "", err
		}
		switch a.t.k {
		case kTuple:
			// element of a small array (a tuple), index known to the translator
			kk, ok := f.constIndex(x.Index)
			if len(a.t.names) != 0 || len(a.pre) != 0 || !ok || kk < 0 || kk >= len(a.t.elems) {
				return "", f.errf(x, "assignment to an array element needs an index known at translation time, in range")
			}
			n := len(a.t.elems)
			parts := make([]string, n)
			for j := range parts {
				parts[j] = proj(a.term, j, n)
			}
			parts[kk] = term
			return f.assignLval(x.X, tuple(parts), k)
		case kList:
			tmp := f.temp()
			pre := append(append([]pbind{}, a.pre...), i.pre...)
			pre = append(pre, pbind{tmp, "(upd " + a.term + " " + i.term + " " + term + ")"})
			body, err := f.assignLval(x.X, tmp, k)
			if err != nil {
				return "", err
			}
			return f.wrapPre(x, pre, body)
		case kMap:
			if len(a.pre)+len(i.pre) != 0 {
				return "", f.errf(x, "partial map assignment is not understood")
			}
			return f.assignLval(x.X, "(map_set "+a.term+" "+i.term+" "+term+")", k)
		}
	}
	return "", f.errf(lhs, "assignment target is not understood")
}

// target of one result: (name to bind, finisher that stores a temp into a complex lvalue)
func (f *fn) target(lhs ast.Expr, define bool, t *cty) (string, func(k cont) (string, error), error) {
	if isBlank(lhs) {
		return "_", nil, nil
	}
	if id, ok := lhs.(*ast.Ident); ok {
		if o := f.info.Defs[id]; define && o != nil {
			if f.isSetupType(o.Type()) {
				return "", nil, f.errf(lhs, "this value cannot be stored in a 3MF model variable here")
			}
			b := f.declare(o, t)
			if b.tok {
				return "_", nil, nil
			}
			return b.name, nil, nil
		}
		b, o, err := f.lookup(id)
		if err != nil {
			return "", nil, err
		}
		if b.tok || b.ext != nil || b.closure != nil {
			return "", nil, f.errf(lhs, "assignment to %s is not understood", id.Name)
		}
		f.assigned(o)
		return b.name, nil, nil
	}
	tmp := f.temp()
	return tmp, func(k cont) (string, error) { return f.assignLval(lhs, tmp, k) }, nil
}

func (f *fn) assignStmt(x *ast.AssignStmt, k cont) (string, error) {
	define := x.Tok == token.DEFINE
	// 3MF model set-up statements: recorded as text, compared with the expected list
	allSetup := len(x.Lhs) > 0
	for _, l := range x.Lhs {
		root := l
		for {
			switch y := ast.Unparen(root).(type) {
			case *ast.SelectorExpr:
				root = y.X
				continue
			case *ast.IndexExpr:
				root = y.X
				continue
			}
			break
		}
		id, ok := ast.Unparen(root).(*ast.Ident)
		if !ok {
			allSetup = false
			break
		}
		o := f.info.Defs[id]
		if o == nil {
			o = f.info.Uses[id]
		}
		if o == nil || !f.isSetupType(o.Type()) {
			allSetup = false
		}
	}
	if allSetup {
		f.setup = append(f.setup, f.src(x))
		for _, l := range x.Lhs {
			if id, ok := l.(*ast.Ident); ok {
				if o := f.info.Defs[id]; o != nil {
					f.env[o] = &binding{name: id.Name, tok: true, t: &cty{k: kToken, name: "setup"}}
				}
			}
		}
		return k()
	}
	if x.Tok != token.DEFINE && x.Tok != token.ASSIGN {
		// op-assign
		if len(x.Lhs) != 1 {
			return "", f.errf(x, "operator assignment with several operands")
		}
		a, err := f.expr(x.Lhs[0])
		if err != nil {
			return "", err
		}
		b, err := f.expr(x.Rhs[0])
		if err != nil {
			return "", err
		}
		if len(a.pre)+len(b.pre) != 0 {
			return "", f.errf(x, "partial operator assignment is not understood")
		}
		var term string
		switch {
		case a.t.k == kZ && (x.Tok == token.ADD_ASSIGN || x.Tok == token.SUB_ASSIGN):
			if a.t.goInt == "int" && !isConst(f, x.Rhs[0]) {
				return "", f.errf(x, "int += non-constant is not understood")
			}
			op := " + "
			if x.Tok == token.SUB_ASSIGN {
				op = " - "
			}
			term, err = wrapInt(a.t.goInt, "("+a.term+op+b.term+")%Z")
			if err != nil {
				return "", f.errf(x, "%v", err)
			}
		case a.t.k == kF64 && x.Tok == token.ADD_ASSIGN:
			term = "(fadd " + a.term + " " + b.term + ")"
		case a.t.k == kF64 && x.Tok == token.SUB_ASSIGN:
			term = "(fsub " + a.term + " " + b.term + ")"
		default:
			return "", f.errf(x, "operator assignment %s is not understood", x.Tok)
		}
		return f.assignLval(x.Lhs[0], term, k)
	}
	if len(x.Rhs) == 1 {
		rhs := ast.Unparen(x.Rhs[0])
		// closure definition
		if fl, ok := rhs.(*ast.FuncLit); ok && define && len(x.Lhs) == 1 {
			return f.closureDef(x.Lhs[0].(*ast.Ident), fl, k)
		}
		// v, ok := m[k]
		if ie, ok := rhs.(*ast.IndexExpr); ok && len(x.Lhs) == 2 {
			m, err := f.expr(ie.X)
			if err != nil {
				return "", err
			}
			key, err := f.expr(ie.Index)
			if err != nil {
				return "", err
			}
			if m.t.k != kMap || len(m.pre)+len(key.pre) != 0 {
				return "", f.errf(x, "comma-ok form is understood for maps only")
			}
			eq, err := f.keyEq(x, m.t.key)
			if err != nil {
				return "", err
			}
			z, err := f.g.zero(m.t.elem)
			if err != nil {
				return "", f.errf(x, "%v", err)
			}
			tmp := f.temp()
			n1, fin1, err := f.target(x.Lhs[0], define, m.t.elem)
			if err != nil {
				return "", err
			}
			n2, fin2, err := f.target(x.Lhs[1], define, &cty{k: kBool})
			if err != nil {
				return "", err
			}
			if fin1 != nil || fin2 != nil {
				return "", f.errf(x, "comma-ok into a complex target is not understood")
			}
			rest, err := k()
			if err != nil {
				return "", err
			}
			code := "let " + tmp + " := map_get " + eq + " " + m.term + " " + key.term + " in\n"
			if n1 != "_" {
				code += "let " + n1 + " := match " + tmp + " with Some v_ => v_ | None => " + z + " end in\n"
			}
			if n2 != "_" {
				code += "let " + n2 + " := match " + tmp + " with Some _ => true | None => false end in\n"
			}
			return code + rest, nil
		}
		if c, ok := rhs.(*ast.CallExpr); ok {
			// make(chan ..)
			if id, ok := ast.Unparen(c.Fun).(*ast.Ident); ok && id.Name == "make" {
				if _, isB := f.info.Uses[id].(*types.Builtin); isB {
					if ch, ok := f.info.TypeOf(c).Underlying().(*types.Chan); ok {
						if !define || len(x.Lhs) != 1 || !f.inf.chanW || len(c.Args) != 1 {
							return "", f.errf(x, "channel creation outside the writer pattern is not understood")
						}
						_ = ch
						o := f.info.Defs[x.Lhs[0].(*ast.Ident)]
						f.env[o] = &binding{name: "batches", tok: true, batches: "batches", t: &cty{k: kChan}}
						return k()
					}
				}
			}
			if f.isStmtCall(c) || len(x.Lhs) > 1 {
				return f.bindCall(c, x.Lhs, define, func(rs []callRes) (string, error) {
					return f.storeResults(x, rs, define, k)
				})
			}
		}
	}
	if len(x.Lhs) != len(x.Rhs) {
		return "", f.errf(x, "assignment form is not understood")
	}
	// evaluate all right-hand sides, then store
	var vals []val
	for _, r := range x.Rhs {
		v, err := f.expr(r)
		if err != nil {
			return "", err
		}
		vals = append(vals, v)
	}
	if len(vals) == 1 {
		v := vals[0]
		name, fin, err := f.target(x.Lhs[0], define, v.t)
		if err != nil {
			return "", err
		}
		f.noteAlias(x.Lhs[0], x.Rhs[0])
		f.noteNonNeg(x.Lhs[0], x.Rhs[0])
		var body string
		if fin != nil {
			body, err = f.assignLval(x.Lhs[0], v.term, k)
		} else {
			var rest string
			rest, err = k()
			if name == "_" {
				body = rest
			} else {
				body = "let " + name + " := " + v.term + " in\n" + rest
			}
		}
		if err != nil {
			return "", err
		}
		return f.wrapPre(x, v.pre, body)
	}
	// parallel assignment through temporaries
	var pre []pbind
	code := ""
	tmps := make([]string, len(vals))
	for i, v := range vals {
		pre = append(pre, v.pre...)
		tmps[i] = f.temp()
		code += "let " + tmps[i] + " := " + v.term + " in\n"
	}
	var store func(i int) (string, error)
	store = func(i int) (string, error) {
		if i == len(vals) {
			return k()
		}
		if define {
			if id, ok := x.Lhs[i].(*ast.Ident); ok && f.info.Defs[id] != nil {
				name, _, err := f.target(x.Lhs[i], true, vals[i].t)
				if err != nil {
					return "", err
				}
				f.noteAlias(x.Lhs[i], x.Rhs[i])
				rest, err := store(i + 1)
				if err != nil {
					return "", err
				}
				if name == "_" {
					return rest, nil
				}
				return "let " + name + " := " + tmps[i] + " in\n" + rest, nil
			}
		}
		f.noteAlias(x.Lhs[i], x.Rhs[i])
		return f.assignLval(x.Lhs[i], tmps[i], func() (string, error) { return store(i + 1) })
	}
	body, err := store(0)
	if err != nil {
		return "", err
	}
	return f.wrapPre(x, pre, code+body)
}

func (f *fn) keyEq(n ast.Node, t *cty) (string, error) {
	switch t.k {
	case kF32:
		return "f32eqb", nil
	case kZ:
		return "Z.eqb", nil
	case kString:
		return "String.eqb", nil
	case kTuple:
		if len(t.names) == 0 {
			all := true
			for _, e := range t.elems {
				if e.k != kF32 {
					all = false
				}
			}
			if all && len(t.elems) == 3 {
				return "(fun a_ b_ => f32eqb (fst (fst a_)) (fst (fst b_)) && f32eqb (snd (fst a_)) (snd (fst b_)) && f32eqb (snd a_) (snd b_))", nil
			}
		}
	}
	return "", f.errf(n, "map key type %s is not understood", t.coq())
}

// results of a bound call stored into the left-hand sides
func (f *fn) storeResults(x *ast.AssignStmt, rs []callRes, define bool, k cont) (string, error) {
	if len(rs) != len(x.Lhs) {
		return "", f.errf(x, "%d results for %d targets", len(rs), len(x.Lhs))
	}
	var step func(i int) (string, error)
	step = func(i int) (string, error) {
		if i == len(rs) {
			return k()
		}
		r := rs[i]
		if r.fin != nil {
			return r.fin(func() (string, error) { return step(i + 1) })
		}
		return step(i + 1)
	}
	return step(0)
}

// ---------------------------------------------------------------- return

func (f *fn) retTerm(n ast.Node, vals []string, errTerm string) (string, error) {
	comps := append([]string{}, vals...)
	if f.inf.mutRecv {
		comps = append(comps, f.env[f.inf.recv].name)
	}
	for _, i := range f.inf.mutPar {
		comps = append(comps, f.env[f.inf.params[i]].name)
	}
	if f.inf.world {
		comps = append(comps, "w")
	}
	if f.closureOf != nil {
		return "(" + strings.Join(vals, ", ") + mutPH + ")", nil
	}
	if f.pure {
		if errTerm != "None" && errTerm != "" {
			return "", f.errf(n, "error result in a function translated as a total expression")
		}
		return tuple(comps), nil
	}
	return f.retWrap("(Val " + tuple(comps) + " " + errTerm + ")"), nil
}

func (f *fn) returnStmt(x *ast.ReturnStmt) (string, error) {
	if f.goBody {
		if len(x.Results) != 0 {
			return "", f.errf(x, "return with results inside the goroutine")
		}
		return f.retTerm(x, nil, "None")
	}
	sig := f.sig
	if len(x.Results) == 0 {
		if sig.Results().Len() != 0 {
			// bare return: the current values of the named results
			var vals []string
			errT := "None"
			for i := 0; i < sig.Results().Len(); i++ {
				b := f.env[sig.Results().At(i)]
				if b == nil {
					return "", f.errf(x, "bare return with unnamed results")
				}
				if b.t.k == kError {
					errT = b.name
				} else {
					vals = append(vals, b.name)
				}
			}
			return f.retTerm(x, vals, errT)
		}
		return f.retTerm(x, nil, "None")
	}
	// return g(...) with several results
	if len(x.Results) == 1 && sig.Results().Len() >= 1 {
		if c, ok := ast.Unparen(x.Results[0]).(*ast.CallExpr); ok && (f.isStmtCall(c) || sig.Results().Len() > 1) {
			return f.bindCall(c, nil2(sig.Results().Len()), false, func(rs []callRes) (string, error) {
				var vals []string
				errT := "None"
				for i, r := range rs {
					rt := sig.Results().At(i).Type()
					switch {
					case isErrorType(rt):
						errT = r.term
					case r.tok:
					default:
						vals = append(vals, r.term)
					}
				}
				return f.retTerm(x, vals, errT)
			})
		}
	}
	if len(x.Results) != sig.Results().Len() {
		return "", f.errf(x, "return form is not understood")
	}
	var vals []string
	var pre []pbind
	errT := "None"
	for i, e := range x.Results {
		rt := sig.Results().At(i).Type()
		ct, err := f.ctype(e, rt)
		if err != nil {
			return "", err
		}
		isNil := false
		if id, ok := ast.Unparen(e).(*ast.Ident); ok && id.Name == "nil" && f.info.Uses[id] == types.Universe.Lookup("nil") {
			isNil = true
		}
		switch {
		case ct.k == kError:
			if !isNil {
				v, err := f.expr(e)
				if err != nil {
					return "", err
				}
				pre = append(pre, v.pre...)
				errT = v.term
			}
		case ct.k == kToken || ct.k == kChan:
		case isNil:
			z, err := f.g.zero(ct)
			if err != nil {
				return "", f.errf(e, "%v", err)
			}
			vals = append(vals, z)
		default:
			v, err := f.expr(e)
			if err != nil {
				return "", err
			}
			pre = append(pre, v.pre...)
			vals = append(vals, v.term)
		}
	}
	t, err := f.retTerm(x, vals, errT)
	if err != nil {
		return "", err
	}
	return f.wrapPre(x, pre, t)
}

func nil2(n int) []ast.Expr { return make([]ast.Expr, n) }

// ---------------------------------------------------------------- if

func (f *fn) ifStmt(x *ast.IfStmt, k cont) (string, error) {
	if x.Init != nil {
		y := *x
		y.Init = nil
		return f.stmt(x.Init, func() (string, error) { return f.ifStmt(&y, k) })
	}
	// a condition whose value is known at translation time (a test on the index of an unrolled loop)
	if v, ok := f.constBool(x.Cond); ok {
		if v {
			return f.block(x.Body.List, k)
		}
		if x.Else != nil {
			return f.stmt(x.Else, k)
		}
		return k()
	}
	c, err := f.expr(x.Cond)
	if err != nil {
		return "", err
	}
	var rest string
	var done bool
	restK := func() (string, error) {
		if !done {
			r, err := k()
			if err != nil {
				return "", err
			}
			rest, done = r, true
		}
		return rest, nil
	}
	// the continuation is translated once, in the environment after the branches: translate
	// the branches first with a placeholder, then the continuation
	ph := fmt.Sprintf("\x00REST%d\x00", f.nextPH())
	phK := func() (string, error) { return ph, nil }
	thenS, err := f.block(x.Body.List, phK)
	if err != nil {
		return "", err
	}
	elseS := ph
	if x.Else != nil {
		elseS, err = f.stmt(x.Else, phK)
		if err != nil {
			return "", err
		}
	}
	condT := c.term
	// normal form: `if !c {A} else {B}` is `if c {B} else {A}`
	for {
		inner, ok := stripNegb(condT)
		if !ok {
			break
		}
		condT, thenS, elseS = inner, elseS, thenS
	}
	body := "if " + condT + " then\n" + thenS + "\nelse\n" + elseS
	if strings.Contains(body, ph) {
		r, err := restK()
		if err != nil {
			return "", err
		}
		body = strings.ReplaceAll(body, ph, r)
	}
	return f.wrapPre(x, c.pre, "("+body+")")
}

// ---------------------------------------------------------------- loops

func (f *fn) loopCode(loopTerm string, fr *frame, k cont) (string, error) {
	vars := f.frameVars(fr)
	rest, err := k()
	if err != nil {
		return "", err
	}
	ret := "r_"
	if f.loop > 0 {
		ret = "Return r_"
	}
	return "match " + loopTerm + " with\n| Return r_ => " + ret + "\n| Next " + matchPat(vars) + " =>\n" + rest + "\nend", nil
}

// ---------------------------------------------------------------- the writer pattern

func (f *fn) goStmt(x *ast.GoStmt, after []ast.Stmt) (string, error) {
	if !f.inf.chanW || f.goBody || f.loop > 0 {
		return "", f.errf(x, "go statement outside the writer pattern is not understood")
	}
	fl, ok := ast.Unparen(x.Call.Fun).(*ast.FuncLit)
	if !ok || len(x.Call.Args) != 0 || fl.Type.Params.NumFields() != 0 {
		return "", f.errf(x, "go statement form is not understood")
	}
	if len(after) != 1 {
		return "", f.errf(x, "the go statement must be followed by `return c, nil` only")
	}
	rs, ok := after[0].(*ast.ReturnStmt)
	if !ok || len(rs.Results) != 2 {
		return "", f.errf(after[0], "the go statement must be followed by `return c, nil`")
	}
	if id, ok := ast.Unparen(rs.Results[0]).(*ast.Ident); !ok || f.env[f.info.Uses[id]] == nil || f.env[f.info.Uses[id]].batches == "" {
		return "", f.errf(rs, "the writer must return its channel")
	}
	if id, ok := ast.Unparen(rs.Results[1]).(*ast.Ident); !ok || id.Name != "nil" {
		return "", f.errf(rs, "the writer must return a nil error after starting the goroutine")
	}
	f.goBody = true
	s, err := f.block(fl.Body.List, func() (string, error) { return f.retTerm(x, nil, "None") })
	f.goBody = false
	return s, err
}

// stripNegb: "(negb X)" -> X for a complete, balanced term X
func stripNegb(t string) (string, bool) {
	if !strings.HasPrefix(t, "(negb ") || !strings.HasSuffix(t, ")") {
		return "", false
	}
	inner := t[len("(negb ") : len(t)-1]
	depth := 0
	for _, r := range inner {
		switch r {
		case '(':
			depth++
		case ')':
			depth--
			if depth < 0 {
				return "", false
			}
		case '"':
			return "", false // string literals: leave alone
		}
	}
	if depth != 0 {
		return "", false
	}
	// X must be one term: either parenthesised as a whole (possibly followed by a scope) or an identifier
	if strings.HasPrefix(inner, "(") {
		d := 0
		for i, r := range inner {
			if r == '(' {
				d++
			} else if r == ')' {
				d--
				if d == 0 {
					rest := inner[i+1:]
					if rest != "" && rest != "%Z" {
						return "", false
					}
					break
				}
			}
		}
		return inner, true
	}
	if strings.ContainsAny(inner, " ()") {
		return "", false
	}
	return inner, true
}

// ---------------------------------------------------------------- switch

// switchStmt: a switch without fallthrough / break is the chain of ifs over its clauses in
// order (the default clause last); with a tag, the tests are tag == v
func (f *fn) switchStmt(x *ast.SwitchStmt, k cont) (string, error) {
	if x.Init != nil {
		y := *x
		y.Init = nil
		return f.stmt(x.Init, func() (string, error) { return f.switchStmt(&y, k) })
	}
	var tag ast.Expr
	if x.Tag != nil {
		tag = ast.Unparen(x.Tag)
		// the tag is evaluated once: it must be a variable, a field path or a constant
		if _, ok := f.stableRoot(tag); !ok && !isConst(f, tag) {
			return "", f.errf(x, "the tag of a switch must be a variable, a field or a constant")
		}
	}
	var clauses []*ast.CaseClause
	var def *ast.CaseClause
	for _, s := range x.Body.List {
		cc := s.(*ast.CaseClause)
		for _, b := range cc.Body {
			bad := false
			ast.Inspect(b, func(n ast.Node) bool {
				switch y := n.(type) {
				case *ast.BranchStmt:
					if y.Tok == token.BREAK || y.Tok == token.FALLTHROUGH || y.Tok == token.GOTO {
						bad = true
					}
				case *ast.ForStmt, *ast.RangeStmt, *ast.FuncLit:
					// a break inside a nested loop is reported where it occurs
					return false
				}
				return true
			})
			if bad {
				return "", f.errf(b, "break / fallthrough inside a switch is not understood")
			}
		}
		if cc.List == nil {
			def = cc
		} else {
			clauses = append(clauses, cc)
		}
	}
	var rest ast.Stmt
	if def != nil {
		rest = &ast.BlockStmt{Lbrace: def.Pos(), List: def.Body, Rbrace: def.End()}
	}
	for i := len(clauses) - 1; i >= 0; i-- {
		cc := clauses[i]
		var cond ast.Expr
		for _, e := range cc.List {
			t := e
			if tag != nil {
				t = &ast.BinaryExpr{X: tag, OpPos: e.Pos(), Op: token.EQL, Y: e}
			}
			if cond == nil {
				cond = t
			} else {
				cond = &ast.BinaryExpr{X: cond, OpPos: e.Pos(), Op: token.LOR, Y: t}
			}
		}
		rest = &ast.IfStmt{If: cc.Pos(), Cond: cond, Body: &ast.BlockStmt{Lbrace: cc.Colon, List: cc.Body, Rbrace: cc.End()}, Else: rest}
	}
	if rest == nil {
		return k()
	}
	return f.stmt(rest, k)
}
