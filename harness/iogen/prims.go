package iogen

// Library functions the translated code may call.  Each becomes a Section variable of
// Generated/IoExpr.v with the signature given here; Io/IoEq.v instantiates it with the model of
// that library function (Io/GoSem.v for os / bufio / encoding/binary, Io/Export.v for the DXF,
// SVG and 3MF libraries, oracles for strings.Fields / strconv.ParseFloat / bufio.Scanner).

type prim struct {
	coq   string
	ctype string
	world bool   // the world is the last argument and the last component of the result
	recv  string // "": function; "token": receiver is a handle on the world (dropped);
	// "value": receiver value is the first argument, the updated value the first result;
	// "ro": receiver value is the first argument
	args []int    // Go arguments passed (nil = all)
	res  []string // per Go result: "val" kept, "tok" handle (dropped), "drop" ignored
	noop bool     // statement without effect on anything modelled
	list bool     // trailing variadic arguments are passed as one list
}

const dxfDrawing = "(*github.com/yofu/dxf/drawing.Drawing)."
const svgSVG = "(*github.com/ajstarks/svgo/float.SVG)."

var prims = map[string]*prim{
	"os.Open":                {coq: "os_Open", ctype: "string -> World -> error * World", world: true, res: []string{"tok", "val"}},
	"os.Create":              {coq: "os_Create", ctype: "string -> World -> error * World", world: true, res: []string{"tok", "val"}},
	"(*os.File).Stat":        {coq: "file_Stat", ctype: "World -> FileInfo * error * World", world: true, recv: "token", res: []string{"val", "val"}},
	"(*os.File).Seek":        {coq: "file_Seek", ctype: "Z -> Z -> World -> Z * error * World", world: true, recv: "token", res: []string{"val", "val"}},
	"(*os.File).Close":       {coq: "file_Close", ctype: "World -> error * World", world: true, recv: "token", res: []string{"val"}},
	"(io/fs.FileInfo).Size":  {coq: "FileInfo_Size", ctype: "FileInfo -> Z", recv: "ro", res: []string{"val"}},
	"(*bufio.Writer).Flush":  {coq: "bufio_Flush", ctype: "World -> error * World", world: true, recv: "token", res: []string{"val"}},
	"strings.Fields":         {coq: "strings_Fields", ctype: "string -> list string", res: []string{"val"}},
	"strconv.ParseFloat":     {coq: "strconv_ParseFloat", ctype: "string -> Z -> F64 * error", res: []string{"val", "val"}},
	"math.Min":               {coq: "fmin", res: []string{"val"}},
	"math.Max":               {coq: "fmax", res: []string{"val"}},
	"math.Sqrt":              {coq: "fsqrt", res: []string{"val"}},
	"fmt.Printf":             {noop: true},
	"(*sync.WaitGroup).Add":  {noop: true},
	"(*sync.WaitGroup).Done": {noop: true},

	"github.com/yofu/dxf.NewDrawing": {coq: "dxf_NewDrawing", ctype: "Drawing", res: []string{"val"}},
	dxfDrawing + "AddLayer":          {coq: "Drawing_AddLayer", ctype: "Drawing -> string -> bool -> Drawing", recv: "value", args: []int{0, 3}, res: []string{"drop", "drop"}},
	dxfDrawing + "ChangeLayer":       {coq: "Drawing_ChangeLayer", ctype: "Drawing -> string -> Drawing", recv: "value", res: []string{"drop"}},
	dxfDrawing + "Line":              {coq: "Drawing_Line", ctype: "Drawing -> F64 -> F64 -> F64 -> F64 -> F64 -> F64 -> Drawing", recv: "value", res: []string{"drop", "drop"}},
	dxfDrawing + "Circle":            {coq: "Drawing_Circle", ctype: "Drawing -> F64 -> F64 -> F64 -> F64 -> Drawing", recv: "value", res: []string{"drop", "drop"}},
	dxfDrawing + "SaveAs":            {coq: "Drawing_SaveAs", ctype: "Drawing -> string -> World -> error * World", world: true, recv: "ro", res: []string{"val"}},

	"github.com/ajstarks/svgo/float.New": {coq: "svg_New", ctype: "World -> World", world: true, args: []int{}, res: []string{"tok"}},
	svgSVG + "Start":                     {coq: "svg_Start", ctype: "F64 -> F64 -> list string -> World -> World", world: true, recv: "token", list: true},
	svgSVG + "Line":                      {coq: "svg_Line", ctype: "F64 -> F64 -> F64 -> F64 -> list string -> World -> World", world: true, recv: "token", list: true},
	svgSVG + "End":                       {coq: "svg_End", ctype: "World -> World", world: true, recv: "token"},

	"github.com/hpinc/go3mf.CreateWriter":         {coq: "mf_CreateWriter", ctype: "string -> World -> error * World", world: true, res: []string{"tok", "val"}},
	"(*github.com/hpinc/go3mf.WriteCloser).Close": {coq: "mf_Close", ctype: "World -> error * World", world: true, recv: "token", res: []string{"val"}},
}

// Section variables in the order they are declared (used ones only are abstracted by Coq)
var sectionVars = []struct{ name, ctype string }{
	{"F64", "Type"}, {"F32", "Type"}, {"World", "Type"}, {"Drawing", "Type"}, {"FileInfo", "Type"},
	{"fz", "Z -> F64"}, {"fadd", "F64 -> F64 -> F64"}, {"fsub", "F64 -> F64 -> F64"}, {"fmul", "F64 -> F64 -> F64"},
	{"fdiv", "F64 -> F64 -> F64"}, {"fneg", "F64 -> F64"}, {"fsqrt", "F64 -> F64"}, {"fmin", "F64 -> F64 -> F64"},
	{"fmax", "F64 -> F64 -> F64"}, {"to32", "F64 -> F32"}, {"to64", "F32 -> F64"}, {"bits32", "F32 -> N"},
	{"unbits32", "N -> F32"}, {"f32eqb", "F32 -> F32 -> bool"},
	{"os_Open", ""}, {"os_Create", ""}, {"file_Stat", ""}, {"file_Seek", ""}, {"file_Close", ""}, {"FileInfo_Size", ""},
	{"binary_Read", "byte_order -> layout -> list N -> World -> list N * error * World"},
	{"binary_Write_file", "byte_order -> layout -> list N -> World -> error * World"},
	{"binary_Write_bufio", "byte_order -> layout -> list N -> World -> error * World"},
	{"bufio_Flush", ""},
	{"bufio_scan", "World -> list string * error"},
	{"strings_Fields", ""}, {"strconv_ParseFloat", ""},
	{"dxf_NewDrawing", ""}, {"Drawing_AddLayer", ""}, {"Drawing_ChangeLayer", ""}, {"Drawing_Line", ""},
	{"Drawing_Circle", ""}, {"Drawing_SaveAs", ""},
	{"svg_New", ""}, {"svg_Start", ""}, {"svg_Line", ""}, {"svg_End", ""},
	{"mf_CreateWriter", ""}, {"mf_Close", ""},
	{"mf_Encode", "list (F32 * F32 * F32) -> list (Z * Z * Z) -> World -> error * World"},
}

func sectionVarType(name string) string {
	for _, v := range sectionVars {
		if v.name == name && v.ctype != "" {
			return v.ctype
		}
	}
	for _, p := range prims {
		if p.coq == name && p.ctype != "" {
			return p.ctype
		}
	}
	return ""
}
