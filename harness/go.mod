module verifharness

go 1.22.0

toolchain go1.23.5

require github.com/deadsy/sdfx v0.0.0

require (
	golang.org/x/mod v0.22.0 // indirect
	golang.org/x/sync v0.10.0 // indirect
	gonum.org/v1/gonum v0.15.1 // indirect
)

require (
	github.com/ajstarks/svgo v0.0.0-20211024235047-1546f124cd8b // indirect
	github.com/dhconnelly/rtreego v1.2.0 // indirect
	github.com/golang/freetype v0.0.0-20170609003504-e2365dfdc4a0 // indirect
	github.com/hpinc/go3mf v0.24.2
	github.com/llgcode/draw2d v0.0.0-20240627062922-0ed1ff131195 // indirect
	github.com/qmuntal/opc v0.7.12 // indirect
	github.com/yofu/dxf v0.0.0-20240729034626-50c66fc03e0d
	golang.org/x/image v0.22.0 // indirect
	golang.org/x/tools v0.29.0
)

replace github.com/deadsy/sdfx => /repo
