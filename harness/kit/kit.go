package kit

// Common harness kit: PRNG, report, Coq literal printing, sharded cases files.

import (
	"bytes"
	"encoding/json"
	"flag"
	"fmt"
	"math"
	"os"
	"path/filepath"
	"sort"
	"strconv"
	"strings"
)

// ---------------------------------------------------------------- PRNG (SplitMix64)

type Rng struct{ s uint64 }

// NewRng: the seed is hashed first so that the streams of consecutive seeds are unrelated
// (a plain affine seeding makes stream k+1 the stream k shifted by one draw).
func NewRng(seed uint64) *Rng {
	z := seed + 0x9E3779B97F4A7C15
	z = (z ^ (z >> 30)) * 0xBF58476D1CE4E5B9
	z = (z ^ (z >> 27)) * 0x94D049BB133111EB
	return &Rng{s: z ^ (z >> 31)}
}
func (r *Rng) U64() uint64 {
	r.s += 0x9E3779B97F4A7C15
	z := r.s
	z = (z ^ (z >> 30)) * 0xBF58476D1CE4E5B9
	z = (z ^ (z >> 27)) * 0x94D049BB133111EB
	return z ^ (z >> 31)
}
func (r *Rng) Intn(n int) int { return int(r.U64() % uint64(n)) }

// Range returns an int in [lo, hi]
func (r *Rng) Range(lo, hi int) int { return lo + r.Intn(hi-lo+1) }
func (r *Rng) Float() float64       { return float64(r.U64()>>11) / (1 << 53) }
func (r *Rng) Uniform(lo, hi float64) float64 {
	return lo + (hi-lo)*r.Float()
}
func (r *Rng) Bool() bool { return r.U64()&1 == 1 }

// Dyadic returns k/2^bits with |value| <= lim (a coarse grid: sums and products stay exact)
func (r *Rng) Dyadic(lim float64, bits uint) float64 {
	n := int64(lim * float64(int64(1)<<bits))
	k := int64(r.U64()%uint64(2*n+1)) - n
	return float64(k) / float64(int64(1)<<bits)
}
func (r *Rng) Perm(n int) []int {
	p := make([]int, n)
	for i := range p {
		p[i] = i
	}
	for i := n - 1; i > 0; i-- {
		j := r.Intn(i + 1)
		p[i], p[j] = p[j], p[i]
	}
	return p
}

// ---------------------------------------------------------------- report

type Violation struct {
	Key   string      `json:"key"`   // canonical identity of the failing input
	What  string      `json:"what"`  // which sentence of the property fails, observed values
	Input interface{} `json:"input"` // enough to replay
}

type Report struct {
	Property           string                 `json:"property"`
	Tier               string                 `json:"tier"`
	Seed               uint64                 `json:"seed"`
	Evaluations        int                    `json:"evaluations"`
	DistinctNontrivial int                    `json:"distinct_nontrivial"`
	Rule               string                 `json:"rule"`
	Samples            []interface{}          `json:"samples"`
	Violations         []Violation            `json:"violations"`
	Coverage           map[string]interface{} `json:"coverage"`
	Trusted            []string               `json:"trusted"`
	Assumptions        []string               `json:"assumptions"`
	distinct           map[string]bool
	strata             map[string]int
}

func NewReport(p, tier string, seed uint64) *Report {
	return &Report{Property: p, Tier: tier, Seed: seed, Coverage: map[string]interface{}{},
		distinct: map[string]bool{}, strata: map[string]int{}, Violations: []Violation{}, Samples: []interface{}{}}
}

// Case counts one evaluated case; key identifies it for distinctness, nontrivial by the property's rule.
func (r *Report) Case(stratum, key string, nontrivial bool) {
	r.Evaluations++
	r.strata[stratum]++
	if nontrivial {
		r.distinct[key] = true
	}
}
func (r *Report) Sample(s interface{}) {
	if len(r.Samples) < 6 {
		r.Samples = append(r.Samples, s)
	}
}
func (r *Report) Violate(key, what string, input interface{}) {
	if len(r.Violations) < 50 {
		r.Violations = append(r.Violations, Violation{key, what, input})
	}
}
func (r *Report) Write(dir string) error {
	r.DistinctNontrivial = len(r.distinct)
	r.Coverage["strata"] = r.strata
	// NaN / Inf are not JSON: anything that does not marshal is stored as its printed form
	safe := func(x interface{}) interface{} {
		if _, err := json.Marshal(x); err != nil {
			return fmt.Sprintf("%+v", x)
		}
		return x
	}
	for i := range r.Violations {
		r.Violations[i].Input = safe(r.Violations[i].Input)
	}
	for i := range r.Samples {
		r.Samples[i] = safe(r.Samples[i])
	}
	for k, v := range r.Coverage {
		r.Coverage[k] = safe(v)
	}
	b, err := json.MarshalIndent(r, "", " ")
	if err != nil {
		return err
	}
	return os.WriteFile(filepath.Join(dir, "impl.json"), b, 0o644)
}

// ---------------------------------------------------------------- Coq literals

// CF prints a float64 as an exact Coq primitive-float term.
func CF(x float64) string {
	switch {
	case math.IsNaN(x):
		return "nan"
	case math.IsInf(x, 1):
		return "infinity"
	case math.IsInf(x, -1):
		return "neg_infinity"
	case x == 0 && math.Signbit(x):
		return "(-0x0p+0)%float"
	case x == 0:
		return "0x0p+0%float"
	}
	s := strconv.FormatFloat(math.Abs(x), 'x', -1, 64)
	if x < 0 {
		return "(-" + s + ")%float"
	}
	return s + "%float"
}

// CQ prints a finite float64 as an exact rational (n # d) of QArith.
func CQ(x float64) string {
	if x == 0 {
		return "(0 # 1)"
	}
	m, e := math.Frexp(x) // x = m * 2^e, 0.5 <= |m| < 1
	mi := int64(m * (1 << 53))
	e -= 53
	for mi%2 == 0 {
		mi /= 2
		e++
	}
	if e >= 0 {
		return fmt.Sprintf("((%d * 2 ^ %d) # 1)", mi, e)
	}
	return fmt.Sprintf("(%d # (2 ^ %d))", mi, -e)
}
func CZ(x int) string {
	if x < 0 {
		return fmt.Sprintf("(%d)", x)
	}
	return strconv.Itoa(x)
}
func CB(b bool) string {
	if b {
		return "true"
	}
	return "false"
}
func CList(xs []string) string { return "[" + strings.Join(xs, "; ") + "]" }

// ---------------------------------------------------------------- cases files

// Cases accumulates Coq terms of one kind and writes them into shards
// cases_<kind>_<k>.v, each evaluating `mismatches` of the named model module.
type Cases struct {
	Kind     string // file/result name
	Imports  string // e.g. "From Sdfx Require Import Algo.Canon."
	Type     string // Coq type of a case, e.g. "Canon.case"
	Fn       string // function : list case -> list N
	InfoFn   string // optional: cases agreeing only within tolerance (printed as I_<kind>, never an alarm)
	PerShard int
	items    []string
}

func (c *Cases) Add(term string) { c.items = append(c.items, term) }
func (c *Cases) Len() int        { return len(c.items) }
func (c *Cases) Write(dir string) error {
	if c.PerShard == 0 {
		c.PerShard = 500
	}
	for k, i := 0, 0; i < len(c.items) || k == 0; k, i = k+1, i+c.PerShard {
		j := i + c.PerShard
		if j > len(c.items) {
			j = len(c.items)
		}
		var b strings.Builder
		b.WriteString("From Coq Require Import List ZArith NArith QArith Floats.\nImport ListNotations.\n")
		b.WriteString(c.Imports + "\n")
		fmt.Fprintf(&b, "Definition cases : list (%s) := [\n", c.Type)
		b.WriteString(strings.Join(c.items[i:j], ";\n"))
		b.WriteString("\n].\n")
		fmt.Fprintf(&b, "Definition M_%s := Eval vm_compute in (%s cases).\nPrint M_%s.\n", c.Kind, c.Fn, c.Kind)
		if c.InfoFn != "" {
			fmt.Fprintf(&b, "Definition I_%s := Eval vm_compute in (%s cases).\nPrint I_%s.\n", c.Kind, c.InfoFn, c.Kind)
		}
		name := fmt.Sprintf("cases_%s_%d.v", c.Kind, k)
		if err := os.WriteFile(filepath.Join(dir, name), []byte(b.String()), 0o644); err != nil {
			return err
		}
	}
	return nil
}

// ---------------------------------------------------------------- misc

func SortedKeys(m map[string]int) []string {
	ks := make([]string, 0, len(m))
	for k := range m {
		ks = append(ks, k)
	}
	sort.Strings(ks)
	return ks
}

func TierN(tier string, quick, thorough, search int) int {
	switch tier {
	case "thorough":
		return thorough
	case "search":
		return search
	}
	return quick
}

// ---------------------------------------------------------------- entry point

type Ctx struct {
	Tier, Out, Repo, Verif, Replay, Focus string
	Seed                                  uint64
}

// GenFn regenerates one file of coq/Generated from the current source tree.
type GenFn func(c *Ctx) (name string, content []byte, err error)

func writeIfChanged(path string, b []byte) error {
	old, err := os.ReadFile(path)
	if err == nil && bytes.Equal(old, b) {
		return nil
	}
	return os.WriteFile(path, b, 0o644)
}

// Main is the main() of every per-property binary:
//
//	<bin> gen -repo R -out DIR          run the translators (may be none)
//	<bin> run -tier T -seed S -out DIR  run the implementation, write cases*.v and impl.json
func Main(id string, check func(*Ctx, *Report) error, gens ...GenFn) {
	if len(os.Args) < 2 {
		fmt.Println("usage:", id, "gen|run [flags]")
		os.Exit(2)
	}
	mode := os.Args[1]
	fs := flag.NewFlagSet(id, flag.ExitOnError)
	c := &Ctx{}
	fs.StringVar(&c.Tier, "tier", "quick", "quick|thorough|search")
	fs.StringVar(&c.Out, "out", ".", "output directory")
	fs.StringVar(&c.Repo, "repo", "/repo", "sdfx source tree")
	fs.StringVar(&c.Verif, "verif", "/verif", "verif directory")
	fs.StringVar(&c.Replay, "replay", "", "replay file")
	fs.StringVar(&c.Focus, "focus", "", "case ids to focus the search on")
	fs.Uint64Var(&c.Seed, "seed", 1, "seed")
	fs.Parse(os.Args[2:])
	switch mode {
	case "gen":
		for _, g := range gens {
			name, b, err := g(c)
			if err == nil {
				err = writeIfChanged(filepath.Join(c.Out, name), b)
			}
			if err != nil {
				fmt.Println("gen:", err)
				os.Exit(1)
			}
		}
	case "run":
		r := NewReport(id, c.Tier, c.Seed)
		if err := check(c, r); err != nil {
			fmt.Println(id, "harness error:", err)
			os.Exit(1)
		}
		if err := r.Write(c.Out); err != nil {
			fmt.Println(err)
			os.Exit(1)
		}
	default:
		fmt.Println("unknown mode", mode)
		os.Exit(2)
	}
}

// Tail returns the last n bytes of s.
func Tail(s string, n int) string {
	if len(s) > n {
		return s[len(s)-n:]
	}
	return s
}
