package kit

// STL helpers shared by the C13 and C14 harnesses: Coq terms for file contents,
// token lists and triangles, and the tokenisation oracle (bufio.Scanner +
// strings.Fields + strconv.ParseFloat, see coq/Io/StlLoad.v).

import (
	"bufio"
	"bytes"
	"fmt"
	"strconv"
	"strings"
)

// PackBytes prints file contents as (length, [7-byte little-endian chunks as primitive
// integers]) for Stl.unpack (primitive integer literals parse ~20x faster than N).
func PackBytes(b []byte) string {
	var sb strings.Builder
	fmt.Fprintf(&sb, "(%d%%N, [", len(b))
	for i := 0; i < len(b); i += 7 {
		j := i + 7
		if j > len(b) {
			j = len(b)
		}
		if i > 0 {
			sb.WriteString(";")
		}
		var v uint64
		for k := j - 1; k >= i; k-- {
			v = v<<8 | uint64(b[k])
		}
		fmt.Fprintf(&sb, "0x%x%%uint63", v)
	}
	sb.WriteString("])")
	return sb.String()
}

// CoqString prints a byte string as a Coq string term (StlLoad.bs for anything that is
// not printable ASCII).
func CoqString(s string) string {
	printable := true
	for i := 0; i < len(s); i++ {
		if s[i] < 0x20 || s[i] > 0x7e {
			printable = false
			break
		}
	}
	if printable && len(s) <= 200 {
		return "\"" + strings.ReplaceAll(s, "\"", "\"\"") + "\"%string"
	}
	if len(s) > 200 {
		// long tokens: runs of equal bytes (the generators make long lines by repetition)
		var rs []string
		for i := 0; i < len(s); {
			j := i
			for j < len(s) && s[j] == s[i] {
				j++
			}
			rs = append(rs, fmt.Sprintf("(%d,%d)", s[i], j-i))
			i = j
		}
		if len(rs) <= 400 {
			return "(runs [" + strings.Join(rs, ";") + "]%N)"
		}
	}
	return "(bs " + PackBytes([]byte(s)) + ")"
}

// CFVec / CFTri print float64 triples and triangles as PrimFloat tuples.
func CFVec(v [3]float64) string { return "(" + CF(v[0]) + "," + CF(v[1]) + "," + CF(v[2]) + ")" }
func CFTri(t [3][3]float64) string {
	return "(" + CFVec(t[0]) + "," + CFVec(t[1]) + "," + CFVec(t[2]) + ")"
}
func CFTris(ts [][3][3]float64) string {
	xs := make([]string, len(ts))
	for i, t := range ts {
		xs[i] = CFTri(t)
	}
	return "[" + strings.Join(xs, ";\n  ") + "]"
}

// StlTokens is the tokenisation oracle of the ASCII loader: the lines bufio.Scanner
// delivers (default split function and buffer), each split by strings.Fields, and
// whether the scanner stopped with an error.
func StlTokens(content []byte) (lines [][]string, scanErr bool) {
	sc := bufio.NewScanner(bytes.NewReader(content))
	for sc.Scan() {
		lines = append(lines, strings.Fields(sc.Text()))
	}
	return lines, sc.Err() != nil
}

// StlLoadCase prints one StlLoad.case: the file, its tokens, the ParseFloat table of
// every field that can reach parseFloats, and what the two entry points returned
// (class 0 error, 1 mesh, 2 panic/crash/hang/excessive allocation).
func StlLoadCase(id int, content []byte, cls int, tris [][3][3]float64, icls int) string {
	lines, serr := StlTokens(content)
	var lb strings.Builder
	lb.WriteString("[")
	seen := map[string]bool{}
	var tbl []string
	for i, fs := range lines {
		if i > 0 {
			lb.WriteString("; ")
		}
		xs := make([]string, len(fs))
		for j, f := range fs {
			xs[j] = CoqString(f)
		}
		lb.WriteString("[" + strings.Join(xs, "; ") + "]")
		if len(fs) == 4 {
			for _, f := range fs[1:] {
				if seen[f] {
					continue
				}
				seen[f] = true
				v, err := strconv.ParseFloat(f, 64)
				if err != nil {
					tbl = append(tbl, "("+CoqString(f)+", None)")
				} else {
					tbl = append(tbl, "("+CoqString(f)+", Some "+CF(v)+")")
				}
			}
		}
	}
	lb.WriteString("]")
	return fmt.Sprintf("(%d%%N, %s,\n %s, %s,\n [%s],\n (%d%%N, %s), %d%%N)", id, PackBytes(content), lb.String(), CB(serr),
		strings.Join(tbl, "; "), cls, CFTris(tris), icls)
}
