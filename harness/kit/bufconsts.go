package kit

// Translator for the buffering thresholds (used by C11 and C12): reads the constants
// tBufferSize (sdf/triangle3.go) and lBufferSize (sdf/line.go) from the current source
// tree and emits coq/Generated/BufferConsts.v.

import (
	"fmt"
	"go/ast"
	"go/constant"
	"go/parser"
	"go/token"
	"os"
	"path/filepath"
	"strings"
)

// SourceIntConst evaluates the package-level integer constant `name` of the package that `file`
// belongs to.  The constant may be declared in any (non-test) file of that directory - a move to
// another file of the package is not a change - and may be any constant integer expression over
// literals and other constants of the package (+ - * / % << >> & | ^, parentheses, a conversion to
// an integer type).
func SourceIntConst(file, name string) (int, error) {
	dir := filepath.Dir(file)
	_, defs, eval, err := packageConsts(dir)
	if err != nil {
		return 0, err
	}
	if _, ok := defs[name]; !ok {
		return 0, fmt.Errorf("%s: constant %s not found", dir, name)
	}
	v, ok := eval(defs[name], 0)
	if !ok || v.Kind() != constant.Int {
		return 0, fmt.Errorf("%s: constant %s is not a constant integer expression", dir, name)
	}
	n, ok := constant.Int64Val(v)
	if !ok || n != int64(int(n)) {
		return 0, fmt.Errorf("%s: constant %s out of range", dir, name)
	}
	return int(n), nil
}

// packageConsts parses the (non-test) files of a package directory and returns them, its
// package-level constant declarations and an evaluator of constant integer expressions.
func packageConsts(dir string) ([]*ast.File, map[string]ast.Expr, func(ast.Expr, int) (constant.Value, bool), error) {
	ents, err := os.ReadDir(dir)
	if err != nil {
		return nil, nil, nil, err
	}
	fset := token.NewFileSet()
	defs := map[string]ast.Expr{}
	var files []*ast.File
	for _, e := range ents {
		n := e.Name()
		if e.IsDir() || !strings.HasSuffix(n, ".go") || strings.HasSuffix(n, "_test.go") {
			continue
		}
		f, err := parser.ParseFile(fset, filepath.Join(dir, n), nil, 0)
		if err != nil {
			return nil, nil, nil, err
		}
		files = append(files, f)
		for _, d := range f.Decls {
			gd, ok := d.(*ast.GenDecl)
			if !ok || gd.Tok != token.CONST {
				continue
			}
			for _, s := range gd.Specs {
				vs := s.(*ast.ValueSpec)
				for i, id := range vs.Names {
					if i < len(vs.Values) {
						defs[id.Name] = vs.Values[i]
					}
				}
			}
		}
	}
	intTypes := map[string]bool{"int": true, "int32": true, "int64": true, "uint": true, "uint32": true, "uint64": true}
	var eval func(e ast.Expr, depth int) (constant.Value, bool)
	eval = func(e ast.Expr, depth int) (constant.Value, bool) {
		if depth > 16 {
			return nil, false
		}
		switch x := e.(type) {
		case *ast.BasicLit:
			if x.Kind == token.INT {
				return constant.MakeFromLiteral(x.Value, token.INT, 0), true
			}
		case *ast.ParenExpr:
			return eval(x.X, depth+1)
		case *ast.Ident:
			if d, ok := defs[x.Name]; ok {
				return eval(d, depth+1)
			}
		case *ast.UnaryExpr:
			if v, ok := eval(x.X, depth+1); ok && (x.Op == token.SUB || x.Op == token.ADD || x.Op == token.XOR) {
				return constant.UnaryOp(x.Op, v, 0), true
			}
		case *ast.BinaryExpr:
			a, ok1 := eval(x.X, depth+1)
			b, ok2 := eval(x.Y, depth+1)
			if !ok1 || !ok2 {
				return nil, false
			}
			switch x.Op {
			case token.ADD, token.SUB, token.MUL, token.REM, token.AND, token.OR, token.XOR:
				if x.Op == token.REM && constant.Sign(b) == 0 {
					return nil, false
				}
				return constant.BinaryOp(a, x.Op, b), true
			case token.QUO:
				if constant.Sign(b) != 0 {
					return constant.BinaryOp(a, token.QUO_ASSIGN, b), true // integer division
				}
			case token.SHL, token.SHR:
				if n, ok := constant.Uint64Val(b); ok && n < 63 {
					return constant.Shift(a, x.Op, uint(n)), true
				}
			}
		case *ast.CallExpr:
			if id, ok := x.Fun.(*ast.Ident); ok && intTypes[id.Name] && len(x.Args) == 1 {
				return eval(x.Args[0], depth+1)
			}
		}
		return nil, false
	}
	return files, defs, eval, nil
}

// writeThreshold finds the buffering threshold of `typ` from its USE: the constant the method
// Write of typ compares the length of a field with before it sends (`len(a.f) >= N`, `N <= len(a.f)`,
// `len(a.f) > N-1`, the negated tests `<` / `<=` of an early return).  Used when the constant is
// no longer called tBufferSize / lBufferSize (a rename is not a change of behaviour).
func writeThreshold(dir, typ string) (int, error) {
	files, _, eval, err := packageConsts(dir)
	if err != nil {
		return 0, err
	}
	isLen := func(e ast.Expr) bool {
		c, ok := e.(*ast.CallExpr)
		if !ok || len(c.Args) != 1 {
			return false
		}
		id, ok := c.Fun.(*ast.Ident)
		_, sel := c.Args[0].(*ast.SelectorExpr)
		return ok && id.Name == "len" && sel
	}
	var found []int
	for _, f := range files {
		for _, d := range f.Decls {
			fd, ok := d.(*ast.FuncDecl)
			if !ok || fd.Name.Name != "Write" || fd.Recv == nil || len(fd.Recv.List) != 1 || fd.Body == nil {
				continue
			}
			t := fd.Recv.List[0].Type
			if st, ok := t.(*ast.StarExpr); ok {
				t = st.X
			}
			if id, ok := t.(*ast.Ident); !ok || id.Name != typ {
				continue
			}
			ast.Inspect(fd.Body, func(n ast.Node) bool {
				be, ok := n.(*ast.BinaryExpr)
				if !ok {
					return true
				}
				x, y, op := be.X, be.Y, be.Op
				if isLen(y) {
					x, y = y, x
					op = map[token.Token]token.Token{token.LSS: token.GTR, token.GTR: token.LSS, token.LEQ: token.GEQ, token.GEQ: token.LEQ}[op]
				}
				if !isLen(x) {
					return true
				}
				v, ok := eval(y, 0)
				if !ok || v.Kind() != constant.Int {
					return true
				}
				k, ok := constant.Int64Val(v)
				if !ok || k < 0 || k > 1<<20 {
					return true
				}
				switch op {
				case token.GEQ, token.LSS: // send when len >= k  /  return early when len < k
					found = append(found, int(k))
				case token.GTR, token.LEQ:
					found = append(found, int(k)+1)
				}
				return true
			})
		}
	}
	if len(found) != 1 {
		return 0, fmt.Errorf("%s: %s.Write compares the buffer length with %v: no unique threshold", dir, typ, found)
	}
	return found[0], nil
}

// BufferConsts returns (tBufferSize, lBufferSize) of the source tree at repo.
func BufferConsts(repo string) (int, int, error) {
	t, err := SourceIntConst(filepath.Join(repo, "sdf", "triangle3.go"), "tBufferSize")
	if err != nil {
		// renamed or written as a literal: take it from its use in Triangle3Buffer.Write
		if t, err = writeThreshold(filepath.Join(repo, "sdf"), "Triangle3Buffer"); err != nil {
			return 0, 0, err
		}
	}
	l, err := SourceIntConst(filepath.Join(repo, "sdf", "line.go"), "lBufferSize")
	if err != nil {
		if l, err = writeThreshold(filepath.Join(repo, "sdf"), "Line2Buffer"); err != nil {
			return 0, 0, err
		}
	}
	return t, l, nil
}

// GenBufferConsts is the GenFn writing coq/Generated/BufferConsts.v.
func GenBufferConsts(c *Ctx) (string, []byte, error) {
	t, l, err := BufferConsts(c.Repo)
	if err != nil {
		return "", nil, err
	}
	if t < 0 || l < 0 || t > 1<<16 || l > 1<<16 {
		return "", nil, fmt.Errorf("buffer thresholds out of the modelled range: %d %d", t, l)
	}
	s := fmt.Sprintf("(* generated from sdf/triangle3.go and sdf/line.go - do not edit *)\n"+
		"Definition tBufferSize : nat := %d.\nDefinition lBufferSize : nat := %d.\n", t, l)
	return "BufferConsts.v", []byte(s), nil
}
