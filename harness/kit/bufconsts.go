package kit

// Translator for the buffering thresholds (used by C11 and C12): reads the constants
// tBufferSize (sdf/triangle3.go) and lBufferSize (sdf/line.go) from the current source
// tree and emits coq/Generated/BufferConsts.v.

import (
	"fmt"
	"go/ast"
	"go/constant"
	"go/parser"
	"go/token"
	"path/filepath"
)

// SourceIntConst evaluates the integer constant `name` declared at package level in `file`.
func SourceIntConst(file, name string) (int, error) {
	fset := token.NewFileSet()
	f, err := parser.ParseFile(fset, file, nil, 0)
	if err != nil {
		return 0, err
	}
	for _, d := range f.Decls {
		gd, ok := d.(*ast.GenDecl)
		if !ok || gd.Tok != token.CONST {
			continue
		}
		for _, s := range gd.Specs {
			vs := s.(*ast.ValueSpec)
			for i, n := range vs.Names {
				if n.Name != name || i >= len(vs.Values) {
					continue
				}
				lit, ok := vs.Values[i].(*ast.BasicLit)
				if !ok || lit.Kind != token.INT {
					return 0, fmt.Errorf("%s: constant %s is not an integer literal", file, name)
				}
				v, ok := constant.Int64Val(constant.MakeFromLiteral(lit.Value, token.INT, 0))
				if !ok {
					return 0, fmt.Errorf("%s: constant %s out of range", file, name)
				}
				return int(v), nil
			}
		}
	}
	return 0, fmt.Errorf("%s: constant %s not found", file, name)
}

// BufferConsts returns (tBufferSize, lBufferSize) of the source tree at repo.
func BufferConsts(repo string) (int, int, error) {
	t, err := SourceIntConst(filepath.Join(repo, "sdf", "triangle3.go"), "tBufferSize")
	if err != nil {
		return 0, 0, err
	}
	l, err := SourceIntConst(filepath.Join(repo, "sdf", "line.go"), "lBufferSize")
	if err != nil {
		return 0, 0, err
	}
	return t, l, nil
}

// GenBufferConsts is the GenFn writing coq/Generated/BufferConsts.v.
func GenBufferConsts(c *Ctx) (string, []byte, error) {
	t, l, err := BufferConsts(c.Repo)
	if err != nil {
		return "", nil, err
	}
	if t < 0 || l < 0 || t > 1<<16 || l > 1<<16 {
		return "", nil, fmt.Errorf("buffer thresholds out of the modelled range: %d %d", t, l)
	}
	s := fmt.Sprintf("(* generated from sdf/triangle3.go and sdf/line.go - do not edit *)\n"+
		"Definition tBufferSize : nat := %d.\nDefinition lBufferSize : nat := %d.\n", t, l)
	return "BufferConsts.v", []byte(s), nil
}
