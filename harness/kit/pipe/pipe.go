// Package pipe: helpers shared by the C11 and C12 harnesses - numbered triangles and
// lines, scripted renderers that drive the real sdf.Triangle3Buffer / sdf.Line2Buffer,
// recording wrappers, and independent decoders for the files the real sinks write.
package pipe

import (
	"encoding/binary"
	"encoding/xml"
	"fmt"
	"math"
	"os"
	"strconv"
	"sync"

	"github.com/deadsy/sdfx/render"
	"github.com/deadsy/sdfx/sdf"
	v2 "github.com/deadsy/sdfx/vec/v2"
	v3 "github.com/deadsy/sdfx/vec/v3"
	"github.com/hpinc/go3mf"
	"github.com/yofu/dxf"
	"github.com/yofu/dxf/entity"
)

// An item id is producer<<20 | sequence number.
const TagShift = 20

func ID(producer, seq int) int { return producer<<TagShift | seq }

// Tri builds the triangle carrying id.  Coordinates are small integers (+0.25), exact in
// float32, inside the range where go3mf's vertex de-duplication is injective.  Every seventh
// item (sequence number = 3 mod 7) is a DEGENERATE triangle (first two vertices equal): a sink
// must deliver those too, exactly once and in place.
func Tri(id int) *sdf.Triangle3 {
	p, s := id>>TagShift, id&(1<<TagShift-1)
	x, y, z := float64(s%1000), float64(s/1000), float64(p)
	if s%7 == 3 {
		return &sdf.Triangle3{{X: x, Y: y, Z: z}, {X: x, Y: y, Z: z}, {X: x, Y: y + 0.25, Z: z}}
	}
	return &sdf.Triangle3{{X: x, Y: y, Z: z}, {X: x + 0.25, Y: y, Z: z}, {X: x, Y: y + 0.25, Z: z}}
}

func idOf(x, y, z float64) (int, bool) {
	if x != math.Trunc(x) || y != math.Trunc(y) || z != math.Trunc(z) || x < 0 || x >= 1000 || y < 0 || z < 0 {
		return 0, false
	}
	return ID(int(z), int(x)+1000*int(y)), true
}

// TriID decodes a triangle; ok is false when it is not one of ours (corrupted).
func TriID(a, b, c v3.Vec) (int, bool) {
	id, ok := idOf(a.X, a.Y, a.Z)
	bx := a.X + 0.25
	if ok && (id&(1<<TagShift-1))%7 == 3 {
		bx = a.X // the degenerate form
	}
	if !ok || b.X != bx || b.Y != a.Y || b.Z != a.Z || c.X != a.X || c.Y != a.Y+0.25 || c.Z != a.Z {
		return 0, false
	}
	return id, true
}

// Line builds the line carrying id: (x, y) -> (x+0.5, y+0.5), y encodes the producer.
func Line(id int) *sdf.Line2 {
	p, s := id>>TagShift, id&(1<<TagShift-1)
	x, y := float64(s%1000), float64(s/1000+2000*p)
	return &sdf.Line2{{X: x, Y: y}, {X: x + 0.5, Y: y + 0.5}}
}

func LineID(a, b v2.Vec) (int, bool) {
	if a.X != math.Trunc(a.X) || a.Y != math.Trunc(a.Y) || a.X < 0 || a.X >= 1000 || a.Y < 0 || b.X != a.X+0.5 || b.Y != a.Y+0.5 {
		return 0, false
	}
	y := int(a.Y)
	return ID(y/2000, int(a.X)+1000*(y%2000)), true
}

// ---------------------------------------------------------------- scripted renderers

// Script3 is a render.Render3 that ignores the SDF and writes numbered triangles:
// producer p performs the Writes Producers[p] (sizes), items numbered ID(p, 0..).
// One producer runs in the calling goroutine, several run concurrently.
type Script3 struct {
	Producers [][]int
	NoClose   bool // leave out output.Close() (never set by the checks; for self-tests)
}

func (r *Script3) Info(sdf.SDF3) string { return "scripted" }
func (r *Script3) Render(_ sdf.SDF3, out sdf.Triangle3Writer) {
	run := func(p int) {
		seq := 0
		for _, n := range r.Producers[p] {
			var b []*sdf.Triangle3
			if n > 0 {
				b = make([]*sdf.Triangle3, n)
				for i := range b {
					b[i] = Tri(ID(p, seq))
					seq++
				}
			}
			out.Write(b)
		}
	}
	if len(r.Producers) == 1 {
		run(0)
	} else {
		var wg sync.WaitGroup
		for p := range r.Producers {
			wg.Add(1)
			go func(p int) { defer wg.Done(); run(p) }(p)
		}
		wg.Wait()
	}
	if !r.NoClose {
		out.Close()
	}
}

// Script2 is the same for lines.
type Script2 struct {
	Producers [][]int
}

func (r *Script2) Info(sdf.SDF2) string { return "scripted" }
func (r *Script2) Render(_ sdf.SDF2, out sdf.Line2Writer) {
	run := func(p int) {
		seq := 0
		for _, n := range r.Producers[p] {
			var b []*sdf.Line2
			if n > 0 {
				b = make([]*sdf.Line2, n)
				for i := range b {
					b[i] = Line(ID(p, seq))
					seq++
				}
			}
			out.Write(b)
		}
	}
	if len(r.Producers) == 1 {
		run(0)
	} else {
		var wg sync.WaitGroup
		for p := range r.Producers {
			wg.Add(1)
			go func(p int) { defer wg.Done(); run(p) }(p)
		}
		wg.Wait()
	}
	out.Close()
}

// ---------------------------------------------------------------- recording wrappers

// Rec3 wraps a real renderer and records the size of every Write it performs.
type Rec3 struct {
	Inner render.Render3
	mu    sync.Mutex
	Sizes []int
}

type recW3 struct {
	r   *Rec3
	out sdf.Triangle3Writer
}

func (w *recW3) Write(in []*sdf.Triangle3) error {
	w.r.mu.Lock()
	w.r.Sizes = append(w.r.Sizes, len(in))
	w.r.mu.Unlock()
	return w.out.Write(in)
}
func (w *recW3) Close() error          { return w.out.Close() }
func (r *Rec3) Info(s sdf.SDF3) string { return r.Inner.Info(s) }
func (r *Rec3) Render(s sdf.SDF3, out sdf.Triangle3Writer) {
	r.Inner.Render(s, &recW3{r, out})
}

type Rec2 struct {
	Inner render.Render2
	mu    sync.Mutex
	Sizes []int
}
type recW2 struct {
	r   *Rec2
	out sdf.Line2Writer
}

func (w *recW2) Write(in []*sdf.Line2) error {
	w.r.mu.Lock()
	w.r.Sizes = append(w.r.Sizes, len(in))
	w.r.mu.Unlock()
	return w.out.Write(in)
}
func (w *recW2) Close() error          { return w.out.Close() }
func (r *Rec2) Info(s sdf.SDF2) string { return r.Inner.Info(s) }
func (r *Rec2) Render(s sdf.SDF2, out sdf.Line2Writer) {
	r.Inner.Render(s, &recW2{r, out})
}

// ---------------------------------------------------------------- direct use of the real buffers

// Direct3 runs the renderer through the REAL sdf.NewTriangle3Buffer into a channel owned
// by the caller, so that the batches on the channel are visible.
func Direct3(s sdf.SDF3, r render.Render3) (batches [][]int, bad int) {
	c := make(chan []*sdf.Triangle3)
	done := make(chan struct{})
	go func() {
		for ts := range c {
			b := make([]int, 0, len(ts))
			for _, t := range ts {
				if t == nil { // hole left by a racing writer: not among those written
					bad++
					b = append(b, -1)
					continue
				}
				id, ok := TriID(t[0], t[1], t[2])
				if !ok {
					bad++
				}
				b = append(b, id)
			}
			batches = append(batches, b)
		}
		close(done)
	}()
	r.Render(s, sdf.NewTriangle3Buffer(c))
	close(c)
	<-done
	return
}

func Direct2(s sdf.SDF2, r render.Render2) (batches [][]int, bad int) {
	c := make(chan []*sdf.Line2)
	done := make(chan struct{})
	go func() {
		for ls := range c {
			b := make([]int, 0, len(ls))
			for _, l := range ls {
				if l == nil { // hole left by a racing writer: not among those written
					bad++
					b = append(b, -1)
					continue
				}
				id, ok := LineID(l[0], l[1])
				if !ok {
					bad++
				}
				b = append(b, id)
			}
			batches = append(batches, b)
		}
		close(done)
	}()
	r.Render(s, sdf.NewLine2Buffer(c))
	close(c)
	<-done
	return
}

// ---------------------------------------------------------------- decoders (independent of the library's own readers)

// DecodeSTL reads a binary STL: header count, ids of the records actually present.
func DecodeSTL(path string) (ids []int, count uint32, size int64, err error) {
	b, err := os.ReadFile(path)
	if err != nil {
		return nil, 0, 0, err
	}
	size = int64(len(b))
	if len(b) < 84 {
		return nil, 0, size, fmt.Errorf("stl shorter than its header: %d bytes", len(b))
	}
	count = binary.LittleEndian.Uint32(b[80:84])
	f := func(off int) float64 { return float64(math.Float32frombits(binary.LittleEndian.Uint32(b[off:]))) }
	for off := 84; off+50 <= len(b); off += 50 {
		a := v3.Vec{X: f(off + 12), Y: f(off + 16), Z: f(off + 20)}
		bb := v3.Vec{X: f(off + 24), Y: f(off + 28), Z: f(off + 32)}
		c := v3.Vec{X: f(off + 36), Y: f(off + 40), Z: f(off + 44)}
		id, ok := TriID(a, bb, c)
		if !ok {
			id = -1
		}
		ids = append(ids, id)
	}
	if (len(b)-84)%50 != 0 {
		err = fmt.Errorf("stl body is not a whole number of records: %d bytes", len(b))
	}
	return
}

// Decode3MF reads the triangle list of the first object of a 3MF file with the go3mf reader.
func Decode3MF(path string) (ids []int, err error) {
	r, err := go3mf.OpenReader(path)
	if err != nil {
		return nil, err
	}
	defer r.Close()
	var m go3mf.Model
	if err = r.Decode(&m); err != nil {
		return nil, err
	}
	if len(m.Resources.Objects) != 1 || m.Resources.Objects[0].Mesh == nil {
		return nil, fmt.Errorf("3mf: expected one mesh object, found %d objects", len(m.Resources.Objects))
	}
	mesh := m.Resources.Objects[0].Mesh
	vs := mesh.Vertices.Vertex
	pt := func(i uint32) (v3.Vec, bool) {
		if int(i) >= len(vs) {
			return v3.Vec{}, false
		}
		return v3.Vec{X: float64(vs[i].X()), Y: float64(vs[i].Y()), Z: float64(vs[i].Z())}, true
	}
	for _, t := range mesh.Triangles.Triangle {
		a, ok1 := pt(t.V1)
		b, ok2 := pt(t.V2)
		c, ok3 := pt(t.V3)
		id, ok := TriID(a, b, c)
		if !(ok && ok1 && ok2 && ok3) {
			id = -1
		}
		ids = append(ids, id)
	}
	return ids, nil
}

// DecodeDXF reads the LINE entities of a DXF file with the yofu/dxf parser.
func DecodeDXF(path string) (ids []int, err error) {
	d, err := dxf.FromFile(path)
	if err != nil {
		return nil, err
	}
	for _, e := range d.Entities() {
		l, ok := e.(*entity.Line)
		if !ok {
			continue
		}
		id, ok := LineID(v2.Vec{X: l.Start[0], Y: l.Start[1]}, v2.Vec{X: l.End[0], Y: l.End[1]})
		if !ok || l.Start[2] != 0 || l.End[2] != 0 {
			id = -1
		}
		ids = append(ids, id)
	}
	return ids, nil
}

type svgDoc struct {
	Lines []struct {
		X1 string `xml:"x1,attr"`
		Y1 string `xml:"y1,attr"`
		X2 string `xml:"x2,attr"`
		Y2 string `xml:"y2,attr"`
	} `xml:"line"`
}

// DecodeSVG reads the <line> elements of an SVG file.  writeSVG shifts the drawing to its
// bounding box: x' = x - minX, y' = maxY - y; minX / maxY are those of the lines written.
func DecodeSVG(path string, minX, maxY float64) (ids []int, err error) {
	b, err := os.ReadFile(path)
	if err != nil {
		return nil, err
	}
	var doc svgDoc
	if err = xml.Unmarshal(b, &doc); err != nil {
		return nil, err
	}
	for _, l := range doc.Lines {
		x1, e1 := strconv.ParseFloat(l.X1, 64)
		y1, e2 := strconv.ParseFloat(l.Y1, 64)
		x2, e3 := strconv.ParseFloat(l.X2, 64)
		y2, e4 := strconv.ParseFloat(l.Y2, 64)
		id, ok := LineID(v2.Vec{X: x1 + minX, Y: maxY - y1}, v2.Vec{X: x2 + minX, Y: maxY - y2})
		if !ok || e1 != nil || e2 != nil || e3 != nil || e4 != nil {
			id = -1
		}
		ids = append(ids, id)
	}
	return ids, nil
}

// Bounds2 returns min X and max Y over the lines with the given ids (what writeSVG computes).
func Bounds2(ids []int) (minX, maxY float64) {
	for i, id := range ids {
		l := Line(id)
		if i == 0 || l[0].X < minX {
			minX = l[0].X
		}
		if i == 0 || l[1].Y > maxY {
			maxY = l[1].Y
		}
	}
	return
}

// Silence redirects os.Stdout (the library prints progress and errors there) and returns a restore func.
func Silence() func() {
	old := os.Stdout
	if f, err := os.OpenFile(os.DevNull, os.O_WRONLY, 0); err == nil {
		os.Stdout = f
		return func() { os.Stdout = old; f.Close() }
	}
	return func() {}
}

// ---------------------------------------------------------------- segment streams with arbitrary geometry

// Seg is a raw 2D segment x0, y0, x1, y1.  Unlike Line(id) the geometry is free: segments may
// share end points, be collinear, overlap, repeat or have zero length; their identity is
// their position in the stream.
type Seg [4]float64

func (s Seg) Line2() *sdf.Line2 { return &sdf.Line2{{X: s[0], Y: s[1]}, {X: s[2], Y: s[3]}} }
func segOf(a, b v2.Vec) Seg     { return Seg{a.X, a.Y, b.X, b.Y} }

// GeoScript2 is a render.Render2 writing the given segments, in order, in Writes of the given
// sizes (what is left over goes into one last Write), from the calling goroutine.
type GeoScript2 struct {
	Segs   []Seg
	Writes []int
}

func (r *GeoScript2) Info(sdf.SDF2) string { return "scripted segments" }
func (r *GeoScript2) Render(_ sdf.SDF2, out sdf.Line2Writer) {
	next := 0
	write := func(n int) {
		if n > len(r.Segs)-next {
			n = len(r.Segs) - next
		}
		var b []*sdf.Line2
		for i := 0; i < n; i++ {
			b = append(b, r.Segs[next].Line2())
			next++
		}
		out.Write(b)
	}
	for _, n := range r.Writes {
		write(n)
	}
	if next < len(r.Segs) {
		write(len(r.Segs) - next)
	}
	out.Close()
}

// DirectSegs2 runs the renderer through the REAL sdf.NewLine2Buffer into a channel owned by
// the caller and returns the batches as raw segments.
func DirectSegs2(r render.Render2) (batches [][]Seg) {
	c := make(chan []*sdf.Line2)
	done := make(chan struct{})
	go func() {
		for ls := range c {
			b := make([]Seg, 0, len(ls))
			for _, l := range ls {
				b = append(b, segOf(l[0], l[1]))
			}
			batches = append(batches, b)
		}
		close(done)
	}()
	r.Render(nil, sdf.NewLine2Buffer(c))
	close(c)
	<-done
	return
}

// DecodeDXFSegs reads the LINE entities of a DXF file as raw segments.
func DecodeDXFSegs(path string) (segs []Seg, err error) {
	d, err := dxf.FromFile(path)
	if err != nil {
		return nil, err
	}
	for _, e := range d.Entities() {
		l, ok := e.(*entity.Line)
		if !ok {
			continue
		}
		if l.Start[2] != 0 || l.End[2] != 0 {
			return nil, fmt.Errorf("dxf: LINE with z != 0")
		}
		segs = append(segs, Seg{l.Start[0], l.Start[1], l.End[0], l.End[1]})
	}
	return segs, nil
}

// DecodeSVGSegs reads the <line> elements of an SVG file and undoes writeSVG's shift
// (x' = x - minX, y' = maxY - y).
func DecodeSVGSegs(path string, minX, maxY float64) (segs []Seg, err error) {
	b, err := os.ReadFile(path)
	if err != nil {
		return nil, err
	}
	var doc svgDoc
	if err = xml.Unmarshal(b, &doc); err != nil {
		return nil, err
	}
	for _, l := range doc.Lines {
		var v [4]float64
		for i, s := range []string{l.X1, l.Y1, l.X2, l.Y2} {
			if v[i], err = strconv.ParseFloat(s, 64); err != nil {
				return nil, err
			}
		}
		segs = append(segs, Seg{v[0] + minX, maxY - v[1], v[2] + minX, maxY - v[3]})
	}
	return segs, nil
}

// BoundsSegs returns min X and max Y over all end points (what writeSVG computes).
func BoundsSegs(segs []Seg) (minX, maxY float64) {
	for i, s := range segs {
		if i == 0 {
			minX, maxY = s[0], s[1]
		}
		minX = math.Min(minX, math.Min(s[0], s[2]))
		maxY = math.Max(maxY, math.Max(s[1], s[3]))
	}
	return
}
