package rendergen

import (
	"fmt"
	"go/ast"
	"go/token"
	"math/big"
	"strings"
)

// ---------------------------------------------------------------- literals

var (
	ratHalf = big.NewRat(1, 2)
	limit53 = new(big.Int).Lsh(big.NewInt(1), 53)
)

func isPow2(r *big.Rat) bool {
	if r == nil || r.Sign() <= 0 {
		return false
	}
	one := func(z *big.Int) bool {
		return z.Sign() > 0 && new(big.Int).And(z, new(big.Int).Sub(z, big.NewInt(1))).Sign() == 0
	}
	return one(r.Num()) && one(r.Denom())
}

func exactFloat(z *big.Int) bool {
	if z.Sign() == 0 {
		return true
	}
	odd := new(big.Int).Rsh(z, z.TrailingZeroBits())
	return odd.Cmp(limit53) < 0 && z.BitLen() < 1000
}

// ratCoq prints an exact decimal constant as a float64 term: 0, 1, 2, 1/2 by name, integers through
// ofZ, other decimals as `cst n 10^k` (= correctly rounded n/10^k, which is how Go rounds the literal).
func ratCoq(r *big.Rat) (string, error) {
	if r.Sign() < 0 {
		s, err := ratCoq(new(big.Rat).Neg(r))
		return "(- " + s + ")", err
	}
	if r.IsInt() {
		n := r.Num()
		switch {
		case n.Sign() == 0:
			return "(o0 O)", nil
		case n.Cmp(big.NewInt(1)) == 0:
			return "(o1 O)", nil
		case n.Cmp(big.NewInt(2)) == 0:
			return "two", nil
		case exactFloat(n):
			return "(ofZ O " + n.String() + ")", nil
		}
		return "", fmt.Errorf("integer constant %s is not exact in float64", n)
	}
	if r.Cmp(ratHalf) == 0 {
		return "half", nil
	}
	d := big.NewInt(1)
	for k := 0; k < 40; k++ {
		n := new(big.Rat).Mul(r, new(big.Rat).SetInt(d))
		if n.IsInt() {
			if !exactFloat(n.Num()) || !exactFloat(d) {
				break
			}
			return fmt.Sprintf("(cst %s %s)", n.Num(), d), nil
		}
		d = new(big.Int).Mul(d, big.NewInt(10))
	}
	return "", fmt.Errorf("constant %s has no exact decimal form n/10^k with n and 10^k exact in float64", r.FloatString(20))
}

func zlit(z *big.Int) string {
	if z.Sign() < 0 {
		return "(" + z.String() + ")%Z"
	}
	return z.String() + "%Z"
}

// ---------------------------------------------------------------- values

type val struct {
	s       string
	t       typ
	untyped bool     // an untyped numeric constant: s is empty until it is coerced
	konst   bool     // a Go constant expression
	rat     *big.Rat // its exact value when known
	isInt   bool     // untyped integer constant
}

func (f *fctx) coerce(n ast.Node, v val, want typ) (val, error) {
	if !v.untyped {
		return v, nil
	}
	switch want.k {
	case kT:
		s, err := ratCoq(v.rat)
		if err != nil {
			return val{}, f.errf(n, "%v", err)
		}
		return val{s: s, t: tT, konst: true, rat: v.rat}, nil
	case kInt:
		if !v.rat.IsInt() {
			return val{}, f.errf(n, "constant %s used as an integer", v.rat.FloatString(6))
		}
		return val{s: zlit(v.rat.Num()), t: tInt, konst: true, rat: v.rat, isInt: true}, nil
	}
	return val{}, f.errf(n, "numeric constant used as %s", want.goName())
}

func (f *fctx) deflt(n ast.Node, v val) (val, error) {
	if !v.untyped {
		return v, nil
	}
	if v.isInt {
		return f.coerce(n, v, tInt)
	}
	return f.coerce(n, v, tT)
}

func proj(s string, n, i int) string {
	switch {
	case n == 1:
		return s
	case n == 2 && i == 0:
		return "(fst " + s + ")"
	case n == 2 && i == 1:
		return "(snd " + s + ")"
	case i == n-1:
		return "(snd " + s + ")"
	}
	return proj("(fst "+s+")", n-1, i)
}

// ---------------------------------------------------------------- operators

var mathFns = map[string]struct {
	op string
	n  int
}{
	"Abs": {"oabs", 1}, "Sqrt": {"osqrt", 1}, "Floor": {"ofloor", 1}, "Ceil": {"oceil", 1},
	"Sin": {"osin", 1}, "Cos": {"ocos", 1}, "Tan": {"otan", 1}, "Atan": {"oatan", 1}, "Acos": {"oacos", 1},
	"Max": {"omax", 2}, "Min": {"omin", 2}, "Atan2": {"oatan2", 2}, "Mod": {"ofmod", 2},
}

var arithT = map[token.Token]string{token.ADD: "+", token.SUB: "-", token.MUL: "*", token.QUO: "/"}
var arithZ = map[token.Token]string{token.ADD: "Z.add", token.SUB: "Z.sub", token.MUL: "Z.mul", token.QUO: "Z.quot",
	token.REM: "Z.rem", token.SHL: "Z.shiftl", token.SHR: "Z.shiftr", token.AND: "Z.land", token.OR: "Z.lor", token.XOR: "Z.lxor"}
var compareT = map[token.Token]string{token.LSS: "<?", token.LEQ: "<=?", token.GTR: ">?", token.GEQ: ">=?", token.EQL: "=?"}
var compareZ = map[token.Token]string{token.LSS: "Z.ltb", token.LEQ: "Z.leb", token.GTR: "Z.gtb", token.GEQ: "Z.geb", token.EQL: "Z.eqb"}

var opAssign = map[token.Token]token.Token{token.ADD_ASSIGN: token.ADD, token.SUB_ASSIGN: token.SUB,
	token.MUL_ASSIGN: token.MUL, token.QUO_ASSIGN: token.QUO, token.OR_ASSIGN: token.OR, token.AND_ASSIGN: token.AND,
	token.SHL_ASSIGN: token.SHL, token.SHR_ASSIGN: token.SHR, token.REM_ASSIGN: token.REM, token.XOR_ASSIGN: token.XOR}

func (f *fctx) binary(n ast.Node, op token.Token, a, b val) (val, error) {
	_, isArith := arithZ[op]
	_, isCmp := compareZ[op]
	isCmp = isCmp || op == token.NEQ
	if isArith || isCmp {
		if a.untyped && b.untyped {
			return f.foldConst(n, op, a, b)
		}
		var err error
		if a.untyped {
			if a, err = f.coerce(n, a, b.t); err != nil {
				return val{}, err
			}
		}
		if b.untyped {
			if b, err = f.coerce(n, b, a.t); err != nil {
				return val{}, err
			}
		}
	}
	if isArith {
		switch {
		case a.t.k == kT && b.t.k == kT:
			sym, ok := arithT[op]
			if !ok {
				return val{}, f.errf(n, "operator %s on float64", op)
			}
			r := val{s: fmt.Sprintf("(%s %s %s)", a.s, sym, b.s), t: tT}
			if a.konst && b.konst {
				// the Go compiler folds constant expressions exactly; only scaling by a power of two
				// is the same thing in float64 arithmetic
				okMul := op == token.MUL && (isPow2(a.rat) || isPow2(b.rat))
				okDiv := op == token.QUO && isPow2(b.rat)
				if !okMul && !okDiv {
					return val{}, f.errf(n, "constant expression folded exactly by the compiler (only c*2^k, c/2^k are modelled)")
				}
				r.konst = true
				if a.rat != nil && b.rat != nil {
					if op == token.MUL {
						r.rat = new(big.Rat).Mul(a.rat, b.rat)
					} else {
						r.rat = new(big.Rat).Quo(a.rat, b.rat)
					}
				}
			}
			return r, nil
		case a.t.k == kInt && b.t.k == kInt:
			return val{s: fmt.Sprintf("(%s %s %s)", arithZ[op], a.s, b.s), t: tInt}, nil
		}
		return val{}, f.errf(n, "operator %s on %s and %s", op, a.t.goName(), b.t.goName())
	}
	if isCmp {
		switch {
		case a.t.k == kT && b.t.k == kT:
			if a.konst && b.konst {
				return val{}, f.errf(n, "comparison of two constants")
			}
			if op == token.NEQ {
				return val{s: fmt.Sprintf("(negb (%s =? %s))", a.s, b.s), t: tBool}, nil
			}
			return val{s: fmt.Sprintf("(%s %s %s)", a.s, compareT[op], b.s), t: tBool}, nil
		case a.t.k == kInt && b.t.k == kInt:
			if op == token.NEQ {
				return val{s: fmt.Sprintf("(negb (Z.eqb %s %s))", a.s, b.s), t: tBool}, nil
			}
			return val{s: fmt.Sprintf("(%s %s %s)", compareZ[op], a.s, b.s), t: tBool}, nil
		case a.t.k == kBool && b.t.k == kBool && op == token.EQL:
			return val{s: fmt.Sprintf("(Bool.eqb %s %s)", a.s, b.s), t: tBool}, nil
		case a.t.k == kBool && b.t.k == kBool && op == token.NEQ:
			return val{s: fmt.Sprintf("(xorb %s %s)", a.s, b.s), t: tBool}, nil
		}
		if (op == token.EQL || op == token.NEQ) && a.t.eq(b.t) {
			// arrays / vectors: equal when all components are
			if eq, ok := eqTerm(a.s, b.s, a.t); ok {
				if op == token.NEQ {
					eq = "(negb " + eq + ")"
				}
				return val{s: eq, t: tBool}, nil
			}
		}
		return val{}, f.errf(n, "comparison %s on %s and %s", op, a.t.goName(), b.t.goName())
	}
	if op == token.LAND || op == token.LOR {
		if a.t.k != kBool || b.t.k != kBool {
			return val{}, f.errf(n, "operator %s on non-booleans", op)
		}
		sym := "&&"
		if op == token.LOR {
			sym = "||"
		}
		return val{s: fmt.Sprintf("(%s %s %s)", a.s, sym, b.s), t: tBool}, nil
	}
	return val{}, f.errf(n, "unsupported operator %s", op)
}

// an operation on two untyped constants: integers are folded exactly (as the compiler does);
// with a float operand only scaling by a power of two is the same thing in float64
func (f *fctx) foldConst(n ast.Node, op token.Token, a, b val) (val, error) {
	if a.isInt && b.isInt {
		x, y, z := a.rat.Num(), b.rat.Num(), new(big.Int)
		switch op {
		case token.ADD:
			z.Add(x, y)
		case token.SUB:
			z.Sub(x, y)
		case token.MUL:
			z.Mul(x, y)
		case token.QUO:
			if y.Sign() == 0 {
				return val{}, f.errf(n, "division by the constant 0")
			}
			z.Quo(x, y)
		case token.REM:
			if y.Sign() == 0 {
				return val{}, f.errf(n, "division by the constant 0")
			}
			z.Rem(x, y)
		case token.SHL:
			if y.Sign() < 0 || y.BitLen() > 7 {
				return val{}, f.errf(n, "constant shift count")
			}
			z.Lsh(x, uint(y.Int64()))
		default:
			return val{}, f.errf(n, "constant expression with operator %s", op)
		}
		if z.BitLen() > 62 {
			return val{}, f.errf(n, "integer constant out of the int range")
		}
		return val{untyped: true, konst: true, isInt: true, rat: new(big.Rat).SetInt(z)}, nil
	}
	okMul := op == token.MUL && (isPow2(a.rat) || isPow2(b.rat))
	okDiv := op == token.QUO && isPow2(b.rat)
	if !okMul && !okDiv {
		return val{}, f.errf(n, "constant expression folded exactly by the compiler (only c*2^k, c/2^k are modelled)")
	}
	r := new(big.Rat)
	if op == token.MUL {
		r.Mul(a.rat, b.rat)
	} else {
		r.Quo(a.rat, b.rat)
	}
	return val{untyped: true, konst: true, rat: r}, nil
}

// the boolean term deciding == on values of type t (ints, bools, floats, tuples / vectors of them)
func eqTerm(a, b string, t typ) (string, bool) {
	switch t.k {
	case kInt:
		return "(Z.eqb " + a + " " + b + ")", true
	case kBool:
		return "(Bool.eqb " + a + " " + b + ")", true
	case kT:
		return "(" + a + " =? " + b + ")", true
	case kV2:
		return "(((vx " + a + ") =? (vx " + b + ")) && ((vy " + a + ") =? (vy " + b + ")))", true
	case kV3:
		return "((((wx " + a + ") =? (wx " + b + ")) && ((wy " + a + ") =? (wy " + b + "))) && ((wz " + a + ") =? (wz " + b + ")))", true
	case kTup:
		out := ""
		for i, at := range t.args {
			c, ok := eqTerm(proj(a, len(t.args), i), proj(b, len(t.args), i), at)
			if !ok {
				return "", false
			}
			if out == "" {
				out = c
			} else {
				out = "(" + out + " && " + c + ")"
			}
		}
		return out, out != ""
	}
	return "", false
}

// ---------------------------------------------------------------- fields, indexing

func (f *fctx) field(n ast.Node, x val, name string) (val, error) {
	var ok bool
	var acc string
	rt := tT
	switch x.t.k {
	case kV2:
		acc, ok = map[string]string{"X": "vx", "Y": "vy"}[name]
	case kV3:
		acc, ok = map[string]string{"X": "wx", "Y": "wy", "Z": "wz"}[name]
	case kBox2:
		acc, ok = map[string]string{"Min": "b2min", "Max": "b2max"}[name]
		rt = tV2
	case kBox3:
		acc, ok = map[string]string{"Min": "b3min", "Max": "b3max"}[name]
		rt = tV3
	case kTup:
		for i, fn := range x.t.fields {
			if fn == name {
				return val{s: proj(x.s, len(x.t.args), i), t: x.t.args[i]}, nil
			}
		}
	}
	if !ok {
		return val{}, f.errf(n, "field .%s of %s", name, x.t.goName())
	}
	return val{s: "(" + acc + " " + x.s + ")", t: rt}, nil
}

// an index that is an integer constant expression (a literal, a named constant, the variable of
// an unrolled loop, arithmetic on them)
func (f *fctx) constInt(x ast.Expr, e env) (int, bool) {
	v, err := f.expr(x, e)
	if err != nil || !v.konst || v.rat == nil || !v.rat.IsInt() || !v.rat.Num().IsInt64() {
		return 0, false
	}
	if !v.untyped && v.t.k != kInt {
		return 0, false
	}
	return int(v.rat.Num().Int64()), true
}

func (f *fctx) index(x *ast.IndexExpr, e env) (val, error) {
	a, err := f.expr(x.X, e)
	if err != nil {
		return val{}, err
	}
	switch {
	case a.t.k == kTup && a.t.arr:
		i, ok := f.constInt(x.Index, e)
		if !ok || i < 0 || i >= len(a.t.args) {
			return val{}, f.errf(x, "index of a %s must be a constant in range", a.t.goName())
		}
		return val{s: proj(a.s, len(a.t.args), i), t: a.t.args[i]}, nil
	case a.t.k == kList:
		iv, err := f.expr(x.Index, e)
		if err != nil {
			return val{}, err
		}
		if iv, err = f.coerce(x, iv, tInt); err != nil {
			return val{}, err
		}
		if iv.t.k != kInt {
			return val{}, f.errf(x, "index of type %s", iv.t.goName())
		}
		if iv.konst && iv.rat != nil && a.t.n >= 0 && (iv.rat.Sign() < 0 || iv.rat.Cmp(big.NewRat(int64(a.t.n), 1)) >= 0) {
			return val{}, f.errf(x, "constant index out of range")
		}
		z, ok := a.t.args[0].zero()
		if !ok {
			return val{}, f.errf(x, "element type %s has no zero value", a.t.args[0].goName())
		}
		return val{s: fmt.Sprintf("(znth %s %s %s)", iv.s, a.s, z), t: a.t.args[0]}, nil
	}
	return val{}, f.errf(x, "index expression on %s", a.t.goName())
}

// a[lo:hi] (a[:], a[lo:], a[:hi]): the elements lo .. hi-1 as a slice.  The result shares its memory
// with a in Go: the translation is a value, so neither may be assigned afterwards (assignStmt freezes
// both names).
func (f *fctx) slice(x *ast.SliceExpr, e env) (val, error) {
	if x.Slice3 {
		return val{}, f.errf(x, "three-index slice")
	}
	a, err := f.expr(x.X, e)
	if err != nil {
		return val{}, err
	}
	var lt typ
	src := a.s
	switch {
	case a.t.k == kList:
		lt = listType(a.t.args[0], -1)
	case a.t.k == kTup && a.t.arr:
		// a small array (a tuple) as a list
		var es []string
		for i := range a.t.args {
			es = append(es, proj(a.s, len(a.t.args), i))
		}
		src = "[" + strings.Join(es, "; ") + "]"
		lt = listType(a.t.args[0], -1)
	default:
		return val{}, f.errf(x, "slice of %s", a.t.goName())
	}
	bound := func(b ast.Expr) (*val, error) {
		if b == nil {
			return nil, nil
		}
		v, err := f.expr(b, e)
		if err != nil {
			return nil, err
		}
		if v, err = f.coerce(b, v, tInt); err != nil {
			return nil, err
		}
		if v.t.k != kInt {
			return nil, f.errf(b, "slice bound of type %s", v.t.goName())
		}
		return &v, nil
	}
	lo, err := bound(x.Low)
	if err != nil {
		return val{}, err
	}
	hi, err := bound(x.High)
	if err != nil {
		return val{}, err
	}
	if lo == nil && hi == nil {
		return val{s: src, t: lt}, nil
	}
	los, his := "0%Z", "(zlen "+src+")"
	if lo != nil {
		los = lo.s
	}
	if hi != nil {
		his = hi.s
	}
	return val{s: "(zslice " + src + " " + los + " " + his + ")", t: lt}, nil
}

// ---------------------------------------------------------------- calls

func app(fn string, args []string) string {
	if len(args) == 0 {
		return fn
	}
	return "(" + fn + " " + strings.Join(args, " ") + ")"
}

func (f *fctx) args(n ast.Node, what string, want []typ, as []ast.Expr, e env) ([]string, error) {
	if len(as) != len(want) {
		return nil, f.errf(n, "%s: %d arguments, expected %d", what, len(as), len(want))
	}
	var out []string
	for i, a := range as {
		v, err := f.expr(a, e)
		if err != nil {
			return nil, err
		}
		if v, err = f.coerce(a, v, want[i]); err != nil {
			return nil, err
		}
		if !v.t.eq(want[i]) {
			return nil, f.errf(a, "%s: argument %d has type %s, expected %s", what, i+1, v.t.goName(), want[i].goName())
		}
		out = append(out, v.s)
	}
	return out, nil
}

func (f *fctx) callDef(n ast.Node, q *pkg, key string, recv *val, as []ast.Expr, e env) (val, error) {
	if c, ok := n.(*ast.CallExpr); ok && q == f.p && f.g.takesStruct(q, key) {
		// a function taking the struct parameters of its caller: inlined
		out, t, err := f.inline(c, key, e, "        ", false)
		if err != nil {
			return val{}, err
		}
		return val{s: "(\n" + out + ")", t: t}, nil
	}
	d, err := f.g.translate(q, key, nil)
	if err != nil {
		return val{}, err
	}
	if len(d.flat) != 0 {
		return val{}, f.errf(n, "call of %s.%s, which takes struct parameters", q.name, key)
	}
	if d.mutator {
		return val{}, f.errf(n, "call of %s.%s, which modifies its receiver", q.name, key)
	}
	want := d.params
	var pre []string
	if recv != nil {
		if len(want) == 0 || !recv.t.eq(want[0]) {
			return val{}, f.errf(n, "receiver of %s.%s has type %s", q.name, key, recv.t.goName())
		}
		pre, want = []string{recv.s}, want[1:]
	}
	ss, err := f.args(n, q.name+"."+key, want, as, e)
	if err != nil {
		return val{}, err
	}
	return val{s: app(d.Name, append(pre, ss...)), t: d.ret}, nil
}

// does the function have a parameter of a struct type of the translated packages?
func (g *gen) takesStruct(q *pkg, key string) bool {
	fd := q.funcs[key]
	if fd == nil || isTarget(q.name, key) {
		return false
	}
	for _, fl := range fd.Type.Params.List {
		if t, err := g.goType(q, q.fileOf[key], fl.Type); err == nil && t.k == kStruct {
			return true
		}
	}
	return false
}

// the package and type name a method of a value of type t is declared on
func (f *fctx) methodHome(t typ) (*pkg, string, bool) {
	if t.named == "" {
		return nil, "", false
	}
	i := strings.Index(t.named, ".")
	q := f.g.pkgs[t.named[:i]]
	return q, t.named[i+1:], q != nil
}

func (f *fctx) call(x *ast.CallExpr, e env) (val, error) {
	if x.Ellipsis.IsValid() {
		return val{}, f.errf(x, "variadic call")
	}
	switch fn := x.Fun.(type) {
	case *ast.Ident:
		if b, ok := e[fn.Name]; ok {
			if b.t.k != kFn {
				return val{}, f.errf(x, "call of %s, which is not a function value", fn.Name)
			}
			ss, err := f.args(x, fn.Name, b.t.args, x.Args, e)
			if err != nil {
				return val{}, err
			}
			return val{s: app(b.coq, ss), t: *b.t.ret}, nil
		}
		switch fn.Name {
		case "len":
			if len(x.Args) != 1 {
				return val{}, f.errf(x, "len")
			}
			v, err := f.expr(x.Args[0], e)
			if err != nil {
				return val{}, err
			}
			if v.t.k == kTup && v.t.arr {
				return f.coerce(x, val{untyped: true, konst: true, isInt: true, rat: ratInt(int64(len(v.t.args)))}, tInt)
			}
			if v.t.k == kList && v.t.n >= 0 {
				return f.coerce(x, val{untyped: true, konst: true, isInt: true, rat: ratInt(int64(v.t.n))}, tInt)
			}
			if v.t.k != kList {
				return val{}, f.errf(x, "len of %s", v.t.goName())
			}
			return val{s: "(zlen " + v.s + ")", t: tInt}, nil
		case "float64", "int", "uint":
			if len(x.Args) != 1 {
				return val{}, f.errf(x, "conversion")
			}
			v, err := f.expr(x.Args[0], e)
			if err != nil {
				return val{}, err
			}
			if v.untyped {
				if fn.Name == "float64" {
					return f.coerce(x, v, tT)
				}
				return f.coerce(x, v, tInt)
			}
			switch {
			case fn.Name == "float64" && v.t.k == kInt:
				return val{s: "(ofZ O " + v.s + ")", t: tT}, nil
			case fn.Name == "float64" && v.t.k == kT:
				return v, nil
			case fn.Name != "float64" && v.t.k == kInt:
				return v, nil // int <-> uint: the same integer (no wrap-around is modelled)
			case fn.Name == "int" && v.t.k == kT:
				return val{s: "(otoZ O " + v.s + ")", t: tInt}, nil
			}
			return val{}, f.errf(x, "conversion %s(%s)", fn.Name, v.t.goName())
		case "make":
			if len(x.Args) < 2 {
				return val{}, f.errf(x, "make without a length")
			}
			t, err := f.goType(x.Args[0])
			if err != nil {
				return val{}, f.errf(x, "%v", err)
			}
			if t.k != kList || t.n >= 0 {
				return val{}, f.errf(x, "make of %s", t.goName())
			}
			lv, err := f.expr(x.Args[1], e)
			if err != nil {
				return val{}, err
			}
			if lv, err = f.coerce(x, lv, tInt); err != nil {
				return val{}, err
			}
			if lv.t.k != kInt {
				return val{}, f.errf(x, "make with a length of type %s", lv.t.goName())
			}
			// the capacity (third argument) has no observable effect on the values
			if lv.konst && lv.rat != nil && lv.rat.Sign() == 0 {
				return val{s: nilOf(t), t: t}, nil
			}
			z, ok := t.args[0].zero()
			if !ok {
				return val{}, f.errf(x, "make: element type %s has no zero value", t.args[0].goName())
			}
			return val{s: fmt.Sprintf("(zrepeat %s %s)", z, lv.s), t: t}, nil
		case "append":
			if len(x.Args) < 2 {
				return val{}, f.errf(x, "append of %d values", len(x.Args)-1)
			}
			l, err := f.expr(x.Args[0], e)
			if err != nil {
				return val{}, err
			}
			if l.t.k != kList || l.t.n >= 0 {
				return val{}, f.errf(x, "append to %s", l.t.goName())
			}
			var vs []string
			for _, a := range x.Args[1:] {
				v, err := f.expr(a, e)
				if err != nil {
					return val{}, err
				}
				if v, err = f.coerce(x, v, l.t.args[0]); err != nil {
					return val{}, err
				}
				if !v.t.eq(l.t.args[0]) {
					return val{}, f.errf(x, "append of %s to %s", v.t.goName(), l.t.goName())
				}
				vs = append(vs, v.s)
			}
			return val{s: fmt.Sprintf("(%s ++ [%s])", l.s, strings.Join(vs, "; ")), t: l.t}, nil
		}
		if _, ok := f.p.funcs[fn.Name]; ok {
			return f.callDef(x, f.p, fn.Name, nil, x.Args, e)
		}
		// a conversion to a named type of this package: T(x)
		if t, err := f.g.namedType(f.p, fn.Name); err == nil && t.k != kOpaque && t.k != kStruct && len(x.Args) == 1 {
			v, err := f.expr(x.Args[0], e)
			if err != nil {
				return val{}, err
			}
			if !v.t.eq(t) {
				return val{}, f.errf(x, "conversion of %s to %s", v.t.goName(), t.goName())
			}
			v.t = t
			return v, nil
		}
		return val{}, f.errf(x, "call of unknown function %s", fn.Name)
	case *ast.SelectorExpr:
		if id, ok := fn.X.(*ast.Ident); ok {
			if ip, isPkg := f.importOf(id, e); isPkg {
				if ip == "math" {
					m, ok := mathFns[fn.Sel.Name]
					if !ok {
						return val{}, f.errf(x, "unsupported math.%s", fn.Sel.Name)
					}
					ss, err := f.args(x, "math."+fn.Sel.Name, []typ{tT, tT}[:m.n], x.Args, e)
					if err != nil {
						return val{}, err
					}
					return val{s: "(" + m.op + " O " + strings.Join(ss, " ") + ")", t: tT}, nil
				}
				if q := f.g.byPath[ip]; q != nil {
					if _, ok := q.funcs[fn.Sel.Name]; ok {
						return f.callDef(x, q, fn.Sel.Name, nil, x.Args, e)
					}
					if t, err := f.g.namedType(q, fn.Sel.Name); err == nil && t.k != kOpaque && t.k != kStruct && len(x.Args) == 1 {
						v, err := f.expr(x.Args[0], e)
						if err != nil {
							return val{}, err
						}
						if !v.t.eq(t) {
							return val{}, f.errf(x, "conversion of %s to %s", v.t.goName(), t.goName())
						}
						v.t = t
						return v, nil
					}
				}
				return val{}, f.errf(x, "call into package %s (%s)", ip, fn.Sel.Name)
			}
			// a method of a struct parameter / receiver declared opaque for this target
			if b, ok := e[id.Name]; ok && b.t.k == kStruct && b.flat {
				return f.opaqueCall(x, b, id.Name, fn.Sel.Name, e)
			}
			if b, ok := e[id.Name]; ok && b.t.k == kOpaque && b.flat {
				if fn.Sel.Name != "BoundingBox" || len(x.Args) != 0 {
					return val{}, f.errf(x, "method %s of an SDF argument (only BoundingBox() is modelled)", fn.Sel.Name)
				}
				bt := tBox3
				if b.t.named == "sdf.SDF2" {
					bt = tBox2
				}
				b.used["BoundingBox"] = bt
				b.order = appendOnce(b.order, "BoundingBox")
				return val{s: b.coq + "_BoundingBox", t: bt}, nil
			}
		}
		recv, err := f.expr(fn.X, e)
		if err != nil {
			return val{}, err
		}
		if recv, err = f.deflt(x, recv); err != nil {
			return val{}, err
		}
		q, tn, ok := f.methodHome(recv.t)
		if !ok {
			return val{}, f.errf(x, "method %s on %s", fn.Sel.Name, recv.t.goName())
		}
		return f.callDef(x, q, tn+"."+fn.Sel.Name, &recv, x.Args, e)
	}
	return val{}, f.errf(x, "unsupported call %s", exprString(x.Fun))
}

// dc.evaluate(..) where the target declares receiver method `evaluate` opaque: a function
// parameter dc_evaluate with the type of the method's signature
func (f *fctx) opaqueCall(x *ast.CallExpr, b *binding, goVar, method string, e env) (val, error) {
	i := strings.Index(b.t.named, ".")
	q, sn := f.g.pkgs[b.t.named[:i]], b.t.named[i+1:]
	if !f.opt.opaque(sn + "." + method) {
		// an ordinary method of the struct parameter: inlined (it sees the same fields and opaque methods)
		if q == f.p && q.funcs[sn+"."+method] != nil {
			out, t, err := f.inline(x, sn+"."+method, e, "        ", false)
			if err != nil {
				return val{}, err
			}
			return val{s: "(\n" + out + ")", t: t}, nil
		}
		return val{}, f.errf(x, "call of method %s.%s on a struct parameter (not declared opaque for this target)", sn, method)
	}
	fd := q.funcs[sn+"."+method]
	if fd == nil {
		return val{}, f.errf(x, "method %s.%s not found", sn, method)
	}
	sf := q.fileOf[sn+"."+method]
	var ats []typ
	for _, fl := range fd.Type.Params.List {
		t, err := f.g.goType(q, sf, fl.Type)
		if err != nil {
			return val{}, f.errf(x, "%v", err)
		}
		for range fl.Names {
			ats = append(ats, t)
		}
	}
	rt, err := f.g.resultType(q, sf, fd)
	if err != nil {
		return val{}, f.errf(x, "%s.%s: %v", sn, method, err)
	}
	name := b.coq + "_" + method
	// a struct parameter of the method is the tuple of its fields
	for j, t := range ats {
		if t.k == kStruct {
			tt, err := f.g.structTupleType(t)
			if err != nil {
				return val{}, f.errf(x, "%s.%s: %v", sn, method, err)
			}
			ats[j] = tt
		}
	}
	b.used[method] = fnType(rt, ats...)
	b.order = appendOnce(b.order, method)
	if len(x.Args) != len(ats) {
		return val{}, f.errf(x, "%s.%s: %d arguments, expected %d", sn, method, len(x.Args), len(ats))
	}
	var ss []string
	for j, a := range x.Args {
		v, err := f.structArg(a, e)
		if err != nil {
			return val{}, err
		}
		if v, err = f.coerce(a, v, ats[j]); err != nil {
			return val{}, err
		}
		if !v.t.eq(ats[j]) {
			return val{}, f.errf(a, "%s.%s: argument %d has type %s, expected %s", sn, method, j+1, v.t.goName(), ats[j].goName())
		}
		ss = append(ss, v.s)
	}
	return val{s: app(name, ss), t: rt}, nil
}

// the tuple type standing for a struct value: its fields in declaration order
func (g *gen) structTupleType(t typ) (typ, error) {
	i := strings.Index(t.named, ".")
	q, sn := g.pkgs[t.named[:i]], t.named[i+1:]
	st := q.structs[sn]
	if st == nil {
		return typ{}, fmt.Errorf("struct %s not found", t.named)
	}
	var ts []typ
	for _, fl := range st.Fields.List {
		ft, err := g.goType(q, q.fileOf[sn], fl.Type)
		if err != nil {
			return typ{}, err
		}
		if ft.k == kOpaque || ft.k == kStruct {
			return typ{}, fmt.Errorf("field of type %s in struct %s", ft.named, t.named)
		}
		for range fl.Names {
			ts = append(ts, ft)
		}
	}
	if len(ts) == 1 {
		return ts[0], nil
	}
	return tupType(ts...), nil
}

// an argument that may be a struct value: a struct parameter c (-> the tuple of all its fields),
// a literal T{a, b} / &T{a, b} of a struct of this package (-> the tuple), or an ordinary expression
func (f *fctx) structArg(a ast.Expr, e env) (val, error) {
	if u, ok := a.(*ast.UnaryExpr); ok && u.Op == token.AND {
		if cl, ok := u.X.(*ast.CompositeLit); ok {
			a = cl
		}
	}
	if id, ok := a.(*ast.Ident); ok {
		if b := e[id.Name]; b != nil && b.flat && b.t.k == kStruct {
			tt, err := f.g.structTupleType(b.t)
			if err != nil {
				return val{}, f.errf(a, "%v", err)
			}
			i := strings.Index(b.t.named, ".")
			q, sn := f.g.pkgs[b.t.named[:i]], b.t.named[i+1:]
			var vs []string
			for _, fl := range q.structs[sn].Fields.List {
				for _, fn := range fl.Names {
					v, err := f.structField(a, b, id.Name, fn.Name)
					if err != nil {
						return val{}, err
					}
					vs = append(vs, v.s)
				}
			}
			if len(vs) == 1 {
				return val{s: vs[0], t: tt}, nil
			}
			return val{s: "(" + strings.Join(vs, ", ") + ")", t: tt}, nil
		}
	}
	if cl, ok := a.(*ast.CompositeLit); ok {
		if tid, ok := cl.Type.(*ast.Ident); ok && f.p.structs[tid.Name] != nil {
			st := typ{k: kStruct, named: f.p.name + "." + tid.Name}
			tt, err := f.g.structTupleType(st)
			if err != nil {
				return val{}, f.errf(a, "%v", err)
			}
			want := []typ{tt}
			if tt.k == kTup && tt.named == "" && !tt.arr && len(tt.fields) == 0 {
				want = tt.args
			}
			if len(cl.Elts) != len(want) {
				return val{}, f.errf(a, "%s literal with %d elements", tid.Name, len(cl.Elts))
			}
			var vs []string
			for j, el := range cl.Elts {
				if _, keyed := el.(*ast.KeyValueExpr); keyed {
					return val{}, f.errf(a, "keyed %s literal as a value", tid.Name)
				}
				v, err := f.expr(el, e)
				if err != nil {
					return val{}, err
				}
				if v, err = f.coerce(el, v, want[j]); err != nil {
					return val{}, err
				}
				if !v.t.eq(want[j]) {
					return val{}, f.errf(el, "element of type %s in a %s literal", v.t.goName(), tid.Name)
				}
				vs = append(vs, v.s)
			}
			if len(vs) == 1 {
				return val{s: vs[0], t: tt}, nil
			}
			return val{s: "(" + strings.Join(vs, ", ") + ")", t: tt}, nil
		}
	}
	return f.expr(a, e)
}

func appendOnce(l []string, s string) []string {
	for _, x := range l {
		if x == s {
			return l
		}
	}
	return append(l, s)
}

// ---------------------------------------------------------------- composite literals

func (f *fctx) composite(x *ast.CompositeLit, implied *typ, e env) (val, error) {
	var t typ
	if x.Type != nil {
		var err error
		if t, err = f.goTypeIn(x.Type, e); err != nil {
			return val{}, f.errf(x, "%v", err)
		}
	} else if implied != nil {
		t = *implied
	} else {
		return val{}, f.errf(x, "composite literal without a type")
	}
	for _, el := range x.Elts {
		if _, keyed := el.(*ast.KeyValueExpr); keyed {
			return val{}, f.errf(x, "keyed %s literal", t.goName())
		}
	}
	elem := func(el ast.Expr, want typ) (string, error) {
		var v val
		var err error
		if cl, ok := el.(*ast.CompositeLit); ok && cl.Type == nil {
			v, err = f.composite(cl, &want, e)
		} else {
			v, err = f.expr(el, e)
		}
		if err != nil {
			return "", err
		}
		if v, err = f.coerce(el, v, want); err != nil {
			return "", err
		}
		if !v.t.eq(want) {
			return "", f.errf(el, "element of type %s in a %s literal", v.t.goName(), t.goName())
		}
		return v.s, nil
	}
	if len(x.Elts) == 0 {
		// T{}: the zero value
		z, ok := t.zero()
		if !ok {
			return val{}, f.errf(x, "zero value of %s", t.goName())
		}
		return val{s: z, t: t}, nil
	}
	var want []typ
	var mk string
	switch t.k {
	case kV2:
		want, mk = []typ{tT, tT}, "mkV2"
	case kV3:
		want, mk = []typ{tT, tT, tT}, "mkV3"
	case kBox2:
		want, mk = []typ{tV2, tV2}, "mkBox2"
	case kBox3:
		want, mk = []typ{tV3, tV3}, "mkBox3"
	case kTup:
		want = t.args
	case kList:
		if t.n >= 0 && len(x.Elts) != t.n {
			return val{}, f.errf(x, "%s literal with %d elements (partial literals are not modelled)", t.goName(), len(x.Elts))
		}
		var es []string
		for _, el := range x.Elts {
			s, err := elem(el, t.args[0])
			if err != nil {
				return val{}, err
			}
			es = append(es, s)
		}
		return val{s: "[" + strings.Join(es, "; ") + "]", t: t}, nil
	default:
		return val{}, f.errf(x, "composite literal of %s", t.goName())
	}
	if len(x.Elts) != len(want) {
		return val{}, f.errf(x, "%s literal with %d elements (partial literals are not modelled)", t.goName(), len(x.Elts))
	}
	var es []string
	for i, el := range x.Elts {
		s, err := elem(el, want[i])
		if err != nil {
			return val{}, err
		}
		es = append(es, s)
	}
	if mk == "" {
		return val{s: "(" + strings.Join(es, ", ") + ")", t: t}, nil
	}
	return val{s: "(" + mk + " " + strings.Join(es, " ") + ")", t: t}, nil
}

// ---------------------------------------------------------------- expressions

func (f *fctx) importOf(id *ast.Ident, e env) (string, bool) {
	if _, local := e[id.Name]; local {
		return "", false
	}
	ip, ok := f.file.imports[id.Name]
	return ip, ok
}

func isNil(x ast.Expr, e env) bool {
	id, ok := x.(*ast.Ident)
	if !ok || id.Name != "nil" {
		return false
	}
	_, shadow := e["nil"]
	return !shadow
}

func parseLit(x *ast.BasicLit) (*big.Rat, bool, bool) {
	v := strings.ReplaceAll(x.Value, "_", "")
	switch x.Kind {
	case token.INT:
		z, ok := new(big.Int).SetString(v, 0)
		if !ok {
			return nil, false, false
		}
		return new(big.Rat).SetInt(z), true, true
	case token.FLOAT:
		if strings.HasPrefix(v, "0x") || strings.HasPrefix(v, "0X") {
			return nil, false, false
		}
		r, ok := new(big.Rat).SetString(v)
		return r, false, ok
	}
	return nil, false, false
}

func (f *fctx) expr(e0 ast.Expr, e env) (val, error) {
	switch x := e0.(type) {
	case *ast.ParenExpr:
		return f.expr(x.X, e)
	case *ast.BasicLit:
		r, isInt, ok := parseLit(x)
		if !ok {
			return val{}, f.errf(x, "unsupported literal %s", x.Value)
		}
		return val{untyped: true, konst: true, rat: r, isInt: isInt}, nil
	case *ast.Ident:
		if b, ok := e[x.Name]; ok {
			if b.fields != nil || b.t.k == kStruct {
				return val{}, f.errf(x, "struct %s used as a value", x.Name)
			}
			if b.cval != nil {
				return *b.cval, nil
			}
			if b.t.k == kOpaque {
				return val{}, f.errf(x, "%s has type %s, which is not modelled", x.Name, b.t.named)
			}
			return val{s: b.coq, t: b.t}, nil
		}
		switch x.Name {
		case "true", "false":
			return val{s: x.Name, t: tBool}, nil
		}
		if _, ok := f.p.consts[x.Name]; ok {
			return f.g.constant(f.p, x.Name)
		}
		if _, ok := f.p.vars[x.Name]; ok {
			return f.g.table(f.p, x.Name)
		}
		return val{}, f.errf(x, "unknown identifier %s", x.Name)
	case *ast.SelectorExpr:
		if id, ok := x.X.(*ast.Ident); ok {
			if ip, isPkg := f.importOf(id, e); isPkg {
				if ip == "math" && x.Sel.Name == "Pi" {
					return val{s: "(opi O)", t: tT, konst: true}, nil
				}
				if ip == "math" && x.Sel.Name == "MaxFloat64" {
					return val{s: "(omaxf O)", t: tT, konst: true}, nil
				}
				if q := f.g.byPath[ip]; q != nil {
					if _, ok := q.consts[x.Sel.Name]; ok {
						return f.g.constant(q, x.Sel.Name)
					}
				}
				return val{}, f.errf(x, "unsupported %s.%s", id.Name, x.Sel.Name)
			}
			if b, ok := e[id.Name]; ok && (b.fields != nil || (b.t.k == kStruct && b.flat)) {
				return f.structField(x, b, id.Name, x.Sel.Name)
			}
		}
		v, err := f.expr(x.X, e)
		if err != nil {
			return val{}, err
		}
		return f.field(x, v, x.Sel.Name)
	case *ast.IndexExpr:
		return f.index(x, e)
	case *ast.SliceExpr:
		return f.slice(x, e)
	case *ast.StarExpr:
		return f.expr(x.X, e) // *p: a pointer is the value it points to
	case *ast.UnaryExpr:
		if x.Op == token.AND {
			// &x: the current value of x; x may not be assigned afterwards (the pointer would see it)
			id, ok := x.X.(*ast.Ident)
			if !ok {
				if cl, ok := x.X.(*ast.CompositeLit); ok {
					return f.composite(cl, nil, e)
				}
				return val{}, f.errf(x, "address of %s", exprString(x.X))
			}
			b, ok := e[id.Name]
			if !ok || b.fields != nil || b.t.k == kStruct {
				return val{}, f.errf(x, "address of %s", id.Name)
			}
			b.frozen = true
			return val{s: b.coq, t: b.t}, nil
		}
		v, err := f.expr(x.X, e)
		if err != nil {
			return val{}, err
		}
		switch {
		case x.Op == token.SUB && v.untyped:
			if v.rat.Sign() == 0 {
				return v, nil // the constant -0 is +0 in Go
			}
			v.rat = new(big.Rat).Neg(v.rat)
			return v, nil
		case x.Op == token.SUB && v.t.k == kT:
			if v.konst && v.rat == nil {
				return val{}, f.errf(x, "negation of a constant whose value is not tracked")
			}
			if v.konst && v.rat.Sign() == 0 {
				return v, nil
			}
			r := val{s: "(- " + v.s + ")", t: tT, konst: v.konst}
			if v.rat != nil {
				r.rat = new(big.Rat).Neg(v.rat)
			}
			return r, nil
		case x.Op == token.SUB && v.t.k == kInt:
			return val{s: "(Z.opp " + v.s + ")", t: tInt}, nil
		case x.Op == token.ADD && (v.untyped || v.t.k == kT || v.t.k == kInt):
			return v, nil
		case x.Op == token.NOT && v.t.k == kBool:
			return val{s: "(negb " + v.s + ")", t: tBool}, nil
		}
		return val{}, f.errf(x, "unsupported unary %s on %s", x.Op, v.t.goName())
	case *ast.BinaryExpr:
		a, err := f.expr(x.X, e)
		if err != nil {
			return val{}, err
		}
		b, err := f.expr(x.Y, e)
		if err != nil {
			return val{}, err
		}
		return f.binary(x, x.Op, a, b)
	case *ast.CompositeLit:
		return f.composite(x, nil, e)
	case *ast.CallExpr:
		return f.call(x, e)
	}
	return val{}, f.errf(e0, "unsupported expression %T", e0)
}
