package rendergen

import (
	"fmt"
	"go/ast"
	"go/token"
	"math/big"
	"sort"
	"strings"

	"verifharness/kit"
)

// ---------------------------------------------------------------- targets

// Target is one Go function the tie is claimed for.  Key is "Func" or "Recv.Method".
type Target struct {
	Pkg, Key string
	// receiver / struct-parameter methods abstracted as function parameters ("dcache3.evaluate");
	// they become parameters of the translation in THIS order (not in order of first use)
	Opaque []string
	// fields of a struct literal of this package that are not modelled (maps, mutexes, the SDF)
	SkipFields map[string]bool
	// prefix target: translate the statements before the first one calling Upto and yield the
	// values of the Go expressions Yield there (the rest of the function is not tied)
	Upto  string
	Yield []string
	// the same by position instead of by the names of locals (a local may be renamed at will):
	// YieldArgs = these arguments of the call of Upto; YieldRet = these results of the function's
	// return statements (which must all return the same expressions there)
	YieldArgs []int
	YieldRet  []int
	// trace target: a function without a result whose effects are calls of itself and outputs.
	// The translation is the list of events (RgLib.rg_ev) in execution order; everything else in
	// the body must be pure.  Helpers of the same package that have no result are inlined.
	Trace *TraceSpec
}

// TraceSpec names the sinks of a trace target semantically (not by the spelling of the call):
// Self is the key of the target ("dcache3.processCube": a call of that method on a value of the
// receiver's type, whatever it is called); Out lists "pkg.Interface.Method" called on a parameter
// of that interface type.
type TraceSpec struct {
	Self string
	Out  map[string]bool
}

func (t *Target) opaque(key string) bool {
	if t == nil {
		return false
	}
	for _, k := range t.Opaque {
		if k == key {
			return true
		}
	}
	return false
}

// position of an opaque method among the parameters ("evaluate" of struct "dcache3")
func (t *Target) opaqueRank(sn, method string) int {
	if t != nil {
		for i, k := range t.Opaque {
			if k == sn+"."+method {
				return i
			}
		}
	}
	return 1 << 20
}

func set(ss ...string) map[string]bool {
	m := map[string]bool{}
	for _, s := range ss {
		m[s] = true
	}
	return m
}

// Targets lists every function translated (callees are pulled in on demand).
func Targets() []Target {
	return []Target{
		// render/march3.go
		{Pkg: "render", Key: "mcInterpolate"},
		{Pkg: "render", Key: "mcToTriangles"},
		{Pkg: "render", Key: "layerYZ.Get"},
		{Pkg: "render", Key: "marchingCubes", Upto: "newLayerYZ", YieldArgs: []int{0, 1, 2}},
		{Pkg: "render", Key: "MarchingCubesUniform.Render", Upto: "marchingCubes", YieldArgs: []int{1, 2}},
		// render/march2.go
		{Pkg: "render", Key: "msInterpolate"},
		{Pkg: "render", Key: "msToLines"},
		// render/march3x.go, render/march2x.go
		{Pkg: "render", Key: "dcache3.isEmpty", Opaque: []string{"dcache3.evaluate"}},
		{Pkg: "render", Key: "dcache2.isEmpty", Opaque: []string{"dcache2.evaluate"}},
		{Pkg: "render", Key: "newDcache3", SkipFields: set("s", "cache", "lock")},
		{Pkg: "render", Key: "newDcache2", SkipFields: set("s", "cache", "lock")},
		{Pkg: "render", Key: "dcache3.processCube", Opaque: []string{"dcache3.isEmpty", "dcache3.evaluate"},
			Trace: &TraceSpec{Self: "dcache3.processCube", Out: set("sdf.Triangle3Writer.Write")}},
		{Pkg: "render", Key: "dcache2.processSquare", Opaque: []string{"dcache2.isEmpty", "dcache2.evaluate"},
			Trace: &TraceSpec{Self: "dcache2.processSquare", Out: set("sdf.Line2Writer.Write")}},
		{Pkg: "render", Key: "dcache3.evaluate", Upto: "dcache3.read", YieldRet: []int{0}},
		{Pkg: "render", Key: "dcache2.evaluate", Upto: "dcache2.read", YieldRet: []int{0}},
		// render/delaunay.go
		{Pkg: "render", Key: "TriangleIByIndex.Less"},
		{Pkg: "render", Key: "TriangleI.Canonical"},
		{Pkg: "render", Key: "superTriangle"},
		// sdf
		{Pkg: "sdf", Key: "Triangle3.Degenerate"},
		{Pkg: "sdf", Key: "Triangle3.Normal"},
		{Pkg: "sdf", Key: "Line2.Degenerate"},
		{Pkg: "sdf", Key: "Triangle2.Circumcenter"},
		{Pkg: "sdf", Key: "Triangle2.InCircumcircle"},
	}
}

// ---------------------------------------------------------------- generator state

// Def is one generated Gallina definition.
type Def struct {
	Pkg, Key string
	Name     string
	Pos      string
	Params   []Param
	Ret      string
	Prefix   bool // a prefix target (values before the first call of Upto)
	text     string
	ret      typ
	params   []typ
	flat     []string // struct parameters that were flattened
	mutator  bool
	konst    *val // a constant: its value
	helper   bool // a function of package render that is not a target (Hint Unfold ... : rg_helpers)
}

type Param struct{ Name, Type string }

type gen struct {
	fset    *token.FileSet
	pkgs    map[string]*pkg
	byPath  map[string]*pkg
	defs    map[string]*Def
	iconsts map[string]val // integer constants (used by value, no definition)
	busy    map[string]bool
	order   []*Def
}

func isTarget(p, key string) bool {
	for _, t := range Targets() {
		if t.Pkg == p && t.Key == key {
			return true
		}
	}
	return false
}

func defName(p, key string) string { return "rg_" + p + "_" + strings.ReplaceAll(key, ".", "_") }

func ratOne() *big.Rat { return big.NewRat(1, 1) }

func binders(ps []Param) string {
	var ss []string
	for _, p := range ps {
		ss = append(ss, fmt.Sprintf("(%s : %s)", p.Name, p.Type))
	}
	return strings.Join(ss, " ")
}

// ---------------------------------------------------------------- constants and tables

func (g *gen) constant(p *pkg, name string) (val, error) {
	id := p.name + "." + name
	if d, ok := g.defs[id]; ok {
		return *d.konst, nil
	}
	if v, ok := g.iconsts[id]; ok {
		return v, nil
	}
	ex := p.consts[name]
	if ex == nil {
		return val{}, fmt.Errorf("rendergen: constant %s has no value expression", id)
	}
	if g.busy[id] {
		return val{}, fmt.Errorf("rendergen: constant %s is defined in terms of itself", id)
	}
	g.busy[id] = true
	defer delete(g.busy, id)
	f := &fctx{g: g, p: p, file: p.fileOf[name], key: name}
	v, err := f.expr(ex, env{})
	if err != nil {
		return val{}, err
	}
	if v.untyped && v.isInt {
		g.iconsts[id] = v
		return v, nil // an integer constant is used by value
	}
	if v, err = f.coerce(ex, v, tT); err != nil {
		return val{}, err
	}
	if v.t.k != kT || !v.konst {
		return val{}, fmt.Errorf("rendergen: constant %s is not a numeric constant", id)
	}
	pos := g.fset.Position(ex.Pos())
	d := &Def{Pkg: p.name, Key: name, Name: defName(p.name, name), Pos: fmt.Sprintf("%s:%d", f.file.rel, pos.Line), Ret: "T O", ret: tT}
	d.text = fmt.Sprintf("  (* %s: const %s *)\n  Definition %s : T O := %s.\n", d.Pos, name, d.Name, v.s)
	// the definition documents the constant; uses carry its VALUE (so that a named constant and the
	// same literal written in place translate to the same term)
	kv := val{s: v.s, t: tT, konst: true, rat: v.rat}
	d.konst = &kv
	g.defs[id] = d
	g.order = append(g.order, d)
	return kv, nil
}

// a package-level `var name = [n]T{..}`: translated as data; no statement of the package may
// assign it (then it is a constant of the program)
func (g *gen) table(p *pkg, name string) (val, error) {
	id := p.name + "." + name
	if d, ok := g.defs[id]; ok {
		return val{s: d.Name, t: d.ret}, nil
	}
	vs := p.vars[name]
	f := &fctx{g: g, p: p, file: p.fileOf[name], key: name}
	cl, ok := vs.Values[0].(*ast.CompositeLit)
	if !ok {
		return val{}, f.errf(vs, "package variable %s is not initialised by a composite literal", name)
	}
	if where := p.mutated(g.fset, name); where != "" {
		return val{}, f.errf(vs, "package variable %s is assigned at %s: not a constant table", name, where)
	}
	v, err := f.composite(cl, nil, env{})
	if err != nil {
		return val{}, err
	}
	if v.t.k != kList && v.t.k != kTup {
		return val{}, f.errf(vs, "package variable %s of type %s", name, v.t.goName())
	}
	pos := g.fset.Position(vs.Pos())
	d := &Def{Pkg: p.name, Key: name, Name: defName(p.name, name), Pos: fmt.Sprintf("%s:%d", f.file.rel, pos.Line), Ret: v.t.coq(), ret: v.t}
	txt := strings.ReplaceAll(v.s, "]; [", "];\n    [")
	txt = wrapList(txt)
	d.text = fmt.Sprintf("  (* %s: var %s (never assigned) *)\n  Definition %s : %s :=\n    %s.\n", d.Pos, name, d.Name, d.Ret, txt)
	g.defs[id] = d
	g.order = append(g.order, d)
	return val{s: d.Name, t: v.t}, nil
}

// break a long flat list into lines
func wrapList(s string) string {
	if len(s) < 120 || strings.Contains(s, "\n") {
		return s
	}
	parts := strings.Split(s, "; ")
	var b strings.Builder
	line := 0
	for i, p := range parts {
		if i > 0 {
			b.WriteString(";")
			if line > 100 {
				b.WriteString("\n     ")
				line = 0
			} else {
				b.WriteString(" ")
			}
		}
		b.WriteString(p)
		line += len(p) + 2
	}
	return b.String()
}

// ---------------------------------------------------------------- functions

func (g *gen) resultType(p *pkg, sf *srcFile, fd *ast.FuncDecl) (typ, error) {
	if fd.Type.Results == nil || len(fd.Type.Results.List) == 0 {
		return tUnit, nil
	}
	var ts []typ
	for _, r := range fd.Type.Results.List {
		t, err := g.goType(p, sf, r.Type)
		if err != nil {
			return typ{}, err
		}
		n := len(r.Names)
		if n == 0 {
			n = 1
		}
		for i := 0; i < n; i++ {
			ts = append(ts, t)
		}
	}
	if len(ts) == 2 && ts[1].k == kOpaque && ts[1].named == "error" {
		if ts[0].k == kOpaque {
			return typ{}, fmt.Errorf("result type %s", ts[0].named)
		}
		return optType(ts[0]), nil
	}
	for _, t := range ts {
		if t.k == kOpaque {
			return typ{}, fmt.Errorf("result type %s", t.named)
		}
	}
	if len(ts) == 1 {
		return ts[0], nil
	}
	return tupType(ts...), nil
}

// does the body assign (an element of) the variable name?
func assignsTo(body *ast.BlockStmt, name string) bool {
	hit := false
	ast.Inspect(body, func(n ast.Node) bool {
		switch x := n.(type) {
		case *ast.AssignStmt:
			if x.Tok != token.DEFINE {
				for _, l := range x.Lhs {
					if k, ok := lhsKey(l); ok && strings.SplitN(k, ".", 2)[0] == name {
						hit = true
					}
				}
			}
		case *ast.IncDecStmt:
			if k, ok := lhsKey(x.X); ok && strings.SplitN(k, ".", 2)[0] == name {
				hit = true
			}
		}
		return true
	})
	return hit
}

func (g *gen) translate(p *pkg, key string, opt *Target) (*Def, error) {
	id := p.name + "." + key
	if d, ok := g.defs[id]; ok {
		if d.Prefix && opt == nil {
			return nil, fmt.Errorf("rendergen: call of %s, which is translated as a prefix only", id)
		}
		return d, nil
	}
	if opt == nil {
		for _, t := range Targets() {
			if t.Pkg == p.name && t.Key == key {
				tt := t
				opt = &tt
			}
		}
		if opt != nil && opt.Upto != "" {
			return nil, fmt.Errorf("rendergen: call of %s, which is translated as a prefix only", id)
		}
	}
	fd := p.funcs[key]
	if fd == nil {
		return nil, fmt.Errorf("rendergen: function %s not found in the source", id)
	}
	if g.busy[id] {
		return nil, fmt.Errorf("rendergen: %s is recursive", id)
	}
	g.busy[id] = true
	defer delete(g.busy, id)
	f := &fctx{g: g, p: p, file: p.fileOf[key], key: key, opt: opt, ev: &evTypes{}}
	if fd.Body == nil {
		return nil, f.errf(fd, "no body")
	}
	if fd.Type.TypeParams != nil {
		return nil, f.errf(fd, "generic function")
	}
	e := env{}
	type slot struct {
		goName string
		b      *binding
	}
	var slots []slot
	var ptypes []typ
	var flat []string
	bind := func(n ast.Node, name string, t typ, tx ast.Expr, recv bool) error {
		_, isPtr := tx.(*ast.StarExpr)
		if name == "_" {
			if t.k != kOpaque {
				return f.errf(n, "unnamed parameter")
			}
			return nil
		}
		switch t.k {
		case kStruct:
			b := f.newBinding(e, name, t)
			b.flat, b.used = true, map[string]typ{}
			slots = append(slots, slot{name, b})
			flat = append(flat, name)
		case kOpaque:
			if t.named == "sdf.SDF2" || t.named == "sdf.SDF3" {
				// an SDF argument: only its BoundingBox() may be used; it becomes the parameter <name>_BoundingBox
				b := f.newBinding(e, name, t)
				b.flat, b.used = true, map[string]typ{}
				slots = append(slots, slot{name, b})
				flat = append(flat, name)
			} else {
				f.newBinding(e, name, t).coq = "?"
			}
		case kUnit, kOpt:
			return f.errf(n, "parameter %s of type %s", name, t.goName())
		default:
			// a caller would see what the function writes through a pointer / into a slice
			if !recv && (isPtr || t.k == kList && t.n < 0) && writesThrough(fd.Body, name) {
				return f.errf(n, "the function writes through its parameter %s", name)
			}
			b := f.newBinding(e, name, t)
			b.ptr = isPtr
			slots = append(slots, slot{name, b})
			ptypes = append(ptypes, t)
		}
		return nil
	}
	rt, err := g.resultType(p, f.file, fd)
	if err != nil {
		return nil, f.errf(fd, "%v", err)
	}
	mutator := false
	if fd.Recv != nil {
		rn, ptr := recvTypeName(fd)
		t, err := g.namedType(p, rn)
		if err != nil {
			return nil, f.errf(fd, "%v", err)
		}
		names := fd.Recv.List[0].Names
		if len(names) != 1 {
			return nil, f.errf(fd, "unnamed receiver")
		}
		if err := bind(fd, names[0].Name, t, fd.Recv.List[0].Type, true); err != nil {
			return nil, err
		}
		if assignsTo(fd.Body, names[0].Name) {
			if !ptr || t.k == kStruct || t.k == kOpaque || rt.k != kUnit {
				return nil, f.errf(fd, "method assigning its receiver (only pointer receivers of array type without a result are modelled)")
			}
			mutator, f.recv, rt = true, names[0].Name, t
		}
	}
	for _, fl := range fd.Type.Params.List {
		t, err := f.goType(fl.Type)
		if err != nil {
			return nil, f.errf(fl, "%v", err)
		}
		if len(fl.Names) == 0 {
			return nil, f.errf(fl, "unnamed parameter")
		}
		for _, nm := range fl.Names {
			if err := bind(fl, nm.Name, t, fl.Type, false); err != nil {
				return nil, err
			}
		}
	}
	prefix := opt != nil && opt.Upto != ""
	f.trace = opt != nil && opt.Trace != nil
	if f.trace && rt.k != kUnit {
		return nil, f.errf(fd, "trace target with a result")
	}
	if rt.k == kUnit && !prefix && !f.trace {
		return nil, f.errf(fd, "function without a result")
	}
	f.ret = rt
	// named results: local variables holding the zero value
	var pre string
	if fd.Type.Results != nil {
		for _, r := range fd.Type.Results.List {
			for _, nm := range r.Names {
				t, _ := f.goType(r.Type)
				z, ok := t.zero()
				if !ok {
					continue
				}
				b := f.newBinding(e, nm.Name, t)
				f.named = append(f.named, nm.Name)
				pre += "    let " + b.coq + " := " + z + " in\n"
			}
		}
	}
	body, err := f.stmts(fd.Body.List, e, nil, "    ")
	if err != nil {
		return nil, err
	}
	if prefix && !f.cut {
		return nil, f.errf(fd, "no call of %s at the top level of the function (prefix target)", opt.Upto)
	}
	rt = f.ret
	if f.trace {
		for k := 0; k < 2; k++ {
			if !f.ev.set[k] {
				f.ev.t[k] = tUnit
			}
		}
		rt = listType(typ{k: kEvent, args: []typ{f.ev.t[0], f.ev.t[1]}}, -1)
	}
	if rt.k == kStruct || rt.k == kOpaque || rt.k == kUnit {
		return nil, f.errf(fd, "result type %s", rt.goName())
	}
	// parameters: a struct parameter is replaced by the fields (declaration order) and opaque methods
	// (the order the target lists them in) it uses
	var params []Param
	for _, s := range slots {
		if s.b.t.k == kStruct {
			sn := s.b.t.named[strings.Index(s.b.t.named, ".")+1:]
			sort.SliceStable(s.b.order, func(i, j int) bool {
				return opt.opaqueRank(sn, s.b.order[i]) < opt.opaqueRank(sn, s.b.order[j])
			})
		}
		if !s.b.flat {
			params = append(params, Param{s.b.coq, s.b.t.coq()})
			continue
		}
		i := strings.Index(s.b.t.named, ".")
		q, sn := g.pkgs[s.b.t.named[:i]], s.b.t.named[i+1:]
		if s.b.t.k == kOpaque {
			for _, m := range s.b.order {
				params = append(params, Param{s.b.coq + "_" + m, s.b.used[m].coq()})
			}
			continue
		}
		for _, fl := range q.structs[sn].Fields.List {
			for _, n := range fl.Names {
				if t, ok := s.b.used[n.Name]; ok {
					params = append(params, Param{s.b.coq + "_" + n.Name, t.coq()})
				}
			}
		}
		for _, m := range s.b.order {
			params = append(params, Param{s.b.coq + "_" + m, s.b.used[m].coq()})
		}
	}
	seen := map[string]bool{}
	for _, q := range params {
		if seen[q.Name] {
			return nil, f.errf(fd, "two parameters map to the Gallina name %s", q.Name)
		}
		seen[q.Name] = true
	}
	pos := g.fset.Position(fd.Pos())
	d := &Def{Pkg: p.name, Key: key, Name: defName(p.name, key), Pos: fmt.Sprintf("%s:%d", f.file.rel, pos.Line),
		Params: params, Ret: rt.coq(), ret: rt, params: ptypes, flat: flat, mutator: mutator, Prefix: prefix}
	d.helper = p.name == "render" && !isTarget(p.name, key)
	goSig := "func " + key
	if fd.Recv != nil {
		rn, ptr := recvTypeName(fd)
		star := ""
		if ptr {
			star = "*"
		}
		goSig = fmt.Sprintf("func (%s %s%s) %s", fd.Recv.List[0].Names[0].Name, star, rn, fd.Name.Name)
	}
	note := ""
	if prefix {
		what := strings.Join(opt.Yield, ", ")
		if len(opt.YieldArgs) != 0 {
			what = fmt.Sprintf("arguments %v of that call", opt.YieldArgs)
		}
		if len(opt.YieldRet) != 0 {
			what = fmt.Sprintf("results %v of the function", opt.YieldRet)
		}
		note = fmt.Sprintf("; the values of (%s) before the first call of %s", what, opt.Upto)
	}
	if mutator {
		note = "; the receiver after the call"
	}
	if f.trace {
		note = "; the calls of itself (RgCall arguments) and outputs (RgOut value) it makes, in order"
	}
	b := binders(params)
	if b != "" {
		b = " " + b
	}
	d.text = fmt.Sprintf("  (* %s: %s%s *)\n  Definition %s%s : %s :=\n%s%s.\n", d.Pos, goSig, note, d.Name, b, d.Ret, pre, body)
	g.defs[id] = d
	g.order = append(g.order, d)
	return d, nil
}

// ---------------------------------------------------------------- entry points

// Result of one translation run.
type Result struct {
	Defs []*Def
	Text []byte
}

// Translate runs the translator on the source tree at repo.
func Translate(repo string) (*Result, error) {
	g := &gen{fset: token.NewFileSet(), pkgs: map[string]*pkg{}, byPath: map[string]*pkg{}, defs: map[string]*Def{}, iconsts: map[string]val{}, busy: map[string]bool{}}
	for _, s := range []struct{ name, dir string }{
		{"v2", "vec/v2"}, {"v3", "vec/v3"}, {"v2i", "vec/v2i"}, {"v3i", "vec/v3i"}, {"conv", "vec/conv"},
		{"sdf", "sdf"}, {"render", "render"},
	} {
		p, err := loadPkg(g.fset, repo, s.name, modPath+s.dir, s.dir)
		if err != nil {
			return nil, fmt.Errorf("rendergen: %v", err)
		}
		g.pkgs[s.name], g.byPath[modPath+s.dir] = p, p
	}
	for _, t := range Targets() {
		tt := t
		if _, err := g.translate(g.pkgs[t.Pkg], t.Key, &tt); err != nil {
			return nil, err
		}
	}
	var b strings.Builder
	b.WriteString("(* GENERATED by harness/rendergen from render/*.go, sdf/{triangle2,triangle3,line,box2,box3,utils}.go,\n")
	b.WriteString("   vec/{v2,v3,v2i,v3i,conv}/*.go of the current source tree - do not edit.\n")
	b.WriteString("   One definition per Go function, one `let` per Go statement.  int/uint are Z; arrays of up to 3\n")
	b.WriteString("   elements are tuples, longer arrays and slices are lists (znth / zupd / zlen); package-level tables\n")
	b.WriteString("   are data; loops are zfor / fold_left over the variables the body assigns (Render/RgLib.v); a\n")
	b.WriteString("   struct parameter x is the parameters x_f for the fields f it reads; (T, error) is option T.\n")
	b.WriteString("   Render/GenEqRender.v proves these equal to the hand-written model. *)\n")
	b.WriteString("From Coq Require Import ZArith List Bool.\nFrom Sdfx Require Import Num.Ops Geo.Vec Geo.Box Render.RgLib.\n")
	b.WriteString("Import OpsNotations ListNotations.\nLocal Open Scope ops_scope.\n\nSection RenderExpr.\n  Context {O : Ops}.\n\n")
	for _, d := range g.order {
		b.WriteString(d.text)
		b.WriteString("\n")
	}
	b.WriteString("End RenderExpr.\n\n")
	// functions of package render that are not targets (helpers a maintainer may introduce or remove at
	// will): the equality proofs unfold them wherever they look at the shape of a term
	b.WriteString("Create HintDb rg_helpers.\n")
	for _, d := range g.order {
		if d.helper {
			b.WriteString("#[export] Hint Unfold " + d.Name + " : rg_helpers.\n")
		}
	}
	return &Result{Defs: g.order, Text: []byte(b.String())}, nil
}

// Names lists "pkg.Key -> Gallina name" of everything translated, sorted.
func (r *Result) Names() []string {
	var ss []string
	for _, d := range r.Defs {
		ss = append(ss, d.Pkg+"."+d.Key+" -> "+d.Name)
	}
	sort.Strings(ss)
	return ss
}

// Gen is the kit.GenFn producing coq/Generated/RenderExpr.v.
func Gen(c *kit.Ctx) (string, []byte, error) {
	r, err := Translate(c.Repo)
	if err != nil {
		return "", nil, err
	}
	return "RenderExpr.v", r.Text, nil
}
