package rendergen

import (
	"fmt"
	"go/ast"
	"go/token"
	"strings"
)

// ---------------------------------------------------------------- trace targets

// the callee of a call statement: a function or method of this package
func (f *fctx) calleeOf(c *ast.CallExpr, e env) (key string, recv *ast.Ident) {
	switch fn := c.Fun.(type) {
	case *ast.Ident:
		if _, local := e[fn.Name]; local {
			return "", nil
		}
		if _, ok := f.p.funcs[fn.Name]; ok {
			return fn.Name, nil
		}
	case *ast.SelectorExpr:
		id, ok := fn.X.(*ast.Ident)
		if !ok {
			return "", nil
		}
		b := e[id.Name]
		if b == nil || b.t.k != kStruct || !strings.HasPrefix(b.t.named, f.p.name+".") {
			return "", nil
		}
		k := strings.TrimPrefix(b.t.named, f.p.name+".") + "." + fn.Sel.Name
		if _, ok := f.p.funcs[k]; ok {
			return k, id
		}
	}
	return "", nil
}

// the sink a call statement feeds: 0 = a call of the traced function itself, 1 = an output
// (a method listed in Trace.Out called on a parameter of an interface type)
func (f *fctx) sinkOf(st ast.Stmt, e env) (*ast.CallExpr, int, bool) {
	es, ok := st.(*ast.ExprStmt)
	if !ok || f.opt == nil || f.opt.Trace == nil {
		return nil, 0, false
	}
	c, ok := es.X.(*ast.CallExpr)
	if !ok {
		return nil, 0, false
	}
	if key, _ := f.calleeOf(c, e); key != "" && key == f.opt.Trace.Self {
		return c, 0, true
	}
	if sel, ok := c.Fun.(*ast.SelectorExpr); ok {
		if id, ok := sel.X.(*ast.Ident); ok {
			if b := e[id.Name]; b != nil && b.t.k == kOpaque && !b.flat && f.opt.Trace.Out[b.t.named+"."+sel.Sel.Name] {
				return c, 1, true
			}
		}
	}
	return nil, 0, false
}

// a call statement of another function of this package that has no result: a helper whose events
// are part of this activation (it is inlined)
func (f *fctx) helperOf(st ast.Stmt, e env) (*ast.CallExpr, string, bool) {
	es, ok := st.(*ast.ExprStmt)
	if !ok || f.opt == nil || f.opt.Trace == nil {
		return nil, "", false
	}
	c, ok := es.X.(*ast.CallExpr)
	if !ok {
		return nil, "", false
	}
	key, _ := f.calleeOf(c, e)
	if key == "" || key == f.opt.Trace.Self {
		return nil, "", false
	}
	fd := f.p.funcs[key]
	if fd.Type.Results != nil && len(fd.Type.Results.List) != 0 {
		return nil, "", false
	}
	return c, key, true
}

func (f *fctx) hasEffect(list []ast.Stmt, e env) bool {
	found := false
	for _, s := range list {
		ast.Inspect(s, func(n ast.Node) bool {
			if st, ok := n.(ast.Stmt); ok {
				if _, _, is := f.sinkOf(st, e); is {
					found = true
				}
				if _, _, is := f.helperOf(st, e); is {
					found = true
				}
			}
			return true
		})
	}
	return found
}

// traceStmt handles, where the events of a trace target are collected: a sink call (one event), a
// call of a helper (its events), an if statement or a loop whose body contains such calls, a bare return
func (f *fctx) traceStmt(st ast.Stmt, rest []ast.Stmt, e env, k *cont, ind string) (string, bool, error) {
	if c, kind, ok := f.sinkOf(st, e); ok {
		// the payload: the arguments the translator models (writers, the SDF are left out)
		var vs []string
		var ts []typ
		for _, a := range c.Args {
			if id, isId := a.(*ast.Ident); isId {
				if b := e[id.Name]; b != nil && b.t.k == kOpaque {
					continue
				}
			}
			v, err := f.structArg(a, e)
			if err != nil {
				return "", true, err
			}
			if v, err = f.deflt(a, v); err != nil {
				return "", true, err
			}
			vs, ts = append(vs, v.s), append(ts, v.t)
		}
		if len(vs) == 0 {
			return "", true, f.errf(st, "traced call without a modelled argument")
		}
		pv, pt := vs[0], ts[0]
		if len(vs) > 1 {
			pv, pt = "("+strings.Join(vs, ", ")+")", tupType(ts...)
		}
		if f.ev.set[kind] && !f.ev.t[kind].eq(pt) {
			return "", true, f.errf(st, "traced calls with payloads of different types")
		}
		f.ev.t[kind], f.ev.set[kind] = pt, true
		r, err := f.stmts(rest, e, k, ind)
		if err != nil {
			return "", true, err
		}
		ctor := []string{"RgCall", "RgOut"}[kind]
		return ind + "((" + ctor + " " + pv + ") ::\n" + r + ")", true, nil
	}
	if c, key, ok := f.helperOf(st, e); ok {
		h, err := f.inlineTrace(c, key, e, ind+"  ")
		if err != nil {
			return "", true, err
		}
		r, err := f.stmts(rest, e, k, ind+"  ")
		if err != nil {
			return "", true, err
		}
		return ind + "((\n" + h + ") ++\n" + r + ")", true, nil
	}
	switch s := st.(type) {
	case *ast.ReturnStmt:
		if len(s.Results) == 0 && k == nil {
			if !onlyMarkers(f, rest) {
				return "", true, f.errf(rest[0], "statement after return")
			}
			return ind + "[]", true, nil
		}
	case *ast.IfStmt:
		thenL, elseL := s.Body.List, stmtList(s.Else)
		if s.Init != nil || !f.hasEffect(thenL, e) && !f.hasEffect(elseL, e) {
			return "", false, nil
		}
		if terminates(thenL) || terminates(elseL) || containsExit(thenL) || containsExit(elseL) {
			return "", false, nil // early exits: the rest is the other branch (ifStmt)
		}
		var vars []string
		if err := f.assignedOuter(thenL, e, nil, &vars); err != nil {
			return "", true, err
		}
		if err := f.assignedOuter(elseL, e, nil, &vars); err != nil {
			return "", true, err
		}
		if len(vars) != 0 {
			return "", true, f.errf(s, "a branch with traced calls assigns %s", strings.Join(vars, ", "))
		}
		c, err := f.expr(s.Cond, e)
		if err != nil {
			return "", true, err
		}
		if c.t.k != kBool {
			return "", true, f.errf(s, "condition is not boolean")
		}
		kk := &cont{trace: true}
		a, err := f.stmts(thenL, e.clone(), kk, ind+"    ")
		if err != nil {
			return "", true, err
		}
		b, err := f.stmts(elseL, e.clone(), kk, ind+"    ")
		if err != nil {
			return "", true, err
		}
		r, err := f.stmts(rest, e, k, ind+"  ")
		if err != nil {
			return "", true, err
		}
		return ind + "((if " + c.s + " then (\n" + a + ")\n" + ind + "  else (\n" + b + ")) ++\n" + r + ")", true, nil
	case *ast.ForStmt, *ast.RangeStmt:
		var body []ast.Stmt
		if fs, ok := s.(*ast.ForStmt); ok {
			body = fs.Body.List
		} else {
			body = s.(*ast.RangeStmt).Body.List
		}
		if !f.hasEffect(body, e) {
			return "", false, nil
		}
		h, err := f.loopHeader(st, e)
		if err != nil {
			return "", true, err
		}
		if h.head == "" {
			return "", false, nil // a small array: unrolled by loop()
		}
		var vars []string
		if err := f.assignedOuter(h.body, h.inner, nil, &vars); err != nil {
			return "", true, err
		}
		if len(vars) != 0 {
			return "", true, f.errf(st, "a loop with traced calls assigns %s", strings.Join(vars, ", "))
		}
		f.tloop++
		b, err := f.stmts(h.body, h.inner, &cont{trace: true, loop: true}, ind+"      ")
		f.tloop--
		if err != nil {
			return "", true, err
		}
		r, err := f.stmts(rest, e, k, ind+"  ")
		if err != nil {
			return "", true, err
		}
		over := h.over
		if over == "" {
			over = "(zrange " + strings.TrimPrefix(h.head, "zfor ") + ")"
		}
		pre := ""
		if h.pre != "" {
			pre = ind + "      " + h.pre
		}
		loop := "(flat_map (fun " + h.iter + " =>\n" + pre + b + ") " + over + ")"
		if h.setup != "" {
			loop = "(" + h.setup + ind + "    " + loop + ")"
		}
		return ind + "(" + loop + " ++\n" + r + ")", true, nil
	}
	return "", false, nil
}

// inlineTrace translates the call c of the helper key (a function of this package without a result) as
// the list of events its body makes: the parameters are bound to the arguments (struct parameters and
// writers are the caller's), the body is translated like the body of the trace target itself.
func (f *fctx) inlineTrace(c *ast.CallExpr, key string, e env, ind string) (string, error) {
	s, _, err := f.inline(c, key, e, ind, true)
	return s, err
}

// inline: the same for any function of this package; a function with a result (trace = false) gives
// the value it returns
func (f *fctx) inline(c *ast.CallExpr, key string, e env, ind string, trace bool) (string, typ, error) {
	out, t, err := f.inline0(c, key, e, ind, trace)
	if err != nil {
		return "", typ{}, err
	}
	return out, t, nil
}

func (f *fctx) inline0(c *ast.CallExpr, key string, e env, ind string, trace bool) (string, typ, error) {
	sh := f.share()
	if sh.inlining[key] || len(sh.inlining) > 16 {
		return "", typ{}, f.errf(c, "helper %s calls itself", key)
	}
	fd := f.p.funcs[key]
	if fd.Body == nil || fd.Type.TypeParams != nil {
		return "", typ{}, f.errf(c, "helper %s: no body / generic", key)
	}
	if c.Ellipsis.IsValid() {
		return "", typ{}, f.errf(c, "variadic call")
	}
	f2 := &fctx{g: f.g, p: f.p, file: f.p.fileOf[key], key: key, opt: f.opt, trace: trace, ev: f.ev, sh: sh, ret: tUnit}
	if !trace {
		rt, err := f.g.resultType(f.p, f2.file, fd)
		if err != nil {
			return "", typ{}, f.errf(c, "helper %s: %v", key, err)
		}
		if rt.k == kUnit || rt.k == kStruct || rt.k == kOpaque {
			return "", typ{}, f.errf(c, "helper %s: result type %s", key, rt.goName())
		}
		if fd.Type.Results != nil {
			for _, r := range fd.Type.Results.List {
				if len(r.Names) != 0 {
					return "", typ{}, f.errf(c, "helper %s: named results", key)
				}
			}
		}
		if fd.Recv != nil && assignsTo(fd.Body, fd.Recv.List[0].Names[0].Name) {
			return "", typ{}, f.errf(c, "helper %s assigns its receiver", key)
		}
		f2.ret = rt
	}
	e2 := env{}
	var lets string
	// parameters in order, the receiver first
	type parm struct {
		name string
		tx   ast.Expr
	}
	var ps []parm
	var args []ast.Expr
	if fd.Recv != nil {
		if len(fd.Recv.List) != 1 || len(fd.Recv.List[0].Names) != 1 {
			return "", typ{}, f.errf(c, "helper %s: unnamed receiver", key)
		}
		sel, ok := c.Fun.(*ast.SelectorExpr)
		if !ok {
			return "", typ{}, f.errf(c, "method %s called as a function", key)
		}
		ps = append(ps, parm{fd.Recv.List[0].Names[0].Name, fd.Recv.List[0].Type})
		args = append(args, sel.X)
	}
	for _, fl := range fd.Type.Params.List {
		if len(fl.Names) == 0 {
			return "", typ{}, f.errf(c, "helper %s: unnamed parameter", key)
		}
		for _, n := range fl.Names {
			ps = append(ps, parm{n.Name, fl.Type})
		}
	}
	args = append(args, c.Args...)
	if len(args) != len(ps) {
		return "", typ{}, f.errf(c, "helper %s: %d arguments, expected %d", key, len(args), len(ps))
	}
	var tmpLets, parmLets string
	for i, p := range ps {
		t, err := f2.g.goType(f2.p, f2.file, p.tx)
		if err != nil {
			return "", typ{}, f.errf(c, "helper %s: %v", key, err)
		}
		_, isPtr := p.tx.(*ast.StarExpr)
		a := args[i]
		if u, ok := a.(*ast.UnaryExpr); ok && u.Op == token.AND {
			if _, lit := u.X.(*ast.CompositeLit); !lit {
				return "", typ{}, f.errf(a, "helper %s: address argument", key)
			}
		}
		switch t.k {
		case kStruct, kOpaque:
			// the caller's struct parameter / writer itself
			id, ok := unparen(a).(*ast.Ident)
			var b *binding
			if ok {
				b = e[id.Name]
			}
			if b == nil || b.t.k != t.k || b.t.named != t.named || b.fields != nil {
				return "", typ{}, f.errf(a, "helper %s: the argument for %s must be a parameter of the calling function", key, p.name)
			}
			if p.name != "_" {
				e2[p.name] = b
			}
		case kUnit, kOpt:
			return "", typ{}, f.errf(c, "helper %s: parameter %s of type %s", key, p.name, t.goName())
		default:
			v, err := f.expr(a, e)
			if err != nil {
				return "", typ{}, err
			}
			if v, err = f.coerce(a, v, t); err != nil {
				return "", typ{}, err
			}
			if !v.t.eq(t) {
				return "", typ{}, f.errf(a, "helper %s: argument %d has type %s, expected %s", key, i+1, v.t.goName(), t.goName())
			}
			if (isPtr || t.k == kList && t.n < 0) && writesThrough(fd.Body, p.name) {
				return "", typ{}, f.errf(c, "helper %s writes through its parameter %s", key, p.name)
			}
			if p.name == "_" {
				continue
			}
			sh.fresh["rgarg"]++
			tmp := fmt.Sprintf("rgarg%d", sh.fresh["rgarg"])
			tmpLets += ind + "let " + tmp + " := " + v.s + " in\n"
			b := f2.newBinding(e2, p.name, t)
			b.ptr = isPtr
			parmLets += ind + "let " + b.coq + " := " + tmp + " in\n"
		}
	}
	lets = tmpLets + parmLets
	sh.inlining[key] = true
	defer delete(sh.inlining, key)
	body, err := f2.stmts(fd.Body.List, e2, nil, ind)
	if err != nil {
		return "", typ{}, err
	}
	return lets + body, f2.ret, nil
}
