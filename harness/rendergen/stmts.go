package rendergen

import (
	"fmt"
	"go/ast"
	"go/parser"
	"go/token"
	"strings"
)

// ---------------------------------------------------------------- statements

func (f *fctx) traceCtx(k *cont) bool { return f.trace && (k == nil || k.trace) && f.inLoop == 0 }

// stmts translates a statement list into one Gallina expression; every line is indented by ind.
func (f *fctx) stmts(list []ast.Stmt, e env, k *cont, ind string) (string, error) {
	if len(list) == 0 {
		if f.traceCtx(k) {
			return ind + "[]", nil
		}
		if k == nil {
			return f.fallOff(ind, e)
		}
		y, err := f.yield(nil2(f), k.vars, e, k)
		return ind + y, err
	}
	st, rest := list[0], list[1:]
	// markers: the end of a scope, the next iteration of an unrolled loop
	if m, ok := st.(*ast.EmptyStmt); ok {
		if fn := f.marks[m]; fn != nil {
			out, done, err := fn(e, k, ind)
			if err != nil || done {
				return out, err
			}
		}
		return f.stmts(rest, e, k, ind)
	}
	// prefix target: stop before the first statement calling opt.Upto
	if k == nil && f.opt != nil && f.opt.Upto != "" && f.inLoop == 0 && len(f.frames) == 0 && f.uptoCall(st, e) != nil {
		return f.cutHere(st, e, ind)
	}
	next := func(pre string) (string, error) {
		r, err := f.stmts(rest, e, k, ind)
		if err != nil {
			return "", err
		}
		return pre + r, nil
	}
	if f.traceCtx(k) {
		if out, ok, err := f.traceStmt(st, rest, e, k, ind); ok || err != nil {
			return out, err
		}
	}
	switch s := st.(type) {
	case *ast.BlockStmt:
		return f.stmts(f.block(s.List, e, rest), e, k, ind)

	case *ast.DeclStmt:
		lets, err := f.declStmt(s, e, ind)
		if err != nil {
			return "", err
		}
		return next(lets)

	case *ast.IncDecStmt:
		cur, err := f.current(s.X, e)
		if err != nil {
			return "", err
		}
		op := token.ADD
		if s.Tok == token.DEC {
			op = token.SUB
		}
		one := val{untyped: true, konst: true, isInt: true, rat: ratOne()}
		v, err := f.binary(s, op, cur, one)
		if err != nil {
			return "", err
		}
		l, err := f.assign(s, s.X, v, false, e, ind)
		if err != nil {
			return "", err
		}
		return next(l)

	case *ast.AssignStmt:
		return f.assignStmt(s, rest, e, k, ind)

	case *ast.ReturnStmt:
		if k != nil || f.inLoop > 0 {
			return "", f.errf(s, "return inside a block that can also fall through")
		}
		if !onlyMarkers(f, rest) {
			return "", f.errf(rest[0], "statement after return")
		}
		return f.returnStmt(s, e, ind)

	case *ast.BranchStmt:
		if s.Label != nil || (s.Tok != token.CONTINUE && s.Tok != token.BREAK) {
			return "", f.errf(s, "unsupported %s", s.Tok)
		}
		if !onlyMarkers(f, rest) {
			return "", f.errf(rest[0], "statement after %s", s.Tok)
		}
		// the innermost loop is an unrolled one
		if n := len(f.frames); n > 0 && f.frames[n-1].level == f.inLoop+f.tloop {
			fr := f.frames[n-1]
			fn := fr.next
			if s.Tok == token.BREAK {
				fn = fr.brk
			}
			out, _, err := fn(e, k, ind)
			return out, err
		}
		if s.Tok != token.CONTINUE || k == nil || !k.loop {
			return "", f.errf(s, "unsupported %s", s.Tok)
		}
		if k.trace {
			return ind + "[]", nil
		}
		y, err := f.yield(s, k.vars, e, k)
		return ind + y, err

	case *ast.IfStmt:
		if s.Init != nil {
			// if x := e; c { .. }   is   { x := e; if c { .. } }
			plain := *s
			plain.Init = nil
			return f.stmts(f.block([]ast.Stmt{s.Init, &plain}, e, rest), e, k, ind)
		}
		return f.ifStmt(s, rest, e, k, ind)

	case *ast.SwitchStmt:
		ifs, err := f.switchToIf(s)
		if err != nil {
			return "", err
		}
		return f.stmts(f.block(ifs, e, rest), e, k, ind)

	case *ast.ForStmt, *ast.RangeStmt:
		l, done, err := f.loop(st, rest, e, k, ind)
		if err != nil || done {
			return l, err
		}
		return next(l)

	case *ast.ExprStmt:
		// prefix target: a call that mentions no local variable (evalOnce.Do(evalRoutines)) cannot change
		// the values of the locals the prefix yields
		if f.opt != nil && f.opt.Upto != "" && k == nil {
			local := false
			for _, id := range idents(s.X) {
				if _, ok := e[id]; ok {
					local = true
				}
			}
			if _, isCall := s.X.(*ast.CallExpr); isCall && !local {
				return f.stmts(rest, e, k, ind)
			}
		}
	}
	return "", f.errf(st, "unsupported statement %T", st)
}

func onlyMarkers(f *fctx, list []ast.Stmt) bool {
	for _, s := range list {
		m, ok := s.(*ast.EmptyStmt)
		if !ok || f.marks[m] == nil {
			return false
		}
	}
	return true
}

func nil2(f *fctx) ast.Node { return f.p.funcs[f.key] }

// const / var declarations
func (f *fctx) declStmt(s *ast.DeclStmt, e env, ind string) (string, error) {
	gd, ok := s.Decl.(*ast.GenDecl)
	if !ok || (gd.Tok != token.VAR && gd.Tok != token.CONST) {
		return "", f.errf(s, "unsupported declaration")
	}
	var lets string
	for _, sp := range gd.Specs {
		vs := sp.(*ast.ValueSpec)
		if gd.Tok == token.CONST {
			// function-local constants are used by value
			if len(vs.Values) != len(vs.Names) {
				return "", f.errf(s, "constant declaration without a value of its own (iota lists are not modelled)")
			}
			for i, n := range vs.Names {
				v, err := f.expr(vs.Values[i], e)
				if err != nil {
					return "", err
				}
				if !v.konst {
					return "", f.errf(s, "constant %s is not a constant expression", n.Name)
				}
				if vs.Type != nil {
					t, err := f.goTypeIn(vs.Type, e)
					if err != nil {
						return "", f.errf(s, "%v", err)
					}
					if v, err = f.coerce(s, v, t); err != nil {
						return "", err
					}
					if !v.t.eq(t) {
						return "", f.errf(s, "constant %s of type %s", n.Name, t.goName())
					}
				}
				if n.Name == "_" {
					continue
				}
				cv := v
				f.newBinding(e, n.Name, v.t).cval = &cv
			}
			continue
		}
		if len(vs.Values) != 0 {
			// var x T = v / var x = v: like x := v (with the declared type)
			if len(vs.Values) != len(vs.Names) {
				return "", f.errf(s, "var declaration initialised by a multi-valued expression")
			}
			var vals []val
			for i := range vs.Names {
				v, err := f.expr(vs.Values[i], e)
				if err != nil {
					return "", err
				}
				if vs.Type != nil {
					t, err := f.goTypeIn(vs.Type, e)
					if err != nil {
						return "", f.errf(s, "%v", err)
					}
					if v, err = f.coerce(s, v, t); err != nil {
						return "", err
					}
					if !v.t.eq(t) {
						return "", f.errf(s, "var %s of type %s initialised with %s", vs.Names[i].Name, t.goName(), v.t.goName())
					}
				}
				fr, err := f.aliasGuard(s, vs.Values[i], e)
				if err != nil {
					return "", err
				}
				if fr {
					return "", f.errf(s, "var declaration aliasing %s", exprString(vs.Values[i]))
				}
				vals = append(vals, v)
			}
			for i, n := range vs.Names {
				l, err := f.assign(s, n, vals[i], true, e, ind)
				if err != nil {
					return "", err
				}
				lets += l
			}
			continue
		}
		if vs.Type == nil {
			return "", f.errf(s, "var declaration without a type")
		}
		t, err := f.goTypeIn(vs.Type, e)
		if err != nil {
			return "", f.errf(s, "%v", err)
		}
		z, ok := t.zero()
		if !ok {
			return "", f.errf(s, "var declaration of %s", t.goName())
		}
		for _, n := range vs.Names {
			b := f.newBinding(e, n.Name, t)
			lets += ind + "let " + b.coq + " := " + z + " in\n"
		}
	}
	return lets, nil
}

// switch [init;] [tag] { case a, b: A; case c: B; default: C }  is  { init; if tag == a || tag == b { A } else if tag == c { B } else { C } }
func (f *fctx) switchToIf(s *ast.SwitchStmt) ([]ast.Stmt, error) {
	var clauses []*ast.CaseClause
	var deflt *ast.CaseClause
	for _, c := range s.Body.List {
		cc := c.(*ast.CaseClause)
		for _, b := range cc.Body {
			bad := false
			ast.Inspect(b, func(n ast.Node) bool {
				switch x := n.(type) {
				case *ast.ForStmt, *ast.RangeStmt, *ast.SwitchStmt, *ast.FuncLit:
					return false
				case *ast.BranchStmt:
					if x.Tok == token.BREAK || x.Tok == token.FALLTHROUGH {
						bad = true
					}
				}
				return true
			})
			if bad {
				return nil, f.errf(b, "break / fallthrough inside a switch")
			}
		}
		if cc.List == nil {
			deflt = cc
		} else {
			clauses = append(clauses, cc)
		}
	}
	var out []ast.Stmt
	if s.Init != nil {
		out = append(out, s.Init)
	}
	var tail ast.Stmt
	if deflt != nil {
		tail = &ast.BlockStmt{Lbrace: deflt.Pos(), List: deflt.Body}
	}
	for i := len(clauses) - 1; i >= 0; i-- {
		cc := clauses[i]
		var cond ast.Expr
		for _, x := range cc.List {
			c := x
			if s.Tag != nil {
				c = &ast.BinaryExpr{X: s.Tag, OpPos: x.Pos(), Op: token.EQL, Y: x}
			}
			if cond == nil {
				cond = c
			} else {
				cond = &ast.BinaryExpr{X: cond, OpPos: x.Pos(), Op: token.LOR, Y: c}
			}
		}
		ifs := &ast.IfStmt{If: cc.Pos(), Cond: cond, Body: &ast.BlockStmt{Lbrace: cc.Pos(), List: cc.Body}}
		if tail != nil {
			ifs.Else = tail
		}
		tail = ifs
	}
	if tail != nil {
		if b, ok := tail.(*ast.BlockStmt); ok {
			out = append(out, b.List...)
		} else {
			out = append(out, tail)
		}
	}
	return out, nil
}

func (f *fctx) fallOff(ind string, e env) (string, error) {
	if f.recv != "" {
		b := e.get(f.recv)
		if b == nil {
			return "", fmt.Errorf("rendergen: %s.%s: receiver lost", f.p.name, f.key)
		}
		return ind + b.coq, nil
	}
	return "", fmt.Errorf("rendergen: %s.%s: control reaches the end of the function without a return", f.p.name, f.key)
}

func (f *fctx) returnStmt(s *ast.ReturnStmt, e env, ind string) (string, error) {
	if f.recv != "" {
		if len(s.Results) != 0 {
			return "", f.errf(s, "return of a value from a method translated as a receiver update")
		}
		return f.fallOff(ind, e)
	}
	if len(s.Results) == 0 {
		if len(f.named) == 0 {
			return "", f.errf(s, "return without a value")
		}
		y, err := f.yield(s, f.named, e, nil)
		return ind + y, err
	}
	if f.ret.k == kOpt {
		if len(s.Results) != 2 {
			return "", f.errf(s, "return of %d values", len(s.Results))
		}
		if !isNil(s.Results[1], e) {
			// the error value: ErrMsg(..), errors.New(..), fmt.Errorf(..), err - only nil-ness matters
			switch x := s.Results[1].(type) {
			case *ast.CallExpr:
			case *ast.Ident:
				if b, ok := e[x.Name]; !ok || b.t.named != "error" {
					return "", f.errf(s, "unsupported error result")
				}
			default:
				return "", f.errf(s, "unsupported error result")
			}
			return ind + "None", nil
		}
		v, err := f.retValue(s, s.Results[0], f.ret.args[0], e)
		if err != nil {
			return "", err
		}
		return ind + "(Some " + v + ")", nil
	}
	if f.ret.k == kTup && !f.ret.arr && len(f.ret.fields) == 0 && f.ret.named == "" && len(s.Results) == len(f.ret.args) && len(s.Results) > 1 {
		var vs []string
		for i, r := range s.Results {
			v, err := f.retValue(s, r, f.ret.args[i], e)
			if err != nil {
				return "", err
			}
			vs = append(vs, v)
		}
		return ind + "(" + strings.Join(vs, ", ") + ")", nil
	}
	if len(s.Results) != 1 {
		return "", f.errf(s, "return of %d values", len(s.Results))
	}
	// return &dc of a struct under construction
	if u, ok := s.Results[0].(*ast.UnaryExpr); ok && u.Op == token.AND {
		if id, ok := u.X.(*ast.Ident); ok {
			if b := e[id.Name]; b != nil && b.fields != nil {
				v, t, err := f.structValue(s, b)
				if err != nil {
					return "", err
				}
				if f.ret.k == kStruct {
					f.ret = t
				}
				if !t.eq(f.ret) {
					return "", f.errf(s, "two returns of different struct values")
				}
				return ind + v, nil
			}
		}
	}
	v, err := f.retValue(s, s.Results[0], f.ret, e)
	if err != nil {
		return "", err
	}
	return ind + v, nil
}

func (f *fctx) retValue(s ast.Node, r ast.Expr, want typ, e env) (string, error) {
	if isNil(r, e) && want.k == kList && want.n < 0 {
		return nilOf(want), nil
	}
	v, err := f.expr(r, e)
	if err != nil {
		return "", err
	}
	if v, err = f.coerce(s, v, want); err != nil {
		return "", err
	}
	if !v.t.eq(want) {
		return "", f.errf(s, "return of %s, expected %s", v.t.goName(), want.goName())
	}
	return v.s, nil
}

// the first call of the prefix target's Upto in st: "f" = the function f of this package or a call
// spelled f; "T.m" = the method m called on a value of the struct type T (whatever it is called);
// otherwise the spelling of the callee ("evalOnce.Do")
func (f *fctx) uptoCall(st ast.Stmt, e env) *ast.CallExpr {
	var hit *ast.CallExpr
	ast.Inspect(st, func(n ast.Node) bool {
		c, ok := n.(*ast.CallExpr)
		if !ok || hit != nil {
			return hit == nil
		}
		if exprString(c.Fun) == f.opt.Upto {
			hit = c
			return false
		}
		if key, recv := f.calleeOf(c, e); recv != nil && key == f.opt.Upto {
			hit = c
			return false
		}
		return true
	})
	return hit
}

// is the variable name assigned (or declared again) in body at or after statement st?
func assignedAfter(body *ast.BlockStmt, st ast.Stmt, name string) bool {
	hit := false
	ast.Inspect(body, func(n ast.Node) bool {
		if n == nil || n.End() <= st.Pos() {
			return n != nil && n.End() > st.Pos()
		}
		switch x := n.(type) {
		case *ast.AssignStmt:
			if x.Pos() >= st.Pos() {
				for _, l := range x.Lhs {
					if k, ok := lhsKey(l); ok && strings.SplitN(k, ".", 2)[0] == name {
						// the cut statement itself may declare other variables; an assignment of name counts
						hit = true
					}
				}
			}
		case *ast.IncDecStmt:
			if k, ok := lhsKey(x.X); ok && x.Pos() >= st.Pos() && strings.SplitN(k, ".", 2)[0] == name {
				hit = true
			}
		case *ast.UnaryExpr:
			if id, ok := x.X.(*ast.Ident); ok && x.Op == token.AND && id.Name == name {
				hit = true
			}
		}
		return true
	})
	return hit
}

// prefix target: the values of the Yield expressions just before statement st
func (f *fctx) cutHere(st ast.Stmt, e env, ind string) (string, error) {
	var vs []string
	var ts []typ
	var exprs []ast.Expr
	var names []string
	for _, y := range f.opt.Yield {
		ex, err := parser.ParseExpr(y)
		if err != nil {
			return "", f.errf(st, "yield expression %q: %v", y, err)
		}
		exprs, names = append(exprs, ex), append(names, y)
	}
	if len(f.opt.YieldArgs) != 0 {
		c := f.uptoCall(st, e)
		for _, i := range f.opt.YieldArgs {
			if i >= len(c.Args) {
				return "", f.errf(st, "the call of %s has no argument %d", f.opt.Upto, i)
			}
			exprs, names = append(exprs, c.Args[i]), append(names, exprString(c.Args[i]))
		}
	}
	if len(f.opt.YieldRet) != 0 {
		// what the function returns there, provided every return statement returns the same expression
		for _, i := range f.opt.YieldRet {
			var ex ast.Expr
			var bad error
			ast.Inspect(f.p.funcs[f.key].Body, func(n ast.Node) bool {
				switch x := n.(type) {
				case *ast.FuncLit:
					return false
				case *ast.ReturnStmt:
					if i >= len(x.Results) {
						bad = f.errf(x, "return without result %d", i)
					} else if ex != nil && exprString(ex) != exprString(x.Results[i]) {
						bad = f.errf(x, "the return statements return different expressions as result %d", i)
					} else {
						ex = x.Results[i]
					}
				}
				return true
			})
			if bad != nil || ex == nil {
				if bad == nil {
					bad = f.errf(st, "no return statement")
				}
				return "", bad
			}
			// the expression must mean the same at the cut as at the return: its variables are not assigned after the cut
			for _, id := range idents(ex) {
				if b := e.get(id); b != nil && assignedAfter(f.p.funcs[f.key].Body, st, id) {
					return "", f.errf(st, "result %d (%s) is assigned after the call of %s", i, exprString(ex), f.opt.Upto)
				}
			}
			exprs, names = append(exprs, ex), append(names, exprString(ex))
		}
	}
	for j, ex := range exprs {
		y := names[j]
		v, err := f.expr(ex, e)
		if err != nil {
			return "", fmt.Errorf("%v (yield expression %q)", err, y)
		}
		if v, err = f.deflt(st, v); err != nil {
			return "", err
		}
		vs, ts = append(vs, v.s), append(ts, v.t)
	}
	f.cut = true
	if len(vs) == 1 {
		f.ret = ts[0]
		return ind + vs[0], nil
	}
	f.ret = tupType(ts...)
	return ind + "(" + strings.Join(vs, ", ") + ")", nil
}
