// Package rendergen translates the numeric / table-driven code of package render (marching
// cubes / squares, the octree and quadtree distance caches, the Delaunay predicates) and the small
// helpers of sdf, vec/v2, vec/v3, vec/v2i, vec/v3i, vec/conv it calls from the Go AST of the
// CURRENT source tree into Gallina over the Ops record (coq/Generated/RenderExpr.v).
// coq/Render/GenEqRender.v proves each generated definition equal to the hand-written model for
// all arguments over an arbitrary Ops (Props/TRANSLR.v), so a semantic edit of one of these Go
// functions breaks a named proof obligation and not only a sampled comparison.
//
// It is a sibling of harness/sdfgen (same method: typed, callees on demand, error on anything
// not understood) with what the render code needs in addition: int/uint (Z), fixed-size arrays
// (tuples up to 3 elements, lists above), slices (lists), package-level tables (translated as
// data, must never be assigned), counted and range loops (zfor / fold_left over the variables
// the body assigns), index assignment, multiple and named results, (T, error) results (option),
// struct parameters / receivers (the fields used become parameters), struct values under
// construction, receiver methods abstracted as function parameters (declared per target), and
// "prefix" targets: the values of named locals just before the first call of a named function.
// The meaning of the emitted vocabulary (zfor, znth, zupd, ...) is coq/Render/RgLib.v.
//
// Normal forms (so that behaviour-preserving rewrites of the Go code give the same or a provably equal
// term): the whole package directory is loaded (a declaration may live in any file); constants - package
// level or function-local const blocks - are used by VALUE (a named constant and the literal give the
// same term; array lengths may be constant expressions); `range` over an array uses its length from the
// type (zfor 0 n, the same as the index loop); early return / nested if-else, switch (desugared to an if
// chain), if with an init clause and bare blocks are all one continuation-passing translation (code after
// an if that leaves on some paths only follows both branches); every block is a scope (a shadowing
// declaration gets a Gallina name of its own and the outer variable is back when the scope ends); loops
// over small arrays (tuples) and loops with constant bounds that leave early are unrolled, the loop
// variable being a constant of each copy (so t[k] works on tuples; continue / break / return inside);
// a[lo:hi] is zslice (both names frozen: no write through an alias is modelled); *p = v assigns the
// variable p stands for; == on arrays / vectors is component-wise; append takes several values; tuple
// results may be assigned to elements (a[i], b[i] = f(x)); helpers taking the struct parameters of their
// caller (methods or functions, with or without a result) are inlined, helpers with plain parameters
// become definitions of their own, listed in the hint database rg_helpers that the equality proofs
// unfold.  Trace targets name their sinks semantically (a call of the target on a value of the receiver's
// type; Write on a parameter of the writer interface), whatever the variables are called; loops whose
// body makes traced calls become flat_map.  Fail closed: a function writing through a pointer / slice
// parameter, a copy of a pointer that is written through, assignment after &x or re-slicing, traced calls
// in a loop or branch that also assigns variables, anything not understood -> error = broken tie.
package rendergen

import (
	"fmt"
	"go/ast"
	"go/parser"
	"go/token"
	"os"
	"path/filepath"
	"sort"
	"strconv"
	"strings"
)

// ---------------------------------------------------------------- types

type kind int

const (
	kT   kind = iota // float64
	kInt             // int, uint
	kBool
	kV2
	kV3
	kBox2
	kBox3
	kTup    // small array (arr), integer vector (fields), multiple results
	kList   // slice or array of more than 3 elements (n = length, -1 for a slice)
	kFn     // args -> ret
	kOpt    // (args[0], error)
	kStruct // a struct of a translated package: flattened to the fields used
	kOpaque // a type the translator does not model (interfaces, maps, mutexes): may not be used
	kUnit   // no result
	kEvent  // trace targets: rg_ev A B (a call of the traced function with arguments A / an output B)
)

type typ struct {
	k      kind
	args   []typ
	ret    *typ
	n      int      // kList: array length, -1 = slice
	arr    bool     // kTup: a Go array (indexable by literals)
	fields []string // kTup: field names of an integer vector
	named  string   // "pkg.Name" of the Go named type (method resolution)
}

var (
	tT    = typ{k: kT}
	tInt  = typ{k: kInt}
	tBool = typ{k: kBool}
	tV2   = typ{k: kV2, named: "v2.Vec"}
	tV3   = typ{k: kV3, named: "v3.Vec"}
	tBox2 = typ{k: kBox2, named: "sdf.Box2"}
	tBox3 = typ{k: kBox3, named: "sdf.Box3"}
	tUnit = typ{k: kUnit}
	tV2i  = typ{k: kTup, args: []typ{tInt, tInt}, fields: []string{"X", "Y"}, named: "v2i.Vec"}
	tV3i  = typ{k: kTup, args: []typ{tInt, tInt, tInt}, fields: []string{"X", "Y", "Z"}, named: "v3i.Vec"}
)

func fnType(ret typ, args ...typ) typ { return typ{k: kFn, args: args, ret: &ret} }
func listType(el typ, n int) typ      { return typ{k: kList, args: []typ{el}, n: n} }
func optType(t typ) typ               { return typ{k: kOpt, args: []typ{t}} }
func tupType(ts ...typ) typ           { return typ{k: kTup, args: ts} }
func arrType(el typ, n int) typ {
	if n <= 3 {
		var ts []typ
		for i := 0; i < n; i++ {
			ts = append(ts, el)
		}
		return typ{k: kTup, args: ts, arr: true}
	}
	return listType(el, n)
}

func (t typ) coq() string {
	switch t.k {
	case kT:
		return "T O"
	case kInt:
		return "Z"
	case kBool:
		return "bool"
	case kV2:
		return "V2 O"
	case kV3:
		return "V3 O"
	case kBox2:
		return "Box2 O"
	case kBox3:
		return "Box3 O"
	case kUnit:
		return "unit"
	case kEvent:
		return "rg_ev " + t.args[0].coqAtom() + " " + t.args[1].coqAtom()
	case kTup:
		var ps []string
		for _, a := range t.args {
			ps = append(ps, a.coqAtom())
		}
		return "(" + strings.Join(ps, " * ") + ")%type"
	case kList:
		return "list " + t.args[0].coqAtom()
	case kOpt:
		return "option " + t.args[0].coqAtom()
	case kFn:
		var ps []string
		for _, a := range t.args {
			ps = append(ps, a.coqAtom())
		}
		return strings.Join(append(ps, t.ret.coqAtom()), " -> ")
	}
	return "?" + t.named
}

func (t typ) coqAtom() string {
	s := t.coq()
	if strings.Contains(s, " ") && !strings.HasPrefix(s, "(") {
		return "(" + s + ")"
	}
	if t.k == kFn {
		return "(" + s + ")"
	}
	return s
}

func (t typ) goName() string {
	if t.named != "" {
		return t.named
	}
	switch t.k {
	case kT:
		return "float64"
	case kInt:
		return "int"
	case kBool:
		return "bool"
	case kUnit:
		return "(no value)"
	case kTup:
		var ps []string
		for _, a := range t.args {
			ps = append(ps, a.goName())
		}
		if t.arr {
			return fmt.Sprintf("[%d]%s", len(t.args), ps[0])
		}
		return "(" + strings.Join(ps, ", ") + ")"
	case kList:
		if t.n >= 0 {
			return fmt.Sprintf("[%d]%s", t.n, t.args[0].goName())
		}
		return "[]" + t.args[0].goName()
	case kOpt:
		return "(" + t.args[0].goName() + ", error)"
	case kFn:
		return "func"
	}
	return "?"
}

// eq is structural (named types with the same representation are interchangeable: the Go
// compiler has already type-checked the source)
func (t typ) eq(u typ) bool {
	if t.k != u.k || len(t.args) != len(u.args) {
		return false
	}
	if t.k == kStruct || t.k == kOpaque {
		return t.named == u.named
	}
	for i := range t.args {
		if !t.args[i].eq(u.args[i]) {
			return false
		}
	}
	if t.k == kFn {
		return t.ret.eq(*u.ret)
	}
	return true
}

func nilOf(t typ) string { return "(@nil " + t.args[0].coqAtom() + ")" }

// zero value
func (t typ) zero() (string, bool) {
	switch t.k {
	case kT:
		return "(o0 O)", true
	case kInt:
		return "0%Z", true
	case kBool:
		return "false", true
	case kV2:
		return "(@v2zero O)", true
	case kV3:
		return "(@v3zero O)", true
	case kTup:
		var ps []string
		for _, a := range t.args {
			z, ok := a.zero()
			if !ok {
				return "", false
			}
			ps = append(ps, z)
		}
		return "(" + strings.Join(ps, ", ") + ")", true
	case kList:
		if t.n < 0 {
			return nilOf(t), true
		}
		z, ok := t.args[0].zero()
		if !ok {
			return "", false
		}
		return fmt.Sprintf("(zrepeat %s %d%%Z)", z, t.n), true
	}
	return "", false
}

// ---------------------------------------------------------------- source packages

const modPath = "github.com/deadsy/sdfx/"

type srcFile struct {
	ast     *ast.File
	rel     string
	imports map[string]string
}

type pkg struct {
	name    string
	path    string
	files   []*srcFile
	funcs   map[string]*ast.FuncDecl
	fileOf  map[string]*srcFile
	structs map[string]*ast.StructType
	atypes  map[string]*ast.ArrayType // named array / slice types
	alias   map[string]ast.Expr       // type A B
	ifaces  map[string]bool
	consts  map[string]ast.Expr
	vars    map[string]*ast.ValueSpec // package-level variables with an initial value
}

func recvTypeName(fd *ast.FuncDecl) (string, bool) {
	if fd.Recv == nil || len(fd.Recv.List) != 1 {
		return "", false
	}
	t := fd.Recv.List[0].Type
	ptr := false
	if st, ok := t.(*ast.StarExpr); ok {
		t, ptr = st.X, true
	}
	if id, ok := t.(*ast.Ident); ok {
		return id.Name, ptr
	}
	return "?", ptr
}

// loadPkg parses every non-test .go file of the directory dir (build-tagged hook files included:
// they can only add declarations).
func loadPkg(fset *token.FileSet, repo, name, path, dir string) (*pkg, error) {
	p := &pkg{name: name, path: path, funcs: map[string]*ast.FuncDecl{}, fileOf: map[string]*srcFile{},
		structs: map[string]*ast.StructType{}, atypes: map[string]*ast.ArrayType{}, alias: map[string]ast.Expr{},
		ifaces: map[string]bool{}, consts: map[string]ast.Expr{}, vars: map[string]*ast.ValueSpec{}}
	ents, err := os.ReadDir(filepath.Join(repo, dir))
	if err != nil {
		return nil, err
	}
	var rels []string
	for _, e := range ents {
		n := e.Name()
		if e.IsDir() || !strings.HasSuffix(n, ".go") || strings.HasSuffix(n, "_test.go") {
			continue
		}
		rels = append(rels, filepath.Join(dir, n))
	}
	sort.Strings(rels)
	for _, rel := range rels {
		f, err := parser.ParseFile(fset, filepath.Join(repo, rel), nil, 0)
		if err != nil {
			return nil, err
		}
		if f.Name.Name != name && !(name == "v2" || name == "v3" || name == "v2i" || name == "v3i") {
			continue
		}
		sf := &srcFile{ast: f, rel: rel, imports: map[string]string{}}
		for _, im := range f.Imports {
			ip, _ := strconv.Unquote(im.Path.Value)
			local := ip[strings.LastIndex(ip, "/")+1:]
			if im.Name != nil {
				local = im.Name.Name
			}
			sf.imports[local] = ip
		}
		p.files = append(p.files, sf)
		for _, d := range f.Decls {
			switch x := d.(type) {
			case *ast.FuncDecl:
				key := x.Name.Name
				if x.Recv != nil {
					rn, _ := recvTypeName(x)
					key = rn + "." + key
				}
				if _, dup := p.funcs[key]; dup {
					return nil, fmt.Errorf("%s: duplicate declaration of %s", rel, key)
				}
				p.funcs[key] = x
				p.fileOf[key] = sf
			case *ast.GenDecl:
				for _, sp := range x.Specs {
					switch s := sp.(type) {
					case *ast.TypeSpec:
						p.fileOf[s.Name.Name] = sf
						switch tt := s.Type.(type) {
						case *ast.StructType:
							p.structs[s.Name.Name] = tt
						case *ast.ArrayType:
							p.atypes[s.Name.Name] = tt
						case *ast.InterfaceType:
							p.ifaces[s.Name.Name] = true
						case *ast.Ident, *ast.SelectorExpr:
							p.alias[s.Name.Name] = tt
						}
					case *ast.ValueSpec:
						for i, n := range s.Names {
							if x.Tok == token.CONST {
								if i < len(s.Values) {
									p.consts[n.Name] = s.Values[i]
								} else {
									p.consts[n.Name] = nil
								}
								p.fileOf[n.Name] = sf
							} else if x.Tok == token.VAR && len(s.Names) == 1 && len(s.Values) == 1 {
								p.vars[n.Name] = s
								p.fileOf[n.Name] = sf
							}
						}
					}
				}
			}
		}
	}
	return p, nil
}

// mutated reports a statement of the package that assigns (an element of) the package-level
// variable name, or takes its address / slices it.
func (p *pkg) mutated(fset *token.FileSet, name string) string {
	root := func(e ast.Expr) string {
		for {
			switch x := e.(type) {
			case *ast.IndexExpr:
				e = x.X
			case *ast.ParenExpr:
				e = x.X
			case *ast.StarExpr:
				e = x.X
			case *ast.SliceExpr:
				e = x.X
			case *ast.SelectorExpr:
				e = x.X
			case *ast.Ident:
				return x.Name
			default:
				return ""
			}
		}
	}
	where := ""
	for _, sf := range p.files {
		ast.Inspect(sf.ast, func(n ast.Node) bool {
			hit := false
			switch x := n.(type) {
			case *ast.AssignStmt:
				if x.Tok != token.DEFINE {
					for _, l := range x.Lhs {
						if root(l) == name {
							hit = true
						}
					}
				}
			case *ast.IncDecStmt:
				hit = root(x.X) == name
			case *ast.UnaryExpr:
				hit = x.Op == token.AND && root(x.X) == name
			case *ast.SliceExpr:
				hit = root(x.X) == name
			}
			if hit && where == "" {
				where = fmt.Sprintf("%s:%d", sf.rel, fset.Position(n.Pos()).Line)
			}
			return true
		})
	}
	return where
}

// ---------------------------------------------------------------- type resolution

func (g *gen) goType(p *pkg, sf *srcFile, e ast.Expr) (typ, error) {
	return g.goTypeIn(p, sf, e, nil)
}

// goTypeIn resolves a type expression; en (may be nil) holds the function-local constants an
// array length may be written with ([numEdges]v3.Vec)
func (g *gen) goTypeIn(p *pkg, sf *srcFile, e ast.Expr, en env) (typ, error) {
	switch x := e.(type) {
	case *ast.Ident:
		switch x.Name {
		case "float64":
			return tT, nil
		case "int", "uint":
			return tInt, nil
		case "bool":
			return tBool, nil
		case "error", "string":
			return typ{k: kOpaque, named: x.Name}, nil
		}
		return g.namedType(p, x.Name)
	case *ast.ParenExpr:
		return g.goTypeIn(p, sf, x.X, en)
	case *ast.StarExpr:
		return g.goTypeIn(p, sf, x.X, en) // a pointer is the value it points to (see `&x`)
	case *ast.SelectorExpr:
		if id, ok := x.X.(*ast.Ident); ok {
			if q := g.byPath[sf.imports[id.Name]]; q != nil {
				return g.namedType(q, x.Sel.Name)
			}
			return typ{k: kOpaque, named: id.Name + "." + x.Sel.Name}, nil
		}
	case *ast.ArrayType:
		el, err := g.goTypeIn(p, sf, x.Elt, en)
		if err != nil {
			return typ{}, err
		}
		if el.k == kOpaque || el.k == kStruct {
			return typ{k: kOpaque, named: "[]" + el.named}, nil
		}
		if x.Len == nil {
			return listType(el, -1), nil
		}
		// the length is a constant expression: a literal, a named constant (package-level or
		// function-local), arithmetic on them
		if en == nil {
			en = env{}
		}
		lf := &fctx{g: g, p: p, file: sf, key: "(array length)"}
		lv, err := lf.expr(x.Len, en)
		if err != nil {
			return typ{}, fmt.Errorf("array length %s: %v", exprString(x.Len), err)
		}
		if !lv.konst || lv.rat == nil || !lv.rat.IsInt() || !lv.rat.Num().IsInt64() {
			return typ{}, fmt.Errorf("array length %s is not an integer constant", exprString(x.Len))
		}
		n := int(lv.rat.Num().Int64())
		if n < 1 || n > 1<<20 {
			return typ{}, fmt.Errorf("array length %d", n)
		}
		return arrType(el, n), nil
	case *ast.MapType, *ast.InterfaceType, *ast.ChanType, *ast.FuncType:
		return typ{k: kOpaque, named: fmt.Sprintf("%T", e)}, nil
	}
	return typ{}, fmt.Errorf("unsupported type %s", exprString(e))
}

func fieldNames(st *ast.StructType) string {
	var names []string
	for _, fl := range st.Fields.List {
		for _, n := range fl.Names {
			names = append(names, n.Name+":"+exprString(fl.Type))
		}
	}
	return strings.Join(names, " ")
}

func (g *gen) namedType(p *pkg, name string) (typ, error) {
	full := p.name + "." + name
	if name == "Vec" {
		want, ok := map[string]string{"v2": "X:float64 Y:float64", "v3": "X:float64 Y:float64 Z:float64",
			"v2i": "X:int Y:int", "v3i": "X:int Y:int Z:int"}[p.name]
		if ok {
			st := p.structs["Vec"]
			if st == nil || fieldNames(st) != want {
				return typ{}, fmt.Errorf("%s.Vec is not struct{%s} any more", p.name, want)
			}
			return map[string]typ{"v2": tV2, "v3": tV3, "v2i": tV2i, "v3i": tV3i}[p.name], nil
		}
	}
	if p.name == "sdf" && (name == "Box2" || name == "Box3") {
		st := p.structs[name]
		want := map[string]string{"Box2": "Min:v2.Vec Max:v2.Vec", "Box3": "Min:v3.Vec Max:v3.Vec"}[name]
		if st == nil || fieldNames(st) != want {
			return typ{}, fmt.Errorf("sdf.%s is not struct{Min, Max} any more", name)
		}
		if name == "Box2" {
			return tBox2, nil
		}
		return tBox3, nil
	}
	if at, ok := p.atypes[name]; ok {
		t, err := g.goType(p, p.fileOf[name], at)
		t.named = full
		return t, err
	}
	if al, ok := p.alias[name]; ok {
		t, err := g.goType(p, p.fileOf[name], al)
		t.named = full
		return t, err
	}
	if _, ok := p.structs[name]; ok {
		return typ{k: kStruct, named: full}, nil
	}
	return typ{k: kOpaque, named: full}, nil
}

func exprString(e ast.Expr) string {
	switch x := e.(type) {
	case *ast.Ident:
		return x.Name
	case *ast.SelectorExpr:
		return exprString(x.X) + "." + x.Sel.Name
	case *ast.StarExpr:
		return "*" + exprString(x.X)
	case *ast.CallExpr:
		return exprString(x.Fun) + "(..)"
	case *ast.BasicLit:
		return x.Value
	case *ast.IndexExpr:
		return exprString(x.X) + "[" + exprString(x.Index) + "]"
	case *ast.ArrayType:
		if x.Len == nil {
			return "[]" + exprString(x.Elt)
		}
		return "[" + exprString(x.Len) + "]" + exprString(x.Elt)
	case *ast.ParenExpr:
		return "(" + exprString(x.X) + ")"
	case *ast.UnaryExpr:
		return x.Op.String() + exprString(x.X)
	case *ast.SliceExpr:
		str := func(e ast.Expr) string {
			if e == nil {
				return ""
			}
			return exprString(e)
		}
		return exprString(x.X) + "[" + str(x.Low) + ":" + str(x.High) + "]"
	case *ast.BinaryExpr:
		return exprString(x.X) + x.Op.String() + exprString(x.Y)
	}
	return fmt.Sprintf("%T", e)
}
