package rendergen

import (
	"go/ast"
	"go/token"
	"strings"
)

// ---------------------------------------------------------------- statement analysis

// cont: what a statement list yields when control falls off its end: the current values of vars
// (a branch of an if statement / a loop body).  nil = the function body.
type cont struct {
	vars  []string
	loop  bool // the body of a loop: `continue` yields the same
	scope env  // the bindings when the block was entered: what vars means at its end
	trace bool // the body of a traced loop: it yields the events of one iteration
}

func stmtList(s ast.Stmt) []ast.Stmt {
	switch x := s.(type) {
	case nil:
		return nil
	case *ast.BlockStmt:
		return x.List
	}
	return []ast.Stmt{s}
}

// every path through the list ends in a return (or, in a loop body, a continue)
func terminates(list []ast.Stmt) bool {
	if len(list) == 0 {
		return false
	}
	switch x := list[len(list)-1].(type) {
	case *ast.ReturnStmt:
		return true
	case *ast.BranchStmt:
		return x.Tok == token.CONTINUE && x.Label == nil
	case *ast.BlockStmt:
		return terminates(x.List)
	case *ast.IfStmt:
		return x.Else != nil && terminates(x.Body.List) && terminates(stmtList(x.Else))
	case *ast.SwitchStmt:
		hasDefault := false
		for _, c := range x.Body.List {
			cc := c.(*ast.CaseClause)
			if cc.List == nil {
				hasDefault = true
			}
			if !terminates(cc.Body) {
				return false
			}
		}
		return hasDefault
	}
	return false
}

// some path through the list leaves it by return / continue / break
func containsExit(list []ast.Stmt) bool {
	found := false
	for _, s := range list {
		ast.Inspect(s, func(n ast.Node) bool {
			switch n.(type) {
			case *ast.FuncLit:
				return false
			case *ast.ForStmt, *ast.RangeStmt:
				// a continue / break inside a nested loop belongs to that loop; a return does not
				ast.Inspect(n, func(m ast.Node) bool {
					if _, ok := m.(*ast.ReturnStmt); ok {
						found = true
					}
					return true
				})
				return false
			case *ast.ReturnStmt, *ast.BranchStmt:
				found = true
			}
			return true
		})
	}
	return found
}

func lhsKey(l ast.Expr) (string, bool) {
	switch x := l.(type) {
	case *ast.Ident:
		return x.Name, true
	case *ast.IndexExpr:
		return lhsKey(x.X)
	case *ast.SelectorExpr:
		if id, ok := x.X.(*ast.Ident); ok {
			return id.Name + "." + x.Sel.Name, true
		}
	case *ast.ParenExpr:
		return lhsKey(x.X)
	case *ast.StarExpr:
		return lhsKey(x.X)
	}
	return "", false
}

// variables of the enclosing scopes assigned by the list, in order of first assignment.  A key
// "x.f" is reduced to "x" when x is a plain local (p.X = ..) by the caller's env.
func (f *fctx) assignedOuter(list []ast.Stmt, e env, declared map[string]bool, out *[]string) error {
	local := map[string]bool{}
	for k := range declared {
		local[k] = true
	}
	add := func(n ast.Node, l ast.Expr) error {
		key, ok := lhsKey(l)
		if !ok {
			return f.errf(n, "unsupported assignment target %s", exprString(l))
		}
		root := key
		if i := strings.Index(key, "."); i >= 0 {
			root = key[:i]
			if b := e[root]; b != nil && b.fields == nil {
				key = root // field of a vector-valued local: the local is assigned
			}
		}
		if key == "_" || local[root] {
			return nil
		}
		*out = appendOnce(*out, key)
		return nil
	}
	simple := func(s ast.Stmt) error {
		switch x := s.(type) {
		case *ast.AssignStmt:
			for _, l := range x.Lhs {
				if id, ok := l.(*ast.Ident); ok && x.Tok == token.DEFINE {
					local[id.Name] = true
					continue
				}
				if err := add(x, l); err != nil {
					return err
				}
			}
		case *ast.IncDecStmt:
			return add(x, x.X)
		}
		return nil
	}
	for _, s := range list {
		switch x := s.(type) {
		case *ast.AssignStmt, *ast.IncDecStmt:
			if err := simple(s); err != nil {
				return err
			}
		case *ast.DeclStmt:
			if gd, ok := x.Decl.(*ast.GenDecl); ok {
				for _, sp := range gd.Specs {
					if vs, ok := sp.(*ast.ValueSpec); ok {
						for _, n := range vs.Names {
							local[n.Name] = true
						}
					}
				}
			}
		case *ast.BlockStmt:
			if err := f.assignedOuter(x.List, e, local, out); err != nil {
				return err
			}
		case *ast.LabeledStmt:
			if err := f.assignedOuter([]ast.Stmt{x.Stmt}, e, local, out); err != nil {
				return err
			}
		case *ast.IfStmt:
			inner := local
			if x.Init != nil {
				inner = map[string]bool{}
				for k := range local {
					inner[k] = true
				}
				save := local
				local = inner
				err := simple(x.Init)
				local = save
				if err != nil {
					return err
				}
			}
			if err := f.assignedOuter(x.Body.List, e, inner, out); err != nil {
				return err
			}
			if err := f.assignedOuter(stmtList(x.Else), e, inner, out); err != nil {
				return err
			}
		case *ast.SwitchStmt:
			inner := local
			if x.Init != nil {
				inner = map[string]bool{}
				for k := range local {
					inner[k] = true
				}
				save := local
				local = inner
				err := simple(x.Init)
				local = save
				if err != nil {
					return err
				}
			}
			for _, c := range x.Body.List {
				if err := f.assignedOuter(c.(*ast.CaseClause).Body, e, inner, out); err != nil {
					return err
				}
			}
		case *ast.ForStmt:
			inner := map[string]bool{}
			for k := range local {
				inner[k] = true
			}
			if as, ok := x.Init.(*ast.AssignStmt); ok && as.Tok == token.DEFINE {
				for _, l := range as.Lhs {
					if id, ok := l.(*ast.Ident); ok {
						inner[id.Name] = true
					}
				}
			}
			if err := f.assignedOuter(x.Body.List, e, inner, out); err != nil {
				return err
			}
		case *ast.RangeStmt:
			inner := map[string]bool{}
			for k := range local {
				inner[k] = true
			}
			if x.Tok == token.DEFINE {
				for _, l := range []ast.Expr{x.Key, x.Value} {
					if id, ok := l.(*ast.Ident); ok {
						inner[id.Name] = true
					}
				}
			}
			if err := f.assignedOuter(x.Body.List, e, inner, out); err != nil {
				return err
			}
		}
	}
	return nil
}

func indentMore(s string) string { return "  " + strings.ReplaceAll(s, "\n", "\n  ") }

func callsOf(s ast.Stmt, name string) bool {
	found := false
	ast.Inspect(s, func(n ast.Node) bool {
		if c, ok := n.(*ast.CallExpr); ok && exprString(c.Fun) == name {
			found = true
		}
		return true
	})
	return found
}

// the tuple (or single value) of the current values of vars; k (may be nil) gives the scope the
// names are looked up in
func (f *fctx) yield(n ast.Node, vars []string, e env, k *cont) (string, error) {
	if k != nil && k.scope != nil {
		e = k.scope
	}
	var vs []string
	for _, v := range vars {
		b := e.get(v)
		if b == nil {
			return "", f.errf(n, "%s is not a plain variable here", v)
		}
		vs = append(vs, b.coq)
	}
	if len(vs) == 1 {
		return vs[0], nil
	}
	return "(" + strings.Join(vs, ", ") + ")", nil
}

func (f *fctx) pattern(n ast.Node, vars []string, e env) (pat string, ty string, err error) {
	var ns, ts []string
	for _, v := range vars {
		b := e.get(v)
		if b == nil {
			return "", "", f.errf(n, "assignment to %s: not a plain local variable of this function", v)
		}
		if b.frozen {
			return "", "", f.errf(n, "assignment to %s after its address was taken", v)
		}
		ns, ts = append(ns, b.coq), append(ts, b.t.coqAtom())
	}
	if len(ns) == 1 {
		return ns[0], ts[0], nil
	}
	return "'(" + strings.Join(ns, ", ") + ")", "(" + strings.Join(ts, " * ") + ")%type", nil
}

// the statements of the body that write through the parameter name (an element of the slice /
// the value a pointer refers to): the caller would see it
func writesThrough(body *ast.BlockStmt, name string) bool {
	hit := false
	through := func(l ast.Expr) bool {
		deref := false
		for {
			switch x := l.(type) {
			case *ast.ParenExpr:
				l = x.X
			case *ast.IndexExpr:
				l, deref = x.X, true
			case *ast.StarExpr:
				l, deref = x.X, true
			case *ast.SelectorExpr:
				l, deref = x.X, true
			case *ast.Ident:
				return deref && x.Name == name
			default:
				return false
			}
		}
	}
	ast.Inspect(body, func(n ast.Node) bool {
		switch x := n.(type) {
		case *ast.AssignStmt:
			if x.Tok != token.DEFINE {
				for _, l := range x.Lhs {
					if through(l) {
						hit = true
					}
				}
			}
		case *ast.IncDecStmt:
			if through(x.X) {
				hit = true
			}
		}
		return true
	})
	return hit
}
