package rendergen

import (
	"fmt"
	"go/ast"
	"go/token"
	"strings"
)

// ---------------------------------------------------------------- assignment

func unparen(e ast.Expr) ast.Expr {
	for {
		p, ok := e.(*ast.ParenExpr)
		if !ok {
			return e
		}
		e = p.X
	}
}

// assign translates `lhs = v` and returns the `let` line
func (f *fctx) assign(n ast.Node, lhs ast.Expr, v val, define bool, e env, ind string) (string, error) {
	switch l := lhs.(type) {
	case *ast.ParenExpr:
		return f.assign(n, l.X, v, define, e, ind)
	case *ast.StarExpr:
		// *p = v: a pointer is the value it points to
		if define {
			return "", f.errf(n, "unsupported declaration target %s", exprString(lhs))
		}
		return f.assign(n, l.X, v, false, e, ind)
	case *ast.Ident:
		if l.Name == "_" {
			return "", nil
		}
		var err error
		if define {
			if v, err = f.deflt(n, v); err != nil {
				return "", err
			}
			if v.t.k == kOpaque || v.t.k == kStruct || v.t.k == kUnit || v.t.k == kOpt {
				return "", f.errf(n, "variable %s of type %s", l.Name, v.t.goName())
			}
			f.newBinding(e, l.Name, v.t)
		} else {
			b := e.get(l.Name)
			if b == nil {
				return "", f.errf(n, "assignment to %s, which is not a plain local variable", l.Name)
			}
			if b.frozen {
				return "", f.errf(n, "assignment to %s after its address was taken", l.Name)
			}
			if v, err = f.coerce(n, v, b.t); err != nil {
				return "", err
			}
			if !b.t.eq(v.t) {
				return "", f.errf(n, "assignment of %s to %s %s", v.t.goName(), b.t.goName(), l.Name)
			}
		}
		return ind + "let " + e[l.Name].coq + " := " + v.s + " in\n", nil
	case *ast.IndexExpr:
		key, ok := lhsKey(l.X)
		var b *binding
		if ok {
			b = e.get(key)
		}
		if _, nested := unparen(l.X).(*ast.IndexExpr); nested || b == nil {
			return "", f.errf(n, "unsupported assignment target %s", exprString(lhs))
		}
		if b.frozen {
			return "", f.errf(n, "assignment to %s after its address was taken", key)
		}
		var err error
		switch {
		case b.t.k == kTup && b.t.arr:
			i, ok := f.constInt(l.Index, e)
			if !ok || i < 0 || i >= len(b.t.args) {
				return "", f.errf(n, "index of a %s must be a constant in range", b.t.goName())
			}
			if v, err = f.coerce(n, v, b.t.args[i]); err != nil {
				return "", err
			}
			if !v.t.eq(b.t.args[i]) {
				return "", f.errf(n, "assignment of %s to an element of %s", v.t.goName(), b.t.goName())
			}
			var ps []string
			for j := range b.t.args {
				if j == i {
					ps = append(ps, v.s)
				} else {
					ps = append(ps, proj(b.coq, len(b.t.args), j))
				}
			}
			return ind + "let " + b.coq + " := (" + strings.Join(ps, ", ") + ") in\n", nil
		case b.t.k == kList:
			iv, err := f.expr(l.Index, e)
			if err != nil {
				return "", err
			}
			if iv, err = f.coerce(n, iv, tInt); err != nil {
				return "", err
			}
			if iv.t.k != kInt {
				return "", f.errf(n, "index of type %s", iv.t.goName())
			}
			if v, err = f.coerce(n, v, b.t.args[0]); err != nil {
				return "", err
			}
			if !v.t.eq(b.t.args[0]) {
				return "", f.errf(n, "assignment of %s to an element of %s", v.t.goName(), b.t.goName())
			}
			return ind + "let " + b.coq + " := (zupd " + b.coq + " " + iv.s + " " + v.s + ") in\n", nil
		}
		return "", f.errf(n, "index assignment to %s", b.t.goName())
	case *ast.SelectorExpr:
		id, ok := l.X.(*ast.Ident)
		if !ok {
			return "", f.errf(n, "unsupported assignment target %s", exprString(lhs))
		}
		b := e[id.Name]
		if b == nil || b.flat || b.cval != nil {
			return "", f.errf(n, "unsupported assignment target %s", exprString(lhs))
		}
		if b.fields != nil {
			return f.setField(n, b, id.Name, l.Sel.Name, v, ind)
		}
		if b.frozen {
			return "", f.errf(n, "assignment to %s after its address was taken", id.Name)
		}
		// p.X = e on a vector-valued local
		var names []string
		var mk string
		switch b.t.k {
		case kV2:
			names, mk = []string{"X:vx", "Y:vy"}, "mkV2"
		case kV3:
			names, mk = []string{"X:wx", "Y:wy", "Z:wz"}, "mkV3"
		default:
			return "", f.errf(n, "assignment to field %s of %s", l.Sel.Name, b.t.goName())
		}
		var err error
		if v, err = f.coerce(n, v, tT); err != nil {
			return "", err
		}
		if v.t.k != kT {
			return "", f.errf(n, "assignment of %s to a float64 field", v.t.goName())
		}
		var ps []string
		hit := false
		for _, nm := range names {
			parts := strings.Split(nm, ":")
			if parts[0] == l.Sel.Name {
				ps, hit = append(ps, v.s), true
			} else {
				ps = append(ps, "("+parts[1]+" "+b.coq+")")
			}
		}
		if !hit {
			return "", f.errf(n, "field %s of %s", l.Sel.Name, b.t.goName())
		}
		return ind + "let " + b.coq + " := (" + mk + " " + strings.Join(ps, " ") + ") in\n", nil
	}
	return "", f.errf(n, "unsupported assignment target %s", exprString(lhs))
}

func (f *fctx) setField(n ast.Node, b *binding, goVar, name string, v val, ind string) (string, error) {
	st := f.p.structs[b.structName]
	var ft *typ
	for _, fl := range st.Fields.List {
		for _, fn := range fl.Names {
			if fn.Name == name {
				t, err := f.g.goType(f.p, f.p.fileOf[b.structName], fl.Type)
				if err != nil {
					return "", f.errf(n, "field %s.%s: %v", b.structName, name, err)
				}
				ft = &t
			}
		}
	}
	if ft == nil {
		return "", f.errf(n, "%s has no field %s", b.structName, name)
	}
	var err error
	if v, err = f.coerce(n, v, *ft); err != nil {
		return "", err
	}
	if !v.t.eq(*ft) {
		return "", f.errf(n, "assignment of %s to field %s.%s of type %s", v.t.goName(), goVar, name, ft.goName())
	}
	c := b.coq + "_" + name
	sh := f.share()
	sh.nid++
	b.fields[name] = &binding{id: sh.nid, coq: c, t: *ft}
	return ind + "let " + c + " := " + v.s + " in\n", nil
}

// the current value of a (target of an) operator assignment
func (f *fctx) current(lhs ast.Expr, e env) (val, error) { return f.expr(lhs, e) }

// copying a pointer / re-slicing makes two names for the same memory: the copy may be read, but
// neither name may be assigned afterwards
func (f *fctx) aliasGuard(n ast.Node, rhs ast.Expr, e env) (freeze bool, err error) {
	switch x := unparen(rhs).(type) {
	case *ast.Ident:
		if b := e[x.Name]; b != nil && b.ptr {
			if assignsAfter(f.p.funcs[f.key], x.Name) {
				return false, f.errf(n, "copy of the pointer %s in a function that writes through it", x.Name)
			}
			return true, nil
		}
	case *ast.SliceExpr:
		if id, ok := unparen(x.X).(*ast.Ident); ok {
			if b := e[id.Name]; b != nil && !b.flat && b.fields == nil && b.cval == nil {
				b.frozen = true
			}
		}
		return true, nil
	}
	return false, nil
}

func assignsAfter(fd *ast.FuncDecl, name string) bool {
	return fd != nil && fd.Body != nil && writesThrough(fd.Body, name)
}

func (f *fctx) assignStmt(s *ast.AssignStmt, rest []ast.Stmt, e env, k *cont, ind string) (string, error) {
	next := func(pre string) (string, error) {
		r, err := f.stmts(rest, e, k, ind)
		if err != nil {
			return "", err
		}
		return pre + r, nil
	}
	define := s.Tok == token.DEFINE
	if len(s.Lhs) > 1 && len(s.Rhs) == 1 {
		// a, b := f(..)
		v, err := f.expr(s.Rhs[0], e)
		if err != nil {
			return "", err
		}
		if s.Tok != token.DEFINE && s.Tok != token.ASSIGN {
			return "", f.errf(s, "unsupported assignment operator %s", s.Tok)
		}
		if v.t.k == kOpt && len(s.Lhs) == 2 {
			return f.optBind(s, v, rest, e, k, ind)
		}
		if v.t.k != kTup || v.t.arr || len(v.t.args) != len(s.Lhs) {
			return "", f.errf(s, "assignment of %s to %d variables", v.t.goName(), len(s.Lhs))
		}
		allIdent := true
		for _, l := range s.Lhs {
			if _, ok := l.(*ast.Ident); !ok {
				allIdent = false
			}
		}
		if !allIdent {
			// corners[i], values[i] = f(..): the results are named first, then assigned left to right
			if define {
				return "", f.errf(s, "unsupported declaration target")
			}
			var tmp []string
			for i := range s.Lhs {
				tmp = append(tmp, fmt.Sprintf("rgtmp%d", i))
			}
			lets := ind + "let '(" + strings.Join(tmp, ", ") + ") := " + v.s + " in\n"
			for i, l := range s.Lhs {
				a, err := f.assign(s, l, val{s: tmp[i], t: v.t.args[i]}, false, e, ind)
				if err != nil {
					return "", err
				}
				lets += a
			}
			return next(lets)
		}
		var names []string
		for i, l := range s.Lhs {
			id := l.(*ast.Ident)
			if id.Name == "_" {
				names = append(names, "_")
				continue
			}
			if define {
				// := declares the names that are new in this scope; re-using a name is a `let` too
				f.newBinding(e, id.Name, v.t.args[i])
			} else {
				b := e.get(id.Name)
				if b == nil || !b.t.eq(v.t.args[i]) || b.frozen {
					return "", f.errf(s, "assignment of %s to %s", v.t.args[i].goName(), id.Name)
				}
			}
			names = append(names, e[id.Name].coq)
		}
		return next(ind + "let '(" + strings.Join(names, ", ") + ") := " + v.s + " in\n")
	}
	if len(s.Lhs) != len(s.Rhs) {
		return "", f.errf(s, "unsupported assignment of a multi-valued expression")
	}
	if len(s.Lhs) > 1 {
		// a, b = e1, e2: all right-hand sides are evaluated before any assignment
		if s.Tok != token.ASSIGN && s.Tok != token.DEFINE {
			return "", f.errf(s, "unsupported tuple assignment operator %s", s.Tok)
		}
		var lets string
		var vs []val
		var freeze []bool
		for i, r := range s.Rhs {
			fr, err := f.aliasGuard(r, r, e)
			if err != nil {
				return "", err
			}
			freeze = append(freeze, fr)
			v, err := f.expr(r, e)
			if err != nil {
				return "", err
			}
			if define {
				if v, err = f.deflt(r, v); err != nil {
					return "", err
				}
			} else if v.untyped {
				lv, err := f.expr(s.Lhs[i], e)
				if err != nil {
					return "", err
				}
				if v, err = f.coerce(r, v, lv.t); err != nil {
					return "", err
				}
			}
			t := fmt.Sprintf("rgtmp%d", i)
			lets += ind + "let " + t + " := " + v.s + " in\n"
			vs = append(vs, val{s: t, t: v.t})
		}
		for i, l := range s.Lhs {
			a, err := f.assign(s, l, vs[i], define, e, ind)
			if err != nil {
				return "", err
			}
			if id, ok := l.(*ast.Ident); ok && freeze[i] && e[id.Name] != nil {
				e[id.Name].frozen = true
			}
			lets += a
		}
		return next(lets)
	}
	lhs := s.Lhs[0]
	// x := T{..} of a struct type of this package: a struct under construction
	if cl, ok := s.Rhs[0].(*ast.CompositeLit); ok && define {
		if tid, ok := cl.Type.(*ast.Ident); ok && f.p.structs[tid.Name] != nil {
			id, ok := lhs.(*ast.Ident)
			if !ok || k != nil {
				return "", f.errf(s, "struct construction inside a branch")
			}
			lets, b, err := f.structLit(cl, tid.Name, id.Name, e, ind)
			if err != nil {
				return "", err
			}
			e[id.Name] = b
			return next(lets)
		}
	}
	freeze := false
	selfSlice := false
	if sl, ok := unparen(s.Rhs[0]).(*ast.SliceExpr); ok && !define {
		// x = x[a:b]: still the only name of that memory
		selfSlice = exprString(unparen(sl.X)) == exprString(unparen(lhs))
	}
	if !selfSlice {
		var err error
		if freeze, err = f.aliasGuard(s, s.Rhs[0], e); err != nil {
			return "", err
		}
	}
	v, err := f.expr(s.Rhs[0], e)
	if err != nil {
		return "", err
	}
	if op, isOp := opAssign[s.Tok]; isOp {
		cur, err := f.current(lhs, e)
		if err != nil {
			return "", err
		}
		if v, err = f.binary(s, op, cur, v); err != nil {
			return "", err
		}
	} else if s.Tok != token.ASSIGN && s.Tok != token.DEFINE {
		return "", f.errf(s, "unsupported assignment operator %s", s.Tok)
	}
	l, err := f.assign(s, lhs, v, define, e, ind)
	if err != nil {
		return "", err
	}
	if id, ok := unparen(lhs).(*ast.Ident); ok && freeze && e[id.Name] != nil && id.Name != "_" {
		e[id.Name].frozen = true
	}
	return next(l)
}

// c, err := g(..); if err != nil { A }; rest   ->   match g .. with None => A | Some c => rest end
func (f *fctx) optBind(s *ast.AssignStmt, v val, rest []ast.Stmt, e env, k *cont, ind string) (string, error) {
	if k != nil {
		return "", f.errf(s, "call of a function returning an error inside a branch")
	}
	id0, ok0 := s.Lhs[0].(*ast.Ident)
	id1, ok1 := s.Lhs[1].(*ast.Ident)
	if !ok0 || !ok1 || id1.Name == "_" || len(rest) == 0 {
		return "", f.errf(s, "the error result must be tested by the next statement")
	}
	ifs, ok := rest[0].(*ast.IfStmt)
	if !ok || ifs.Init != nil || ifs.Else != nil || !terminates(ifs.Body.List) {
		return "", f.errf(s, "the error result must be tested by `if %s != nil { .. return }` next", id1.Name)
	}
	be, ok := ifs.Cond.(*ast.BinaryExpr)
	if !ok || be.Op != token.NEQ || exprString(be.X) != id1.Name || !isNil(be.Y, e) {
		return "", f.errf(s, "the error result must be tested by `if %s != nil { .. return }` next", id1.Name)
	}
	errT := typ{k: kOpaque, named: "error"}
	errEnv := e.clone()
	f.newBinding(errEnv, id1.Name, errT).coq = "?"
	if id0.Name != "_" {
		z, _ := v.t.args[0].zero()
		f.newBinding(errEnv, id0.Name, v.t.args[0]).coq = z
	}
	a, err := f.stmts(ifs.Body.List, errEnv, nil, ind+"    ")
	if err != nil {
		return "", err
	}
	pat := "_"
	if id0.Name != "_" {
		pat = f.newBinding(e, id0.Name, v.t.args[0]).coq
	}
	f.newBinding(e, id1.Name, errT).coq = "?"
	b, err := f.stmts(rest[1:], e, nil, ind+"    ")
	if err != nil {
		return "", err
	}
	return ind + "match " + v.s + " with\n" + ind + "| None =>\n" + a + "\n" + ind + "| Some " + pat + " =>\n" + b + "\n" + ind + "end", nil
}

func (f *fctx) structLit(x *ast.CompositeLit, sname, goVar string, e env, ind string) (string, *binding, error) {
	sh := f.share()
	sh.nid++
	b := &binding{id: sh.nid, coq: coqIdent(goVar), structName: sname, fields: map[string]*binding{}}
	var lets strings.Builder
	for _, el := range x.Elts {
		kv, ok := el.(*ast.KeyValueExpr)
		if !ok {
			return "", nil, f.errf(x, "positional %s literal", sname)
		}
		key, ok := kv.Key.(*ast.Ident)
		if !ok {
			return "", nil, f.errf(x, "unsupported key in %s literal", sname)
		}
		if f.opt != nil && f.opt.SkipFields[key.Name] {
			continue
		}
		v, err := f.expr(kv.Value, e)
		if err != nil {
			return "", nil, err
		}
		l, err := f.setField(kv, b, goVar, key.Name, v, ind)
		if err != nil {
			return "", nil, err
		}
		lets.WriteString(l)
	}
	return lets.String(), b, nil
}

// the value a struct under construction stands for: the tuple of its modelled fields, in
// declaration order (fields listed in SkipFields are left out; the others must have been set)
func (f *fctx) structValue(n ast.Node, b *binding) (string, typ, error) {
	var vs []string
	var ts []typ
	for _, fl := range f.p.structs[b.structName].Fields.List {
		for _, fn := range fl.Names {
			if f.opt != nil && f.opt.SkipFields[fn.Name] {
				continue
			}
			fb, ok := b.fields[fn.Name]
			if !ok {
				return "", typ{}, f.errf(n, "field %s.%s is neither set nor listed as not modelled", b.structName, fn.Name)
			}
			vs, ts = append(vs, fb.coq), append(ts, fb.t)
		}
	}
	if len(vs) == 1 {
		return vs[0], ts[0], nil
	}
	return "(" + strings.Join(vs, ", ") + ")", tupType(ts...), nil
}
