package rendergen

import (
	"fmt"
	"go/ast"
	"go/token"
	"math/big"
	"strings"
)

type big_Int = big.Int

var big_one = big.NewInt(1)

func ratInt(j int64) *big.Rat { return big.NewRat(j, 1) }

// ---------------------------------------------------------------- if

func (f *fctx) ifStmt(s *ast.IfStmt, rest []ast.Stmt, e env, k *cont, ind string) (string, error) {
	c, err := f.expr(s.Cond, e)
	if err != nil {
		return "", err
	}
	if c.t.k != kBool {
		return "", f.errf(s, "condition is not boolean")
	}
	thenL, elseL := s.Body.List, stmtList(s.Else)
	tt, et := terminates(thenL), terminates(elseL)
	exits := containsExit(thenL) || containsExit(elseL)
	if tt || et || exits {
		// `if c { ...; return e }` followed by the rest: the rest is the other branch.  Allowed in
		// the function body (return) and directly in a loop body (continue).  When a branch leaves
		// on some paths only, the rest follows both branches.
		if k != nil && !k.loop {
			return "", f.errf(s, "return / continue inside a block that can also fall through")
		}
		var a, b string
		switch {
		case tt && et:
			if !onlyMarkers(f, rest) {
				return "", f.errf(rest[0], "unreachable statement")
			}
			if a, err = f.stmts(thenL, e.clone(), k, ind+"  "); err != nil {
				return "", err
			}
			if b, err = f.stmts(elseL, e.clone(), k, ind); err != nil {
				return "", err
			}
		case tt:
			if a, err = f.stmts(thenL, e.clone(), k, ind+"  "); err != nil {
				return "", err
			}
			if b, err = f.stmts(f.block(elseL, e, rest), e, k, ind); err != nil {
				return "", err
			}
		case et:
			if b, err = f.stmts(elseL, e.clone(), k, ind); err != nil {
				return "", err
			}
			if a, err = f.stmts(f.block(thenL, e, rest), e, k, ind+"  "); err != nil {
				return "", err
			}
		default:
			ea, eb := e.clone(), e.clone()
			if a, err = f.stmts(f.block(thenL, ea, rest), ea, k, ind+"  "); err != nil {
				return "", err
			}
			if b, err = f.stmts(f.block(elseL, eb, rest), eb, k, ind); err != nil {
				return "", err
			}
		}
		out := ind + "if " + c.s + " then\n" + a + "\n"
		if strings.HasPrefix(strings.TrimLeft(b, " "), "if ") {
			return out + ind + "else " + strings.TrimLeft(b, " "), nil
		}
		return out + ind + "else\n" + indentMore(b), nil
	}
	var vars []string
	if err := f.assignedOuter(thenL, e, nil, &vars); err != nil {
		return "", err
	}
	if err := f.assignedOuter(elseL, e, nil, &vars); err != nil {
		return "", err
	}
	if len(vars) == 0 {
		return "", f.errf(s, "if statement without effect")
	}
	pat, _, err := f.pattern(s, vars, e)
	if err != nil {
		return "", err
	}
	ea, eb := e.clone(), e.clone()
	a, err := f.stmts(thenL, ea, &cont{vars: vars, scope: ea.snapshot()}, ind+"    ")
	if err != nil {
		return "", err
	}
	b, err := f.stmts(elseL, eb, &cont{vars: vars, scope: eb.snapshot()}, ind+"    ")
	if err != nil {
		return "", err
	}
	wrap := func(x string) string {
		tr := strings.TrimLeft(x, " ")
		if strings.Contains(x, "\n") || strings.HasPrefix(tr, "let ") || strings.HasPrefix(tr, "if ") || strings.HasPrefix(tr, "match ") {
			return x[:len(x)-len(tr)] + "(" + tr + ")"
		}
		return x
	}
	ifx := ind + "  if " + c.s + " then\n" + wrap(a) + "\n" + ind + "  else\n" + wrap(b)
	r, err := f.stmts(rest, e, k, ind)
	if err != nil {
		return "", err
	}
	return ind + "let " + pat + " :=\n" + ifx + " in\n" + r, nil
}

// ---------------------------------------------------------------- loops

// the header of a loop
type loopHead struct {
	body     []ast.Stmt
	inner    env      // the environment of the body (loop variables bound)
	head     string   // "zfor lo hi" or "fold_left"
	iter     string   // the lambda's second binder
	over     string   // fold_left: the list
	pre      string   // lets at the start of the body
	setup    string   // lets before the loop (the range expression, evaluated once)
	loopVars []string // what the header reads: the body may not assign it
	// unrolling
	n    int                                   // number of iterations when constant, else -1
	bind func(j int, e env, ind string) string // binds the loop variables of iteration j in e
}

const maxUnroll = 64

func idents(x ast.Expr) []string {
	var out []string
	ast.Inspect(x, func(n ast.Node) bool {
		if id, ok := n.(*ast.Ident); ok {
			out = append(out, id.Name)
		}
		return true
	})
	return out
}

func (f *fctx) constBinding(e env, name string, j int64) {
	v, _ := f.coerce(nil2(f), val{untyped: true, konst: true, isInt: true, rat: ratInt(j)}, tInt)
	f.newBinding(e, name, tInt).cval = &v
}

func (f *fctx) loopHeader(st ast.Stmt, e env) (*loopHead, error) {
	h := &loopHead{inner: e.clone(), n: -1}
	switch s := st.(type) {
	case *ast.ForStmt:
		h.body = s.Body.List
		init, ok := s.Init.(*ast.AssignStmt)
		if !ok || init.Tok != token.DEFINE || len(init.Lhs) != 1 || len(init.Rhs) != 1 {
			return nil, f.errf(s, "loop without `i := lo` initialisation")
		}
		iv, ok := init.Lhs[0].(*ast.Ident)
		if !ok {
			return nil, f.errf(s, "loop variable")
		}
		lo, err := f.expr(init.Rhs[0], e)
		if err != nil {
			return nil, err
		}
		if lo, err = f.coerce(s, lo, tInt); err != nil {
			return nil, err
		}
		cond, ok := s.Cond.(*ast.BinaryExpr)
		if !ok || exprString(cond.X) != iv.Name || (cond.Op != token.LSS && cond.Op != token.LEQ) {
			return nil, f.errf(s, "loop condition is not `%s < hi` / `%s <= hi`", iv.Name, iv.Name)
		}
		hi, err := f.expr(cond.Y, e)
		if err != nil {
			return nil, err
		}
		if hi, err = f.coerce(s, hi, tInt); err != nil {
			return nil, err
		}
		if lo.t.k != kInt || hi.t.k != kInt {
			return nil, f.errf(s, "loop bounds are not integers")
		}
		if lo.konst && hi.konst && lo.rat != nil && hi.rat != nil {
			d := new(big_Int).Sub(hi.rat.Num(), lo.rat.Num())
			if cond.Op == token.LEQ {
				d.Add(d, big_one)
			}
			if d.Sign() < 0 {
				d.SetInt64(0)
			}
			if d.IsInt64() && d.Int64() <= maxUnroll {
				h.n = int(d.Int64())
				lo0 := lo.rat.Num().Int64()
				h.bind = func(j int, en env, ind string) string {
					f.constBinding(en, iv.Name, lo0+int64(j))
					return ""
				}
			}
		}
		if cond.Op == token.LEQ {
			hi.s = "(Z.add " + hi.s + " 1%Z)"
		}
		stepOK := false
		switch post := s.Post.(type) {
		case *ast.IncDecStmt:
			stepOK = post.Tok == token.INC && exprString(post.X) == iv.Name
		case *ast.AssignStmt: // i += 1, i = i + 1
			if len(post.Lhs) == 1 && len(post.Rhs) == 1 && exprString(post.Lhs[0]) == iv.Name {
				stepOK = post.Tok == token.ADD_ASSIGN && exprString(post.Rhs[0]) == "1" ||
					post.Tok == token.ASSIGN && (exprString(post.Rhs[0]) == iv.Name+"+1" || exprString(post.Rhs[0]) == "1+"+iv.Name)
			}
		}
		if !stepOK {
			return nil, f.errf(s, "loop step is not `%s++`", iv.Name)
		}
		// the bound is evaluated once here: the body may not assign anything it mentions (a constant
		// bound - len of an array - mentions nothing)
		if !hi.konst {
			h.loopVars = idents(cond.Y)
		}
		h.loopVars = append(h.loopVars, iv.Name)
		b := f.newBinding(h.inner, iv.Name, tInt)
		h.head, h.iter = "zfor "+lo.s+" "+hi.s, "("+b.coq+" : Z)"
		return h, nil
	case *ast.RangeStmt:
		h.body = s.Body.List
		if s.Tok != token.DEFINE && (s.Key != nil || s.Value != nil) {
			return nil, f.errf(s, "range loop assigning existing variables")
		}
		a, err := f.expr(s.X, e)
		if err != nil {
			return nil, err
		}
		key, _ := s.Key.(*ast.Ident)
		value, _ := s.Value.(*ast.Ident)
		if s.Key != nil && key == nil || s.Value != nil && value == nil {
			return nil, f.errf(s, "range variables")
		}
		useKey := key != nil && key.Name != "_"
		useVal := value != nil && value.Name != "_"
		h.loopVars = idents(s.X)
		if a.untyped || a.t.k == kInt {
			// for i := range n
			if a, err = f.coerce(s, a, tInt); err != nil {
				return nil, err
			}
			if useVal || !useKey {
				return nil, f.errf(s, "range over an integer without a loop variable")
			}
			if a.konst && a.rat != nil && a.rat.Num().IsInt64() && a.rat.Num().Int64() <= maxUnroll {
				h.n = int(a.rat.Num().Int64())
				if h.n < 0 {
					h.n = 0
				}
				h.bind = func(j int, en env, ind string) string {
					f.constBinding(en, key.Name, int64(j))
					return ""
				}
			}
			h.loopVars = append(h.loopVars, key.Name)
			b := f.newBinding(h.inner, key.Name, tInt)
			h.head, h.iter = "zfor 0%Z "+a.s, "("+b.coq+" : Z)"
			return h, nil
		}
		if a.t.k == kTup && a.t.arr {
			// a small array (a tuple): always unrolled
			n := len(a.t.args)
			src := a.s
			if _, simple := unparen(s.X).(*ast.Ident); !simple {
				f.share().fresh["rgrange"]++
				src = fmt.Sprintf("rgrange%d", f.share().fresh["rgrange"])
				h.setup = "let " + src + " := " + a.s + " in\n"
			}
			h.n = n
			h.bind = func(j int, en env, ind string) string {
				out := ""
				if useKey {
					f.constBinding(en, key.Name, int64(j))
				}
				if useVal {
					b := f.newBinding(en, value.Name, a.t.args[j])
					out = ind + "let " + b.coq + " := " + proj(src, n, j) + " in\n"
				}
				return out
			}
			if !useKey && !useVal {
				h.bind = func(j int, en env, ind string) string { return "" }
			}
			return h, nil
		}
		if a.t.k != kList {
			return nil, f.errf(s, "range over %s", a.t.goName())
		}
		src := a.s
		switch unparen(s.X).(type) {
		case *ast.Ident, *ast.SelectorExpr:
		default:
			// evaluated once, before the loop
			f.share().fresh["rgrange"]++
			src = fmt.Sprintf("rgrange%d", f.share().fresh["rgrange"])
			h.setup = "let " + src + " := " + a.s + " in\n"
			h.loopVars = nil
		}
		z, _ := a.t.args[0].zero()
		length := "(zlen " + src + ")"
		if a.t.n >= 0 {
			length = zlit(ratInt(int64(a.t.n)).Num()) // an array: its length is part of the type
		}
		switch {
		case useKey:
			kb := f.newBinding(h.inner, key.Name, tInt)
			h.head, h.iter = "zfor 0%Z "+length, "("+kb.coq+" : Z)"
			h.loopVars = append(h.loopVars, key.Name)
			if useVal {
				// the element is read from the value the slice had when the loop started
				vb := f.newBinding(h.inner, value.Name, a.t.args[0])
				h.pre = "let " + vb.coq + " := (znth " + kb.coq + " " + src + " " + z + ") in\n"
				h.loopVars = append(h.loopVars, value.Name)
			} else if rk, ok := lhsKey(s.X); ok && h.setup == "" {
				// for i := range a { a[i] = .. } is fine: only the length is read
				h.loopVars = removeStr(h.loopVars, strings.SplitN(rk, ".", 2)[0])
				if !strings.Contains(rk, ".") {
					h.loopVars = removeStr(h.loopVars, rk)
				}
			}
		case useVal:
			vb := f.newBinding(h.inner, value.Name, a.t.args[0])
			h.head, h.iter = "fold_left", "("+vb.coq+" : "+a.t.args[0].coqAtom()+")"
			h.over = src
			h.loopVars = append(h.loopVars, value.Name)
		default:
			// for range a: only the number of iterations matters
			h.head, h.iter = "zfor 0%Z "+length, "(_ : Z)"
		}
		if a.t.n >= 0 && a.t.n <= maxUnroll {
			n := a.t.n
			h.n = n
			h.bind = func(j int, en env, ind string) string {
				out := ""
				if useKey {
					f.constBinding(en, key.Name, int64(j))
				}
				if useVal {
					b := f.newBinding(en, value.Name, a.t.args[0])
					out = ind + "let " + b.coq + " := (znth " + zlit(ratInt(int64(j)).Num()) + " " + src + " " + z + ") in\n"
				}
				return out
			}
		}
		return h, nil
	}
	return nil, f.errf(st, "unsupported loop")
}

// for i := lo; i < hi; i++ { body }  /  for i := range a  /  for i, v := range a  /  for _, v := range a  /  for i := range n.
// The result is the `let` binding the variables the loop assigns (done = false), or - for a loop that is
// unrolled (a small array, or constant bounds and a body that leaves the loop early) - the translation of
// the loop and everything after it (done = true).
func (f *fctx) loop(st ast.Stmt, rest []ast.Stmt, e env, k *cont, ind string) (string, bool, error) {
	h, err := f.loopHeader(st, e)
	if err != nil {
		return "", false, err
	}
	var zerr error
	if h.head != "" {
		l, err := f.zforLoop(st, h, e, ind)
		if err == nil {
			return l, false, nil
		}
		zerr = err
	}
	if h.n < 0 {
		return "", false, zerr
	}
	out, err := f.unroll(st, h, rest, e, k, ind)
	if err != nil {
		if zerr != nil {
			return "", false, zerr
		}
		return "", false, err
	}
	return out, true, nil
}

func (f *fctx) zforLoop(st ast.Stmt, h *loopHead, e env, ind string) (string, error) {
	var vars []string
	if err := f.assignedOuter(h.body, h.inner, nil, &vars); err != nil {
		return "", err
	}
	if len(vars) == 0 {
		return "", f.errf(st, "loop without effect on the variables of the function")
	}
	for _, v := range vars {
		root := strings.SplitN(v, ".", 2)[0]
		for _, lv := range h.loopVars {
			if lv == v || lv == root && !strings.Contains(v, ".") {
				return "", f.errf(st, "the loop body assigns %s, which the loop header reads", v)
			}
		}
	}
	pat, ty, err := f.pattern(st, vars, e)
	if err != nil {
		return "", err
	}
	f.inLoop++
	b, err := f.stmts(h.body, h.inner, &cont{vars: vars, loop: true, scope: h.inner.snapshot()}, ind+"      ")
	f.inLoop--
	if err != nil {
		return "", err
	}
	init, err := f.yield(st, vars, e, nil)
	if err != nil {
		return "", err
	}
	stName := "rgst"
	lam := "(fun (" + stName + " : " + ty + ") " + h.iter + " =>\n"
	if strings.HasPrefix(pat, "'") {
		lam += ind + "      let " + pat + " := " + stName + " in\n"
	} else {
		lam = "(fun (" + pat + " : " + ty + ") " + h.iter + " =>\n"
	}
	if h.pre != "" {
		lam += ind + "      " + h.pre
	}
	lam += b + ")"
	setup := ""
	if h.setup != "" {
		setup = ind + h.setup
	}
	if h.over != "" {
		return setup + ind + "let " + pat + " :=\n" + ind + "    fold_left " + lam + " " + h.over + " " + init + " in\n", nil
	}
	return setup + ind + "let " + pat + " :=\n" + ind + "    " + h.head + " " + lam + " " + init + " in\n", nil
}

// unroll translates a loop with a constant number of iterations as that many copies of its body, each a
// scope of its own with the loop variables bound to their values, followed by rest.  continue / break
// go to the next copy / to rest.
func (f *fctx) unroll(st ast.Stmt, h *loopHead, rest []ast.Stmt, e env, k *cont, ind string) (string, error) {
	// the range expression is evaluated (an array: copied) once, before the first iteration
	var assigned []string
	if err := f.assignedOuter(h.body, e, nil, &assigned); err != nil {
		return "", err
	}
	for _, v := range assigned {
		root := strings.SplitN(v, ".", 2)[0]
		for _, lv := range h.loopVars {
			if lv == root {
				return "", f.errf(st, "the loop body assigns %s, which the loop header reads", v)
			}
		}
	}
	var iter func(j int, e env, k *cont, ind string) (string, error)
	iter = func(j int, e env, k *cont, ind string) (string, error) {
		if j >= h.n {
			return f.stmts(rest, e, k, ind)
		}
		saved := e.snapshot()
		depth := len(f.frames)
		jump := func(toRest bool) markFn {
			return func(e2 env, k2 *cont, ind2 string) (string, bool, error) {
				old := f.frames
				f.frames = old[:depth:depth]
				defer func() { f.frames = old }()
				e2.restore(saved)
				var out string
				var err error
				if toRest {
					out, err = f.stmts(rest, e2, k2, ind2)
				} else {
					out, err = iter(j+1, e2, k2, ind2)
				}
				return out, true, err
			}
		}
		fr := &unrollFrame{level: f.inLoop + f.tloop, next: jump(false), brk: jump(true)}
		f.frames = append(f.frames[:depth:depth], fr)
		pre := h.bind(j, e, ind)
		list := append(append([]ast.Stmt{}, h.body...), f.mark(fr.next))
		out, err := f.stmts(list, e, k, ind)
		f.frames = f.frames[:depth]
		if err != nil {
			return "", err
		}
		return pre + out, nil
	}
	out, err := iter(0, e, k, ind)
	if err != nil {
		return "", err
	}
	if h.setup != "" {
		return ind + h.setup + out, nil
	}
	return out, nil
}

func removeStr(l []string, s string) []string {
	var out []string
	for _, x := range l {
		if x != s {
			out = append(out, x)
		}
	}
	return out
}
