package rendergen

import (
	"fmt"
	"go/ast"
	"go/parser"
	"go/token"
	"strings"
)

// ---------------------------------------------------------------- environment

type binding struct {
	coq    string
	t      typ
	frozen bool // its address was taken: may not be assigned any more
	// a struct parameter / receiver: the fields used become parameters <name>_<field>
	flat  bool
	used  map[string]typ
	order []string // opaque methods in order of first use
	// a struct value under construction: the current value of each field
	fields     map[string]*binding
	structName string
}

type env map[string]*binding

func (e env) clone() env {
	c := env{}
	for k, v := range e {
		if v.flat {
			c[k] = v // shared: records the fields used
			continue
		}
		b := *v
		if v.fields != nil {
			b.fields = map[string]*binding{}
			for fk, fv := range v.fields {
				fb := *fv
				b.fields[fk] = &fb
			}
		}
		c[k] = &b
	}
	return c
}

// a variable key is "x" or "x.f" (field of a struct under construction)
func (e env) get(key string) *binding {
	if i := strings.Index(key, "."); i >= 0 {
		b := e[key[:i]]
		if b == nil || b.fields == nil {
			return nil
		}
		return b.fields[key[i+1:]]
	}
	b := e[key]
	if b == nil || b.fields != nil || b.flat {
		return nil
	}
	return b
}

type fctx struct {
	g      *gen
	p      *pkg
	file   *srcFile
	key    string
	opt    *Target
	ret    typ      // result type
	named  []string // named results
	recv   string   // mutator: the receiver variable, returned at every exit
	cut    bool     // prefix target: the cut was reached
	inLoop int
	trace  bool   // trace target: the result is the list of events
	evT    [2]typ // payload types of RgCall / RgOut
	evSet  [2]bool
}

func (f *fctx) errf(n ast.Node, format string, a ...interface{}) error {
	pos := f.g.fset.Position(n.Pos())
	return fmt.Errorf("rendergen: %s.%s (%s:%d): %s", f.p.name, f.key, f.file.rel, pos.Line, fmt.Sprintf(format, a...))
}

func (f *fctx) goType(e ast.Expr) (typ, error) { return f.g.goType(f.p, f.file, e) }

// Go identifiers that would clash with Gallina keywords or emitted names are renamed
var reserved = map[string]bool{}

func init() {
	for _, w := range strings.Fields(`O T V2 V3 Box2 Box3 mkV2 mkV3 mkBox2 mkBox3 vx vy wx wy wz b2min b2max b3min b3max
		o0 o1 two half cst sq ofZ negb andb orb xorb bool list nth option Some None fst snd pair unit tt Z N nat
		oadd osub omul odiv oneg oabs osqrt oltb oleb oeqb omin omax otoZ ofloor oceil ofmod osin ocos otan oatan oatan2 oacos
		opi omaxf true false zfor znth zupd zlen zrepeat zrange fold_left map filter repeat length app
		v2zero v3zero
		as at cofix else end exists exists2 fix for forall fun if IF in let match mod Prop return Set then Type using where with
		Definition Lemma Theorem Proof Qed Section End Context Import Export Require From`) {
		reserved[w] = true
	}
}

func coqIdent(name string) string {
	if reserved[name] || strings.Contains(name, "_") || strings.HasPrefix(name, "rg") {
		return name + "_"
	}
	return name
}

// field of a struct parameter (-> parameter) or of a struct under construction (-> current value)
func (f *fctx) structField(n ast.Node, b *binding, goVar, name string) (val, error) {
	sname := b.structName
	q := f.p
	if b.flat {
		i := strings.Index(b.t.named, ".")
		q, sname = f.g.pkgs[b.t.named[:i]], b.t.named[i+1:]
	}
	st := q.structs[sname]
	var ft *typ
	for _, fl := range st.Fields.List {
		for _, fn := range fl.Names {
			if fn.Name == name {
				t, err := f.g.goType(q, q.fileOf[sname], fl.Type)
				if err != nil {
					return val{}, f.errf(n, "field %s.%s: %v", sname, name, err)
				}
				ft = &t
			}
		}
	}
	if ft == nil {
		return val{}, f.errf(n, "%s has no field %s", sname, name)
	}
	if ft.k == kOpaque || ft.k == kStruct {
		return val{}, f.errf(n, "field %s.%s has type %s, which is not modelled", sname, name, ft.named)
	}
	if b.flat {
		b.used[name] = *ft
		return val{s: b.coq + "_" + name, t: *ft}, nil
	}
	if fb, ok := b.fields[name]; ok {
		return val{s: fb.coq, t: fb.t}, nil
	}
	return val{}, f.errf(n, "field %s.%s is read before it is assigned", goVar, name)
}

// ---------------------------------------------------------------- statement analysis

// cont: what a statement list yields when control falls off its end: the current values of vars
// (a branch of an if statement / a loop body).  nil = the function body.
type cont struct {
	vars []string
	loop bool // the body of a loop: `continue` yields the same
}

func stmtList(s ast.Stmt) []ast.Stmt {
	switch x := s.(type) {
	case nil:
		return nil
	case *ast.BlockStmt:
		return x.List
	}
	return []ast.Stmt{s}
}

// every path through the list ends in a return (or, in a loop body, a continue)
func terminates(list []ast.Stmt) bool {
	if len(list) == 0 {
		return false
	}
	switch x := list[len(list)-1].(type) {
	case *ast.ReturnStmt:
		return true
	case *ast.BranchStmt:
		return x.Tok == token.CONTINUE && x.Label == nil
	case *ast.IfStmt:
		return x.Else != nil && terminates(x.Body.List) && terminates(stmtList(x.Else))
	}
	return false
}

func containsExit(list []ast.Stmt) bool {
	found := false
	for _, s := range list {
		ast.Inspect(s, func(n ast.Node) bool {
			switch x := n.(type) {
			case *ast.FuncLit:
				return false
			case *ast.ForStmt, *ast.RangeStmt:
				// a continue inside a nested loop belongs to that loop; a return does not
				ast.Inspect(n, func(m ast.Node) bool {
					if _, ok := m.(*ast.ReturnStmt); ok {
						found = true
					}
					return true
				})
				return false
			case *ast.ReturnStmt:
				found = true
			case *ast.BranchStmt:
				_ = x
				found = true
			}
			return true
		})
	}
	return found
}

func lhsKey(l ast.Expr) (string, bool) {
	switch x := l.(type) {
	case *ast.Ident:
		return x.Name, true
	case *ast.IndexExpr:
		return lhsKey(x.X)
	case *ast.SelectorExpr:
		if id, ok := x.X.(*ast.Ident); ok {
			return id.Name + "." + x.Sel.Name, true
		}
	case *ast.ParenExpr:
		return lhsKey(x.X)
	}
	return "", false
}

// variables of the enclosing scopes assigned by the list, in order of first assignment.  A key
// "x.f" is reduced to "x" when x is a plain local (p.X = ..) by the caller's env.
func (f *fctx) assignedOuter(list []ast.Stmt, e env, declared map[string]bool, out *[]string) error {
	local := map[string]bool{}
	for k := range declared {
		local[k] = true
	}
	add := func(n ast.Node, l ast.Expr) error {
		key, ok := lhsKey(l)
		if !ok {
			return f.errf(n, "unsupported assignment target %s", exprString(l))
		}
		root := key
		if i := strings.Index(key, "."); i >= 0 {
			root = key[:i]
			if b := e[root]; b != nil && b.fields == nil {
				key = root // field of a vector-valued local: the local is assigned
			}
		}
		if key == "_" || local[root] {
			return nil
		}
		*out = appendOnce(*out, key)
		return nil
	}
	for _, s := range list {
		switch x := s.(type) {
		case *ast.AssignStmt:
			for _, l := range x.Lhs {
				if id, ok := l.(*ast.Ident); ok && x.Tok == token.DEFINE {
					local[id.Name] = true
					continue
				}
				if err := add(x, l); err != nil {
					return err
				}
			}
		case *ast.IncDecStmt:
			if err := add(x, x.X); err != nil {
				return err
			}
		case *ast.DeclStmt:
			if gd, ok := x.Decl.(*ast.GenDecl); ok {
				for _, sp := range gd.Specs {
					if vs, ok := sp.(*ast.ValueSpec); ok {
						for _, n := range vs.Names {
							local[n.Name] = true
						}
					}
				}
			}
		case *ast.IfStmt:
			if err := f.assignedOuter(x.Body.List, e, local, out); err != nil {
				return err
			}
			if err := f.assignedOuter(stmtList(x.Else), e, local, out); err != nil {
				return err
			}
		case *ast.ForStmt:
			inner := map[string]bool{}
			for k := range local {
				inner[k] = true
			}
			if as, ok := x.Init.(*ast.AssignStmt); ok && as.Tok == token.DEFINE {
				for _, l := range as.Lhs {
					if id, ok := l.(*ast.Ident); ok {
						inner[id.Name] = true
					}
				}
			}
			if err := f.assignedOuter(x.Body.List, e, inner, out); err != nil {
				return err
			}
		case *ast.RangeStmt:
			inner := map[string]bool{}
			for k := range local {
				inner[k] = true
			}
			if x.Tok == token.DEFINE {
				for _, l := range []ast.Expr{x.Key, x.Value} {
					if id, ok := l.(*ast.Ident); ok {
						inner[id.Name] = true
					}
				}
			}
			if err := f.assignedOuter(x.Body.List, e, inner, out); err != nil {
				return err
			}
		}
	}
	return nil
}

func declares(list []ast.Stmt) bool {
	for _, s := range list {
		switch x := s.(type) {
		case *ast.AssignStmt:
			if x.Tok == token.DEFINE {
				return true
			}
		case *ast.DeclStmt:
			return true
		}
	}
	return false
}

func indentMore(s string) string { return "  " + strings.ReplaceAll(s, "\n", "\n  ") }

func sameVars(a, b []string) bool {
	if len(a) != len(b) {
		return false
	}
	for i := range a {
		if a[i] != b[i] {
			return false
		}
	}
	return true
}

func callsOf(s ast.Stmt, name string) bool {
	found := false
	ast.Inspect(s, func(n ast.Node) bool {
		if c, ok := n.(*ast.CallExpr); ok && exprString(c.Fun) == name {
			found = true
		}
		return true
	})
	return found
}

// the tuple (or single value) of the current values of vars
func (f *fctx) yield(n ast.Node, vars []string, e env) (string, error) {
	var vs []string
	for _, v := range vars {
		b := e.get(v)
		if b == nil {
			return "", f.errf(n, "%s is not a plain variable here", v)
		}
		vs = append(vs, b.coq)
	}
	if len(vs) == 1 {
		return vs[0], nil
	}
	return "(" + strings.Join(vs, ", ") + ")", nil
}

func (f *fctx) pattern(n ast.Node, vars []string, e env) (pat string, ty string, err error) {
	var ns, ts []string
	for _, v := range vars {
		b := e.get(v)
		if b == nil {
			return "", "", f.errf(n, "assignment to %s: not a plain local variable of this function", v)
		}
		if b.frozen {
			return "", "", f.errf(n, "assignment to %s after its address was taken", v)
		}
		ns, ts = append(ns, b.coq), append(ts, b.t.coqAtom())
	}
	if len(ns) == 1 {
		return ns[0], ts[0], nil
	}
	return "'(" + strings.Join(ns, ", ") + ")", "(" + strings.Join(ts, " * ") + ")%type", nil
}

// ---------------------------------------------------------------- assignment

// assign translates `lhs = v` and returns the `let` line
func (f *fctx) assign(n ast.Node, lhs ast.Expr, v val, define bool, e env, ind string) (string, error) {
	switch l := lhs.(type) {
	case *ast.ParenExpr:
		return f.assign(n, l.X, v, define, e, ind)
	case *ast.Ident:
		if l.Name == "_" {
			return "", nil
		}
		var err error
		if define {
			if v, err = f.deflt(n, v); err != nil {
				return "", err
			}
			if v.t.k == kOpaque || v.t.k == kStruct || v.t.k == kUnit || v.t.k == kOpt {
				return "", f.errf(n, "variable %s of type %s", l.Name, v.t.goName())
			}
			e[l.Name] = &binding{coq: coqIdent(l.Name), t: v.t}
		} else {
			b := e.get(l.Name)
			if b == nil {
				return "", f.errf(n, "assignment to %s, which is not a plain local variable", l.Name)
			}
			if b.frozen {
				return "", f.errf(n, "assignment to %s after its address was taken", l.Name)
			}
			if v, err = f.coerce(n, v, b.t); err != nil {
				return "", err
			}
			if !b.t.eq(v.t) {
				return "", f.errf(n, "assignment of %s to %s %s", v.t.goName(), b.t.goName(), l.Name)
			}
		}
		return ind + "let " + e[l.Name].coq + " := " + v.s + " in\n", nil
	case *ast.IndexExpr:
		key, ok := lhsKey(l.X)
		var b *binding
		if ok {
			b = e.get(key)
		}
		if _, nested := l.X.(*ast.IndexExpr); nested || b == nil {
			return "", f.errf(n, "unsupported assignment target %s", exprString(lhs))
		}
		if b.frozen {
			return "", f.errf(n, "assignment to %s after its address was taken", key)
		}
		var err error
		switch {
		case b.t.k == kTup && b.t.arr:
			i, ok := constIndex(l.Index)
			if !ok || i < 0 || i >= len(b.t.args) {
				return "", f.errf(n, "index of a %s must be a literal in range", b.t.goName())
			}
			if v, err = f.coerce(n, v, b.t.args[i]); err != nil {
				return "", err
			}
			if !v.t.eq(b.t.args[i]) {
				return "", f.errf(n, "assignment of %s to an element of %s", v.t.goName(), b.t.goName())
			}
			var ps []string
			for j := range b.t.args {
				if j == i {
					ps = append(ps, v.s)
				} else {
					ps = append(ps, proj(b.coq, len(b.t.args), j))
				}
			}
			return ind + "let " + b.coq + " := (" + strings.Join(ps, ", ") + ") in\n", nil
		case b.t.k == kList:
			iv, err := f.expr(l.Index, e)
			if err != nil {
				return "", err
			}
			if iv, err = f.coerce(n, iv, tInt); err != nil {
				return "", err
			}
			if iv.t.k != kInt {
				return "", f.errf(n, "index of type %s", iv.t.goName())
			}
			if v, err = f.coerce(n, v, b.t.args[0]); err != nil {
				return "", err
			}
			if !v.t.eq(b.t.args[0]) {
				return "", f.errf(n, "assignment of %s to an element of %s", v.t.goName(), b.t.goName())
			}
			return ind + "let " + b.coq + " := (zupd " + b.coq + " " + iv.s + " " + v.s + ") in\n", nil
		}
		return "", f.errf(n, "index assignment to %s", b.t.goName())
	case *ast.SelectorExpr:
		id, ok := l.X.(*ast.Ident)
		if !ok {
			return "", f.errf(n, "unsupported assignment target %s", exprString(lhs))
		}
		b := e[id.Name]
		if b == nil || b.flat {
			return "", f.errf(n, "unsupported assignment target %s", exprString(lhs))
		}
		if b.fields != nil {
			return f.setField(n, b, id.Name, l.Sel.Name, v, ind)
		}
		if b.frozen {
			return "", f.errf(n, "assignment to %s after its address was taken", id.Name)
		}
		// p.X = e on a vector-valued local
		var names []string
		var mk string
		switch b.t.k {
		case kV2:
			names, mk = []string{"X:vx", "Y:vy"}, "mkV2"
		case kV3:
			names, mk = []string{"X:wx", "Y:wy", "Z:wz"}, "mkV3"
		default:
			return "", f.errf(n, "assignment to field %s of %s", l.Sel.Name, b.t.goName())
		}
		var err error
		if v, err = f.coerce(n, v, tT); err != nil {
			return "", err
		}
		if v.t.k != kT {
			return "", f.errf(n, "assignment of %s to a float64 field", v.t.goName())
		}
		var ps []string
		hit := false
		for _, nm := range names {
			parts := strings.Split(nm, ":")
			if parts[0] == l.Sel.Name {
				ps, hit = append(ps, v.s), true
			} else {
				ps = append(ps, "("+parts[1]+" "+b.coq+")")
			}
		}
		if !hit {
			return "", f.errf(n, "field %s of %s", l.Sel.Name, b.t.goName())
		}
		return ind + "let " + b.coq + " := (" + mk + " " + strings.Join(ps, " ") + ") in\n", nil
	}
	return "", f.errf(n, "unsupported assignment target %s", exprString(lhs))
}

func (f *fctx) setField(n ast.Node, b *binding, goVar, name string, v val, ind string) (string, error) {
	st := f.p.structs[b.structName]
	var ft *typ
	for _, fl := range st.Fields.List {
		for _, fn := range fl.Names {
			if fn.Name == name {
				t, err := f.goType(fl.Type)
				if err != nil {
					return "", f.errf(n, "field %s.%s: %v", b.structName, name, err)
				}
				ft = &t
			}
		}
	}
	if ft == nil {
		return "", f.errf(n, "%s has no field %s", b.structName, name)
	}
	var err error
	if v, err = f.coerce(n, v, *ft); err != nil {
		return "", err
	}
	if !v.t.eq(*ft) {
		return "", f.errf(n, "assignment of %s to field %s.%s of type %s", v.t.goName(), goVar, name, ft.goName())
	}
	c := b.coq + "_" + name
	b.fields[name] = &binding{coq: c, t: *ft}
	return ind + "let " + c + " := " + v.s + " in\n", nil
}

// the current value of a (target of an) operator assignment
func (f *fctx) current(lhs ast.Expr, e env) (val, error) { return f.expr(lhs, e) }

// ---------------------------------------------------------------- statements

// stmts translates a statement list into one Gallina expression; every line is indented by ind.
func (f *fctx) stmts(list []ast.Stmt, e env, k *cont, ind string) (string, error) {
	if len(list) == 0 {
		if k == nil && f.trace {
			return ind + "[]", nil
		}
		if k == nil {
			return f.fallOff(ind, e)
		}
		y, err := f.yield(nil2(f), k.vars, e)
		return ind + y, err
	}
	st, rest := list[0], list[1:]
	// prefix target: stop before the first statement calling opt.Upto
	if k == nil && f.opt != nil && f.opt.Upto != "" && f.inLoop == 0 && callsOf(st, f.opt.Upto) {
		return f.cutHere(st, e, ind)
	}
	next := func(pre string) (string, error) {
		r, err := f.stmts(rest, e, k, ind)
		if err != nil {
			return "", err
		}
		return pre + r, nil
	}
	if f.trace && k == nil && f.inLoop == 0 {
		if out, ok, err := f.traceStmt(st, rest, e, ind); ok || err != nil {
			return out, err
		}
	}
	switch s := st.(type) {
	case *ast.EmptyStmt:
		return f.stmts(rest, e, k, ind)

	case *ast.DeclStmt:
		gd, ok := s.Decl.(*ast.GenDecl)
		if !ok || gd.Tok != token.VAR {
			return "", f.errf(s, "unsupported declaration")
		}
		var lets string
		for _, sp := range gd.Specs {
			vs := sp.(*ast.ValueSpec)
			if len(vs.Values) != 0 || vs.Type == nil {
				return "", f.errf(s, "var declaration with initial values (use :=)")
			}
			t, err := f.goType(vs.Type)
			if err != nil {
				return "", f.errf(s, "%v", err)
			}
			z, ok := t.zero()
			if !ok {
				return "", f.errf(s, "var declaration of %s", t.goName())
			}
			for _, n := range vs.Names {
				e[n.Name] = &binding{coq: coqIdent(n.Name), t: t}
				lets += ind + "let " + coqIdent(n.Name) + " := " + z + " in\n"
			}
		}
		return next(lets)

	case *ast.IncDecStmt:
		cur, err := f.current(s.X, e)
		if err != nil {
			return "", err
		}
		op := token.ADD
		if s.Tok == token.DEC {
			op = token.SUB
		}
		one := val{untyped: true, konst: true, isInt: true, rat: ratOne()}
		v, err := f.binary(s, op, cur, one)
		if err != nil {
			return "", err
		}
		l, err := f.assign(s, s.X, v, false, e, ind)
		if err != nil {
			return "", err
		}
		return next(l)

	case *ast.AssignStmt:
		return f.assignStmt(s, rest, e, k, ind)

	case *ast.ReturnStmt:
		if k != nil || f.inLoop > 0 {
			return "", f.errf(s, "return inside a block that can also fall through")
		}
		if len(rest) != 0 {
			return "", f.errf(rest[0], "statement after return")
		}
		return f.returnStmt(s, e, ind)

	case *ast.BranchStmt:
		if s.Tok != token.CONTINUE || s.Label != nil || k == nil || !k.loop {
			return "", f.errf(s, "unsupported %s", s.Tok)
		}
		if len(rest) != 0 {
			return "", f.errf(rest[0], "statement after continue")
		}
		y, err := f.yield(s, k.vars, e)
		return ind + y, err

	case *ast.IfStmt:
		return f.ifStmt(s, rest, e, k, ind)

	case *ast.ForStmt, *ast.RangeStmt:
		l, err := f.loop(st, e, ind)
		if err != nil {
			return "", err
		}
		return next(l)
	}
	return "", f.errf(st, "unsupported statement %T", st)
}

func nil2(f *fctx) ast.Node { return f.p.funcs[f.key] }

func (f *fctx) assignStmt(s *ast.AssignStmt, rest []ast.Stmt, e env, k *cont, ind string) (string, error) {
	next := func(pre string) (string, error) {
		r, err := f.stmts(rest, e, k, ind)
		if err != nil {
			return "", err
		}
		return pre + r, nil
	}
	define := s.Tok == token.DEFINE
	if len(s.Lhs) > 1 && len(s.Rhs) == 1 {
		// a, b := f(..)
		v, err := f.expr(s.Rhs[0], e)
		if err != nil {
			return "", err
		}
		if s.Tok != token.DEFINE && s.Tok != token.ASSIGN {
			return "", f.errf(s, "unsupported assignment operator %s", s.Tok)
		}
		if v.t.k == kOpt && len(s.Lhs) == 2 {
			return f.optBind(s, v, rest, e, k, ind)
		}
		if v.t.k != kTup || v.t.arr || len(v.t.args) != len(s.Lhs) {
			return "", f.errf(s, "assignment of %s to %d variables", v.t.goName(), len(s.Lhs))
		}
		var names []string
		for i, l := range s.Lhs {
			id, ok := l.(*ast.Ident)
			if !ok {
				return "", f.errf(s, "unsupported tuple assignment target %s", exprString(l))
			}
			if id.Name == "_" {
				names = append(names, "_")
				continue
			}
			if define {
				// := declares the names that are new in this scope; re-using a name is a `let` too
				e[id.Name] = &binding{coq: coqIdent(id.Name), t: v.t.args[i]}
			} else {
				b := e.get(id.Name)
				if b == nil || !b.t.eq(v.t.args[i]) || b.frozen {
					return "", f.errf(s, "assignment of %s to %s", v.t.args[i].goName(), id.Name)
				}
			}
			names = append(names, e[id.Name].coq)
		}
		return next(ind + "let '(" + strings.Join(names, ", ") + ") := " + v.s + " in\n")
	}
	if len(s.Lhs) != len(s.Rhs) {
		return "", f.errf(s, "unsupported assignment of a multi-valued expression")
	}
	if len(s.Lhs) > 1 {
		// a, b = e1, e2: all right-hand sides are evaluated before any assignment
		if s.Tok != token.ASSIGN && s.Tok != token.DEFINE {
			return "", f.errf(s, "unsupported tuple assignment operator %s", s.Tok)
		}
		var tmp []string
		var lets string
		var vs []val
		for i, r := range s.Rhs {
			v, err := f.expr(r, e)
			if err != nil {
				return "", err
			}
			if define {
				if v, err = f.deflt(r, v); err != nil {
					return "", err
				}
			} else if v.untyped {
				lv, err := f.expr(s.Lhs[i], e)
				if err != nil {
					return "", err
				}
				if v, err = f.coerce(r, v, lv.t); err != nil {
					return "", err
				}
			}
			t := fmt.Sprintf("rgtmp%d", i)
			tmp = append(tmp, t)
			lets += ind + "let " + t + " := " + v.s + " in\n"
			vs = append(vs, val{s: t, t: v.t})
		}
		for i, l := range s.Lhs {
			a, err := f.assign(s, l, vs[i], define, e, ind)
			if err != nil {
				return "", err
			}
			lets += a
		}
		return next(lets)
	}
	lhs := s.Lhs[0]
	// x := T{..} of a struct type of this package: a struct under construction
	if cl, ok := s.Rhs[0].(*ast.CompositeLit); ok && define {
		if tid, ok := cl.Type.(*ast.Ident); ok && f.p.structs[tid.Name] != nil {
			id, ok := lhs.(*ast.Ident)
			if !ok || k != nil {
				return "", f.errf(s, "struct construction inside a branch")
			}
			lets, b, err := f.structLit(cl, tid.Name, id.Name, e, ind)
			if err != nil {
				return "", err
			}
			e[id.Name] = b
			return next(lets)
		}
	}
	v, err := f.expr(s.Rhs[0], e)
	if err != nil {
		return "", err
	}
	if op, isOp := opAssign[s.Tok]; isOp {
		cur, err := f.current(lhs, e)
		if err != nil {
			return "", err
		}
		if v, err = f.binary(s, op, cur, v); err != nil {
			return "", err
		}
	} else if s.Tok != token.ASSIGN && s.Tok != token.DEFINE {
		return "", f.errf(s, "unsupported assignment operator %s", s.Tok)
	}
	l, err := f.assign(s, lhs, v, define, e, ind)
	if err != nil {
		return "", err
	}
	return next(l)
}

// c, err := g(..); if err != nil { A }; rest   ->   match g .. with None => A | Some c => rest end
func (f *fctx) optBind(s *ast.AssignStmt, v val, rest []ast.Stmt, e env, k *cont, ind string) (string, error) {
	if k != nil {
		return "", f.errf(s, "call of a function returning an error inside a branch")
	}
	id0, ok0 := s.Lhs[0].(*ast.Ident)
	id1, ok1 := s.Lhs[1].(*ast.Ident)
	if !ok0 || !ok1 || id1.Name == "_" || len(rest) == 0 {
		return "", f.errf(s, "the error result must be tested by the next statement")
	}
	ifs, ok := rest[0].(*ast.IfStmt)
	if !ok || ifs.Init != nil || ifs.Else != nil || !terminates(ifs.Body.List) {
		return "", f.errf(s, "the error result must be tested by `if %s != nil { .. return }` next", id1.Name)
	}
	be, ok := ifs.Cond.(*ast.BinaryExpr)
	if !ok || be.Op != token.NEQ || exprString(be.X) != id1.Name || !isNil(be.Y, e) {
		return "", f.errf(s, "the error result must be tested by `if %s != nil { .. return }` next", id1.Name)
	}
	errEnv := e.clone()
	errEnv[id1.Name] = &binding{coq: "?", t: typ{k: kOpaque, named: "error"}}
	if id0.Name != "_" {
		z, _ := v.t.args[0].zero()
		errEnv[id0.Name] = &binding{coq: z, t: v.t.args[0]}
	}
	a, err := f.stmts(ifs.Body.List, errEnv, nil, ind+"    ")
	if err != nil {
		return "", err
	}
	pat := "_"
	if id0.Name != "_" {
		e[id0.Name] = &binding{coq: coqIdent(id0.Name), t: v.t.args[0]}
		pat = coqIdent(id0.Name)
	}
	e[id1.Name] = &binding{coq: "?", t: typ{k: kOpaque, named: "error"}}
	b, err := f.stmts(rest[1:], e, nil, ind+"    ")
	if err != nil {
		return "", err
	}
	return ind + "match " + v.s + " with\n" + ind + "| None =>\n" + a + "\n" + ind + "| Some " + pat + " =>\n" + b + "\n" + ind + "end", nil
}

func (f *fctx) structLit(x *ast.CompositeLit, sname, goVar string, e env, ind string) (string, *binding, error) {
	b := &binding{coq: coqIdent(goVar), structName: sname, fields: map[string]*binding{}}
	var lets strings.Builder
	for _, el := range x.Elts {
		kv, ok := el.(*ast.KeyValueExpr)
		if !ok {
			return "", nil, f.errf(x, "positional %s literal", sname)
		}
		key, ok := kv.Key.(*ast.Ident)
		if !ok {
			return "", nil, f.errf(x, "unsupported key in %s literal", sname)
		}
		if f.opt != nil && f.opt.SkipFields[key.Name] {
			continue
		}
		v, err := f.expr(kv.Value, e)
		if err != nil {
			return "", nil, err
		}
		l, err := f.setField(kv, b, goVar, key.Name, v, ind)
		if err != nil {
			return "", nil, err
		}
		lets.WriteString(l)
	}
	return lets.String(), b, nil
}

// the value a struct under construction stands for: the tuple of its modelled fields, in
// declaration order (fields listed in SkipFields are left out; the others must have been set)
func (f *fctx) structValue(n ast.Node, b *binding) (string, typ, error) {
	var vs []string
	var ts []typ
	for _, fl := range f.p.structs[b.structName].Fields.List {
		for _, fn := range fl.Names {
			if f.opt != nil && f.opt.SkipFields[fn.Name] {
				continue
			}
			fb, ok := b.fields[fn.Name]
			if !ok {
				return "", typ{}, f.errf(n, "field %s.%s is neither set nor listed as not modelled", b.structName, fn.Name)
			}
			vs, ts = append(vs, fb.coq), append(ts, fb.t)
		}
	}
	if len(vs) == 1 {
		return vs[0], ts[0], nil
	}
	return "(" + strings.Join(vs, ", ") + ")", tupType(ts...), nil
}

func (f *fctx) fallOff(ind string, e env) (string, error) {
	if f.recv != "" {
		b := e.get(f.recv)
		if b == nil {
			return "", fmt.Errorf("rendergen: %s.%s: receiver lost", f.p.name, f.key)
		}
		return ind + b.coq, nil
	}
	return "", fmt.Errorf("rendergen: %s.%s: control reaches the end of the function without a return", f.p.name, f.key)
}

func (f *fctx) returnStmt(s *ast.ReturnStmt, e env, ind string) (string, error) {
	if f.recv != "" {
		if len(s.Results) != 0 {
			return "", f.errf(s, "return of a value from a method translated as a receiver update")
		}
		return f.fallOff(ind, e)
	}
	if len(s.Results) == 0 {
		if len(f.named) == 0 {
			return "", f.errf(s, "return without a value")
		}
		y, err := f.yield(s, f.named, e)
		return ind + y, err
	}
	if f.ret.k == kOpt {
		if len(s.Results) != 2 {
			return "", f.errf(s, "return of %d values", len(s.Results))
		}
		if !isNil(s.Results[1], e) {
			// the error value: ErrMsg(..), errors.New(..), fmt.Errorf(..), err - only nil-ness matters
			switch x := s.Results[1].(type) {
			case *ast.CallExpr:
			case *ast.Ident:
				if b, ok := e[x.Name]; !ok || b.t.named != "error" {
					return "", f.errf(s, "unsupported error result")
				}
			default:
				return "", f.errf(s, "unsupported error result")
			}
			return ind + "None", nil
		}
		v, err := f.retValue(s, s.Results[0], f.ret.args[0], e)
		if err != nil {
			return "", err
		}
		return ind + "(Some " + v + ")", nil
	}
	if f.ret.k == kTup && !f.ret.arr && len(f.ret.fields) == 0 && f.ret.named == "" && len(s.Results) == len(f.ret.args) && len(s.Results) > 1 {
		var vs []string
		for i, r := range s.Results {
			v, err := f.retValue(s, r, f.ret.args[i], e)
			if err != nil {
				return "", err
			}
			vs = append(vs, v)
		}
		return ind + "(" + strings.Join(vs, ", ") + ")", nil
	}
	if len(s.Results) != 1 {
		return "", f.errf(s, "return of %d values", len(s.Results))
	}
	// return &dc of a struct under construction
	if u, ok := s.Results[0].(*ast.UnaryExpr); ok && u.Op == token.AND {
		if id, ok := u.X.(*ast.Ident); ok {
			if b := e[id.Name]; b != nil && b.fields != nil {
				v, t, err := f.structValue(s, b)
				if err != nil {
					return "", err
				}
				if f.ret.k == kStruct {
					f.ret = t
				}
				if !t.eq(f.ret) {
					return "", f.errf(s, "two returns of different struct values")
				}
				return ind + v, nil
			}
		}
	}
	v, err := f.retValue(s, s.Results[0], f.ret, e)
	if err != nil {
		return "", err
	}
	return ind + v, nil
}

func (f *fctx) retValue(s ast.Node, r ast.Expr, want typ, e env) (string, error) {
	if isNil(r, e) && want.k == kList && want.n < 0 {
		return nilOf(want), nil
	}
	v, err := f.expr(r, e)
	if err != nil {
		return "", err
	}
	if v, err = f.coerce(s, v, want); err != nil {
		return "", err
	}
	if !v.t.eq(want) {
		return "", f.errf(s, "return of %s, expected %s", v.t.goName(), want.goName())
	}
	return v.s, nil
}

// prefix target: the values of the Yield expressions just before statement st
func (f *fctx) cutHere(st ast.Stmt, e env, ind string) (string, error) {
	var vs []string
	var ts []typ
	for _, y := range f.opt.Yield {
		ex, err := parser.ParseExpr(y)
		if err != nil {
			return "", f.errf(st, "yield expression %q: %v", y, err)
		}
		v, err := f.expr(ex, e)
		if err != nil {
			return "", fmt.Errorf("%v (yield expression %q)", err, y)
		}
		if v, err = f.deflt(st, v); err != nil {
			return "", err
		}
		vs, ts = append(vs, v.s), append(ts, v.t)
	}
	f.cut = true
	if len(vs) == 1 {
		f.ret = ts[0]
		return ind + vs[0], nil
	}
	f.ret = tupType(ts...)
	return ind + "(" + strings.Join(vs, ", ") + ")", nil
}

func (f *fctx) ifStmt(s *ast.IfStmt, rest []ast.Stmt, e env, k *cont, ind string) (string, error) {
	if s.Init != nil {
		return "", f.errf(s, "if statement with an init clause")
	}
	c, err := f.expr(s.Cond, e)
	if err != nil {
		return "", err
	}
	if c.t.k != kBool {
		return "", f.errf(s, "condition is not boolean")
	}
	thenL, elseL := s.Body.List, stmtList(s.Else)
	tt, et := terminates(thenL), terminates(elseL)
	switch {
	case tt || et:
		// `if c { ...; return e }` followed by the rest: the rest is the other branch.  Allowed in
		// the function body (return) and directly in a loop body (continue).
		if k != nil && !k.loop {
			return "", f.errf(s, "return / continue inside a block that can also fall through")
		}
		var a, b string
		if tt && et {
			if len(rest) != 0 {
				return "", f.errf(rest[0], "unreachable statement")
			}
			if a, err = f.stmts(thenL, e.clone(), k, ind+"  "); err != nil {
				return "", err
			}
			if b, err = f.stmts(elseL, e.clone(), k, ind); err != nil {
				return "", err
			}
		} else if tt {
			if len(elseL) != 0 && declares(elseL) && len(rest) != 0 {
				return "", f.errf(s, "else block declaring variables before fall-through code")
			}
			if a, err = f.stmts(thenL, e.clone(), k, ind+"  "); err != nil {
				return "", err
			}
			if b, err = f.stmts(append(append([]ast.Stmt{}, elseL...), rest...), e, k, ind); err != nil {
				return "", err
			}
		} else {
			if declares(thenL) && len(rest) != 0 {
				return "", f.errf(s, "then block declaring variables before fall-through code")
			}
			if b, err = f.stmts(elseL, e.clone(), k, ind); err != nil {
				return "", err
			}
			if a, err = f.stmts(append(append([]ast.Stmt{}, thenL...), rest...), e, k, ind+"  "); err != nil {
				return "", err
			}
		}
		out := ind + "if " + c.s + " then\n" + a + "\n"
		if strings.HasPrefix(strings.TrimLeft(b, " "), "if ") {
			return out + ind + "else " + strings.TrimLeft(b, " "), nil
		}
		return out + ind + "else\n" + indentMore(b), nil
	}
	if containsExit(thenL) || containsExit(elseL) {
		return "", f.errf(s, "if statement that returns / continues on some paths and falls through on others")
	}
	var vars []string
	if err := f.assignedOuter(thenL, e, nil, &vars); err != nil {
		return "", err
	}
	if err := f.assignedOuter(elseL, e, nil, &vars); err != nil {
		return "", err
	}
	if len(vars) == 0 {
		return "", f.errf(s, "if statement without effect")
	}
	pat, _, err := f.pattern(s, vars, e)
	if err != nil {
		return "", err
	}
	t := &cont{vars: vars}
	a, err := f.stmts(thenL, e.clone(), t, ind+"    ")
	if err != nil {
		return "", err
	}
	b, err := f.stmts(elseL, e.clone(), t, ind+"    ")
	if err != nil {
		return "", err
	}
	wrap := func(x string) string {
		tr := strings.TrimLeft(x, " ")
		if strings.Contains(x, "\n") || strings.HasPrefix(tr, "let ") || strings.HasPrefix(tr, "if ") || strings.HasPrefix(tr, "match ") {
			return x[:len(x)-len(tr)] + "(" + tr + ")"
		}
		return x
	}
	ifx := ind + "  if " + c.s + " then\n" + wrap(a) + "\n" + ind + "  else\n" + wrap(b)
	r, err := f.stmts(rest, e, k, ind)
	if err != nil {
		return "", err
	}
	return ind + "let " + pat + " :=\n" + ifx + " in\n" + r, nil
}

// for i := lo; i < hi; i++ { body }  /  for i := range a  /  for i, v := range a  /  for _, v := range a
func (f *fctx) loop(st ast.Stmt, e env, ind string) (string, error) {
	var body *ast.BlockStmt
	inner := e.clone()
	var head, iter string // zfor lo hi | fold_left ; the lambda's second binder
	var pre string        // lets at the start of the body
	var fold bool
	var loopVars []string
	switch s := st.(type) {
	case *ast.ForStmt:
		body = s.Body
		init, ok := s.Init.(*ast.AssignStmt)
		if !ok || init.Tok != token.DEFINE || len(init.Lhs) != 1 || len(init.Rhs) != 1 {
			return "", f.errf(s, "loop without `i := lo` initialisation")
		}
		iv, ok := init.Lhs[0].(*ast.Ident)
		if !ok {
			return "", f.errf(s, "loop variable")
		}
		lo, err := f.expr(init.Rhs[0], e)
		if err != nil {
			return "", err
		}
		if lo, err = f.coerce(s, lo, tInt); err != nil {
			return "", err
		}
		cond, ok := s.Cond.(*ast.BinaryExpr)
		if !ok || exprString(cond.X) != iv.Name || (cond.Op != token.LSS && cond.Op != token.LEQ) {
			return "", f.errf(s, "loop condition is not `%s < hi` / `%s <= hi`", iv.Name, iv.Name)
		}
		hi, err := f.expr(cond.Y, e)
		if err != nil {
			return "", err
		}
		if hi, err = f.coerce(s, hi, tInt); err != nil {
			return "", err
		}
		if lo.t.k != kInt || hi.t.k != kInt {
			return "", f.errf(s, "loop bounds are not integers")
		}
		if cond.Op == token.LEQ {
			hi.s = "(Z.add " + hi.s + " 1%Z)"
		}
		stepOK := false
		switch post := s.Post.(type) {
		case *ast.IncDecStmt:
			stepOK = post.Tok == token.INC && exprString(post.X) == iv.Name
		case *ast.AssignStmt: // i += 1, i = i + 1
			if len(post.Lhs) == 1 && len(post.Rhs) == 1 && exprString(post.Lhs[0]) == iv.Name {
				stepOK = post.Tok == token.ADD_ASSIGN && exprString(post.Rhs[0]) == "1" ||
					post.Tok == token.ASSIGN && (exprString(post.Rhs[0]) == iv.Name+"+1" || exprString(post.Rhs[0]) == "1+"+iv.Name)
			}
		}
		if !stepOK {
			return "", f.errf(s, "loop step is not `%s++`", iv.Name)
		}
		// the bound is evaluated once here: the body may not assign anything it mentions
		var bvars []string
		ast.Inspect(cond.Y, func(n ast.Node) bool {
			if id, ok := n.(*ast.Ident); ok {
				bvars = append(bvars, id.Name)
			}
			return true
		})
		loopVars = append(bvars, iv.Name)
		inner[iv.Name] = &binding{coq: coqIdent(iv.Name), t: tInt}
		head, iter = "zfor "+lo.s+" "+hi.s, "("+coqIdent(iv.Name)+" : Z)"
	case *ast.RangeStmt:
		body = s.Body
		if s.Tok != token.DEFINE {
			return "", f.errf(s, "range loop assigning existing variables")
		}
		a, err := f.expr(s.X, e)
		if err != nil {
			return "", err
		}
		if a.t.k != kList {
			return "", f.errf(s, "range over %s", a.t.goName())
		}
		key, _ := s.Key.(*ast.Ident)
		value, _ := s.Value.(*ast.Ident)
		if s.Key != nil && key == nil || s.Value != nil && value == nil {
			return "", f.errf(s, "range variables")
		}
		ast.Inspect(s.X, func(n ast.Node) bool {
			if id, ok := n.(*ast.Ident); ok {
				loopVars = append(loopVars, id.Name)
			}
			return true
		})
		useKey := key != nil && key.Name != "_"
		useVal := value != nil && value.Name != "_"
		z, _ := a.t.args[0].zero()
		switch {
		case useKey:
			inner[key.Name] = &binding{coq: coqIdent(key.Name), t: tInt}
			head, iter = "zfor 0%Z (zlen "+a.s+")", "("+coqIdent(key.Name)+" : Z)"
			loopVars = append(loopVars, key.Name)
			if useVal {
				// the element is read from the value the slice had when the loop started
				inner[value.Name] = &binding{coq: coqIdent(value.Name), t: a.t.args[0]}
				pre = "let " + coqIdent(value.Name) + " := (znth " + coqIdent(key.Name) + " " + a.s + " " + z + ") in\n"
				loopVars = append(loopVars, value.Name)
			} else if rk, ok := lhsKey(s.X); ok {
				// for i := range a { a[i] = .. } is fine: only the length is read
				loopVars = removeStr(loopVars, strings.SplitN(rk, ".", 2)[0])
				if !strings.Contains(rk, ".") {
					loopVars = removeStr(loopVars, rk)
				}
			}
		case useVal:
			inner[value.Name] = &binding{coq: coqIdent(value.Name), t: a.t.args[0]}
			head, iter, fold = "fold_left", "("+coqIdent(value.Name)+" : "+a.t.args[0].coqAtom()+")", true
			pre = ""
			loopVars = append(loopVars, value.Name)
			head += "|" + a.s
		default:
			return "", f.errf(s, "range loop without variables")
		}
	}
	var vars []string
	if err := f.assignedOuter(body.List, inner, nil, &vars); err != nil {
		return "", err
	}
	if len(vars) == 0 {
		return "", f.errf(st, "loop without effect on the variables of the function")
	}
	for _, v := range vars {
		root := strings.SplitN(v, ".", 2)[0]
		for _, lv := range loopVars {
			if lv == v || lv == root && !strings.Contains(v, ".") {
				return "", f.errf(st, "the loop body assigns %s, which the loop header reads", v)
			}
		}
	}
	pat, ty, err := f.pattern(st, vars, e)
	if err != nil {
		return "", err
	}
	f.inLoop++
	b, err := f.stmts(body.List, inner, &cont{vars: vars, loop: true}, ind+"      ")
	f.inLoop--
	if err != nil {
		return "", err
	}
	init, err := f.yield(st, vars, e)
	if err != nil {
		return "", err
	}
	stName := "rgst"
	lam := "(fun (" + stName + " : " + ty + ") " + iter + " =>\n"
	if strings.HasPrefix(pat, "'") {
		lam += ind + "      let " + pat + " := " + stName + " in\n"
	} else {
		lam = "(fun (" + pat + " : " + ty + ") " + iter + " =>\n"
	}
	if pre != "" {
		lam += ind + "      " + pre
	}
	lam += b + ")"
	if fold {
		parts := strings.SplitN(head, "|", 2)
		return ind + "let " + pat + " :=\n" + ind + "    fold_left " + lam + " " + parts[1] + " " + init + " in\n", nil
	}
	return ind + "let " + pat + " :=\n" + ind + "    " + head + " " + lam + " " + init + " in\n", nil
}

func removeStr(l []string, s string) []string {
	var out []string
	for _, x := range l {
		if x != s {
			out = append(out, x)
		}
	}
	return out
}

// ---------------------------------------------------------------- trace targets

// the sink a call statement feeds: 0 = a call of the traced function itself, 1 = an output
func (f *fctx) sinkOf(st ast.Stmt) (*ast.CallExpr, int, bool) {
	es, ok := st.(*ast.ExprStmt)
	if !ok {
		return nil, 0, false
	}
	c, ok := es.X.(*ast.CallExpr)
	if !ok {
		return nil, 0, false
	}
	switch f.opt.Trace[exprString(c.Fun)] {
	case "call":
		return c, 0, true
	case "out":
		return c, 1, true
	}
	return nil, 0, false
}

func (f *fctx) hasSink(list []ast.Stmt) bool {
	found := false
	for _, s := range list {
		ast.Inspect(s, func(n ast.Node) bool {
			if st, ok := n.(ast.Stmt); ok {
				if _, _, is := f.sinkOf(st); is {
					found = true
				}
			}
			return true
		})
	}
	return found
}

// traceStmt handles, at the top level of a trace target: a sink call (one event), an if statement
// whose branches contain sink calls (the events of the branch taken), a bare return (no more events)
func (f *fctx) traceStmt(st ast.Stmt, rest []ast.Stmt, e env, ind string) (string, bool, error) {
	if c, kind, ok := f.sinkOf(st); ok {
		// the payload: the arguments the translator models (writers, the SDF are left out)
		var vs []string
		var ts []typ
		for _, a := range c.Args {
			if id, isId := a.(*ast.Ident); isId {
				if b := e[id.Name]; b != nil && b.t.k == kOpaque {
					continue
				}
			}
			v, err := f.structArg(a, e)
			if err != nil {
				return "", true, err
			}
			if v, err = f.deflt(a, v); err != nil {
				return "", true, err
			}
			vs, ts = append(vs, v.s), append(ts, v.t)
		}
		if len(vs) == 0 {
			return "", true, f.errf(st, "traced call without a modelled argument")
		}
		pv, pt := vs[0], ts[0]
		if len(vs) > 1 {
			pv, pt = "("+strings.Join(vs, ", ")+")", tupType(ts...)
		}
		if f.evSet[kind] && !f.evT[kind].eq(pt) {
			return "", true, f.errf(st, "traced calls with payloads of different types")
		}
		f.evT[kind], f.evSet[kind] = pt, true
		r, err := f.stmts(rest, e, nil, ind)
		if err != nil {
			return "", true, err
		}
		ctor := []string{"RgCall", "RgOut"}[kind]
		return ind + "((" + ctor + " " + pv + ") ::\n" + r + ")", true, nil
	}
	switch s := st.(type) {
	case *ast.ReturnStmt:
		if len(s.Results) == 0 {
			if len(rest) != 0 {
				return "", true, f.errf(rest[0], "statement after return")
			}
			return ind + "[]", true, nil
		}
	case *ast.IfStmt:
		thenL, elseL := s.Body.List, stmtList(s.Else)
		if !f.hasSink(thenL) && !f.hasSink(elseL) {
			return "", false, nil
		}
		if s.Init != nil {
			return "", true, f.errf(s, "if statement with an init clause")
		}
		c, err := f.expr(s.Cond, e)
		if err != nil {
			return "", true, err
		}
		if c.t.k != kBool {
			return "", true, f.errf(s, "condition is not boolean")
		}
		a, err := f.stmts(thenL, e.clone(), nil, ind+"    ")
		if err != nil {
			return "", true, err
		}
		b, err := f.stmts(elseL, e.clone(), nil, ind+"    ")
		if err != nil {
			return "", true, err
		}
		if terminates(thenL) || terminates(elseL) {
			return "", true, f.errf(s, "return inside a traced branch")
		}
		r, err := f.stmts(rest, e, nil, ind+"  ")
		if err != nil {
			return "", true, err
		}
		return ind + "((if " + c.s + " then (\n" + a + ")\n" + ind + "  else (\n" + b + ")) ++\n" + r + ")", true, nil
	}
	return "", false, nil
}
