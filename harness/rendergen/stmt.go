package rendergen

import (
	"fmt"
	"go/ast"
	"strings"
)

// ---------------------------------------------------------------- environment

type binding struct {
	id     int // identity of the declaration (clones of a binding share it)
	coq    string
	t      typ
	frozen bool // its address was taken / it was sliced: may not be assigned any more
	ptr    bool // declared with a pointer type: copying the pointer would alias
	cval   *val // a function-local constant / the variable of an unrolled loop: used by value
	// a struct parameter / receiver: the fields used become parameters <name>_<field>
	flat  bool
	used  map[string]typ
	order []string // opaque methods in order of first use
	// a struct value under construction: the current value of each field
	fields     map[string]*binding
	structName string
}

type env map[string]*binding

func (e env) clone() env {
	c := env{}
	for k, v := range e {
		if v.flat {
			c[k] = v // shared: records the fields used
			continue
		}
		b := *v
		if v.fields != nil {
			b.fields = map[string]*binding{}
			for fk, fv := range v.fields {
				fb := *fv
				b.fields[fk] = &fb
			}
		}
		c[k] = &b
	}
	return c
}

// a variable key is "x" or "x.f" (field of a struct under construction)
func (e env) get(key string) *binding {
	if i := strings.Index(key, "."); i >= 0 {
		b := e[key[:i]]
		if b == nil || b.fields == nil {
			return nil
		}
		return b.fields[key[i+1:]]
	}
	b := e[key]
	if b == nil || b.fields != nil || b.flat || b.cval != nil {
		return nil
	}
	return b
}

// the bindings visible now (shared, not copied): what a scope is restored to when it ends
func (e env) snapshot() env {
	c := env{}
	for k, v := range e {
		c[k] = v
	}
	return c
}

// restore ends a scope: names declared since the snapshot disappear, shadowed ones reappear
func (e env) restore(saved env) {
	for k, v := range e {
		s, ok := saved[k]
		switch {
		case !ok:
			delete(e, k)
		case s.id != v.id:
			e[k] = s
		}
	}
}

type fctx struct {
	g      *gen
	p      *pkg
	file   *srcFile
	key    string
	opt    *Target
	ret    typ      // result type
	named  []string // named results
	recv   string   // mutator: the receiver variable, returned at every exit
	cut    bool     // prefix target: the cut was reached
	inLoop int
	tloop  int      // traced loops (flat_map) being translated
	trace  bool     // trace target: the result is the list of events
	ev     *evTypes // payload types of RgCall / RgOut (shared with the helpers inlined into a trace target)
	sh     *shared  // counters shared with inlined helpers
	marks  map[*ast.EmptyStmt]markFn
	frames []*unrollFrame // unrolled loops being translated (innermost last)
}

type evTypes struct {
	t   [2]typ
	set [2]bool
}

// state shared by a function and the helpers inlined into it
type shared struct {
	nid      int             // binding identities
	fresh    map[string]int  // fresh Gallina names
	inlining map[string]bool // helpers being inlined (recursion guard)
}

// a marker statement spliced into a statement list: it produces the translation of everything
// after it (scope ends, the next iteration of an unrolled loop)
type markFn func(e env, k *cont, ind string) (out string, done bool, err error)

type unrollFrame struct {
	level int    // f.inLoop + f.tloop when the loop was entered
	next  markFn // continue
	brk   markFn // break
}

func (f *fctx) share() *shared {
	if f.sh == nil {
		f.sh = &shared{fresh: map[string]int{}, inlining: map[string]bool{}}
	}
	return f.sh
}

// newBinding declares goName in e.  A name that is already visible is being shadowed (or, in a
// tuple `:=`, re-used, which is the same thing for the code after it): it gets a Gallina name of its
// own so that the outer variable is still there when the scope ends.
func (f *fctx) newBinding(e env, goName string, t typ) *binding {
	sh := f.share()
	sh.nid++
	b := &binding{id: sh.nid, t: t, coq: coqIdent(goName)}
	if _, shadow := e[goName]; shadow {
		sh.fresh[goName]++
		b.coq = fmt.Sprintf("%s_%d", strings.TrimSuffix(coqIdent(goName), "_"), sh.fresh[goName])
	}
	e[goName] = b
	return b
}

func (f *fctx) mark(fn markFn) ast.Stmt {
	if f.marks == nil {
		f.marks = map[*ast.EmptyStmt]markFn{}
	}
	m := &ast.EmptyStmt{Implicit: true}
	f.marks[m] = fn
	return m
}

// endScope is the marker closing the scope opened at the current state of e
func (f *fctx) endScope(e env) ast.Stmt {
	saved := e.snapshot()
	return f.mark(func(e2 env, k *cont, ind string) (string, bool, error) {
		e2.restore(saved)
		return "", false, nil
	})
}

// block is list as a scope of its own followed by rest
func (f *fctx) block(list []ast.Stmt, e env, rest []ast.Stmt) []ast.Stmt {
	out := append([]ast.Stmt{}, list...)
	out = append(out, f.endScope(e))
	return append(out, rest...)
}

func (f *fctx) errf(n ast.Node, format string, a ...interface{}) error {
	pos := f.g.fset.Position(n.Pos())
	return fmt.Errorf("rendergen: %s.%s (%s:%d): %s", f.p.name, f.key, f.file.rel, pos.Line, fmt.Sprintf(format, a...))
}

func (f *fctx) goType(e ast.Expr) (typ, error) { return f.g.goType(f.p, f.file, e) }

// Go identifiers that would clash with Gallina keywords or emitted names are renamed
var reserved = map[string]bool{}

func init() {
	for _, w := range strings.Fields(`O T V2 V3 Box2 Box3 mkV2 mkV3 mkBox2 mkBox3 vx vy wx wy wz b2min b2max b3min b3max
		o0 o1 two half cst sq ofZ negb andb orb xorb bool list nth option Some None fst snd pair unit tt Z N nat
		oadd osub omul odiv oneg oabs osqrt oltb oleb oeqb omin omax otoZ ofloor oceil ofmod osin ocos otan oatan oatan2 oacos
		opi omaxf true false zfor znth zupd zlen zrepeat zrange fold_left map filter repeat length app
		v2zero v3zero
		as at cofix else end exists exists2 fix for forall fun if IF in let match mod Prop return Set then Type using where with
		Definition Lemma Theorem Proof Qed Section End Context Import Export Require From`) {
		reserved[w] = true
	}
}

func coqIdent(name string) string {
	if reserved[name] || strings.Contains(name, "_") || strings.HasPrefix(name, "rg") {
		return name + "_"
	}
	return name
}

// field of a struct parameter (-> parameter) or of a struct under construction (-> current value)
func (f *fctx) structField(n ast.Node, b *binding, goVar, name string) (val, error) {
	sname := b.structName
	q := f.p
	if b.flat {
		i := strings.Index(b.t.named, ".")
		q, sname = f.g.pkgs[b.t.named[:i]], b.t.named[i+1:]
	}
	st := q.structs[sname]
	var ft *typ
	for _, fl := range st.Fields.List {
		for _, fn := range fl.Names {
			if fn.Name == name {
				t, err := f.g.goType(q, q.fileOf[sname], fl.Type)
				if err != nil {
					return val{}, f.errf(n, "field %s.%s: %v", sname, name, err)
				}
				ft = &t
			}
		}
	}
	if ft == nil {
		return val{}, f.errf(n, "%s has no field %s", sname, name)
	}
	if ft.k == kOpaque || ft.k == kStruct {
		return val{}, f.errf(n, "field %s.%s has type %s, which is not modelled", sname, name, ft.named)
	}
	if b.flat {
		b.used[name] = *ft
		return val{s: b.coq + "_" + name, t: *ft}, nil
	}
	if fb, ok := b.fields[name]; ok {
		return val{s: fb.coq, t: fb.t}, nil
	}
	return val{}, f.errf(n, "field %s.%s is read before it is assigned", goVar, name)
}

func (f *fctx) goTypeIn(x ast.Expr, en env) (typ, error) { return f.g.goTypeIn(f.p, f.file, x, en) }
