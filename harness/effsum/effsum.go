// Package effsum is the static effect summariser (DESIGN.md 2.3) used by C09 and C10.
//
// It loads the sdf, obj, render and render/dc packages of the source tree under
// analysis with go/packages (production build, no tags), builds SSA
// (golang.org/x/tools/go/ssa) and computes for every function an interprocedural
// summary of its effects on memory that is not allocated by the function itself:
//
//	reads / writes of abstract locations (field based: "pkg.Type.field", "[]" for
//	slice/array elements, "{}" for map contents; "pkg.var" for globals), each with
//	the mutexes held that belong to the same owner object (access path equality)
//	or are package level variables; map updates and deletes are writes of "...{}";
//	go statements, channel operations, range loops over maps, calls into math/rand
//	and time, WaitGroup/Once/atomic operations, calls through function values (a
//	call through a function-typed PARAMETER of an unexported function all of whose
//	callers are visible and pass functions is a call of one of those functions:
//	collectFunArgs - a helper parameterised by a function is analysed like its
//	instances written out),
//	dynamic calls of SDF2/SDF3 interface methods (not followed: covered by
//	induction over the shape tree, every implementation is summarised itself),
//	calls into the standard library (not followed, listed by package).
//
// A store into an object the function allocated itself (Alloc, make, composite
// literal, result of a callee that returns fresh memory) is not an effect.  At
// a call site the callee's parameter-rooted effects are re-rooted at the actual
// arguments (and dropped when the argument is local), so a helper that fills a
// caller's local buffer is not an effect of the caller either.
//
// The result is written as Coq data: coq/Generated/Effects.v.
package effsum

import (
	"fmt"
	"go/ast"
	"go/constant"
	"go/token"
	"go/types"
	"os"
	"sort"
	"strings"

	"golang.org/x/tools/go/packages"
	"golang.org/x/tools/go/ssa"
	"golang.org/x/tools/go/ssa/ssautil"
)

const module = "github.com/deadsy/sdfx"

// Effect is one entry of a summary.
type Effect struct {
	Kind  string   // Read Write Go Chan MapRange Rand Time Sync Invoke FunVal Ext
	Loc   string   // abstract location / channel / callee / description
	Op    string   // Chan: send recv close select; Sync: Add Done Wait Do ...; Ext: callee
	Locks []string // mutexes held (exclusive for writes, any mode for reads), owner-matched
	Fn    string   // function the effect textually occurs in
	path  string   // access path of the memory operand ("p0.cache{}", "g:render.x", "u:...", "c:...")
}

func (e Effect) key() string {
	return e.Kind + "|" + e.Loc + "|" + e.Op + "|" + strings.Join(e.Locks, ",") + "|" + e.Fn + "|" + e.path
}
func (e Effect) outKey() string {
	return e.Kind + "|" + e.Loc + "|" + e.Op + "|" + strings.Join(e.Locks, ",") + "|" + e.Fn
}

// Summary is the effect list of one root function.
type Summary struct {
	Name    string
	Effects []Effect
}

// Result of one analysis run.
type Result struct {
	Evaluate  []Summary // every Evaluate(v2.Vec|v3.Vec) float64 method of the module packages loaded
	Render    []Summary // every Render method of render, render/dc, plus the To* entry points
	BatchSize int       // const batchSize of layerYZ.Evaluate (0 if not found)
	Funcs     int       // functions analysed
}

// ---------------------------------------------------------------------------------------------

type heldLock struct {
	path string // access path of the mutex ("p0.mu", "g:pkg.mu")
	name string // type based name ("sdf.CacheSDF2.mu")
	excl bool
}

type analyser struct {
	prog      *ssa.Program
	sums      map[*ssa.Function]map[string]Effect
	retBusy   map[string]bool
	storeBusy map[string]bool
	concret   []types.Type // module types (T and *T) for interface resolution
	changed   bool
	inMod     map[*types.Package]bool
	// funArgs: for a function-typed parameter of an unexported package-level function or method
	// whose every use is a direct call, the functions passed for it at ALL its call sites
	// (collectFunArgs); absent = unknown (some call site passes a computed value, or the function
	// is exported / stored / passed on, so that not all its callers are visible)
	funArgs map[*ssa.Parameter][]*ssa.Function
}

func shortPkg(p *types.Package) string {
	if p == nil {
		return ""
	}
	s := p.Path()
	if strings.HasPrefix(s, module+"/") {
		return strings.TrimPrefix(s, module+"/")
	}
	return s
}

func isStd(p *types.Package) bool {
	if p == nil {
		return true
	}
	first := strings.SplitN(p.Path(), "/", 2)[0]
	return !strings.Contains(first, ".")
}

func fnName(f *ssa.Function) string {
	if f == nil {
		return "?"
	}
	s := f.String()
	s = strings.ReplaceAll(s, module+"/", "")
	return s
}

func typeName(t types.Type) string {
	for {
		if p, ok := t.(*types.Pointer); ok {
			t = p.Elem()
			continue
		}
		break
	}
	if n, ok := t.(*types.Named); ok {
		o := n.Obj()
		if o.Pkg() != nil {
			return shortPkg(o.Pkg()) + "." + o.Name()
		}
		return o.Name()
	}
	return "struct"
}

func structOf(t types.Type) *types.Struct {
	for {
		if p, ok := t.Underlying().(*types.Pointer); ok {
			t = p.Elem()
			continue
		}
		break
	}
	s, _ := t.Underlying().(*types.Struct)
	return s
}

// ---- references: where does a value point to?
//
// A ref is either local (memory allocated by the function under analysis, or no
// memory at all) or an access path: a root (p<i> parameter, f<i> captured variable,
// g:<name> global, u:<what> unknown, c:<what> captured by a goroutine) followed by
// selectors: ".f" field, "[]" element, "{}" map content, "*" load of the pointer /
// slice / map held in the cell named so far.

type ref struct {
	local  bool
	path   string
	loc    string // type based name of the last field / global
	others []ref  // further alternatives (each without others): the value may point to any of them
}

// each lists the alternatives of a non-local ref.
func (r ref) each() []ref {
	if r.local {
		return nil
	}
	out := []ref{{path: r.path, loc: r.loc}}
	for _, o := range r.others {
		out = append(out, ref{path: o.path, loc: o.loc})
	}
	return out
}

func mkRef(alts []ref) ref {
	if len(alts) == 0 {
		return ref{local: true}
	}
	sort.Slice(alts, func(i, j int) bool { return alts[i].path < alts[j].path })
	r := ref{path: alts[0].path, loc: alts[0].loc}
	for _, o := range alts[1:] {
		if o.path != r.path && (len(r.others) == 0 || r.others[len(r.others)-1].path != o.path) {
			r.others = append(r.others, ref{path: o.path, loc: o.loc})
		}
	}
	return r
}

var unknownEscaped = ref{path: "u:escaped-local", loc: "escaped-local"}

func (a *analyser) join(x, y ref) ref {
	if x.local {
		return y
	}
	if y.local {
		return x
	}
	alts := append(x.each(), y.each()...)
	r := mkRef(alts)
	if len(r.others) > 11 {
		l := r.loc
		for _, o := range r.others {
			if !strings.Contains(l, o.loc) && len(l) < 100 {
				l += "|" + o.loc
			}
		}
		return ref{path: "u:many(" + l + ")", loc: l}
	}
	return r
}

const maxDepth = 8

func depth(p string) int {
	return strings.Count(p, ".") + strings.Count(p, "[") + strings.Count(p, "{")
}

// sub appends a selector; loc names the new location ("" = derive from each alternative: its loc + suffix).
func (a *analyser) sub(r ref, suffix, loc string) ref {
	if r.local {
		return r
	}
	var alts []ref
	for _, x := range r.each() {
		l := loc
		if l == "" {
			l = x.loc
			if suffix != "*" {
				l += suffix
			}
		}
		p := x.path + suffix
		if depth(p) > maxDepth {
			p = "u:deep(" + l + ")"
		}
		alts = append(alts, ref{path: p, loc: l})
	}
	return mkRef(alts)
}

func copySeen(seen map[ssa.Value]bool, v ssa.Value) map[ssa.Value]bool {
	s2 := map[ssa.Value]bool{v: true}
	for k := range seen {
		s2[k] = true
	}
	return s2
}

func fieldName(x ssa.Value, i int) string {
	return structOf(x.Type()).Field(i).Name()
}

func (a *analyser) refOf(v ssa.Value, seen map[ssa.Value]bool) ref {
	if seen[v] {
		return ref{local: true}
	}
	switch v := v.(type) {
	case *ssa.Parameter:
		for i, p := range v.Parent().Params {
			if p == v {
				return ref{path: fmt.Sprintf("p%d", i), loc: "param:" + typeName(v.Type())}
			}
		}
	case *ssa.FreeVar:
		for i, p := range v.Parent().FreeVars {
			if p == v {
				return ref{path: fmt.Sprintf("f%d", i), loc: "captured:" + v.Name()}
			}
		}
	case *ssa.Global:
		n := shortPkg(v.Pkg.Pkg) + "." + v.Name()
		return ref{path: "g:" + n, loc: n}
	case *ssa.Alloc, *ssa.MakeSlice, *ssa.MakeMap, *ssa.MakeChan, *ssa.Const, *ssa.MakeClosure, *ssa.Function, *ssa.BinOp, *ssa.Builtin:
		return ref{local: true}
	case *ssa.FieldAddr:
		fn := fieldName(v.X, v.Field)
		return a.sub(a.refOf(v.X, seen), "."+fn, typeName(v.X.Type())+"."+fn)
	case *ssa.Field:
		fn := fieldName(v.X, v.Field)
		return a.sub(a.refOf(v.X, seen), "."+fn, typeName(v.X.Type())+"."+fn)
	case *ssa.IndexAddr:
		r := a.refOf(v.X, seen)
		return a.sub(r, "[]", "")
	case *ssa.Index:
		r := a.refOf(v.X, seen)
		return a.sub(r, "[]", "")
	case *ssa.Slice:
		return a.refOf(v.X, seen)
	case *ssa.Lookup:
		r := a.refOf(v.X, seen)
		return a.sub(r, "{}", "")
	case *ssa.Next:
		if rg, ok := v.Iter.(*ssa.Range); ok {
			r := a.refOf(rg.X, seen)
			return a.sub(r, "{}", "")
		}
	case *ssa.UnOp:
		switch v.Op {
		case token.MUL:
			if !hasPointers(v.Type()) {
				return ref{local: true}
			}
			r := a.refOf(v.X, seen)
			if !r.local {
				return a.sub(r, "*", "")
			}
			// load from a cell of a local object: whatever was stored there
			base := a.allocBase(v.X)
			if base == nil {
				return ref{path: "u:load(" + v.X.Name() + ")", loc: "load"}
			}
			return a.storedAt(base, localPath(v.X), copySeen(seen, v))
		case token.ARROW:
			r := a.refOf(v.X, seen)
			return ref{path: "u:recv(" + chanName(r) + ")", loc: "recv(" + chanName(r) + ")"}
		default:
			return ref{local: true}
		}
	case *ssa.Phi:
		seen2 := copySeen(seen, v)
		res := ref{local: true}
		for _, e := range v.Edges {
			res = a.join(res, a.refOf(e, seen2))
		}
		return res
	case *ssa.ChangeType:
		return a.refOf(v.X, seen)
	case *ssa.Convert:
		return a.refOf(v.X, seen)
	case *ssa.MakeInterface:
		return a.refOf(v.X, seen)
	case *ssa.ChangeInterface:
		return a.refOf(v.X, seen)
	case *ssa.TypeAssert:
		return a.refOf(v.X, seen)
	case *ssa.SliceToArrayPointer:
		return a.refOf(v.X, seen)
	case *ssa.Extract:
		if c, ok := v.Tuple.(*ssa.Call); ok {
			return a.callResult(c, v.Index, copySeen(seen, v))
		}
		return a.refOf(v.Tuple, seen)
	case *ssa.Call:
		return a.callResult(v, -1, copySeen(seen, v))
	}
	return ref{path: "u:" + fmt.Sprintf("%T", v), loc: fmt.Sprintf("%T", v)}
}

func (a *analyser) follow(f *ssa.Function) bool {
	if f == nil || f.Blocks == nil {
		return false
	}
	var p *types.Package
	if f.Pkg != nil {
		p = f.Pkg.Pkg
	} else if f.Object() != nil {
		p = f.Object().Pkg()
	} else if f.Parent() != nil {
		return a.follow(f.Parent())
	}
	if p == nil {
		return f.Synthetic != "" // wrappers, bound method closures
	}
	return followPkg(p.Path())
}

func followPkg(path string) bool {
	return path == module || strings.HasPrefix(path, module+"/") || path == "github.com/dhconnelly/rtreego"
}

// retValues: the values returned at result position idx (-1: the only result).
func retValues(f *ssa.Function, idx int) []ssa.Value {
	var out []ssa.Value
	for _, b := range f.Blocks {
		for _, ins := range b.Instrs {
			if r, ok := ins.(*ssa.Return); ok {
				i := idx
				if i < 0 {
					i = 0
				}
				if i < len(r.Results) {
					out = append(out, r.Results[i])
				}
			}
		}
	}
	return out
}

// callResult: where the result of a call points: the join of what the callee returns, re-rooted.
func (a *analyser) callResult(c *ssa.Call, idx int, seen map[ssa.Value]bool) ref {
	if b, ok := c.Call.Value.(*ssa.Builtin); ok {
		if b.Name() == "append" {
			return a.refOf(c.Call.Args[0], seen)
		}
		return ref{local: true}
	}
	t := c.Type()
	if tp, ok := t.(*types.Tuple); ok && idx >= 0 && idx < tp.Len() {
		t = tp.At(idx).Type()
	}
	if !hasPointers(t) {
		return ref{local: true}
	}
	cal := c.Call.StaticCallee()
	if cal == nil {
		// a call through a function-typed parameter that is bound to known functions: the join of
		// what they return (re-rooted at the arguments of THIS call)
		if fns := a.boundFuncs(c.Call.Value); fns != nil && !c.Call.IsInvoke() {
			res := ref{local: true}
			all := true
			for _, g := range fns {
				if !a.follow(g) {
					all = false
					break
				}
				key := fmt.Sprintf("%p/%d", g, idx)
				if a.retBusy[key] {
					continue
				}
				a.retBusy[key] = true
				for _, rv := range retValues(g, idx) {
					r := a.refOf(rv, map[ssa.Value]bool{})
					res = a.join(res, a.reroot(r, c.Common(), seen))
				}
				delete(a.retBusy, key)
			}
			if all {
				return res
			}
		}
	}
	if cal == nil || !a.follow(cal) {
		d := "call"
		if cal != nil {
			d = "call:" + fnName(cal)
		} else if c.Call.IsInvoke() {
			d = "call:" + c.Call.Method.FullName()
		}
		return ref{path: "u:" + d, loc: d}
	}
	key := fmt.Sprintf("%p/%d", cal, idx)
	if a.retBusy[key] {
		return ref{local: true}
	}
	a.retBusy[key] = true
	defer delete(a.retBusy, key)
	res := ref{local: true}
	for _, rv := range retValues(cal, idx) {
		r := a.refOf(rv, map[ssa.Value]bool{})
		res = a.join(res, a.reroot(r, c.Common(), seen))
	}
	return res
}

// reroot translates a ref of the callee into the caller of call c.
func (a *analyser) reroot(r ref, c *ssa.CallCommon, seen map[ssa.Value]bool) ref {
	res := ref{local: true}
	for _, x := range r.each() {
		res = a.join(res, a.reroot1(x, c, seen))
	}
	return res
}

func (a *analyser) reroot1(r ref, c *ssa.CallCommon, seen map[ssa.Value]bool) ref {
	root, rest := splitRoot(r.path)
	var actual ssa.Value
	switch {
	case isParamRoot(root):
		i := rootIndex(root)
		args := c.Args
		if c.IsInvoke() {
			args = append([]ssa.Value{c.Value}, c.Args...)
		}
		if i < len(args) {
			actual = args[i]
		}
	case isFreeRoot(root):
		if mc, ok := c.Value.(*ssa.MakeClosure); ok {
			i := rootIndex(root)
			if i < len(mc.Bindings) {
				actual = mc.Bindings[i]
			}
		}
	default:
		return r
	}
	if actual == nil {
		return ref{path: "u:unbound(" + r.loc + ")", loc: r.loc}
	}
	return a.extend(actual, rest, r.loc, seen)
}

// extend: the ref reached from value v by the selectors rest (loc names the result when rest is not empty).
func (a *analyser) extend(v ssa.Value, rest, loc string, seen map[ssa.Value]bool) ref {
	ar := a.refOf(v, seen)
	if !ar.local {
		if strings.Trim(rest, "*") == "" {
			if rest == "" {
				return ar
			}
			return a.sub(ar, rest, "")
		}
		return a.sub(ar, rest, loc)
	}
	// the actual is local: selectors up to the first load stay inside the local object
	i := strings.Index(rest, "*")
	if i < 0 {
		return ref{local: true}
	}
	base := a.allocBase(v)
	if base == nil {
		if _, isConst := peel(v).(*ssa.Const); isConst {
			return ref{local: true}
		}
		return ref{path: "u:through-local(" + loc + ")", loc: loc}
	}
	st := a.storedAt(base, localPath(v)+rest[:i], seen)
	if st.local {
		// a fresh object held in a fresh object: further selectors stay local unless they load again
		if strings.Contains(rest[i+1:], "*") {
			return ref{path: "u:through-local(" + loc + ")", loc: loc}
		}
		return ref{local: true}
	}
	if rest[i+1:] == "" {
		return st
	}
	return a.sub(st, rest[i+1:], loc)
}

// peel strips value conversions.
func peel(v ssa.Value) ssa.Value {
	for i := 0; i < 10; i++ {
		switch x := v.(type) {
		case *ssa.MakeInterface:
			v = x.X
		case *ssa.ChangeType:
			v = x.X
		case *ssa.ChangeInterface:
			v = x.X
		case *ssa.Convert:
			v = x.X
		default:
			return v
		}
	}
	return v
}

// localPath: the selectors between a local object and the addressed cell (".hdiag[]").
func localPath(v ssa.Value) string {
	p := ""
	for i := 0; i < 20; i++ {
		v = peel(v)
		switch x := v.(type) {
		case *ssa.FieldAddr:
			p = "." + fieldName(x.X, x.Field) + p
			v = x.X
		case *ssa.IndexAddr:
			p = "[]" + p
			v = x.X
		case *ssa.Slice:
			v = x.X
		default:
			return p
		}
	}
	return p
}

func pathsOverlap(x, y string) bool {
	return strings.HasPrefix(x, y) || strings.HasPrefix(y, x)
}

// allocBase: the local object (Alloc, make, or the result of a followed callee that
// allocates what it returns) the address v points into; nil if there is none.
func (a *analyser) allocBase(v ssa.Value) ssa.Value {
	for i := 0; i < 20; i++ {
		v = peel(v)
		switch x := v.(type) {
		case *ssa.Alloc, *ssa.MakeSlice, *ssa.MakeMap:
			return v
		case *ssa.Call:
			if _, isB := x.Call.Value.(*ssa.Builtin); isB {
				return nil
			}
			if a.refOf(x, map[ssa.Value]bool{}).local {
				return v
			}
			return nil
		case *ssa.FieldAddr:
			v = x.X
		case *ssa.IndexAddr:
			v = x.X
		case *ssa.Slice:
			v = x.X
		default:
			return nil
		}
	}
	return nil
}

// storedAt: the join of everything that may have been stored into cell lp of local object
// base: by the function that owns base, by the callee that made it, by callees and
// closures the object is handed to (unknown then).
func (a *analyser) storedAt(base ssa.Value, lp string, seen map[ssa.Value]bool) ref {
	key := fmt.Sprintf("%p|%s", base, lp)
	if a.storeBusy[key] {
		return ref{local: true}
	}
	a.storeBusy[key] = true
	defer delete(a.storeBusy, key)
	res := ref{local: true}
	if c, ok := base.(*ssa.Call); ok {
		if cal := c.Call.StaticCallee(); cal != nil {
			for _, rv := range retValues(cal, -1) {
				if b2 := a.allocBase(rv); b2 != nil {
					r := a.storedAt(b2, localPath(rv)+lp, map[ssa.Value]bool{})
					res = a.join(res, a.reroot(r, c.Common(), seen))
				} else if !isNilConst(rv) {
					res = a.join(res, ref{path: "u:made-by(" + fnName(cal) + ")", loc: "made-by(" + fnName(cal) + ")"})
				}
			}
		}
	}
	fn := base.(ssa.Instruction).Parent()
	for _, b := range fn.Blocks {
		for _, ins := range b.Instrs {
			switch ins := ins.(type) {
			case *ssa.Store:
				if a.allocBase(ins.Addr) == base && pathsOverlap(lp, localPath(ins.Addr)) && hasPointers(ins.Val.Type()) {
					res = a.join(res, a.refOf(ins.Val, seen))
				}
			case *ssa.MapUpdate:
				if a.allocBase(ins.Map) == base && hasPointers(ins.Value.Type()) {
					res = a.join(res, a.refOf(ins.Value, seen))
				}
			case *ssa.MakeClosure:
				for i, bv := range ins.Bindings {
					if a.allocBase(bv) == base && a.calleeWrites(ins.Fn.(*ssa.Function), fmt.Sprintf("f%d", i), localPath(bv), lp) {
						res = a.join(res, unknownEscaped)
					}
				}
			case ssa.CallInstruction:
				c := ins.Common()
				if bi, ok := c.Value.(*ssa.Builtin); ok {
					if bi.Name() == "append" && len(c.Args) > 1 && ins.(ssa.Value) != nil {
						// append(local, xs...): the elements of xs end up in the result, which is
						// stored back by a Store we see; nothing to do here
					}
					if bi.Name() == "copy" && a.allocBase(c.Args[0]) == base {
						r := a.refOf(c.Args[1], seen)
						res = a.join(res, a.sub(r, "[]", ""))
					}
					continue
				}
				if isSyncCall(c) {
					continue
				}
				args := c.Args
				if c.IsInvoke() {
					args = append([]ssa.Value{c.Value}, c.Args...)
				}
				for i, arg := range args {
					if !hasPointers(arg.Type()) || a.allocBase(arg) != base {
						continue
					}
					cal := c.StaticCallee()
					if cal != nil && a.follow(cal) {
						if a.calleeWrites(cal, fmt.Sprintf("p%d", i), localPath(arg), lp) {
							res = a.join(res, unknownEscaped)
						}
						continue
					}
					if cal != nil && cal.Pkg != nil && isStd(cal.Pkg.Pkg) {
						switch cal.Pkg.Pkg.Path() {
						case "fmt", "math", "sort", "strings", "strconv", "errors":
							continue
						}
					}
					res = a.join(res, unknownEscaped)
				}
			}
		}
	}
	return res
}

func isNilConst(v ssa.Value) bool {
	c, ok := v.(*ssa.Const)
	return ok && c.Value == nil
}

// calleeWrites: does the (current) summary of callee contain a write of the cell
// root+argPath+... that overlaps cell lp of the object?
func (a *analyser) calleeWrites(callee *ssa.Function, root, argPath, lp string) bool {
	if _, ok := a.sums[callee]; !ok {
		a.sums[callee] = map[string]Effect{}
		a.changed = true
	}
	for _, e := range a.sums[callee] {
		if e.Kind != "Write" {
			continue
		}
		r, rest := splitRoot(e.path)
		if r != root {
			continue
		}
		// the cell written, relative to the object: argPath + rest up to the first load
		cell := rest
		if i := strings.Index(rest, "*"); i >= 0 {
			continue // written through a pointer held in the object: not a store INTO the object
		}
		if pathsOverlap(lp, argPath+cell) {
			return true
		}
	}
	return false
}

func hasPointers(t types.Type) bool {
	return hasPtr(t, 0)
}
func hasPtr(t types.Type, d int) bool {
	if d > 6 {
		return true
	}
	switch u := t.Underlying().(type) {
	case *types.Basic:
		return u.Kind() == types.UnsafePointer
	case *types.Struct:
		for i := 0; i < u.NumFields(); i++ {
			if hasPtr(u.Field(i).Type(), d+1) {
				return true
			}
		}
		return false
	case *types.Array:
		return hasPtr(u.Elem(), d+1)
	case *types.Tuple:
		for i := 0; i < u.Len(); i++ {
			if hasPtr(u.At(i).Type(), d+1) {
				return true
			}
		}
		return false
	}
	return true
}

func isParamRoot(r string) bool {
	return len(r) >= 2 && r[0] == 'p' && r[1] >= '0' && r[1] <= '9'
}
func isFreeRoot(r string) bool {
	return len(r) >= 2 && r[0] == 'f' && r[1] >= '0' && r[1] <= '9'
}
func rootIndex(r string) int {
	var i int
	fmt.Sscanf(r[1:], "%d", &i)
	return i
}

// ---- sync recognition

func recvTypeName(f *ssa.Function) (pkg, typ, meth string) {
	if f == nil || f.Signature.Recv() == nil {
		if f != nil && f.Pkg != nil {
			return f.Pkg.Pkg.Path(), "", f.Name()
		}
		if f != nil && f.Object() != nil && f.Object().Pkg() != nil {
			return f.Object().Pkg().Path(), "", f.Name()
		}
		return "", "", ""
	}
	t := f.Signature.Recv().Type()
	if p, ok := t.(*types.Pointer); ok {
		t = p.Elem()
	}
	if n, ok := t.(*types.Named); ok && n.Obj().Pkg() != nil {
		return n.Obj().Pkg().Path(), n.Obj().Name(), f.Name()
	}
	return "", "", f.Name()
}

func isSyncCall(c *ssa.CallCommon) bool {
	p, _, _ := recvTypeName(c.StaticCallee())
	return p == "sync" || p == "sync/atomic"
}

// ---- per function analysis

func ownerOf(path string) string {
	if strings.HasPrefix(path, "u:") || strings.HasPrefix(path, "c:") {
		return path
	}
	for {
		switch {
		case strings.HasSuffix(path, "[]") || strings.HasSuffix(path, "{}"):
			path = path[:len(path)-2]
			continue
		case strings.HasSuffix(path, "*"):
			path = path[:len(path)-1]
			continue
		}
		break
	}
	tail := path
	if strings.HasPrefix(path, "g:") {
		tail = path[2+strings.LastIndex(path[2:], "/")+1:] // skip dots of the package path
		if j := strings.Index(tail, "."); j >= 0 {         // and the pkg.var dot
			tail = tail[j+1:]
		}
	}
	if i := strings.LastIndex(tail, "."); i >= 0 {
		return path[:len(path)-len(tail)+i]
	}
	if strings.HasPrefix(path, "g:") {
		return "g:"
	}
	return path
}

func locksFor(path string, held []heldLock, write bool) []string {
	own := ownerOf(path)
	var out []string
	for _, h := range held {
		if write && !h.excl {
			continue
		}
		if strings.HasPrefix(h.path, "g:") || ownerOf(h.path) == own {
			dup := false
			for _, o := range out {
				if o == h.name {
					dup = true
				}
			}
			if !dup {
				out = append(out, h.name)
			}
		}
	}
	sort.Strings(out)
	return out
}

func (a *analyser) add(f *ssa.Function, e Effect) {
	m := a.sums[f]
	if m == nil {
		m = map[string]Effect{}
		a.sums[f] = m
	}
	k := e.key()
	if _, ok := m[k]; !ok {
		m[k] = e
		a.changed = true
	}
}

func heldKey(h []heldLock) string {
	s := make([]string, len(h))
	for i, x := range h {
		s[i] = fmt.Sprintf("%s/%v", x.path, x.excl)
	}
	sort.Strings(s)
	return strings.Join(s, ";")
}

func intersect(x, y []heldLock) []heldLock {
	var out []heldLock
	for _, p := range x {
		for _, q := range y {
			if p == q {
				out = append(out, p)
			}
		}
	}
	return out
}

// lockStates computes the must-held lock set at the entry of every block.
func (a *analyser) lockStates(f *ssa.Function) map[*ssa.BasicBlock][]heldLock {
	in := map[*ssa.BasicBlock][]heldLock{}
	known := map[*ssa.BasicBlock]bool{}
	if len(f.Blocks) == 0 {
		return in
	}
	known[f.Blocks[0]] = true
	for iter := 0; iter < 50; iter++ {
		ch := false
		for _, b := range f.Blocks {
			if !known[b] {
				continue
			}
			out := a.transfer(f, b, in[b], nil)
			for _, s := range b.Succs {
				if !known[s] {
					known[s] = true
					in[s] = out
					ch = true
				} else {
					n := intersect(in[s], out)
					if heldKey(n) != heldKey(in[s]) {
						in[s] = n
						ch = true
					}
				}
			}
		}
		if !ch {
			break
		}
	}
	return in
}

// transfer walks one block; when visit != nil it is called for every instruction with the held set before it.
func (a *analyser) transfer(f *ssa.Function, b *ssa.BasicBlock, held []heldLock, visit func(ssa.Instruction, []heldLock)) []heldLock {
	cur := append([]heldLock{}, held...)
	for _, ins := range b.Instrs {
		if visit != nil {
			visit(ins, cur)
		}
		c, ok := ins.(*ssa.Call)
		if !ok {
			continue
		}
		cal := c.Call.StaticCallee()
		p, t, m := recvTypeName(cal)
		if p != "sync" || (t != "Mutex" && t != "RWMutex") || len(c.Call.Args) == 0 {
			continue
		}
		r := a.refOf(c.Call.Args[0], map[ssa.Value]bool{})
		path, name := r.path, r.loc
		if r.local {
			path, name = "L:"+c.Call.Args[0].Name(), "local-mutex"
		}
		switch m {
		case "Lock":
			cur = append(cur, heldLock{path, name, true})
		case "RLock":
			cur = append(cur, heldLock{path, name, false})
		case "Unlock", "RUnlock":
			var n []heldLock
			found := false
			for _, h := range cur {
				if h.path == path && !found {
					found = true
					continue
				}
				n = append(n, h)
			}
			if !found && visit != nil {
				a.add(f, Effect{Kind: "Sync", Loc: name, Op: "unlock-of-unheld", Fn: fnName(f)})
			}
			cur = n
		}
	}
	return cur
}

func (a *analyser) memEffect(f *ssa.Function, kind string, r ref, held []heldLock) {
	if r.local {
		return
	}
	for _, x := range r.each() {
		a.add(f, Effect{Kind: kind, Loc: x.loc, Locks: locksFor(x.path, held, kind == "Write"), Fn: fnName(f), path: x.path})
	}
}

func (a *analyser) analyse(f *ssa.Function) {
	if f.Blocks == nil {
		return
	}
	in := a.lockStates(f)
	none := map[ssa.Value]bool{}
	for _, b := range f.Blocks {
		a.transfer(f, b, in[b], func(ins ssa.Instruction, held []heldLock) {
			switch ins := ins.(type) {
			case *ssa.Store:
				a.memEffect(f, "Write", a.refOf(ins.Addr, none), held)
			case *ssa.UnOp:
				switch ins.Op {
				case token.MUL:
					a.memEffect(f, "Read", a.refOf(ins.X, none), held)
				case token.ARROW:
					r := a.refOf(ins.X, none)
					a.add(f, Effect{Kind: "Chan", Loc: chanName(r), Op: "recv", Fn: fnName(f)})
				}
			case *ssa.MapUpdate:
				r := a.refOf(ins.Map, none)
				a.memEffect(f, "Write", a.sub(r, "{}", ""), held)
			case *ssa.Lookup:
				if _, isMap := ins.X.Type().Underlying().(*types.Map); isMap {
					r := a.refOf(ins.X, none)
					a.memEffect(f, "Read", a.sub(r, "{}", ""), held)
				}
			case *ssa.Index:
				// element of an array VALUE held in a register: no memory access
			case *ssa.Range:
				if _, isMap := ins.X.Type().Underlying().(*types.Map); isMap {
					r := a.refOf(ins.X, none)
					l := r.loc
					if r.local {
						l = "local-map"
					}
					a.add(f, Effect{Kind: "MapRange", Loc: l, Fn: fnName(f)})
					a.memEffect(f, "Read", a.sub(r, "{}", ""), held)
				}
			case *ssa.Send:
				r := a.refOf(ins.Chan, none)
				a.add(f, Effect{Kind: "Chan", Loc: chanName(r), Op: "send", Fn: fnName(f)})
			case *ssa.Select:
				for _, st := range ins.States {
					r := a.refOf(st.Chan, none)
					a.add(f, Effect{Kind: "Chan", Loc: chanName(r), Op: "select", Fn: fnName(f)})
				}
			case *ssa.Go:
				a.call(f, ins, ins.Common(), held, true, false)
			case *ssa.Defer:
				a.call(f, ins, ins.Common(), nil, false, true)
			case *ssa.Call:
				a.call(f, ins, ins.Common(), held, false, false)
			case *ssa.MakeClosure:
				// a closure that is not called directly (stored, passed on): treat as called here
				a.escapingFunc(f, ins, held)
			}
		})
	}
}

func chanName(r ref) string {
	if r.local {
		return "local-chan"
	}
	return r.loc
}

// escapingFunc: MakeClosure whose only use is not "callee of a call": analyse as if called at creation.
func (a *analyser) escapingFunc(f *ssa.Function, mc *ssa.MakeClosure, held []heldLock) {
	direct := true
	for _, u := range *mc.Referrers() {
		ci, ok := u.(ssa.CallInstruction)
		if !ok || ci.Common().Value != ssa.Value(mc) {
			direct = false
		}
	}
	if direct {
		return
	}
	callee := mc.Fn.(*ssa.Function)
	a.inline(f, callee, nil, mc.Bindings, held, false)
}

func (a *analyser) isSDFIface(t types.Type) (string, bool) {
	n, ok := t.(*types.Named)
	if !ok {
		return "", false
	}
	if _, isI := n.Underlying().(*types.Interface); !isI {
		return "", false
	}
	o := n.Obj()
	if o.Pkg() != nil && o.Pkg().Path() == module+"/sdf" && (o.Name() == "SDF2" || o.Name() == "SDF3") {
		return "sdf." + o.Name(), true
	}
	return "", false
}

func (a *analyser) call(f *ssa.Function, ins ssa.Instruction, c *ssa.CallCommon, held []heldLock, isGo, isDefer bool) {
	name := fnName(f)
	none := map[ssa.Value]bool{}
	if isGo {
		tgt := "dynamic"
		if cal := c.StaticCallee(); cal != nil {
			tgt = fnName(cal)
		}
		a.add(f, Effect{Kind: "Go", Loc: tgt, Fn: name})
	}
	// builtins
	if b, ok := c.Value.(*ssa.Builtin); ok {
		switch b.Name() {
		case "append":
			r := a.refOf(c.Args[0], none)
			a.memEffect(f, "Write", a.sub(r, "[]", ""), held)
			if len(c.Args) > 1 {
				r2 := a.refOf(c.Args[1], none)
				a.memEffect(f, "Read", a.sub(r2, "[]", ""), held)
			}
		case "copy":
			r := a.refOf(c.Args[0], none)
			a.memEffect(f, "Write", a.sub(r, "[]", ""), held)
			r2 := a.refOf(c.Args[1], none)
			a.memEffect(f, "Read", a.sub(r2, "[]", ""), held)
		case "delete":
			r := a.refOf(c.Args[0], none)
			a.memEffect(f, "Write", a.sub(r, "{}", ""), held)
		case "close":
			r := a.refOf(c.Args[0], none)
			a.add(f, Effect{Kind: "Chan", Loc: chanName(r), Op: "close", Fn: name})
		}
		return
	}
	if c.IsInvoke() {
		recvT := c.Value.Type()
		if in, ok := a.isSDFIface(recvT); ok {
			a.add(f, Effect{Kind: "Invoke", Loc: in + "." + c.Method.Name(), Fn: name})
			return
		}
		mp := c.Method.Pkg()
		if mp == nil || !followPkg(mp.Path()) && !a.hasModuleImpl(recvT) {
			pk := "builtin"
			if mp != nil {
				pk = mp.Path()
			}
			a.add(f, Effect{Kind: "Ext", Loc: pk, Op: typeName(recvT) + "." + c.Method.Name(), Fn: name})
			return
		}
		// resolve over the concrete types of the loaded non-std packages
		iface := recvT.Underlying().(*types.Interface)
		n := 0
		for _, t := range a.concret {
			if !types.Implements(t, iface) {
				continue
			}
			sel := a.prog.MethodSets.MethodSet(t).Lookup(c.Method.Pkg(), c.Method.Name())
			if sel == nil {
				continue
			}
			if m := a.prog.MethodValue(sel); m != nil {
				n++
				args := append([]ssa.Value{c.Value}, c.Args...)
				a.inline(f, m, args, nil, held, isGo)
			}
		}
		if n == 0 || !followPkg(mp.Path()) {
			a.add(f, Effect{Kind: "Ext", Loc: mp.Path(), Op: typeName(recvT) + "." + c.Method.Name(), Fn: name})
		}
		return
	}
	cal := c.StaticCallee()
	if cal == nil {
		// call through a function value
		what := "value"
		switch v := c.Value.(type) {
		case *ssa.UnOp:
			r := a.refOf(v.X, none)
			if !r.local {
				what = r.loc
			} else {
				what = "local variable"
			}
		case *ssa.Field:
			r := a.refOf(v, none)
			what = r.loc
			if r.local {
				st := structOf(v.X.Type())
				what = typeName(v.X.Type()) + "." + st.Field(v.Field).Name()
			}
		case *ssa.Parameter:
			what = "parameter " + v.Name()
		case *ssa.Phi:
			what = "phi"
		}
		a.add(f, Effect{Kind: "FunVal", Loc: what, Fn: name})
		// the parameter is bound to known functions at every call site of f: the call is a call
		// of one of them (the arguments are those of this call; variables captured by a closure
		// passed for the parameter live in the frame of f's caller and stay unbound)
		for _, g := range a.boundFuncs(c.Value) {
			if isGo {
				a.add(f, Effect{Kind: "Go", Loc: fnName(g), Fn: name})
			}
			if a.follow(g) {
				a.inline(f, g, c.Args, nil, held, isGo)
			} else {
				pk := "?"
				if g.Pkg != nil {
					pk = g.Pkg.Pkg.Path()
				}
				a.add(f, Effect{Kind: "Ext", Loc: pk, Op: g.String(), Fn: name})
			}
		}
		return
	}
	p, t, m := recvTypeName(cal)
	switch {
	case p == "sync" && (t == "Mutex" || t == "RWMutex"):
		return // folded into the lock sets
	case p == "sync" || p == "sync/atomic":
		obj := "?"
		if len(c.Args) > 0 {
			r := a.refOf(c.Args[0], none)
			obj = r.loc
			if r.local {
				obj = "local " + t
			}
		}
		a.add(f, Effect{Kind: "Sync", Loc: obj, Op: t + "." + m, Fn: name})
		// sync.Once.Do(f), sync.OnceFunc(f): the function handed over is called
		for _, arg := range c.Args {
			if mc, ok := arg.(*ssa.MakeClosure); ok {
				a.inline(f, mc.Fn.(*ssa.Function), nil, mc.Bindings, held, false)
			}
			if fn, ok := arg.(*ssa.Function); ok {
				a.inline(f, fn, nil, nil, held, false)
			}
		}
		return
	case p == "math/rand" || p == "math/rand/v2" || p == "crypto/rand":
		a.add(f, Effect{Kind: "Rand", Loc: strings.TrimPrefix(cal.String(), module+"/"), Fn: name})
		return
	case p == "time":
		a.add(f, Effect{Kind: "Time", Loc: cal.String(), Fn: name})
		return
	}
	var calPkg *types.Package
	if cal.Pkg != nil {
		calPkg = cal.Pkg.Pkg
	} else if cal.Object() != nil {
		calPkg = cal.Object().Pkg()
	}
	if !a.follow(cal) {
		pk := "?"
		if calPkg != nil {
			pk = calPkg.Path()
		}
		a.add(f, Effect{Kind: "Ext", Loc: pk, Op: cal.String(), Fn: name})
		if pk == "sort" || pk == "slices" {
			// the sorting routines permute their argument in place
			for _, arg := range c.Args {
				if hasPointers(arg.Type()) {
					r := a.refOf(arg, none)
					a.memEffect(f, "Write", a.sub(r, "[]", ""), held)
				}
			}
		}
		// functions handed to the library are called by it
		for _, arg := range c.Args {
			if mc, ok := arg.(*ssa.MakeClosure); ok {
				a.inline(f, mc.Fn.(*ssa.Function), nil, mc.Bindings, held, false)
			}
			if fn, ok := arg.(*ssa.Function); ok {
				a.inline(f, fn, nil, nil, held, false)
			}
		}
		return
	}
	var bind []ssa.Value
	if mc, ok := c.Value.(*ssa.MakeClosure); ok {
		bind = mc.Bindings
	}
	a.inline(f, cal, c.Args, bind, held, isGo)
}

func (a *analyser) hasModuleImpl(t types.Type) bool {
	iface, ok := t.Underlying().(*types.Interface)
	if !ok {
		return false
	}
	for _, c := range a.concret {
		if types.Implements(c, iface) {
			return true
		}
	}
	return false
}

// boundFuncs: the functions a called value stands for when it is a function-typed parameter with
// a complete set of bindings (nil otherwise).
func (a *analyser) boundFuncs(v ssa.Value) []*ssa.Function {
	p, ok := peel(v).(*ssa.Parameter)
	if !ok {
		return nil
	}
	return a.funArgs[p]
}

// collectFunArgs finds, for every unexported package-level function or method of the followed
// packages that has function-typed parameters and is only ever called directly (never stored,
// passed on, turned into a method value or reached through an interface), the functions passed
// for those parameters at all its call sites.  A call site that passes something else than a
// function, a closure, or the caller's own bound function parameter makes the parameter unknown.
func (a *analyser) collectFunArgs() {
	a.funArgs = map[*ssa.Parameter][]*ssa.Function{}
	isFuncType := func(t types.Type) bool { _, ok := t.Underlying().(*types.Signature); return ok }
	candidate := func(g *ssa.Function) bool {
		if g == nil || g.Parent() != nil || g.Synthetic != "" || g.Blocks == nil || !a.follow(g) {
			return false
		}
		if o := g.Object(); o == nil || o.Exported() {
			return false
		}
		for _, p := range g.Params {
			if isFuncType(p.Type()) {
				return true
			}
		}
		return false
	}
	escaped := map[*ssa.Function]bool{}
	unknown := map[*ssa.Parameter]bool{}
	raw := map[*ssa.Parameter][]ssa.Value{}
	for fn := range ssautil.AllFunctions(a.prog) {
		for _, b := range fn.Blocks {
			for _, ins := range b.Instrs {
				var callee *ssa.Function
				if ci, ok := ins.(ssa.CallInstruction); ok {
					cc := ci.Common()
					if g := cc.StaticCallee(); g != nil && !cc.IsInvoke() {
						if _, direct := cc.Value.(*ssa.Function); direct && candidate(g) {
							callee = g
							for i, p := range g.Params {
								if !isFuncType(p.Type()) {
									continue
								}
								if i < len(cc.Args) {
									raw[p] = append(raw[p], cc.Args[i])
								} else {
									unknown[p] = true
								}
							}
						}
					}
				}
				// every other mention of a candidate function lets it escape
				for _, op := range ins.Operands(nil) {
					if op == nil || *op == nil {
						continue
					}
					if g, ok := peel(*op).(*ssa.Function); ok && candidate(g) {
						if ci, isCall := ins.(ssa.CallInstruction); isCall && g == callee && ci.Common().Value == *op {
							continue
						}
						escaped[g] = true
					}
				}
			}
		}
	}
	// synthetic wrappers (bound method values, interface thunks) call the method with their own parameters
	var resolve func(p *ssa.Parameter, busy map[*ssa.Parameter]bool) ([]*ssa.Function, bool)
	resolve = func(p *ssa.Parameter, busy map[*ssa.Parameter]bool) ([]*ssa.Function, bool) {
		if unknown[p] || busy[p] || escaped[p.Parent()] || len(raw[p]) == 0 {
			return nil, false
		}
		busy[p] = true
		defer delete(busy, p)
		seen := map[*ssa.Function]bool{}
		var out []*ssa.Function
		for _, v := range raw[p] {
			switch x := peel(v).(type) {
			case *ssa.Function:
				if !seen[x] {
					seen[x] = true
					out = append(out, x)
				}
			case *ssa.MakeClosure:
				g := x.Fn.(*ssa.Function)
				if !seen[g] {
					seen[g] = true
					out = append(out, g)
				}
			case *ssa.Parameter:
				gs, ok := resolve(x, busy)
				if !ok {
					return nil, false
				}
				for _, g := range gs {
					if !seen[g] {
						seen[g] = true
						out = append(out, g)
					}
				}
			default:
				return nil, false
			}
		}
		sort.Slice(out, func(i, j int) bool { return out[i].String() < out[j].String() })
		return out, len(out) > 0
	}
	for p := range raw {
		if fns, ok := resolve(p, map[*ssa.Parameter]bool{}); ok {
			a.funArgs[p] = fns
		}
	}
}

// inline: add the callee's current summary to f, re-rooted at the actual arguments.
func (a *analyser) inline(f, callee *ssa.Function, args []ssa.Value, bindings []ssa.Value, held []heldLock, isGo bool) {
	none := map[ssa.Value]bool{}
	if _, ok := a.sums[callee]; !ok {
		a.sums[callee] = map[string]Effect{}
		a.changed = true // newly reached: needs analysing
	}
	keys := make([]string, 0, len(a.sums[callee]))
	for k := range a.sums[callee] {
		keys = append(keys, k)
	}
	sort.Strings(keys)
	for _, k := range keys {
		e := a.sums[callee][k]
		if e.Kind != "Read" && e.Kind != "Write" {
			a.add(f, e)
			continue
		}
		root, rest := splitRoot(e.path)
		var actual ssa.Value
		switch {
		case isParamRoot(root):
			if i := rootIndex(root); args != nil && i < len(args) {
				actual = args[i]
			}
		case isFreeRoot(root):
			i := rootIndex(root)
			if bindings != nil && i < len(bindings) {
				actual = bindings[i]
			}
			if isGo {
				// variables captured by a goroutine are shared with it
				ne := e
				nm := "?"
				if i < len(callee.FreeVars) {
					nm = callee.FreeVars[i].Name()
				}
				ne.path = "c:" + fnName(callee) + ":" + nm + rest
				if strings.Trim(rest, "*") == "" {
					ne.Loc = "captured:" + nm
				}
				a.add(f, ne)
				continue
			}
		default:
			// global / unknown / captured: unchanged, but locks held here also protect it
			ne := e
			ne.Locks = mergeLocks(e.Locks, locksFor(e.path, held, e.Kind == "Write"))
			a.add(f, ne)
			continue
		}
		if actual == nil {
			ne := e
			ne.path = "u:unbound(" + root + ")" + rest
			a.add(f, ne)
			continue
		}
		r := a.extend(actual, rest, e.Loc, none)
		if r.local {
			if isGo && isParamRoot(root) && strings.Contains(rest, "*") {
				ne := e
				ne.path = "c:" + fnName(callee) + ":arg" + rest
				a.add(f, ne)
			}
			continue
		}
		for _, x := range r.each() {
			ne := e
			ne.path = x.path
			if strings.Trim(rest, "*") == "" {
				ne.Loc = x.loc
			}
			ne.Locks = mergeLocks(e.Locks, locksFor(ne.path, held, e.Kind == "Write"))
			a.add(f, ne)
		}
	}
}

func mergeLocks(x, y []string) []string {
	m := map[string]bool{}
	for _, s := range x {
		m[s] = true
	}
	for _, s := range y {
		m[s] = true
	}
	out := make([]string, 0, len(m))
	for s := range m {
		out = append(out, s)
	}
	sort.Strings(out)
	return out
}

func splitRoot(path string) (root, rest string) {
	if strings.HasPrefix(path, "u:") || strings.HasPrefix(path, "c:") {
		return path, ""
	}
	if strings.HasPrefix(path, "g:") {
		// g:pkg/path.var<selectors>
		k := 2 + strings.LastIndex(path[2:], "/") + 1
		j := strings.Index(path[k:], ".")
		if j < 0 {
			return path, ""
		}
		k += j + 1
		i := strings.IndexAny(path[k:], ".[{*")
		if i < 0 {
			return path, ""
		}
		return path[:k+i], path[k+i:]
	}
	i := strings.IndexAny(path, ".[{*")
	if i < 0 {
		return path, ""
	}
	return path[:i], path[i:]
}

// ---------------------------------------------------------------------------------------------

// Analyse loads the tree at repo and computes the summaries.
func Analyse(repo string) (*Result, error) {
	cfg := &packages.Config{Mode: packages.LoadAllSyntax, Dir: repo, Env: os.Environ()}
	pkgs, err := packages.Load(cfg, "./sdf", "./obj", "./render", "./render/dc")
	if err != nil {
		return nil, fmt.Errorf("effsum: go/packages: %v", err)
	}
	var errs []string
	packages.Visit(pkgs, nil, func(p *packages.Package) {
		for _, e := range p.Errors {
			errs = append(errs, e.Error())
		}
	})
	if len(errs) > 0 {
		return nil, fmt.Errorf("effsum: the source tree does not type-check: %s", strings.Join(errs, "; "))
	}
	prog, spkgs := ssautil.AllPackages(pkgs, ssa.InstantiateGenerics)
	prog.Build()
	a := &analyser{prog: prog, sums: map[*ssa.Function]map[string]Effect{}, retBusy: map[string]bool{}, storeBusy: map[string]bool{}, inMod: map[*types.Package]bool{}}
	a.collectFunArgs()
	// concrete types of all non-std packages
	for _, p := range prog.AllPackages() {
		if !followPkg(p.Pkg.Path()) {
			continue
		}
		names := make([]string, 0, len(p.Members))
		for n := range p.Members {
			names = append(names, n)
		}
		sort.Strings(names)
		for _, n := range names {
			if t, ok := p.Members[n].(*ssa.Type); ok {
				if _, isI := t.Type().Underlying().(*types.Interface); isI {
					continue
				}
				a.concret = append(a.concret, t.Type(), types.NewPointer(t.Type()))
			}
		}
	}
	res := &Result{}
	type rootT struct {
		name string
		fn   *ssa.Function
		eval bool
	}
	var roots []rootT
	for _, sp := range spkgs {
		if sp == nil {
			continue
		}
		names := make([]string, 0, len(sp.Members))
		for n := range sp.Members {
			names = append(names, n)
		}
		sort.Strings(names)
		pk := shortPkg(sp.Pkg)
		for _, n := range names {
			switch m := sp.Members[n].(type) {
			case *ssa.Type:
				for _, t := range []types.Type{m.Type(), types.NewPointer(m.Type())} {
					ms := prog.MethodSets.MethodSet(t)
					for i := 0; i < ms.Len(); i++ {
						sel := ms.At(i)
						fn := prog.MethodValue(sel)
						if fn == nil || fn.Synthetic != "" || fn.Pkg != sp {
							continue
						}
						sig := fn.Signature
						if sel.Obj().Name() == "Evaluate" && sig.Params().Len() == 1 && sig.Results().Len() == 1 {
							pt := sig.Params().At(0).Type().String()
							if (strings.HasSuffix(pt, "vec/v2.Vec") || strings.HasSuffix(pt, "vec/v3.Vec")) && sig.Results().At(0).Type().String() == "float64" {
								roots = append(roots, rootT{fnName(fn), fn, true})
							}
						}
						if sel.Obj().Name() == "Render" && (pk == "render" || pk == "render/dc") {
							roots = append(roots, rootT{fnName(fn), fn, false})
						}
					}
				}
			case *ssa.Function:
				if pk == "render" && strings.HasPrefix(n, "To") && ast.IsExported(n) {
					roots = append(roots, rootT{fnName(m), m, false})
				}
			}
		}
	}
	seenRoot := map[*ssa.Function]bool{}
	for _, r := range roots {
		if !seenRoot[r.fn] {
			seenRoot[r.fn] = true
			a.sums[r.fn] = map[string]Effect{}
		}
	}
	// fixpoint over everything reached
	for iter := 0; iter < 200; iter++ {
		a.changed = false
		fns := make([]*ssa.Function, 0, len(a.sums))
		for f := range a.sums {
			fns = append(fns, f)
		}
		sort.Slice(fns, func(i, j int) bool { return fns[i].String() < fns[j].String() })
		for _, f := range fns {
			a.analyse(f)
		}
		if !a.changed {
			break
		}
		if iter == 199 {
			return nil, fmt.Errorf("effsum: no fixpoint after 200 rounds")
		}
	}
	res.Funcs = len(a.sums)
	done := map[*ssa.Function]bool{}
	for _, r := range roots {
		if done[r.fn] {
			continue
		}
		done[r.fn] = true
		m := map[string]Effect{}
		for _, e := range a.sums[r.fn] {
			m[e.outKey()] = e
		}
		ks := make([]string, 0, len(m))
		for k := range m {
			ks = append(ks, k)
		}
		sort.Strings(ks)
		s := Summary{Name: r.name}
		for _, k := range ks {
			s.Effects = append(s.Effects, m[k])
		}
		if r.eval {
			res.Evaluate = append(res.Evaluate, s)
		} else {
			res.Render = append(res.Render, s)
		}
	}
	sort.Slice(res.Evaluate, func(i, j int) bool { return res.Evaluate[i].Name < res.Evaluate[j].Name })
	sort.Slice(res.Render, func(i, j int) bool { return res.Render[i].Name < res.Render[j].Name })
	// const batchSize in render.(*layerYZ).Evaluate
	for _, p := range pkgs {
		if p.PkgPath != module+"/render" {
			continue
		}
		for _, file := range p.Syntax {
			ast.Inspect(file, func(n ast.Node) bool {
				vs, ok := n.(*ast.ValueSpec)
				if !ok {
					return true
				}
				for i, id := range vs.Names {
					if id.Name == "batchSize" && i < len(vs.Values) {
						if tv, ok := p.TypesInfo.Types[vs.Values[i]]; ok && tv.Value != nil {
							if v, exact := constant.Int64Val(tv.Value); exact {
								res.BatchSize = int(v)
							}
						}
					}
				}
				return true
			})
		}
	}
	return res, nil
}

// ---------------------------------------------------------------------------------------------

func cstr(s string) string {
	return "\"" + strings.ReplaceAll(s, "\"", "\"\"") + "\""
}

func clist(xs []string) string {
	q := make([]string, len(xs))
	for i, x := range xs {
		q[i] = cstr(x)
	}
	return "[" + strings.Join(q, "; ") + "]"
}

// CoqEffect renders one effect as a term of Sdfx.Sys.Lockset.effect.
func CoqEffect(e Effect) string {
	switch e.Kind {
	case "Read":
		return fmt.Sprintf("ERead %s %s %s", cstr(e.Loc), clist(e.Locks), cstr(e.Fn))
	case "Write":
		return fmt.Sprintf("EWrite %s %s %s", cstr(e.Loc), clist(e.Locks), cstr(e.Fn))
	case "Go":
		return fmt.Sprintf("EGo %s %s", cstr(e.Loc), cstr(e.Fn))
	case "Chan":
		return fmt.Sprintf("EChan %s %s %s", cstr(e.Op), cstr(e.Loc), cstr(e.Fn))
	case "MapRange":
		return fmt.Sprintf("EMapRange %s %s", cstr(e.Loc), cstr(e.Fn))
	case "Rand":
		return fmt.Sprintf("ERand %s %s", cstr(e.Loc), cstr(e.Fn))
	case "Time":
		return fmt.Sprintf("ETime %s %s", cstr(e.Loc), cstr(e.Fn))
	case "Sync":
		return fmt.Sprintf("ESync %s %s %s", cstr(e.Op), cstr(e.Loc), cstr(e.Fn))
	case "Invoke":
		return fmt.Sprintf("EInvoke %s %s", cstr(e.Loc), cstr(e.Fn))
	case "FunVal":
		return fmt.Sprintf("EFunVal %s %s", cstr(e.Loc), cstr(e.Fn))
	case "Ext":
		return fmt.Sprintf("EExt %s %s %s", cstr(e.Loc), cstr(e.Op), cstr(e.Fn))
	}
	return fmt.Sprintf("EExt %s %s %s", cstr("unknown-kind"), cstr(e.Kind), cstr(e.Fn))
}

func coqSummaries(name string, ss []Summary) string {
	var b strings.Builder
	fmt.Fprintf(&b, "Definition %s : list (string * list effect) := [\n", name)
	for i, s := range ss {
		fmt.Fprintf(&b, "  (%s, [", cstr(s.Name))
		for j, e := range s.Effects {
			if j > 0 {
				b.WriteString(";")
			}
			b.WriteString("\n     " + CoqEffect(e))
			if os.Getenv("EFFSUM_DEBUG") != "" {
				b.WriteString(" (* " + e.path + " *)")
			}
		}
		b.WriteString("])")
		if i < len(ss)-1 {
			b.WriteString(";")
		}
		b.WriteString("\n")
	}
	b.WriteString("].\n\n")
	return b.String()
}

// Coq renders the whole of coq/Generated/Effects.v.
func (r *Result) Coq() []byte {
	var b strings.Builder
	b.WriteString("(* GENERATED by harness/effsum from the source tree under analysis - do not edit. *)\n")
	b.WriteString("From Coq Require Import List String.\nFrom Sdfx Require Import Sys.Lockset.\nImport ListNotations.\nLocal Open Scope string_scope.\n\n")
	b.WriteString(coqSummaries("evaluate_summaries", r.Evaluate))
	b.WriteString(coqSummaries("render_summaries", r.Render))
	// the batch size of layerYZ.Evaluate is no longer emitted here: harness/sysgen finds it from its use in
	// the batching loop (Generated/SysProgs.v, used by C09 only), whatever the constant is called
	return []byte(b.String())
}

// Gen is the kit.GenFn body shared by the C09 and C10 binaries.
func Gen(repo string) (string, []byte, error) {
	r, err := Analyse(repo)
	if err != nil {
		return "", nil, err
	}
	if len(r.Evaluate) == 0 || len(r.Render) == 0 {
		return "", nil, fmt.Errorf("effsum: no Evaluate/Render methods found under %s", repo)
	}
	return "Effects.v", r.Coq(), nil
}
