package main

// C19, SHARP features: cone tips, pyramids and spikes from intersecting planes, wedges and thin fins (a sharp
// ridge), bipyramids, a concave notch - axis-aligned and tilted, with the apex placed on and near lattice points,
// lattice edges and lattice faces of the sampling lattice of the renderer under test.  At such features several
// neighbouring cells have their vertex clamped onto the same lattice corner, lattice line or lattice plane, so the
// mesh holds coincident vertices and zero-area triangles with three DISTINCT vertices; every oracle of
// checkRender applies unchanged (closed after identifying coincident vertices, volume, containment, reference).
//
// Triangle level (v2Quads): the real generateTriangles of V2 is run, through the hook VerifV2TrianglesAt, on
// vertex buffers in which the four vertices of a quad are put on one lattice line (three or four collinear, some
// coincident), on lattice corners, or left where placeVertices put them: the triangles sent must be the
// triangles of the index mesh, in order, except that exactly the ones with two IDENTICAL vertices may be missing.

import (
	"fmt"
	"math"

	"github.com/deadsy/sdfx/render/dc"
	"github.com/deadsy/sdfx/sdf"
	v3 "github.com/deadsy/sdfx/vec/v3"
	"github.com/deadsy/sdfx/vec/v3i"
	. "verifharness/kit"
)

// polytope is the intersection of half spaces n_i.p <= d_i (unit normals): Evaluate = max_i (n_i.p - d_i) is
// exact inside, has the exact zero set and sign, and is a lower bound of the distance outside.
type polytope struct {
	n  []v3.Vec
	d  []float64
	bb sdf.Box3
}

func (s *polytope) Evaluate(p v3.Vec) float64 {
	m := math.Inf(-1)
	for i, n := range s.n {
		if v := n.Dot(p) - s.d[i]; v > m {
			m = v
		}
	}
	return m
}
func (s *polytope) BoundingBox() sdf.Box3 { return s.bb }

// spike: k planes through the apex (origin) at half angle alpha around the axis, tip towards +z, cut at z = -h.
func spike(k int, alpha, h, phase float64) *polytope {
	s := &polytope{}
	for i := 0; i < k; i++ {
		t := phase + 2*math.Pi*float64(i)/float64(k)
		s.n = append(s.n, v3.Vec{X: math.Cos(alpha) * math.Cos(t), Y: math.Cos(alpha) * math.Sin(t), Z: math.Sin(alpha)})
		s.d = append(s.d, 0)
	}
	s.n, s.d = append(s.n, v3.Vec{Z: -1}), append(s.d, h)
	r := h * math.Tan(alpha) / math.Cos(math.Pi/float64(k))
	s.bb = sdf.Box3{Min: v3.Vec{X: -r, Y: -r, Z: -h}, Max: v3.Vec{X: r, Y: r}}
	return s
}

// wedge: two planes through the ridge (the y axis, |y| <= w) at angles a1, a2 from the -z direction, cut at z = -h.
func wedge(a1, a2, h, w float64) *polytope {
	s := &polytope{
		n: []v3.Vec{{X: math.Cos(a1), Z: math.Sin(a1)}, {X: -math.Cos(a2), Z: math.Sin(a2)}, {Z: -1}, {Y: 1}, {Y: -1}},
		d: []float64{0, 0, h, w, w}}
	r := h * math.Max(math.Tan(a1), math.Tan(a2))
	s.bb = sdf.Box3{Min: v3.Vec{X: -r, Y: -w, Z: -h}, Max: v3.Vec{X: r, Y: w}}
	return s
}

// bipyramid: apexes at the origin and at (0,0,-2h), k planes each.
func bipyramid(k int, alpha, h, phase float64) *polytope {
	s := &polytope{}
	for i := 0; i < k; i++ {
		t := phase + 2*math.Pi*float64(i)/float64(k)
		s.n = append(s.n, v3.Vec{X: math.Cos(alpha) * math.Cos(t), Y: math.Cos(alpha) * math.Sin(t), Z: math.Sin(alpha)})
		s.d = append(s.d, 0)
		s.n = append(s.n, v3.Vec{X: math.Cos(alpha) * math.Cos(t), Y: math.Cos(alpha) * math.Sin(t), Z: -math.Sin(alpha)})
		s.d = append(s.d, 2*h*math.Sin(alpha))
	}
	r := h * math.Tan(alpha) / math.Cos(math.Pi/float64(k))
	s.bb = sdf.Box3{Min: v3.Vec{X: -r, Y: -r, Z: -2 * h}, Max: v3.Vec{X: r, Y: r}}
	return s
}

var sharpNames = []string{"cone", "spike", "wedge", "bipyramid", "notch"}

// buildSharp: the sharp shapes.  Local frame: apex (cone tip, spike tip, middle of the wedge ridge, upper tip of
// the bipyramid, bottom of the notch) at the origin, the solid below it; then rotated by Rot about the apex and
// the apex moved to Apex.  reach = a bound of the distance of any surface point from the apex.
func buildSharp(sp shapeSpec) (s sdf.SDF3, exact, ok bool, err error) {
	p := func(i int, d float64) float64 {
		if i < len(sp.Params) {
			return sp.Params[i]
		}
		return d
	}
	ok = true
	switch sp.Name {
	case "cone": // library cone with top radius 0: height, base radius
		h := p(0, 1.5)
		s, err = sdf.Cone3D(h, p(1, 0.8), 0, 0)
		if err == nil {
			s = sdf.Transform3D(s, sdf.Translate3d(v3.Vec{Z: -h / 2}))
		}
		exact = true
	case "spike": // number of planes, half angle, height, phase
		s = spike(int(p(0, 4)), p(1, 0.45), p(2, 1.5), p(3, 0))
	case "wedge": // two angles, height, half length of the ridge
		s = wedge(p(0, 0.4), p(1, 0.4), p(2, 1.5), p(3, 0.8))
	case "bipyramid": // number of planes, half angle, half height, phase
		s = bipyramid(int(p(0, 4)), p(1, 0.5), p(2, 0.8), p(3, 0))
	case "notch": // box side, depth of the notch, number of planes, half angle, phase: box minus an inverted spike
		b, d := p(0, 1.8), p(1, 0.7)
		var bx sdf.SDF3
		bx, err = sdf.Box3D(v3.Vec{X: b, Y: b, Z: b}, 0)
		if err == nil {
			bx = sdf.Transform3D(bx, sdf.Translate3d(v3.Vec{Z: d - b/2}))
			cut := sdf.Transform3D(spike(int(p(2, 4)), p(3, 0.5), d+0.4, p(4, 0)), sdf.RotateX(math.Pi))
			s = sdf.Difference3D(bx, cut)
		}
	default:
		return nil, false, false, nil
	}
	if err != nil {
		return nil, false, true, err
	}
	m := sdf.Identity3d()
	if len(sp.Rot) == 3 {
		m = sdf.RotateX(sp.Rot[0]).Mul(sdf.RotateZ(sp.Rot[1])).Mul(sdf.RotateY(sp.Rot[2]))
	}
	if len(sp.Apex) == 3 {
		m = sdf.Translate3d(v3.Vec{X: sp.Apex[0], Y: sp.Apex[1], Z: sp.Apex[2]}).Mul(m)
	}
	return sdf.Transform3D(s, m), exact, true, nil
}

// constField: outside everywhere; only its box matters (to ask the renderers for their sampling lattice).
type constField struct{ bb sdf.Box3 }

func (f constField) Evaluate(p v3.Vec) float64 { return 1 }
func (f constField) BoundingBox() sdf.Box3     { return f.bb }

// latticeFor: the sampling lattice of the renderer of rs on any shape with the sampled box bx.
func latticeFor(rs renderSpec, bx []float64) lattice {
	f := constField{sdf.Box3{Min: v3.Vec{X: bx[0], Y: bx[1], Z: bx[2]}, Max: v3.Vec{X: bx[3], Y: bx[4], Z: bx[5]}}}
	if rs.Renderer == "v1" {
		o := dc.VerifV1LatticePoint(newV1(rs), f, rs.Cells, v3i.Vec{})
		e := dc.VerifV1LatticePoint(newV1(rs), f, rs.Cells, v3i.Vec{X: 1, Y: 1, Z: 1})
		return lattice{Min: o, Step: e.Sub(o)}
	}
	m := dc.VerifV2Buffers(newV2(rs), f)
	return lattice{Min: m.BoxMin, Step: m.CellSize, Cells: m.Cells}
}

var sharpPlacements = []string{"on-point", "near-point", "on-edge", "near-edge", "on-face", "cell-centre", "generic"}
var sharpTilts = []string{"axis", "axis-45", "slight", "tilted"}

// genSharp draws a sharp shape for the renderer settings rs (renderer and cell count fixed): the apex is put
// relative to the lattice that renderer samples.
func genSharp(rng *Rng, name, tilt, placement string, rs renderSpec) shapeSpec {
	j := func() float64 { return 0.02 * float64(rng.Intn(10)) }
	sp := shapeSpec{Name: name, Box: []float64{-2 - j(), -2 - j(), -2 - j(), 2 + j(), 2 + j(), 2 + j()}}
	lat := latticeFor(rs, sp.Box)
	h := math.Max(lat.Step.X, math.Max(lat.Step.Y, lat.Step.Z))
	// thin features stay at least ~3 cells thick at their base, so that the solid holds lattice points
	minAngle := func(height float64) float64 { return math.Atan(1.6 * h / height) }
	centreOff := 0.0 // distance from the apex to the middle of the solid, along the axis
	switch name {
	case "cone":
		ht := rng.Uniform(1.2, 1.7)
		r0 := math.Max(rng.Uniform(0.35, 0.9), 1.6*h)
		sp.Params = []float64{ht, r0}
		centreOff = ht / 2
	case "spike":
		ht := rng.Uniform(1.2, 1.7)
		k := rng.Range(3, 6)
		al := math.Max(minAngle(ht), []float64{0.15, 0.3, 0.45, math.Pi / 4}[rng.Intn(4)])
		al = math.Min(al, math.Atan(0.8*math.Cos(math.Pi/float64(k))/ht)) // base inside a circle of radius 0.8
		sp.Params = []float64{float64(k), al, ht, rng.Uniform(0, 2*math.Pi)}
		if tilt != "tilted" && rng.Intn(2) == 0 {
			sp.Params[3] = float64(rng.Intn(4)) * math.Pi / 4
		}
		centreOff = ht / 2
	case "wedge":
		ht := rng.Uniform(1.2, 1.6)
		a1 := math.Max(minAngle(ht)/1.5, []float64{0.08, 0.2, 0.4, math.Pi / 4}[rng.Intn(4)])
		a2 := a1
		if rng.Intn(3) == 0 { // one face along the axis direction: a half wedge
			a2 = math.Max(minAngle(ht), 0.3)
			a1 = []float64{0, 0.05}[rng.Intn(2)]
		}
		a1, a2 = math.Min(a1, 0.5), math.Min(a2, 0.5)
		if math.Tan(a1)+math.Tan(a2) < 3.2*h/ht {
			a2 = math.Atan(3.2*h/ht - math.Tan(a1))
		}
		sp.Params = []float64{a1, a2, ht, rng.Uniform(0.5, 0.9)}
		centreOff = ht / 2
	case "bipyramid":
		hh := rng.Uniform(0.6, 0.85)
		k := rng.Range(3, 6)
		al := math.Max(minAngle(hh), []float64{0.4, 0.6, math.Pi / 4}[rng.Intn(3)])
		al = math.Min(al, math.Atan(0.85*math.Cos(math.Pi/float64(k))/hh))
		sp.Params = []float64{float64(k), al, hh, rng.Uniform(0, 2*math.Pi)}
		if tilt != "tilted" && rng.Intn(2) == 0 {
			sp.Params[3] = float64(rng.Intn(4)) * math.Pi / 4
		}
		centreOff = hh
	case "notch":
		d := rng.Uniform(0.5, 0.9)
		k := rng.Range(3, 5)
		al := math.Max(math.Atan(1.6*h/d), []float64{0.3, 0.5, 0.7}[rng.Intn(3)])
		al = math.Min(al, math.Atan(0.75*math.Cos(math.Pi/float64(k))/d)) // mouth inside the top face
		sp.Params = []float64{1.8, d, float64(k), al, rng.Uniform(0, 2*math.Pi)}
		centreOff = 0.9 - d
	}
	q := math.Pi / 2
	switch tilt {
	case "axis": // tip along a coordinate axis
		sp.Rot = []float64{float64(rng.Intn(4)) * q, 0, float64(rng.Intn(4)) * q}
	case "axis-45":
		sp.Rot = []float64{float64(rng.Intn(4)) * q, float64(rng.Intn(8)) * q / 2, float64(rng.Intn(4)) * q}
	case "slight":
		sp.Rot = []float64{float64(rng.Intn(4))*q + rng.Uniform(-0.08, 0.08), rng.Uniform(-0.08, 0.08), float64(rng.Intn(4))*q + rng.Uniform(-0.08, 0.08)}
	default:
		sp.Rot = []float64{rng.Uniform(0, 2*math.Pi), rng.Uniform(0, 2*math.Pi), rng.Uniform(0, 2*math.Pi)}
	}
	// the middle of the solid near the middle of the box: apex = axis * centreOff + a little
	m := sdf.RotateX(sp.Rot[0]).Mul(sdf.RotateZ(sp.Rot[1])).Mul(sdf.RotateY(sp.Rot[2]))
	a := m.MulPosition(v3.Vec{Z: centreOff}).Add(v3.Vec{X: rng.Uniform(-0.15, 0.15), Y: rng.Uniform(-0.15, 0.15), Z: rng.Uniform(-0.15, 0.15)})
	// ... then placed relative to the lattice
	g := [3]float64{(a.X - lat.Min.X) / lat.Step.X, (a.Y - lat.Min.Y) / lat.Step.Y, (a.Z - lat.Min.Z) / lat.Step.Z}
	tiny := func() float64 {
		return []float64{1e-12, 1e-9, 1e-6, 1e-3, 0.02}[rng.Intn(5)] * float64(1-2*rng.Intn(2))
	}
	frac := func() float64 {
		if rng.Intn(3) == 0 {
			return 0.5
		}
		return rng.Uniform(0.05, 0.95)
	}
	on := [3]bool{}
	switch placement {
	case "on-point", "near-point":
		on = [3]bool{true, true, true}
	case "on-edge", "near-edge":
		on = [3]bool{true, true, true}
		on[rng.Intn(3)] = false
	case "on-face":
		on[rng.Intn(3)] = true
	}
	for i := 0; i < 3; i++ {
		switch {
		case on[i]:
			g[i] = math.Round(g[i])
			if placement == "near-point" || placement == "near-edge" {
				g[i] += tiny()
			}
		case placement == "cell-centre":
			g[i] = math.Floor(g[i]) + 0.5
		case placement != "generic":
			g[i] = math.Floor(g[i]) + frac()
		}
	}
	sp.Apex = []float64{lat.Min.X + lat.Step.X*g[0], lat.Min.Y + lat.Step.Y*g[1], lat.Min.Z + lat.Step.Z*g[2]}
	return sp
}

// sharpSettings draws renderer settings: V2 over all knob settings incl. CenterPush 0, V1 over RCond.
func sharpSettings(rng *Rng, renderer string, knobs [][]float64) renderSpec {
	rs := renderSpec{Renderer: renderer, Cells: []int{11, 12, 14, 16, 20, 23}[rng.Intn(6)]}
	if renderer == "v1" {
		rs.RCond = []float64{0, 1e-3, 0.1}[rng.Intn(3)]
		return rs
	}
	rs.FarAway = []float64{0.499999, 0.499999, 0.5, 0.4, 0.25, 0.1}[rng.Intn(6)]
	rs.CenterPush = []float64{0.01, 0.01, 0, 1e-6, 0.1, 1}[rng.Intn(6)]
	rs.Raycast = knobs[rng.Intn(len(knobs))]
	return rs
}

// zeroAreaDistinct counts the triangles with three distinct vertices that lie exactly on one line.
func zeroAreaDistinct(ts []sdf.Triangle3) int {
	n := 0
	for _, t := range ts {
		if vk(t[0]) == vk(t[1]) || vk(t[1]) == vk(t[2]) || vk(t[2]) == vk(t[0]) {
			continue
		}
		c := t[1].Sub(t[0]).Cross(t[2].Sub(t[0]))
		if c.X == 0 && c.Y == 0 && c.Z == 0 {
			n++
		}
	}
	return n
}

// ---------------------------------------------------------------- triangle level: generateTriangles on chosen vertex buffers

// quadSpec: a sign grid and, per cell, the position its vertex is moved to before generateTriangles runs
// (cells not listed keep the position placeVertices gave them).
type quadSpec struct {
	Grid signGrid     `json:"grid"`
	Pos  [][6]float64 `json:"pos"` // cell x,y,z, position x,y,z
}

func (qs quadSpec) key() string {
	h := uint64(1469598103934665603)
	for _, p := range qs.Pos {
		for _, v := range p {
			h = (h ^ math.Float64bits(v)) * 1099511628211
		}
	}
	return fmt.Sprintf("v2quads:%s/%d:%x", qs.Grid.key(), len(qs.Pos), h)
}

var quadModes = []string{"lines", "lines-all", "corners", "near-corners", "mixed", "placed"}

// genQuadPos draws vertex positions for the cells of the sign grid sg.
//
//	lines      for about half of the sign-changing interior lattice edges the (not yet moved) vertices of the four
//	           cells around it are put ON that edge, at parameters from {0, 1/4, 1/2, 3/4, 1}: three or four
//	           vertices of the quad collinear, some of them coincident
//	lines-all  the same for every such edge
//	corners    every vertex on a corner of its cell (whole quads collapse)
//	near-corners  every vertex at a corner of its cell moved inwards by 0, 2^-40, 2^-30 or 2^-20 per coordinate: the
//	           vertices of neighbouring cells nearly coincide, and coincide only when all their offsets are 0
//	mixed      per cell: kept / a corner / a point of an edge of the cell / a dyadic interior point
//	placed     nothing moved
func genQuadPos(rng *Rng, sg signGrid, mode string) [][6]float64 {
	solid := map[int]bool{}
	for _, i := range sg.Solid {
		solid[i] = true
	}
	pos := map[[3]int][3]float64{}
	var order [][3]int
	set := func(c [3]int, p [3]float64) {
		if _, ok := pos[c]; !ok {
			pos[c] = p
			order = append(order, c)
		}
	}
	ts := []float64{0, 0.25, 0.5, 0.75, 1}
	switch mode {
	case "lines", "lines-all":
		for a := 0; a < 3; a++ {
			b, c := (a+1)%3, (a+2)%3
			for x := 0; x <= sg.N[0]; x++ {
				for y := 0; y <= sg.N[1]; y++ {
					for z := 0; z <= sg.N[2]; z++ {
						p := [3]int{x, y, z}
						if p[a] >= sg.N[a] || p[b] < 1 || p[b] >= sg.N[b] || p[c] < 1 || p[c] >= sg.N[c] {
							continue
						}
						q := p
						q[a]++
						if solid[sg.idx(p[0], p[1], p[2])] == solid[sg.idx(q[0], q[1], q[2])] {
							continue
						}
						if mode == "lines" && rng.Intn(2) == 0 {
							continue
						}
						for db := 0; db < 2; db++ {
							for dc := 0; dc < 2; dc++ {
								cell := p
								cell[b] -= db
								cell[c] -= dc
								v := [3]float64{float64(p[0]), float64(p[1]), float64(p[2])}
								v[a] += ts[rng.Intn(len(ts))]
								set(cell, v)
							}
						}
					}
				}
			}
		}
	case "corners", "near-corners", "mixed":
		for x := 0; x < sg.N[0]; x++ {
			for y := 0; y < sg.N[1]; y++ {
				for z := 0; z < sg.N[2]; z++ {
					v := [3]float64{float64(x), float64(y), float64(z)}
					kind := 1
					if mode == "mixed" {
						kind = rng.Intn(4)
					}
					switch kind {
					case 0:
						continue
					case 1:
						for i := range v {
							up := rng.Intn(2)
							v[i] += float64(up)
							if mode == "near-corners" {
								v[i] += float64(1-2*up) * []float64{0, 0, 0x1p-40, 0x1p-30, 0x1p-20}[rng.Intn(5)]
							}
						}
					case 2:
						free := rng.Intn(3)
						for i := range v {
							if i == free {
								v[i] += ts[rng.Intn(len(ts))]
							} else {
								v[i] += float64(rng.Intn(2))
							}
						}
					default:
						for i := range v {
							v[i] += float64(rng.Intn(9)) / 8
						}
					}
					set([3]int{x, y, z}, v)
				}
			}
		}
	}
	out := make([][6]float64, len(order))
	for i, c := range order {
		p := pos[c]
		out[i] = [6]float64{float64(c[0]), float64(c[1]), float64(c[2]), p[0], p[1], p[2]}
	}
	return out
}

// checkQuads: generateTriangles on the moved vertex buffer against the index mesh.  Walking the index triangles
// in order: each one, with its cells replaced by their positions, has to be the next triangle sent (up to rotation
// of its vertices) unless two of its vertices are identical, in which case it may be left out; nothing else may
// be sent.  Then, for a grid with outside boundary, the triangles sent are closed after identifying coincident
// vertices (a consequence, checked independently).
func checkQuads(r *Report, rng *Rng, stratum string, qs quadSpec) {
	key := qs.key()
	sg := qs.Grid
	g := sg.field(rng)
	mc := maxi(sg.N[0], maxi(sg.N[1], sg.N[2]))
	mk := func() *dc.DualContouringV2 { return dc.NewDualContouringV2(0.499999, 0.01, 0, 1, 1e-4, 200, mc) }
	m := dc.VerifV2Buffers(mk(), g)
	if m.Cells.X != sg.N[0] || m.Cells.Y != sg.N[1] || m.Cells.Z != sg.N[2] {
		r.Violate(key, fmt.Sprintf("harness: getCells gives %v for the %v lattice field", m.Cells, sg.N), qs)
		return
	}
	moved := map[v3i.Vec]v3.Vec{}
	for _, p := range qs.Pos {
		moved[v3i.Vec{X: int(p[0]), Y: int(p[1]), Z: int(p[2])}] = v3.Vec{X: p[3], Y: p[4], Z: p[5]}
	}
	cells, used, sent := dc.VerifV2TrianglesAt(mk(), g, func(c v3i.Vec, placed v3.Vec) v3.Vec {
		if p, ok := moved[c]; ok {
			return p
		}
		return placed
	})
	at := map[v3i.Vec]v3.Vec{}
	for i, c := range cells {
		at[c] = used[i]
	}
	same := func(a sdf.Triangle3, b [3]v3.Vec) bool {
		for rot := 0; rot < 3; rot++ {
			if vk(a[0]) == vk(b[rot]) && vk(a[1]) == vk(b[(rot+1)%3]) && vk(a[2]) == vk(b[(rot+2)%3]) {
				return true
			}
		}
		return false
	}
	k, droppable, collinear, fault := 0, 0, 0, ""
	for i, t := range m.Triangles {
		w := [3]v3.Vec{at[t[0]], at[t[1]], at[t[2]]}
		twoSame := vk(w[0]) == vk(w[1]) || vk(w[1]) == vk(w[2]) || vk(w[2]) == vk(w[0])
		if twoSame {
			droppable++
		} else if c := w[1].Sub(w[0]).Cross(w[2].Sub(w[0])); c.X == 0 && c.Y == 0 && c.Z == 0 {
			collinear++
		}
		if k < len(sent) && same(sent[k], w) {
			k++
			continue
		}
		if twoSame {
			continue
		}
		fault = fmt.Sprintf("triangle %d of the index mesh, cells %v %v %v with vertices %v %v %v (three distinct vertices), is not sent by generateTriangles", i, t[0], t[1], t[2], w[0], w[1], w[2])
		if k < len(sent) {
			fault += fmt.Sprintf("; next triangle sent: %v", sent[k])
		}
		break
	}
	if fault == "" && k < len(sent) {
		fault = fmt.Sprintf("generateTriangles sends %d triangles that are not in the index mesh, first %v", len(sent)-k, sent[k])
	}
	r.Case("v2-quads/"+stratum, key, droppable+collinear > 0)
	r.Coverage["v2_quads_triangles_two_identical_vertices"] = addN(r.Coverage["v2_quads_triangles_two_identical_vertices"], droppable)
	r.Coverage["v2_quads_triangles_collinear_distinct"] = addN(r.Coverage["v2_quads_triangles_collinear_distinct"], collinear)
	// the failing input names the position of EVERY vertex (also the ones kept where placeVertices put them)
	full := quadSpec{Grid: sg}
	for i, c := range cells {
		full.Pos = append(full.Pos, [6]float64{float64(c.X), float64(c.Y), float64(c.Z), used[i].X, used[i].Y, used[i].Z})
	}
	if fault != "" {
		r.Violate(key, "V2 generateTriangles on a moved vertex buffer: "+fault, full)
		return
	}
	if sg.boundaryOutside() {
		cnt := map[[2]vkey]int{}
		for _, t := range sent {
			for e := 0; e < 3; e++ {
				cnt[[2]vkey{vk(t[e]), vk(t[(e+1)%3])}]++
			}
		}
		for e, c := range cnt {
			if cnt[[2]vkey{e[1], e[0]}] != c {
				r.Violate(key, fmt.Sprintf("V2 generateTriangles on a moved vertex buffer: the %d triangles sent are not closed after identifying coincident vertices (edge %x -> %x: %d, reverse %d)", len(sent), e[0], e[1], c, cnt[[2]vkey{e[1], e[0]}]), full)
				return
			}
		}
	}
}

func addN(v interface{}, n int) interface{} {
	if m, ok := v.(int); ok {
		return m + n
	}
	return n
}
