package main

// C19: dual-contouring meshes (render/dc) are closed, oriented outward, near the surface and
// identical on repeated runs.
//
//  gen   harness/dctab: the dc tables, code-embedded index patterns and the determinism scan of
//        the CURRENT source -> coq/Generated/DCTables.v; the code of the V1 octree traversal
//        (contourCellProc, dcContourFaceProc, dcContourEdgeProc, dcContourProcessEdge) translated
//        from the Go AST -> coq/Generated/DCProc.v (proved equal to the model in coq/Algo/DCProcEq.v)
//  run   (a) sign grids: lattice fields realising arbitrary sign assignments are rendered by the
//            real V1/V2 code (through the hooks: index buffer / cell triples); the Gallina models
//            coq/Algo/DCModel.v (v1_mesh, v2_mesh) are evaluated on the same grids inside coqc
//            and must give the same triangle list, in the same order;
//        (b) analytic shapes through the public Render methods: directed-edge balance after
//            identifying coincident vertices, signed volume, vertex containment / distance to the
//            surface, run-to-run identity.

import (
	"encoding/json"
	"fmt"
	"io"
	"log"
	"math"
	"math/big"
	"os"
	"path/filepath"
	"strings"

	"github.com/deadsy/sdfx/render/dc"
	"github.com/deadsy/sdfx/sdf"
	v2 "github.com/deadsy/sdfx/vec/v2"
	v3 "github.com/deadsy/sdfx/vec/v3"
	"github.com/deadsy/sdfx/vec/v3i"
	"verifharness/dctab"
	. "verifharness/kit"
)

func main() {
	Main("C19", check, stateGen, func(c *Ctx) (string, []byte, error) { return dctab.Gen(c.Repo) },
		func(c *Ctx) (string, []byte, error) { return dctab.GenProc(c.Repo) })
}

// ---------------------------------------------------------------- lattice fields

// gridField is a continuous field on the box [0,nx]x[0,ny]x[0,nz]: trilinear interpolation of the
// values at the integer lattice points (|value| in [1/4,1], sign = the sign grid), +1 outside.
type gridField struct {
	n     [3]int
	val   []float64 // (nx+1)(ny+1)(nz+1), x-major
	evals int
	box   *[3]int // bounding box [0,box] when it is smaller than the lattice
}

func (g *gridField) at(x, y, z int) float64 {
	if x < 0 || y < 0 || z < 0 || x > g.n[0] || y > g.n[1] || z > g.n[2] {
		return 1
	}
	return g.val[(x*(g.n[1]+1)+y)*(g.n[2]+1)+z]
}
func (g *gridField) Evaluate(p v3.Vec) float64 {
	g.evals++
	fx, fy, fz := math.Floor(p.X), math.Floor(p.Y), math.Floor(p.Z)
	x, y, z := int(fx), int(fy), int(fz)
	tx, ty, tz := p.X-fx, p.Y-fy, p.Z-fz
	lerp := func(a, b, t float64) float64 { return a + (b-a)*t }
	c00 := lerp(g.at(x, y, z), g.at(x+1, y, z), tx)
	c10 := lerp(g.at(x, y+1, z), g.at(x+1, y+1, z), tx)
	c01 := lerp(g.at(x, y, z+1), g.at(x+1, y, z+1), tx)
	c11 := lerp(g.at(x, y+1, z+1), g.at(x+1, y+1, z+1), tx)
	return lerp(lerp(c00, c10, ty), lerp(c01, c11, ty), tz)
}
func (g *gridField) BoundingBox() sdf.Box3 {
	if g.box != nil {
		return sdf.Box3{Min: v3.Vec{}, Max: v3.Vec{X: float64(g.box[0]), Y: float64(g.box[1]), Z: float64(g.box[2])}}
	}
	return sdf.Box3{Min: v3.Vec{}, Max: v3.Vec{X: float64(g.n[0]), Y: float64(g.n[1]), Z: float64(g.n[2])}}
}

type signGrid struct {
	N     [3]int `json:"n"`
	Solid []int  `json:"solid"` // indices (x-major over the (n+1)^3 points) of solid points
	// Box, when set, is the rendered volume [0,Box] inside the lattice [0,N] (V1 correspondence only: the
	// field is then defined, and possibly solid, in the padding the cubic octree samples beyond the volume)
	Box *[3]int `json:"box,omitempty"`
}

func (sg signGrid) npoints() int { return (sg.N[0] + 1) * (sg.N[1] + 1) * (sg.N[2] + 1) }
func (sg signGrid) bits() *big.Int {
	b := new(big.Int)
	for _, i := range sg.Solid {
		b.SetBit(b, i, 1)
	}
	return b
}
func (sg signGrid) key() string {
	if sg.Box != nil {
		return fmt.Sprintf("%dx%dx%d/box%dx%dx%d:%s", sg.N[0], sg.N[1], sg.N[2], sg.Box[0], sg.Box[1], sg.Box[2], sg.bits().Text(62))
	}
	return fmt.Sprintf("%dx%dx%d:%s", sg.N[0], sg.N[1], sg.N[2], sg.bits().Text(62))
}
func (sg signGrid) idx(x, y, z int) int { return (x*(sg.N[1]+1)+y)*(sg.N[2]+1) + z }
func (sg signGrid) onBoundary(i int) bool {
	z := i % (sg.N[2] + 1)
	y := (i / (sg.N[2] + 1)) % (sg.N[1] + 1)
	x := i / ((sg.N[2] + 1) * (sg.N[1] + 1))
	return x == 0 || y == 0 || z == 0 || x == sg.N[0] || y == sg.N[1] || z == sg.N[2]
}
func (sg signGrid) boundaryOutside() bool {
	for _, i := range sg.Solid {
		if sg.onBoundary(i) {
			return false
		}
	}
	return true
}
func (sg signGrid) field(rng *Rng) *gridField {
	g := &gridField{n: sg.N, val: make([]float64, sg.npoints()), box: sg.Box}
	for i := range g.val {
		g.val[i] = 0.25 + 0.75*float64(rng.Intn(4))/4 // 0.25, 0.4375, 0.625, 0.8125 (dyadic)
	}
	for _, i := range sg.Solid {
		g.val[i] = -g.val[i]
	}
	return g
}

// genGrid draws a sign grid of the named stratum.
func genGrid(rng *Rng, n [3]int, stratum string) signGrid {
	sg := signGrid{N: n}
	set := map[int]bool{}
	interior := func() (int, int, int) {
		return rng.Range(1, maxi(1, n[0]-1)), rng.Range(1, maxi(1, n[1]-1)), rng.Range(1, maxi(1, n[2]-1))
	}
	hasInterior := n[0] >= 2 && n[1] >= 2 && n[2] >= 2
	switch stratum {
	case "empty":
	case "single-point":
		if hasInterior {
			x, y, z := interior()
			set[sg.idx(x, y, z)] = true
		}
	case "dense", "sparse", "half":
		p := map[string]int{"dense": 85, "sparse": 15, "half": 50}[stratum]
		for x := 1; x < n[0]; x++ {
			for y := 1; y < n[1]; y++ {
				for z := 1; z < n[2]; z++ {
					if rng.Intn(100) < p {
						set[sg.idx(x, y, z)] = true
					}
				}
			}
		}
	case "full-interior":
		for x := 1; x < n[0]; x++ {
			for y := 1; y < n[1]; y++ {
				for z := 1; z < n[2]; z++ {
					set[sg.idx(x, y, z)] = true
				}
			}
		}
	case "checker":
		for x := 1; x < n[0]; x++ {
			for y := 1; y < n[1]; y++ {
				for z := 1; z < n[2]; z++ {
					if (x+y+z)%2 == 0 {
						set[sg.idx(x, y, z)] = true
					}
				}
			}
		}
	case "boxes":
		if hasInterior {
			for k := rng.Range(1, 3); k > 0; k-- {
				x0, y0, z0 := interior()
				x1, y1, z1 := interior()
				for x := mini(x0, x1); x <= maxi(x0, x1); x++ {
					for y := mini(y0, y1); y <= maxi(y0, y1); y++ {
						for z := mini(z0, z1); z <= maxi(z0, z1); z++ {
							set[sg.idx(x, y, z)] = true
						}
					}
				}
			}
		}
	case "boundary-solid": // outside the class of the property: correspondence only
		for i := 0; i < sg.npoints(); i++ {
			if rng.Intn(100) < 40 {
				set[i] = true
			}
		}
	}
	for i := 0; i < sg.npoints(); i++ {
		if set[i] {
			sg.Solid = append(sg.Solid, i)
		}
	}
	return sg
}

func mini(a, b int) int {
	if a < b {
		return a
	}
	return b
}
func maxi(a, b int) int {
	if a > b {
		return a
	}
	return b
}

type itri [3]v3i.Vec

func cellTerm(c v3i.Vec) string { return fmt.Sprintf("(%s,%s,%s)", CZ(c.X), CZ(c.Y), CZ(c.Z)) }
func trisTerm(ts []itri) string {
	xs := make([]string, len(ts))
	for i, t := range ts {
		xs[i] = "(" + cellTerm(t[0]) + "," + cellTerm(t[1]) + "," + cellTerm(t[2]) + ")"
	}
	return CList(xs)
}

// unbalanced returns a description of the first directed edge without matching reverse (index space).
func unbalancedI(ts []itri) string {
	cnt := map[[2]v3i.Vec]int{}
	for _, t := range ts {
		for k := 0; k < 3; k++ {
			cnt[[2]v3i.Vec{t[k], t[(k+1)%3]}]++
		}
	}
	bad, n := "", 0
	for e, c := range cnt {
		if cnt[[2]v3i.Vec{e[1], e[0]}] != c {
			n++
			s := fmt.Sprintf("%v->%v x%d (reverse x%d)", e[0], e[1], c, cnt[[2]v3i.Vec{e[1], e[0]}])
			if bad == "" || s < bad {
				bad = s
			}
		}
	}
	if n == 0 {
		return ""
	}
	return fmt.Sprintf("%d unbalanced directed edges, e.g. %s", n, bad)
}

func signedVolumeI(ts []itri) float64 {
	v := 0.0
	for _, t := range ts {
		a := v3.Vec{X: float64(t[0].X), Y: float64(t[0].Y), Z: float64(t[0].Z)}
		b := v3.Vec{X: float64(t[1].X), Y: float64(t[1].Y), Z: float64(t[1].Z)}
		c := v3.Vec{X: float64(t[2].X), Y: float64(t[2].Y), Z: float64(t[2].Z)}
		v += a.Dot(b.Cross(c)) / 6
	}
	return v
}

// ---------------------------------------------------------------- analytic shapes

// wrapped gives a shape an enlarged bounding box, so that its surface is strictly inside the sampled volume.
type wrapped struct {
	s  sdf.SDF3
	bb sdf.Box3
}

func (w *wrapped) Evaluate(p v3.Vec) float64 { return w.s.Evaluate(p) }
func (w *wrapped) BoundingBox() sdf.Box3     { return w.bb }

type shapeSpec struct {
	Name   string     `json:"name"`
	Margin [6]float64 `json:"margin"` // enlargement of the tight box, fractions of its size: -x,-y,-z,+x,+y,+z
	Params []float64  `json:"params"`
	Scale  []float64  `json:"scale,omitempty"`  // non-uniform sdf.Scale3d applied last (the field then over/under-estimates distance)
	Box    []float64  `json:"box,omitempty"`    // explicit sampled box min x,y,z max x,y,z (overrides Margin)
	Centre []float64  `json:"centre,omitempty"` // translation applied to "box"
	// sharp shapes (sharp.go): position of the apex and rotation about it (angles of RotateX . RotateZ . RotateY)
	Apex []float64 `json:"apex,omitempty"`
	Rot  []float64 `json:"rot,omitempty"`
}

func buildShape(sp shapeSpec) (sdf.SDF3, bool, error) {
	p := func(i int, d float64) float64 {
		if i < len(sp.Params) {
			return sp.Params[i]
		}
		return d
	}
	var s sdf.SDF3
	var err error
	exact := true
	switch sp.Name {
	case "sphere":
		s, err = sdf.Sphere3D(p(0, 1))
		if err == nil {
			s = sdf.Transform3D(s, sdf.Translate3d(v3.Vec{X: p(1, 0.1), Y: p(2, -0.07), Z: p(3, 0.03)}))
		}
	case "box":
		s, err = sdf.Box3D(v3.Vec{X: p(0, 2), Y: p(1, 1.5), Z: p(2, 1)}, 0)
		if err == nil && len(sp.Centre) == 3 {
			s = sdf.Transform3D(s, sdf.Translate3d(v3.Vec{X: sp.Centre[0], Y: sp.Centre[1], Z: sp.Centre[2]}))
		}
	case "origin-sphere":
		s, err = sdf.Sphere3D(p(0, 1))
	case "rotbox":
		s, err = sdf.Box3D(v3.Vec{X: p(0, 2), Y: p(1, 1.5), Z: p(2, 1)}, 0)
		if err == nil {
			m := sdf.RotateX(p(3, 0.5)).Mul(sdf.RotateZ(p(4, 0.7))).Mul(sdf.RotateY(p(5, 0.3)))
			s = sdf.Transform3D(s, m)
		}
	case "roundbox":
		s, err = sdf.Box3D(v3.Vec{X: p(0, 2), Y: p(1, 1.5), Z: p(2, 1)}, p(3, 0.3))
	case "difference": // box minus sphere at a corner: concave sharp edges; a lower bound of the distance
		var b, sp2 sdf.SDF3
		b, err = sdf.Box3D(v3.Vec{X: p(0, 2), Y: p(1, 2), Z: p(2, 2)}, 0)
		if err == nil {
			sp2, err = sdf.Sphere3D(p(3, 0.9))
		}
		if err == nil {
			sp2 = sdf.Transform3D(sp2, sdf.Translate3d(v3.Vec{X: 1, Y: 1, Z: 1}))
			s = sdf.Difference3D(b, sp2)
			exact = false
		}
	case "cylinder-hole": // cylinder minus a coaxial thinner cylinder cut half way: CSG with curved + flat faces
		var a, b sdf.SDF3
		a, err = sdf.Cylinder3D(p(0, 2), p(1, 1), 0)
		if err == nil {
			b, err = sdf.Cylinder3D(p(0, 2), p(2, 0.45), 0)
		}
		if err == nil {
			b = sdf.Transform3D(b, sdf.Translate3d(v3.Vec{Z: p(0, 2) / 2}))
			s = sdf.Difference3D(a, b)
			exact = false
		}
	case "union": // two overlapping spheres
		var a, b sdf.SDF3
		a, err = sdf.Sphere3D(p(0, 1))
		if err == nil {
			b, err = sdf.Sphere3D(p(1, 0.7))
		}
		if err == nil {
			b = sdf.Transform3D(b, sdf.Translate3d(v3.Vec{X: p(2, 1.1), Y: 0.2}))
			s = sdf.Union3D(a, b)
			exact = false
		}
	case "cylinder":
		s, err = sdf.Cylinder3D(p(0, 2), p(1, 0.5), 0)
	case "lprism": // box minus a quarter of itself: an L-shaped prism, all faces axis-parallel
		var b sdf.SDF3
		b, err = sdf.Box3D(v3.Vec{X: p(0, 2), Y: p(1, 1.5), Z: p(2, 1)}, 0)
		if err == nil {
			s = sdf.Difference3D(b, sdf.Transform3D(b, sdf.Translate3d(v3.Vec{X: p(0, 2) / 2, Y: p(1, 1.5) / 2})))
			exact = false
		}
	case "twist": // rounded bar twisted about z: Evaluate over-estimates distance when the twist is fast
		s = sdf.TwistExtrude3D(sdf.Box2D(v2.Vec{X: p(0, 2), Y: p(1, 0.6)}, 0.1), p(2, 2), p(3, 3))
		exact = false
	case "scale-extrude": // strongly tapered extrusion
		s = sdf.ScaleExtrude3D(sdf.Box2D(v2.Vec{X: p(0, 2), Y: p(1, 1.2)}, 0.1), p(2, 2), v2.Vec{X: p(3, 0.3), Y: p(4, 0.4)})
		exact = false
	default:
		var ok bool
		if s, exact, ok, err = buildSharp(sp); !ok {
			return nil, false, fmt.Errorf("unknown shape %q", sp.Name)
		}
	}
	if err != nil {
		return nil, false, err
	}
	if len(sp.Scale) == 3 {
		s = sdf.Transform3D(s, sdf.Scale3d(v3.Vec{X: sp.Scale[0], Y: sp.Scale[1], Z: sp.Scale[2]}))
		exact = false
	}
	if len(sp.Box) == 6 {
		return &wrapped{s: s, bb: sdf.Box3{Min: v3.Vec{X: sp.Box[0], Y: sp.Box[1], Z: sp.Box[2]}, Max: v3.Vec{X: sp.Box[3], Y: sp.Box[4], Z: sp.Box[5]}}}, exact, nil
	}
	bb := s.BoundingBox()
	sz := bb.Size()
	w := &wrapped{s: s, bb: sdf.Box3{
		Min: v3.Vec{X: bb.Min.X - sp.Margin[0]*sz.X, Y: bb.Min.Y - sp.Margin[1]*sz.Y, Z: bb.Min.Z - sp.Margin[2]*sz.Z},
		Max: v3.Vec{X: bb.Max.X + sp.Margin[3]*sz.X, Y: bb.Max.Y + sp.Margin[4]*sz.Y, Z: bb.Max.Z + sp.Margin[5]*sz.Z}}}
	return w, exact, nil
}

// overEstimates: Evaluate has the right sign and zero set but may grow faster than distance
// (non-uniform / shrinking scale, twist, tapered extrusion): |f(v)| <= cell diagonal is then no consequence
// of "v within a cell diagonal of the surface"; every other oracle applies unchanged.
func (sp shapeSpec) overEstimates() bool {
	return len(sp.Scale) == 3 || sp.Name == "twist" || sp.Name == "scale-extrude"
}

type renderSpec struct {
	Shape    shapeSpec `json:"shape"`
	Renderer string    `json:"renderer"` // "v1" | "v2"
	Cells    int       `json:"cells"`
	// v1
	RCond float64 `json:"rcond"`
	// v1: Simplify (absent = -1, simplification off) and LockVertices (absent = on): the class of the property is
	// simplification off / lock on; other settings only occur in the value strata (construction paths, histories)
	Simplify *float64 `json:"simplify,omitempty"`
	NoLock   bool     `json:"no_lock,omitempty"`
	// v2
	FarAway    float64 `json:"far_away"`
	CenterPush float64 `json:"center_push"`
	// v2 ray cast knobs: scaleAndSigmoid, stepScale, epsilon, maxSteps (default 0, 1, 1e-4, 1000)
	Raycast []float64 `json:"raycast,omitempty"`
}

func (rs renderSpec) key() string {
	b, _ := json.Marshal(rs)
	return "render:" + string(b)
}

// v1s: the settings (Simplify, RCond, LockVertices) of a V1 render spec.
func (rs renderSpec) v1s() (float64, float64, bool) {
	sim := -1.0
	if rs.Simplify != nil {
		sim = *rs.Simplify
	}
	return sim, rs.RCond, !rs.NoLock
}

// inClass: the settings the property is claimed for (V1: no simplification, vertices locked; V2: clamp 0..1/2).
func (rs renderSpec) inClass() bool {
	if rs.Renderer == "v1" {
		sim, rc, lock := rs.v1s()
		return sim < 0 && lock && rc >= 0 && rc < 1
	}
	return rs.FarAway >= 0 && rs.FarAway <= 0.5
}

// newV1 is the documented construction: the constructor, called with the settings.
func newV1(rs renderSpec) *dc.DualContouringV1 { return dc.NewDualContouringV1(rs.v1s()) }

func renderV1(s sdf.SDF3, rs renderSpec) []sdf.Triangle3 {
	return renderV1With(newV1(rs), s, rs.Cells)
}

// renderV1With renders with the given renderer VALUE (it may have rendered before).
func renderV1With(r *dc.DualContouringV1, s sdf.SDF3, cells int) []sdf.Triangle3 {
	ch := make(chan *sdf.Triangle3, 1024)
	var out []sdf.Triangle3
	done := make(chan struct{})
	go func() {
		for t := range ch {
			out = append(out, *t)
		}
		close(done)
	}()
	r.Render(s, cells, ch)
	close(ch)
	<-done
	return out
}

func newV2(rs renderSpec) *dc.DualContouringV2 {
	if len(rs.Raycast) == 4 {
		return dc.NewDualContouringV2(rs.FarAway, rs.CenterPush, rs.Raycast[0], rs.Raycast[1], rs.Raycast[2], int(rs.Raycast[3]), rs.Cells)
	}
	return dc.NewDualContouringV2(rs.FarAway, rs.CenterPush, 0, 1, 1e-4, 1000, rs.Cells)
}

func renderV2(s sdf.SDF3, rs renderSpec) []sdf.Triangle3 { return renderV2With(newV2(rs), s) }

func renderV2With(r *dc.DualContouringV2, s sdf.SDF3) []sdf.Triangle3 {
	ch := make(chan []*sdf.Triangle3, 1024)
	var out []sdf.Triangle3
	done := make(chan struct{})
	go func() {
		for ts := range ch {
			for _, t := range ts {
				out = append(out, *t)
			}
		}
		close(done)
	}()
	r.Render(s, ch)
	close(ch)
	<-done
	return out
}

type vkey [3]uint64

func vk(p v3.Vec) vkey {
	// identify coincident vertices: equal coordinates (+0 and -0 identified)
	f := func(x float64) uint64 {
		if x == 0 {
			return 0
		}
		return math.Float64bits(x)
	}
	return vkey{f(p.X), f(p.Y), f(p.Z)}
}

func sameTriangles(a, b []sdf.Triangle3) (bool, string) {
	if len(a) != len(b) {
		return false, fmt.Sprintf("%d triangles in the first run, %d in the second", len(a), len(b))
	}
	for i := range a {
		for k := 0; k < 3; k++ {
			if vk(a[i][k]) != vk(b[i][k]) && !(isNaNV(a[i][k]) && isNaNV(b[i][k])) {
				return false, fmt.Sprintf("triangle %d vertex %d: %v in the first run, %v in the second", i, k, a[i][k], b[i][k])
			}
		}
	}
	return true, ""
}
func isNaNV(p v3.Vec) bool { return math.IsNaN(p.X) || math.IsNaN(p.Y) || math.IsNaN(p.Z) }
func finiteV(p v3.Vec) bool {
	return !math.IsNaN(p.X+p.Y+p.Z) && !math.IsInf(p.X, 0) && !math.IsInf(p.Y, 0) && !math.IsInf(p.Z, 0)
}

// lattice describes the sampling lattice of a render: point i is Min + Size*i/Cells per axis.
type lattice struct {
	Min, Step v3.Vec
	Cells     v3i.Vec
}

func (l lattice) point(i, j, k int) v3.Vec {
	return v3.Vec{X: l.Min.X + l.Step.X*float64(i), Y: l.Min.Y + l.Step.Y*float64(j), Z: l.Min.Z + l.Step.Z*float64(k)}
}
func (l lattice) diag() float64 { return l.Step.Length() }

// inCrossingCell: v lies (within tol cell sizes) in a lattice cell whose corner signs differ.
func (l lattice) inCrossingCell(s sdf.SDF3, v v3.Vec, tol float64) bool {
	cand := func(t float64, n int) []int {
		f := math.Floor(t)
		c := []int{int(f)}
		if t-f <= tol {
			c = append(c, int(f)-1)
		}
		if f+1-t <= tol {
			c = append(c, int(f)+1)
		}
		var o []int
		for _, i := range c {
			if i >= 0 && i < n {
				o = append(o, i)
			}
		}
		return o
	}
	xs := cand((v.X-l.Min.X)/l.Step.X, l.Cells.X)
	ys := cand((v.Y-l.Min.Y)/l.Step.Y, l.Cells.Y)
	zs := cand((v.Z-l.Min.Z)/l.Step.Z, l.Cells.Z)
	for _, i := range xs {
		for _, j := range ys {
			for _, k := range zs {
				neg, pos := 0, 0
				for c := 0; c < 8; c++ {
					if s.Evaluate(l.point(i+c>>2&1, j+c>>1&1, k+c&1)) < 0 {
						neg++
					} else {
						pos++
					}
				}
				if neg > 0 && pos > 0 {
					return true
				}
			}
		}
	}
	return false
}

// referenceDiff evaluates the field at every point of the n-lattice and compares the observed triangles (cell
// triples) with the dual mesh of that sign grid: for every lattice edge with four surrounding cells and end
// signs that differ, the quad of those four cells as the fan from the lowest cell, wound from solid to void.
// Triangles are compared as a multiset up to rotation.  When some lattice value is within 1e-12 of zero the
// sign seen by the renderer may legitimately depend on the last bit of the coordinates: not compared.
func referenceDiff(n v3i.Vec, f func(i, j, k int) float64, obs []itri, r *Report, tag string) string {
	nx, ny, nz := n.X+1, n.Y+1, n.Z+1
	solid := make([]bool, nx*ny*nz)
	for i := 0; i < nx; i++ {
		for j := 0; j < ny; j++ {
			for k := 0; k < nz; k++ {
				v := f(i, j, k)
				if math.Abs(v) < 1e-12 || math.IsNaN(v) {
					r.Coverage["reference_skipped_"+tag], _ = addOne(r.Coverage["reference_skipped_"+tag])
					return ""
				}
				solid[(i*ny+j)*nz+k] = v < 0
			}
		}
	}
	r.Coverage["reference_compared_"+tag], _ = addOne(r.Coverage["reference_compared_"+tag])
	at := func(p v3i.Vec) bool { return solid[(p.X*ny+p.Y)*nz+p.Z] }
	less := func(a, b v3i.Vec) bool {
		if a.X != b.X {
			return a.X < b.X
		}
		if a.Y != b.Y {
			return a.Y < b.Y
		}
		return a.Z < b.Z
	}
	canon := func(t itri) itri { // rotate the lowest cell to the front
		m := 0
		for k := 1; k < 3; k++ {
			if less(t[k], t[m]) {
				m = k
			}
		}
		return itri{t[m], t[(m+1)%3], t[(m+2)%3]}
	}
	sub := func(p, q v3i.Vec) v3i.Vec { return v3i.Vec{X: p.X - q.X, Y: p.Y - q.Y, Z: p.Z - q.Z} }
	want := map[itri]int{}
	unit := [3]v3i.Vec{{X: 1}, {Y: 1}, {Z: 1}}
	dims := [3]int{n.X, n.Y, n.Z}
	get := func(p v3i.Vec, a int) int { return [3]int{p.X, p.Y, p.Z}[a] }
	nq := 0
	for a := 0; a < 3; a++ {
		b, c := (a+1)%3, (a+2)%3
		for i := 0; i <= n.X; i++ {
			for j := 0; j <= n.Y; j++ {
				for k := 0; k <= n.Z; k++ {
					p := v3i.Vec{X: i, Y: j, Z: k}
					if get(p, a) >= dims[a] || get(p, b) < 1 || get(p, b) >= dims[b] || get(p, c) < 1 || get(p, c) >= dims[c] {
						continue
					}
					s0, s1 := at(p), at(p.Add(unit[a]))
					if s0 == s1 {
						continue
					}
					nq++
					q0, q1, q2, q3 := sub(sub(p, unit[b]), unit[c]), sub(p, unit[c]), p, sub(p, unit[b])
					if s0 {
						want[canon(itri{q0, q1, q2})]++
						want[canon(itri{q0, q2, q3})]++
					} else {
						want[canon(itri{q0, q3, q2})]++
						want[canon(itri{q0, q2, q1})]++
					}
				}
			}
		}
	}
	missing, extra, eg := 0, 0, ""
	for _, t := range obs {
		ct := canon(t)
		if want[ct] > 0 {
			want[ct]--
		} else {
			extra++
			if eg == "" {
				eg = fmt.Sprintf("unexpected triangle %v", t)
			}
		}
	}
	for t, c := range want {
		if c > 0 {
			missing += c
			if eg == "" {
				eg = fmt.Sprintf("missing triangle %v", t)
			}
		}
	}
	if missing == 0 && extra == 0 {
		return ""
	}
	return fmt.Sprintf("%d reference quads; %d reference triangles missing, %d triangles not in the reference (%s)", nq, missing, extra, eg)
}

func addOne(v interface{}) (interface{}, bool) {
	if n, ok := v.(int); ok {
		return n + 1, true
	}
	return 1, true
}

// cornerConflict: a lattice corner shared by several voxels that own a vertex must have the same
// sign in the corner mask of each of them (bit i of a mask = corner cell + (i>>2&1, i>>1&1, i&1)).
func cornerConflict(cells []v3i.Vec, masks []int) string {
	type seen struct {
		solid bool
		cell  v3i.Vec
	}
	at := map[v3i.Vec]seen{}
	n, first := 0, ""
	for k, c := range cells {
		for i := 0; i < 8; i++ {
			p := v3i.Vec{X: c.X + i>>2&1, Y: c.Y + i>>1&1, Z: c.Z + i&1}
			solid := masks[k]>>i&1 == 1
			if o, ok := at[p]; ok {
				if o.solid != solid {
					n++
					if first == "" {
						first = fmt.Sprintf("lattice corner %v is solid=%v for voxel %v but solid=%v for voxel %v", p, o.solid, o.cell, solid, c)
					}
				}
			} else {
				at[p] = seen{solid, c}
			}
		}
	}
	if n == 0 {
		return ""
	}
	return fmt.Sprintf("voxels disagree on the sign of %d shared lattice corners, e.g. %s", n, first)
}

type stateSpec struct {
	A renderSpec `json:"a"` // rendered first (twice), with the renderer value under test
	B shapeSpec  `json:"b"` // rendered afterwards with the same value, and with a fresh one
}

func (st stateSpec) key() string {
	b, _ := json.Marshal(st)
	return "state:" + string(b)
}

// checkState: the output must not depend on what the renderer VALUE rendered before.
func checkState(r *Report, stratum string, st stateSpec, fallbackSeen *int) {
	key := st.key()
	a, _, err := buildShape(st.A.Shape)
	if err != nil {
		r.Violate(key, "harness: cannot build shape: "+err.Error(), st)
		return
	}
	b, _, err := buildShape(st.B)
	if err != nil {
		r.Violate(key, "harness: cannot build shape: "+err.Error(), st)
		return
	}
	var buf strings.Builder
	log.SetOutput(&buf)
	defer log.SetOutput(io.Discard)
	var a1, a2, b1, bf []sdf.Triangle3
	switch st.A.Renderer {
	case "v1":
		rv := dc.NewDualContouringV1(-1, st.A.RCond, true)
		a1 = renderV1With(rv, a, st.A.Cells)
		a2 = renderV1With(rv, a, st.A.Cells)
		b1 = renderV1With(rv, b, st.A.Cells)
		bf = renderV1With(dc.NewDualContouringV1(-1, st.A.RCond, true), b, st.A.Cells)
	case "v2":
		rv := newV2(st.A)
		a1 = renderV2With(rv, a)
		a2 = renderV2With(rv, a)
		b1 = renderV2With(rv, b)
		bf = renderV2With(newV2(st.A), b)
	}
	if strings.Contains(buf.String(), "raycast failed") {
		*fallbackSeen++
	} else if st.A.Renderer == "v2" && os.Getenv("C19_DEBUG") != "" {
		fmt.Println("no fallback:", st.A.Shape.Name, st.A.Shape.Scale, st.A.Cells, st.A.FarAway, st.A.CenterPush)
	}
	r.Case("state/"+stratum, key, len(a1) > 0 && len(bf) > 0)
	if ok, why := sameTriangles(a1, a2); !ok {
		r.Violate(key, "the same renderer value rendering the same shape twice gives different output: "+why, st)
	}
	if ok, why := sameTriangles(bf, b1); !ok {
		r.Violate(key, "a renderer value that rendered another shape before gives different output than a fresh one (first = fresh, second = used): "+why, st)
	}
}

func checkRender(r *Report, stratum string, rs renderSpec) {
	key := rs.key()
	s, exact, err := buildShape(rs.Shape)
	if err != nil {
		r.Violate(key, "harness: cannot build shape: "+err.Error(), rs)
		return
	}
	var t1, t2 []sdf.Triangle3
	var lat lattice
	switch rs.Renderer {
	case "v1":
		t1 = renderV1(s, rs)
		t2 = renderV1(s, rs)
		m := dc.VerifV1Buffers(newV1(rs), s, rs.Cells)
		o := dc.VerifV1LatticePoint(newV1(rs), s, rs.Cells, v3i.Vec{})
		e := dc.VerifV1LatticePoint(newV1(rs), s, rs.Cells, m.CellCounts)
		lat = lattice{Min: o, Cells: m.CellCounts, Step: v3.Vec{X: (e.X - o.X) / float64(m.CellCounts.X), Y: (e.Y - o.Y) / float64(m.CellCounts.Y), Z: (e.Z - o.Z) / float64(m.CellCounts.Z)}}
		if len(m.Indices) != 3*len(t1) {
			r.Violate(key, fmt.Sprintf("Render sent %d triangles but the index buffer holds %d indices", len(t1), len(m.Indices)), rs)
		}
		var its []itri
		for i := 0; i+2 < len(m.Indices); i += 3 {
			its = append(its, itri{m.Cells[m.Indices[i]], m.Cells[m.Indices[i+1]], m.Cells[m.Indices[i+2]]})
		}
		if why := unbalancedI(its); why != "" {
			r.Violate(key, "V1 index buffer not closed: "+why, rs)
		}
		if why := cornerConflict(m.Cells, m.Corners); why != "" {
			r.Violate(key, "V1 "+why, rs)
		}
		// cell-exhaustive reference over the whole cubic octree lattice, sampled exactly where the octree samples
		v1r := newV1(rs)
		ms := m.MeshSize
		if why := referenceDiff(v3i.Vec{X: ms, Y: ms, Z: ms}, func(i, j, k int) float64 {
			return s.Evaluate(dc.VerifV1LatticePoint(v1r, s, rs.Cells, v3i.Vec{X: i, Y: j, Z: k}))
		}, its, r, "v1"); why != "" {
			r.Violate(key, "V1 index buffer differs from the cell-exhaustive reference (one quad per sign-changing interior lattice edge): "+why, rs)
		}
	case "v2":
		t1 = renderV2(s, rs)
		t2 = renderV2(s, rs)
		m := dc.VerifV2Buffers(newV2(rs), s)
		lat = lattice{Min: m.BoxMin, Step: m.CellSize, Cells: m.Cells}
		its := make([]itri, len(m.Triangles))
		for i, t := range m.Triangles {
			its[i] = itri(t)
		}
		if why := unbalancedI(its); why != "" {
			r.Violate(key, "V2 triangles in cell indices not closed: "+why, rs)
		}
		if why := cornerConflict(m.VertexCells, m.Inside); why != "" {
			r.Violate(key, "V2 "+why, rs)
		}
		if why := referenceDiff(m.Cells, func(i, j, k int) float64 { return s.Evaluate(lat.point(i, j, k)) }, its, r, "v2"); why != "" {
			r.Violate(key, "V2 triangles in cell indices differ from the cell-exhaustive reference (one quad per sign-changing interior lattice edge): "+why, rs)
		}
	}
	r.Case("render/"+stratum, key, len(t1) > 0)
	if rs.Renderer == "v2" {
		// zero-area triangles with three distinct vertices (vertices of neighbouring cells clamped onto one lattice line)
		r.Coverage["v2_render_triangles_collinear_distinct"] = addN(r.Coverage["v2_render_triangles_collinear_distinct"], zeroAreaDistinct(t1))
	}
	if r.Evaluations%17 == 3 {
		r.Sample(map[string]interface{}{"kind": "render", "spec": rs, "triangles": len(t1), "cells": []int{lat.Cells.X, lat.Cells.Y, lat.Cells.Z}})
	}
	if len(t1) == 0 {
		r.Violate(key, "no triangle at all for a shape whose surface is inside the sampled volume", rs)
		return
	}
	// identical on repeated runs
	if ok, why := sameTriangles(t1, t2); !ok {
		r.Violate(key, "two runs differ: "+why, rs)
	}
	for _, f := range meshFaults(s, lat, exact, rs.Shape.overEstimates(), t1) {
		r.Violate(key, f, rs)
	}
}

// meshFaults applies the direct oracles of the property to a triangle list: vertices finite, inside the sampled
// box, inside a lattice cell with a sign change and within one cell diagonal of the surface (the first vertex at
// fault is reported alone); then closed after identifying coincident vertices, positive enclosed volume.
func meshFaults(s sdf.SDF3, lat lattice, exact, over bool, t1 []sdf.Triangle3) []string {
	bb := s.BoundingBox()
	diag := lat.diag()
	tol := 1e-9
	seen := map[vkey]bool{}
	for ti, t := range t1 {
		for k := 0; k < 3; k++ {
			v := t[k]
			if seen[vk(v)] {
				continue
			}
			seen[vk(v)] = true
			if !finiteV(v) {
				return []string{fmt.Sprintf("triangle %d has a non-finite vertex %v", ti, v)}
			}
			sz := bb.Size()
			if v.X < bb.Min.X-tol*sz.X || v.Y < bb.Min.Y-tol*sz.Y || v.Z < bb.Min.Z-tol*sz.Z ||
				v.X > bb.Max.X+tol*sz.X || v.Y > bb.Max.Y+tol*sz.Y || v.Z > bb.Max.Z+tol*sz.Z {
				return []string{fmt.Sprintf("vertex %v of triangle %d is outside the sampled box %v", v, ti, bb)}
			}
			if d := math.Abs(s.Evaluate(v)); !over && d > diag*(1+1e-9) {
				return []string{fmt.Sprintf("vertex %v of triangle %d: |f| = %g exceeds one cell diagonal %g (exact sdf: %v)", v, ti, d, diag, exact)}
			}
			if !lat.inCrossingCell(s, v, 1e-6) {
				return []string{fmt.Sprintf("vertex %v of triangle %d lies in no lattice cell with a sign change (cell size %v)", v, ti, lat.Step)}
			}
		}
	}
	var faults []string
	// closed after identifying coincident vertices
	cnt := map[[2]vkey]int{}
	for _, t := range t1 {
		for k := 0; k < 3; k++ {
			cnt[[2]vkey{vk(t[k]), vk(t[(k+1)%3])}]++
		}
	}
	nbad := 0
	for e, c := range cnt {
		if cnt[[2]vkey{e[1], e[0]}] != c {
			nbad++
		}
	}
	if nbad > 0 {
		faults = append(faults, fmt.Sprintf("mesh not closed: %d directed edges (of %d) without matching reverse after identifying coincident vertices; %d triangles", nbad, len(cnt), len(t1)))
	}
	// oriented outward: positive enclosed volume
	vol := 0.0
	c0 := bb.Center()
	for _, t := range t1 {
		vol += t[0].Sub(c0).Dot(t[1].Sub(c0).Cross(t[2].Sub(c0))) / 6
	}
	if !(vol > 0) {
		faults = append(faults, fmt.Sprintf("signed volume %g is not positive (%d triangles)", vol, len(t1)))
	}
	return faults
}

// ---------------------------------------------------------------- renderer VALUES: construction paths and histories

// valueSpec: ONE renderer value, obtained along a construction path, renders a sequence of shapes that all have
// the same sampled box (hence, with the same cell count, the same sampling lattice).  The exported fields of both
// renderer types are public API: a value can be a zero value or a struct literal, have fields assigned after
// construction or after use, and be copied.  Whatever the path, a value whose fields hold the settings R must
// render every shape of the sequence exactly like a fresh value made by the constructor with those settings.
type valueSpec struct {
	R      renderSpec  `json:"r"`               // renderer, cells and the settings the value under test ends up with (R.Shape unused)
	Path   string      `json:"path"`            // construction path, see buildV1 / buildV2
	Box    []float64   `json:"box"`             // the common sampled box
	Prev   *shapeSpec  `json:"prev,omitempty"`  // rendered by the original before the copy / the assignments (paths *-used*)
	Shapes []shapeSpec `json:"shapes"`          // rendered in this order by the one value
	Cells  []int       `json:"cells,omitempty"` // V1: meshCells of each call (absent: R.Cells)
}

func (vs valueSpec) key() string {
	b, _ := json.Marshal(vs)
	return "value:" + string(b)
}

var v1Paths = []string{"new", "literal", "zero", "zero-set", "new-set", "copy", "copy-used", "used-set"}
var v2Paths = []string{"new", "default", "new-set", "copy", "copy-used", "used-set", "literal", "zero"}

// buildV1 makes a V1 value holding the settings of rs along the named path.
func buildV1(path string, rs renderSpec, prev sdf.SDF3) (*dc.DualContouringV1, error) {
	sim, rc, lock := rs.v1s()
	switch path {
	case "new":
		return dc.NewDualContouringV1(sim, rc, lock), nil
	case "literal":
		return &dc.DualContouringV1{Simplify: sim, RCond: rc, LockVertices: lock}, nil
	case "zero": // the generator gives rs the settings of the zero value
		if sim != 0 || rc != 0 || lock {
			return nil, fmt.Errorf("path zero with settings %v %v %v", sim, rc, lock)
		}
		var v dc.DualContouringV1
		return &v, nil
	case "zero-set":
		var v dc.DualContouringV1
		v.LockVertices, v.RCond, v.Simplify = lock, rc, sim
		return &v, nil
	case "new-set": // constructed with other settings, fields assigned afterwards
		v := dc.NewDualContouringV1(0.25, 0.3, !lock)
		v.Simplify, v.RCond, v.LockVertices = sim, rc, lock
		return v, nil
	case "copy":
		v := *dc.NewDualContouringV1(sim, rc, lock)
		return &v, nil
	case "copy-used": // copy of a value that has rendered
		o := dc.NewDualContouringV1(sim, rc, lock)
		if prev != nil {
			renderV1With(o, prev, rs.Cells)
		}
		v := *o
		return &v, nil
	case "used-set": // a value that has rendered with another RCond gets RCond assigned (0 = back to the default)
		o := dc.NewDualContouringV1(sim, 0.2, lock)
		if prev != nil {
			renderV1With(o, prev, rs.Cells)
		}
		o.RCond = rc
		return o, nil
	}
	return nil, fmt.Errorf("unknown construction path %q", path)
}

func v2Knobs(rs renderSpec) (float64, float64, float64, int) {
	if len(rs.Raycast) == 4 {
		return rs.Raycast[0], rs.Raycast[1], rs.Raycast[2], int(rs.Raycast[3])
	}
	return 0, 1, 1e-4, 1000
}

// buildV2 makes a V2 value holding the settings of rs along the named path.  The cell count is an unexported
// field: a literal or zero value has 0 cells (the generator then gives rs.Cells = 0; no constructor-built value
// to compare with) and renders nothing.
func buildV2(path string, rs renderSpec, prev sdf.SDF3) (*dc.DualContouringV2, error) {
	k0, k1, k2, k3 := v2Knobs(rs)
	set := func(v *dc.DualContouringV2) {
		v.RaycastMaxSteps, v.RaycastEpsilon, v.RaycastStepScale, v.RaycastScaleAndSigmoid = k3, k2, k1, k0
		v.CenterPush, v.FarAway = rs.CenterPush, rs.FarAway
	}
	switch path {
	case "new":
		return newV2(rs), nil
	case "default": // the generator gives rs the documented default settings
		if rs.FarAway != 0.499999 || rs.CenterPush != 0.01 || len(rs.Raycast) != 0 {
			return nil, fmt.Errorf("path default with other settings")
		}
		return dc.NewDualContouringDefault(rs.Cells), nil
	case "literal", "zero":
		if rs.Cells != 0 {
			return nil, fmt.Errorf("a V2 literal has 0 cells")
		}
		if path == "zero" {
			var v dc.DualContouringV2
			return &v, nil
		}
		return &dc.DualContouringV2{FarAway: rs.FarAway, CenterPush: rs.CenterPush, RaycastScaleAndSigmoid: k0,
			RaycastStepScale: k1, RaycastEpsilon: k2, RaycastMaxSteps: k3}, nil
	case "new-set":
		v := dc.NewDualContouringV2(0.3, 0.5, 1, 0.5, 1e-3, 77, rs.Cells)
		set(v)
		return v, nil
	case "copy":
		v := *newV2(rs)
		return &v, nil
	case "copy-used":
		o := newV2(rs)
		if prev != nil {
			renderV2With(o, prev)
		}
		v := *o
		return &v, nil
	case "used-set":
		o := dc.NewDualContouringV2(0.3, 0.5, 1, 0.5, 1e-3, 77, rs.Cells)
		if prev != nil {
			renderV2With(o, prev)
		}
		set(o)
		return o, nil
	}
	return nil, fmt.Errorf("unknown construction path %q", path)
}

// guarded runs a render and turns a panic into a text (a value built without the constructor may be rejected).
func guarded(f func() []sdf.Triangle3) (out []sdf.Triangle3, panicked string) {
	defer func() {
		if e := recover(); e != nil {
			out, panicked = nil, fmt.Sprint(e)
		}
	}()
	return f(), ""
}

// latticeOf: the sampling lattice the constructor-built renderer of rs uses on s.
func latticeOf(rs renderSpec, s sdf.SDF3) lattice {
	if rs.Renderer == "v1" {
		m := dc.VerifV1Buffers(newV1(rs), s, rs.Cells)
		o := dc.VerifV1LatticePoint(newV1(rs), s, rs.Cells, v3i.Vec{})
		e := dc.VerifV1LatticePoint(newV1(rs), s, rs.Cells, m.CellCounts)
		return lattice{Min: o, Cells: m.CellCounts, Step: v3.Vec{X: (e.X - o.X) / float64(m.CellCounts.X), Y: (e.Y - o.Y) / float64(m.CellCounts.Y), Z: (e.Z - o.Z) / float64(m.CellCounts.Z)}}
	}
	m := dc.VerifV2Buffers(newV2(rs), s)
	return lattice{Min: m.BoxMin, Step: m.CellSize, Cells: m.Cells}
}

func checkValue(r *Report, stratum string, vs valueSpec) {
	key := vs.key()
	build := func(sp shapeSpec) (sdf.SDF3, bool, error) {
		sp.Box = vs.Box
		return buildShape(sp)
	}
	var prev sdf.SDF3
	if vs.Prev != nil {
		var err error
		if prev, _, err = build(*vs.Prev); err != nil {
			r.Violate(key, "harness: cannot build shape: "+err.Error(), vs)
			return
		}
	}
	var buf strings.Builder
	log.SetOutput(&buf)
	defer log.SetOutput(io.Discard)
	v1 := vs.R.Renderer == "v1"
	var val1 *dc.DualContouringV1
	var val2 *dc.DualContouringV2
	var err error
	var rejected string
	func() {
		defer func() {
			if e := recover(); e != nil {
				rejected = fmt.Sprint(e)
			}
		}()
		if v1 {
			val1, err = buildV1(vs.Path, vs.R, prev)
		} else {
			val2, err = buildV2(vs.Path, vs.R, prev)
		}
	}()
	if err != nil || rejected != "" {
		r.Violate(key, fmt.Sprintf("harness: cannot construct the renderer value: %v %s", err, rejected), vs)
		return
	}
	nontrivial := false
	for i, sp := range vs.Shapes {
		s, exact, err := build(sp)
		if err != nil {
			r.Violate(key, "harness: cannot build shape: "+err.Error(), vs)
			return
		}
		rs := vs.R
		rs.Shape = sp
		rs.Shape.Box = vs.Box
		if v1 && i < len(vs.Cells) {
			rs.Cells = vs.Cells[i]
		}
		var used, fresh []sdf.Triangle3
		var pu, pf string
		what := fmt.Sprintf("call %d (%s, %d cells) of a %s value with construction path %q", i+1, sp.Name, rs.Cells, rs.Renderer, vs.Path)
		if !v1 && rs.Cells == 0 {
			// a V2 value made without the constructor has no cell count: it may render nothing or panic (rejected),
			// but what it does emit has to be a mesh of the shape on the lattice that value reports
			used, pu = guarded(func() []sdf.Triangle3 { return renderV2With(val2, s) })
			if pu == "" && len(used) > 0 {
				nontrivial = true
				cp := *val2
				m := dc.VerifV2Buffers(&cp, s)
				for _, f := range meshFaults(s, lattice{Min: m.BoxMin, Step: m.CellSize, Cells: m.Cells}, exact, sp.overEstimates(), used) {
					r.Violate(key, what+": "+f, vs)
				}
			}
			r.Coverage["value_calls_without_cell_count"], _ = addOne(r.Coverage["value_calls_without_cell_count"])
			continue
		}
		r.Coverage["value_calls_compared"], _ = addOne(r.Coverage["value_calls_compared"])
		if v1 {
			used, pu = guarded(func() []sdf.Triangle3 { return renderV1With(val1, s, rs.Cells) })
			fresh, pf = guarded(func() []sdf.Triangle3 { return renderV1(s, rs) })
		} else {
			used, pu = guarded(func() []sdf.Triangle3 { return renderV2With(val2, s) })
			fresh, pf = guarded(func() []sdf.Triangle3 { return renderV2(s, rs) })
		}
		if len(fresh) > 0 {
			nontrivial = true
		}
		// the fresh constructor-built value rendering right after another value sampled the same lattice: the
		// oracles of the property (state shared between values shows here)
		var lat lattice
		haveLat := false
		if rs.inClass() && pf == "" {
			r.Coverage["value_calls_in_class"], _ = addOne(r.Coverage["value_calls_in_class"])
			lat, haveLat = latticeOf(rs, s), true
			if len(fresh) == 0 {
				r.Violate(key, what+": the fresh constructor-built value gives no triangle at all", vs)
			}
			for _, f := range meshFaults(s, lat, exact, sp.overEstimates(), fresh) {
				r.Violate(key, what+": mesh of the fresh constructor-built value: "+f, vs)
			}
		}
		if pu != pf {
			r.Violate(key, fmt.Sprintf("%s: panic %q, the fresh constructor-built value: panic %q", what, pu, pf), vs)
			continue
		}
		if ok, why := sameTriangles(fresh, used); !ok {
			msg := what + " differs from a fresh constructor-built value with the same settings (first = fresh, second = value under test): " + why
			if haveLat {
				if fs := meshFaults(s, lat, exact, sp.overEstimates(), used); len(fs) > 0 {
					msg += "; mesh of the value under test: " + strings.Join(fs, "; ")
				}
			} else if len(used) > 0 {
				// outside the class no oracle is claimed; describe the mesh all the same
				msg += "; mesh of the value under test: " + describeMesh(s, used)
			}
			r.Violate(key, msg, vs)
		}
	}
	r.Case("value/"+stratum, key, nontrivial)
}

// describeMesh: enclosed volume and number of vertices outside the sampled box (for messages only).
func describeMesh(s sdf.SDF3, ts []sdf.Triangle3) string {
	bb := s.BoundingBox()
	c0 := bb.Center()
	vol, out, bad := 0.0, 0, 0
	seen := map[vkey]bool{}
	for _, t := range ts {
		vol += t[0].Sub(c0).Dot(t[1].Sub(c0).Cross(t[2].Sub(c0))) / 6
		for k := 0; k < 3; k++ {
			if seen[vk(t[k])] {
				continue
			}
			seen[vk(t[k])] = true
			if !finiteV(t[k]) {
				bad++
			} else if !bb.Contains(t[k]) {
				out++
			}
		}
	}
	return fmt.Sprintf("%d triangles, %d vertices, %d not finite, %d outside the sampled box, signed volume %g", len(ts), len(seen), bad, out, vol)
}

// ---------------------------------------------------------------- corpus

type corpus struct {
	GridsV1 []signGrid   `json:"grids_v1"`
	GridsV2 []signGrid   `json:"grids_v2"`
	Renders []renderSpec `json:"renders"`
	States  []stateSpec  `json:"states"`
	Values  []valueSpec  `json:"values"`
	Quads   []quadSpec   `json:"quads"`
}

func log2(n int) int {
	d := 0
	for 1<<d < n {
		d++
	}
	return d
}

func check(c *Ctx, r *Report) error {
	log.SetOutput(io.Discard) // the renderers print warnings
	r.Trusted, r.Assumptions = []string{}, []string{}
	rng := NewRng(c.Seed)
	var cp corpus
	if b, err := os.ReadFile(filepath.Join(c.Verif, "corpus", "C19.json")); err == nil {
		if err := json.Unmarshal(b, &cp); err != nil {
			return fmt.Errorf("corpus/C19.json: %v", err)
		}
	}
	// the translator's view of the source, for the evidence
	if t, err := dctab.Parse(c.Repo); err != nil {
		return err
	} else {
		n := 0
		for _, v := range t.Scan {
			n += len(v)
		}
		r.Coverage["translated_tables"] = t.Names
		r.Coverage["determinism_scan_files"] = t.Files
		r.Coverage["determinism_scan_findings"] = n
	}
	imports := "From Sdfx Require Import Algo.DualGrid Algo.DCModel.\nOpen Scope Z_scope."
	cs1 := &Cases{Kind: "v1", Imports: imports, Type: "DCModel.case1", Fn: "DCModel.mismatches1", PerShard: 40}
	cs2 := &Cases{Kind: "v2", Imports: imports, Type: "DCModel.case2", Fn: "DCModel.mismatches2", PerShard: 60}
	cs1p := &Cases{Kind: "v1p", Imports: "From Sdfx Require Import Algo.DualGrid Algo.DCModel Algo.DCPrune.\nOpen Scope Z_scope.", Type: "DCPrune.case1p", Fn: "DCPrune.mismatches1p", PerShard: 40}
	id := 0

	v2Grid := func(stratum string, sg signGrid) {
		id++
		g := sg.field(rng)
		mc := maxi(sg.N[0], maxi(sg.N[1], sg.N[2]))
		m := dc.VerifV2Buffers(dc.NewDualContouringV2(0.499999, 0.01, 0, 1, 1e-4, 200, mc), g)
		key := "v2grid:" + sg.key()
		if m.Cells.X != sg.N[0] || m.Cells.Y != sg.N[1] || m.Cells.Z != sg.N[2] {
			r.Violate(key, fmt.Sprintf("harness: getCells gives %v for the %v lattice field", m.Cells, sg.N), sg)
			return
		}
		ts := make([]itri, len(m.Triangles))
		for i, t := range m.Triangles {
			ts[i] = itri(t)
		}
		cs2.Add(fmt.Sprintf("(%d%%N, (%d,%d,%d), %s%%N, %s)", id, sg.N[0], sg.N[1], sg.N[2], sg.bits().String(), trisTerm(ts)))
		r.Case("v2-grid/"+stratum, key, len(ts) > 0)
		if id%41 == 1 {
			r.Sample(map[string]interface{}{"kind": "v2-grid", "n": sg.N, "solid_points": len(sg.Solid), "triangles": len(ts)})
		}
		if sg.boundaryOutside() {
			if why := unbalancedI(ts); why != "" {
				r.Violate(key, "V2 index triangles not closed on a sign grid with outside boundary: "+why, sg)
			} else if len(ts) > 0 && !(signedVolumeI(ts) > 0) {
				r.Violate(key, fmt.Sprintf("V2 index triangles enclose signed volume %g (cell units), not positive", signedVolumeI(ts)), sg)
			}
		}
	}
	v1Grid := func(stratum string, sg signGrid) {
		id++
		g := sg.field(rng)
		d := log2(sg.N[0])
		m := dc.VerifV1Buffers(dc.NewDualContouringV1(-1, 0, true), g, sg.N[0])
		key := "v1grid:" + sg.key()
		if m.CellCounts.X != sg.N[0] || m.CellCounts.Y != sg.N[0] || m.CellCounts.Z != sg.N[0] || m.MeshSize != sg.N[0] {
			r.Violate(key, fmt.Sprintf("harness: octree of %v cells (size %d) for the %v lattice field", m.CellCounts, m.MeshSize, sg.N), sg)
			return
		}
		var ts []itri
		for i := 0; i+2 < len(m.Indices); i += 3 {
			ts = append(ts, itri{m.Cells[m.Indices[i]], m.Cells[m.Indices[i+1]], m.Cells[m.Indices[i+2]]})
		}
		cs1.Add(fmt.Sprintf("(%d%%N, %d%%nat, %s%%N, %s)", id, d, sg.bits().String(), trisTerm(ts)))
		r.Case("v1-grid/"+stratum, key, len(ts) > 0)
		if id%41 == 2 {
			r.Sample(map[string]interface{}{"kind": "v1-grid", "depth": d, "solid_points": len(sg.Solid), "triangles": len(ts)})
		}
		if sg.boundaryOutside() {
			if why := unbalancedI(ts); why != "" {
				r.Violate(key, "V1 index triangles not closed on a sign grid with outside boundary: "+why, sg)
			} else if len(ts) > 0 && !(signedVolumeI(ts) > 0) {
				r.Violate(key, fmt.Sprintf("V1 index triangles enclose signed volume %g (cell units), not positive", signedVolumeI(ts)), sg)
			}
		}
	}

	// V1 on a non-cubic volume (power-of-two cell counts, not all equal): the cubic octree is pruned by
	// Populate's out-of-volume filter and samples the padding beyond the box; compared with the pruned model
	v1GridP := func(stratum string, sg signGrid) {
		id++
		g := sg.field(rng)
		cc := sg.N
		if sg.Box != nil {
			cc = *sg.Box
		}
		mc := maxi(cc[0], maxi(cc[1], cc[2]))
		d := log2(mc)
		m := dc.VerifV1Buffers(dc.NewDualContouringV1(-1, 0, true), g, mc)
		key := "v1pgrid:" + sg.key()
		if m.CellCounts.X != cc[0] || m.CellCounts.Y != cc[1] || m.CellCounts.Z != cc[2] || m.MeshSize != mc {
			r.Violate(key, fmt.Sprintf("harness: octree of %v cells (size %d) for the %v volume", m.CellCounts, m.MeshSize, cc), sg)
			return
		}
		var ts []itri
		for i := 0; i+2 < len(m.Indices); i += 3 {
			ts = append(ts, itri{m.Cells[m.Indices[i]], m.Cells[m.Indices[i+1]], m.Cells[m.Indices[i+2]]})
		}
		cs1p.Add(fmt.Sprintf("(%d%%N, %d%%nat, (%d,%d,%d), (%d,%d,%d), %s%%N, %s)", id, d, cc[0], cc[1], cc[2], sg.N[0], sg.N[1], sg.N[2], sg.bits().String(), trisTerm(ts)))
		if sg.Box != nil {
			// outside the class (field not outside beyond the volume): correspondence of the pruned model only
			r.Case("v1-grid-padding/"+stratum, key, len(ts) > 0)
			return
		}
		r.Case("v1-grid-noncubic/"+stratum, key, len(ts) > 0)
		if id%41 == 3 {
			r.Sample(map[string]interface{}{"kind": "v1-grid-noncubic", "n": sg.N, "solid_points": len(sg.Solid), "triangles": len(ts)})
		}
		if sg.boundaryOutside() {
			if why := unbalancedI(ts); why != "" {
				r.Violate(key, "V1 index triangles not closed on a non-cubic sign grid with outside boundary: "+why, sg)
			} else if len(ts) > 0 && !(signedVolumeI(ts) > 0) {
				r.Violate(key, fmt.Sprintf("V1 index triangles enclose signed volume %g (cell units), not positive", signedVolumeI(ts)), sg)
			}
		}
	}

	// ---- the V1 lock step (dcBoundVertexPosition) against its float model, bit for bit
	csb := &Cases{Kind: "bv", Imports: "From Sdfx Require Import Geo.DCVertexCorr.", Type: "DCVertexCorr.case_bv", Fn: "DCVertexCorr.mismatches_bv", PerShard: 400}
	f3 := func(p v3.Vec) string { return "(" + CF(p.X) + ", " + CF(p.Y) + ", " + CF(p.Z) + ")" }
	nb := TierN(c.Tier, 400, 6000, 1500)
	if c.Replay != "" {
		nb = 0
	}
	for k := 0; k < nb; k++ {
		const cells = 8
		mo := v3i.Vec{X: rng.Intn(cells), Y: rng.Intn(cells), Z: rng.Intn(cells)}
		mn := v3.Vec{X: float64(mo.X), Y: float64(mo.Y), Z: float64(mo.Z)}
		mx := mn.AddScalar(1)
		coord := func(lo float64, class int) float64 {
			switch class {
			case 0: // strictly inside, dyadic
				return lo + float64(1+rng.Intn(7))/8
			case 1: // inside, full mantissa
				return lo + rng.Float()
			case 2: // exactly on the low face
				return lo
			case 3: // exactly on the high face
				return lo + 1
			case 4: // just below
				return math.Nextafter(lo, -1)
			case 5: // just above
				return math.Nextafter(lo+1, 100)
			case 6: // far away
				return lo + rng.Uniform(-50, 50)
			}
			return math.NaN()
		}
		stratum := []string{"inside", "one-axis-out", "on-face", "just-outside", "far", "nan"}[k%6]
		var q v3.Vec
		cls := func() int { return rng.Intn(2) }
		q = v3.Vec{X: coord(mn.X, cls()), Y: coord(mn.Y, cls()), Z: coord(mn.Z, cls())}
		special := map[string][]int{"one-axis-out": {4, 5, 6}, "on-face": {2, 3}, "just-outside": {4, 5}, "far": {6}, "nan": {7}}[stratum]
		if special != nil {
			v := coord([]float64{mn.X, mn.Y, mn.Z}[k/6%3], special[rng.Intn(len(special))])
			switch k / 6 % 3 {
			case 0:
				q.X = v
			case 1:
				q.Y = v
			default:
				q.Z = v
			}
		}
		np := rng.Range(1, 6)
		sum := v3.Vec{}
		for i := 0; i < np; i++ {
			sum = sum.Add(v3.Vec{X: coord(mn.X, cls()), Y: coord(mn.Y, cls()), Z: coord(mn.Z, cls())})
		}
		g := dc.VerifV1BoundVertex(cells, mo, q, sum, np)
		id++
		csb.Add(fmt.Sprintf("(%d%%N, %s, %s, %s, %s, %d%%Z, %s)", id, f3(mn), f3(mx), f3(q), f3(sum), np, f3(g)))
		key := fmt.Sprintf("bv:%v|%x,%x,%x|%x,%x,%x|%d", mo, q.X, q.Y, q.Z, sum.X, sum.Y, sum.Z, np)
		r.Case("v1-lock/"+stratum, key, stratum != "inside")
		// direct oracle: the result lies in the cell (1 ulp slack for the rounded mean) unless the QEF position is NaN
		if !isNaNV(q) {
			lo, hi := mn.SubScalar(1e-12), mx.AddScalar(1e-12)
			if g.X < lo.X || g.Y < lo.Y || g.Z < lo.Z || g.X > hi.X || g.Y > hi.Y || g.Z > hi.Z {
				r.Violate(key, fmt.Sprintf("locked vertex %v outside its cell %v..%v (qef %v)", g, mn, mx, q), map[string]interface{}{"cell": mo, "q": q, "sum": sum, "n": np})
			}
		}
	}
	if err := csb.Write(c.Out); err != nil {
		return err
	}
	// ---- the V2 vertex solver (leastSquares -> solve3x3 -> determinant) against its float model, bit for bit
	csl := &Cases{Kind: "ls", Imports: "From Sdfx Require Import Geo.DCSolve.", Type: "DCSolve.case_ls", Fn: "DCSolve.mismatches_ls", PerShard: 300}
	lsBad := 0
	lsCase := func(stratum string, A []v3.Vec, b []float64, moderate bool) {
		g := dc.VerifV2LeastSquares(A, b)
		id++
		as, bs := make([]string, len(A)), make([]string, len(b))
		var key strings.Builder
		key.WriteString("ls:")
		for i := range A {
			as[i] = f3(A[i])
			bs[i] = CF(b[i])
			fmt.Fprintf(&key, "%x,%x,%x=%x;", A[i].X, A[i].Y, A[i].Z, b[i])
		}
		csl.Add(fmt.Sprintf("(%d%%N, %s, %s, %s)", id, CList(as), CList(bs), f3(g)))
		r.Case("v2-solver/"+stratum, key.String(), stratum != "generic")
		// the solver either refuses (X = +Inf: placeVertex then uses the cell centre) or returns a finite point
		if lsBad < 8 && moderate && (math.IsNaN(g.X) || math.IsNaN(g.Y) || math.IsNaN(g.Z) || math.IsInf(g.Y, 0) || math.IsInf(g.Z, 0) || math.IsInf(g.X, -1)) {
			r.Violate(key.String(), fmt.Sprintf("vertex solver returned %v for %d planes with unit normals (neither a finite point nor the +Inf refusal)", g, len(A)),
				map[string]interface{}{"a": A, "b": b})
			lsBad++ // a few are enough; leave room in the report for the other strata
		}
	}
	unitDir := func() v3.Vec {
		for {
			v := v3.Vec{X: rng.Uniform(-1, 1), Y: rng.Uniform(-1, 1), Z: rng.Uniform(-1, 1)}
			if l := v.Length(); l > 0.1 && l <= 1 {
				return v.DivScalar(l)
			}
		}
	}
	axes3 := []v3.Vec{{X: 1}, {Y: 1}, {Z: 1}}
	nl := TierN(c.Tier, 400, 6000, 1500)
	if c.Replay != "" {
		nl = 0
	}
	for k := 0; k < nl; k++ {
		centre := v3.Vec{X: rng.Dyadic(4, 3), Y: rng.Dyadic(4, 3), Z: rng.Dyadic(4, 3)}
		pt := func() v3.Vec {
			return centre.Add(v3.Vec{X: rng.Uniform(-0.5, 0.5), Y: rng.Uniform(-0.5, 0.5), Z: rng.Uniform(-0.5, 0.5)})
		}
		var A []v3.Vec
		var b []float64
		add := func(n v3.Vec) { A = append(A, n); b = append(b, n.Dot(pt())) }
		push := func(p float64) {
			for _, ax := range axes3 {
				n := ax.MulScalar(p)
				A = append(A, n)
				b = append(b, n.Dot(centre))
			}
		}
		sgn := func() float64 { return float64(1 - 2*rng.Intn(2)) }
		stratum, moderate := "", true
		switch k % 10 {
		case 0:
			stratum = "generic"
			for i := rng.Range(1, 6); i > 0; i-- {
				add(unitDir())
			}
			push([]float64{0.01, 0.1, 1}[rng.Intn(3)])
		case 1:
			stratum = "three-planes"
			for i := 0; i < 3; i++ {
				add(unitDir())
			}
		case 2, 3: // axis-parallel faces and edges: zero rows and columns of AtA
			stratum = "zero-rows-columns/push=0"
			ax := rng.Perm(3)
			for i := rng.Range(1, 6); i > 0; i-- {
				add(axes3[ax[rng.Intn(1+rng.Intn(2))]].MulScalar(sgn()))
			}
			if k%10 == 3 {
				stratum = "zero-rows-columns/push>0"
				push([]float64{1e-8, 0.0005, 0.01, 1}[rng.Intn(4)])
			} else {
				push(0)
			}
		case 4:
			stratum = "rank-1"
			n := unitDir()
			for i := rng.Range(1, 6); i > 0; i-- {
				add(n.MulScalar(sgn()))
			}
			push(0)
		case 5:
			stratum = "rank-2"
			u, w := unitDir(), unitDir()
			if k%20 == 5 { // normals with one component exactly zero: the edge of a prism
				u.Z, w.Z = 0, 0
				u, w = u.Normalize(), w.Normalize()
			}
			for i := rng.Range(2, 6); i > 0; i-- {
				t := rng.Uniform(0, 3)
				add(u.MulScalar(math.Cos(t)).Add(w.MulScalar(math.Sin(t))).Normalize())
			}
			push(0)
		case 6:
			stratum = "three-planes-singular"
			n := unitDir()
			rows := []v3.Vec{n, unitDir(), {}}
			if k%20 == 6 {
				rows[2] = n // duplicate row
			}
			for _, i := range rng.Perm(3) {
				A = append(A, rows[i])
				b = append(b, rows[i].Dot(pt()))
			}
		case 7:
			stratum, moderate = "huge-scale", false
			sc := []float64{1e60, 1e120, 1e200}[rng.Intn(3)]
			for i := rng.Range(3, 6); i > 0; i-- {
				n := unitDir().MulScalar(sc)
				A = append(A, n)
				b = append(b, n.Dot(pt()))
			}
		case 8:
			stratum, moderate = "tiny-scale", false
			sc := []float64{1e-3, 1e-5, 1e-80, 1e-160}[rng.Intn(4)]
			for i := rng.Range(3, 6); i > 0; i-- {
				n := unitDir().MulScalar(sc)
				A = append(A, n)
				b = append(b, n.Dot(pt()))
			}
		default:
			stratum = "guard-threshold" // three planes with determinant at, just below and just above 1e-12
			x := []float64{1e-12, math.Nextafter(1e-12, 0), math.Nextafter(1e-12, 1), -1e-12, 0, 1e-11, 1e-13}[rng.Intn(7)]
			rows := []v3.Vec{{X: 1}, {Y: 1}, {Z: x}}
			for _, i := range rng.Perm(3) {
				A = append(A, rows[i])
				b = append(b, rows[i].Dot(pt()))
			}
		}
		lsCase(stratum, A, b, moderate)
	}
	if err := csl.Write(c.Out); err != nil {
		return err
	}

	if c.Replay != "" {
		// re-run exactly the failing inputs recorded in a replay file of the driver
		var rp struct {
			FailingInputs []struct {
				Key   string          `json:"key"`
				Input json.RawMessage `json:"input"`
			} `json:"failing_inputs"`
		}
		b, err := os.ReadFile(c.Replay)
		if err != nil {
			return err
		}
		if err := json.Unmarshal(b, &rp); err != nil {
			return err
		}
		for _, fi := range rp.FailingInputs {
			switch {
			case strings.HasPrefix(fi.Key, "v1grid:"), strings.HasPrefix(fi.Key, "v2grid:"), strings.HasPrefix(fi.Key, "v1pgrid:"):
				var sg signGrid
				if err := json.Unmarshal(fi.Input, &sg); err != nil {
					return err
				}
				if strings.HasPrefix(fi.Key, "v1grid:") {
					v1Grid("replay", sg)
				} else if strings.HasPrefix(fi.Key, "v1pgrid:") {
					v1GridP("replay", sg)
				} else {
					v2Grid("replay", sg)
				}
			case strings.HasPrefix(fi.Key, "ls:"):
				var in struct {
					A []v3.Vec  `json:"a"`
					B []float64 `json:"b"`
				}
				if err := json.Unmarshal(fi.Input, &in); err != nil {
					return err
				}
				g := dc.VerifV2LeastSquares(in.A, in.B)
				r.Case("v2-solver/replay", fi.Key, true)
				if math.IsNaN(g.X) || math.IsNaN(g.Y) || math.IsNaN(g.Z) {
					r.Violate(fi.Key, fmt.Sprintf("vertex solver returned %v", g), in)
				}
			case strings.HasPrefix(fi.Key, "state:"):
				var st stateSpec
				if err := json.Unmarshal(fi.Input, &st); err != nil {
					return err
				}
				n := 0
				checkState(r, "replay", st, &n)
			case strings.HasPrefix(fi.Key, "value:"):
				var vs valueSpec
				if err := json.Unmarshal(fi.Input, &vs); err != nil {
					return err
				}
				checkValue(r, "replay", vs)
			case strings.HasPrefix(fi.Key, "v2quads:"):
				var qs quadSpec
				if err := json.Unmarshal(fi.Input, &qs); err != nil {
					return err
				}
				checkQuads(r, rng, "replay", qs)
			case strings.HasPrefix(fi.Key, "render:"):
				var rs renderSpec
				if err := json.Unmarshal(fi.Input, &rs); err != nil {
					return err
				}
				checkRender(r, "replay", rs)
			}
		}
		if err := cs1.Write(c.Out); err != nil {
			return err
		}
		if err := cs1p.Write(c.Out); err != nil {
			return err
		}
		return cs2.Write(c.Out)
	}

	for _, sg := range cp.GridsV2 {
		v2Grid("corpus", sg)
	}
	for _, sg := range cp.GridsV1 {
		v1Grid("corpus", sg)
	}
	strata := []string{"empty", "single-point", "sparse", "half", "dense", "full-interior", "checker", "boxes", "boundary-solid"}
	n2 := TierN(c.Tier, 180, 3000, 700)
	for k := 0; k < n2; k++ {
		var n [3]int
		switch k % 4 {
		case 0:
			n = [3]int{rng.Range(1, 3), rng.Range(1, 3), rng.Range(1, 3)}
		case 1:
			n = [3]int{rng.Range(2, 4), rng.Range(2, 4), rng.Range(2, 4)}
		case 2:
			n = [3]int{rng.Range(3, 6), rng.Range(3, 6), rng.Range(3, 6)}
		default:
			n = [3]int{rng.Range(2, 7), rng.Range(2, 5), rng.Range(2, 4)}
		}
		st := strata[k%len(strata)]
		v2Grid(st, genGrid(rng, n, st))
	}
	n1 := TierN(c.Tier, 120, 2000, 500)
	for k := 0; k < n1; k++ {
		d := 1 + k%3
		if c.Tier != "quick" && k%10 == 9 {
			d = 4
		}
		st := strata[(k/3)%len(strata)]
		v1Grid(st, genGrid(rng, [3]int{1 << d, 1 << d, 1 << d}, st))
	}
	// non-cubic volumes: every pair/triple of distinct power-of-two counts up to 8 (16 in the long tiers)
	n1p := TierN(c.Tier, 60, 800, 250)
	for k := 0; k < n1p; k++ {
		top := 3
		if c.Tier != "quick" && k%10 == 9 {
			top = 4
		}
		var n [3]int
		for {
			n = [3]int{1 << rng.Range(1, top), 1 << rng.Range(1, top), 1 << rng.Range(1, top)}
			if n[0] != n[1] || n[1] != n[2] {
				break
			}
		}
		st := strata[(k/2)%len(strata)]
		if k%3 == 2 {
			// the lattice is the whole cube; the volume n is smaller, so the padding carries signs too and the
			// nodes Populate stops are not dead: the pruned model must drop exactly the same triangles
			mc := maxi(n[0], maxi(n[1], n[2]))
			sg := genGrid(rng, [3]int{mc, mc, mc}, st)
			box := n
			sg.Box = &box
			v1GridP(st, sg)
			continue
		}
		v1GridP(st, genGrid(rng, n, st))
	}
	if err := cs1.Write(c.Out); err != nil {
		return err
	}
	if err := cs1p.Write(c.Out); err != nil {
		return err
	}
	if err := cs2.Write(c.Out); err != nil {
		return err
	}

	// ---- analytic shapes through the public Render methods
	for _, rs := range cp.Renders {
		checkRender(r, "corpus", rs)
	}
	shapes := []string{"sphere", "rotbox", "difference", "box", "roundbox", "cylinder-hole", "union"}
	nr := TierN(c.Tier, 36, 400, 120)
	for k := 0; k < nr; k++ {
		name := shapes[k%len(shapes)]
		sp := shapeSpec{Name: name}
		for i := range sp.Margin {
			sp.Margin[i] = 0.08 + 0.3*float64(rng.Intn(8))/8
		}
		switch name {
		case "sphere":
			sp.Params = []float64{0.6 + rng.Float(), rng.Uniform(-0.2, 0.2), rng.Uniform(-0.2, 0.2), rng.Uniform(-0.2, 0.2)}
		case "rotbox":
			sp.Params = []float64{1 + rng.Float(), 1 + rng.Float(), 0.7 + rng.Float(), rng.Uniform(0, 3), rng.Uniform(0, 3), rng.Uniform(0, 3)}
		case "box", "roundbox":
			sp.Params = []float64{1 + rng.Float(), 1 + rng.Float(), 0.7 + rng.Float(), 0.1 + 0.2*rng.Float()}
		}
		rs := renderSpec{Shape: sp}
		cellsChoices := []int{6, 8, 11, 16, 20, 27}
		if c.Tier != "quick" {
			cellsChoices = append(cellsChoices, 32, 40)
		}
		rs.Cells = cellsChoices[rng.Intn(len(cellsChoices))]
		if (k/len(shapes))%2 == 0 {
			rs.Renderer = "v1"
			rs.RCond = []float64{0, 1e-3, 0.1}[rng.Intn(3)]
		} else {
			rs.Renderer = "v2"
			rs.FarAway = []float64{0.499999, 0.25, 0.5, 0.4}[rng.Intn(4)]
			rs.CenterPush = []float64{0.01, 0.1, 1}[rng.Intn(3)]
		}
		checkRender(r, rs.Renderer+"/"+name, rs)
	}

	// lattice-aligned surfaces: faces, edges and sphere poles exactly on lattice planes / points (field value 0 there)
	for k, al := range []shapeSpec{
		{Name: "box", Params: []float64{2, 2, 2}, Margin: [6]float64{.5, .5, .5, .5, .5, .5}},
		{Name: "box", Params: []float64{2, 1, 1}, Margin: [6]float64{.25, .5, .5, .25, .5, .5}},
		{Name: "origin-sphere", Params: []float64{1}, Margin: [6]float64{.5, .5, .5, .5, .5, .5}},
		{Name: "origin-sphere", Params: []float64{1}, Margin: [6]float64{.25, .25, .25, .25, .25, .25}},
	} {
		for _, cells := range []int{4, 8, 16} {
			if k == 1 {
				cells = cells * 3 / 2
			}
			checkRender(r, "aligned/v1/"+al.Name, renderSpec{Shape: al, Renderer: "v1", Cells: cells})
			checkRender(r, "aligned/v2/"+al.Name, renderSpec{Shape: al, Renderer: "v2", Cells: cells, FarAway: 0.499999, CenterPush: 0.01})
			checkRender(r, "aligned/v2/"+al.Name, renderSpec{Shape: al, Renderer: "v2", Cells: cells, FarAway: 0.5, CenterPush: 0.1})
		}
	}

	// ---- V2 without centre push / with other valid knob settings, on solids with flat axis-parallel faces and edges:
	// the normal matrix AtA of a cell then has zero rows and columns, the vertex solver must fall back, and the
	// vertex must still be finite and in its cell (every oracle of checkRender applies)
	flat := []string{"box", "cylinder", "lprism", "cylinder-hole", "roundbox", "rotbox", "difference"}
	knobs := [][]float64{nil, {0, 0.5, 1e-5, 2000}, {1, 1, 1e-3, 200}, {0, 1, 1e-4, 50}, {2, 0.7, 1e-6, 500}}
	nnp := TierN(c.Tier, 12, 150, 40)
	for k := 0; k < nnp; k++ {
		sp := shapeSpec{Name: flat[k%len(flat)]}
		for i := range sp.Margin {
			sp.Margin[i] = 0.1 + 0.25*float64(rng.Intn(5))/4
		}
		if sp.Name == "box" || sp.Name == "lprism" {
			sp.Params = []float64{1 + rng.Float(), 1 + rng.Float(), 0.7 + rng.Float()}
		}
		rs := renderSpec{Shape: sp, Renderer: "v2", Cells: []int{8, 10, 16, 21}[rng.Intn(4)],
			FarAway: []float64{0.499999, 0.25, 0.5, 0.1}[rng.Intn(4)], Raycast: knobs[rng.Intn(len(knobs))]}
		st := "v2-nopush/"
		if k%4 == 3 { // other valid settings, with a push
			rs.CenterPush = []float64{1e-6, 0.0005, 0.01, 0.3, 5}[rng.Intn(5)]
			st = "v2-knobs/"
		}
		checkRender(r, st+sp.Name, rs)
	}
	// ---- fields that are sign-correct but NOT distance bounds (Evaluate grows faster than distance): shrinking
	// non-uniform scale, fast twist, strong taper.  Closedness, orientation, containment and the cell-exhaustive
	// reference must not depend on the field being 1-Lipschitz.
	nnl := TierN(c.Tier, 12, 150, 40)
	for k := 0; k < nnl; k++ {
		sp := shapeSpec{Margin: [6]float64{.15, .2, .15, .15, .15, .2}}
		switch k % 4 {
		case 0, 1:
			sp.Name = []string{"origin-sphere", "box", "rotbox", "cylinder"}[rng.Intn(4)]
			sp.Scale = []float64{0.3 + 0.3*rng.Float(), 0.3 + 0.3*rng.Float(), 0.3 + 0.3*rng.Float()}
			if k%4 == 1 { // squeeze one axis only
				sp.Scale[rng.Intn(3)] = 1
				sp.Scale[rng.Intn(3)] = 1
			}
		case 2:
			sp.Name = "twist"
			sp.Params = []float64{1.6 + 0.8*rng.Float(), 0.5 + 0.3*rng.Float(), 2, (2.5 + 2*rng.Float()) * float64(1-2*rng.Intn(2))}
		default:
			sp.Name = "scale-extrude"
			sp.Params = []float64{2, 1.2, 1.5 + rng.Float(), 0.2 + 0.3*rng.Float(), 0.25 + 0.3*rng.Float()}
		}
		rs := renderSpec{Shape: sp, Cells: []int{12, 16, 20, 27}[rng.Intn(4)]}
		if k/4%2 == 1 {
			rs.Renderer = "v1"
			rs.RCond = []float64{0, 1e-3, 0.1}[rng.Intn(3)]
		} else {
			rs.Renderer = "v2"
			rs.FarAway = []float64{0.499999, 0.25, 0.5}[rng.Intn(3)]
			rs.CenterPush = []float64{0.01, 0.1, 0}[rng.Intn(3)]
		}
		checkRender(r, "non-lipschitz/"+rs.Renderer+"/"+sp.Name, rs)
	}

	// ---- SHARP features (sharp.go): cone tips, spikes / pyramids from intersecting planes, wedges and thin fins,
	// bipyramids, a concave notch; tip along an axis, at 45 degrees, slightly and fully tilted; apex on / near a
	// lattice point, lattice edge, lattice face of the lattice the renderer samples; V2 over all knob settings
	// (incl. CenterPush 0) and V1
	nsh := TierN(c.Tier, 70, 700, 210)
	for k := 0; k < nsh; k++ {
		name := sharpNames[k%len(sharpNames)]
		tilt := sharpTilts[(k/len(sharpNames))%len(sharpTilts)]
		place := sharpPlacements[rng.Intn(len(sharpPlacements))]
		renderer := "v2"
		if k%3 == 2 {
			renderer = "v1"
		}
		rs := sharpSettings(rng, renderer, knobs)
		rs.Shape = genSharp(rng, name, tilt, place, rs)
		checkRender(r, "sharp/"+renderer+"/"+name+"/"+tilt+"/"+place, rs)
	}
	// ---- triangle level: V2 generateTriangles on vertex buffers with collinear / coincident quad vertices
	for _, qs := range cp.Quads {
		checkQuads(r, rng, "corpus", qs)
	}
	nq := TierN(c.Tier, 60, 600, 200)
	for k := 0; k < nq; k++ {
		var n [3]int
		switch k % 3 {
		case 0:
			n = [3]int{rng.Range(2, 3), rng.Range(2, 3), rng.Range(2, 3)}
		case 1:
			n = [3]int{rng.Range(3, 5), rng.Range(3, 5), rng.Range(3, 5)}
		default:
			n = [3]int{rng.Range(2, 7), rng.Range(2, 5), rng.Range(2, 4)}
		}
		gst := []string{"single-point", "sparse", "half", "dense", "full-interior", "checker", "boxes", "boundary-solid"}[rng.Intn(8)]
		mode := quadModes[k%len(quadModes)]
		sg := genGrid(rng, n, gst)
		checkQuads(r, rng, mode+"/"+gst, quadSpec{Grid: sg, Pos: genQuadPos(rng, sg, mode)})
	}

	// grid-aligned NON-dyadic boxes: faces on lattice planes of the sampled volume to within rounding, so the field
	// is ~1e-17 at whole planes of lattice corners and any inconsistency in how a corner is sampled shows
	alignedBox := func(o [3]float64, h float64, n [3]int, lo, hi [3]int) shapeSpec {
		sp := shapeSpec{Name: "box"}
		for a := 0; a < 3; a++ {
			sp.Params = append(sp.Params, float64(hi[a]-lo[a])*h)
			sp.Centre = append(sp.Centre, o[a]+h*float64(lo[a]+hi[a])/2)
		}
		sp.Box = []float64{o[0], o[1], o[2], o[0] + h*float64(n[0]), o[1] + h*float64(n[1]), o[2] + h*float64(n[2])}
		return sp
	}
	na := TierN(c.Tier, 10, 120, 40)
	for k := 0; k < na; k++ {
		cells := []int{8, 16, 8, 16, 32}[k%5]
		h := []float64{0.15, 0.05, 0.1, 0.07, 0.3, 0.013}[rng.Intn(6)]
		if k%2 == 1 {
			h = 0.01 * float64(rng.Range(3, 97)) // any two-decimal step
		}
		o := [3]float64{-h * float64(cells) / 2, -h * float64(cells) / 2, -h * float64(cells) / 2}
		if k%3 == 2 { // translated
			o = [3]float64{0.1 * float64(rng.Range(-9, 9)), 0.01 * float64(rng.Range(-99, 99)), 0.37}
		}
		n := [3]int{cells, cells, cells}
		if k%7 == 6 {
			n = [3]int{cells, cells / 2, cells / 2}
		}
		var lo, hi [3]int
		for a := 0; a < 3; a++ {
			// at least two cells thick: a slab one cell thick with both faces on lattice planes has no
			// lattice point strictly inside, its sign grid is empty and so (correctly) is the mesh
			lo[a] = rng.Range(1, n[a]/2-1)
			hi[a] = rng.Range(n[a]/2+1, n[a]-1)
		}
		sp := alignedBox(o, h, n, lo, hi)
		checkRender(r, "aligned-nondyadic/v1", renderSpec{Shape: sp, Renderer: "v1", Cells: cells})
		checkRender(r, "aligned-nondyadic/v2", renderSpec{Shape: sp, Renderer: "v2", Cells: cells, FarAway: 0.499999, CenterPush: 0.01})
	}

	// renderer STATE: one renderer value, several Render calls.  Shape A is scaled non-uniformly (its field
	// over-estimates distance, so the V2 ray cast fails on some edges and the warn-once flags get set), B is plain.
	fallbackSeen := 0
	for _, st := range cp.States {
		checkState(r, "corpus", st, &fallbackSeen)
	}
	ns := TierN(c.Tier, 8, 80, 24)
	for k := 0; k < ns; k++ {
		a := shapeSpec{Name: []string{"origin-sphere", "rotbox", "sphere"}[k%3], Margin: [6]float64{.2, .15, .3, .25, .2, .1}}
		a.Scale = []float64{1 + rng.Float(), 0.5 + 0.5*rng.Float(), 0.3 + 0.25*rng.Float()}
		b := shapeSpec{Name: []string{"sphere", "rotbox"}[k/3%2], Margin: [6]float64{.2, .15, .3, .25, .2, .1}}
		st := stateSpec{A: renderSpec{Shape: a, Cells: []int{12, 16, 20}[rng.Intn(3)]}, B: b}
		if k%4 == 3 {
			st.A.Renderer = "v1"
			st.A.RCond = []float64{0, 1e-3, 0.1}[rng.Intn(3)]
		} else {
			st.A.Renderer = "v2"
			st.A.FarAway = []float64{0.499999, 0.25, 0.5}[rng.Intn(3)]
			st.A.CenterPush = []float64{0.01, 0.1, 1}[rng.Intn(3)]
		}
		checkState(r, st.A.Renderer, st, &fallbackSeen)
	}
	r.Coverage["state_cases_with_raycast_fallback"] = fallbackSeen

	// ---- renderer VALUES: every construction path the exported fields allow x every setting, and histories of one
	// value over shapes that share the sampled box (so the sampling lattices coincide point for point)
	for _, vs := range cp.Values {
		checkValue(r, "corpus", vs)
	}
	commonBox := func() []float64 {
		j := func() float64 { return 0.02 * float64(rng.Intn(10)) }
		return []float64{-2.05 - j(), -2.05 - j(), -2.05 - j(), 2.05 + j(), 2.05 + j(), 2.05 + j()}
	}
	boxedShape := func() shapeSpec { // surface well inside [-2.05,2.05]^3
		switch rng.Intn(8) {
		case 0:
			return shapeSpec{Name: "origin-sphere", Params: []float64{0.6 + 0.8*rng.Float()}}
		case 1:
			return shapeSpec{Name: "sphere", Params: []float64{0.6 + 0.6*rng.Float(), rng.Uniform(-0.3, 0.3), rng.Uniform(-0.3, 0.3), rng.Uniform(-0.3, 0.3)}}
		case 2, 3: // flat faces in general position: normals of a cell nearly, not exactly, rank deficient
			return shapeSpec{Name: "rotbox", Params: []float64{1 + rng.Float(), 1 + rng.Float(), 0.7 + rng.Float(), rng.Uniform(0, 3), rng.Uniform(0, 3), rng.Uniform(0, 3)}}
		case 4:
			return shapeSpec{Name: "box", Params: []float64{1 + rng.Float(), 1 + rng.Float(), 0.7 + rng.Float()}, Centre: []float64{rng.Uniform(-0.3, 0.3), rng.Uniform(-0.3, 0.3), rng.Uniform(-0.3, 0.3)}}
		case 5:
			return shapeSpec{Name: "roundbox", Params: []float64{1.2 + rng.Float(), 1.2 + rng.Float(), 1 + rng.Float(), 0.1 + 0.2*rng.Float()}}
		case 6:
			return shapeSpec{Name: "cylinder-hole"}
		}
		return shapeSpec{Name: "difference"}
	}
	nv := TierN(c.Tier, 48, 480, 144)
	for k := 0; k < nv; k++ {
		vs := valueSpec{Box: commonBox()}
		vs.R.Cells = []int{12, 16, 20, 13}[rng.Intn(4)]
		if k%2 == 0 {
			vs.R.Renderer = "v1"
			vs.Path = v1Paths[(k/2)%len(v1Paths)]
			vs.R.RCond = []float64{0, 0, 1e-3, 0.1}[rng.Intn(4)]
			vs.R.NoLock = rng.Intn(5) < 2
			if rng.Intn(6) == 0 { // simplification on: outside the class, compared with the constructor-built value only
				sim := []float64{0, 0.01}[rng.Intn(2)]
				vs.R.Simplify = &sim
			}
			if vs.Path == "zero" {
				sim := 0.0
				vs.R.Simplify, vs.R.RCond, vs.R.NoLock = &sim, 0, true
			}
		} else {
			vs.R.Renderer = "v2"
			vs.Path = v2Paths[(k/2)%len(v2Paths)]
			vs.R.FarAway = []float64{0.499999, 0.25, 0.5}[rng.Intn(3)]
			vs.R.CenterPush = []float64{0.01, 0.1, 0, 1}[rng.Intn(4)]
			vs.R.Raycast = knobs[rng.Intn(len(knobs))]
			switch vs.Path {
			case "default":
				vs.R.FarAway, vs.R.CenterPush, vs.R.Raycast = 0.499999, 0.01, nil
			case "literal":
				vs.R.Cells = 0
			case "zero":
				vs.R.Cells, vs.R.FarAway, vs.R.CenterPush, vs.R.Raycast = 0, 0, 0, []float64{0, 0, 0, 0}
			}
		}
		n := 1 + rng.Intn(2)
		if vs.Path == "new" { // the history dimension alone: one constructor-built value, 3..4 shapes on one lattice
			n = 3 + rng.Intn(2)
		}
		for i := 0; i < n; i++ {
			vs.Shapes = append(vs.Shapes, boxedShape())
		}
		if n >= 3 && rng.Intn(2) == 0 { // ... coming back to the first shape
			vs.Shapes[n-1] = vs.Shapes[0]
		}
		if strings.Contains(vs.Path, "used") {
			p := boxedShape()
			vs.Prev = &p
		}
		if vs.R.Renderer == "v1" && rng.Intn(4) == 0 { // the V1 cell count is an argument of Render: vary it per call
			for i := 0; i < n; i++ {
				vs.Cells = append(vs.Cells, []int{8, 12, 16, 11}[rng.Intn(4)])
			}
		}
		checkValue(r, vs.R.Renderer+"/"+vs.Path, vs)
	}

	r.Rule = "grid cases: sign assignments on small lattices (V2: 1..7 cells per axis, V1: octree depth 1..3, 4 in the long tiers; V1 also on non-cubic volumes of 2/4/8 (16) cells per axis inside the cubic octree, compared with the model over the octree pruned by Populate's filter, one third of them with the sign lattice extended over the padding beyond the volume so that the filter stops nodes that are NOT dead and the pruned model has to drop the same triangles - outside the class, correspondence only) in strata empty / single solid point / sparse / half / dense / full interior / checkerboard / union of boxes (all with outside boundary) and boundary-solid (outside the class, correspondence only), realised by a trilinear lattice field and rendered by the real code; the triangle list in cell indices is compared, in order, with the Gallina model evaluated on the same grid; non-trivial = at least one triangle, distinct by (lattice size, sign bits). render cases: sphere, box, rotated box, rounded box, box minus sphere, cylinder minus cylinder, union of spheres, each in an asymmetrically enlarged box, 6..27 (40) cells, V1 (lock on, no simplification, three rcond values) and V2 (FarAway in {0.25,0.4,0.499999,0.5}, CenterPush in {0.01,0.1,1}); non-trivial = produced triangles, distinct by full parameter record. aligned strata: boxes and spheres with faces/poles on lattice planes, dyadic and NON-dyadic steps (0.15, 0.05, 0.07, any two-decimal step), centred and translated, 8/16/32 cells, cubic and 2:1:1 volumes; for these and every render case the index-space mesh from the hooks must be closed and all voxels sharing a lattice corner must agree on its sign. v2-nopush / v2-knobs: V2 with CenterPush = 0 (or 1e-6..5), FarAway 0.1..0.5 and five ray-cast knob settings on boxes, cylinders, L prisms, CSG; non-lipschitz: spheres, boxes, rotated boxes, cylinders scaled by 0.3..0.6 per axis (or one axis only), bars twisted 2.5..4.5 rad over height 2, extrusions tapered to 0.2..0.5, V1 and V2 - the |f(v)| <= diagonal oracle is waived there (f is no distance bound), every other oracle applies. Every render case: all lattice points are evaluated and the index triangles compared as a multiset with one oriented quad per sign-changing interior lattice edge (skipped when a lattice value is within 1e-12 of zero; counted in reference_compared/skipped). v2-solver: 1..9 planes with unit normals (generic, three planes, axis-parallel with zero rows/columns with and without push, rank 1, rank 2, singular three-plane systems, guard threshold diag(1,1,1e-12 +- 1ulp), times 1e60..1e200 and 1e-3..1e-160), result compared bit for bit with the float model and required to be a finite point or the +Inf refusal (moderate scales). state cases: ONE renderer value renders a non-uniformly scaled shape twice (sdf.Scale3d: the field over-estimates distance, the V2 ray cast fails and the warn-once flags get set; counted in state_cases_with_raycast_fallback) and then a plain shape, compared bit for bit with itself and with a fresh renderer; V1 and V2, all settings. value cases: ONE renderer value obtained along a construction path - V1: constructor / struct literal / zero value / zero value with fields assigned / constructor with other settings then fields assigned / copy by value / copy of a value that has rendered / a used value whose RCond is assigned afterwards (0 = back to the documented default); V2: constructor / NewDualContouringDefault / constructor then the six exported fields assigned / copy / copy of a used value / used value then fields assigned / literal and zero value (no cell count: may render nothing, what it emits must pass the mesh oracles) - with settings V1 RCond in {0, 1e-3, 0.1} x LockVertices on/off x Simplify off (one in six: 0 or 0.01), V2 FarAway x CenterPush x ray-cast knobs, renders 1..2 (path = constructor: 3..4, half of them coming back to the first) shapes that all have the SAME sampled box (spheres, rotated boxes, boxes, rounded boxes, CSG in one box of about 4.2 units, 12..20 cells; V1 also with the cell count varied per call), so that the sampling lattices of consecutive calls coincide point for point; every call is compared bit for bit with a fresh value made by the constructor with the same settings, and inside the class (V1 lock on, no simplification; V2 clamp 0..1/2) the fresh value rendering right after the other value sampled the same lattice must pass every mesh oracle (closed, volume > 0, vertices in the box, in a crossing cell, within a cell diagonal); outside the class (lock off, simplification on) only the comparison is made; counted in value_calls_compared / value_calls_in_class / value_calls_without_cell_count. sharp strata (sharp.go): library cone with top radius 0, spikes and pyramids (3..6 planes through one apex, half angle 0.15..pi/4), wedges and thin fins (two planes through a ridge, also with one face along the axis), bipyramids, a box with a concave pyramidal notch (the polytopes are max-of-planes fields: exact sign and zero set, a lower bound of the distance), each at least about three cells thick at its base; tip along a coordinate axis / rotated by multiples of 45 degrees / tilted by up to 0.08 rad / in general position; the apex placed ON a lattice point, lattice edge or lattice face of the lattice the renderer under test samples (asked from the renderer through the hooks), within 1e-12..0.02 cells of one, at a cell centre, or anywhere; V2 with FarAway in {0.1,0.25,0.4,0.499999,0.5} x CenterPush in {0,1e-6,0.01,0.1,1} x five ray-cast knob settings, V1 with three rcond values; 11..23 cells; every oracle of the render cases applies (v2_render_triangles_collinear_distinct counts the zero-area triangles with three distinct vertices seen in V2 output; corpus renders hold inputs that have them). v2-quads: sign grids of 2..7 cells per axis in the grid strata; the real generateTriangles is run (hook VerifV2TrianglesAt) on the vertex buffer of placeVertices with vertices moved - mode lines / lines-all: for half / all of the sign-changing interior lattice edges the vertices of the four surrounding cells are put on that edge at parameters from {0,1/4,1/2,3/4,1} (three or four quad vertices exactly collinear, some coincident), corners: every vertex on a corner of its cell, near-corners: the same moved inwards by 0 / 2^-40 / 2^-30 / 2^-20 per coordinate (nearly coincident, distinct vertices), mixed: kept / corner / point of a cell edge / dyadic interior point per cell, placed: nothing moved; the triangles sent must be the index triangles (VerifV2Buffers, the list the Coq model is compared with) in order, with positions substituted, except that exactly those with two identical vertices may be missing, and nothing else may be sent; on grids with outside boundary the triangles sent must be closed after identifying coincident vertices; non-trivial = some triangle with two identical or three collinear vertices (counted in v2_quads_triangles_*)."
	r.Trusted = append(r.Trusted,
		"hand model coq/Algo/DCModel.v of generateTriangles over the regenerated tables and code-embedded offsets, tied by differential execution on sign grids (cases_v2_*.v, exact order)",
		"model of contourCellProc/FaceProc/EdgeProc/ProcessEdge (coq/Algo/DCModel.v): tied by translation - harness/dctab/proc.go translates the four Go functions from the AST of the current dc3v1.go (Generated/DCProc.v) and coq/Algo/DCProcEq.v proves them equal to the model for every octree, direction, buffer and fuel (C19_TRANSL_*); trusted there: the translator and the meaning of its constructs (coq/Algo/DCProcLib.v: ints as Z without overflow, arrays/slices as lists, no panics, recursion bounded by fuel), and the octree the model instantiates the code with (level/offset handles for the full-depth octree of Populate: a size-1 node is a Leaf iff its corner mask is mixed, else Internal with nil children) - that instantiation and Populate/computeOctreeLeaf are tied by differential execution (cases_v1_*.v, exact order)",
		"float model of dcBoundVertexPosition (coq/Geo/DCVertex.v at Coq primitive floats) compared bit for bit through the hook (cases_bv_*.v); the V2 far-away clamp is inside placeVertex and only observed through the vertex oracle",
		"float model of the V2 vertex solver determinant/solve3x3/leastSquares (coq/Geo/DCSolve.v) compared bit for bit through the hook (cases_ls_*.v)",
		"hooks render/dc/verif_hooks_c19.go (V1: repeat the first lines of Render, then the real generateVertexIndices/contourCellProc; V2: real placeVertices/generateTriangles on a vertex buffer holding cell indices, or positions chosen by the harness: VerifV2TrianglesAt)",
		"QEF / SVD (gonum), ray cast and bisection are oracles: only the containment of their result is checked (direct oracle on every vertex) and proved for the lock/clamp step",
		"Go oracles of this harness: directed-edge balance after identifying bit-equal vertices, signed volume, |f(v)| <= cell diagonal, vertex in a lattice cell with a sign change",
		"value cases: the constructor called with the settings is taken as the definition of what a renderer value holding those settings does (RCond = 0 means the documented default for every construction path); independence of the construction path and of the history of the value is sampled, not proved")
	r.Assumptions = append(r.Assumptions,
		"the SDF is deterministic and outside (>= 0) on the boundary of the sampled box and beyond (V1 samples the padding of the power-of-two octree outside the box)",
		"V2 drops the triangles of a quad that have two exactly equal vertices (Degenerate(0); since fix 97a592c only those - before, the whole quad, which left holes where two neighbouring vertices were clamped to the same lattice corner: corpus renders twist / scaled cylinder with CenterPush 0); a dropped degenerate triangle has a self loop and an edge with its own reverse, so the balance after identification is unchanged; the closedness theorem is about the index mesh, the position mesh is checked by the direct oracle on every render case and, at the triangle level, by the v2-quads cases (a triangle with three distinct vertices is needed even when its area is zero: at sharp apexes neighbouring vertices are clamped onto one lattice line)",
		"V1 octree traversal: proved equal to the dual mesh for EVERY depth and every sign assignment on the full-depth cubic octree (v1_traversal), and unchanged, triangle by triangle, when the nodes stopped by Populate's out-of-volume filter are removed as long as the field is outside beyond the volume (C19_v1_prune, C19_v1_populate_filter_dead; the filter predicate populate_pruned is a hand copy of the Go condition, tied by differential execution incl. cases where it stops live nodes); the models are compared with the real code at depth 1..4; simplified octrees (Simplify >= 0) are outside the theorem and covered by the cell-exhaustive reference on every render case")
	return nil
}
