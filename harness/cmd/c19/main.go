package main

import (
	"verifharness/dctab"
	. "verifharness/kit"
)

func main() {
	Main("C19", check, func(c *Ctx) (string, []byte, error) { return dctab.Gen(c.Repo) })
}

func check(c *Ctx, r *Report) error { return nil }
