// objprobe: property C01 (bounding boxes enclose the solid) probed on the whole object library.
//
// It builds every part of verifharness/objparts, samples points in 1.5x the part's bounding box plus
// thin shells just outside each face and prints
//
//	(a) parts whose BoundingBox is not finite / not ordered,
//	(b) parts with a point OUTSIDE the box where Evaluate < -1e-9*size,
//	(c) the constructor coverage of the registry against the current source tree.
//
// Nothing is fixed or judged here: the findings are printed precisely (part, parameters, point,
// value, box) for the C01 owner.
package main

import (
	"flag"
	"fmt"
	"hash/fnv"
	"math"
	"os"
	"runtime"
	"sort"
	"sync"
	"time"

	"github.com/deadsy/sdfx/sdf"
	v2 "github.com/deadsy/sdfx/vec/v2"
	v3 "github.com/deadsy/sdfx/vec/v3"
	"verifharness/kit"
	"verifharness/objparts"
)

type finding struct {
	p     [3]float64
	val   float64
	out   float64 // max-norm distance of the point from the box
	count int     // number of violating samples
}

type result struct {
	part      objparts.Part
	lo, hi    [3]float64
	size      float64
	badBox    string
	samples   int
	outside   int // samples outside the box
	negInside int
	nans      int
	evalNs    float64
	worst     *finding // most negative value outside
	far       *finding // violating point farthest from the box
	panicked  string
}

func box(p objparts.Part) (lo, hi [3]float64) {
	if p.Dim == 2 {
		b := p.S2.BoundingBox()
		return [3]float64{b.Min.X, b.Min.Y, 0}, [3]float64{b.Max.X, b.Max.Y, 0}
	}
	b := p.S3.BoundingBox()
	return [3]float64{b.Min.X, b.Min.Y, b.Min.Z}, [3]float64{b.Max.X, b.Max.Y, b.Max.Z}
}

func eval(p objparts.Part, q [3]float64) float64 {
	if p.Dim == 2 {
		return p.S2.Evaluate(v2.Vec{X: q[0], Y: q[1]})
	}
	return p.S3.Evaluate(v3.Vec{X: q[0], Y: q[1], Z: q[2]})
}

func fmtP(dim int, q [3]float64) string {
	if dim == 2 {
		return fmt.Sprintf("(%.17g, %.17g)", q[0], q[1])
	}
	return fmt.Sprintf("(%.17g, %.17g, %.17g)", q[0], q[1], q[2])
}

func fmtBox(dim int, lo, hi [3]float64) string {
	return "[" + fmtP(dim, lo) + " .. " + fmtP(dim, hi) + "]"
}

func probe(p objparts.Part, nMax int, budget time.Duration, seed uint64) (r result) {
	r.part = p
	defer func() {
		if x := recover(); x != nil {
			r.panicked = fmt.Sprint(x)
		}
	}()
	lo, hi := box(p)
	r.lo, r.hi = lo, hi
	d := p.Dim
	for i := 0; i < d; i++ {
		if math.IsNaN(lo[i]) || math.IsNaN(hi[i]) || math.IsInf(lo[i], 0) || math.IsInf(hi[i], 0) {
			r.badBox = "not finite"
		} else if lo[i] > hi[i] {
			r.badBox = "not ordered (Min > Max)"
		}
	}
	if r.badBox != "" {
		return
	}
	for i := 0; i < d; i++ {
		r.size = math.Max(r.size, hi[i]-lo[i])
	}
	if p.Unbounded {
		return
	}
	size := r.size
	if size == 0 {
		size = 1
	}
	tol := 1e-9 * size

	h := fnv.New64a()
	h.Write([]byte(p.Name))
	rng := kit.NewRng(seed ^ h.Sum64())

	// measure Evaluate
	var c [3]float64
	for i := 0; i < d; i++ {
		c[i] = 0.5 * (lo[i] + hi[i])
	}
	// min over 4 batches of 8 evaluations (a single batch is noisy under parallel load / GC)
	r.evalNs = math.Inf(1)
	for b := 0; b < 4; b++ {
		t0 := time.Now()
		const batch = 8
		for k := 0; k < batch; k++ {
			var q [3]float64
			for i := 0; i < d; i++ {
				q[i] = c[i] + (rng.Float()-0.5)*1.5*(hi[i]-lo[i])
			}
			eval(p, q)
		}
		r.evalNs = math.Min(r.evalNs, float64(time.Since(t0).Nanoseconds())/batch)
	}
	n := nMax
	if m := int(float64(budget.Nanoseconds()) / math.Max(r.evalNs, 1)); m < n {
		n = m
	}
	if n < 400 {
		n = 400
	}

	check := func(q [3]float64) {
		r.samples++
		out := 0.0
		for i := 0; i < d; i++ {
			out = math.Max(out, math.Max(lo[i]-q[i], q[i]-hi[i]))
		}
		v := eval(p, q)
		if math.IsNaN(v) {
			r.nans++
			return
		}
		if out <= 0 {
			if v < 0 {
				r.negInside++
			}
			return
		}
		r.outside++
		if v < -tol {
			cnt := 1
			if r.worst != nil {
				cnt = r.worst.count + 1
			}
			if r.worst == nil || v < r.worst.val {
				r.worst = &finding{p: q, val: v, out: out}
			}
			r.worst.count = cnt
			if r.far == nil || out > r.far.out {
				r.far = &finding{p: q, val: v, out: out}
			}
		}
	}

	// 60%: uniform in 1.5x the box (about its centre; a degenerate axis gets +-0.25*size)
	nUni := n * 6 / 10
	for k := 0; k < nUni; k++ {
		var q [3]float64
		for i := 0; i < d; i++ {
			w := hi[i] - lo[i]
			if w == 0 {
				w = size / 3
			}
			q[i] = c[i] + (rng.Float()-0.5)*1.5*w
		}
		check(q)
	}
	// 40%: thin shells just outside each of the 2*d faces, at relative offsets 1e-6 .. 5e-2
	offs := []float64{1e-6, 1e-4, 1e-3, 1e-2, 5e-2}
	perFace := (n - nUni) / (2 * d)
	for ax := 0; ax < d; ax++ {
		for side := 0; side < 2; side++ {
			for k := 0; k < perFace; k++ {
				var q [3]float64
				for i := 0; i < d; i++ {
					w := hi[i] - lo[i]
					q[i] = c[i] + (rng.Float()-0.5)*1.04*w
				}
				o := offs[k%len(offs)] * size * (0.5 + rng.Float())
				if side == 0 {
					q[ax] = lo[ax] - o
				} else {
					q[ax] = hi[ax] + o
				}
				check(q)
			}
		}
	}
	return
}

func main() {
	seed := flag.Uint64("seed", 1, "seed for the perturbed variants and the sample points")
	n := flag.Int("n", 20000, "samples per part (reduced for slow parts)")
	budget := flag.Duration("budget", 8*time.Second, "evaluation time budget per part")
	repo := flag.String("repo", objparts.RepoDir, "sdfx source tree")
	workers := flag.Int("j", runtime.NumCPU(), "parallel workers")
	verbose := flag.Bool("v", false, "list every part")
	flag.Parse()
	objparts.RepoDir = *repo

	// sdf.CubicSplineSDF2.Evaluate prints a debug line per Newton iteration on os.Stdout:
	// keep the report on the real stdout and send the library's chatter to /dev/null.
	out := os.Stdout
	if null, err := os.OpenFile(os.DevNull, os.O_WRONLY, 0); err == nil {
		os.Stdout = null
	}
	pf := func(format string, a ...interface{}) { fmt.Fprintf(out, format, a...) }
	pl := func(a ...interface{}) { fmt.Fprintln(out, a...) }

	tStart := time.Now()
	parts, errs := objparts.All(kit.NewRng(*seed))
	nDoc := 0
	bySrc := map[string]int{}
	for _, p := range parts {
		if p.Doc {
			nDoc++
		}
		bySrc[p.Source]++
	}
	pf("objprobe: repo=%s seed=%d: %d parts (%d documented examples, %d perturbed variants) from %d constructors, built in %.1fs\n",
		*repo, *seed, len(parts), nDoc, len(parts)-nDoc, len(bySrc), time.Since(tStart).Seconds())
	pf("\n== construction errors / panics: %d\n", len(errs))
	for _, e := range errs {
		pl("  " + e)
	}

	pf("\n== perturbed variants skipped because the constructor returned an error: %d\n", len(objparts.LastSkipped))
	for _, e := range objparts.LastSkipped {
		pl("  " + e)
	}

	res := make([]result, len(parts))
	var wg sync.WaitGroup
	ch := make(chan int)
	for w := 0; w < *workers; w++ {
		wg.Add(1)
		go func() {
			defer wg.Done()
			for i := range ch {
				res[i] = probe(parts[i], *n, *budget, *seed)
			}
		}()
	}
	for i := range parts {
		ch <- i
	}
	close(ch)
	wg.Wait()

	total := 0
	for _, r := range res {
		total += r.samples
	}
	pf("\nsampled %d points in %.1fs\n", total, time.Since(tStart).Seconds())

	if *verbose {
		pl("\n== parts")
		for _, r := range res {
			pf("  %-70s dim=%d n=%d outside=%d neg_inside=%d eval=%.0fns box=%s\n", r.part.Name, r.part.Dim, r.samples, r.outside, r.negInside, r.evalNs, fmtBox(r.part.Dim, r.lo, r.hi))
		}
	}

	pl("\n== (a) parts whose BoundingBox is not finite/ordered")
	na := 0
	for _, r := range res {
		if r.badBox != "" {
			na++
			pf("  BADBOX part=%s reason=%q box=%s params=%s\n", r.part.Name, r.badBox, fmtBox(r.part.Dim, r.lo, r.hi), r.part.Params)
		}
	}
	pf("  (%d)\n", na)

	pl("\n== unbounded parts (documented; box reported, not sampled)")
	for _, r := range res {
		if r.part.Unbounded {
			pf("  UNBOUNDED part=%s box=%s\n", r.part.Name, fmtBox(r.part.Dim, r.lo, r.hi))
		}
	}

	pl("\n== (b) parts with a point OUTSIDE the box where Evaluate < -1e-9*size  (property C01)")
	nb := 0
	srcBad := map[string]int{}
	for _, r := range res {
		if r.worst == nil {
			continue
		}
		nb++
		srcBad[r.part.Source]++
		d := r.part.Dim
		pf("  VIOLATION part=%s doc=%v\n    params: %s\n    box:    %s  (size %.6g)\n    worst:  point=%s value=%.9g outside_by=%.6g\n    far:    point=%s value=%.9g outside_by=%.6g (%.3g of size)\n    hits:   %d of %d samples outside the box (%d samples in all, eval %.0f ns)\n",
			r.part.Name, r.part.Doc, r.part.Params, fmtBox(d, r.lo, r.hi), r.size,
			fmtP(d, r.worst.p), r.worst.val, r.worst.out,
			fmtP(d, r.far.p), r.far.val, r.far.out, r.far.out/math.Max(r.size, 1e-300),
			r.worst.count, r.outside, r.samples, r.evalNs)
	}
	pf("  (%d parts", nb)
	if nb > 0 {
		var ss []string
		for s, k := range srcBad {
			ss = append(ss, fmt.Sprintf("%s:%d/%d", s, k, bySrc[s]))
		}
		sort.Strings(ss)
		pf("; by constructor: %v", ss)
	}
	pl(")")

	pl("\n== other observations")
	for _, r := range res {
		if r.panicked != "" {
			pf("  PANIC-IN-EVALUATE part=%s: %s params=%s\n", r.part.Name, r.panicked, r.part.Params)
		}
		if r.nans > 0 {
			pf("  NAN part=%s: Evaluate returned NaN at %d of %d samples\n", r.part.Name, r.nans, r.samples)
		}
		if r.badBox == "" && !r.part.Unbounded && r.negInside == 0 && r.worst == nil {
			pf("  NO-MATERIAL-SEEN part=%s: no negative sample anywhere (box %s)\n", r.part.Name, fmtBox(r.part.Dim, r.lo, r.hi))
		}
	}

	pl("\n== (c) coverage of the current source tree")
	cov, unc, err := objparts.Coverage(*repo)
	if err != nil {
		pl("  coverage failed:", err)
		os.Exit(2)
	}
	pf("  covered (%d):\n", len(cov))
	for _, c := range cov {
		pf("    %-45s %d parts\n", c, bySrc[c])
	}
	pf("  uncovered (%d):\n", len(unc))
	for _, c := range unc {
		pl("    " + c)
	}
	pf("\ntotal %.1fs\n", time.Since(tStart).Seconds())
	_ = sdf.Pi
}
