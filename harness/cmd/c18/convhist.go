package main

// Conversion HISTORIES on ThreadParameters values.
//
// The per-call statement "ToMillimetre scales the three lengths by 25.4, keeps name / taper, is idempotent and
// leaves millimetre threads alone" is about ONE call.  A conversion that keeps something between calls (a memoised
// result hung on the receiver, a package-level cache keyed by name or by pointer, a shared scratch struct that is
// returned to every caller) agrees with it on every first conversion of every database entry and breaks it
// afterwards.  So small programs over ThreadParameters values are interpreted here, side by side with a value model:
//
//	lookup n        a := ThreadLookup(n)                  (the database's own pointer: never written through here)
//	new    v        a := &ThreadParameters{v}             (keyed literal of the exported fields)
//	copy   i        c := *slot[i]; a := &c                (struct copy by value: hidden fields travel with it)
//	conv   i        a := slot[i].ToMillimetre()
//	set    i f x    slot[i].f = x                         (f one of radius, pitch, taper, hex, name, units)
//
// After EVERY step every live value is compared bit for bit with its model (a value that nobody wrote to must not
// change, an edited value converts to the edited lengths * 25.4), every conversion result with a conversion of a
// brand-new struct holding the same exported fields (converted exactly once), and the database entries the history
// touched with the snapshot of the fresh database.  The only aliasing the model knows is the one the code
// documents: converting a millimetre thread may return the receiver itself (decided by the pointer actually
// returned, so an implementation that returns a copy there is accepted too).

import (
	"fmt"
	"math"

	"github.com/deadsy/sdfx/sdf"
	. "verifharness/kit"
)

type convOp struct {
	Op    string  `json:"op"`              // lookup | new | copy | conv | set
	Name  string  `json:"name,omitempty"`  // lookup: designation; new: name; set name/units: the string
	Src   int     `json:"src,omitempty"`   // copy / conv / set: slot index
	Field string  `json:"field,omitempty"` // set: radius | pitch | taper | hex | name | units
	X     float64 `json:"x,omitempty"`     // set: value of a float field
	V     *tvals  `json:"v,omitempty"`     // new
}

// the exported fields of a ThreadParameters (the model)
type tvals struct {
	Name   string  `json:"name"`
	Radius float64 `json:"radius"`
	Pitch  float64 `json:"pitch"`
	Taper  float64 `json:"taper"`
	Hex    float64 `json:"hex"`
	Units  string  `json:"units"`
}

func valsOf(t *sdf.ThreadParameters) tvals {
	return tvals{t.Name, t.Radius, t.Pitch, t.Taper, t.HexFlat2Flat, t.Units}
}
func (v tvals) fresh() *sdf.ThreadParameters {
	return &sdf.ThreadParameters{Name: v.Name, Radius: v.Radius, Pitch: v.Pitch, Taper: v.Taper, HexFlat2Flat: v.Hex, Units: v.Units}
}
func (v tvals) same(w tvals) bool {
	b := math.Float64bits
	return v.Name == w.Name && v.Units == w.Units && b(v.Radius) == b(w.Radius) && b(v.Pitch) == b(w.Pitch) && b(v.Taper) == b(w.Taper) && b(v.Hex) == b(w.Hex)
}
func (v tvals) String() string {
	return fmt.Sprintf("{%q radius %v pitch %v taper %v hex %v %q}", v.Name, v.Radius, v.Pitch, v.Taper, v.Hex, v.Units)
}

// the model of ToMillimetre (Sdf/ThreadDB.v to_mm at float64: one rounding per product)
func (v tvals) toMM() tvals {
	if v.Units == "mm" {
		return v
	}
	return tvals{v.Name, v.Radius * 25.4, v.Pitch * 25.4, v.Taper, v.Hex * 25.4, "mm"}
}

type convSlot struct {
	p      *sdf.ThreadParameters
	m      *tvals // model; shared between two slots exactly when the code documents the alias (mm receiver returned)
	origin string
	isConv bool
	born   int
}

// runConvHistory interprets ops and reports the first disagreement (viol = one was found).
func runConvHistory(r *Report, stratum string, hid int, ops []convOp, snap map[string]sdf.ThreadParameters, dbPtr map[*sdf.ThreadParameters]bool) (viol bool) {
	var slots []convSlot
	touched := map[string]bool{}
	fail := func(step int, key, what string) {
		r.Violate(fmt.Sprintf("conv:%s:%s#%d", stratum, key, step), what, map[string]interface{}{"conversions": ops[:step+1]})
		viol = true
	}
	describe := func(k int) string {
		return fmt.Sprintf("value %d (%s, made at step %d)", k, slots[k].origin, slots[k].born)
	}
	for step, op := range ops {
		desc := ""
		switch op.Op {
		case "lookup":
			t, err := sdf.ThreadLookup(op.Name)
			if err != nil {
				return
			}
			want, ok := snap[op.Name]
			if !ok {
				return
			}
			m := valsOf(&want)
			touched[op.Name] = true
			slots = append(slots, convSlot{p: t, m: &m, origin: fmt.Sprintf("ThreadLookup(%q)", op.Name), born: step})
			desc = "lookup " + op.Name
		case "new":
			if op.V == nil {
				return
			}
			m := *op.V
			slots = append(slots, convSlot{p: m.fresh(), m: &m, origin: "new struct " + m.String(), born: step})
			desc = "new struct"
		case "copy":
			if op.Src < 0 || op.Src >= len(slots) {
				return
			}
			c := *slots[op.Src].p
			m := *slots[op.Src].m
			slots = append(slots, convSlot{p: &c, m: &m, origin: fmt.Sprintf("copy by value of value %d", op.Src), born: step})
			desc = fmt.Sprintf("c := *value%d", op.Src)
		case "conv":
			if op.Src < 0 || op.Src >= len(slots) {
				return
			}
			s := slots[op.Src]
			before := *s.m
			got := s.p.ToMillimetre()
			if got == nil {
				fail(step, "nil", fmt.Sprintf("ToMillimetre of %s = %v returns nil", describe(op.Src), before))
				return
			}
			want := before.toMM()
			ns := convSlot{p: got, origin: fmt.Sprintf("value%d.ToMillimetre()", op.Src), isConv: true, born: step}
			if got == s.p && before.Units == "mm" {
				ns.m = s.m // the documented alias: a millimetre thread is returned as it is
			} else {
				ns.m = &want
			}
			slots = append(slots, ns)
			desc = fmt.Sprintf("value%d.ToMillimetre()", op.Src)
			if g := valsOf(got); !g.same(want) {
				fail(step, "scale", fmt.Sprintf("conversion history, step %d: ToMillimetre of %s, which holds %v, returns %v; the lengths * 25.4 (name, taper kept; a millimetre thread unchanged) are %v - the result depends on earlier conversions / edits, not on the value converted",
					step, describe(op.Src), before, g, want))
				return
			}
			// the same exported fields in a brand-new struct, converted exactly once
			if f := valsOf(before.fresh().ToMillimetre()); !f.same(want) {
				fail(step, "fresh", fmt.Sprintf("conversion history, step %d: a brand-new struct %v converts to %v, lengths * 25.4 are %v", step, before, f, want))
				return
			}
		case "set":
			if op.Src < 0 || op.Src >= len(slots) {
				return
			}
			s := slots[op.Src]
			if dbPtr[s.p] {
				continue // the database's own entry (a lookup, or a millimetre entry returned by its conversion): read-only here
			}
			switch op.Field {
			case "radius":
				s.p.Radius, s.m.Radius = op.X, op.X
			case "pitch":
				s.p.Pitch, s.m.Pitch = op.X, op.X
			case "taper":
				s.p.Taper, s.m.Taper = op.X, op.X
			case "hex":
				s.p.HexFlat2Flat, s.m.Hex = op.X, op.X
			case "name":
				s.p.Name, s.m.Name = op.Name, op.Name
			case "units":
				if op.Name != "mm" && op.Name != "inch" {
					return
				}
				s.p.Units, s.m.Units = op.Name, op.Name
			default:
				return
			}
			desc = fmt.Sprintf("value%d.%s = %v", op.Src, op.Field, op.X)
			if op.Field == "name" || op.Field == "units" {
				desc = fmt.Sprintf("value%d.%s = %q", op.Src, op.Field, op.Name)
			}
		default:
			return
		}
		r.Case("convhist/"+stratum+"/"+op.Op, fmt.Sprintf("conv:%s:%d#%d", stratum, hid, step), op.Op == "conv" || op.Op == "set")
		// every live value against its model
		for k := range slots {
			if g := valsOf(slots[k].p); !g.same(*slots[k].m) {
				fail(step, "live", fmt.Sprintf("conversion history, step %d (%s): %s now reads %v but nothing wrote to it since it held %v - it shares storage with another value (a conversion result handed out twice, or state carried along by a struct copy)",
					step, desc, describe(k), g, *slots[k].m))
				return
			}
		}
		// the database entries this history looked up against the fresh snapshot
		for n := range touched {
			t, err := sdf.ThreadLookup(n)
			if err != nil {
				continue
			}
			want := snap[n]
			wv := valsOf(&want)
			if g := valsOf(t); !g.same(wv) {
				fail(step, "db:"+n, fmt.Sprintf("conversion history, step %d (%s): database entry %q now reads %v, fresh database %v", step, desc, n, g, wv))
				return
			}
		}
	}
	// at the end: every database entry looked up converts as it did in the fresh database, and conversion results are fixed points
	last := len(ops) - 1
	for n := range touched {
		t, err := sdf.ThreadLookup(n)
		if err != nil {
			continue
		}
		want := snap[n]
		wm := valsOf(&want).toMM()
		if g := valsOf(t.ToMillimetre()); !g.same(wm) {
			fail(last, "dbconv:"+n, fmt.Sprintf("after the conversion history, ThreadLookup(%q).ToMillimetre() = %v, radius/pitch/hex * 25.4 of the entry are %v - an edit of a struct RETURNED by an earlier conversion has changed what the database entry converts to", n, g, wm))
			return
		}
	}
	for k := range slots {
		if !slots[k].isConv {
			continue
		}
		if g := valsOf(slots[k].p.ToMillimetre()); !g.same(slots[k].m.toMM()) {
			fail(last, "idem", fmt.Sprintf("after the conversion history, converting %s = %v again gives %v, want %v", describe(k), *slots[k].m, g, slots[k].m.toMM()))
			return
		}
	}
	return
}

// convHistories builds the deterministic templates for every entry of `names` (all of them inch + a few mm) and
// `nrand` random programs.
func convHistories(rng *Rng, inch, mm []string, snap map[string]sdf.ThreadParameters, nrand int) (out []struct {
	stratum string
	ops     []convOp
}) {
	add := func(st string, ops ...convOp) {
		out = append(out, struct {
			stratum string
			ops     []convOp
		}{st, ops})
	}
	set := func(i int, f string, x float64) convOp { return convOp{Op: "set", Src: i, Field: f, X: x} }
	setS := func(i int, f, s string) convOp { return convOp{Op: "set", Src: i, Field: f, Name: s} }
	conv := func(i int) convOp { return convOp{Op: "conv", Src: i} }
	cp := func(i int) convOp { return convOp{Op: "copy", Src: i} }
	look := func(n string) convOp { return convOp{Op: "lookup", Name: n} }
	for _, n := range append(append([]string(nil), inch...), mm...) {
		t := snap[n]
		mmv := valsOf(&t).toMM()
		// convert, adjust the RETURNED struct (clearance on the radius, pitch, name), convert the original and the returned again
		add("adjust-returned", look(n), conv(0), set(1, "radius", mmv.Radius+0.2), conv(0), set(1, "pitch", mmv.Pitch*2), setS(1, "name", n+" loose"), conv(0), conv(1), conv(3), conv(0))
		// a derived thread: copy the entry by value AFTER it has been converted, edit the copy, convert it
		add("derived-copy", look(n), conv(0), cp(0), setS(2, "name", n+" oversize"), set(2, "radius", t.Radius*1.05), conv(2), set(2, "pitch", t.Pitch*0.5), set(2, "hex", t.HexFlat2Flat+0.125), conv(2), conv(0), conv(4))
		// a copy made BEFORE its own first conversion, edited in place between conversions; then copied again and edited
		add("edit-between", look(n), cp(0), conv(1), set(1, "radius", t.Radius*1.2), set(1, "pitch", t.Pitch*1.25), conv(1), cp(1), set(4, "radius", t.Radius*0.75), conv(4), conv(1), setS(1, "units", "mm"), conv(1), setS(1, "units", "inch"), conv(1))
		// a copy of the RETURNED struct, and the returned struct turned back into an inch value
		add("returned-copy", look(n), conv(0), cp(1), set(2, "radius", mmv.Radius*3), conv(2), conv(0), setS(1, "units", "inch"), set(1, "radius", t.Radius), conv(1), conv(0))
	}
	// a user-defined thread that never was in the database
	for _, u := range []string{"inch", "mm"} {
		v := tvals{"custom", 0.25, 0.05, 0, 0.75, u}
		add("user-defined", convOp{Op: "new", V: &v}, conv(0), set(0, "radius", 0.3), set(0, "pitch", 0.0625), conv(0), set(1, "radius", 99), conv(0), cp(0), set(4, "taper", 0.03), set(4, "hex", 1.5), conv(4), conv(5))
		// two different structs with the SAME name (a cache keyed by designation would confuse them)
		w := tvals{"custom", 0.5, 0.1, 0.01, 1.0, u}
		add("same-name", convOp{Op: "new", V: &v}, convOp{Op: "new", V: &w}, conv(0), conv(1), conv(0), conv(1))
	}
	// two (three) different entries converted alternately, the results edited in between
	all := append(append([]string(nil), inch...), mm...)
	for k := 0; k+1 < len(all); k++ {
		a, b := all[k], all[(k+1+rng.Intn(len(all)-1))%len(all)]
		if a == b {
			continue
		}
		ta := snap[a]
		add("alternate", look(a), look(b), conv(0), conv(1), conv(0), set(2, "radius", ta.Radius*25.4+1), conv(1), conv(0), set(3, "pitch", 7), conv(1), conv(0), cp(0), cp(1), conv(9), conv(10))
		// a user struct that borrows a database designation (same name, other lengths), converted before and after the entry
		v := tvals{a, ta.Radius * 2, ta.Pitch * 3, ta.Taper, ta.HexFlat2Flat * 2, ta.Units}
		add("borrowed-name", convOp{Op: "new", V: &v}, conv(0), look(a), conv(2), conv(0), conv(2))
	}
	// random programs
	for h := 0; h < nrand; h++ {
		var ops []convOp
		// a light-weight model run, only to pick sensible values (the interpreter has the real model)
		var vs []tvals
		push := func(op convOp, v tvals) { ops = append(ops, op); vs = append(vs, v) }
		nstart := 1 + rng.Intn(3)
		for i := 0; i < nstart; i++ {
			n := all[rng.Intn(len(all))]
			if rng.Intn(3) == 0 && len(inch) > 0 {
				n = inch[rng.Intn(len(inch))]
			}
			t := snap[n]
			push(look(n), valsOf(&t))
		}
		steps := 8 + rng.Intn(24)
		for s := 0; s < steps; s++ {
			i := rng.Intn(len(vs))
			switch k := rng.Intn(10); {
			case k < 4:
				push(conv(i), vs[i].toMM())
			case k < 6:
				push(cp(i), vs[i])
			default:
				// (the model values kept here ignore aliasing; they only steer the choice of new field values)
				switch f := rng.Intn(7); f {
				case 0, 1:
					x := vs[i].Radius * []float64{1.05, 0.5, 2, 1}[rng.Intn(4)]
					if rng.Intn(4) == 0 {
						x = vs[i].Radius + 0.1
					}
					ops = append(ops, set(i, "radius", x))
					vs[i].Radius = x
				case 2, 3:
					x := vs[i].Pitch * []float64{1.25, 0.5, 2, 3}[rng.Intn(4)]
					ops = append(ops, set(i, "pitch", x))
					vs[i].Pitch = x
				case 4:
					x := vs[i].Hex + float64(rng.Intn(5))*0.25
					ops = append(ops, set(i, "hex", x))
					vs[i].Hex = x
				case 5:
					nm := fmt.Sprintf("%s'%d", vs[i].Name, s)
					if rng.Intn(3) == 0 {
						nm = all[rng.Intn(len(all))] // takes the designation of another entry
					}
					ops = append(ops, setS(i, "name", nm))
					vs[i].Name = nm
				case 6:
					u := []string{"inch", "mm"}[rng.Intn(2)]
					ops = append(ops, setS(i, "units", u))
					vs[i].Units = u
				}
			}
		}
		add("random", ops...)
	}
	return out
}
