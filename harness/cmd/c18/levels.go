package main

// levels.go - the measure-zero stratum "level with a vertex of the thread profile".
//
// Polygon2D decides inside / outside by a crossing number along the horizontal line through the
// sample point, with a half-open rule at the end points of the segments (and the quadtree it walks
// chooses its rows / columns by comparing with the centres of its boxes).  Which end point counts
// matters ONLY for a sample point whose ordinate is bit for bit the ordinate of a vertex (or of a
// cut point of the quadtree); in 3D that is a point whose distance from the screw axis equals such an
// ordinate exactly: the sharp apex of the external profile (BoundingBox().Max.Y), the crest flat, the
// facets of the root / crest fillets, the bore.  Random points, unmap()'d profile points and
// h*k/8 grids practically never hit these values.  This file
//   * collects the ordinates / abscissae of a profile: the vertex list rebuilt through the public
//     Polygon API (NewPolygon / Add / Smooth / Vertices, the construction of ISOThread), the end points
//     of the clipped pieces and the box centres of the quadtree (hook VerifQtDump), the bounding box;
//   * judges the sign of the 2D profile (and, through the recorded profile-plane point, of the 3D
//     screw) by the EXACT crossing number (rational arithmetic) wherever the point is farther than a
//     guard from the outline, and the magnitude by the plain distance to the segments;
//   * builds 3D points whose profile-plane ordinate is one of these values bit for bit - on the
//     coordinate axes (theta = 0, -0, +-pi/2, +pi, -pi), in generic directions (x, y searched so that
//     sqrt(x*x+y*y) rounds to the value; tapered screws: rho + z*tan(taper) too), heights z that put
//     the abscissa on a vertex abscissa - verified through the recording probe, plus one ulp either
//     side; they go through the mating oracle of every row x tolerance and through obj.Bolt / obj.Nut.

import (
	"fmt"
	"math"
	"math/big"
	"sort"

	"github.com/deadsy/sdfx/sdf"
	v2 "github.com/deadsy/sdfx/vec/v2"
	v3 "github.com/deadsy/sdfx/vec/v3"
	. "verifharness/kit"
)

// ---------------------------------------------------------------- exact crossing number

type seg struct{ ax, ay, bx, by float64 }

// sign of cross(b-a, p-a), exact (float filter, rational fallback)
func crossSign(s seg, px, py float64) int {
	vx, vy := s.bx-s.ax, s.by-s.ay
	wx, wy := px-s.ax, py-s.ay
	t1, t2 := vx*wy, vy*wx
	c := t1 - t2
	if bound := 8 * 2.3e-16 * (math.Abs(t1) + math.Abs(t2)); math.Abs(c) > bound && !math.IsInf(c, 0) {
		if c > 0 {
			return 1
		}
		return -1
	}
	rvx := new(big.Rat).Sub(rat(s.bx), rat(s.ax))
	rvy := new(big.Rat).Sub(rat(s.by), rat(s.ay))
	rwx := new(big.Rat).Sub(rat(px), rat(s.ax))
	rwy := new(big.Rat).Sub(rat(py), rat(s.ay))
	a := new(big.Rat).Mul(rvx, rwy)
	b := new(big.Rat).Mul(rvy, rwx)
	return a.Cmp(b)
}

// the specification: crossing number of the closed outline around p (half-open rule on the exact
// coordinates; any consistent rule gives the same number for a point off the outline)
func exactWinding(segs []seg, px, py float64) int {
	wn := 0
	for _, s := range segs {
		if s.ay <= py {
			if s.by > py && crossSign(s, px, py) > 0 {
				wn++
			}
		} else if s.by <= py && crossSign(s, px, py) < 0 {
			wn--
		}
	}
	return wn
}

// distance from p to the outline (plain float64, every segment)
func outlineDist(segs []seg, px, py float64) float64 {
	best := math.Inf(1)
	for _, s := range segs {
		vx, vy := s.bx-s.ax, s.by-s.ay
		wx, wy := px-s.ax, py-s.ay
		c := wx*vx + wy*vy
		vv := vx*vx + vy*vy
		var d2 float64
		switch {
		case c <= 0 || vv == 0:
			d2 = wx*wx + wy*wy
		case c >= vv:
			ux, uy := px-s.bx, py-s.by
			d2 = ux*ux + uy*uy
		default:
			k := vx*wy - vy*wx
			d2 = k * k / vv
		}
		if d2 < best {
			best = d2
		}
	}
	return math.Sqrt(best)
}

// ---------------------------------------------------------------- what is known about one profile

type profGeom struct {
	radius, pitch float64
	external      bool
	spec          []seg     // the outline the sign oracle judges by
	specFrom      string    // "vertices": the rebuilt vertex list (every vertex found bit for bit among the pieces); "pieces": the quadtree pieces
	ys, xs        []float64 // ordinates / abscissae of the vertices (and of the bounding box)
	ysCut, xsCut  []float64 // further ones: cut points and box centres of the quadtree
	bb            sdf.Box2
}

// the vertex list of sdf.ISOThread, rebuilt through the public Polygon API
func isoVertices(radius, pitch float64, external bool) []v2.Vec {
	theta := sdf.DtoR(30.0)
	h := pitch / (2.0 * math.Tan(theta))
	rMajor := radius
	r0 := rMajor - (7.0/8.0)*h
	iso := sdf.NewPolygon()
	if external {
		rRoot := (pitch / 8.0) / math.Cos(theta)
		xOfs := (1.0 / 16.0) * pitch
		iso.Add(pitch, 0)
		iso.Add(pitch, r0+h)
		iso.Add(pitch/2.0, r0).Smooth(rRoot, 5)
		iso.Add(xOfs, rMajor)
		iso.Add(-xOfs, rMajor)
		iso.Add(-pitch/2.0, r0).Smooth(rRoot, 5)
		iso.Add(-pitch, r0+h)
		iso.Add(-pitch, 0)
	} else {
		rMinor := r0 + (1.0/4.0)*h
		rCrest := (pitch / 16.0) / math.Cos(theta)
		xOfs := (1.0 / 8.0) * pitch
		iso.Add(pitch, 0)
		iso.Add(pitch, rMinor)
		iso.Add(pitch/2-xOfs, rMinor)
		iso.Add(0, r0+h).Smooth(rCrest, 5)
		iso.Add(-pitch/2+xOfs, rMinor)
		iso.Add(-pitch, rMinor)
		iso.Add(-pitch, 0)
	}
	return iso.Vertices()
}

func uniqSorted(xs []float64) []float64 {
	sort.Float64s(xs)
	out := xs[:0]
	for i, x := range xs {
		if math.IsNaN(x) || math.IsInf(x, 0) {
			continue
		}
		if i == 0 || len(out) == 0 || x != out[len(out)-1] {
			out = append(out, x)
		}
	}
	return out
}

func without(xs, drop []float64) []float64 {
	m := map[float64]bool{}
	for _, x := range drop {
		m[x] = true
	}
	var out []float64
	for _, x := range xs {
		if !m[x] {
			out = append(out, x)
		}
	}
	return out
}

func geomOf(prof sdf.SDF2, radius, pitch float64, external bool) *profGeom {
	pg := &profGeom{radius: radius, pitch: pitch, external: external, bb: prof.BoundingBox()}
	verts := isoVertices(radius, pitch, external)
	var pieces []sdf.Line2
	var cx, cy []float64
	var walk func(n *sdf.VerifQtNode)
	walk = func(n *sdf.VerifQtNode) {
		if n == nil {
			return
		}
		if n.Leaf {
			for _, l := range n.Pieces {
				if l[0] != l[1] {
					pieces = append(pieces, l)
				}
			}
			return
		}
		cx, cy = append(cx, n.Center.X), append(cy, n.Center.Y)
		for _, ch := range n.Child {
			walk(ch)
		}
	}
	walk(sdf.VerifQtDump(prof))
	ends := map[v2.Vec]bool{}
	for _, l := range pieces {
		ends[l[0]], ends[l[1]] = true, true
	}
	consistent := len(pieces) > 0
	for _, v := range verts {
		if !ends[v] {
			consistent = false
		}
	}
	if consistent || len(pieces) == 0 {
		pg.specFrom = "vertices"
		for i, a := range verts {
			b := verts[(i+1)%len(verts)]
			if a != b {
				pg.spec = append(pg.spec, seg{a.X, a.Y, b.X, b.Y})
			}
		}
	} else {
		// ISOThread no longer builds this vertex list bit for bit (a harmless rewrite moves vertices by an ulp):
		// judge by the outline the implementation holds; its cut points cannot be told from its vertices
		pg.specFrom = "pieces"
		for _, l := range pieces {
			pg.spec = append(pg.spec, seg{l[0].X, l[0].Y, l[1].X, l[1].Y})
		}
	}
	xs := []float64{pg.bb.Min.X, pg.bb.Max.X}
	ys := []float64{pg.bb.Min.Y, pg.bb.Max.Y}
	for _, v := range verts {
		xs, ys = append(xs, v.X), append(ys, v.Y)
	}
	for _, l := range pieces {
		for _, e := range l {
			if pg.specFrom == "pieces" {
				xs, ys = append(xs, e.X), append(ys, e.Y)
			} else {
				cx, cy = append(cx, e.X), append(cy, e.Y)
			}
		}
	}
	pg.xs, pg.ys = uniqSorted(xs), uniqSorted(ys)
	pg.xsCut, pg.ysCut = without(uniqSorted(cx), pg.xs), without(uniqSorted(cy), pg.ys)
	return pg
}

func (pg *profGeom) name() string {
	k := "internal"
	if pg.external {
		k = "external"
	}
	return fmt.Sprintf("ISOThread(radius %v, pitch %v, %s)", pg.radius, pg.pitch, k)
}

// step moves x by k ulps
func step(x float64, k int) float64 {
	for ; k > 0; k-- {
		x = math.Nextafter(x, math.Inf(1))
	}
	for ; k < 0; k++ {
		x = math.Nextafter(x, math.Inf(-1))
	}
	return x
}

// ---------------------------------------------------------------- 2D: the profile itself at points level with its vertices

// at most this many failing inputs per oracle of this file (the report keeps 50 in all: the mating / bolt-nut oracles,
// which state the property in its own words, must not be crowded out)
const maxLevelViolations = 4

var nViol2D, nViolSign int

type prof2dCase struct {
	Radius   float64    `json:"radius"`
	Pitch    float64    `json:"pitch"`
	External bool       `json:"external"`
	Q        [2]float64 `json:"q"`
}

// judge2D compares the sign (and the magnitude) of prof at q with the exact crossing number / the distance to the outline.
// It returns false after reporting a violation.
func judge2D(r *Report, stratum string, prof sdf.SDF2, pg *profGeom, q v2.Vec, scale float64) bool {
	v := prof.Evaluate(q)
	key := fmt.Sprintf("prof2d:%x,%x,%v|%x,%x", pg.radius, pg.pitch, pg.external, q.X, q.Y)
	r.Case(stratum, key, true)
	d := outlineDist(pg.spec, q.X, q.Y)
	if !(d > 1e-9*scale) {
		return true // on (or within rounding of) the outline: either sign is right
	}
	wn := exactWinding(pg.spec, q.X, q.Y)
	in := "outside"
	if wn != 0 {
		in = "inside"
	}
	if (wn != 0) != (v < 0) || math.IsNaN(v) {
		if nViol2D++; nViol2D > maxLevelViolations {
			return false
		}
		r.Violate(key, fmt.Sprintf("%s: the profile-plane point (%v, %v) is %s the thread profile (exact crossing number %d of its %d-segment outline, distance %v from it) but the profile evaluates to %v there - a screw made from it has / lacks material on the whole helix through this point",
			pg.name(), q.X, q.Y, in, wn, len(pg.spec), d, v), prof2dCase{pg.radius, pg.pitch, pg.external, [2]float64{q.X, q.Y}})
		return false
	}
	if math.Abs(math.Abs(v)-d) > 1e-9*scale {
		if nViol2D++; nViol2D > maxLevelViolations {
			return false
		}
		r.Violate(key, fmt.Sprintf("%s: the profile-plane point (%v, %v) is %v from the outline of the thread profile but the profile evaluates to %v there", pg.name(), q.X, q.Y, d, v),
			prof2dCase{pg.radius, pg.pitch, pg.external, [2]float64{q.X, q.Y}})
		return false
	}
	return true
}

// abscissa candidates for a level: the vertex abscissae, the midpoints between neighbours, the quadtree cuts, beyond both ends
func (pg *profGeom) xCandidates() []float64 {
	var out []float64
	out = append(out, pg.xs...)
	for i := 0; i+1 < len(pg.xs); i++ {
		out = append(out, 0.5*(pg.xs[i]+pg.xs[i+1]))
	}
	out = append(out, pg.xsCut...)
	w := pg.bb.Max.X - pg.bb.Min.X
	out = append(out, pg.bb.Min.X-0.13*w, pg.bb.Max.X+0.07*w)
	return out
}

// levels2D evaluates the profile on a sparse grid (every vertex ordinate, +-1 ulp; cut ordinates) x (abscissa candidates)
// and, transposed, (every vertex abscissa, +-1 ulp) x (ordinates between the vertices).
func levels2D(r *Report, rng *Rng, stratum string, prof sdf.SDF2, pg *profGeom, perLevel int) {
	scale := pg.radius + pg.pitch
	xc := pg.xCandidates()
	yc := append([]float64(nil), pg.ys...)
	for i := 0; i+1 < len(pg.ys); i++ {
		yc = append(yc, 0.5*(pg.ys[i]+pg.ys[i+1]))
	}
	yc = append(yc, pg.ysCut...)
	yc = append(yc, pg.bb.Max.Y+0.05*scale, pg.bb.Min.Y-0.05*scale)
	for _, y := range pg.ys {
		for _, k := range []int{0, -1, 1} {
			yy := step(y, k)
			st := fmt.Sprintf("%s/vertex-level%+d", stratum, k)
			// always: far left and far right of everything (the whole row of crossings is counted / none is)
			if !judge2D(r, st, prof, pg, v2.Vec{X: xc[len(xc)-2], Y: yy}, scale) || !judge2D(r, st, prof, pg, v2.Vec{X: xc[len(xc)-1], Y: yy}, scale) {
				return
			}
			for j := 0; j < perLevel; j++ {
				x := xc[rng.Intn(len(xc))]
				if j%4 == 3 {
					x = rng.Uniform(pg.bb.Min.X, pg.bb.Max.X)
				}
				if !judge2D(r, st, prof, pg, v2.Vec{X: x, Y: yy}, scale) {
					return
				}
			}
		}
	}
	for _, y := range pg.ysCut {
		for j := 0; j < 1+perLevel/3; j++ {
			if !judge2D(r, stratum+"/cut-level", prof, pg, v2.Vec{X: xc[rng.Intn(len(xc))], Y: y}, scale) {
				return
			}
		}
	}
	// transposed: abscissa bit for bit on a vertex / a cut of the quadtree
	for _, x := range pg.xs {
		for _, k := range []int{0, -1, 1} {
			for j := 0; j < 1+perLevel/3; j++ {
				if !judge2D(r, fmt.Sprintf("%s/vertex-abscissa%+d", stratum, k), prof, pg, v2.Vec{X: step(x, k), Y: yc[rng.Intn(len(yc))]}, scale) {
					return
				}
			}
		}
	}
	for _, x := range pg.xsCut {
		if !judge2D(r, stratum+"/cut-abscissa", prof, pg, v2.Vec{X: x, Y: yc[rng.Intn(len(yc))]}, scale) {
			return
		}
	}
}

// ---------------------------------------------------------------- 3D: points at an exact distance from the axis

// exactXY returns (x, y) with math.Sqrt(x*x+y*y) == rho bit for bit: modes 0..5 on the coordinate axes
// (theta = 0, pi/2, +pi, -pi, -pi/2, -0), otherwise a generic direction (y searched a few ulps around sqrt(rho^2-x^2)).
func exactXY(rng *Rng, rho float64, mode int) (x, y float64, exact bool) {
	nz := math.Copysign(0, -1)
	switch mode {
	case 0:
		return rho, 0, true
	case 1:
		return 0, rho, true
	case 2:
		return -rho, 0, true
	case 3:
		return -rho, nz, true
	case 4:
		return 0, -rho, true
	case 5:
		return rho, nz, true
	}
	for try := 0; try < 6; try++ {
		th := rng.Uniform(-math.Pi, math.Pi)
		x = rho * math.Cos(th)
		y = math.Copysign(math.Sqrt(math.Max(0, rho*rho-x*x)), math.Sin(th))
		for k := 0; k <= 24; k++ {
			for _, s := range []int{1, -1} {
				yy := step(y, s*k)
				if math.Sqrt(x*x+yy*yy) == rho {
					return x, yy, true
				}
			}
		}
	}
	return x, y, false
}

// levelPoint: a 3D point at height z whose profile-plane ordinate |rho + z*tan(taper)| is `level` (bit for bit where the
// arithmetic allows it; the caller verifies through the probe)
func levelPoint(rng *Rng, level, taper, z float64, mode int) v3.Vec {
	rho := level
	if taper != 0 {
		t := z * math.Tan(taper)
		c := level - t
		rho = c
		for k := -4; k <= 4; k++ {
			if cc := step(c, k); cc >= 0 && math.Abs(cc+t) == level {
				rho = cc
				break
			}
		}
		if rho < 0 {
			rho = 0
		}
	}
	x, y, _ := exactXY(rng, rho, mode)
	return v3.Vec{X: x, Y: y, Z: z}
}

type levelPt struct {
	p     v3.Vec
	level float64 // the ordinate aimed at
	class string  // vertex-level+0 | vertex-level-1 | vertex-level+1 | cut-level
}

// levelPoints3D: for every ordinate of the two profiles (vertices: exact and one ulp either side, `reps` placements
// each; quadtree cuts: exact, one placement) points of the screw at that distance from the axis, |z| < zmax.
func levelPoints3D(rng *Rng, ge, gi *profGeom, taper, pitch, zmax float64, reps int) []levelPt {
	ys := uniqSorted(append(append([]float64(nil), ge.ys...), gi.ys...))
	cuts := without(uniqSorted(append(append([]float64(nil), ge.ysCut...), gi.ysCut...)), ys)
	// vertex abscissae the helical map can produce (|x| <= pitch/2)
	var xs []float64
	for _, x := range append(append([]float64(nil), ge.xs...), gi.xs...) {
		if math.Abs(x) <= pitch/2 {
			xs = append(xs, x)
		}
	}
	var out []levelPt
	n := rng.Intn(8)
	place := func(level float64, class string) {
		mode := n % 8
		n++
		z := rng.Uniform(-zmax, zmax)
		if (mode == 0 || mode == 5) && len(xs) > 0 && rng.Bool() {
			// theta = +-0: the abscissa is SawTooth(z): a vertex abscissa (plus whole pitches)
			z = xs[rng.Intn(len(xs))]
			if k := math.Floor(zmax/pitch - 0.5); k >= 1 && rng.Bool() {
				z += pitch * float64(rng.Range(-int(k), int(k)))
			}
		}
		out = append(out, levelPt{levelPoint(rng, level, taper, z, mode), level, class})
	}
	for _, y := range ys {
		if y < 0 {
			continue
		}
		for _, k := range []int{0, -1, 1} {
			lv := step(y, k)
			if lv < 0 {
				continue
			}
			for j := 0; j < reps; j++ {
				place(lv, fmt.Sprintf("vertex-level%+d", k))
			}
		}
	}
	for _, y := range cuts {
		if y > 0 {
			place(y, "cut-level")
		}
	}
	return out
}

// signOracle: the sign of the screw at p against the exact crossing number of the profile-plane point p0 the screw
// hands to its profile (recorded by a probe screw with the same mapping).  halfLen: half the length of the screw.
func signOracle(r *Report, key, who string, s sdf.SDF3, pg *profGeom, p v3.Vec, p0 v2.Vec, halfLen, scale float64, input interface{}) bool {
	guard := 1e-9 * scale
	if !(halfLen-math.Abs(p.Z) > guard) {
		return true
	}
	d := outlineDist(pg.spec, p0.X, p0.Y)
	if !(d > guard) {
		return true
	}
	wn := exactWinding(pg.spec, p0.X, p0.Y)
	v := s.Evaluate(p)
	if (wn != 0) == (v < 0) && !math.IsNaN(v) {
		return true
	}
	if nViolSign++; nViolSign > maxLevelViolations {
		return false
	}
	in, mat := "outside", "no material"
	if wn != 0 {
		in, mat = "inside", "material"
	}
	r.Violate("sign:"+key, fmt.Sprintf("%s, Screw3D of %s: the point %v (distance from the axis %v) maps to the profile-plane point (%v, %v), which is %s the thread profile (exact crossing number %d, %v from the outline), so the screw has %s there, but Evaluate = %v",
		who, pg.name(), p, math.Sqrt(p.X*p.X+p.Y*p.Y), p0.X, p0.Y, in, wn, d, mat, v), input)
	return false
}
