package main

// C18: screw threads - database rows match their designation, unit conversion, helical
// invariance / periodicity / handedness, external thread never intersects the material left
// after cutting the matching internal thread.
// Model: coq/Sdf/Screw.v + coq/Generated/Threads.v (regenerated from sdf/screw.go on every
// run by harness/threadgen); cases evaluated by coq/Sdf/C18Corr.v.

import (
	"encoding/json"
	"fmt"
	"math"
	"math/big"
	"os"
	"path/filepath"
	"sort"
	"strconv"
	"strings"

	"github.com/deadsy/sdfx/obj"
	"github.com/deadsy/sdfx/sdf"
	v2 "github.com/deadsy/sdfx/vec/v2"
	v3 "github.com/deadsy/sdfx/vec/v3"
	. "verifharness/kit"
	"verifharness/threadgen"
)

func main() { Main("C18", check, stateGen, threadgen.Gen, threadgen.GenExpr, threadgen.GenObj) }

const imp = "From Coq Require Import String.\nFrom Sdfx Require Import Sdf.C18Corr.\nOpen Scope float_scope.\nOpen Scope string_scope."

// ---------------------------------------------------------------- corpus

type corpus struct {
	// points (cylindrical: rho, theta, z) evaluated on the screws of a designation
	Points []struct {
		Thread string     `json:"thread"`
		Starts int        `json:"starts"`
		P      [3]float64 `json:"p"` // cartesian
	} `json:"points"`
	Mating []mateCase `json:"mating"`
	// profile-plane points of ISOThread(radius, pitch, external) judged by the exact crossing number (levels.go)
	Profile2D []prof2dCase `json:"profile2d"`
	BoltNut   []struct {
		Thread string     `json:"thread"`
		Tol    float64    `json:"tol"`
		TolNut *float64   `json:"tol_nut,omitempty"` // the nut's tolerance when it differs from the bolt's
		Shift  int        `json:"shift"`
		P      [3]float64 `json:"p"`
	} `json:"boltnut"`
	Histories [][]genCall `json:"histories"`
	// conversion histories on ThreadParameters values (convhist.go)
	Conversions [][]convOp `json:"conversions"`
	Taper     []struct {
		Thread string  `json:"thread"`
		Length float64 `json:"length"`
		Z      float64 `json:"z"`
		Phi    float64 `json:"phi"`
	} `json:"taper"`
}

// one call of a generator of package obj that looks its thread up in the database
type genCall struct {
	Gen    string  `json:"gen"` // cylinder | nut | bolt
	Thread string  `json:"thread"`
	Style  string  `json:"style,omitempty"` // hex | knurl (nut, bolt)
	Tol    float64 `json:"tol"`
}

type mateCase struct {
	Thread string     `json:"thread"`
	TolExt float64    `json:"tol_ext"`
	TolInt float64    `json:"tol_int"`
	Starts int        `json:"starts"`
	P      [3]float64 `json:"p"`
}

// ---------------------------------------------------------------- reference data (direct oracles)

// ASME B1.1 unified coarse / fine series: designation -> (major diameter in inches, threads per inch)
var utsRef = map[string][2]string{
	"unc_4_40": {"0.112", "40"}, "unc_6_32": {"0.138", "32"}, "unc_8_32": {"0.164", "32"}, "unc_10_24": {"0.190", "24"},
	"unc_1/4": {"1/4", "20"}, "unc_5/16": {"5/16", "18"}, "unc_3/8": {"3/8", "16"}, "unc_7/16": {"7/16", "14"},
	"unc_1/2": {"1/2", "13"}, "unc_9/16": {"9/16", "12"}, "unc_5/8": {"5/8", "11"}, "unc_3/4": {"3/4", "10"},
	"unc_7/8": {"7/8", "9"}, "unc_1": {"1", "8"},
	"unf_4_48": {"0.112", "48"}, "unf_6_40": {"0.138", "40"}, "unf_8_36": {"0.164", "36"}, "unf_10_32": {"0.190", "32"},
	"unf_1/4": {"1/4", "28"}, "unf_5/16": {"5/16", "24"}, "unf_3/8": {"3/8", "24"}, "unf_7/16": {"7/16", "20"},
	"unf_1/2": {"1/2", "20"}, "unf_9/16": {"9/16", "18"}, "unf_5/8": {"5/8", "18"}, "unf_3/4": {"3/4", "16"},
	"unf_7/8": {"7/8", "14"}, "unf_1": {"1", "12"},
}

// ASME B1.20.1 NPT: designation -> (outside diameter of pipe in inches, threads per inch)
var nptRef = map[string][2]string{
	"npt_1/8": {"0.405", "27"}, "npt_1/4": {"0.540", "18"}, "npt_3/8": {"0.675", "18"}, "npt_1/2": {"0.840", "14"},
	"npt_3/4": {"1.050", "14"}, "npt_1": {"1.315", "23/2"}, "npt_1_1/4": {"1.660", "23/2"}, "npt_1_1/2": {"1.900", "23/2"},
	"npt_2": {"2.375", "23/2"}, "npt_2_1/2": {"2.875", "8"}, "npt_3": {"3.500", "8"}, "npt_4": {"4.500", "8"},
}

func ratS(s string) *big.Rat {
	r, ok := new(big.Rat).SetString(s)
	if !ok {
		panic("bad rational " + s)
	}
	return r
}
func rat(x float64) *big.Rat { return new(big.Rat).SetFloat64(x) }

// |g - s| <= 2^-52 |s|
func nearRat(g float64, s *big.Rat) bool {
	d := new(big.Rat).Sub(rat(g), s)
	d.Abs(d)
	lim := new(big.Rat).Abs(s)
	lim.Mul(lim, new(big.Rat).SetFrac(big.NewInt(1), new(big.Int).Lsh(big.NewInt(1), 52)))
	return d.Cmp(lim) <= 0
}

// expected (radius, pitch) of a designation in its own unit, independent of the source rows
func designation(name string) (radius, pitch *big.Rat, unit string, tapered bool, ok bool) {
	half := big.NewRat(1, 2)
	if strings.HasPrefix(name, "M") {
		i := strings.Index(name, "x")
		if i < 0 {
			return nil, nil, "", false, false
		}
		d, ok1 := new(big.Rat).SetString(name[1:i])
		p, ok2 := new(big.Rat).SetString(name[i+1:])
		if !ok1 || !ok2 {
			return nil, nil, "", false, false
		}
		return d.Mul(d, half), p, "mm", false, true
	}
	if e, ok := utsRef[name]; ok {
		d := ratS(e[0])
		return d.Mul(d, half), new(big.Rat).Inv(ratS(e[1])), "inch", false, true
	}
	if e, ok := nptRef[name]; ok {
		d := ratS(e[0])
		return d.Mul(d, half), new(big.Rat).Inv(ratS(e[1])), "inch", true, true
	}
	return nil, nil, "", false, false
}

// ---------------------------------------------------------------- helpers

type probe struct {
	c    float64
	last v2.Vec
	n    int
}

func (p *probe) Evaluate(q v2.Vec) float64 { p.last = q; p.n++; return p.c }
func (p *probe) BoundingBox() sdf.Box2 {
	return sdf.Box2{Min: v2.Vec{X: -1, Y: 0}, Max: v2.Vec{X: 1, Y: 1}}
}

func cyl(rho, theta, z float64) v3.Vec {
	return v3.Vec{X: rho * math.Cos(theta), Y: rho * math.Sin(theta), Z: z}
}

func pkey(p v3.Vec) string { return fmt.Sprintf("%x,%x,%x", p.X, p.Y, p.Z) }

// thread geometry used by the generators
type tgeo struct {
	name        string
	r, pitch, h float64
	taper       float64
	units       string
}

func geo(t *sdf.ThreadParameters) tgeo {
	return tgeo{name: t.Name, r: t.Radius, pitch: t.Pitch, h: t.Pitch * math.Sqrt(3) / 2, taper: t.Taper, units: t.Units}
}

// a point of the profile plane -> a 3d point of the screw mapping onto it (inverse of the helical map)
func unmap(rng *Rng, g tgeo, starts int, halfLen float64, qx, qy float64, tapered bool) (v3.Vec, float64) {
	theta := rng.Uniform(-math.Pi, math.Pi)
	lead := -g.pitch * float64(starts)
	z := qx - lead*theta/(2*math.Pi)
	// shift by whole pitches into the screw
	kmax := int(math.Floor((halfLen*0.8 - z) / g.pitch))
	kmin := int(math.Ceil((-halfLen*0.8 - z) / g.pitch))
	if kmax >= kmin {
		z += float64(rng.Range(kmin, kmax)) * g.pitch
	}
	rho := qy
	if tapered {
		rho -= z * math.Tan(g.taper)
	}
	if rho < 0 {
		rho = 0
	}
	return cyl(rho, theta, z), theta
}

// ---------------------------------------------------------------- the check

func check(c *Ctx, r *Report) error {
	rng := NewRng(c.Seed)
	lrng := NewRng(c.Seed ^ 0x6c6576656c73) // the vertex-level strata (levels.go) draw from their own stream
	var cp corpus
	if b, err := os.ReadFile(filepath.Join(c.Verif, "corpus", "C18.json")); err == nil {
		if err := json.Unmarshal(b, &cp); err != nil {
			return fmt.Errorf("corpus: %v", err)
		}
	}
	cd := &Cases{Kind: "db", Imports: imp, Type: "cased", Fn: "mismatchesd", InfoFn: "uncovered", PerShard: 1000}
	cpb := &Cases{Kind: "probe", Imports: imp, Type: "casep", Fn: "mismatchesp", PerShard: 700}
	cs := &Cases{Kind: "sawtooth", Imports: imp, Type: "cases", Fn: "mismatchess", PerShard: 3000}
	cf := &Cases{Kind: "profile", Imports: imp, Type: "casef", Fn: "mismatchesf", InfoFn: "inexactf", PerShard: 12}
	cv := &Cases{Kind: "vertices", Imports: imp, Type: "casev", Fn: "mismatchesv", PerShard: 150}
	cg := &Cases{Kind: "screw", Imports: imp, Type: "caseg", Fn: "mismatchesg", InfoFn: "inexactg", PerShard: 12}
	id := 0
	search := c.Tier == "search"

	// ------------------------------------------------------------ 1. the database
	_, rows, err := threadgen.Generate(c.Repo)
	noRows := false
	if err != nil {
		// the translator cannot read the edited source (reported as a broken tie by the gen step):
		// the oracles on the implementation below still run, so that a failing input can be found
		r.Coverage["translator_error"] = err.Error()
		rows, noRows = nil, true
	}
	names := sdf.VerifThreadNames()
	rowByName := map[string]threadgen.Row{}
	for _, row := range rows {
		if _, dup := rowByName[row.Name]; dup {
			r.Violate("db:duplicate:"+row.Name, fmt.Sprintf("thread database: the designation %q is added twice (the later row silently replaces the earlier)", row.Name), row.Name)
		}
		rowByName[row.Name] = row
	}
	inDB := map[string]bool{}
	for _, n := range names {
		inDB[n] = true
		if _, ok := rowByName[n]; !ok && !noRows {
			r.Violate("db:norow:"+n, fmt.Sprintf("thread database key %q has no row in initThreadLookup as parsed from the source", n), n)
		}
	}
	for _, row := range rows {
		if !inDB[row.Name] {
			r.Violate("db:missing:"+row.Name, fmt.Sprintf("source row %q (%s) is not in the thread database", row.Name, row.Src), row.Name)
		}
	}
	mmPerInch := big.NewRat(254, 10)
	var geos []tgeo
	// bit-exact snapshot of the fresh database (taken before any generator has run): entry and ToMillimetre of it
	snap := map[string]sdf.ThreadParameters{}
	snapMM := map[string]sdf.ThreadParameters{}
	for _, n := range names {
		t, err := sdf.ThreadLookup(n)
		if err != nil {
			r.Violate("db:lookup:"+n, "ThreadLookup fails for a database key: "+err.Error(), n)
			continue
		}
		id++
		m := t.ToMillimetre()
		snap[n], snapMM[n] = *t, *m
		cd.Add(fmt.Sprintf("(%d%%N, %s, (%s,%s,%s,%s), %s, (%s,%s,%s,%s), %s)", id, strconv.Quote(t.Name),
			CF(t.Radius), CF(t.Pitch), CF(t.Taper), CF(t.HexFlat2Flat), strconv.Quote(t.Units),
			CF(m.Radius), CF(m.Pitch), CF(m.Taper), CF(m.HexFlat2Flat), strconv.Quote(m.Units)))
		r.Case("db/"+t.Units, "db:"+n, true)
		geos = append(geos, geo(t))
		if id%29 == 0 {
			r.Sample(map[string]interface{}{"kind": "db", "name": n, "radius": t.Radius, "pitch": t.Pitch, "taper": t.Taper, "units": t.Units})
		}
		// direct oracles: designation
		er, ep, unit, tapered, ok := designation(n)
		if !ok {
			r.Violate("db:unknown:"+n, fmt.Sprintf("thread %q: designation is neither M<d>x<P> nor in the unified / NPT reference tables", n), n)
			continue
		}
		if t.Name != n {
			r.Violate("db:name:"+n, fmt.Sprintf("thread %q: stored name is %q", n, t.Name), n)
		}
		if t.Units != unit {
			r.Violate("db:units:"+n, fmt.Sprintf("thread %q: units %q, the designation is in %s", n, t.Units, unit), n)
		}
		if !nearRat(t.Radius, er) {
			ef, _ := er.Float64()
			r.Violate("db:radius:"+n, fmt.Sprintf("thread %q: radius %v but the designation gives %v %s", n, t.Radius, ef, unit), n)
		}
		if !nearRat(t.Pitch, ep) {
			ef, _ := ep.Float64()
			r.Violate("db:pitch:"+n, fmt.Sprintf("thread %q: pitch %v but the designation gives %v %s", n, t.Pitch, ef, unit), n)
		}
		if tapered {
			if math.Abs(math.Tan(t.Taper)-1.0/32.0) > 1e-15 {
				r.Violate("db:taper:"+n, fmt.Sprintf("thread %q: tan(taper) = %v, NPT is 1 in 32 on the radius", n, math.Tan(t.Taper)), n)
			}
		} else if t.Taper != 0 {
			r.Violate("db:taper:"+n, fmt.Sprintf("thread %q: taper %v on a straight thread", n, t.Taper), n)
		}
		if !(t.HexFlat2Flat > 0 && t.Radius > 0 && t.Pitch > 0) {
			r.Violate("db:positive:"+n, fmt.Sprintf("thread %q: radius %v, pitch %v, hex flat to flat %v must be positive", n, t.Radius, t.Pitch, t.HexFlat2Flat), n)
		}
		// unit conversion
		wantR, wantP := new(big.Rat).Set(er), new(big.Rat).Set(ep)
		if unit == "inch" {
			wantR.Mul(wantR, mmPerInch)
			wantP.Mul(wantP, mmPerInch)
			if m.Radius != t.Radius*25.4 || m.Pitch != t.Pitch*25.4 || m.HexFlat2Flat != t.HexFlat2Flat*25.4 {
				r.Violate("db:tomm:"+n, fmt.Sprintf("thread %q: ToMillimetre does not scale the lengths by 25.4: %v %v %v", n, m.Radius, m.Pitch, m.HexFlat2Flat), n)
			}
		} else if *m != *t {
			r.Violate("db:tomm:"+n, fmt.Sprintf("thread %q: ToMillimetre changes a millimetre thread", n), n)
		}
		relOK := func(g float64, s *big.Rat) bool {
			sf, _ := s.Float64()
			return math.Abs(g-sf) <= 4e-16*math.Abs(sf)
		}
		if m.Units != "mm" || m.Name != t.Name || m.Taper != t.Taper || !relOK(m.Radius, wantR) || !relOK(m.Pitch, wantP) {
			r.Violate("db:tomm:"+n, fmt.Sprintf("thread %q: ToMillimetre gives radius %v pitch %v units %q", n, m.Radius, m.Pitch, m.Units), n)
		}
		if mm2 := m.ToMillimetre(); *mm2 != *m {
			r.Violate("db:tomm2:"+n, fmt.Sprintf("thread %q: ToMillimetre is not idempotent", n), n)
		}
	}
	if _, err := sdf.ThreadLookup("no_such_thread"); err == nil {
		r.Violate("db:bogus", "ThreadLookup returns no error for an unknown designation", "no_such_thread")
	}
	if len(geos) == 0 {
		return fmt.Errorf("empty thread database")
	}

	// ------------------------------------------------------------ 2. SawTooth
	nsaw := TierN(c.Tier, 1500, 20000, 4000)
	for k := 0; k < nsaw; k++ {
		var x, p float64
		switch k % 5 {
		case 0: // dyadic: exact
			p = []float64{0.125, 0.25, 0.5, 1, 2, 4, 8}[rng.Intn(7)] // power of two: x/period is exact
			x = rng.Dyadic(64, 4)
		case 1: // multiples and half multiples of the period (the jump)
			p = geos[rng.Intn(len(geos))].pitch
			x = p * float64(rng.Range(-40, 40)) / 2
		case 2:
			p = geos[rng.Intn(len(geos))].pitch
			x = rng.Uniform(-50, 50) * p
		case 3:
			p = rng.Uniform(1e-3, 10)
			x = rng.Uniform(-1e3, 1e3)
		default: // next to the jump
			p = geos[rng.Intn(len(geos))].pitch
			x = math.Nextafter(p*(float64(rng.Range(-20, 20))+0.5), math.Inf(rng.Range(0, 1)*2-1))
		}
		id++
		y := sdf.SawTooth(x, p)
		cs.Add(fmt.Sprintf("(%d%%N, %s, %s, %s)", id, CF(x), CF(p), CF(y)))
		key := fmt.Sprintf("saw:%x,%x", x, p)
		r.Case(fmt.Sprintf("sawtooth/class%d", k%5), key, true)
		eps := 1e-12 * (math.Abs(x) + p)
		if !(y >= -p/2-eps && y <= p/2+eps) {
			r.Violate(key, fmt.Sprintf("SawTooth(%v, %v) = %v is outside [-period/2, period/2]", x, p, y), []float64{x, p})
		}
		// congruent to x modulo the period
		q := (x - y) / p
		if math.Abs(q-math.Round(q)) > 1e-9*(1+math.Abs(q)) {
			r.Violate(key, fmt.Sprintf("SawTooth(%v, %v) = %v differs from x by %v periods (not an integer)", x, p, y, q), []float64{x, p})
		}
		if k%5 == 0 { // exact regime: periodic exactly
			if y2 := sdf.SawTooth(x+3*p, p); y2 != y {
				r.Violate(key, fmt.Sprintf("SawTooth(%v + 3*%v) = %v but SawTooth(%v) = %v (exact dyadic inputs)", x, p, y2, x, y), []float64{x, p})
			}
		}
	}

	// ------------------------------------------------------------ 3. the mapping, observed through a probe profile
	// Screw3D takes any SDF2 as the thread: the probe records the profile-plane point the
	// screw hands to it (no hook needed) and returns a constant.
	probeCase := func(stratum string, length, taper, pitch float64, starts int, p v3.Vec, k float64) {
		id++
		pr := &probe{c: k}
		s, err := sdf.Screw3D(pr, length, taper, pitch, starts)
		par := fmt.Sprintf("(%s,%s,%s,(%d)%%Z)", CF(length), CF(taper), CF(pitch), starts)
		key := fmt.Sprintf("probe:%x,%x,%x,%d|%s", length, taper, pitch, starts, pkey(p))
		if err != nil {
			cpb.Add(fmt.Sprintf("(%d%%N, %s, (%s,%s,%s), %s, None)", id, par, CF(p.X), CF(p.Y), CF(p.Z), CF(k)))
			r.Case("probe/"+stratum+"/rejected", key, true)
			if length > 0 && taper >= 0 && taper < math.Pi/2 && pitch > 0 {
				r.Violate(key, "Screw3D rejects valid parameters: "+err.Error(), []float64{length, taper, pitch, float64(starts)})
			}
			return
		}
		if !(length > 0 && taper >= 0 && taper < math.Pi/2 && pitch > 0) {
			r.Violate(key, "Screw3D accepts invalid parameters", []float64{length, taper, pitch, float64(starts)})
		}
		res := s.Evaluate(p)
		if pr.n != 1 {
			r.Violate(key, fmt.Sprintf("ScrewSDF3.Evaluate evaluates its profile %d times", pr.n), nil)
		}
		cpb.Add(fmt.Sprintf("(%d%%N, %s, (%s,%s,%s), %s, Some ((%s,%s),%s))", id, par, CF(p.X), CF(p.Y), CF(p.Z), CF(k),
			CF(pr.last.X), CF(pr.last.Y), CF(res)))
		r.Case("probe/"+stratum, key, true)
		if id%397 == 0 {
			r.Sample(map[string]interface{}{"kind": "probe", "length": length, "taper": taper, "pitch": pitch, "starts": starts, "p": p, "p0": pr.last, "result": res})
		}
		// direct oracles on the mapping
		if pi, le, hl, ta, ok := sdf.VerifScrewFields(s); ok {
			if pi != pitch || le != -pitch*float64(starts) || hl != length/2 || ta != taper {
				r.Violate(key, fmt.Sprintf("Screw3D fields pitch=%v lead=%v half-length=%v taper=%v for (length %v, taper %v, pitch %v, starts %d): lead must be -pitch*starts", pi, le, hl, ta, length, taper, pitch, starts), nil)
			}
		}
		if !(pr.last.X >= -pitch/2*(1+1e-12) && pr.last.X <= pitch/2*(1+1e-12)) {
			r.Violate(key, fmt.Sprintf("profile abscissa %v outside [-pitch/2, pitch/2] (pitch %v)", pr.last.X, pitch), nil)
		}
		if want := math.Max(k, math.Abs(p.Z)-length/2); res != want {
			r.Violate(key, fmt.Sprintf("Evaluate = %v, expected max(profile value %v, |z| - length/2 = %v)", res, k, math.Abs(p.Z)-length/2), nil)
		}
	}
	// corpus points first
	for _, e := range cp.Points {
		t, err := sdf.ThreadLookup(e.Thread)
		if err != nil {
			continue
		}
		L := 12 * t.Pitch
		probeCase("corpus", L, t.Taper, t.Pitch, e.Starts, v3.Vec{X: e.P[0], Y: e.P[1], Z: e.P[2]}, -1e300)
	}
	nprobeRows := TierN(c.Tier, 10, len(geos), 30)
	perm := rng.Perm(len(geos))
	// always include the tapered rows and extreme sizes
	pick := func(n int) []tgeo {
		var out []tgeo
		seen := map[string]bool{}
		add := func(g tgeo) {
			if !seen[g.name] {
				seen[g.name] = true
				out = append(out, g)
			}
		}
		var tap []tgeo
		for _, g := range geos {
			if g.taper != 0 {
				tap = append(tap, g)
			}
		}
		if len(tap) > 0 {
			add(tap[rng.Intn(len(tap))])
			add(tap[rng.Intn(len(tap))])
		}
		for _, i := range perm {
			if len(out) >= n {
				break
			}
			add(geos[i])
		}
		return out
	}
	for _, g := range pick(nprobeRows) {
		for _, starts := range []int{1, -1, 2, -2, 3, -3, 4, -4, 0} {
			L := g.pitch * float64(rng.Range(4, 20))
			hl := L / 2
			npts := TierN(c.Tier, 9, 24, 12)
			for k := 0; k < npts; k++ {
				var p v3.Vec
				st := ""
				switch k % 9 {
				case 0:
					st = "axis"
					p = v3.Vec{X: 0, Y: 0, Z: rng.Uniform(-hl, hl)}
				case 1:
					st = "negx_y+0" // theta = pi
					p = v3.Vec{X: -g.r * rng.Uniform(0.5, 1.2), Y: 0, Z: rng.Uniform(-hl, hl)}
				case 2:
					st = "negx_y-0" // theta = -pi
					p = v3.Vec{X: -g.r * rng.Uniform(0.5, 1.2), Y: math.Copysign(0, -1), Z: rng.Uniform(-hl, hl)}
				case 3:
					st = "end"
					z := hl
					if rng.Bool() {
						z = -hl
					}
					z = z + []float64{0, 1e-9 * L, -1e-9 * L, 0.01 * L, -0.01 * L}[rng.Intn(5)]
					p = cyl(g.r*rng.Uniform(0.3, 1.3), rng.Uniform(-math.Pi, math.Pi), z)
				case 4:
					st = "yaxis"
					p = v3.Vec{X: 0, Y: g.r * rng.Uniform(-1.2, 1.2), Z: rng.Uniform(-hl, hl)}
				case 5:
					st = "dyadic"
					p = v3.Vec{X: rng.Dyadic(4, 3), Y: rng.Dyadic(4, 3), Z: rng.Dyadic(4, 3)}
				case 6:
					st = "outside"
					p = cyl(g.r*rng.Uniform(1.5, 4), rng.Uniform(-math.Pi, math.Pi), rng.Uniform(-2*hl, 2*hl))
				default:
					st = "thread"
					p = cyl(g.r-g.h*rng.Uniform(-0.3, 1.2), rng.Uniform(-math.Pi, math.Pi), rng.Uniform(-hl, hl))
				}
				k0 := -1e300
				if k%3 == 1 {
					k0 = rng.Uniform(-1, 1) * g.pitch
				}
				tp := "straight"
				if g.taper != 0 {
					tp = "tapered"
				}
				probeCase(fmt.Sprintf("%s/%s/starts%+d", tp, st, starts), L, g.taper, g.pitch, starts, p, k0)
			}
		}
	}
	// constructor domain
	for _, bad := range [][3]float64{{0, 0, 1}, {-1, 0, 1}, {1, -0.1, 1}, {1, math.Pi / 2, 1}, {1, 2, 1}, {1, 0, 0}, {1, 0, -2},
		{1, math.Nextafter(math.Pi/2, 0), 1}, {1e-300, 0, 1e-300}} {
		probeCase("domain", bad[0], bad[1], bad[2], 1, v3.Vec{X: 0.3, Y: 0.2, Z: 0.1}, -1)
	}

	// ------------------------------------------------------------ 4. ISOThread profile and full screws against the model
	nfull := TierN(c.Tier, 8, 60, 16)
	for _, g := range pick(nfull) {
		for _, ext := range []bool{true, false} {
			id++
			rad := g.r
			if rng.Intn(3) == 0 { // a toleranced radius
				tol := g.pitch * []float64{0.01, 0.1, 0.5}[rng.Intn(3)]
				if ext {
					rad -= tol
				} else {
					rad += tol
				}
			}
			prof, err := sdf.ISOThread(rad, g.pitch, ext)
			if err != nil {
				r.Violate(fmt.Sprintf("iso:%s:%v", g.name, ext), "ISOThread fails: "+err.Error(), g.name)
				continue
			}
			// profile-plane points: near the outline (flank, crest, root), on the strip edges, at vertex heights
			pgm := geomOf(prof, rad, g.pitch, ext)
			var pts []string
			np := TierN(c.Tier, 28, 60, 40)
			for k := 0; k < np; k++ {
				id++
				var q v2.Vec
				switch k % 7 {
				case 0: // crest / flat level
					q = v2.Vec{X: g.pitch * rng.Uniform(-0.5, 0.5), Y: rad + g.h*rng.Uniform(-0.02, 0.16)}
				case 1: // root level
					q = v2.Vec{X: g.pitch * rng.Uniform(-0.5, 0.5), Y: rad - g.h*rng.Uniform(0.55, 0.9)}
				case 2: // exactly at vertex heights / abscissae (dyadic fractions of the pitch)
					q = v2.Vec{X: g.pitch * float64(rng.Range(-8, 8)) / 16, Y: rad - g.h*float64(rng.Range(0, 8))/8}
					if k%2 == 0 { // bit for bit level with a vertex of this profile (apex, flats, fillet facets), see levels.go
						q.Y = pgm.ys[lrng.Intn(len(pgm.ys))]
					}
				case 3: // strip edges
					x := g.pitch / 2
					if rng.Bool() {
						x = -x
					}
					q = v2.Vec{X: x, Y: rad - g.h*rng.Uniform(-0.2, 1.1)}
				case 4: // on the flank line y = r0 + h - 2h|x|/P
					x := g.pitch * rng.Uniform(-0.5, 0.5)
					y := rad - 7.0/8.0*g.h + g.h - 2*g.h*math.Abs(x)/g.pitch
					if !ext {
						y = rad + g.h/8 - 2*g.h*math.Abs(x)/g.pitch
					}
					q = v2.Vec{X: x, Y: y + g.h*[]float64{0, 1e-9, -1e-9, 0.01}[rng.Intn(4)]}
				case 5: // deep inside / axis
					q = v2.Vec{X: g.pitch * rng.Uniform(-0.5, 0.5), Y: rad * rng.Uniform(0, 0.6)}
				default: // outside
					q = v2.Vec{X: g.pitch * rng.Uniform(-0.6, 0.6), Y: rad * rng.Uniform(1.0, 1.5)}
				}
				v := prof.Evaluate(q)
				pts = append(pts, fmt.Sprintf("(%d%%N, (%s,%s), %s)", id, CF(q.X), CF(q.Y), CF(v)))
				r.Case(fmt.Sprintf("profile/ext=%v/class%d", ext, k%7), fmt.Sprintf("prof:%x,%x,%v|%x,%x", rad, g.pitch, ext, q.X, q.Y), true)
			}
			cf.Add(fmt.Sprintf("((%s,%s,%s), %s)", CF(rad), CF(g.pitch), CB(ext), CList(pts)))

			for _, starts := range []int{1, -1, 2, -3, 4} {
				if !search && c.Tier == "quick" && starts != 1 && rng.Intn(2) == 0 {
					continue
				}
				L := g.pitch * float64(rng.Range(4, 16))
				s, err := sdf.Screw3D(prof, L, g.taper, g.pitch, starts)
				if err != nil {
					r.Violate(fmt.Sprintf("screw:%s", g.name), "Screw3D fails: "+err.Error(), g.name)
					continue
				}
				var p3 []string
				n3 := TierN(c.Tier, 12, 30, 20)
				for k := 0; k < n3; k++ {
					id++
					var p v3.Vec
					switch k % 6 {
					case 0:
						p = v3.Vec{X: 0, Y: 0, Z: rng.Uniform(-L/2, L/2)}
					case 1:
						z := L / 2
						if rng.Bool() {
							z = -z
						}
						p = cyl(rad-g.h*rng.Uniform(-0.2, 1.0), rng.Uniform(-math.Pi, math.Pi), z+L*[]float64{0, 1e-6, -1e-6}[rng.Intn(3)])
					case 2:
						p = v3.Vec{X: -(rad - g.h*rng.Uniform(0, 0.8)), Y: math.Copysign(0, float64(rng.Range(0, 1))-0.5), Z: rng.Uniform(-L/2, L/2)}
					default:
						qx := g.pitch * rng.Uniform(-0.5, 0.5)
						qy := rad - g.h*rng.Uniform(-0.15, 0.95)
						p, _ = unmap(rng, g, starts, L/2, qx, qy, g.taper != 0)
					}
					v := s.Evaluate(p)
					p3 = append(p3, fmt.Sprintf("(%d%%N, (%s,%s,%s), %s)", id, CF(p.X), CF(p.Y), CF(p.Z), CF(v)))
					tp := "straight"
					if g.taper != 0 {
						tp = "tapered"
					}
					r.Case(fmt.Sprintf("screw/%s/ext=%v/starts%+d/class%d", tp, ext, starts, k%6), fmt.Sprintf("screw:%x,%x,%v,%x,%d|%s", rad, g.pitch, ext, L, starts, pkey(p)), true)
				}
				cg.Add(fmt.Sprintf("((%s,%s,%s), (%s,%s,(%d)%%Z), %s)", CF(rad), CF(g.pitch), CB(ext), CF(L), CF(g.taper), starts, CList(p3)))
			}
		}
	}

	// ------------------------------------------------------------ 5. direct oracles: helix, period, handedness
	nh := TierN(c.Tier, 14, len(geos), 40)
	for _, g := range pick(nh) {
		ext, err1 := sdf.ISOThread(g.r, g.pitch, true)
		in, err2 := sdf.ISOThread(g.r, g.pitch, false)
		if err1 != nil || err2 != nil {
			continue
		}
		scale := g.r + g.pitch
		for _, starts := range []int{1, -1, 2, -2, 3, -3, 4, -4} {
			// long enough that the end planes never decide the value at the sampled heights
			zspan := 3 * g.pitch * math.Abs(float64(starts))
			L := 2 * (zspan + 2*g.pitch*math.Abs(float64(starts)) + 2.5*g.r)
			for _, prof := range []sdf.SDF2{ext, in} {
				s, err := sdf.Screw3D(prof, L, 0, g.pitch, starts)
				if err != nil {
					continue
				}
				nq := TierN(c.Tier, 40, 200, 120)
				for k := 0; k < nq; k++ {
					rho := g.r - g.h*rng.Uniform(-0.2, 1.0)
					if k%10 == 0 {
						rho = g.r * rng.Uniform(0.01, 1.3)
					}
					th := rng.Uniform(-math.Pi, math.Pi)
					z := rng.Uniform(-zspan, zspan)
					phi := rng.Uniform(-2*math.Pi, 2*math.Pi)
					if k%7 == 0 {
						phi = math.Pi * float64(rng.Range(-4, 4)) / 2
					}
					p := cyl(rho, th, z)
					q := cyl(rho, th+phi, z+float64(starts)*g.pitch*phi/(2*math.Pi))
					a, b := s.Evaluate(p), s.Evaluate(q)
					key := fmt.Sprintf("helix:%s,%d|%s|%x", g.name, starts, pkey(p), phi)
					r.Case(fmt.Sprintf("helix/starts%+d", starts), key, true)
					if math.Abs(a-b) > 1e-9*scale {
						r.Violate(key, fmt.Sprintf("%s starts %d: Evaluate%v = %v but after the helical motion (rotate %v, advance starts*pitch*phi/2pi) Evaluate%v = %v", g.name, starts, p, a, phi, q, b),
							map[string]interface{}{"thread": g.name, "starts": starts, "p": p, "phi": phi})
					}
					// periodic in z with the pitch
					q2 := v3.Vec{X: p.X, Y: p.Y, Z: p.Z + g.pitch*float64(rng.Range(-2, 2))}
					if c2 := s.Evaluate(q2); math.Abs(a-c2) > 1e-9*scale {
						r.Violate("period:"+key, fmt.Sprintf("%s starts %d: Evaluate%v = %v but one pitch further Evaluate%v = %v", g.name, starts, p, a, q2, c2),
							map[string]interface{}{"thread": g.name, "starts": starts, "p": p})
					}
				}
			}
			// handedness: the crest of the external thread at angle phi is at height starts*pitch*phi/2pi
			s, err := sdf.Screw3D(ext, L, 0, g.pitch, starts)
			if err != nil {
				continue
			}
			for k := 0; k < TierN(c.Tier, 12, 60, 30); k++ {
				phi := rng.Uniform(-math.Pi, math.Pi) * 0.999
				zc := float64(starts) * g.pitch * phi / (2 * math.Pi)
				zc += g.pitch * float64(rng.Range(-2, 2))
				crest := cyl(g.r-0.02*g.h, phi, zc)          // just under the crest flat
				root := cyl(g.r-0.02*g.h, phi, zc+g.pitch/2) // same radius, half a pitch on: in the groove
				a, b := s.Evaluate(crest), s.Evaluate(root)
				key := fmt.Sprintf("hand:%s,%d|%x", g.name, starts, phi)
				r.Case(fmt.Sprintf("handedness/starts%+d", starts), key, true)
				if !(a < 0 && b > 0) {
					r.Violate(key, fmt.Sprintf("%s starts %d: expected the crest at angle %v at height starts*pitch*phi/2pi = %v (right-handed for starts > 0): Evaluate there = %v (must be < 0), half a pitch on = %v (must be > 0)", g.name, starts, phi, zc, a, b),
						map[string]interface{}{"thread": g.name, "starts": starts, "phi": phi})
				}
			}
		}
	}

	// ------------------------------------------------------------ 5b. taper: the cone of half-angle `taper`
	// The crest flat of a tapered external thread lies on the cone rho = r - z*tan(taper) (NPT: 1 in 32 on the
	// radius): on the crest line the value must vanish.
	taperCase := func(stratum string, g tgeo, L, z, phi float64) {
		ext, err := sdf.ISOThread(g.r, g.pitch, true)
		if err != nil {
			return
		}
		s, err := sdf.Screw3D(ext, L, g.taper, g.pitch, 1)
		if err != nil {
			return
		}
		// crest of the single-start right-handed thread at angle phi: z = pitch*phi/2pi + k*pitch; take the one nearest z
		zc := g.pitch * phi / (2 * math.Pi)
		zc += math.Round((z-zc)/g.pitch) * g.pitch
		rho := g.r - zc*math.Tan(g.taper)
		p := cyl(rho, phi, zc)
		v := s.Evaluate(p)
		key := fmt.Sprintf("taper:%s|%x,%x,%x", g.name, L, z, phi)
		r.Case(stratum, key, true)
		if math.Abs(v) > 1e-9*(g.r+g.pitch) {
			r.Violate(key, fmt.Sprintf("%s, taper angle %v (tan = %v): the crest at height %v must lie on the cone rho = r - z*tan(taper) = %v, but Evaluate there = %v (the thread radius does not change by tan(taper) per unit length)", g.name, g.taper, math.Tan(g.taper), zc, rho, v),
				map[string]interface{}{"thread": g.name, "length": L, "z": z, "phi": phi})
		}
	}
	for _, e := range cp.Taper {
		if t, err := sdf.ThreadLookup(e.Thread); err == nil {
			taperCase("taper/corpus", geo(t), e.Length, e.Z, e.Phi)
		}
	}
	for _, g := range geos {
		if g.taper == 0 {
			continue
		}
		for k := 0; k < TierN(c.Tier, 6, 40, 12); k++ {
			L := g.pitch * float64(rng.Range(6, 24))
			taperCase("taper/npt", g, L, rng.Uniform(-0.45, 0.45)*L, rng.Uniform(-math.Pi, math.Pi)*0.999)
		}
	}

	// ------------------------------------------------------------ 5c. the profile itself, level with its vertices
	// Every row x the radii the mating strata use (external radius - tol, internal radius + tol): the 2D profile on a sparse
	// grid of (vertex ordinates, +-1 ulp, quadtree cut ordinates) x (vertex abscissae, midpoints, cuts, beyond both ends)
	// and transposed, sign judged by the exact crossing number, magnitude by the distance to the segments (levels.go).
	prof2d := func(stratum string, radius, pitch float64, ext bool, pts []v2.Vec, perLevel int) {
		prof, err := sdf.ISOThread(radius, pitch, ext)
		if err != nil {
			return
		}
		pg := geomOf(prof, radius, pitch, ext)
		for _, q := range pts {
			if !judge2D(r, stratum, prof, pg, q, radius+pitch) {
				return
			}
		}
		if perLevel > 0 {
			levels2D(r, lrng, stratum, prof, pg, perLevel)
		}
	}
	for _, e := range cp.Profile2D {
		prof2d("profile2d/corpus", e.Radius, e.Pitch, e.External, []v2.Vec{{X: e.Q[0], Y: e.Q[1]}}, 0)
	}
	for _, g := range geos {
		for ti, tol := range []float64{0, 0.01 * g.pitch, 0.25 * g.pitch, g.pitch} {
			tolE := math.Min(tol, 0.5*(g.r-g.h))
			prof2d(fmt.Sprintf("profile2d/ext/tol%d", ti), g.r-tolE, g.pitch, true, nil, TierN(c.Tier, 6, 16, 10))
			prof2d(fmt.Sprintf("profile2d/int/tol%d", ti), g.r+tol, g.pitch, false, nil, TierN(c.Tier, 6, 16, 10))
		}
	}

	// ------------------------------------------------------------ 6. mating
	// Every point goes through (a) the mating oracle and (b) the sign oracle of levels.go: the sign of each of the two
	// screws against the exact crossing number of the profile-plane point the screw maps the point to (recorded by a
	// probe screw with the same mapping).  levelReps > 0 adds the points whose distance from the axis is bit for bit
	// an ordinate of a vertex of either profile (and one ulp either side), levelReps placements each.
	levelHits := map[string]int{}
	mate := func(stratum string, g tgeo, tolE, tolI float64, starts int, pts []v3.Vec, npts int, levelReps int) {
		re, ri := g.r-tolE, g.r+tolI
		pe, err1 := sdf.ISOThread(re, g.pitch, true)
		pi, err2 := sdf.ISOThread(ri, g.pitch, false)
		if err1 != nil || err2 != nil {
			return
		}
		L := g.pitch * 8
		se, err1 := sdf.Screw3D(pe, 2*L, g.taper, g.pitch, starts) // the bolt thread is longer than the nut
		si, err2 := sdf.Screw3D(pi, L, g.taper, g.pitch, starts)
		body, err3 := sdf.Cylinder3D(L, 2.5*g.r, 0)
		if err1 != nil || err2 != nil || err3 != nil {
			return
		}
		nut := sdf.Difference3D(body, si)
		scale := g.r + g.pitch
		delta := 1e-9 * scale
		worst := math.Inf(-1)
		ge, gi := geomOf(pe, re, g.pitch, true), geomOf(pi, ri, g.pitch, false)
		levelHits["spec-from-"+ge.specFrom]++
		levelHits["spec-from-"+gi.specFrom]++
		pr := &probe{}
		ps, errp := sdf.Screw3D(pr, L, g.taper, g.pitch, starts) // the mapping of se and si (the length does not enter it)
		var lv []levelPt
		if levelReps > 0 {
			lv = levelPoints3D(lrng, ge, gi, g.taper, g.pitch, 0.45*L, levelReps)
		}
		for k := 0; k < npts+len(pts)+len(lv); k++ {
			var p v3.Vec
			st := stratum
			var lp *levelPt
			if k < len(pts) {
				p = pts[k]
			} else if k < len(pts)+npts {
				// profile-plane point near the common outline, mapped back onto the helix
				qx := g.pitch * rng.Uniform(-0.5, 0.5)
				if k%5 == 0 {
					qx = g.pitch * float64(rng.Range(-8, 8)) / 16
				}
				qy := g.r + tolI - g.h*rng.Uniform(-0.2, 1.0)
				if k%3 == 0 { // on the flank of the external thread
					qy = re + g.h/8 - 2*g.h*math.Abs(qx)/g.pitch + g.h*rng.Uniform(-0.01, 0.01)
				}
				p, _ = unmap(rng, g, starts, L/2, qx, qy, g.taper != 0)
			} else {
				lp = &lv[k-len(pts)-npts]
				p = lp.p
			}
			var p0 v2.Vec
			if errp == nil {
				ps.Evaluate(p)
				p0 = pr.last
			}
			if lp != nil {
				hit := "near"
				if errp == nil && p0.Y == lp.level {
					hit = "exact"
				}
				st = stratum + "/" + lp.class + "/" + hit
				levelHits["3d-"+hit]++
			}
			a, b := se.Evaluate(p), nut.Evaluate(p)
			key := fmt.Sprintf("mate:%s,%x,%x,%d|%s", g.name, tolE, tolI, starts, pkey(p))
			r.Case(st, key, true)
			if m := math.Min(-a, -b); m > worst {
				worst = m
			}
			in := mateCase{Thread: g.name, TolExt: tolE, TolInt: tolI, Starts: starts, P: [3]float64{p.X, p.Y, p.Z}}
			if a < -delta && b < -delta {
				r.Violate(key, fmt.Sprintf("%s (external radius -%v, internal radius +%v, starts %d): the point %v (distance from the axis %v) is %v inside the external thread and %v inside the material of the nut", g.name, tolE, tolI, starts, p, math.Sqrt(p.X*p.X+p.Y*p.Y), -a, -b), in)
				return
			}
			if errp == nil {
				who := fmt.Sprintf("%s (external radius -%v, internal radius +%v, starts %d)", g.name, tolE, tolI, starts)
				if !signOracle(r, key, who, se, ge, p, p0, L, scale, in) || !signOracle(r, key, who, si, gi, p, p0, L/2, scale, in) {
					return
				}
			}
		}
		if id%5 == 0 {
			r.Sample(map[string]interface{}{"kind": "mating", "thread": g.name, "tol_ext": tolE, "tol_int": tolI, "starts": starts, "deepest_common_penetration": worst})
		}
	}
	for _, e := range cp.Mating {
		t, err := sdf.ThreadLookup(e.Thread)
		if err != nil {
			continue
		}
		mate("mating/corpus", geo(t), e.TolExt, e.TolInt, e.Starts, []v3.Vec{{X: e.P[0], Y: e.P[1], Z: e.P[2]}}, 0, 0)
	}
	nm := TierN(c.Tier, 120, 2000, 400)
	lreps := TierN(c.Tier, 3, 8, 5) // placements per (vertex ordinate, -1/0/+1 ulp)
	for _, g := range geos {        // every row
		tols := []float64{0, 0.01 * g.pitch, 0.25 * g.pitch, g.pitch}
		for ti, tol := range tols {
			tolE := tol
			if lim := 0.5 * (g.r - g.h); tolE > lim { // keep the external core radius positive
				tolE = lim
			}
			starts := []int{1, 1, -1, 2}[ti]
			if search {
				starts = []int{1, -1, 2, -2, 3, 4}[rng.Intn(6)]
			}
			tp := "straight"
			if g.taper != 0 {
				tp = "tapered"
			}
			mate(fmt.Sprintf("mating/%s/tol%d", tp, ti), g, tolE, tol, starts, nil, nm, lreps)
			if ti == 1 { // tolerance on one side only
				mate(fmt.Sprintf("mating/%s/ext-only", tp), g, tolE, 0, 1, nil, nm/2, 1)
				mate(fmt.Sprintf("mating/%s/int-only", tp), g, 0, tol, 1, nil, nm/2, 1)
			}
		}
	}

	r.Coverage["vertex_levels"] = levelHits

	// ------------------------------------------------------------ 7. obj.Bolt / obj.Nut
	// tol: the bolt's tolerance, tolN: the nut's (the two generators take them independently)
	boltnut := func(stratum string, g tgeo, tol, tolN float64, n int, pts []v3.Vec, npts int) {
		t, err := sdf.ThreadLookup(g.name)
		if err != nil {
			return
		}
		nhh := t.HexHeight()
		total := 3*nhh + 6*g.pitch
		bolt, err1 := obj.Bolt(&obj.BoltParms{Thread: g.name, Style: "hex", Tolerance: tol, TotalLength: total, ShankLength: 0})
		nut, err2 := obj.Nut(&obj.NutParms{Thread: g.name, Style: "hex", Tolerance: tolN})
		if err1 != nil || err2 != nil {
			r.Violate("boltnut:"+g.name, fmt.Sprintf("obj.Bolt/obj.Nut fail for %s: %v %v", g.name, err1, err2), g.name)
			return
		}
		shank := 0 + nhh/2
		threadOffset := total/2 + shank
		z0 := threadOffset + float64(n)*g.pitch
		placed := sdf.Transform3D(nut, sdf.Translate3d(v3.Vec{X: 0, Y: 0, Z: z0}))
		scale := g.r + g.pitch
		delta := 1e-9 * scale
		// points of the nut whose distance from the axis is bit for bit an ordinate of a vertex of the bolt's / the nut's
		// thread profile (levels.go; the profiles rebuilt with the arguments obj.Bolt / obj.Nut use), one ulp either side too
		var lv []levelPt
		if npts > 0 {
			pe, err1 := sdf.ISOThread(t.Radius-tol, t.Pitch, true)
			pi, err2 := sdf.ISOThread(t.Radius+tolN, t.Pitch, false)
			if err1 == nil && err2 == nil {
				lv = levelPoints3D(lrng, geomOf(pe, t.Radius-tol, t.Pitch, true), geomOf(pi, t.Radius+tolN, t.Pitch, false), 0, t.Pitch, 0.45*nhh, 1)
				for i := range lv {
					// the bolt's thread is centred at threadOffset, the nut at z0; tapered: aim at the bolt's cone
					zl := lv[i].p.Z + float64(n)*g.pitch
					q := levelPoint(lrng, lv[i].level, g.taper, zl, 6)
					if g.taper == 0 {
						q = lv[i].p
					}
					lv[i].p = v3.Vec{X: q.X, Y: q.Y, Z: threadOffset + zl}
				}
			}
		}
		for k := 0; k < npts+len(pts)+len(lv); k++ {
			var p v3.Vec
			st := stratum
			if k < len(pts) {
				p = pts[k]
			} else if k >= len(pts)+npts {
				p = lv[k-len(pts)-npts].p
				st = stratum + "/" + lv[k-len(pts)-npts].class
			} else {
				rho := g.r + math.Max(tol, tolN) - g.h*rng.Uniform(-0.3, 1.0)
				switch k % 6 {
				case 0:
					rho = g.r * rng.Uniform(0, 2.5)
				case 1: // next to the axis
					rho = g.r * rng.Uniform(0, 0.05)
				}
				p = cyl(rho, rng.Uniform(-math.Pi, math.Pi), z0+rng.Uniform(-0.6, 0.6)*nhh)
			}
			a, b := bolt.Evaluate(p), placed.Evaluate(p)
			key := fmt.Sprintf("boltnut:%s,%x,%d|%s", g.name, tol, n, pkey(p))
			if tolN != tol {
				key = fmt.Sprintf("boltnut:%s,%x/%x,%d|%s", g.name, tol, tolN, n, pkey(p))
			}
			r.Case(st, key, true)
			if a < -delta && b < -delta {
				r.Violate(key, fmt.Sprintf("obj.Bolt and obj.Nut for %s (bolt tolerance %v, nut tolerance %v, nut %d pitches from the middle of the thread): the point %v (distance from the axis %v) is %v inside the bolt and %v inside the nut", g.name, tol, tolN, n, p, math.Sqrt(p.X*p.X+p.Y*p.Y), -a, -b),
					map[string]interface{}{"thread": g.name, "tol": tol, "tol_nut": tolN, "shift": n, "p": []float64{p.X, p.Y, p.Z}})
				return
			}
		}
	}
	for _, e := range cp.BoltNut {
		if t, err := sdf.ThreadLookup(e.Thread); err == nil {
			tn := e.Tol
			if e.TolNut != nil {
				tn = *e.TolNut
			}
			boltnut("boltnut/corpus", geo(t), e.Tol, tn, e.Shift, []v3.Vec{{X: e.P[0], Y: e.P[1], Z: e.P[2]}}, 0)
		}
	}
	nb := TierN(c.Tier, 10, len(geos), 24)
	for _, g := range pick(nb) {
		for _, tol := range []float64{0, 0.02 * g.pitch, 0.3 * g.pitch} {
			// whole pitches along the thread (single start: same phase); tapered: not towards the thick end
			shifts := []int{0, 1, 2}
			tp := "tapered"
			if g.taper == 0 {
				shifts = []int{0, -2, 3}
				tp = "straight"
			}
			for _, n := range shifts {
				boltnut("boltnut/"+tp, g, tol, tol, n, nil, TierN(c.Tier, 150, 1500, 500))
			}
			if tol > 0 {
				// the two generators take their tolerance independently: only one of them loosened
				boltnut("boltnut/"+tp+"/bolt-only", g, tol, 0, shifts[0], nil, TierN(c.Tier, 150, 1500, 500))
				boltnut("boltnut/"+tp+"/nut-only", g, 0, tol, shifts[0], nil, TierN(c.Tier, 150, 1500, 500))
			}
		}
	}

	// ------------------------------------------------------------ 8. histories: the generators are read-only on the database
	// Every generator of package obj that does a ThreadLookup (ThreadedCylinderParms.Object, Nut, Bolt) is called,
	// several rounds, with assorted designations (metric, unified, pipe) and tolerances > 0.  After EVERY call every
	// database key must still be bit-identical (entry, hex sizes, ToMillimetre of it) to the snapshot taken before any
	// generator ran; afterwards the whole database goes through the `db` correspondence again (cases_dbafter).
	sameBits := func(a, b sdf.ThreadParameters) bool {
		return a.Name == b.Name && a.Units == b.Units &&
			math.Float64bits(a.Radius) == math.Float64bits(b.Radius) && math.Float64bits(a.Pitch) == math.Float64bits(b.Pitch) &&
			math.Float64bits(a.Taper) == math.Float64bits(b.Taper) && math.Float64bits(a.HexFlat2Flat) == math.Float64bits(b.HexFlat2Flat)
	}
	drifted := map[string]bool{}
	dbUnchanged := func(stratum string, hist []genCall) {
		for _, n := range names {
			if drifted[n] {
				continue
			}
			t, err := sdf.ThreadLookup(n)
			if err != nil {
				continue
			}
			want, wantMM := snap[n], snapMM[n]
			got, gotMM := *t, *t.ToMillimetre()
			if sameBits(got, want) && sameBits(gotMM, wantMM) && sameBits(*gotMM.ToMillimetre(), wantMM) &&
				math.Float64bits(t.HexRadius()) == math.Float64bits(want.HexRadius()) && math.Float64bits(t.HexHeight()) == math.Float64bits(want.HexHeight()) {
				continue
			}
			drifted[n] = true
			last := hist[len(hist)-1]
			r.Violate(fmt.Sprintf("history:%s:%s:%s", last.Gen, last.Thread, n),
				fmt.Sprintf("after %d generator call(s), the last one obj %s(thread %q, style %q, tolerance %v), the thread database entry %q is no longer what it was before any generator ran: radius %v pitch %v taper %v hex %v units %q (ToMillimetre: radius %v pitch %v), fresh database: radius %v pitch %v taper %v hex %v units %q (ToMillimetre: radius %v pitch %v) - the designation no longer matches its stored radius/pitch",
					len(hist), last.Gen, last.Thread, last.Style, last.Tol, n, got.Radius, got.Pitch, got.Taper, got.HexFlat2Flat, got.Units, gotMM.Radius, gotMM.Pitch,
					want.Radius, want.Pitch, want.Taper, want.HexFlat2Flat, want.Units, wantMM.Radius, wantMM.Pitch),
				map[string]interface{}{"history": append([]genCall(nil), hist...), "changed": n})
		}
	}
	runCall := func(gc genCall) {
		t, ok := snapMM[gc.Thread] // sizes from the snapshot, so a drifting database cannot change the arguments
		if !ok {
			return
		}
		var err error
		switch gc.Gen {
		case "cylinder":
			_, err = (&obj.ThreadedCylinderParms{Height: 6 * t.Pitch, Diameter: 4*t.Radius + 8*gc.Tol, Thread: gc.Thread, Tolerance: gc.Tol}).Object()
		case "nut":
			_, err = obj.Nut(&obj.NutParms{Thread: gc.Thread, Style: gc.Style, Tolerance: gc.Tol})
		case "bolt":
			u := snap[gc.Thread]
			_, err = obj.Bolt(&obj.BoltParms{Thread: gc.Thread, Style: gc.Style, Tolerance: gc.Tol, TotalLength: 12 * u.Pitch, ShankLength: 2 * u.Pitch})
		default:
			return
		}
		if err != nil {
			r.Violate(fmt.Sprintf("history:error:%s:%s", gc.Gen, gc.Thread), fmt.Sprintf("obj %s(thread %q, style %q, tolerance %v) fails: %v", gc.Gen, gc.Thread, gc.Style, gc.Tol, err), gc)
		}
	}
	history := func(stratum string, calls []genCall) {
		var hist []genCall
		for _, gc := range calls {
			runCall(gc)
			hist = append(hist, gc)
			r.Case(fmt.Sprintf("history/%s/%s/%s", stratum, gc.Gen, snap[gc.Thread].Units), fmt.Sprintf("hist:%s,%s,%s,%x#%d", gc.Gen, gc.Thread, gc.Style, gc.Tol, len(hist)), gc.Tol > 0)
			dbUnchanged(stratum, hist)
		}
	}
	for _, h := range cp.Histories {
		history("corpus", h)
	}
	{
		var calls []genCall
		rounds := TierN(c.Tier, 3, 8, 4)
		hgeos := pick(TierN(c.Tier, 14, len(geos), 30))
		for round := 0; round < rounds; round++ {
			for _, g := range hgeos {
				// tolerance in the unit of the designation, > 0 except in one round out of four
				tol := g.pitch * []float64{0.02, 0.1, 0.25}[rng.Intn(3)]
				if (round+len(calls))%4 == 3 {
					tol = 0
				}
				style := []string{"hex", "knurl"}[rng.Intn(2)]
				for _, gen := range []string{"cylinder", "nut", "bolt"} {
					gt := tol
					if gen == "cylinder" && g.units == "inch" {
						gt = tol * 25.4 // ThreadedCylinder works in millimetres
					}
					calls = append(calls, genCall{Gen: gen, Thread: g.name, Style: style, Tol: gt})
				}
			}
		}
		// shuffle so that generators and designations interleave
		for i, j := range rng.Perm(len(calls)) {
			if i < j {
				calls[i], calls[j] = calls[j], calls[i]
			}
		}
		history("random", calls)
		r.Sample(map[string]interface{}{"kind": "history", "calls": len(calls), "first": calls[0], "database_entries_changed": len(drifted)})
	}
	// ------------------------------------------------------------ 9. conversion histories (convhist.go)
	// lookup / new / copy by value / ToMillimetre / edit of the RETURNED or of the converted struct, interleaved over
	// several entries; every live value against a value model after every step, conversions against a brand-new
	// struct converted once and against the snapshot of the fresh database.
	{
		dbPtr := map[*sdf.ThreadParameters]bool{}
		var inchN, mmN []string
		for _, n := range names {
			t, err := sdf.ThreadLookup(n)
			if err != nil {
				continue
			}
			dbPtr[t] = true
			if u, ok := snap[n]; ok {
				if u.Units == "mm" {
					mmN = append(mmN, n)
				} else {
					inchN = append(inchN, n)
				}
			}
		}
		sort.Strings(inchN)
		sort.Strings(mmN)
		if nm := TierN(c.Tier, 12, len(mmN), 30); nm < len(mmN) {
			var sel []string
			for _, i := range rng.Perm(len(mmN))[:nm] {
				sel = append(sel, mmN[i])
			}
			sort.Strings(sel)
			mmN = sel
		}
		nviol := 0
		for hid, h := range cp.Conversions {
			if runConvHistory(r, "corpus", hid, h, snap, dbPtr) {
				nviol++
			}
		}
		hs := convHistories(rng, inchN, mmN, snap, TierN(c.Tier, 300, 5000, 1500))
		// a history that failed may have left state behind in the entries it looked up (that is what such a defect
		// does): later histories over the same entries would fail with an input that does not reproduce on its own
		poisoned := map[string]bool{}
		perStratum := map[string]int{} // one report per kind of history
		for hid, h := range hs {
			if nviol >= 6 {
				break // one defect fails many histories: a few reports are enough
			}
			skip := false
			for _, op := range h.ops {
				skip = skip || (op.Op == "lookup" && poisoned[op.Name])
			}
			if skip || perStratum[h.stratum] >= 1 {
				continue
			}
			if runConvHistory(r, h.stratum, hid, h.ops, snap, dbPtr) {
				nviol++
				perStratum[h.stratum]++
				for _, op := range h.ops {
					if op.Op == "lookup" {
						poisoned[op.Name] = true
					}
				}
			}
		}
		r.Coverage["conversion_histories"] = len(hs) + len(cp.Conversions)
	}
	// the database after the histories, through the same correspondence as the fresh one
	cda := &Cases{Kind: "dbafter", Imports: imp, Type: "cased", Fn: "mismatchesd", InfoFn: "uncovered", PerShard: 1000}
	for _, n := range names {
		t, err := sdf.ThreadLookup(n)
		if err != nil {
			continue
		}
		id++
		m := t.ToMillimetre()
		cda.Add(fmt.Sprintf("(%d%%N, %s, (%s,%s,%s,%s), %s, (%s,%s,%s,%s), %s)", id, strconv.Quote(n),
			CF(t.Radius), CF(t.Pitch), CF(t.Taper), CF(t.HexFlat2Flat), strconv.Quote(t.Units),
			CF(m.Radius), CF(m.Pitch), CF(m.Taper), CF(m.HexFlat2Flat), strconv.Quote(m.Units)))
		r.Case("dbafter/"+t.Units, "dbafter:"+n, true)
	}

	// the model's smoothed vertex lists against the closed-form outlines, for every row and toleranced radii
	for _, g := range geos {
		for _, dr := range []float64{0, -0.1 * g.pitch, 0.37 * g.pitch} {
			id++
			cv.Add(fmt.Sprintf("(%d%%N, %s, %s)", id, CF(g.r+dr), CF(g.pitch)))
			r.Case("vertices", fmt.Sprintf("vert:%x,%x", g.r+dr, g.pitch), true)
		}
	}
	for _, x := range []*Cases{cd, cpb, cs, cf, cg, cv, cda} {
		if err := x.Write(c.Out); err != nil {
			return err
		}
	}
	var sn []string
	for _, g := range geos {
		sn = append(sn, g.name)
	}
	sort.Strings(sn)
	r.Coverage["database_rows"] = len(rows)
	r.Coverage["database_keys"] = len(names)
	r.Rule = "every database key (ThreadLookup, ToMillimetre) bit-exact against the row regenerated from the source and against the designation (M<d>x<P> parsed; ASME B1.1 / B1.20.1 reference tables); SawTooth on dyadic / multiple-of-period / next-to-the-jump / random arguments; the helical mapping observed through a recording probe profile (on the axis, theta = +-pi, end planes, dyadic, far outside, thread zone; starts 0, +-1..+-4; straight and NPT-tapered; invalid constructor arguments); ISOThread profile and full Screw3D values near flanks / crests / roots / strip edges against the Gallina model; helix invariance, z-periodicity, handedness on long screws; mating of external radius-tol against the nut material of internal radius+tol for every row x tolerances {0, 1%, 25%, 100% of the pitch}; obj.Bolt against obj.Nut placed whole pitches along the thread; VERTEX LEVELS (levels.go): for every row x tolerance, 3D points whose distance from the axis (tapered: rho + z tan taper) is BIT FOR BIT the ordinate of a vertex of the external or the internal profile polygon (apex = BoundingBox().Max.Y, crest flat, fillet facets, bore; the vertex list rebuilt through the public Polygon API and cross-checked with the quadtree pieces) or of a cut / box centre of its quadtree, and one ulp either side - on the coordinate axes (theta = 0, -0, +-pi/2, pi, -pi), in generic directions (x, y searched so that sqrt(x*x+y*y) rounds to the value), at heights that put the profile abscissa on a vertex abscissa, exactness verified through the recording probe - through the mating oracle and through obj.Bolt / obj.Nut; every mating point additionally through the SIGN oracle (sign of each screw = exact rational crossing number of the recorded profile-plane point, guard 1e-9*(radius+pitch) around the outline); the 2D profiles themselves on the sparse grid (vertex ordinates +-1 ulp, cut ordinates) x (vertex abscissae, midpoints, cuts, beyond both ends) and transposed, sign by the exact crossing number, magnitude by the distance to the segments; HISTORIES: interleaved calls of every obj generator that looks a thread up (ThreadedCylinder, Nut, Bolt; hex/knurl; metric, unified, pipe designations; tolerances > 0 and 0; several rounds), after every call every database key bit-identical (entry, hex sizes, ToMillimetre, ToMillimetre twice) to the snapshot of the fresh database, and the database after the histories through the db correspondence again; CONVERSION HISTORIES (convhist.go): programs of lookup / new struct / copy by value / ToMillimetre / edit of a field (radius, pitch, taper, hex, name, units) of the RETURNED struct, of a copy or of a user struct, over one to three entries (every inch entry, a sample of metric ones, user-defined threads, structs sharing a name) - fixed templates (adjust the returned struct and convert the original and the returned again; copy after a conversion, edit, convert; edit in place between conversions; alternate two entries) and random programs; after every step every live value bit for bit against a value model with no sharing except a millimetre receiver returned as it is, every conversion against lengths * 25.4 and against a brand-new struct with the same exported fields converted once, every database entry looked up against the fresh snapshot. non-trivial = every case; distinct by exact input bits."
	r.Trusted = append(r.Trusted,
		"translator harness/threadgen (go/parser + go/constant, symbolic execution of loop-free Go: helpers followed, locals / keyed literals / named constants / table-driven loops normalised away): rows and the Add/ToMillimetre bodies of sdf/screw.go -> coq/Generated/Threads.v; SawTooth, DtoR, Screw3D, ScrewSDF3.Evaluate, ISOThread -> coq/Generated/ThreadExpr.v, proved equal to the hand model for all real arguments (Sdf/ScrewEq.v: by conversion, else by real arithmetic); the construction of obj.Nut / obj.Bolt -> coq/Generated/ObjThread.v (calls returning (shape, error) taken to succeed) - all on every run",
		"hand model coq/Sdf/Screw.v: SawTooth, Screw3D, ScrewSDF3.Evaluate, ISOThread vertex list are the translated source (theorems) AND run against the implementation at FOps (mapping bit-exact); Polygon smoothing (sdf/poly.go), the exhaustive polygon distance (sdf/mesh2.go) and pvn/pvs (Polygon.Add / Smooth) stay tied by differential execution only: profile/screw values within 1e-10*(radius+pitch) because Polygon2D walks a quadtree of clipped segments",
		"Coq port of Go math (coq/Num/GoMath.v): sqrt, atan, atan2, tan, sin, cos, acos, floor, max",
		"reference tables ASME B1.1 (UNC/UNF) and B1.20.1 (NPT) typed in coq/Sdf/ThreadDB.v and in the harness",
		"vertex-level strata (harness/cmd/c18/levels.go): the outline the exact crossing number is taken of is ISOThread's vertex list rebuilt in the harness through sdf.NewPolygon / Add / Smooth / Vertices (used when every vertex is found bit for bit among the quadtree pieces of the profile, hook VerifQtDump), otherwise the pieces themselves; the profile-plane point of a 3D point is the one recorded by a probe screw with the same pitch / taper / starts (mapping tied by translation and bit-exact cases)")
	r.Assumptions = append(r.Assumptions,
		"the 2D profile SDF is negative exactly inside its polygon (C04's subject); mating is proved for the polygons",
		"mating and helix theorems are over the reals; with tolerance 0 the flanks coincide and float64 rounding can make them interpenetrate by ~1e-16*size - measured against delta = 1e-9*(radius+pitch), not proved",
		"bolt and nut share the axis and the thread phase (nut displaced by whole pitches; tapered threads not towards the thick end)",
		"obj-level mating theorem (C18_obj_nut_bolt_mate): HexHead3D / KnurledHead3D / Cylinder3D / ChamferedCylinder are opaque; assumed: the nut body lies between the planes z = +-height/2 (second argument), ChamferedCylinder(s, ..) is contained in s (it returns Intersect3D(s, cc)); both sampled by the bolt/nut oracle of this run")
	return nil
}
