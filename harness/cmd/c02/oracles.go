package main

// Direct metamorphic oracles on the implementation: the parent's Evaluate against the named
// operation applied to the children's Evaluate.

import (
	"fmt"
	"math"
	"strconv"
	"strings"

	"github.com/deadsy/sdfx/sdf"
	v2 "github.com/deadsy/sdfx/vec/v2"
	"github.com/deadsy/sdfx/vec/v2i"
	v3 "github.com/deadsy/sdfx/vec/v3"
	"github.com/deadsy/sdfx/vec/v3i"
	"verifharness/shapes"
)

// ---------------------------------------------------------------- parameters of a node

type params struct {
	kind  string
	blend string  // MinDef, MinPoly, MinRound, MinChamfer, MaxDef, MaxPoly ("" if the node has none)
	bk    float64 // blend radius
	fs    []float64
	is    []int
}

// parseNode recovers constructor name, blend and numeric parameters of a node from the Coq term the
// generator emitted for it (floats are exact hex literals), after cutting out the operand subterms.
func parseNode(coq string, kidCoqs []string) (params, error) {
	rest, from := coq, 0
	for _, k := range kidCoqs {
		i := strings.Index(rest[from:], k)
		if i < 0 {
			return params{}, fmt.Errorf("operand term not found in %q", coq)
		}
		i += from
		rest = rest[:i] + " " + rest[i+len(k):]
		from = i
	}
	rest = strings.ReplaceAll(rest, ")%float", "%float ")
	rest = strings.ReplaceAll(rest, "(-0x", " -0x")
	rest = strings.NewReplacer("(", " ", ")", " ", "[", " ", "]", " ", ";", " ").Replace(rest)
	var p params
	wantK := false
	for _, t := range strings.Fields(rest) {
		switch {
		case strings.HasSuffix(t, "%float"):
			x, err := strconv.ParseFloat(strings.TrimSuffix(t, "%float"), 64)
			if err != nil {
				return p, fmt.Errorf("bad float %q in %q", t, coq)
			}
			if wantK {
				p.bk, wantK = x, false
			} else {
				p.fs = append(p.fs, x)
			}
		case t == "fv2" || t == "fv3":
		case strings.HasPrefix(t, "Min") || strings.HasPrefix(t, "Max"):
			p.blend = t
			wantK = !strings.HasSuffix(t, "Def")
		default:
			if n, err := strconv.Atoi(t); err == nil {
				p.is = append(p.is, n)
			} else if p.kind == "" {
				p.kind = t
			} else {
				return p, fmt.Errorf("unexpected token %q in %q", t, coq)
			}
		}
	}
	return p, nil
}

func ev2(k interface{}, p v2.Vec) float64 { return k.(*shapes.N2).Go.Evaluate(p) }
func ev3(k interface{}, p v3.Vec) float64 { return k.(*shapes.N3).Go.Evaluate(p) }

func sameBits(a, b float64) bool {
	return math.Float64bits(a) == math.Float64bits(b) || (math.IsNaN(a) && math.IsNaN(b)) || a == b
}

// ---------------------------------------------------------------- tree walk

func (h *harness) walk(t interface{}, depth int) {
	switch n := t.(type) {
	case *shapes.N2:
		if len(n.Kids) == 0 {
			return
		}
		h.node2(n)
		for _, k := range n.Kids {
			h.walk(k, depth+1)
		}
	case *shapes.N3:
		if len(n.Kids) == 0 {
			return
		}
		h.node3(n)
		for _, k := range n.Kids {
			h.walk(k, depth+1)
		}
	}
}

func kidCoqs(kids []interface{}) []string {
	var out []string
	for _, k := range kids {
		switch n := k.(type) {
		case *shapes.N2:
			out = append(out, n.Coq)
		case *shapes.N3:
			out = append(out, n.Coq)
		}
	}
	return out
}
func nontrivialKids(kids []interface{}) bool {
	for _, k := range kids {
		switch n := k.(type) {
		case *shapes.N2:
			if len(n.Kids) > 0 {
				return true
			}
		case *shapes.N3:
			if len(n.Kids) > 0 {
				return true
			}
		}
	}
	return false
}

type viol struct {
	h    *harness
	kind string
	desc string
	coq  string
}

func (v viol) at(p interface{}, what string) {
	var ps string
	switch q := p.(type) {
	case v2.Vec:
		ps = hx(q.X, q.Y)
	case v3.Vec:
		ps = hx(q.X, q.Y, q.Z)
	}
	v.h.r.Violate(fmt.Sprintf("%s:%s@%s", v.kind, v.desc, ps), what, map[string]interface{}{"tree": v.desc, "coq": v.coq, "point": p})
}

func (h *harness) pts3(s sdf.SDF3, n int) []v3.Vec {
	bb := s.BoundingBox()
	c, sz := bb.Center(), bb.Size()
	if !(sz.MaxComponent() < 1e6) || math.IsNaN(c.X+c.Y+c.Z) {
		c, sz = v3.Vec{}, v3.Vec{X: 4, Y: 4, Z: 4}
	}
	out := make([]v3.Vec, n)
	for i := range out {
		out[i] = v3.Vec{X: c.X + h.rng.Uniform(-1, 1)*(0.65*sz.X+0.1), Y: c.Y + h.rng.Uniform(-1, 1)*(0.65*sz.Y+0.1), Z: c.Z + h.rng.Uniform(-1, 1)*(0.65*sz.Z+0.1)}
	}
	return out
}
func (h *harness) pts2(s sdf.SDF2, n int) []v2.Vec {
	bb := s.BoundingBox()
	c, sz := bb.Center(), bb.Size()
	if !(sz.MaxComponent() < 1e6) || math.IsNaN(c.X+c.Y) {
		c, sz = v2.Vec{}, v2.Vec{X: 4, Y: 4}
	}
	out := make([]v2.Vec, n)
	for i := range out {
		out[i] = v2.Vec{X: c.X + h.rng.Uniform(-1, 1)*(0.65*sz.X+0.1), Y: c.Y + h.rng.Uniform(-1, 1)*(0.65*sz.Y+0.1)}
	}
	return out
}

const npts = 6

func (h *harness) node3(n *shapes.N3) {
	pr, err := parseNode(n.Coq, kidCoqs(n.Kids))
	if err != nil {
		h.r.Violate("harness:parse", err.Error(), nil)
		return
	}
	h.oracle3(pr, n.Go, n.Kids, n.Desc, n.Coq, "tree")
}
func (h *harness) node2(n *shapes.N2) {
	pr, err := parseNode(n.Coq, kidCoqs(n.Kids))
	if err != nil {
		h.r.Violate("harness:parse", err.Error(), nil)
		return
	}
	h.oracle2(pr, n.Go, n.Kids, n.Desc, n.Coq, "tree")
}

// fold bounds under a blend: never above the minimum; PolyMin at most (n-1)*k/4 below it
func (h *harness) checkMinFold(v viol, p interface{}, pr params, got float64, vals []float64, sentinel bool) {
	m := math.Inf(1)
	for _, x := range vals {
		m = math.Min(m, x)
	}
	if pr.blend == "MinDef" {
		if !sameBits(got, m) {
			v.at(p, fmt.Sprintf("Evaluate = %g, minimum of the %d operand values = %g (%v)", got, len(vals), m, vals))
		}
		return
	}
	if !leq(got, m, m) {
		v.at(p, fmt.Sprintf("%s(%g): Evaluate = %g is above the minimum %g of the operand values %v: material removed", pr.blend, pr.bk, got, m, vals))
	}
	if pr.blend == "MinPoly" {
		steps := len(vals) - 1
		if sentinel {
			steps = len(vals)
		}
		if lo := m - float64(steps)*pr.bk/4; !leq(lo, got, m, pr.bk) {
			v.at(p, fmt.Sprintf("PolyMin(%g): Evaluate = %g is more than %d*k/4 below the minimum %g", pr.bk, got, steps, m))
		}
	}
}
func (h *harness) checkMax(v viol, p interface{}, pr params, got, a, b float64, what string) {
	m := math.Max(a, b)
	if pr.blend == "MaxDef" {
		if !sameBits(got, m) {
			v.at(p, fmt.Sprintf("Evaluate = %g, %s = %g", got, what, m))
		}
		return
	}
	if !leq(m, got, m) || !leq(got, m+pr.bk/4, m, pr.bk) {
		v.at(p, fmt.Sprintf("%s(%g): Evaluate = %g outside [max, max + k/4] with %s = %g", pr.blend, pr.bk, got, what, m))
	}
}

// rounded_combine in closed form: distance to the quadrant {a <= 0, b <= 0} minus the rounding
func roundedRef(a, b, r float64) float64 {
	return math.Sqrt(math.Max(a, 0)*math.Max(a, 0)+math.Max(b, 0)*math.Max(b, 0)) + math.Min(math.Max(a, b), 0) - r
}

func rot2(a float64, q v2.Vec) v2.Vec {
	s, c := math.Sin(a), math.Cos(a)
	return v2.Vec{X: c*q.X - s*q.Y, Y: s*q.X + c*q.Y}
}

// distance of an azimuth (radians) from the nearest multiple-of-period offset boundary
func nearBoundary(phi, period, offset float64) float64 {
	t := math.Mod(phi-offset, period)
	if t < 0 {
		t += period
	}
	return math.Min(t, period-t)
}

func (h *harness) oracle3(pr params, s sdf.SDF3, kids []interface{}, desc, coq, origin string) {
	v := viol{h, pr.kind, desc, coq}
	h.hist[pr.kind]++
	h.r.Case("oracle/"+origin+"/"+pr.kind+blendTag(pr), pr.kind+":"+desc, nontrivialKids(kids))
	need := func(nf, ni int) bool {
		if len(pr.fs) != nf || len(pr.is) != ni {
			h.r.Violate("harness:params", fmt.Sprintf("%s: %d floats %d ints, expected %d %d (%s)", pr.kind, len(pr.fs), len(pr.is), nf, ni, coq), nil)
			return false
		}
		return true
	}
	pts := h.allPts3(pr, s, kids, origin) // random points + exact-seam points of n-ary nodes (seam.go)
	switch pr.kind {
	case "fUnion3":
		for _, p := range pts {
			var vals []float64
			for _, k := range kids {
				vals = append(vals, ev3(k, p))
			}
			h.checkMinFold(v, p, pr, s.Evaluate(p), vals, false)
		}
	case "fDifference3":
		for _, p := range pts {
			h.checkMax(v, p, pr, s.Evaluate(p), ev3(kids[0], p), -ev3(kids[1], p), "max(a, -b)")
		}
	case "fIntersect3":
		for _, p := range pts {
			h.checkMax(v, p, pr, s.Evaluate(p), ev3(kids[0], p), ev3(kids[1], p), "max(a, b)")
		}
	case "fTransform3":
		if !need(16, 0) {
			return
		}
		var m sdf.M44
		copy(m[:], pr.fs)
		for _, q := range h.pts3(kids[0].(*shapes.N3).Go, npts) {
			p := m.MulPosition(q)
			if got, want := s.Evaluate(p), ev3(kids[0], q); !closeTo(got, want, q.Length(), p.Length()) {
				v.at(q, fmt.Sprintf("Transform3D(s, M).Evaluate(M q) = %g, s.Evaluate(q) = %g (q = %v)", got, want, q))
			}
		}
	case "fScaleUniform3":
		if !need(1, 0) {
			return
		}
		k := pr.fs[0]
		for _, q := range h.pts3(kids[0].(*shapes.N3).Go, npts) {
			if got, want := s.Evaluate(q.MulScalar(k)), k*ev3(kids[0], q); !closeTo(got, want, q.Length()*k) {
				v.at(q, fmt.Sprintf("ScaleUniform3D(s, %g).Evaluate(k q) = %g, k * s.Evaluate(q) = %g", k, got, want))
			}
		}
	case "fCut3":
		if !need(6, 0) {
			return
		}
		a, n := v3.Vec{X: pr.fs[0], Y: pr.fs[1], Z: pr.fs[2]}, v3.Vec{X: pr.fs[3], Y: pr.fs[4], Z: pr.fs[5]}
		for _, p := range pts {
			d := p.Sub(a).Dot(n) / n.Length() // signed distance from the plane, positive on the normal's side
			c, got := ev3(kids[0], p), s.Evaluate(p)
			if want := math.Max(-d, c); !closeTo(got, want, p.Length(), a.Length()) {
				v.at(p, fmt.Sprintf("Cut3D: Evaluate = %g, max(-distance on the normal side = %g, operand = %g) = %g", got, -d, c, want))
			}
			if d < -1e-6 && got <= 0 {
				v.at(p, fmt.Sprintf("Cut3D keeps a point %g behind the plane (value %g)", -d, got))
			}
			if d > 1e-6 && c < -1e-6 && !(got < 0) {
				v.at(p, fmt.Sprintf("Cut3D removes a point of the operand (value %g) %g in front of the plane: %g", c, d, got))
			}
		}
	case "fElongate3":
		if !need(3, 0) {
			return
		}
		hh := v3.Vec{X: math.Abs(pr.fs[0]) * 0.5, Y: math.Abs(pr.fs[1]) * 0.5, Z: math.Abs(pr.fs[2]) * 0.5}
		for i, p := range pts {
			if i%2 == 1 { // inside the slab along at least one axis
				p.X = h.rng.Uniform(-1, 1) * hh.X
			}
			q := p.Sub(p.Clamp(hh.Neg(), hh))
			if got, want := s.Evaluate(p), ev3(kids[0], q); !sameBits(got, want) {
				v.at(p, fmt.Sprintf("Elongate3D: Evaluate = %g, operand at p - clamp(p, -h/2, h/2) = %v gives %g", got, q, want))
			}
		}
	case "fArray3":
		if !need(3, 3) {
			return
		}
		for _, p := range pts {
			var vals []float64
			for j := 0; j < pr.is[0]; j++ {
				for k := 0; k < pr.is[1]; k++ {
					for l := 0; l < pr.is[2]; l++ {
						vals = append(vals, ev3(kids[0], p.Sub(v3.Vec{X: float64(j) * pr.fs[0], Y: float64(k) * pr.fs[1], Z: float64(l) * pr.fs[2]})))
					}
				}
			}
			h.checkMinFold(v, p, pr, s.Evaluate(p), vals, true)
		}
	case "fRotateUnion3":
		if !need(16, 1) {
			return
		}
		var m sdf.M44
		copy(m[:], pr.fs)
		inv, ok := exactInverse44(m) // independent of the implementation's Inverse (rationals, lookalike.go)
		if !ok {
			inv = m.Inverse()
		}
		for _, p := range pts {
			var vals []float64
			x := p
			for i := 0; i < pr.is[0]; i++ {
				vals = append(vals, ev3(kids[0], x))
				x = inv.MulPosition(x) // the point pulled back once more: copy i sits at step^i
			}
			got := s.Evaluate(p)
			mn := math.Inf(1)
			for _, y := range vals {
				mn = math.Min(mn, y)
			}
			if pr.blend == "MinDef" {
				if !closeTo(got, mn, p.Length()) {
					v.at(p, fmt.Sprintf("RotateUnion3D: Evaluate = %g, minimum over the %d copies (operand at step^-i p) = %g", got, pr.is[0], mn))
				}
			} else {
				h.checkMinFoldTol(v, p, pr, got, vals, p.Length())
			}
		}
		// copy i contains the image of the operand under step^i
		for _, q := range h.pts3(kids[0].(*shapes.N3).Go, 3) {
			x, c := q, ev3(kids[0], q)
			for i := 0; i < pr.is[0]; i++ {
				if got := s.Evaluate(x); !leq(got, c, x.Length()) {
					v.at(q, fmt.Sprintf("RotateUnion3D: at step^%d q the value %g exceeds the operand's value %g at q", i, got, c))
				}
				x = m.MulPosition(x)
			}
		}
	case "fRotateCopy3":
		if !need(0, 1) {
			return
		}
		theta := 2 * math.Pi / float64(pr.is[0])
		rz := sdf.RotateZ(theta)
		for _, p := range pts {
			phi := math.Atan2(p.Y, p.X)
			rho := math.Hypot(p.X, p.Y)
			if rho < 1e-3 || nearBoundary(phi, theta, theta/2) < 1e-6 {
				continue
			}
			if a, b := s.Evaluate(rz.MulPosition(p)), s.Evaluate(p); !closeTo(a, b, p.Length()) {
				v.at(p, fmt.Sprintf("RotateCopy3D(n=%d): value %g at Rz(2pi/n) p, %g at p", pr.is[0], a, b))
			}
			if math.Abs(phi) < theta/2-1e-6 {
				if a, b := s.Evaluate(p), ev3(kids[0], p); !closeTo(a, b, p.Length()) {
					v.at(p, fmt.Sprintf("RotateCopy3D(n=%d): value %g on the fundamental sector (azimuth %g), operand %g", pr.is[0], a, phi, b))
				}
			}
		}
	case "fOffset3":
		if !need(1, 0) {
			return
		}
		for _, p := range pts {
			if got, want := s.Evaluate(p), ev3(kids[0], p)-pr.fs[0]; !sameBits(got, want) {
				v.at(p, fmt.Sprintf("Offset3D: Evaluate = %g, operand - offset = %g", got, want))
			}
		}
	case "fShell3":
		if !need(1, 0) {
			return
		}
		for _, p := range pts {
			if got, want := s.Evaluate(p), math.Abs(ev3(kids[0], p))-0.5*pr.fs[0]; !sameBits(got, want) {
				v.at(p, fmt.Sprintf("Shell3D: Evaluate = %g, |operand| - thickness/2 = %g", got, want))
			}
		}
	case "fRevolve":
		if !need(1, 0) {
			return
		}
		theta := math.Mod(math.Abs(pr.fs[0]), 2*math.Pi)
		prof := kids[0].(*shapes.N2).Go
		for i, q := range h.pts2(prof, npts) {
			rho, z := math.Abs(q.X), q.Y
			if rho < 1e-3 {
				continue
			}
			phi := h.rng.Uniform(0, 2*math.Pi)
			if theta != 0 && i%2 == 0 {
				phi = h.rng.Uniform(0, theta)
			}
			p := v3.Vec{X: rho * math.Cos(phi), Y: rho * math.Sin(phi), Z: z}
			got := s.Evaluate(p)
			a := prof.Evaluate(v2.Vec{X: math.Sqrt(p.X*p.X + p.Y*p.Y), Y: z})
			if theta == 0 {
				if !sameBits(got, a) {
					v.at(p, fmt.Sprintf("Revolve3D (full): Evaluate = %g, profile at (rho, z) = %g", got, a))
				}
				continue
			}
			if !leq(a, got, rho) {
				v.at(p, fmt.Sprintf("RevolveTheta3D(%g): Evaluate = %g below the profile value %g", pr.fs[0], got, a))
			}
			margin := 1e-6 + 1e-6/rho
			inSector := phi > margin && phi < theta-margin
			outSector := phi > theta+margin && phi < 2*math.Pi-margin
			switch {
			case inSector && a < -1e-9 && !(got < 0):
				v.at(p, fmt.Sprintf("RevolveTheta3D(%g): azimuth %g inside (0, theta), profile contains (rho, z) (%g), but Evaluate = %g", pr.fs[0], phi, a, got))
			case inSector && a > 1e-9 && !(got > 0):
				v.at(p, fmt.Sprintf("RevolveTheta3D(%g): profile does not contain (rho, z) (%g) but Evaluate = %g", pr.fs[0], a, got))
			case outSector && got < -1e-9*math.Max(1, rho):
				v.at(p, fmt.Sprintf("RevolveTheta3D(%g): azimuth %g outside [0, theta] but Evaluate = %g", pr.fs[0], phi, got))
			}
		}
	case "fExtrude", "fTwistExtrude", "fScaleExtrude", "fScaleTwistExtrude":
		var height, tw float64
		sc := v2.Vec{X: 1, Y: 1}
		switch pr.kind {
		case "fExtrude":
			if !need(1, 0) {
				return
			}
			height = pr.fs[0]
		case "fTwistExtrude":
			if !need(2, 0) {
				return
			}
			height, tw = pr.fs[0], pr.fs[1]
		case "fScaleExtrude":
			if !need(3, 0) {
				return
			}
			height, sc = pr.fs[0], v2.Vec{X: pr.fs[1], Y: pr.fs[2]}
		default:
			if !need(4, 0) {
				return
			}
			height, tw, sc = pr.fs[0], pr.fs[1], v2.Vec{X: pr.fs[2], Y: pr.fs[3]}
		}
		prof := kids[0].(*shapes.N2).Go
		for i, q := range h.pts2(prof, npts) {
			z := h.rng.Uniform(-0.7, 0.7) * height
			switch i {
			case 0:
				z = -height / 2
			case 1:
				z = height / 2
			}
			t, turn := 0.5, 0.0 // height 0 (accepted by Extrude3D: a flat solid) has a single section
			if height != 0 {
				t = z/height + 0.5 // 0 at the bottom face, 1 at the top
				turn = -z * tw / height
			}
			lam := v2.Vec{X: 1 + t*(1/sc.X-1), Y: 1 + t*(1/sc.Y-1)}
			if math.Abs(lam.X) < 0.05 || math.Abs(lam.Y) < 0.05 {
				continue
			}
			// the point of the solid at height z that shows the profile point q:
			// the section is the profile scaled by 1/lam and turned by -z*twist/height
			w := rot2(turn, q)
			p := v3.Vec{X: w.X / lam.X, Y: w.Y / lam.Y, Z: z}
			got, want := s.Evaluate(p), math.Max(prof.Evaluate(q), math.Abs(z)-height/2)
			if pr.kind == "fExtrude" {
				if !sameBits(got, want) {
					v.at(p, fmt.Sprintf("Extrude3D: Evaluate = %g, max(profile, |z| - h/2) = %g", got, want))
				}
			} else if !closeTo(got, want, q.Length(), p.Length()) {
				v.at(p, fmt.Sprintf("%s: Evaluate = %g at the point showing profile point %v at height %g (section = profile scaled by %v, turned by -z*twist/height = %g), expected %g",
					pr.kind[1:], got, q, z, v2.Vec{X: 1 / lam.X, Y: 1 / lam.Y}, -z*tw/height, want))
			}
			// z-range
			zz := height/2 + h.rng.Uniform(1e-9, 1)
			if g := s.Evaluate(v3.Vec{X: p.X, Y: p.Y, Z: zz}); !(g > 0) {
				v.at(v3.Vec{X: p.X, Y: p.Y, Z: zz}, fmt.Sprintf("%s: Evaluate = %g above the top face z = h/2", pr.kind[1:], g))
			}
		}
	case "fExtrudeRounded":
		if !need(2, 0) {
			return
		}
		height, rd := pr.fs[0], pr.fs[1]
		prof := kids[0].(*shapes.N2).Go
		for _, q := range h.pts2(prof, npts) {
			z := h.rng.Uniform(-0.7, 0.7) * height
			p := v3.Vec{X: q.X, Y: q.Y, Z: z}
			a, b := prof.Evaluate(q), math.Abs(z)-(height/2-rd)
			want := roundedRef(a, b, rd)
			if rd == 0 {
				want = math.Max(a, math.Abs(z)-height/2)
			}
			if got := s.Evaluate(p); !closeTo(got, want, q.Length()) {
				v.at(p, fmt.Sprintf("ExtrudeRounded3D(h=%g, round=%g): Evaluate = %g, rounded combination of profile %g and z-distance %g = %g", height, rd, got, a, b, want))
			}
		}
	case "fLoft":
		if !need(2, 0) {
			return
		}
		height, rd := pr.fs[0], pr.fs[1]
		sh := height/2 - rd
		p0, p1 := kids[0].(*shapes.N2).Go, kids[1].(*shapes.N2).Go
		for i, q := range h.pts2(p0, npts) {
			z := h.rng.Uniform(-0.6, 0.6) * height
			switch i {
			case 0:
				z = -sh
			case 1:
				z = sh
			case 2:
				z = -sh - h.rng.Uniform(0, rd)
			}
			k := math.Max(0, math.Min(1, 0.5*z/sh+0.5))
			if sh == 0 {
				continue
			}
			a0, a1 := p0.Evaluate(q), p1.Evaluate(q)
			a := a0 + k*(a1-a0)
			want := roundedRef(a, math.Abs(z)-sh, rd)
			p := v3.Vec{X: q.X, Y: q.Y, Z: z}
			if got := s.Evaluate(p); !closeTo(got, want, q.Length(), a0, a1) {
				v.at(p, fmt.Sprintf("Loft3D(h=%g, round=%g): Evaluate = %g at z = %g (mix %g of profiles %g and %g), expected %g", height, rd, got, z, k, a0, a1, want))
			}
		}
	default:
		h.r.Violate("harness:kind", "no oracle for 3D node kind "+pr.kind, nil)
	}
}

// fold bound with tolerance on the minimum (the operand values were computed along a different float path)
func (h *harness) checkMinFoldTol(v viol, p interface{}, pr params, got float64, vals []float64, scale float64) {
	m := math.Inf(1)
	for _, x := range vals {
		m = math.Min(m, x)
	}
	if !leq(got, m, m, scale) {
		v.at(p, fmt.Sprintf("%s(%g): Evaluate = %g is above the minimum %g of the operand values: material removed", pr.blend, pr.bk, got, m))
	}
	if pr.blend == "MinPoly" {
		if lo := m - float64(len(vals))*pr.bk/4; !leq(lo, got, m, pr.bk, scale) {
			v.at(p, fmt.Sprintf("PolyMin(%g): Evaluate = %g is more than %d*k/4 below the minimum %g", pr.bk, got, len(vals), m))
		}
	}
}

func blendTag(pr params) string {
	if pr.blend == "" || strings.HasSuffix(pr.blend, "Def") {
		return ""
	}
	return "[" + pr.blend + "]"
}

// Slice2D axes by the documented rule: u along the first vanishing coordinate of n, else (ny, -nx, 0); v = n x u
func sliceAxes(n v3.Vec) (u, v v3.Vec) {
	switch {
	case n.X == 0:
		u = v3.Vec{X: 1}
	case n.Y == 0:
		u = v3.Vec{Y: 1}
	case n.Z == 0:
		u = v3.Vec{Z: 1}
	default:
		u = v3.Vec{X: n.Y, Y: -n.X}
	}
	v = n.Cross(u)
	return u.Normalize(), v.Normalize()
}

func (h *harness) oracle2(pr params, s sdf.SDF2, kids []interface{}, desc, coq, origin string) {
	v := viol{h, pr.kind, desc, coq}
	h.hist[pr.kind]++
	h.r.Case("oracle/"+origin+"/"+pr.kind+blendTag(pr), pr.kind+":"+desc, nontrivialKids(kids))
	need := func(nf, ni int) bool {
		if len(pr.fs) != nf || len(pr.is) != ni {
			h.r.Violate("harness:params", fmt.Sprintf("%s: %d floats %d ints, expected %d %d (%s)", pr.kind, len(pr.fs), len(pr.is), nf, ni, coq), nil)
			return false
		}
		return true
	}
	pts := h.allPts2(pr, s, kids, origin) // random points + exact-seam points of n-ary nodes (seam.go)
	switch pr.kind {
	case "fUnion2":
		for _, p := range pts {
			var vals []float64
			var lowers []bool
			pruneOK, lowerOK := true, true // the hypotheses of C02_union2_sem / C16_union_prune_eq at this point
			for _, k := range kids {
				x := ev2(k, p)
				vals = append(vals, x)
				iv := k.(*shapes.N2).Go.BoundingBox().MinMaxDist2(p)
				lower := (x > 0 || iv[0] == 0) && (x < 0 || iv[0] <= x*x*(1+1e-9)) // value >= distance to the operand's box
				upper := x <= 0 || x*x <= iv[1]*(1+1e-9)                           // a point of the solid in the box, 1-Lipschitz
				pruneOK = pruneOK && lower && upper
				lowerOK = lowerOK && lower
				lowers = append(lowers, lower)
			}
			got := s.Evaluate(p)
			if pr.blend == "MinDef" && !pruneOK {
				// an operand breaks the contract the bounding-box pruning relies on.  Outside the claimed
				// class the strongest statement that holds for ARBITRARY operands is checked: the result is
				// one of the operand values, not below the minimum, and not above the value of any operand
				// that itself respects the lower bound (value >= distance to its own box; in particular every
				// operand that is negative inside its box).  Only an operand with material OUTSIDE its own
				// box (C01 violated for it, e.g. a material-adding blend: known C01 finding) may be missed.
				h.hist["fUnion2/operand-outside-pruning-contract"]++
				m, member := math.Inf(1), false
				for _, x := range vals {
					m = math.Min(m, x)
					member = member || sameBits(x, got)
				}
				bad := !member || got < m
				for i, x := range vals {
					bad = bad || (lowers[i] && !leq(got, x, x))
				}
				if lowerOK && (m < 0) != (got < 0) {
					bad = true
				}
				if !lowerOK && !bad && !sameBits(got, m) {
					// consequence of the known C01 finding (material outside the operand's box): counted, not a new key
					h.hist["fUnion2/not-the-minimum-because-an-operand-has-material-outside-its-box"]++
				}
				if bad {
					v.at(p, fmt.Sprintf("Union2D: Evaluate = %g with operand values %v (operands respecting their box lower bound: %v)", got, vals, lowers))
				}
				continue
			}
			h.checkMinFold(v, p, pr, got, vals, false)
		}
	case "fDifference2":
		for _, p := range pts {
			h.checkMax(v, p, pr, s.Evaluate(p), ev2(kids[0], p), -ev2(kids[1], p), "max(a, -b)")
		}
	case "fIntersect2":
		for _, p := range pts {
			h.checkMax(v, p, pr, s.Evaluate(p), ev2(kids[0], p), ev2(kids[1], p), "max(a, b)")
		}
	case "fOffset2":
		if !need(1, 0) {
			return
		}
		for _, p := range pts {
			if got, want := s.Evaluate(p), ev2(kids[0], p)-pr.fs[0]; !sameBits(got, want) {
				v.at(p, fmt.Sprintf("Offset2D: Evaluate = %g, operand - offset = %g", got, want))
			}
		}
	case "fCut2":
		if !need(4, 0) {
			return
		}
		a, dir := v2.Vec{X: pr.fs[0], Y: pr.fs[1]}, v2.Vec{X: pr.fs[2], Y: pr.fs[3]}
		for _, p := range pts {
			c := (dir.X*(p.Y-a.Y) - dir.Y*(p.X-a.X)) / dir.Length() // > 0 to the left of the directed line
			o, got := ev2(kids[0], p), s.Evaluate(p)
			if want := math.Max(c, o); !closeTo(got, want, p.Length(), a.Length()) {
				v.at(p, fmt.Sprintf("Cut2D: Evaluate = %g, max(signed distance to the left = %g, operand = %g) = %g", got, c, o, want))
			}
			if c > 1e-6 && got <= 0 {
				v.at(p, fmt.Sprintf("Cut2D keeps a point %g to the left of the line (value %g)", c, got))
			}
			if c < -1e-6 && o < -1e-6 && !(got < 0) {
				v.at(p, fmt.Sprintf("Cut2D removes a point of the operand (value %g) %g to the right of the line: %g", o, -c, got))
			}
		}
	case "fTransform2":
		if !need(9, 0) {
			return
		}
		var m sdf.M33
		copy(m[:], pr.fs)
		for _, q := range h.pts2(kids[0].(*shapes.N2).Go, npts) {
			p := m.MulPosition(q)
			if got, want := s.Evaluate(p), ev2(kids[0], q); !closeTo(got, want, q.Length(), p.Length()) {
				v.at(q, fmt.Sprintf("Transform2D(s, M).Evaluate(M q) = %g, s.Evaluate(q) = %g", got, want))
			}
		}
	case "fScaleUniform2":
		if !need(1, 0) {
			return
		}
		k := pr.fs[0]
		for _, q := range h.pts2(kids[0].(*shapes.N2).Go, npts) {
			if got, want := s.Evaluate(q.MulScalar(k)), k*ev2(kids[0], q); !closeTo(got, want, q.Length()*k) {
				v.at(q, fmt.Sprintf("ScaleUniform2D(s, %g).Evaluate(k q) = %g, k * s.Evaluate(q) = %g", k, got, want))
			}
		}
	case "fArray2":
		if !need(2, 2) {
			return
		}
		for _, p := range pts {
			var vals []float64
			for j := 0; j < pr.is[0]; j++ {
				for k := 0; k < pr.is[1]; k++ {
					vals = append(vals, ev2(kids[0], p.Sub(v2.Vec{X: float64(j) * pr.fs[0], Y: float64(k) * pr.fs[1]})))
				}
			}
			h.checkMinFold(v, p, pr, s.Evaluate(p), vals, true)
		}
	case "fRotateUnion2":
		if !need(9, 1) {
			return
		}
		var m sdf.M33
		copy(m[:], pr.fs)
		inv, ok := exactInverse33(m) // independent of the implementation's Inverse (rationals, lookalike.go)
		if !ok {
			inv = m.Inverse()
		}
		for _, p := range pts {
			var vals []float64
			x := p
			for i := 0; i < pr.is[0]; i++ {
				vals = append(vals, ev2(kids[0], x))
				x = inv.MulPosition(x)
			}
			got := s.Evaluate(p)
			mn := math.Inf(1)
			for _, y := range vals {
				mn = math.Min(mn, y)
			}
			if pr.blend == "MinDef" {
				if !closeTo(got, mn, p.Length()) {
					v.at(p, fmt.Sprintf("RotateUnion2D: Evaluate = %g, minimum over the %d copies = %g", got, pr.is[0], mn))
				}
			} else {
				h.checkMinFoldTol(v, p, pr, got, vals, p.Length())
			}
		}
		for _, q := range h.pts2(kids[0].(*shapes.N2).Go, 3) {
			x, c := q, ev2(kids[0], q)
			for i := 0; i < pr.is[0]; i++ {
				if got := s.Evaluate(x); !leq(got, c, x.Length()) {
					v.at(q, fmt.Sprintf("RotateUnion2D: at step^%d q the value %g exceeds the operand's value %g at q", i, got, c))
				}
				x = m.MulPosition(x)
			}
		}
	case "fRotateCopy2":
		if !need(0, 1) {
			return
		}
		theta := 2 * math.Pi / float64(pr.is[0])
		for _, p := range pts {
			phi := math.Atan2(p.Y, p.X)
			if p.Length() < 1e-3 || nearBoundary(phi, theta, theta/2) < 1e-6 {
				continue
			}
			if a, b := s.Evaluate(rot2(theta, p)), s.Evaluate(p); !closeTo(a, b, p.Length()) {
				v.at(p, fmt.Sprintf("RotateCopy2D(n=%d): value %g at R(2pi/n) p, %g at p", pr.is[0], a, b))
			}
			if math.Abs(phi) < theta/2-1e-6 {
				if a, b := s.Evaluate(p), ev2(kids[0], p); !closeTo(a, b, p.Length()) {
					v.at(p, fmt.Sprintf("RotateCopy2D(n=%d): value %g on the fundamental sector (azimuth %g), operand %g", pr.is[0], a, phi, b))
				}
			}
		}
	case "fElongate2":
		if !need(2, 0) {
			return
		}
		hh := v2.Vec{X: math.Abs(pr.fs[0]) * 0.5, Y: math.Abs(pr.fs[1]) * 0.5}
		for i, p := range pts {
			if i%2 == 1 {
				p.X = h.rng.Uniform(-1, 1) * hh.X
			}
			q := p.Sub(p.Clamp(hh.Neg(), hh))
			if got, want := s.Evaluate(p), ev2(kids[0], q); !sameBits(got, want) {
				v.at(p, fmt.Sprintf("Elongate2D: Evaluate = %g, operand at p - clamp(p, -h/2, h/2) = %v gives %g", got, q, want))
			}
		}
	case "fSlice2":
		if !need(6, 0) {
			return
		}
		a, n := v3.Vec{X: pr.fs[0], Y: pr.fs[1], Z: pr.fs[2]}, v3.Vec{X: pr.fs[3], Y: pr.fs[4], Z: pr.fs[5]}
		u, w := sliceAxes(n)
		if !closeTo(u.Dot(w), 0) || !closeTo(u.Dot(n)/n.Length(), 0) || !closeTo(w.Dot(n)/n.Length(), 0) || !closeTo(u.Length(), 1) || !closeTo(w.Length(), 1) {
			v.at(v2.Vec{}, fmt.Sprintf("Slice2D axes for n = %v are not orthonormal and perpendicular to n: u = %v, v = %v", n, u, w))
		}
		for _, p := range pts {
			q := a.Add(u.MulScalar(p.X)).Add(w.MulScalar(p.Y))
			if got, want := s.Evaluate(p), ev3(kids[0], q); !closeTo(got, want, q.Length()) {
				v.at(p, fmt.Sprintf("Slice2D: Evaluate(%v) = %g, solid at a + x u + y v = %v gives %g", p, got, q, want))
			}
		}
	default:
		h.r.Violate("harness:kind", "no oracle for 2D node kind "+pr.kind, nil)
	}
}

// ---------------------------------------------------------------- blend functions as functions

func stableExpMin(k, a, b float64) float64 {
	m := math.Min(a, b)
	return m - math.Log1p(math.Exp(-k*math.Abs(a-b)))/k
}

func (h *harness) blendOracles(n int) {
	for i := 0; i < n; i++ {
		k, a, b, st := h.blendArgs()
		mn, mx := math.Min(a, b), math.Max(a, b)
		in := map[string]interface{}{"k": k, "a": a, "b": b}
		key := func(fn string) string { return fmt.Sprintf("blend:%s(%s)|%s", fn, hx(k), hx(a, b)) }
		h.r.Case("oracle/blend/"+st, hx(k, a, b), st != "generic")
		type mf struct {
			name string
			f    sdf.MinFunc
		}
		for _, m := range []mf{{"RoundMin", sdf.RoundMin(k)}, {"ChamferMin", sdf.ChamferMin(k)}, {"PolyMin", sdf.PolyMin(k)}} {
			g, g2 := m.f(a, b), m.f(b, a)
			if !leq(g, mn, a, b, k) {
				h.r.Violate(key(m.name), fmt.Sprintf("%s(%g)(%g, %g) = %g > min = %g: removes material", m.name, k, a, b, g, mn), in)
			}
			if !closeTo(g, g2, a, b, k) {
				h.r.Violate(key(m.name), fmt.Sprintf("%s(%g) is not symmetric: f(a,b) = %g, f(b,a) = %g", m.name, k, g, g2), in)
			}
			if (a < 0 || b < 0) && !(g < 0) {
				h.r.Violate(key(m.name), fmt.Sprintf("%s(%g)(%g, %g) = %g: a point inside an operand is not inside the blend", m.name, k, a, b, g), in)
			}
		}
		pm := sdf.PolyMin(k)(a, b)
		if !leq(mn-k/4, pm, a, b, k) {
			h.r.Violate(key("PolyMin"), fmt.Sprintf("PolyMin(%g)(%g, %g) = %g < min - k/4 = %g", k, a, b, pm, mn-k/4), in)
		}
		if math.Abs(a-b) >= k && !closeTo(pm, mn, a, b) {
			h.r.Violate(key("PolyMin"), fmt.Sprintf("PolyMin(%g)(%g, %g) = %g although |a-b| >= k; min = %g", k, a, b, pm, mn), in)
		}
		px := sdf.PolyMax(k)(a, b)
		if !sameBits(px, -sdf.PolyMin(k)(-a, -b)) {
			h.r.Violate(key("PolyMax"), fmt.Sprintf("PolyMax(%g)(%g, %g) = %g is not -PolyMin(k)(-a, -b) = %g", k, a, b, px, -sdf.PolyMin(k)(-a, -b)), in)
		}
		if !leq(mx, px, a, b, k) || !leq(px, mx+k/4, a, b, k) {
			h.r.Violate(key("PolyMax"), fmt.Sprintf("PolyMax(%g)(%g, %g) = %g outside [max, max + k/4], max = %g", k, a, b, px, mx), in)
		}
		// ExpMin: k as suggested by the source (32) scaled with the operands
		ke := 32 / math.Max(math.Abs(a), math.Max(math.Abs(b), 1e-3)) * h.rng.Uniform(0.02, 0.6)
		if ke*math.Max(math.Abs(a), math.Abs(b)) < 600 {
			g, g2, ref := sdf.ExpMin(ke)(a, b), sdf.ExpMin(ke)(b, a), stableExpMin(ke, a, b)
			ek := fmt.Sprintf("blend:ExpMin(%s)|%s", hx(ke), hx(a, b))
			ein := map[string]interface{}{"k": ke, "a": a, "b": b}
			if !leq(g, mn, a, b, 1/ke) {
				h.r.Violate(ek, fmt.Sprintf("ExpMin(%g)(%g, %g) = %g > min = %g", ke, a, b, g, mn), ein)
			}
			if !closeTo(g, g2, a, b, 1/ke) {
				h.r.Violate(ek, fmt.Sprintf("ExpMin(%g) is not symmetric: %g vs %g", ke, g, g2), ein)
			}
			// exp(-k x) carries the relative error k*|x|*eps into the logarithm: allow for it
			if math.Abs(g-ref) > 1e-9*math.Max(1, math.Max(math.Abs(a), math.Abs(b)))+1e-13*ke*math.Max(math.Abs(a), math.Abs(b))/ke {
				h.r.Violate(ek, fmt.Sprintf("ExpMin(%g)(%g, %g) = %g, the formula -log(exp(-ka)+exp(-kb))/k evaluated stably gives %g", ke, a, b, g, ref), ein)
			}
		}
	}
}

// ---------------------------------------------------------------- corpus and adversarial strata

func (h *harness) corpus(cp *corpusT) {
	// the known finding: PowMin turns two inside values into an outside one
	for _, w := range cp.PowMin {
		k, a, b := w[0], w[1], w[2]
		g := sdf.PowMin(k)(a, b)
		key := fmt.Sprintf("blend:PowMin(%g)|a=%g|b=%g", k, a, b)
		h.r.Case("corpus/powmin", key, true)
		if (a < 0 || b < 0) && !(g < 0) {
			h.r.Violate(key, fmt.Sprintf("PowMin(%g)(%g, %g) = %g: a point inside both operands is not inside the blend (removes material)", k, a, b, g),
				map[string]interface{}{"k": k, "a": a, "b": b})
		}
	}
	// repaired: -0 / +0 through the cache of a shape that tells them apart
	for _, w := range cp.Cache0 {
		bb := sdf.Box2D(v2.Vec{X: 1, Y: 1}, 0)
		rc := sdf.RotateCopy2D(sdf.Transform2D(bb, sdf.Translate2d(v2.Vec{X: 2, Y: 0.3})), 3)
		negz := math.Copysign(0, -1)
		qs := []v2.Vec{{X: w[0], Y: w[1]}, {X: w[0], Y: negz}, {X: w[0], Y: w[1]}, {X: negz, Y: w[0]}, {X: 0, Y: w[0]}}
		h.cacheHistory(rc, "RotateCopy2(Transform2(Box2D({1 1},0)@(2,0.3)),3)", qs, "corpus/signed-zero")
	}
	// repaired: thin boxes got 0 cells along an axis
	for _, w := range cp.Voxel {
		b, err := sdf.Box3D(v3.Vec{X: w[0], Y: w[1], Z: w[2]}, 0)
		if err != nil {
			continue
		}
		h.voxelCase(b, fmt.Sprintf("Box3D({%g %g %g},0)", w[0], w[1], w[2]), int(w[3]), "corpus/thin", true)
	}
	// repaired: loft without a straight section on its mid-plane
	for _, w := range cp.Loft {
		c1, _ := sdf.Circle2D(1)
		l, err := sdf.Loft3D(c1, sdf.Box2D(v2.Vec{X: 1, Y: 1}, 0), w[0], w[1])
		if err != nil {
			continue
		}
		p := v3.Vec{X: 0.25, Y: 0.125, Z: w[2]}
		key := fmt.Sprintf("loft:h=%g|round=%g@%s", w[0], w[1], hx(p.X, p.Y, p.Z))
		h.r.Case("corpus/loft-flat", key, true)
		if g := l.Evaluate(p); math.IsNaN(g) || math.IsInf(g, 0) {
			h.r.Violate(key, fmt.Sprintf("Loft3D(circle, box, %g, %g).Evaluate(%v) = %g", w[0], w[1], p, g), map[string]interface{}{"height": w[0], "round": w[1], "point": p})
		}
	}
	// revolve angles on and around the quadrant thresholds
	for _, th := range cp.Revolve {
		prof := sdf.Transform2D(sdf.Box2D(v2.Vec{X: 1, Y: 2}, 0.125), sdf.Translate2d(v2.Vec{X: 2, Y: 0.25}))
		s, err := sdf.RevolveTheta3D(prof, th)
		if err != nil || s == nil {
			continue
		}
		kid := &shapes.N2{Go: prof, Desc: "Box2D({1 2},0.125)@(2,0.25)"}
		for rep := 0; rep < 4; rep++ {
			h.oracle3(params{kind: "fRevolve", fs: []float64{th}}, s, []interface{}{kid}, fmt.Sprintf("Revolve(%s,%s)", kid.Desc, hx(th)), "", "corpus")
		}
	}
}

// strata builds parents with adversarial parameters over random operands through the public API
func (h *harness) strata(n int) {
	for i := 0; i < n; i++ {
		k3 := h.g.Gen3(i%3 + 1)
		k2 := h.g.Gen2(i%3 + 1)
		kids3, kids2 := []interface{}{k3}, []interface{}{k2}
		// Transform3D: rotations about arbitrary (near-degenerate) axes, mirrors, non-rigid affine maps
		m, sm := h.m44()
		if sm != "near-singular" && sm != "general" && sm != "dyadic" {
			h.oracle3(params{kind: "fTransform3", fs: m44s(m)}, sdf.Transform3D(k3.Go, m), kids3, "Transform3["+sm+" "+hx(m[:]...)+"]("+k3.Desc+")", "", "strata/"+sm)
		}
		m3, sm3 := h.m33()
		if sm3 == "rigid" || sm3 == "affine" {
			h.oracle2(params{kind: "fTransform2", fs: m33s(m3)}, sdf.Transform2D(k2.Go, m3), kids2, "Transform2["+sm3+" "+hx(m3[:]...)+"]("+k2.Desc+")", "", "strata/"+sm3)
		}
		// ScaleUniform: small, large
		kk := []float64{0.01, 0.125, 7, 100, h.rng.Uniform(0.05, 20)}[h.rng.Intn(5)]
		h.oracle3(params{kind: "fScaleUniform3", fs: []float64{kk}}, sdf.ScaleUniform3D(k3.Go, kk), kids3, fmt.Sprintf("ScaleUniform3(%s,%s)", k3.Desc, hx(kk)), "", "strata")
		// Array3D: count 1, negative and zero steps
		num := v3i.Vec{X: h.rng.Range(1, 3), Y: h.rng.Range(1, 2), Z: h.rng.Range(1, 2)}
		st := v3.Vec{X: -h.rng.Uniform(0.5, 4), Y: h.rng.Uniform(-3, 3), Z: 0}
		h.oracle3(params{kind: "fArray3", blend: "MinDef", fs: []float64{st.X, st.Y, st.Z}, is: []int{num.X, num.Y, num.Z}}, sdf.Array3D(k3.Go, num, st), kids3,
			fmt.Sprintf("Array3(%s,%v,%s)", k3.Desc, num, hx(st.X, st.Y, st.Z)), "", "strata/negative-step")
		num2 := v2i.Vec{X: h.rng.Range(1, 4), Y: h.rng.Range(1, 3)}
		st2 := v2.Vec{X: h.rng.Uniform(-4, 4), Y: -h.rng.Uniform(0.5, 4)}
		a2 := sdf.Array2D(k2.Go, num2, st2)
		kb := float64(h.rng.Range(1, 16)) / 16
		a2.(*sdf.ArraySDF2).SetMin(sdf.PolyMin(kb))
		h.oracle2(params{kind: "fArray2", blend: "MinPoly", bk: kb, fs: []float64{st2.X, st2.Y}, is: []int{num2.X, num2.Y}}, a2, kids2,
			fmt.Sprintf("Array2[PolyMin(%s)](%s,%v,%s)", hx(kb), k2.Desc, num2, hx(st2.X, st2.Y)), "", "strata/negative-step")
		// RotateUnion3D: about arbitrary axes, one copy, negative angles
		ax, sa := h.axis()
		if sa != "tiny" && sa != "huge" {
			ang, _ := h.angle()
			rm := sdf.Rotate3d(ax, ang)
			cnt := h.rng.Range(1, 6)
			h.oracle3(params{kind: "fRotateUnion3", blend: "MinDef", fs: m44s(rm), is: []int{cnt}}, sdf.RotateUnion3D(k3.Go, cnt, rm), kids3,
				fmt.Sprintf("RotateUnion3(%s,%d,Rotate3d(%s))", k3.Desc, cnt, hx(ax.X, ax.Y, ax.Z, ang)), "", "strata/axis-"+sa)
		}
		// RotateCopy: up to 12 sectors
		nn := h.rng.Range(1, 12)
		h.oracle3(params{kind: "fRotateCopy3", is: []int{nn}}, sdf.RotateCopy3D(k3.Go, nn), kids3, fmt.Sprintf("RotateCopy3(%s,%d)", k3.Desc, nn), "", "strata")
		// Elongate with zero and negative components
		eh := v3.Vec{X: -h.rng.Uniform(0, 3), Y: 0, Z: h.rng.Uniform(0, 3)}
		h.oracle3(params{kind: "fElongate3", fs: []float64{eh.X, eh.Y, eh.Z}}, sdf.Elongate3D(k3.Go, eh), kids3, fmt.Sprintf("Elongate3(%s,%s)", k3.Desc, hx(eh.X, eh.Y, eh.Z)), "", "strata/zero-component")
		// Cut3D with unnormalised and axis-parallel normals
		cn := []v3.Vec{{X: 0, Y: 0, Z: -5}, {X: 1e-3, Y: 0, Z: 0}, h.vec3(100)}[h.rng.Intn(3)]
		if cn.Length() > 1e-6 {
			ca := h.vec3(1)
			h.oracle3(params{kind: "fCut3", fs: []float64{ca.X, ca.Y, ca.Z, cn.X, cn.Y, cn.Z}}, sdf.Cut3D(k3.Go, ca, cn), kids3,
				fmt.Sprintf("Cut3(%s,%s)", k3.Desc, hx(ca.X, ca.Y, ca.Z, cn.X, cn.Y, cn.Z)), "", "strata")
		}
		// Revolve at and around the wedge / quadrant thresholds, and beyond a full turn
		th := []float64{math.Pi / 2, math.Pi, 1.5 * math.Pi, 2 * math.Pi, math.Pi - 1e-9, math.Pi + 1e-9, 1e-3, 2*math.Pi - 1e-3, 7, 4 * math.Pi}[h.rng.Intn(10)]
		if s, err := sdf.RevolveTheta3D(k2.Go, th); err == nil && s != nil {
			h.oracle3(params{kind: "fRevolve", fs: []float64{th}}, s, kids2, fmt.Sprintf("Revolve(%s,%s)", k2.Desc, hx(th)), "", "strata/threshold")
		}
		// twisted / scaled extrusions: negative and multi-turn twists, strong scales
		hh := h.rng.Uniform(0.3, 5)
		tw := []float64{-math.Pi, 4 * math.Pi, h.rng.Uniform(-10, 10), 1e-6}[h.rng.Intn(4)]
		sc := v2.Vec{X: []float64{0.25, 0.5, 2, 4}[h.rng.Intn(4)], Y: h.rng.Uniform(0.3, 3)}
		h.oracle3(params{kind: "fTwistExtrude", fs: []float64{hh, tw}}, sdf.TwistExtrude3D(k2.Go, hh, tw), kids2, fmt.Sprintf("TwistExtrude(%s,%s)", k2.Desc, hx(hh, tw)), "", "strata")
		h.oracle3(params{kind: "fScaleTwistExtrude", fs: []float64{hh, tw, sc.X, sc.Y}}, sdf.ScaleTwistExtrude3D(k2.Go, hh, tw, sc), kids2,
			fmt.Sprintf("ScaleTwistExtrude(%s,%s)", k2.Desc, hx(hh, tw, sc.X, sc.Y)), "", "strata")
		// Slice2D: every branch of the axis choice
		sn := []v3.Vec{{X: 0, Y: 2, Z: 1}, {X: 3, Y: 0, Z: -1}, {X: 1, Y: -2, Z: 0}, {X: 1, Y: 2, Z: 3}, {X: 0, Y: 0, Z: 4}, {X: 0, Y: -1, Z: 0}, {X: 2, Y: 0, Z: 0}}[i%7]
		sa3 := h.vec3(1)
		h.oracle2(params{kind: "fSlice2", fs: []float64{sa3.X, sa3.Y, sa3.Z, sn.X, sn.Y, sn.Z}}, sdf.Slice2D(k3.Go, sa3, sn), kids3,
			fmt.Sprintf("Slice2(%s,%s)", k3.Desc, hx(sa3.X, sa3.Y, sa3.Z, sn.X, sn.Y, sn.Z)), "", fmt.Sprintf("strata/branch%d", i%7))
		// Loft / ExtrudeRounded with the rounding at its limits
		k2b := h.g.Gen2(1)
		rd := hh / 2 * []float64{0, 0.5, 0.999}[h.rng.Intn(3)]
		if l, err := sdf.Loft3D(k2.Go, k2b.Go, hh, rd); err == nil {
			h.oracle3(params{kind: "fLoft", fs: []float64{hh, rd}}, l, []interface{}{k2, k2b}, fmt.Sprintf("Loft(%s,%s,%s)", k2.Desc, k2b.Desc, hx(hh, rd)), "", "strata")
		}
		rd2 := hh / 2 * []float64{1e-6, 0.5, 1}[h.rng.Intn(3)]
		if e, err := sdf.ExtrudeRounded3D(k2.Go, hh, rd2); err == nil {
			h.oracle3(params{kind: "fExtrudeRounded", fs: []float64{hh, rd2}}, e, kids2, fmt.Sprintf("ExtrudeRounded(%s,%s)", k2.Desc, hx(hh, rd2)), "", "strata")
		}
	}
}
