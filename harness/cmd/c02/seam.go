package main

// Exact-seam points for the n-ary combinators (union, intersection, difference, array).
//
// Random query points never lie on the zero set of an operand, on an edge of an operand's
// bounding box, or at equal distance from two operands' boxes: every comparison inside a
// combinator's Evaluate (the bounding-box pruning test of UnionSDF2, the choice of the operand
// with the closest box, min / max themselves) is then decided strictly, and a change of `<=` into
// `<` (or of which operand wins a tie) is invisible.  This file adds the measure-zero part:
//
//   * seamPts2/3: points of the arrangement of the operands' bounding-box edges - on an edge
//     (face) of operand i's box and inside operand j's box, at box corners, at the centres of
//     edges (where a circle / sphere / rounded box touches its box, i.e. evaluates to exactly 0) -
//     added to the points of EVERY union / intersection / difference / array node the oracles
//     visit (random trees and parameter strata);
//   * zeroPts2/3: for arbitrary operands (rotated, blended, cut ...) a bisection on the float
//     coordinate along an axis-parallel line that starts strictly inside another operand finds
//     the first float at which the operand stops being negative; the rounded value has a plateau
//     of exact zeros around a smooth root, so this is usually a point where Evaluate == 0 exactly;
//   * seamStrata: operand sets on a coarse dyadic grid (boxes, rounded boxes, circles, lines,
//     offsets, exact quarter turns and mirrors of them, inner unions; spheres / boxes / cylinders
//     in 3D), every operand order, evaluated on the FULL arrangement grid (every box edge, every
//     box centre, the midpoints between consecutive coordinates, one step outside): all tie
//     classes of (value of the closest-box operand, box distance of the others) occur, with the
//     plain minimum (exact comparison with the minimum of the operand values) and with blends.
//
// The oracle is the one of oracle2 / oracle3 (the named operation on the operands' own Evaluate).

import (
	"fmt"
	"math"
	"sort"

	"github.com/deadsy/sdfx/sdf"
	v2 "github.com/deadsy/sdfx/vec/v2"
	"github.com/deadsy/sdfx/vec/v2i"
	v3 "github.com/deadsy/sdfx/vec/v3"
	"github.com/deadsy/sdfx/vec/v3i"
	"verifharness/shapes"
)

const seamBudget = 24 // seam points per node of a random tree (the dedicated stratum takes all)

func finite(xs ...float64) bool {
	for _, x := range xs {
		if math.IsNaN(x) || math.IsInf(x, 0) || math.Abs(x) > 1e9 {
			return false
		}
	}
	return true
}

// ---------------------------------------------------------------- operand boxes of a node

// boxes of the things the node folds over: the operands' boxes, for an array the box of every copy
func operandBoxes2(pr params, kids []interface{}) []sdf.Box2 {
	var out []sdf.Box2
	switch pr.kind {
	case "fUnion2", "fIntersect2", "fDifference2":
		for _, k := range kids {
			if n, ok := k.(*shapes.N2); ok {
				out = append(out, n.Go.BoundingBox())
			}
		}
	case "fArray2":
		if len(pr.fs) != 2 || len(pr.is) != 2 || len(kids) != 1 {
			return nil
		}
		n, ok := kids[0].(*shapes.N2)
		if !ok {
			return nil
		}
		bb := n.Go.BoundingBox()
		for j := 0; j < pr.is[0] && j < 3; j++ {
			for k := 0; k < pr.is[1] && k < 3; k++ {
				out = append(out, bb.Translate(v2.Vec{X: float64(j) * pr.fs[0], Y: float64(k) * pr.fs[1]}))
			}
		}
	}
	for _, b := range out {
		if !finite(b.Min.X, b.Min.Y, b.Max.X, b.Max.Y) {
			return nil
		}
	}
	return out
}

func operandBoxes3(pr params, kids []interface{}) []sdf.Box3 {
	var out []sdf.Box3
	switch pr.kind {
	case "fUnion3", "fIntersect3", "fDifference3":
		for _, k := range kids {
			if n, ok := k.(*shapes.N3); ok {
				out = append(out, n.Go.BoundingBox())
			}
		}
	case "fArray3":
		if len(pr.fs) != 3 || len(pr.is) != 3 || len(kids) != 1 {
			return nil
		}
		n, ok := kids[0].(*shapes.N3)
		if !ok {
			return nil
		}
		bb := n.Go.BoundingBox()
		for j := 0; j < pr.is[0] && j < 2; j++ {
			for k := 0; k < pr.is[1] && k < 2; k++ {
				for l := 0; l < pr.is[2] && l < 2; l++ {
					out = append(out, bb.Translate(v3.Vec{X: float64(j) * pr.fs[0], Y: float64(k) * pr.fs[1], Z: float64(l) * pr.fs[2]}))
				}
			}
		}
	}
	for _, b := range out {
		if !finite(b.Min.X, b.Min.Y, b.Min.Z, b.Max.X, b.Max.Y, b.Max.Z) {
			return nil
		}
	}
	return out
}

// ---------------------------------------------------------------- points on box edges inside other boxes

// critical coordinates of interval [lo,hi] of box i seen from the overlap [a,b] with box j:
// box i's centre (tangent point of round shapes), the overlap's ends and its middle
func overlapCoords(lo, hi, lo2, hi2 float64) []float64 {
	a, b := math.Max(lo, lo2), math.Min(hi, hi2)
	if a > b {
		return nil
	}
	out := []float64{a, (a + b) / 2, b}
	if c := (lo + hi) / 2; c >= a && c <= b {
		out = append(out, c)
	}
	return out
}

// seamPts2: for every ordered pair (i, j) of operand boxes, points on each edge of box i that lie in
// box j (closed).  At most max points (a random subset), max <= 0: all.
func (h *harness) seamPts2(bs []sdf.Box2, max int) []v2.Vec {
	var out []v2.Vec
	for i, a := range bs {
		for j, b := range bs {
			if i == j {
				continue
			}
			for _, x := range []float64{a.Min.X, a.Max.X} {
				if x < b.Min.X || x > b.Max.X {
					continue
				}
				for _, y := range overlapCoords(a.Min.Y, a.Max.Y, b.Min.Y, b.Max.Y) {
					out = append(out, v2.Vec{X: x, Y: y})
				}
			}
			for _, y := range []float64{a.Min.Y, a.Max.Y} {
				if y < b.Min.Y || y > b.Max.Y {
					continue
				}
				for _, x := range overlapCoords(a.Min.X, a.Max.X, b.Min.X, b.Max.X) {
					out = append(out, v2.Vec{X: x, Y: y})
				}
			}
		}
	}
	if max > 0 && len(out) > max {
		pm := h.rng.Perm(len(out))
		sel := make([]v2.Vec, max)
		for k := range sel {
			sel[k] = out[pm[k]]
		}
		out = sel
	}
	return out
}

func (h *harness) seamPts3(bs []sdf.Box3, max int) []v3.Vec {
	var out []v3.Vec
	ax := func(b sdf.Box3, k int) (float64, float64) {
		switch k {
		case 0:
			return b.Min.X, b.Max.X
		case 1:
			return b.Min.Y, b.Max.Y
		}
		return b.Min.Z, b.Max.Z
	}
	for i, a := range bs {
		for j, b := range bs {
			if i == j {
				continue
			}
			for k := 0; k < 3; k++ { // the two faces of box i perpendicular to axis k
				alo, ahi := ax(a, k)
				blo, bhi := ax(b, k)
				k1, k2 := (k+1)%3, (k+2)%3
				a1lo, a1hi := ax(a, k1)
				b1lo, b1hi := ax(b, k1)
				a2lo, a2hi := ax(a, k2)
				b2lo, b2hi := ax(b, k2)
				c1 := overlapCoords(a1lo, a1hi, b1lo, b1hi)
				c2 := overlapCoords(a2lo, a2hi, b2lo, b2hi)
				for _, f := range []float64{alo, ahi} {
					if f < blo || f > bhi {
						continue
					}
					for _, u := range c1 {
						for _, w := range c2 {
							var c [3]float64
							c[k], c[k1], c[k2] = f, u, w
							out = append(out, v3.Vec{X: c[0], Y: c[1], Z: c[2]})
						}
					}
				}
			}
		}
	}
	if max > 0 && len(out) > max {
		pm := h.rng.Perm(len(out))
		sel := make([]v3.Vec, max)
		for k := range sel {
			sel[k] = out[pm[k]]
		}
		out = sel
	}
	return out
}

// ---------------------------------------------------------------- exact zeros of arbitrary operands

// firstNonNeg: f(lo) < 0 <= f(hi) (or the other way round in position): bisection on the float
// coordinate down to adjacent floats; returns the coordinate on the non-negative side
func firstNonNeg(f func(float64) float64, neg, nonneg float64) float64 {
	for it := 0; it < 200; it++ {
		mid := neg + (nonneg-neg)/2
		if mid == neg || mid == nonneg {
			break
		}
		if f(mid) < 0 {
			neg = mid
		} else {
			nonneg = mid
		}
	}
	return nonneg
}

// zeroPts2: for operand i, start at a point q strictly inside ANOTHER operand (and inside i),
// walk along +-x / +-y until operand i is non-negative while q stays inside the other operand's box,
// and bisect.  The returned points are on (or one float outside of) operand i's boundary.
func (h *harness) zeroPts2(kids []interface{}, tries int) []v2.Vec {
	var out []v2.Vec
	if len(kids) < 2 {
		return nil
	}
	for t := 0; t < tries; t++ {
		i := h.rng.Intn(len(kids))
		j := (i + 1 + h.rng.Intn(len(kids)-1)) % len(kids)
		ki, ok1 := kids[i].(*shapes.N2)
		kj, ok2 := kids[j].(*shapes.N2)
		if !ok1 || !ok2 {
			return nil
		}
		bi, bj := ki.Go.BoundingBox(), kj.Go.BoundingBox()
		lo := v2.Vec{X: math.Max(bi.Min.X, bj.Min.X), Y: math.Max(bi.Min.Y, bj.Min.Y)}
		hi := v2.Vec{X: math.Min(bi.Max.X, bj.Max.X), Y: math.Min(bi.Max.Y, bj.Max.Y)}
		if !(lo.X < hi.X && lo.Y < hi.Y) || !finite(lo.X, lo.Y, hi.X, hi.Y) {
			continue
		}
		// a start point inside both operands
		var q v2.Vec
		found := false
		for a := 0; a < 8 && !found; a++ {
			q = v2.Vec{X: h.rng.Uniform(lo.X, hi.X), Y: h.rng.Uniform(lo.Y, hi.Y)}
			found = ki.Go.Evaluate(q) < 0 && kj.Go.Evaluate(q) < 0
		}
		if !found {
			continue
		}
		horiz := h.rng.Bool()
		for _, end := range []float64{0, 1} {
			var f func(float64) float64
			var from, to float64
			if horiz {
				f = func(x float64) float64 { return ki.Go.Evaluate(v2.Vec{X: x, Y: q.Y}) }
				from, to = q.X, bi.Min.X-1+end*(bi.Max.X-bi.Min.X+2)
			} else {
				f = func(y float64) float64 { return ki.Go.Evaluate(v2.Vec{X: q.X, Y: y}) }
				from, to = q.Y, bi.Min.Y-1+end*(bi.Max.Y-bi.Min.Y+2)
			}
			if !(f(to) >= 0) {
				continue
			}
			z := firstNonNeg(f, from, to)
			if horiz {
				out = append(out, v2.Vec{X: z, Y: q.Y})
			} else {
				out = append(out, v2.Vec{X: q.X, Y: z})
			}
		}
	}
	return out
}

func (h *harness) zeroPts3(kids []interface{}, tries int) []v3.Vec {
	var out []v3.Vec
	if len(kids) < 2 {
		return nil
	}
	for t := 0; t < tries; t++ {
		i := h.rng.Intn(len(kids))
		j := (i + 1 + h.rng.Intn(len(kids)-1)) % len(kids)
		ki, ok1 := kids[i].(*shapes.N3)
		kj, ok2 := kids[j].(*shapes.N3)
		if !ok1 || !ok2 {
			return nil
		}
		bi, bj := ki.Go.BoundingBox(), kj.Go.BoundingBox()
		lo := v3.Vec{X: math.Max(bi.Min.X, bj.Min.X), Y: math.Max(bi.Min.Y, bj.Min.Y), Z: math.Max(bi.Min.Z, bj.Min.Z)}
		hi := v3.Vec{X: math.Min(bi.Max.X, bj.Max.X), Y: math.Min(bi.Max.Y, bj.Max.Y), Z: math.Min(bi.Max.Z, bj.Max.Z)}
		if !(lo.X < hi.X && lo.Y < hi.Y && lo.Z < hi.Z) || !finite(lo.X, lo.Y, lo.Z, hi.X, hi.Y, hi.Z) {
			continue
		}
		var q v3.Vec
		found := false
		for a := 0; a < 8 && !found; a++ {
			q = v3.Vec{X: h.rng.Uniform(lo.X, hi.X), Y: h.rng.Uniform(lo.Y, hi.Y), Z: h.rng.Uniform(lo.Z, hi.Z)}
			found = ki.Go.Evaluate(q) < 0 && kj.Go.Evaluate(q) < 0
		}
		if !found {
			continue
		}
		axis := h.rng.Intn(3)
		at := func(t float64) v3.Vec {
			p := q
			switch axis {
			case 0:
				p.X = t
			case 1:
				p.Y = t
			default:
				p.Z = t
			}
			return p
		}
		f := func(t float64) float64 { return ki.Go.Evaluate(at(t)) }
		from := []float64{q.X, q.Y, q.Z}[axis]
		mn := []float64{bi.Min.X, bi.Min.Y, bi.Min.Z}[axis]
		mx := []float64{bi.Max.X, bi.Max.Y, bi.Max.Z}[axis]
		for _, to := range []float64{mn - 1, mx + 1} {
			if !(f(to) >= 0) {
				continue
			}
			out = append(out, at(firstNonNeg(f, from, to)))
		}
	}
	return out
}

// ---------------------------------------------------------------- hook into oracle2 / oracle3

// extraPts2 / extraPts3: the seam points of a node (nil for combinators with a single operand value)
func (h *harness) extraPts2(pr params, kids []interface{}, origin string) []v2.Vec {
	bs := operandBoxes2(pr, kids)
	if len(bs) < 2 {
		return nil
	}
	max := seamBudget
	if origin == seamOrigin {
		max = 0
	}
	out := h.seamPts2(bs, max)
	if pr.kind != "fArray2" {
		zs := h.zeroPts2(kids, 2)
		for _, p := range zs {
			h.hist["seam2/bisection-points"]++
			for _, k := range kids {
				if ev2(k, p) == 0 {
					h.hist["seam2/bisection-points-with-an-exactly-zero-operand"]++
					break
				}
			}
		}
		out = append(out, zs...)
	}
	out = dedup2(out)
	// coverage: how many of these points are exact zeros of one operand strictly inside another
	if pr.kind == "fUnion2" {
		for _, p := range out {
			zero, neg := false, false
			for _, k := range kids {
				x := ev2(k, p)
				zero = zero || x == 0
				neg = neg || x < 0
			}
			h.hist["seam2/"+origin+"/points"]++
			if zero && neg {
				h.hist["seam2/"+origin+"/exact-zero-of-one-operand-strictly-inside-another"]++
			}
		}
	}
	return out
}

func (h *harness) extraPts3(pr params, kids []interface{}, origin string) []v3.Vec {
	bs := operandBoxes3(pr, kids)
	if len(bs) < 2 {
		return nil
	}
	max := seamBudget
	if origin == seamOrigin {
		max = 0
	}
	out := h.seamPts3(bs, max)
	if pr.kind != "fArray3" {
		zs := h.zeroPts3(kids, 1)
		for _, p := range zs {
			h.hist["seam3/bisection-points"]++
			for _, k := range kids {
				if ev3(k, p) == 0 {
					h.hist["seam3/bisection-points-with-an-exactly-zero-operand"]++
					break
				}
			}
		}
		out = append(out, zs...)
	}
	out = dedup3(out)
	if pr.kind == "fUnion3" {
		for _, p := range out {
			zero, neg := false, false
			for _, k := range kids {
				x := ev3(k, p)
				zero = zero || x == 0
				neg = neg || x < 0
			}
			h.hist["seam3/"+origin+"/points"]++
			if zero && neg {
				h.hist["seam3/"+origin+"/exact-zero-of-one-operand-strictly-inside-another"]++
			}
		}
	}
	return out
}

// ---------------------------------------------------------------- the dedicated stratum

const seamOrigin = "strata/seam"

func leaf2(s sdf.SDF2, desc string) *shapes.N2 { return &shapes.N2{Go: s, Desc: desc} }
func leaf3(s sdf.SDF3, desc string) *shapes.N3 { return &shapes.N3{Go: s, Desc: desc} }

// q4: k/4 in [lo, hi]
func (h *harness) q4(lo, hi float64) float64 {
	return float64(h.rng.Range(int(lo*4), int(hi*4))) / 4
}

// a primitive on the dyadic grid, centred at the origin: every value the shape computes at grid
// points along its axes is exact
func (h *harness) seamPrim2() *shapes.N2 {
	switch h.rng.Intn(7) {
	case 0, 1:
		sz := v2.Vec{X: h.q4(0.5, 4), Y: h.q4(0.5, 4)}
		return leaf2(sdf.Box2D(sz, 0), fmt.Sprintf("Box2D(%v,0)", sz))
	case 2:
		sz := v2.Vec{X: h.q4(1, 4), Y: h.q4(1, 4)}
		return leaf2(sdf.Box2D(sz, 0.25), fmt.Sprintf("Box2D(%v,0.25)", sz))
	case 3, 4:
		r := h.q4(0.25, 2)
		s, _ := sdf.Circle2D(r)
		return leaf2(s, fmt.Sprintf("Circle(%g)", r))
	case 5:
		l, r := h.q4(0.5, 3), h.q4(0.25, 1)
		return leaf2(sdf.Line2D(l, r), fmt.Sprintf("Line2D(%g,%g)", l, r))
	}
	sz := v2.Vec{X: h.q4(0.5, 3), Y: h.q4(0.5, 3)}
	off := h.q4(0.25, 0.5)
	n := leaf2(sdf.Box2D(sz, 0), fmt.Sprintf("Box2D(%v,0)", sz))
	return &shapes.N2{Go: sdf.Offset2D(n.Go, off), Desc: fmt.Sprintf("Offset2(%s,%g)", n.Desc, off), Kids: []interface{}{n}}
}

// place: translation on the grid, sometimes after an exact quarter turn or a mirror
func (h *harness) seamPlace2(n *shapes.N2, spread float64) *shapes.N2 {
	t := v2.Vec{X: h.q4(-spread, spread), Y: h.q4(-spread, spread)}
	m, tag := sdf.Translate2d(t), "T"
	switch h.rng.Intn(6) {
	case 0:
		m, tag = m.Mul(sdf.M33{0, -1, 0, 1, 0, 0, 0, 0, 1}), "T.Rot90" // exact quarter turn
	case 1:
		m, tag = m.Mul(sdf.MirrorX()), "T.MirrorX"
	case 2:
		if h.rng.Bool() {
			return n // left at the origin, not wrapped
		}
	}
	return &shapes.N2{Go: sdf.Transform2D(n.Go, m), Desc: fmt.Sprintf("Transform2[%s %v](%s)", tag, t, n.Desc), Kids: []interface{}{n}}
}

func (h *harness) seamPrim3() *shapes.N3 {
	switch h.rng.Intn(4) {
	case 0, 1:
		sz := v3.Vec{X: h.q4(0.5, 3), Y: h.q4(0.5, 3), Z: h.q4(0.5, 3)}
		s, _ := sdf.Box3D(sz, 0)
		return leaf3(s, fmt.Sprintf("Box3D(%v,0)", sz))
	case 2:
		r := h.q4(0.25, 2)
		s, _ := sdf.Sphere3D(r)
		return leaf3(s, fmt.Sprintf("Sphere(%g)", r))
	}
	hh, r := h.q4(0.5, 3), h.q4(0.25, 1.5)
	s, _ := sdf.Cylinder3D(hh, r, 0)
	return leaf3(s, fmt.Sprintf("Cylinder(%g,%g,0)", hh, r))
}

func (h *harness) seamPlace3(n *shapes.N3, spread float64) *shapes.N3 {
	t := v3.Vec{X: h.q4(-spread, spread), Y: h.q4(-spread, spread), Z: h.q4(-spread, spread)}
	if h.rng.Intn(5) == 0 {
		return n
	}
	return &shapes.N3{Go: sdf.Transform3D(n.Go, sdf.Translate3d(t)), Desc: fmt.Sprintf("Transform3[T %v](%s)", t, n.Desc), Kids: []interface{}{n}}
}

// the arrangement grid of a set of intervals: every end, every centre, the midpoints between
// consecutive coordinates and one step beyond both ends
func gridCoords(ivs [][2]float64) []float64 {
	var cs []float64
	for _, iv := range ivs {
		cs = append(cs, iv[0], iv[1], (iv[0]+iv[1])/2)
	}
	sort.Float64s(cs)
	var u []float64
	for _, c := range cs {
		if len(u) == 0 || u[len(u)-1] != c {
			u = append(u, c)
		}
	}
	out := []float64{u[0] - 0.5}
	for i, c := range u {
		out = append(out, c)
		if i+1 < len(u) {
			out = append(out, (c+u[i+1])/2)
		}
	}
	return append(out, u[len(u)-1]+0.5)
}

func permutations(n int) [][]int {
	if n == 1 {
		return [][]int{{0}}
	}
	var out [][]int
	for _, p := range permutations(n - 1) {
		for pos := 0; pos <= len(p); pos++ {
			q := append(append(append([]int{}, p[:pos]...), n-1), p[pos:]...)
			out = append(out, q)
		}
	}
	return out
}

// evaluate a 2D n-ary node on the full arrangement grid of its operands' boxes
func (h *harness) seamGrid2(pr params, s sdf.SDF2, kids []interface{}, desc string) {
	var xs, ys [][2]float64
	for _, b := range operandBoxes2(pr, kids) {
		xs = append(xs, [2]float64{b.Min.X, b.Max.X})
		ys = append(ys, [2]float64{b.Min.Y, b.Max.Y})
	}
	if len(xs) < 2 {
		return
	}
	var pts []v2.Vec
	for _, x := range gridCoords(xs) {
		for _, y := range gridCoords(ys) {
			pts = append(pts, v2.Vec{X: x, Y: y})
		}
	}
	h.oracle2pts(pr, s, kids, desc, "", seamOrigin, pts)
}

func (h *harness) seamGrid3(pr params, s sdf.SDF3, kids []interface{}, desc string) {
	var xs, ys, zs [][2]float64
	for _, b := range operandBoxes3(pr, kids) {
		xs = append(xs, [2]float64{b.Min.X, b.Max.X})
		ys = append(ys, [2]float64{b.Min.Y, b.Max.Y})
		zs = append(zs, [2]float64{b.Min.Z, b.Max.Z})
	}
	if len(xs) < 2 {
		return
	}
	var pts []v3.Vec
	for _, x := range gridCoords(xs) {
		for _, y := range gridCoords(ys) {
			for _, z := range gridCoords(zs) {
				pts = append(pts, v3.Vec{X: x, Y: y, Z: z})
			}
		}
	}
	h.oracle3pts(pr, s, kids, desc, "", seamOrigin, pts)
}

func descs(kids []interface{}) string {
	s := ""
	for i, k := range kids {
		if i > 0 {
			s += ","
		}
		switch n := k.(type) {
		case *shapes.N2:
			s += n.Desc
		case *shapes.N3:
			s += n.Desc
		}
	}
	return s
}

// seamStrata: n layouts of 2..4 overlapping operands on the grid; all operand orders; plain and blended
func (h *harness) seamStrata(n int) {
	// the textbook seams first (fixed, independent of the seed): two overlapping squares, a disc
	// touching the middle of a bar, the same with the operands swapped and a far third operand
	sq := func(w, hgt, x, y float64) *shapes.N2 {
		b := leaf2(sdf.Box2D(v2.Vec{X: w, Y: hgt}, 0), fmt.Sprintf("Box2D({%g %g},0)", w, hgt))
		if x == 0 && y == 0 {
			return b
		}
		return &shapes.N2{Go: sdf.Transform2D(b.Go, sdf.Translate2d(v2.Vec{X: x, Y: y})), Desc: fmt.Sprintf("Transform2[T {%g %g}](%s)", x, y, b.Desc), Kids: []interface{}{b}}
	}
	disc, _ := sdf.Circle2D(1)
	fixed := [][]interface{}{
		{sq(2, 2, 0, 0), sq(2, 2, 1, 0)},
		{leaf2(disc, "Circle(1)"), sq(4, 1, 2, 0), sq(1, 1, 10, 10)},
		{sq(4, 1, 2, 0), leaf2(disc, "Circle(1)")},
		{sq(2, 2, 0, 0), sq(2, 2, 2, 0)},     // sharing an edge
		{sq(2, 2, 0, 0), sq(1, 1, 0, 0)},     // nested, same centre
		{sq(2, 2, 0, 0), sq(2, 2, 0, 0)},     // identical
		{sq(2, 2, 0, 0), sq(1, 1, 0.5, 0.5)}, // nested, sharing a corner
	}
	for _, kids := range fixed {
		h.seamUnion2(kids, 0)
	}
	// an operand OUTSIDE the pruning contract, on a seam (found by the bisection points, seed 3): the chamfer
	// blend of the array puts material outside the array's box (known C01 class); at a point on the
	// line's boundary (value exactly 0) just outside that box the array is negative but pruned away.
	// The weaker oracle of oracle2 applies (counted in node_oracles); kept so that this branch is replayed.
	{
		ln := leaf2(sdf.Line2D(6, 0.5), "Line2D(6,0.5)")
		in := leaf2(sdf.Line2D(1.125, 0x1.6bf6271534df9p-02), "Line2D(1.125,0.3554311854070132)")
		ar := sdf.Array2D(in.Go, v2i.Vec{X: 1, Y: 2}, v2.Vec{X: 0x1.3731d709e28ccp+02, Y: 0.375})
		ar.(*sdf.ArraySDF2).SetMin(sdf.ChamferMin(0.875))
		an := &shapes.N2{Go: ar, Desc: "Array2[MinChamfer 0.875](Line2D(1.125,0.3554311854070132),1,2,{4.862416991856843 0.375})", Kids: []interface{}{in}}
		kids := []interface{}{ln, an}
		h.oracle2pts(params{kind: "fUnion2", blend: "MinDef"}, sdf.Union2D(ln.Go, an.Go), kids, "Union2[MinDef]("+descs(kids)+")", "", seamOrigin,
			[]v2.Vec{{X: -0x1.c0f0c91df5731p-01, Y: -0.5}})
	}
	for it := 0; it < n; it++ {
		spread := []float64{0.5, 1, 2, 4}[it%4]
		cnt := 2 + it%3
		var kids []interface{}
		for i := 0; i < cnt; i++ {
			kids = append(kids, h.seamPlace2(h.seamPrim2(), spread))
		}
		if it%5 == 4 { // an inner plain union as an operand
			a, b := kids[0].(*shapes.N2), kids[1].(*shapes.N2)
			in := &shapes.N2{Go: sdf.Union2D(a.Go, b.Go), Desc: fmt.Sprintf("Union2[MinDef](%s,%s)", a.Desc, b.Desc), Kids: []interface{}{a, b}}
			kids = append([]interface{}{in}, kids[2:]...)
			kids = append(kids, h.seamPlace2(h.seamPrim2(), spread))
		}
		h.seamUnion2(kids, it)

		// intersection and difference of the first two operands
		a, b := kids[0].(*shapes.N2), kids[1].(*shapes.N2)
		two := []interface{}{a, b}
		h.seamGrid2(params{kind: "fIntersect2", blend: "MaxDef"}, sdf.Intersect2D(a.Go, b.Go), two, fmt.Sprintf("Intersect2[MaxDef](%s)", descs(two)))
		h.seamGrid2(params{kind: "fDifference2", blend: "MaxDef"}, sdf.Difference2D(a.Go, b.Go), two, fmt.Sprintf("Difference2[MaxDef](%s)", descs(two)))

		// an array whose copies overlap or touch: step on the grid, at most the operand's size
		if it%3 == 0 {
			bb := a.Go.BoundingBox().Size()
			st := v2.Vec{X: math.Max(0.25, math.Floor(bb.X*h.rng.Uniform(0.3, 1)*4)/4), Y: math.Max(0.25, math.Floor(bb.Y*h.rng.Uniform(0.3, 1)*4)/4)}
			if h.rng.Bool() {
				st.X = bb.X // copies share an edge
			}
			num := v2i.Vec{X: h.rng.Range(2, 3), Y: h.rng.Range(1, 2)}
			one := []interface{}{a}
			h.seamGrid2(params{kind: "fArray2", blend: "MinDef", fs: []float64{st.X, st.Y}, is: []int{num.X, num.Y}}, sdf.Array2D(a.Go, num, st), one,
				fmt.Sprintf("Array2[MinDef](%s,%v,%s)", a.Desc, num, hx(st.X, st.Y)))
		}

		// 3D: every fourth layout (the grid is cubic in the number of coordinates)
		if it%4 == 0 {
			c3 := 2 + it/4%2
			var k3 []interface{}
			for i := 0; i < c3; i++ {
				k3 = append(k3, h.seamPlace3(h.seamPrim3(), []float64{0.5, 1, 2}[it/4%3]))
			}
			for _, pm := range permutations(c3) {
				var ks []interface{}
				var gs []sdf.SDF3
				for _, i := range pm {
					ks = append(ks, k3[i])
					gs = append(gs, k3[i].(*shapes.N3).Go)
				}
				h.seamGrid3(params{kind: "fUnion3", blend: "MinDef"}, sdf.Union3D(gs...), ks, fmt.Sprintf("Union3[MinDef](%s)", descs(ks)))
			}
			a3, b3 := k3[0].(*shapes.N3), k3[1].(*shapes.N3)
			two3 := []interface{}{a3, b3}
			h.seamGrid3(params{kind: "fIntersect3", blend: "MaxDef"}, sdf.Intersect3D(a3.Go, b3.Go), two3, fmt.Sprintf("Intersect3[MaxDef](%s)", descs(two3)))
			h.seamGrid3(params{kind: "fDifference3", blend: "MaxDef"}, sdf.Difference3D(a3.Go, b3.Go), two3, fmt.Sprintf("Difference3[MaxDef](%s)", descs(two3)))
			if it%8 == 0 {
				bb := a3.Go.BoundingBox().Size()
				st := v3.Vec{X: bb.X, Y: math.Max(0.25, math.Floor(bb.Y*2)/4), Z: bb.Z / 2}
				num := v3i.Vec{X: 2, Y: 2, Z: h.rng.Range(1, 2)}
				h.seamGrid3(params{kind: "fArray3", blend: "MinDef", fs: []float64{st.X, st.Y, st.Z}, is: []int{num.X, num.Y, num.Z}}, sdf.Array3D(a3.Go, num, st), []interface{}{a3},
					fmt.Sprintf("Array3[MinDef](%s,%v,%s)", a3.Desc, num, hx(st.X, st.Y, st.Z)))
			}
		}
	}
}

// one operand set: the plain union in every operand order (the pruning starts from the FIRST operand
// among those with the closest box), and one blended union (exhaustive path, bounds of the blend)
func (h *harness) seamUnion2(kids []interface{}, it int) {
	pms := permutations(len(kids))
	if len(pms) > 6 { // 4 operands: identity, reverse and four random orders
		sel := [][]int{pms[0], pms[len(pms)-1]}
		for k := 0; k < 4; k++ {
			sel = append(sel, pms[h.rng.Intn(len(pms))])
		}
		pms = sel
	}
	for _, pm := range pms {
		var ks []interface{}
		var gs []sdf.SDF2
		for _, i := range pm {
			ks = append(ks, kids[i])
			gs = append(gs, kids[i].(*shapes.N2).Go)
		}
		h.seamGrid2(params{kind: "fUnion2", blend: "MinDef"}, sdf.Union2D(gs...), ks, fmt.Sprintf("Union2[MinDef](%s)", descs(ks)))
	}
	if it%2 == 1 {
		var gs []sdf.SDF2
		for _, k := range kids {
			gs = append(gs, k.(*shapes.N2).Go)
		}
		kb := h.q4(0.25, 2)
		u := sdf.Union2D(gs...)
		u.(*sdf.UnionSDF2).SetMin(sdf.PolyMin(kb))
		h.seamGrid2(params{kind: "fUnion2", blend: "MinPoly", bk: kb}, u, kids, fmt.Sprintf("Union2[MinPoly %s](%s)", hx(kb), descs(kids)))
	}
}

// points handed to the next oracle2 / oracle3 call in addition to its own (the dedicated stratum)
var givenPts2 []v2.Vec
var givenPts3 []v3.Vec

func (h *harness) oracle2pts(pr params, s sdf.SDF2, kids []interface{}, desc, coq, origin string, pts []v2.Vec) {
	givenPts2 = pts
	h.oracle2(pr, s, kids, desc, coq, origin)
	givenPts2 = nil
}
func (h *harness) oracle3pts(pr params, s sdf.SDF3, kids []interface{}, desc, coq, origin string, pts []v3.Vec) {
	givenPts3 = pts
	h.oracle3(pr, s, kids, desc, coq, origin)
	givenPts3 = nil
}

// allPts2 / allPts3: random points in the node's box + the seam points of the node + the given ones
func (h *harness) allPts2(pr params, s sdf.SDF2, kids []interface{}, origin string) []v2.Vec {
	pts := h.pts2(s, npts)
	g := givenPts2
	givenPts2 = nil // not inherited by oracles called for other nodes
	pts = append(pts, h.extraPts2(pr, kids, origin)...)
	return append(pts, g...)
}
func (h *harness) allPts3(pr params, s sdf.SDF3, kids []interface{}, origin string) []v3.Vec {
	pts := h.pts3(s, npts)
	g := givenPts3
	givenPts3 = nil
	pts = append(pts, h.extraPts3(pr, kids, origin)...)
	return append(pts, g...)
}

func dedup2(ps []v2.Vec) []v2.Vec {
	seen := map[v2.Vec]bool{}
	out := ps[:0:0]
	for _, p := range ps {
		if !seen[p] {
			seen[p] = true
			out = append(out, p)
		}
	}
	return out
}
func dedup3(ps []v3.Vec) []v3.Vec {
	seen := map[v3.Vec]bool{}
	out := ps[:0:0]
	for _, p := range ps {
		if !seen[p] {
			seen[p] = true
			out = append(out, p)
		}
	}
	return out
}
