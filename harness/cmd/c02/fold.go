package main

// FOLD stratum: Array2D / Array3D / RotateUnion2D / RotateUnion3D / RotateCopy2D / RotateCopy3D against the
// fold over ALL copies computed here, in the regimes where a "the far copies cannot matter" shortcut is wrong.
//
// Why a stratum of its own: the node oracle of an array / rotate-union with a blend (oracles.go) only checks
// the BOUNDS that hold for every blend of the enum (result <= minimum, PolyMin >= minimum - n k/4), and its
// points stay within 0.65 box sizes of the box centre.  An evaluation that folds only SOME copies (the lattice
// neighbours of the point, the copies whose box is near, the first / last few) stays within those bounds
// wherever the dropped copies do not hold the minimum, and is bit-identical to the full fold for a plain
// minimum over an exact-distance operand.  It is wrong
//   - for a blend whose reach k is larger than the pitch (every copy within k of the minimum contributes to the
//     fillet: PolyMin(3 x pitch) over 20 copies is far below PolyMin over the two nearest),
//   - for a plain minimum over an operand whose values are not Euclidean distances (non-uniformly scaled and
//     then rotated: the smallest value far away is not at the nearest copy),
//   - for any caller-supplied MinFunc (SetMin accepts an arbitrary function, the implementation cannot know its
//     reach).
// Here the reference is the fold itself: d := MaxFloat64; for every copy in the documented order
// d = blend(d, operand(p - offset)), with the very closure that was installed with SetMin (sdf's own blends and
// blends defined in this file), compared within 1e-9 relative (plain minimum: bit for bit).  Parameter regimes:
// 1..20 copies per axis, step = 0.25 .. 4 x the operand's box size per axis (overlapping, touching, disjoint;
// negative and zero steps), k = 0.1, 1, 3, 10 x the pitch; operands: exact primitives (centred and off-centre),
// stretched-and-rotated primitives (Transform with a non-uniform scale), random trees; points in the box, at and
// between the copies, and 1.5 / 3 / 10 box diagonals outside along axes, diagonals and random directions.

import (
	"fmt"
	"math"

	"github.com/deadsy/sdfx/sdf"
	v2 "github.com/deadsy/sdfx/vec/v2"
	"github.com/deadsy/sdfx/vec/v2i"
	v3 "github.com/deadsy/sdfx/vec/v3"
	"github.com/deadsy/sdfx/vec/v3i"
	"verifharness/shapes"
)

type blendSpec struct {
	name string
	f    sdf.MinFunc // nil: the default (plain minimum), SetMin is not called
}

// blends defined in the harness: SetMin takes ANY function of two values
func harnessPoly(k float64) sdf.MinFunc {
	return func(a, b float64) float64 {
		t := math.Max(0, math.Min(1, 0.5+0.5*(b-a)/k))
		return b + (a-b)*t - k*t*(1-t)
	}
}

// smooth minimum with unbounded reach (every copy contributes), evaluated stably
func harnessSoft(k float64) sdf.MinFunc {
	return func(a, b float64) float64 {
		return math.Min(a, b) - k*math.Log1p(math.Exp(-math.Abs(a-b)/k))
	}
}

func (h *harness) foldBlend(pitch float64) blendSpec {
	k := pitch * []float64{0.1, 1, 1, 3, 3, 10}[h.rng.Intn(6)]
	if !(k > 1e-6) || math.IsInf(k, 0) {
		k = 1
	}
	switch h.rng.Intn(9) {
	case 0, 1:
		return blendSpec{"MinDef", nil}
	case 2, 3, 4:
		return blendSpec{fmt.Sprintf("PolyMin(%s)", hx(k)), sdf.PolyMin(k)}
	case 5:
		return blendSpec{fmt.Sprintf("harnessPoly(%s)", hx(k)), harnessPoly(k)}
	case 6:
		return blendSpec{fmt.Sprintf("RoundMin(%s)", hx(k)), sdf.RoundMin(k)}
	case 7:
		return blendSpec{fmt.Sprintf("ChamferMin(%s)", hx(k)), sdf.ChamferMin(k)}
	}
	return blendSpec{fmt.Sprintf("harnessSoftMin(%s)", hx(k)), harnessSoft(k)}
}

func (b blendSpec) fold(vals []float64) float64 {
	f := b.f
	if f == nil {
		f = math.Min
	}
	d := math.MaxFloat64
	for _, x := range vals {
		d = f(d, x)
	}
	return d
}

// agreement of an implementation value with the fold: bit for bit under the plain minimum, 1e-9 relative under a blend
func (b blendSpec) agrees(got, want float64, scale ...float64) bool {
	if sameBits(got, want) || (math.IsNaN(got) && math.IsNaN(want)) {
		return true
	}
	if b.f == nil {
		return false
	}
	return closeTo(got, want, scale...)
}

func okSize(xs ...float64) bool {
	for _, x := range xs {
		if !finite(x) || math.Abs(x) > 1e3 {
			return false
		}
	}
	return true
}

// ---- operands

func (h *harness) foldOperand3() *shapes.N3 {
	switch h.rng.Intn(8) {
	case 0:
		return h.seamPrim3()
	case 1:
		return h.seamPlace3(h.seamPrim3(), 2)
	case 2, 3, 4: // stretched, then turned: values are not distances, the level sets are skewed against the lattice
		n := h.seamPrim3()
		sc := v3.Vec{X: []float64{0.25, 0.5, 2, 4, 6}[h.rng.Intn(5)], Y: []float64{0.25, 1, 1, 3}[h.rng.Intn(4)], Z: []float64{0.5, 1, 2}[h.rng.Intn(3)]}
		var rot sdf.M44
		var tag string
		switch h.rng.Intn(3) {
		case 0:
			rot, tag = sdf.RotateZ(math.Pi/4), "RotateZ(pi/4)"
		case 1:
			a := h.rng.Uniform(-math.Pi, math.Pi)
			rot, tag = sdf.RotateZ(a), fmt.Sprintf("RotateZ(%s)", hx(a))
		default:
			ax := v3.Vec{X: h.rng.Uniform(-1, 1), Y: h.rng.Uniform(-1, 1), Z: h.rng.Uniform(0.2, 1)}
			a := h.rng.Uniform(-math.Pi, math.Pi)
			rot, tag = sdf.Rotate3d(ax, a), fmt.Sprintf("Rotate3d(%s)", hx(ax.X, ax.Y, ax.Z, a))
		}
		m := rot.Mul(sdf.Scale3d(sc))
		return &shapes.N3{Go: sdf.Transform3D(n.Go, m), Desc: fmt.Sprintf("Transform3[%s.Scale3d(%s)](%s)", tag, hx(sc.X, sc.Y, sc.Z), n.Desc), Kids: []interface{}{n}}
	}
	return h.g.Gen3(h.rng.Range(1, 2))
}

func (h *harness) foldOperand2() *shapes.N2 {
	switch h.rng.Intn(8) {
	case 0:
		return h.seamPrim2()
	case 1:
		return h.seamPlace2(h.seamPrim2(), 2)
	case 2, 3, 4:
		n := h.seamPrim2()
		sc := v2.Vec{X: []float64{0.25, 0.5, 2, 4, 6}[h.rng.Intn(5)], Y: []float64{0.25, 1, 1, 3}[h.rng.Intn(4)]}
		a := math.Pi / 4
		if h.rng.Bool() {
			a = h.rng.Uniform(-math.Pi, math.Pi)
		}
		m := sdf.Rotate2d(a).Mul(sdf.Scale2d(sc))
		return &shapes.N2{Go: sdf.Transform2D(n.Go, m), Desc: fmt.Sprintf("Transform2[Rotate2d(%s).Scale2d(%s)](%s)", hx(a), hx(sc.X, sc.Y), n.Desc), Kids: []interface{}{n}}
	}
	return h.g.Gen2(h.rng.Range(1, 2))
}

// ---- counts and steps

// per-axis counts with at most ~64 copies in all; 1..20 on a single axis
func (h *harness) foldCounts(axes int) []int {
	n := []int{1, 1, 1}
	switch h.rng.Intn(6) {
	case 0: // one long axis
		n[h.rng.Intn(axes)] = h.rng.Range(2, 20)
	case 1: // long x short
		a := h.rng.Intn(axes)
		n[a] = h.rng.Range(4, 20)
		n[(a+1)%axes] = h.rng.Range(1, 3)
	case 2:
		for i := 0; i < axes; i++ {
			n[i] = h.rng.Range(1, 4)
		}
	case 3:
		for i := 0; i < axes; i++ {
			n[i] = h.rng.Range(2, 3)
		}
	case 4:
		n[h.rng.Intn(axes)] = 20
	default:
		for i := 0; i < axes; i++ {
			n[i] = h.rng.Range(1, 2)
		}
	}
	return n
}

// step along one axis for an operand of the given box size: overlapping, touching or disjoint copies
func (h *harness) foldStep(size float64, disjoint bool) float64 {
	size = math.Max(size, 0.1)
	var f float64
	if disjoint {
		f = []float64{1, 1.25, 2, 4}[h.rng.Intn(4)]
	} else {
		f = []float64{0.25, 0.6, 1, 1.25, 2, 4}[h.rng.Intn(6)]
		switch h.rng.Intn(12) {
		case 0, 1:
			f = -f
		case 2:
			f = 0
		}
	}
	return f * size
}

func unit3(h *harness) v3.Vec {
	for {
		d := v3.Vec{X: h.rng.Uniform(-1, 1), Y: h.rng.Uniform(-1, 1), Z: h.rng.Uniform(-1, 1)}
		if l := d.Length(); l > 0.1 {
			return d.DivScalar(l)
		}
	}
}

// directions from the box centre: axes, diagonals, random
func (h *harness) farDirs3(n int) []v3.Vec {
	out := []v3.Vec{}
	for i := 0; i < n; i++ {
		switch h.rng.Intn(3) {
		case 0:
			d := v3.Vec{}
			s := float64(1 - 2*h.rng.Intn(2))
			switch h.rng.Intn(3) {
			case 0:
				d.X = s
			case 1:
				d.Y = s
			default:
				d.Z = s
			}
			out = append(out, d)
		case 1:
			d := v3.Vec{X: float64(h.rng.Intn(3) - 1), Y: float64(h.rng.Intn(3) - 1), Z: float64(h.rng.Intn(3) - 1)}
			if d.Length() == 0 {
				d.X = -1
			}
			out = append(out, d.Normalize())
		default:
			out = append(out, unit3(h))
		}
	}
	return out
}

// ---- Array3D

func (h *harness) foldArray3(it int) {
	kid := h.foldOperand3()
	bb := kid.Go.BoundingBox()
	sz, c0 := bb.Size(), bb.Center()
	if !okSize(sz.X, sz.Y, sz.Z, c0.X, c0.Y, c0.Z) {
		return
	}
	n := h.foldCounts(3)
	disjoint := it%2 == 0
	st := v3.Vec{X: h.foldStep(sz.X, disjoint), Y: h.foldStep(sz.Y, disjoint), Z: h.foldStep(sz.Z, disjoint)}
	pitch := 0.0
	for i, s := range []float64{st.X, st.Y, st.Z} {
		if n[i] > 1 {
			pitch = math.Max(pitch, math.Abs(s))
		}
	}
	if pitch == 0 {
		pitch = sz.MaxComponent()
	}
	bl := h.foldBlend(pitch)
	arr := sdf.Array3D(kid.Go, v3i.Vec{X: n[0], Y: n[1], Z: n[2]}, st)
	if arr == nil {
		return
	}
	if bl.f != nil {
		arr.(*sdf.ArraySDF3).SetMin(bl.f)
	}
	regime := "overlap-or-mixed"
	if disjoint {
		regime = "disjoint"
	}
	desc := fmt.Sprintf("Array3[%s](%s,%v,%s)", bl.name, kid.Desc, n, hx(st.X, st.Y, st.Z))
	h.r.Case("oracle/fold/fArray3/"+regime+"/"+blendKind(bl), "fold3:"+desc, true)
	h.hist["fold/fArray3"]++
	v := viol{h, "fold-fArray3", desc, ""}
	off := func(j, k, l float64) v3.Vec { return v3.Vec{X: j * st.X, Y: k * st.Y, Z: l * st.Z} }
	ref := func(p v3.Vec) float64 {
		vals := make([]float64, 0, n[0]*n[1]*n[2])
		for j := 0; j < n[0]; j++ {
			for k := 0; k < n[1]; k++ {
				for l := 0; l < n[2]; l++ {
					vals = append(vals, kid.Go.Evaluate(p.Sub(off(float64(j), float64(k), float64(l)))))
				}
			}
		}
		return bl.fold(vals)
	}
	abb := arr.BoundingBox()
	ac, diag := abb.Center(), abb.Size().Length()
	pts := h.pts3(arr, 3)
	for i := 0; i < 4; i++ { // at a copy, between two copies, half a pitch beyond the last copy
		j, k, l := float64(h.rng.Intn(n[0])), float64(h.rng.Intn(n[1])), float64(h.rng.Intn(n[2]))
		switch i {
		case 1:
			j, k, l = j+0.5, k+0.5*float64(h.rng.Intn(2)), l+0.5*float64(h.rng.Intn(2))
		case 2:
			j = float64(n[0]) - 0.5
		case 3:
			j, k, l = j+h.rng.Uniform(-1, 1), k+h.rng.Uniform(-1, 1), l+h.rng.Uniform(-1, 1)
		}
		pts = append(pts, c0.Add(off(j, k, l)))
	}
	if okSize(diag, ac.X, ac.Y, ac.Z) {
		for _, d := range h.farDirs3(6) {
			r := diag * []float64{0.75, 1.5, 3, 10}[h.rng.Intn(4)]
			pts = append(pts, ac.Add(d.MulScalar(r)))
		}
	}
	for _, p := range pts {
		if !finite(p.X, p.Y, p.Z) {
			continue
		}
		h.hist["fold/points"]++
		got, want := arr.Evaluate(p), ref(p)
		if !bl.agrees(got, want, p.Length(), pitch) {
			v.at(p, fmt.Sprintf("Array3D(%s copies, step %v, %s copies)%s.Evaluate(%v) = %v, but the fold of %s over ALL %d copies of the operand at p - (j,k,l)*step is %v; inside/outside %v vs %v",
				fmt.Sprint(n), st, regime, setMinTag(bl), p, got, bl.name, n[0]*n[1]*n[2], want, got < 0, want < 0))
			return
		}
	}
}

func blendKind(b blendSpec) string {
	for i, c := range b.name {
		if c == '(' {
			return b.name[:i]
		}
	}
	return b.name
}
func setMinTag(b blendSpec) string {
	if b.f == nil {
		return ""
	}
	return ".SetMin(" + b.name + ")"
}

// ---- Array2D

func (h *harness) foldArray2(it int) {
	kid := h.foldOperand2()
	bb := kid.Go.BoundingBox()
	sz, c0 := bb.Size(), bb.Center()
	if !okSize(sz.X, sz.Y, c0.X, c0.Y) {
		return
	}
	n := h.foldCounts(2)
	disjoint := it%2 == 0
	st := v2.Vec{X: h.foldStep(sz.X, disjoint), Y: h.foldStep(sz.Y, disjoint)}
	pitch := 0.0
	for i, s := range []float64{st.X, st.Y} {
		if n[i] > 1 {
			pitch = math.Max(pitch, math.Abs(s))
		}
	}
	if pitch == 0 {
		pitch = sz.MaxComponent()
	}
	bl := h.foldBlend(pitch)
	arr := sdf.Array2D(kid.Go, v2i.Vec{X: n[0], Y: n[1]}, st)
	if arr == nil {
		return
	}
	if bl.f != nil {
		arr.(*sdf.ArraySDF2).SetMin(bl.f)
	}
	regime := "overlap-or-mixed"
	if disjoint {
		regime = "disjoint"
	}
	desc := fmt.Sprintf("Array2[%s](%s,%v,%s)", bl.name, kid.Desc, n[:2], hx(st.X, st.Y))
	h.r.Case("oracle/fold/fArray2/"+regime+"/"+blendKind(bl), "fold2:"+desc, true)
	h.hist["fold/fArray2"]++
	v := viol{h, "fold-fArray2", desc, ""}
	ref := func(p v2.Vec) float64 {
		vals := make([]float64, 0, n[0]*n[1])
		for j := 0; j < n[0]; j++ {
			for k := 0; k < n[1]; k++ {
				vals = append(vals, kid.Go.Evaluate(p.Sub(v2.Vec{X: float64(j) * st.X, Y: float64(k) * st.Y})))
			}
		}
		return bl.fold(vals)
	}
	abb := arr.BoundingBox()
	ac, diag := abb.Center(), abb.Size().Length()
	pts := h.pts2(arr, 3)
	for i := 0; i < 4; i++ {
		j, k := float64(h.rng.Intn(n[0])), float64(h.rng.Intn(n[1]))
		switch i {
		case 1:
			j, k = j+0.5, k+0.5*float64(h.rng.Intn(2))
		case 2:
			j = float64(n[0]) - 0.5
		case 3:
			j, k = j+h.rng.Uniform(-1, 1), k+h.rng.Uniform(-1, 1)
		}
		pts = append(pts, c0.Add(v2.Vec{X: j * st.X, Y: k * st.Y}))
	}
	if okSize(diag, ac.X, ac.Y) {
		for _, d := range h.farDirs3(6) {
			d2 := v2.Vec{X: d.X, Y: d.Y}
			if d2.Length() < 0.1 {
				d2 = v2.Vec{X: -1}
			}
			r := diag * []float64{0.75, 1.5, 3, 10}[h.rng.Intn(4)]
			pts = append(pts, ac.Add(d2.Normalize().MulScalar(r)))
		}
	}
	for _, p := range pts {
		if !finite(p.X, p.Y) {
			continue
		}
		h.hist["fold/points"]++
		got, want := arr.Evaluate(p), ref(p)
		if !bl.agrees(got, want, p.Length(), pitch) {
			v.at(p, fmt.Sprintf("Array2D(%v copies, step %v, %s copies)%s.Evaluate(%v) = %v, but the fold of %s over ALL %d copies of the operand at p - (j,k)*step is %v; inside/outside %v vs %v",
				n[:2], st, regime, setMinTag(bl), p, got, bl.name, n[0]*n[1], want, got < 0, want < 0))
			return
		}
	}
}

// ---- RotateUnion3D / 2D: copy i is the operand moved by step^i (a rotation, possibly with a translation: a staircase)

func (h *harness) foldRotUnion3() {
	kid := h.foldOperand3()
	bb := kid.Go.BoundingBox()
	sz, c0 := bb.Size(), bb.Center()
	if !okSize(sz.X, sz.Y, sz.Z, c0.X, c0.Y, c0.Z) {
		return
	}
	num := []int{1, 2, 3, 5, 8, 12, 20, h.rng.Range(1, 20)}[h.rng.Intn(8)]
	var ang float64
	switch h.rng.Intn(4) {
	case 0:
		ang = 2 * math.Pi / float64(num)
	case 1:
		ang = h.rng.Uniform(0.02, 0.2) // heavily overlapping copies
	case 2:
		ang = -h.rng.Uniform(0.2, 2)
	default:
		ang = h.rng.Uniform(0.2, 3)
	}
	ax := v3.Vec{Z: 1}
	if h.rng.Intn(3) == 0 {
		ax = unit3(h)
	}
	m := sdf.Rotate3d(ax, ang)
	tag := fmt.Sprintf("Rotate3d(%s)", hx(ax.X, ax.Y, ax.Z, ang))
	if h.rng.Intn(3) == 0 { // staircase
		t := ax.MulScalar(h.rng.Uniform(-1, 1) * math.Max(sz.Z, 0.2))
		m = sdf.Translate3d(t).Mul(m)
		tag = fmt.Sprintf("Translate3d(%s).", hx(t.X, t.Y, t.Z)) + tag
	}
	inv, ok := exactInverse44(m)
	if !ok {
		return
	}
	ext := math.Max(sz.MaxComponent(), 0.2)
	bl := h.foldBlend(ext)
	ru := sdf.RotateUnion3D(kid.Go, num, m)
	if ru == nil {
		return
	}
	if bl.f != nil {
		ru.(*sdf.RotateUnionSDF3).SetMin(bl.f)
	}
	desc := fmt.Sprintf("RotateUnion3[%s](%s,%d,%s)", bl.name, kid.Desc, num, tag)
	h.r.Case("oracle/fold/fRotateUnion3/"+blendKind(bl), "fold3:"+desc, true)
	h.hist["fold/fRotateUnion3"]++
	v := viol{h, "fold-fRotateUnion3", desc, ""}
	ref := func(p v3.Vec) float64 {
		vals := make([]float64, 0, num)
		x := p
		for i := 0; i < num; i++ {
			vals = append(vals, kid.Go.Evaluate(x))
			x = inv.MulPosition(x)
		}
		return bl.fold(vals)
	}
	abb := ru.BoundingBox()
	ac, diag := abb.Center(), abb.Size().Length()
	pts := h.pts3(ru, 3)
	x := c0
	for i := 0; i < num; i++ { // at some copies
		if h.rng.Intn(num) < 3 {
			pts = append(pts, x)
		}
		x = m.MulPosition(x)
	}
	if okSize(diag, ac.X, ac.Y, ac.Z) {
		for _, d := range h.farDirs3(5) {
			pts = append(pts, ac.Add(d.MulScalar(diag*[]float64{0.75, 1.5, 3, 10}[h.rng.Intn(4)])))
		}
	}
	for _, p := range pts {
		if !finite(p.X, p.Y, p.Z) {
			continue
		}
		h.hist["fold/points"]++
		got, want := ru.Evaluate(p), ref(p)
		if !foldClose(got, want, 8*(p.Length()+diag+1), ext) {
			v.at(p, fmt.Sprintf("RotateUnion3D(%d copies)%s.Evaluate(%v) = %v, but the fold of %s over ALL %d copies (operand at step^-i p, inverse from exact rational arithmetic) is %v; inside/outside %v vs %v",
				num, setMinTag(bl), p, got, bl.name, num, want, got < 0, want < 0))
			return
		}
	}
}

func foldClose(got, want float64, scale ...float64) bool {
	return sameBits(got, want) || (math.IsNaN(got) && math.IsNaN(want)) || closeTo(got, want, scale...)
}

func (h *harness) foldRotUnion2() {
	kid := h.foldOperand2()
	bb := kid.Go.BoundingBox()
	sz, c0 := bb.Size(), bb.Center()
	if !okSize(sz.X, sz.Y, c0.X, c0.Y) {
		return
	}
	num := []int{1, 2, 3, 5, 8, 12, 20, h.rng.Range(1, 20)}[h.rng.Intn(8)]
	var ang float64
	switch h.rng.Intn(4) {
	case 0:
		ang = 2 * math.Pi / float64(num)
	case 1:
		ang = h.rng.Uniform(0.02, 0.2)
	case 2:
		ang = -h.rng.Uniform(0.2, 2)
	default:
		ang = h.rng.Uniform(0.2, 3)
	}
	m := sdf.Rotate2d(ang)
	tag := fmt.Sprintf("Rotate2d(%s)", hx(ang))
	if h.rng.Intn(3) == 0 { // spiral of copies
		t := v2.Vec{X: h.rng.Uniform(-1, 1), Y: h.rng.Uniform(-1, 1)}
		m = sdf.Translate2d(t).Mul(m)
		tag = fmt.Sprintf("Translate2d(%s).", hx(t.X, t.Y)) + tag
	}
	inv, ok := exactInverse33(m)
	if !ok {
		return
	}
	ext := math.Max(sz.MaxComponent(), 0.2)
	bl := h.foldBlend(ext)
	ru := sdf.RotateUnion2D(kid.Go, num, m)
	if ru == nil {
		return
	}
	if bl.f != nil {
		ru.(*sdf.RotateUnionSDF2).SetMin(bl.f)
	}
	desc := fmt.Sprintf("RotateUnion2[%s](%s,%d,%s)", bl.name, kid.Desc, num, tag)
	h.r.Case("oracle/fold/fRotateUnion2/"+blendKind(bl), "fold2:"+desc, true)
	h.hist["fold/fRotateUnion2"]++
	v := viol{h, "fold-fRotateUnion2", desc, ""}
	ref := func(p v2.Vec) float64 {
		vals := make([]float64, 0, num)
		x := p
		for i := 0; i < num; i++ {
			vals = append(vals, kid.Go.Evaluate(x))
			x = inv.MulPosition(x)
		}
		return bl.fold(vals)
	}
	abb := ru.BoundingBox()
	ac, diag := abb.Center(), abb.Size().Length()
	pts := h.pts2(ru, 3)
	x := c0
	for i := 0; i < num; i++ {
		if h.rng.Intn(num) < 3 {
			pts = append(pts, x)
		}
		x = m.MulPosition(x)
	}
	if okSize(diag, ac.X, ac.Y) {
		for i := 0; i < 5; i++ {
			a := h.rng.Uniform(-math.Pi, math.Pi)
			if i < 2 {
				a = float64(h.rng.Intn(8)) * math.Pi / 4
			}
			r := diag * []float64{0.75, 1.5, 3, 10}[h.rng.Intn(4)]
			pts = append(pts, ac.Add(v2.Vec{X: r * math.Cos(a), Y: r * math.Sin(a)}))
		}
	}
	for _, p := range pts {
		if !finite(p.X, p.Y) {
			continue
		}
		h.hist["fold/points"]++
		got, want := ru.Evaluate(p), ref(p)
		if !foldClose(got, want, 8*(p.Length()+diag+1), ext) {
			v.at(p, fmt.Sprintf("RotateUnion2D(%d copies)%s.Evaluate(%v) = %v, but the fold of %s over ALL %d copies (operand at step^-i p, inverse from exact rational arithmetic) is %v; inside/outside %v vs %v",
				num, setMinTag(bl), p, got, bl.name, num, want, got < 0, want < 0))
			return
		}
	}
}

// ---- RotateCopy2D / 3D: the operand at the point turned back into the sector [-pi/n, pi/n), for operands that are
// off-centre / stretched and for points far outside the box

func sectorBack(x, y float64, n int) (float64, float64, bool) {
	theta := 2 * math.Pi / float64(n)
	phi, rho := math.Atan2(y, x), math.Hypot(x, y)
	if rho < 1e-3 || nearBoundary(phi, theta, theta/2) < 1e-6 {
		return 0, 0, false
	}
	m := math.Floor((phi + theta/2) / theta)
	a := phi - m*theta
	return rho * math.Cos(a), rho * math.Sin(a), true
}

func (h *harness) foldRotCopy() {
	n := []int{1, 2, 3, 4, 6, 7, 12, 20, h.rng.Range(1, 20)}[h.rng.Intn(9)]
	{
		kid := h.foldOperand3()
		bb := kid.Go.BoundingBox()
		sz, c0 := bb.Size(), bb.Center()
		if okSize(sz.X, sz.Y, sz.Z, c0.X, c0.Y, c0.Z) {
			rc := sdf.RotateCopy3D(kid.Go, n)
			desc := fmt.Sprintf("RotateCopy3(%s,%d)", kid.Desc, n)
			h.r.Case("oracle/fold/fRotateCopy3", "fold3:"+desc, true)
			h.hist["fold/fRotateCopy3"]++
			v := viol{h, "fold-fRotateCopy3", desc, ""}
			diag := rc.BoundingBox().Size().Length()
			pts := h.pts3(rc, 3)
			if okSize(diag) {
				for _, d := range h.farDirs3(5) {
					pts = append(pts, d.MulScalar(diag*[]float64{0.75, 1.5, 3, 10}[h.rng.Intn(4)]).Add(v3.Vec{Z: c0.Z}))
				}
			}
			for _, p := range pts {
				x, y, ok := sectorBack(p.X, p.Y, n)
				if !ok || !finite(p.X, p.Y, p.Z) {
					continue
				}
				h.hist["fold/points"]++
				got, want := rc.Evaluate(p), kid.Go.Evaluate(v3.Vec{X: x, Y: y, Z: p.Z})
				if !foldClose(got, want, 8*(p.Length()+1)) {
					v.at(p, fmt.Sprintf("RotateCopy3D(n=%d).Evaluate(%v) = %v, the operand at the point turned back into the sector [-pi/n, pi/n) = (%v,%v,%v) gives %v", n, p, got, x, y, p.Z, want))
					break
				}
			}
		}
	}
	kid := h.foldOperand2()
	bb := kid.Go.BoundingBox()
	sz, c0 := bb.Size(), bb.Center()
	if !okSize(sz.X, sz.Y, c0.X, c0.Y) {
		return
	}
	rc := sdf.RotateCopy2D(kid.Go, n)
	desc := fmt.Sprintf("RotateCopy2(%s,%d)", kid.Desc, n)
	h.r.Case("oracle/fold/fRotateCopy2", "fold2:"+desc, true)
	h.hist["fold/fRotateCopy2"]++
	v := viol{h, "fold-fRotateCopy2", desc, ""}
	diag := rc.BoundingBox().Size().Length()
	pts := h.pts2(rc, 3)
	if okSize(diag) {
		for i := 0; i < 5; i++ {
			a := h.rng.Uniform(-math.Pi, math.Pi)
			r := diag * []float64{0.75, 1.5, 3, 10}[h.rng.Intn(4)]
			pts = append(pts, v2.Vec{X: r * math.Cos(a), Y: r * math.Sin(a)})
		}
	}
	for _, p := range pts {
		x, y, ok := sectorBack(p.X, p.Y, n)
		if !ok || !finite(p.X, p.Y) {
			continue
		}
		h.hist["fold/points"]++
		got, want := rc.Evaluate(p), kid.Go.Evaluate(v2.Vec{X: x, Y: y})
		if !foldClose(got, want, 8*(p.Length()+1)) {
			v.at(p, fmt.Sprintf("RotateCopy2D(n=%d).Evaluate(%v) = %v, the operand at the point turned back into the sector [-pi/n, pi/n) = (%v,%v) gives %v", n, p, got, x, y, want))
			return
		}
	}
}

func (h *harness) foldStrata(n int) {
	for i := 0; i < n; i++ {
		h.foldArray3(i)
		h.foldArray2(i)
		if i%2 == 0 {
			h.foldRotUnion3()
			h.foldRotUnion2()
		}
		if i%4 == 0 {
			h.foldRotCopy()
		}
	}
}
