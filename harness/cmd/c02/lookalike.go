package main

// Look-alike matrices: matrices that pass one cheap structural test ("determinant +-1, so it is a
// rigid motion", "off-diagonal entries small, so it is diagonal", "linear part the identity, so it
// is a translation", "symmetric", "bottom row (0,0,0,1), so it is affine") without belonging to the
// class the test is meant to recognise.  A shortcut in M22/M33/M44.Inverse (or in Transform2D/3D,
// RotateUnion2D/3D, which map the query point back with the inverse) that is exact on the class but
// guarded by such a test gives a wrong inverse exactly on these matrices and nowhere else: every
// rotation, mirror, translation and every scaling whose factors do not multiply to +-1 is unaffected.
//
// Strata of the linear part L (2x2 or 3x3):
//   det1-scale-dyadic   axis scalings with product exactly +-1 (2, 1/2, 1), (4, 1/2, 1/2), ...
//   det1-scale          (a, b, 1/(a b)): determinant 1 within a few ulps; and (1+d)/(a b), |d| = 1e-16 .. 1e-7
//   det1-shear          unit triangular (one or all off-diagonal entries), in any row order
//   det1-unimodular     products of elementary integer row operations (dense, integer, det +-1)
//   orthogonal-columns  R diag(a,b,c) / diag(a,b,c) R with different lengths (half of them with a b c = 1),
//                       and lengths that differ by 1e-9 .. 1e-3 only (looks like a uniform scaling)
//   rotation+shear      rotation plus a shear / general perturbation of size 1e-10 .. 1e-3
//   near-identity       I + e E (with a translation: looks like a pure translation)
//   near-diagonal       diagonal + e E, and diagonal plus ONE off-diagonal entry of ordinary size
//   symmetric           symmetric positive definite, and the same plus e * antisymmetric
// each of them optionally composed with rotations (exact quarter turns / mirrors or generic) on either
// side and with translations, and (inverse / product oracles only) with the bottom row moved off
// (0,..,0,1) by 1e-12 .. 1e-3.
//
// Oracles (all independent of the implementation's own Inverse):
//   * Inverse / Determinant / Mul / MulPosition against exact rational arithmetic (math/big, Gauss-Jordan
//     for the inverse) within a running error bound of the cofactor formula: 64 ulp of
//     (sum of |terms| of the cofactor + |inverse entry| * sum of |terms| of the determinant) / |det|,
//     which is conditioning-aware and holds for any reasonable association of the same formula;
//   * a * Inverse(a) = Inverse(a) * a = identity (the existing oracles);
//   * Transform2D/3D(s, M).Evaluate(p) = s.Evaluate(M^-1 p) with M^-1 from the rationals, at points
//     p = M q (q around the operand) and at points around the transformed box, plus the forward oracle
//     Evaluate(M q) = s.Evaluate(q);
//   * RotateUnion2D/3D with a non-orthogonal step: minimum over the operand at step^-i p, the powers of
//     the inverse taken in the rationals.
// The same cases go to the Coq model (OInv / ODet / OMul / OPos of coq/Sdf/C02Corr.v).

import (
	"fmt"
	"math"
	"math/big"
	"strings"

	"github.com/deadsy/sdfx/sdf"
	v2 "github.com/deadsy/sdfx/vec/v2"
	v3 "github.com/deadsy/sdfx/vec/v3"
	"verifharness/shapes"
)

// ---------------------------------------------------------------- exact arithmetic

type ratMat struct {
	n int
	a []*big.Rat // row major
}

func ratOf(n int, a []float64) *ratMat {
	m := &ratMat{n: n, a: make([]*big.Rat, n*n)}
	for i := range m.a {
		m.a[i] = new(big.Rat).SetFloat64(a[i])
		if m.a[i] == nil { // NaN / Inf
			return nil
		}
	}
	return m
}

func ratIdentity(n int) *ratMat {
	m := &ratMat{n: n, a: make([]*big.Rat, n*n)}
	for i := range m.a {
		m.a[i] = new(big.Rat)
		if i/n == i%n {
			m.a[i].SetInt64(1)
		}
	}
	return m
}

func (m *ratMat) mul(b *ratMat) *ratMat {
	n := m.n
	out := &ratMat{n: n, a: make([]*big.Rat, n*n)}
	t := new(big.Rat)
	for i := 0; i < n; i++ {
		for j := 0; j < n; j++ {
			s := new(big.Rat)
			for k := 0; k < n; k++ {
				s.Add(s, t.Mul(m.a[i*n+k], b.a[k*n+j]))
			}
			out.a[i*n+j] = s
		}
	}
	return out
}

// inverse by Gauss-Jordan elimination over the rationals (nil if singular); also the determinant
func (m *ratMat) inverse() (*ratMat, *big.Rat) {
	n := m.n
	w := make([]*big.Rat, n*n)
	for i := range w {
		w[i] = new(big.Rat).Set(m.a[i])
	}
	inv := ratIdentity(n)
	det := new(big.Rat).SetInt64(1)
	t := new(big.Rat)
	for c := 0; c < n; c++ {
		p := -1
		for r := c; r < n; r++ {
			if w[r*n+c].Sign() != 0 {
				p = r
				break
			}
		}
		if p < 0 {
			return nil, new(big.Rat)
		}
		if p != c {
			for j := 0; j < n; j++ {
				w[p*n+j], w[c*n+j] = w[c*n+j], w[p*n+j]
				inv.a[p*n+j], inv.a[c*n+j] = inv.a[c*n+j], inv.a[p*n+j]
			}
			det.Neg(det)
		}
		piv := new(big.Rat).Set(w[c*n+c])
		det.Mul(det, piv)
		for j := 0; j < n; j++ {
			w[c*n+j].Quo(w[c*n+j], piv)
			inv.a[c*n+j].Quo(inv.a[c*n+j], piv)
		}
		for r := 0; r < n; r++ {
			if r == c || w[r*n+c].Sign() == 0 {
				continue
			}
			f := new(big.Rat).Set(w[r*n+c])
			for j := 0; j < n; j++ {
				w[r*n+j].Sub(w[r*n+j], t.Mul(f, w[c*n+j]))
				inv.a[r*n+j].Sub(inv.a[r*n+j], t.Mul(f, inv.a[c*n+j]))
			}
		}
	}
	return inv, det
}

func (m *ratMat) floats() []float64 {
	out := make([]float64, len(m.a))
	for i, x := range m.a {
		out[i], _ = x.Float64()
	}
	return out
}

// position map of an affine matrix (last row ignored, as MulPosition does), rounded once at the end
func (m *ratMat) mulPosition(p []float64) []float64 {
	n := m.n
	out := make([]float64, n-1)
	t := new(big.Rat)
	for i := 0; i < n-1; i++ {
		s := new(big.Rat).Set(m.a[i*n+n-1])
		for j := 0; j < n-1; j++ {
			s.Add(s, t.Mul(m.a[i*n+j], new(big.Rat).SetFloat64(p[j])))
		}
		out[i], _ = s.Float64()
	}
	return out
}

// exactInverse: the inverse rounded to float64 (ok = false for a singular / non-finite matrix)
func exactInverse(n int, a []float64) (inv []float64, rinv *ratMat, det float64, ok bool) {
	r := ratOf(n, a)
	if r == nil {
		return nil, nil, 0, false
	}
	ri, d := r.inverse()
	if ri == nil {
		return nil, nil, 0, false
	}
	det, _ = d.Float64()
	return ri.floats(), ri, det, true
}

func exactInverse44(m sdf.M44) (sdf.M44, bool) {
	inv, _, _, ok := exactInverse(4, m[:])
	var out sdf.M44
	if ok {
		copy(out[:], inv)
	}
	return out, ok
}
func exactInverse33(m sdf.M33) (sdf.M33, bool) {
	inv, _, _, ok := exactInverse(3, m[:])
	var out sdf.M33
	if ok {
		copy(out[:], inv)
	}
	return out, ok
}

// permanent of the absolute values of the minor of a (n x n) without row r and column c
// (r = c = -1: of the whole matrix): the sum of |terms| of the cofactor / determinant expansion
func absPermanent(n int, a []float64, r, c int) float64 {
	var rows, cols []int
	for i := 0; i < n; i++ {
		if i != r {
			rows = append(rows, i)
		}
		if i != c {
			cols = append(cols, i)
		}
	}
	var rec func(k int, used uint) float64
	rec = func(k int, used uint) float64 {
		if k == len(rows) {
			return 1
		}
		s := 0.0
		for j, cj := range cols {
			if used&(1<<uint(j)) != 0 {
				continue
			}
			if x := math.Abs(a[rows[k]*n+cj]); x != 0 {
				s += x * rec(k+1, used|1<<uint(j))
			}
		}
		return s
	}
	return rec(0, 0)
}

const ulp = 1.0 / (1 << 52)

// ---------------------------------------------------------------- oracles against the rationals

// Inverse and Determinant of the implementation against the exact ones
func (h *harness) exactInverseOracle(name string, n int, a, inv []float64, det float64, flavour string) {
	key := name + ":" + hx(a...)
	h.r.Case("oracle/"+name+"-exact/"+shortFlavour(flavour), key, true)
	want, _, wdet, ok := exactInverse(n, a)
	if !ok {
		return
	}
	pdet := absPermanent(n, a, -1, -1)
	if !(math.Abs(wdet) > 1e-6*pdet) {
		return // determinant lost to cancellation: badly conditioned, correspondence only
	}
	in := map[string]interface{}{"a": a, "exact_inverse": want, "exact_determinant": wdet}
	if !(math.Abs(det-wdet) <= 64*ulp*pdet) {
		h.r.Violate(key, fmt.Sprintf("%s [%s]: Determinant() = %v, exact determinant %v", name, flavour, det, wdet), in)
		return
	}
	tols := inverseTolerance(n, a, want, wdet)
	for i := 0; i < n; i++ {
		for j := 0; j < n; j++ {
			k := i*n + j
			tol := tols[k]
			if !(math.Abs(inv[k]-want[k]) <= tol) {
				h.r.Violate(key, fmt.Sprintf("%s [%s]: Inverse()[%d] = %v, exact inverse has %v (difference %.3g, rounding bound of the cofactor formula %.3g; determinant %v)",
					name, flavour, k, inv[k], want[k], inv[k]-want[k], tol, wdet), in)
				return
			}
		}
	}
}

// running error bound of the cofactor formula, entry by entry: entry (i,j) of the inverse is
// cofactor(j,i) / det; 64 ulp of (sum of |terms| of the cofactor + |entry| * sum of |terms| of det) / |det|
func inverseTolerance(n int, a, want []float64, wdet float64) []float64 {
	pdet := absPermanent(n, a, -1, -1)
	out := make([]float64, n*n)
	for i := 0; i < n; i++ {
		for j := 0; j < n; j++ {
			out[i*n+j] = 64 * ulp * (absPermanent(n, a, j, i) + math.Abs(want[i*n+j])*pdet) / math.Abs(wdet)
		}
	}
	return out
}

// how far a correctly rounded-ish inverse may move the pulled-back point M^-1 p (affine part, homogeneous n x n)
func pullbackTolerance(n int, a, want []float64, wdet float64, p []float64) float64 {
	tols := inverseTolerance(n, a, want, wdet)
	t := 0.0
	for i := 0; i < n-1; i++ {
		r := tols[i*n+n-1] + 8*ulp*math.Abs(want[i*n+n-1])
		for j := 0; j < n-1; j++ {
			r += (tols[i*n+j] + 8*ulp*math.Abs(want[i*n+j])) * math.Abs(p[j])
		}
		t = math.Max(t, r)
	}
	return float64(n) * t
}

// tolerance of Transform(s, M).Evaluate(p) against s.Evaluate(M^-1 p): an operand in the 1-Lipschitz class
// moves by at most the distance between the two pulled-back points (plus its own rounding, 1e-11 relative);
// any other operand (scaled distance fields, discontinuous folds) is compared at the general 1e-9
func sameValueUnderPullback(got, want float64, lipschitz bool, dq float64, scale ...float64) bool {
	if !lipschitz {
		return closeTo(got, want, scale...)
	}
	if got == want {
		return true
	}
	if math.IsNaN(got) || math.IsNaN(want) || math.IsInf(got, 0) || math.IsInf(want, 0) {
		return false
	}
	m := math.Max(1, math.Max(math.Abs(got), math.Abs(want)))
	for _, s := range scale {
		m = math.Max(m, math.Abs(s))
	}
	return math.Abs(got-want) <= 1e-11*m+4*dq
}

// Mul against the exact product (64 ulp of the sum of |terms|)
func (h *harness) exactMulOracle(name string, n int, a, b, got []float64, flavour string) {
	key := name + ":" + hx(a...) + "*" + hx(b...)
	h.r.Case("oracle/"+name+"-exact/"+shortFlavour(flavour), key, true)
	ra, rb := ratOf(n, a), ratOf(n, b)
	if ra == nil || rb == nil {
		return
	}
	want := ra.mul(rb).floats()
	for i := 0; i < n; i++ {
		for j := 0; j < n; j++ {
			s := 0.0
			for k := 0; k < n; k++ {
				s += math.Abs(a[i*n+k] * b[k*n+j])
			}
			if !(math.Abs(got[i*n+j]-want[i*n+j]) <= 64*ulp*s) {
				h.r.Violate(key, fmt.Sprintf("%s [%s]: Mul(a, b)[%d] = %v, exact product has %v", name, flavour, i*n+j, got[i*n+j], want[i*n+j]),
					map[string]interface{}{"a": a, "b": b, "exact_product": want})
				return
			}
		}
	}
}

// MulPosition against the exact affine map
func (h *harness) exactPosOracle(name string, n int, a, p, got []float64, flavour string) {
	key := name + ":" + hx(a...) + "@" + hx(p...)
	h.r.Case("oracle/"+name+"-exact/"+shortFlavour(flavour), key, true)
	ra := ratOf(n, a)
	if ra == nil {
		return
	}
	want := ra.mulPosition(p)
	for i := range want {
		s := math.Abs(a[i*n+n-1])
		for j := 0; j < n-1; j++ {
			s += math.Abs(a[i*n+j] * p[j])
		}
		if !(math.Abs(got[i]-want[i]) <= 64*ulp*s) {
			h.r.Violate(key, fmt.Sprintf("%s [%s]: MulPosition(%v)[%d] = %v, exact affine map gives %v", name, flavour, p, i, got[i], want[i]),
				map[string]interface{}{"a": a, "p": p, "exact": want})
			return
		}
	}
}

// ---------------------------------------------------------------- generators

// perturbation size 10^-k, k in [lo, hi], with a random mantissa
func (h *harness) eps(lo, hi int) float64 {
	return h.rng.Uniform(1, 9.99) * math.Pow(10, -float64(h.rng.Range(lo, hi))) * []float64{1, -1}[h.rng.Intn(2)]
}

func (h *harness) sign() float64 { return []float64{1, -1}[h.rng.Intn(2)] }

// n x n helpers on row-major slices
func matMul(n int, a, b []float64) []float64 {
	out := make([]float64, n*n)
	for i := 0; i < n; i++ {
		for j := 0; j < n; j++ {
			s := 0.0
			for k := 0; k < n; k++ {
				s += a[i*n+k] * b[k*n+j]
			}
			out[i*n+j] = s
		}
	}
	return out
}
func matId(n int) []float64 {
	out := make([]float64, n*n)
	for i := 0; i < n; i++ {
		out[i*n+i] = 1
	}
	return out
}
func matDiag(d []float64) []float64 {
	n := len(d)
	out := make([]float64, n*n)
	for i := 0; i < n; i++ {
		out[i*n+i] = d[i]
	}
	return out
}
func matT(n int, a []float64) []float64 {
	out := make([]float64, n*n)
	for i := 0; i < n; i++ {
		for j := 0; j < n; j++ {
			out[j*n+i] = a[i*n+j]
		}
	}
	return out
}

// an exactly representable orthogonal matrix: signed permutation (quarter turns and mirrors)
func (h *harness) signedPerm(n int) []float64 {
	out := make([]float64, n*n)
	for i, j := range h.rng.Perm(n) {
		out[i*n+j] = h.sign()
	}
	return out
}

// a rotation (n = 2: by a random angle; n = 3: about a random axis) from the implementation's own
// constructors: the constructors are checked separately (rotationOracle, correspondence)
func (h *harness) rotN(n int) []float64 {
	a, _ := h.angle()
	if n == 2 {
		m := sdf.Rotate(a)
		return m22s(m)
	}
	var ax v3.Vec
	for {
		var s string
		ax, s = h.axis()
		if s != "tiny" && s != "huge" {
			break
		}
	}
	m := sdf.Rotate3d(ax, a)
	return []float64{m[0], m[1], m[2], m[4], m[5], m[6], m[8], m[9], m[10]}
}

// random perturbation pattern: a single entry, a strictly triangular part, or everything
func (h *harness) pattern(n int) []float64 {
	out := make([]float64, n*n)
	switch h.rng.Intn(3) {
	case 0:
		i := h.rng.Intn(n)
		j := (i + 1 + h.rng.Intn(n-1)) % n
		out[i*n+j] = 1
	case 1:
		up := h.rng.Bool()
		for i := 0; i < n; i++ {
			for j := 0; j < n; j++ {
				if (up && j > i) || (!up && j < i) {
					out[i*n+j] = h.rng.Uniform(-1, 1)
				}
			}
		}
	default:
		for i := range out {
			out[i] = h.rng.Uniform(-1, 1)
		}
	}
	return out
}

func matAddScaled(a []float64, e float64, b []float64) []float64 {
	out := make([]float64, len(a))
	for i := range a {
		out[i] = a[i] + e*b[i]
	}
	return out
}

var dyadicUnitScales3 = [][]float64{{2, 0.5, 1}, {4, 0.5, 0.5}, {8, 0.25, 0.5}, {2, 2, 0.25}, {0.5, 0.5, 4}, {1, 4, 0.25}, {16, 0.25, 0.25}}
var dyadicUnitScales2 = [][]float64{{2, 0.5}, {4, 0.25}, {0.125, 8}, {0.5, 2}, {16, 0.0625}}

// the linear part of a look-alike and the name of its stratum
func (h *harness) lookLinear(n int) ([]float64, string) {
	scales := func(lo, hi float64) []float64 {
		d := make([]float64, n)
		for i := range d {
			d[i] = h.rng.Uniform(lo, hi) * h.sign()
		}
		return d
	}
	unitProduct := func(d []float64, dev float64) { // last factor so that the product is +-(1+dev)
		p := 1.0
		for _, x := range d[:n-1] {
			p *= x
		}
		d[n-1] = h.sign() * (1 + dev) / p
	}
	switch h.rng.Intn(12) {
	case 0:
		var d []float64
		if n == 2 {
			d = append(d, dyadicUnitScales2[h.rng.Intn(len(dyadicUnitScales2))]...)
		} else {
			d = append(d, dyadicUnitScales3[h.rng.Intn(len(dyadicUnitScales3))]...)
		}
		q := make([]float64, n)
		for i, j := range h.rng.Perm(n) {
			q[i] = d[j] * h.sign()
		}
		return matDiag(q), "det1-scale-dyadic"
	case 1:
		d := scales(0.35, 3)
		unitProduct(d, 0)
		return matDiag(d), "det1-scale"
	case 2:
		d := scales(0.35, 3)
		unitProduct(d, h.eps(7, 16))
		return matDiag(d), "det-near-1-scale"
	case 3: // unit triangular (one or all off-diagonal entries), rows possibly permuted
		m := matId(n)
		entry := func() float64 {
			for {
				x := h.rng.Uniform(-2, 2)
				if h.rng.Bool() {
					x = h.rng.Dyadic(2, 2)
				}
				if x != 0 {
					return x
				}
			}
		}
		if h.rng.Intn(3) == 0 {
			i := h.rng.Intn(n)
			j := (i + 1 + h.rng.Intn(n-1)) % n
			m[i*n+j] = entry()
		} else {
			up := h.rng.Bool()
			for i := 0; i < n; i++ {
				for j := 0; j < n; j++ {
					if (up && j > i) || (!up && j < i) {
						m[i*n+j] = entry()
					}
				}
			}
		}
		if h.rng.Intn(3) == 0 {
			m = matMul(n, h.signedPerm(n), m)
		}
		return m, "det1-shear"
	case 4: // product of elementary integer operations
		m := matId(n)
		for k := h.rng.Range(2, 5); k > 0; k-- {
			i := h.rng.Intn(n)
			j := (i + 1 + h.rng.Intn(n-1)) % n
			f := float64(h.rng.Range(1, 2)) * h.sign()
			for c := 0; c < n; c++ {
				m[i*n+c] += f * m[j*n+c]
			}
		}
		if h.rng.Bool() {
			m = matMul(n, h.signedPerm(n), m)
		}
		return m, "det1-unimodular-int"
	case 5: // orthogonal columns (or rows) of different length
		d := scales(0.35, 3)
		s := "orthogonal-columns"
		if h.rng.Bool() {
			unitProduct(d, 0)
			s += "-det1"
		}
		if h.rng.Bool() {
			return matMul(n, h.rotN(n), matDiag(d)), s
		}
		return matMul(n, matDiag(d), h.rotN(n)), s
	case 6: // looks like k * rotation: lengths differ by a little only
		k := h.rng.Uniform(0.3, 3)
		if h.rng.Intn(3) == 0 {
			k = 1
		}
		d := make([]float64, n)
		for i := range d {
			d[i] = k
		}
		d[h.rng.Intn(n)] *= 1 + h.eps(3, 10)
		return matMul(n, h.rotN(n), matDiag(d)), "almost-uniform-scale"
	case 7:
		return matAddScaled(h.rotN(n), h.eps(3, 10), h.pattern(n)), "rotation+tiny-shear"
	case 8:
		return matAddScaled(matId(n), h.eps(3, 10), h.pattern(n)), "near-identity"
	case 9:
		d := scales(0.35, 3)
		if h.rng.Bool() { // one ordinary off-diagonal entry
			m := matDiag(d)
			i := h.rng.Intn(n)
			j := (i + 1 + h.rng.Intn(n-1)) % n
			m[i*n+j] = h.rng.Uniform(-2, 2)
			return m, "diagonal+one-entry"
		}
		return matAddScaled(matDiag(d), h.eps(3, 10), h.pattern(n)), "near-diagonal"
	case 10: // symmetric positive definite: R D R^T
		d := scales(0.35, 3)
		for i := range d {
			d[i] = math.Abs(d[i])
		}
		r := h.rotN(n)
		m := matMul(n, matMul(n, r, matDiag(d)), matT(n, r))
		for i := 0; i < n; i++ { // exactly symmetric
			for j := 0; j < i; j++ {
				m[i*n+j] = m[j*n+i]
			}
		}
		if h.rng.Bool() {
			return m, "symmetric"
		}
		p := h.pattern(n)
		pt := matT(n, p)
		return matAddScaled(m, h.eps(3, 10), matAddScaled(p, -1, pt)), "near-symmetric"
	}
	// det +-1 by construction of a general matrix: scale one row of a random matrix
	for {
		m := make([]float64, n*n)
		for i := range m {
			m[i] = h.rng.Uniform(-2, 2)
		}
		_, _, det, ok := exactInverse(n, m)
		if !ok || math.Abs(det) < 0.3 {
			continue
		}
		r := h.rng.Intn(n)
		for c := 0; c < n; c++ {
			m[r*n+c] /= det
		}
		return m, "det1-general"
	}
}

// look-alike of dimension n+1 in homogeneous form (n = 2: M33, n = 3: M44); affine = bottom row exactly (0,..,0,1)
func (h *harness) lookAffine(n int) (m []float64, flavour string, affine bool) {
	l, flavour := h.lookLinear(n)
	flavour += " | "
	// composition with orthogonal factors on either side (a rotation turns nearly diagonal / symmetric / identity
	// into something else: those keep their shape three times out of four)
	c := h.rng.Intn(4)
	if strings.HasPrefix(flavour, "near-") || strings.HasPrefix(flavour, "symmetric") || strings.HasPrefix(flavour, "diagonal") {
		if h.rng.Intn(4) != 0 {
			c = 3
		}
	}
	switch c {
	case 0:
		l = matMul(n, h.signedPerm(n), l)
		flavour += "quarter-turns "
	case 1:
		l = matMul(n, h.rotN(n), l)
		flavour += "rotated "
	case 2:
		l = matMul(n, matMul(n, h.rotN(n), l), h.rotN(n))
		flavour += "rotated-both-sides "
	}
	N := n + 1
	m = matId(N)
	for i := 0; i < n; i++ {
		for j := 0; j < n; j++ {
			m[i*N+j] = l[i*n+j]
		}
	}
	switch h.rng.Intn(3) {
	case 0:
		for i := 0; i < n; i++ {
			m[i*N+n] = h.rng.Dyadic(6, 3)
		}
		flavour += "translation "
	case 1:
		for i := 0; i < n; i++ {
			m[i*N+n] = h.rng.Uniform(-6, 6)
		}
		flavour += "translation "
	}
	affine = true
	if h.rng.Intn(6) == 0 { // bottom row slightly off (0,..,0,1)
		affine = false
		k := h.rng.Intn(N + 1)
		for j := 0; j < N; j++ {
			if k == N || k == j {
				m[n*N+j] += h.eps(3, 12)
			}
		}
		flavour += "bottom-row-off "
	}
	return m, flavour, affine
}

func (h *harness) look44() (sdf.M44, string, bool) {
	a, s, aff := h.lookAffine(3)
	var m sdf.M44
	copy(m[:], a)
	return m, s, aff
}
func (h *harness) look33() (sdf.M33, string, bool) {
	a, s, aff := h.lookAffine(2)
	var m sdf.M33
	copy(m[:], a)
	return m, s, aff
}
func (h *harness) look22() (sdf.M22, string) {
	a, s := h.lookLinear(2)
	s += " | "
	switch h.rng.Intn(3) {
	case 0:
		a = matMul(2, h.rotN(2), a)
		s += "rotated"
	case 1:
		a = matMul(2, h.signedPerm(2), a)
		s += "quarter-turns"
	}
	var m sdf.M22
	copy(m[:], a)
	return m, s
}

// ---------------------------------------------------------------- the stratum

func shortFlavour(s string) string { // stratum name without the composition suffixes (bounded number of strata)
	if i := strings.Index(s, " | "); i >= 0 {
		return s[:i]
	}
	return s
}

// Transform3D / Transform2D with the inverse map taken in the rationals
func (h *harness) transformExact3(k3 *shapes.N3, m sdf.M44, flavour string) {
	s := sdf.Transform3D(k3.Go, m)
	desc := "Transform3[" + flavour + " " + hx(m[:]...) + "](" + k3.Desc + ")"
	// forward oracle Evaluate(M q) = s(q) and the seam machinery of oracle3
	h.oracle3(params{kind: "fTransform3", fs: m44s(m)}, s, []interface{}{k3}, desc, "", "lookalike/"+shortFlavour(flavour))
	winv, rinv, wdet, ok := exactInverse(4, m[:])
	if !ok {
		return
	}
	v := viol{h, "fTransform3-exact", desc, ""}
	var pts []v3.Vec
	for _, q := range h.pts3(k3.Go, 4) {
		pts = append(pts, m.MulPosition(q))
	}
	pts = append(pts, h.pts3(s, 3)...)
	for _, p := range pts {
		if !finite(p.X, p.Y, p.Z) {
			continue
		}
		qs := rinv.mulPosition([]float64{p.X, p.Y, p.Z})
		q := v3.Vec{X: qs[0], Y: qs[1], Z: qs[2]}
		got, want := s.Evaluate(p), ev3(k3, q)
		if !sameValueUnderPullback(got, want, k3.Cl.Lipschitz, pullbackTolerance(4, m[:], winv, wdet, []float64{p.X, p.Y, p.Z}), q.Length(), p.Length()) {
			v.at(p, fmt.Sprintf("Transform3D(s, M).Evaluate(p) = %v, s.Evaluate(M^-1 p) = %v with M^-1 p = %v from the exact inverse (p = %v, M = %v [%s]); inside/outside %v vs %v",
				got, want, q, p, m, flavour, got < 0, want < 0))
			return
		}
	}
}

func (h *harness) transformExact2(k2 *shapes.N2, m sdf.M33, flavour string) {
	s := sdf.Transform2D(k2.Go, m)
	desc := "Transform2[" + flavour + " " + hx(m[:]...) + "](" + k2.Desc + ")"
	h.oracle2(params{kind: "fTransform2", fs: m33s(m)}, s, []interface{}{k2}, desc, "", "lookalike/"+shortFlavour(flavour))
	winv, rinv, wdet, ok := exactInverse(3, m[:])
	if !ok {
		return
	}
	v := viol{h, "fTransform2-exact", desc, ""}
	var pts []v2.Vec
	for _, q := range h.pts2(k2.Go, 4) {
		pts = append(pts, m.MulPosition(q))
	}
	pts = append(pts, h.pts2(s, 3)...)
	for _, p := range pts {
		if !finite(p.X, p.Y) {
			continue
		}
		qs := rinv.mulPosition([]float64{p.X, p.Y})
		q := v2.Vec{X: qs[0], Y: qs[1]}
		got, want := s.Evaluate(p), ev2(k2, q)
		if !sameValueUnderPullback(got, want, k2.Cl.Lipschitz, pullbackTolerance(3, m[:], winv, wdet, []float64{p.X, p.Y}), q.Length(), p.Length()) {
			v.at(p, fmt.Sprintf("Transform2D(s, M).Evaluate(p) = %v, s.Evaluate(M^-1 p) = %v with M^-1 p = %v from the exact inverse (p = %v, M = %v [%s]); inside/outside %v vs %v",
				got, want, q, p, m, flavour, got < 0, want < 0))
			return
		}
	}
}

// RotateUnion with a step that is not a rotation: copy i is the operand at step^-i p, powers in the rationals
func (h *harness) rotateUnionExact3(k3 *shapes.N3, m sdf.M44, cnt int, flavour string) {
	s := sdf.RotateUnion3D(k3.Go, cnt, m)
	if s == nil {
		return
	}
	desc := fmt.Sprintf("RotateUnion3(%s,%d,[%s %s])", k3.Desc, cnt, flavour, hx(m[:]...))
	h.r.Case("oracle/lookalike/fRotateUnion3-exact/"+shortFlavour(flavour), desc, true)
	h.hist["fRotateUnion3-exact"]++
	_, rinv, _, ok := exactInverse(4, m[:])
	if !ok {
		return
	}
	v := viol{h, "fRotateUnion3-exact", desc, ""}
	rm := ratOf(4, m[:])
	pw, fw := ratIdentity(4), ratIdentity(4)
	var back, fwd []*ratMat // step^-i, step^i
	for i := 0; i < cnt; i++ {
		back, fwd = append(back, pw), append(fwd, fw)
		pw, fw = pw.mul(rinv), fw.mul(rm)
	}
	var pts []v3.Vec
	for _, q := range h.pts3(k3.Go, 3) { // points of copy i: step^i q
		x := fwd[h.rng.Intn(cnt)].mulPosition([]float64{q.X, q.Y, q.Z})
		pts = append(pts, v3.Vec{X: x[0], Y: x[1], Z: x[2]})
	}
	pts = append(pts, h.pts3(s, 2)...)
	for _, p := range pts {
		if !finite(p.X, p.Y, p.Z) {
			continue
		}
		mn, scale := math.Inf(1), p.Length()
		for i := 0; i < cnt; i++ {
			x := back[i].mulPosition([]float64{p.X, p.Y, p.Z})
			q := v3.Vec{X: x[0], Y: x[1], Z: x[2]}
			scale = math.Max(scale, q.Length())
			mn = math.Min(mn, ev3(k3, q))
		}
		if got := s.Evaluate(p); !closeTo(got, mn, scale) {
			v.at(p, fmt.Sprintf("RotateUnion3D(s, %d, M).Evaluate(p) = %v, minimum of the operand at M^-i p (exact inverse powers) = %v (p = %v, M = %v [%s])", cnt, got, mn, p, m, flavour))
			return
		}
	}
}

func (h *harness) rotateUnionExact2(k2 *shapes.N2, m sdf.M33, cnt int, flavour string) {
	s := sdf.RotateUnion2D(k2.Go, cnt, m)
	if s == nil {
		return
	}
	desc := fmt.Sprintf("RotateUnion2(%s,%d,[%s %s])", k2.Desc, cnt, flavour, hx(m[:]...))
	h.r.Case("oracle/lookalike/fRotateUnion2-exact/"+shortFlavour(flavour), desc, true)
	h.hist["fRotateUnion2-exact"]++
	_, rinv, _, ok := exactInverse(3, m[:])
	if !ok {
		return
	}
	v := viol{h, "fRotateUnion2-exact", desc, ""}
	rm := ratOf(3, m[:])
	pw, fw := ratIdentity(3), ratIdentity(3)
	var back, fwd []*ratMat
	for i := 0; i < cnt; i++ {
		back, fwd = append(back, pw), append(fwd, fw)
		pw, fw = pw.mul(rinv), fw.mul(rm)
	}
	var pts []v2.Vec
	for _, q := range h.pts2(k2.Go, 3) {
		x := fwd[h.rng.Intn(cnt)].mulPosition([]float64{q.X, q.Y})
		pts = append(pts, v2.Vec{X: x[0], Y: x[1]})
	}
	pts = append(pts, h.pts2(s, 2)...)
	for _, p := range pts {
		if !finite(p.X, p.Y) {
			continue
		}
		mn, scale := math.Inf(1), p.Length()
		for i := 0; i < cnt; i++ {
			x := back[i].mulPosition([]float64{p.X, p.Y})
			q := v2.Vec{X: x[0], Y: x[1]}
			scale = math.Max(scale, q.Length())
			mn = math.Min(mn, ev2(k2, q))
		}
		if got := s.Evaluate(p); !closeTo(got, mn, scale) {
			v.at(p, fmt.Sprintf("RotateUnion2D(s, %d, M).Evaluate(p) = %v, minimum of the operand at M^-i p (exact inverse powers) = %v (p = %v, M = %v [%s])", cnt, got, mn, p, m, flavour))
			return
		}
	}
}

// lookalikeCases: n look-alike matrices through the correspondence, the exact-arithmetic oracles and the
// transform / rotate-union oracles
func (h *harness) lookalikeCases(n int) {
	h.init()
	// the plainest members first (readable failing inputs): unit boxes / squares under volume-preserving
	// stretches and shears, alone and behind a translation / quarter turn
	box3, _ := sdf.Box3D(v3.Vec{X: 1, Y: 1, Z: 1}, 0)
	k3 := leaf3(box3, "Box3D({1 1 1},0)")
	k2 := leaf2(sdf.Box2D(v2.Vec{X: 1, Y: 1}, 0), "Box2D({1 1},0)")
	k3.Cl.Lipschitz, k2.Cl.Lipschitz = true, true // exact distance fields
	shear3 := sdf.M44{1, 0.5, 0, 0, 0, 1, 0, 0, 0, 0.25, 1, 0, 0, 0, 0, 1}
	for _, c := range []struct {
		m sdf.M44
		s string
	}{
		{sdf.Scale3d(v3.Vec{X: 2, Y: 0.5, Z: 1}), "det1-scale-dyadic | Scale3d(2,0.5,1)"},
		{sdf.Scale3d(v3.Vec{X: 4, Y: 0.5, Z: 0.5}), "det1-scale-dyadic | Scale3d(4,0.5,0.5)"},
		{sdf.Scale3d(v3.Vec{X: -2, Y: 0.5, Z: 1}), "det1-scale-dyadic | Scale3d(-2,0.5,1)"},
		{sdf.Scale3d(v3.Vec{X: 3, Y: 0.5, Z: 2.0 / 3}), "det1-scale | Scale3d(3,0.5,2/3)"},
		{shear3, "det1-shear | x += y/2, z += y/4"},
		{sdf.Translate3d(v3.Vec{X: 1, Y: -2, Z: 0.5}).Mul(sdf.Scale3d(v3.Vec{X: 2, Y: 0.5, Z: 1})), "det1-scale-dyadic | Translate3d(1,-2,0.5) * Scale3d(2,0.5,1)"},
		{sdf.RotateZ(math.Pi / 2).Mul(shear3).Mul(sdf.Translate3d(v3.Vec{X: 0.5, Y: 0, Z: -1})), "det1-shear | RotateZ(pi/2) * shear * Translate3d(0.5,0,-1)"},
		{sdf.Scale3d(v3.Vec{X: 2, Y: 2, Z: 2}), "uniform-scale | Scale3d(2,2,2)"},
	} {
		inv, det := c.m.Inverse(), c.m.Determinant()
		h.exactInverseOracle("inverse44", 4, c.m[:], inv[:], det, c.s)
		h.transformExact3(k3, c.m, c.s)
		h.rotateUnionExact3(k3, c.m, 3, c.s)
	}
	shear2 := sdf.M33{1, 0.5, 0, 0, 1, 0, 0, 0, 1}
	for _, c := range []struct {
		m sdf.M33
		s string
	}{
		{sdf.Scale2d(v2.Vec{X: 2, Y: 0.5}), "det1-scale-dyadic | Scale2d(2,0.5)"},
		{sdf.Scale2d(v2.Vec{X: -4, Y: 0.25}), "det1-scale-dyadic | Scale2d(-4,0.25)"},
		{sdf.Scale2d(v2.Vec{X: 3, Y: 1.0 / 3}), "det1-scale | Scale2d(3,1/3)"},
		{shear2, "det1-shear | x += y/2"},
		{sdf.M33{2, 1, 0, 1, 1, 0, 0, 0, 1}, "det1-unimodular-int | [[2,1],[1,1]]"},
		{sdf.Translate2d(v2.Vec{X: 1, Y: -2}).Mul(sdf.Scale2d(v2.Vec{X: 2, Y: 0.5})), "det1-scale-dyadic | Translate2d(1,-2) * Scale2d(2,0.5)"},
		{sdf.Rotate2d(math.Pi / 2).Mul(shear2).Mul(sdf.Translate2d(v2.Vec{X: 0.5, Y: -1})), "det1-shear | Rotate2d(pi/2) * shear * Translate2d(0.5,-1)"},
	} {
		inv, det := c.m.Inverse(), c.m.Determinant()
		h.exactInverseOracle("inverse33", 3, c.m[:], inv[:], det, c.s)
		h.transformExact2(k2, c.m, c.s)
		h.rotateUnionExact2(k2, c.m, 3, c.s)
	}
	for _, m := range []sdf.M22{{2, 0, 0, 0.5}, {1, 0.5, 0, 1}, {2, 1, 1, 1}, {0, -4, 0.25, 0}} {
		h.exactInverseOracle("inverse22", 2, m[:], m22s(m.Inverse()), m.Determinant(), "det1-plain | ")
	}
	for i := 0; i < n; i++ {
		switch i % 10 {
		case 0, 1, 2, 3, 4: // M44
			a, fl0, affine := h.look44()
			sf := shortFlavour(fl0)
			if !affine {
				sf += "+bottom-row-off"
			}
			inv, det := a.Inverse(), a.Determinant()
			h.addMat("lookalike/inverse44/"+sf, fmt.Sprintf("(OInv44 %s)", fl(a[:])), m44s(inv), true)
			h.addMat("lookalike/determinant44/"+sf, fmt.Sprintf("(ODet44 %s)", fl(a[:])), []float64{det}, true)
			h.exactInverseOracle("inverse44", 4, a[:], inv[:], det, fl0)
			h.inverseOracle44(a, "lookalike/"+sf)
			if i%5 == 0 {
				b, fb, _ := h.look44()
				ab := a.Mul(b)
				h.addMat("lookalike/mul44/"+sf, fmt.Sprintf("(OMul44 %s %s)", fl(a[:]), fl(b[:])), m44s(ab), true)
				h.exactMulOracle("mul44", 4, a[:], b[:], ab[:], fl0+" * "+fb)
				p := h.vec3(8)
				q := a.MulPosition(p)
				h.addMat("lookalike/mulposition44/"+sf, fmt.Sprintf("(OPos44 %s %s)", fl(a[:]), cv3(p)), []float64{q.X, q.Y, q.Z}, true)
				h.exactPosOracle("mulposition44", 4, a[:], []float64{p.X, p.Y, p.Z}, []float64{q.X, q.Y, q.Z}, fl0)
			}
			if affine {
				k3 := h.g.Gen3(i%3 + 1)
				h.transformExact3(k3, a, fl0)
				if i%5 == 1 {
					h.rotateUnionExact3(k3, a, h.rng.Range(1, 4), fl0)
				}
			}
		case 5, 6, 7: // M33
			a, fl0, affine := h.look33()
			sf := shortFlavour(fl0)
			if !affine {
				sf += "+bottom-row-off"
			}
			inv, det := a.Inverse(), a.Determinant()
			h.addMat("lookalike/inverse33/"+sf, fmt.Sprintf("(OInv33 %s)", fl(a[:])), m33s(inv), true)
			h.addMat("lookalike/determinant33/"+sf, fmt.Sprintf("(ODet33 %s)", fl(a[:])), []float64{det}, true)
			h.exactInverseOracle("inverse33", 3, a[:], inv[:], det, fl0)
			h.inverseOracleSmall("inverse33", a[:], m33s(a.Mul(inv)), m33s(inv.Mul(a)), m33s(sdf.Identity2d()), det, m33s(inv), "lookalike/"+sf)
			if i%10 == 5 {
				b, fb, _ := h.look33()
				ab := a.Mul(b)
				h.addMat("lookalike/mul33/"+sf, fmt.Sprintf("(OMul33 %s %s)", fl(a[:]), fl(b[:])), m33s(ab), true)
				h.exactMulOracle("mul33", 3, a[:], b[:], ab[:], fl0+" * "+fb)
				p := h.vec2(8)
				q := a.MulPosition(p)
				h.addMat("lookalike/mulposition33/"+sf, fmt.Sprintf("(OPos33 %s %s)", fl(a[:]), cv2(p)), []float64{q.X, q.Y}, true)
				h.exactPosOracle("mulposition33", 3, a[:], []float64{p.X, p.Y}, []float64{q.X, q.Y}, fl0)
			}
			if affine {
				k2 := h.g.Gen2(i%3 + 1)
				h.transformExact2(k2, a, fl0)
				if i%10 == 6 {
					h.rotateUnionExact2(k2, a, h.rng.Range(1, 4), fl0)
				}
			}
		default: // M22
			a, fl0 := h.look22()
			sf := shortFlavour(fl0)
			inv, det := a.Inverse(), a.Determinant()
			h.addMat("lookalike/inverse22/"+sf, fmt.Sprintf("(OInv22 %s)", fl(a[:])), m22s(inv), true)
			h.addMat("lookalike/determinant22/"+sf, fmt.Sprintf("(ODet22 %s)", fl(a[:])), []float64{det}, true)
			h.exactInverseOracle("inverse22", 2, a[:], inv[:], det, fl0)
			h.inverseOracleSmall("inverse22", a[:], m22s(a.Mul(inv)), m22s(inv.Mul(a)), m22s(sdf.Identity()), det, m22s(inv), "lookalike/"+sf)
			if i%10 == 8 {
				b, fb := h.look22()
				ab := a.Mul(b)
				h.addMat("lookalike/mul22/"+sf, fmt.Sprintf("(OMul22 %s %s)", fl(a[:]), fl(b[:])), m22s(ab), true)
				h.exactMulOracle("mul22", 2, a[:], b[:], ab[:], fl0+" * "+fb)
			}
		}
	}
}
