package main

// Correspondence cases for coq/Sdf/C02Corr.v.

import (
	"fmt"
	"math"
	"sort"
	"strings"

	"github.com/deadsy/sdfx/sdf"
	v2 "github.com/deadsy/sdfx/vec/v2"
	v3 "github.com/deadsy/sdfx/vec/v3"
	"github.com/deadsy/sdfx/vec/v3i"
	. "verifharness/kit"
	"verifharness/shapes"
)

type harness struct {
	c    *Ctx
	r    *Report
	rng  *Rng
	g    *shapes.Gen
	hist map[string]int
	id   int

	mat, fun, cache, voxel *Cases
}

func (h *harness) init() {
	if h.mat != nil {
		return
	}
	h.mat = &Cases{Kind: "mat", Imports: imp, Type: "casem", Fn: "mismatches_mat", InfoFn: "inexact_mat", PerShard: 400}
	h.fun = &Cases{Kind: "fun", Imports: imp, Type: "casef", Fn: "mismatches_fun", InfoFn: "inexact_fun", PerShard: 600}
	h.cache = &Cases{Kind: "cache", Imports: imp, Type: "casec", Fn: "mismatches_cache", PerShard: 30}
	h.voxel = &Cases{Kind: "voxel", Imports: imp, Type: "casev", Fn: "mismatches_voxel", InfoFn: "inexact_voxel", PerShard: 8}
}

func (h *harness) flush() error {
	h.init()
	for _, cs := range []*Cases{h.mat, h.fun, h.cache, h.voxel} {
		if err := cs.Write(h.c.Out); err != nil {
			return err
		}
	}
	return nil
}

func (h *harness) next() int { h.id++; return h.id }

func fl(xs []float64) string {
	s := make([]string, len(xs))
	for i, x := range xs {
		s[i] = CF(x)
	}
	return CList(s)
}
func cv2(v v2.Vec) string { return fmt.Sprintf("(fv2 %s %s)", CF(v.X), CF(v.Y)) }
func cv3(v v3.Vec) string { return fmt.Sprintf("(fv3 %s %s %s)", CF(v.X), CF(v.Y), CF(v.Z)) }

// ---------------------------------------------------------------- generators

var specialAngles = []float64{0, math.Pi / 2, math.Pi, -math.Pi / 2, -math.Pi, 2 * math.Pi, math.Pi / 4, math.Pi / 3, 2 * math.Pi / 3, 1e-9, -1e-9, 100, -1000}

func (h *harness) angle() (float64, string) {
	switch h.rng.Intn(5) {
	case 0:
		return specialAngles[h.rng.Intn(len(specialAngles))], "special"
	case 1: // just around a multiple of pi/2
		k := float64(h.rng.Range(-4, 4))
		return k*math.Pi/2 + h.rng.Uniform(-1, 1)*math.Pow(10, -float64(h.rng.Range(3, 15))), "near-quadrant"
	}
	return h.rng.Uniform(-2*math.Pi, 2*math.Pi), "generic"
}

func (h *harness) axis() (v3.Vec, string) {
	switch h.rng.Intn(7) {
	case 0: // near-degenerate: tiny
		s := math.Pow(10, -float64(h.rng.Range(6, 150)))
		return v3.Vec{X: h.rng.Uniform(-1, 1) * s, Y: h.rng.Uniform(-1, 1) * s, Z: h.rng.Uniform(-1, 1) * s}, "tiny"
	case 1: // huge
		s := math.Pow(10, float64(h.rng.Range(6, 100)))
		return v3.Vec{X: h.rng.Uniform(-1, 1) * s, Y: h.rng.Uniform(-1, 1) * s, Z: h.rng.Uniform(-1, 1) * s}, "huge"
	case 2: // almost along a coordinate axis
		e := math.Pow(10, -float64(h.rng.Range(3, 16)))
		v := v3.Vec{X: e * h.rng.Uniform(-1, 1), Y: e * h.rng.Uniform(-1, 1), Z: e * h.rng.Uniform(-1, 1)}
		switch h.rng.Intn(3) {
		case 0:
			v.X = 1
		case 1:
			v.Y = -1
		default:
			v.Z = 1
		}
		return v, "near-axis"
	case 3: // dyadic
		v := v3.Vec{X: h.rng.Dyadic(4, 2), Y: h.rng.Dyadic(4, 2), Z: h.rng.Dyadic(4, 2)}
		if v.Length() == 0 {
			v.Z = 1
		}
		return v, "dyadic"
	}
	v := v3.Vec{X: h.rng.Uniform(-3, 3), Y: h.rng.Uniform(-3, 3), Z: h.rng.Uniform(-3, 3)}
	if v.Length() == 0 {
		v.X = 1
	}
	return v, "generic"
}

func (h *harness) vec3(lim float64) v3.Vec {
	if h.rng.Intn(3) == 0 {
		return v3.Vec{X: h.rng.Dyadic(lim, 3), Y: h.rng.Dyadic(lim, 3), Z: h.rng.Dyadic(lim, 3)}
	}
	return v3.Vec{X: h.rng.Uniform(-lim, lim), Y: h.rng.Uniform(-lim, lim), Z: h.rng.Uniform(-lim, lim)}
}
func (h *harness) vec2(lim float64) v2.Vec {
	if h.rng.Intn(3) == 0 {
		return v2.Vec{X: h.rng.Dyadic(lim, 3), Y: h.rng.Dyadic(lim, 3)}
	}
	return v2.Vec{X: h.rng.Uniform(-lim, lim), Y: h.rng.Uniform(-lim, lim)}
}

// a 4x4 matrix of a given flavour
func (h *harness) m44() (sdf.M44, string) {
	switch h.rng.Intn(6) {
	case 0: // rigid
		ax, _ := h.axis()
		a, _ := h.angle()
		return sdf.Translate3d(h.vec3(6)).Mul(sdf.Rotate3d(ax, a)), "rigid"
	case 1: // rigid with a mirror
		a, _ := h.angle()
		return sdf.Translate3d(h.vec3(6)).Mul(sdf.RotateY(a)).Mul(sdf.MirrorXeqY()), "mirror"
	case 2: // affine, non-uniform scale
		sc := v3.Vec{X: h.rng.Uniform(0.2, 4), Y: -h.rng.Uniform(0.2, 4), Z: h.rng.Uniform(0.2, 4)}
		a, _ := h.angle()
		return sdf.RotateZ(a).Mul(sdf.Scale3d(sc)).Mul(sdf.Translate3d(h.vec3(3))), "affine"
	case 3: // nearly singular
		var m sdf.M44
		for i := range m {
			m[i] = h.rng.Uniform(-2, 2)
		}
		e := math.Pow(10, -float64(h.rng.Range(2, 9)))
		for j := 0; j < 4; j++ { // row 2 = row 0 + row 1 + e * noise
			m[8+j] = m[j] + m[4+j] + e*h.rng.Uniform(-1, 1)
		}
		return m, "near-singular"
	case 4: // dyadic entries (exact arithmetic)
		var m sdf.M44
		for i := range m {
			m[i] = h.rng.Dyadic(4, 2)
		}
		return m, "dyadic"
	}
	var m sdf.M44
	for i := range m {
		m[i] = h.rng.Uniform(-3, 3)
	}
	return m, "general"
}
func (h *harness) m33() (sdf.M33, string) {
	switch h.rng.Intn(4) {
	case 0:
		a, _ := h.angle()
		m := sdf.Translate2d(h.vec2(6)).Mul(sdf.Rotate2d(a))
		if h.rng.Bool() {
			m = m.Mul(sdf.MirrorY())
		}
		return m, "rigid"
	case 1:
		a, _ := h.angle()
		return sdf.Rotate2d(a).Mul(sdf.Scale2d(v2.Vec{X: h.rng.Uniform(0.2, 4), Y: -h.rng.Uniform(0.2, 4)})).Mul(sdf.Translate2d(h.vec2(3))), "affine"
	case 2:
		var m sdf.M33
		for i := range m {
			m[i] = h.rng.Dyadic(4, 2)
		}
		return m, "dyadic"
	}
	var m sdf.M33
	for i := range m {
		m[i] = h.rng.Uniform(-3, 3)
	}
	return m, "general"
}
func (h *harness) m22() (sdf.M22, string) {
	if h.rng.Intn(3) == 0 {
		a, _ := h.angle()
		return sdf.Rotate(a), "rotation"
	}
	var m sdf.M22
	for i := range m {
		m[i] = h.rng.Uniform(-3, 3)
	}
	return m, "general"
}

// ---------------------------------------------------------------- matrix cases

func (h *harness) addMat(stratum, op string, got []float64, nontrivial bool) {
	h.init()
	id := h.next()
	h.mat.Add(fmt.Sprintf("(%d%%N, %s, %s)", id, op, fl(got)))
	h.r.Case("corr/matrix/"+stratum, op, nontrivial)
	if id%211 == 0 {
		h.r.Sample(map[string]interface{}{"id": id, "matrix_op": op, "go": got})
	}
}

func (h *harness) matrixCases(n int) error {
	h.init()
	// every nullary constructor once
	for _, k := range []struct {
		name string
		m    []float64
	}{
		{"OMirrorXY", m44s(sdf.MirrorXY())}, {"OMirrorXZ", m44s(sdf.MirrorXZ())}, {"OMirrorYZ", m44s(sdf.MirrorYZ())},
		{"OMirrorXeqY", m44s(sdf.MirrorXeqY())}, {"OMirrorX", m33s(sdf.MirrorX())}, {"OMirrorY", m33s(sdf.MirrorY())},
	} {
		h.addMat("mirror", k.name, k.m, true)
	}
	for i := 0; i < n; i++ {
		switch i % 18 {
		case 0, 1, 2:
			ax, sa := h.axis()
			a, sb := h.angle()
			h.addMat("rotate3d/"+sa+"/"+sb, fmt.Sprintf("(ORot3 %s %s)", cv3(ax), CF(a)), m44s(sdf.Rotate3d(ax, a)), true)
		case 3:
			a, sb := h.angle()
			switch h.rng.Intn(3) {
			case 0:
				h.addMat("rotatex/"+sb, fmt.Sprintf("(ORotX %s)", CF(a)), m44s(sdf.RotateX(a)), true)
			case 1:
				h.addMat("rotatey/"+sb, fmt.Sprintf("(ORotY %s)", CF(a)), m44s(sdf.RotateY(a)), true)
			default:
				h.addMat("rotatez/"+sb, fmt.Sprintf("(ORotZ %s)", CF(a)), m44s(sdf.RotateZ(a)), true)
			}
		case 4:
			a, sb := h.angle()
			if h.rng.Bool() {
				h.addMat("rotate2d/"+sb, fmt.Sprintf("(ORot2d %s)", CF(a)), m33s(sdf.Rotate2d(a)), true)
			} else {
				h.addMat("rotate/"+sb, fmt.Sprintf("(ORot %s)", CF(a)), m22s(sdf.Rotate(a)), true)
			}
		case 5:
			v := h.vec3(8)
			if h.rng.Bool() {
				h.addMat("translate3d", fmt.Sprintf("(OTrans3 %s)", cv3(v)), m44s(sdf.Translate3d(v)), false)
			} else {
				h.addMat("scale3d", fmt.Sprintf("(OScale3 %s)", cv3(v)), m44s(sdf.Scale3d(v)), false)
			}
		case 6:
			v := h.vec2(8)
			if h.rng.Bool() {
				h.addMat("translate2d", fmt.Sprintf("(OTrans2 %s)", cv2(v)), m33s(sdf.Translate2d(v)), false)
			} else {
				h.addMat("scale2d", fmt.Sprintf("(OScale2 %s)", cv2(v)), m33s(sdf.Scale2d(v)), false)
			}
		case 7, 8:
			a, sa := h.m44()
			b, sb := h.m44()
			h.addMat("mul44/"+sa+"*"+sb, fmt.Sprintf("(OMul44 %s %s)", fl(a[:]), fl(b[:])), m44s(a.Mul(b)), true)
		case 9:
			a, sa := h.m33()
			b, sb := h.m33()
			h.addMat("mul33/"+sa+"*"+sb, fmt.Sprintf("(OMul33 %s %s)", fl(a[:]), fl(b[:])), m33s(a.Mul(b)), true)
		case 10:
			a, sa := h.m22()
			b, _ := h.m22()
			h.addMat("mul22/"+sa, fmt.Sprintf("(OMul22 %s %s)", fl(a[:]), fl(b[:])), m22s(a.Mul(b)), true)
		case 11, 12:
			a, sa := h.m44()
			h.addMat("inverse44/"+sa, fmt.Sprintf("(OInv44 %s)", fl(a[:])), m44s(a.Inverse()), true)
			h.addMat("determinant44/"+sa, fmt.Sprintf("(ODet44 %s)", fl(a[:])), []float64{a.Determinant()}, true)
			h.inverseOracle44(a, sa)
		case 13:
			a, sa := h.m33()
			h.addMat("inverse33/"+sa, fmt.Sprintf("(OInv33 %s)", fl(a[:])), m33s(a.Inverse()), true)
			h.addMat("determinant33/"+sa, fmt.Sprintf("(ODet33 %s)", fl(a[:])), []float64{a.Determinant()}, true)
			h.inverseOracleSmall("inverse33", a[:], m33s(a.Mul(a.Inverse())), m33s(a.Inverse().Mul(a)), m33s(sdf.Identity2d()), a.Determinant(), m33s(a.Inverse()), sa)
		case 14:
			a, sa := h.m22()
			h.addMat("inverse22/"+sa, fmt.Sprintf("(OInv22 %s)", fl(a[:])), m22s(a.Inverse()), true)
			h.addMat("determinant22/"+sa, fmt.Sprintf("(ODet22 %s)", fl(a[:])), []float64{a.Determinant()}, true)
			h.inverseOracleSmall("inverse22", a[:], m22s(a.Mul(a.Inverse())), m22s(a.Inverse().Mul(a)), m22s(sdf.Identity()), a.Determinant(), m22s(a.Inverse()), sa)
		case 15:
			a, sa := h.m44()
			p := h.vec3(8)
			q := a.MulPosition(p)
			h.addMat("mulposition44/"+sa, fmt.Sprintf("(OPos44 %s %s)", fl(a[:]), cv3(p)), []float64{q.X, q.Y, q.Z}, true)
		case 16:
			a, sa := h.m33()
			p := h.vec2(8)
			q := a.MulPosition(p)
			h.addMat("mulposition33/"+sa, fmt.Sprintf("(OPos33 %s %s)", fl(a[:]), cv2(p)), []float64{q.X, q.Y}, true)
		default:
			a, sa := h.m22()
			p := h.vec2(8)
			q := a.MulPosition(p)
			h.addMat("mulposition22/"+sa, fmt.Sprintf("(OPos22 %s %s)", fl(a[:]), cv2(p)), []float64{q.X, q.Y}, true)
		}
		if i%3 == 0 {
			h.rotationOracle()
		}
	}
	return nil
}

func m44s(m sdf.M44) []float64 { return append([]float64{}, m[:]...) }
func m33s(m sdf.M33) []float64 { return append([]float64{}, m[:]...) }
func m22s(m sdf.M22) []float64 { return append([]float64{}, m[:]...) }

// direct oracle: a * inverse(a) is the identity and inverse(a) undoes a on positions (well-conditioned matrices)
func (h *harness) inverseOracle44(a sdf.M44, flavour string) {
	if flavour == "near-singular" || math.Abs(a.Determinant()) < 0.1 {
		return // badly conditioned: covered by the correspondence only
	}
	inv := a.Inverse()
	prod := a.Mul(inv)
	id := sdf.Identity3d()
	key := "inverse44:" + hx(a[:]...)
	h.r.Case("oracle/inverse44/"+flavour, key, true)
	big := 1.0
	for i := range inv {
		big = math.Max(big, math.Abs(inv[i])*16*math.Max(1, math.Abs(a[i])))
	}
	for i := range prod {
		if !closeTo(prod[i], id[i], 1e3, big) {
			h.r.Violate(key, fmt.Sprintf("M44.Mul(a, a.Inverse())[%d] = %g, identity has %g", i, prod[i], id[i]), map[string]interface{}{"a": a})
			return
		}
	}
	if a[12] != 0 || a[13] != 0 || a[14] != 0 || a[15] != 1 {
		return // MulPosition ignores the last row: the round trip is claimed for affine matrices
	}
	p := h.vec3(5)
	q := inv.MulPosition(a.MulPosition(p))
	if !closeTo(q.X, p.X, 1e3, big) || !closeTo(q.Y, p.Y, 1e3, big) || !closeTo(q.Z, p.Z, 1e3, big) {
		h.r.Violate(key, fmt.Sprintf("Inverse(a).MulPosition(a.MulPosition(%v)) = %v", p, q), map[string]interface{}{"a": a, "p": p})
	}
}

func (h *harness) inverseOracleSmall(name string, a, prod, prod2, id []float64, det float64, inv []float64, flavour string) {
	if math.Abs(det) < 0.1 {
		return
	}
	key := name + ":" + hx(a...)
	h.r.Case("oracle/"+name+"/"+flavour, key, true)
	big := 1.0
	for i := range inv {
		big = math.Max(big, math.Abs(inv[i])*16*math.Max(1, math.Abs(a[i])))
	}
	for i := range prod {
		if !closeTo(prod[i], id[i], big) || !closeTo(prod2[i], id[i], big) {
			h.r.Violate(key, fmt.Sprintf("%s: (a * a.Inverse())[%d] = %g, (a.Inverse() * a)[%d] = %g, identity has %g", name, i, prod[i], i, prod2[i], id[i]), map[string]interface{}{"a": a})
			return
		}
	}
}

// direct oracle: Rotate3d is orthogonal, det +1, fixes its axis and turns right-handedly
func (h *harness) rotationOracle() {
	ax, sa := h.axis()
	a, sb := h.angle()
	if sa == "tiny" && ax.Length() < 1e-150 {
		return // |v|^2 underflows: outside the claimed class (v must be normalisable)
	}
	if sa == "huge" && ax.Length() > 1e150 {
		return
	}
	m := sdf.Rotate3d(ax, a)
	key := "rotate3d:" + hx(ax.X, ax.Y, ax.Z, a)
	h.r.Case("oracle/rotate3d/"+sa+"/"+sb, key, true)
	bad := func(what string) {
		h.r.Violate(key, "Rotate3d("+fmt.Sprint(ax)+", "+fmt.Sprint(a)+"): "+what, map[string]interface{}{"axis": ax, "angle": a, "matrix": m})
	}
	// rows orthonormal
	for i := 0; i < 3; i++ {
		for j := 0; j < 3; j++ {
			d := m[4*i]*m[4*j] + m[4*i+1]*m[4*j+1] + m[4*i+2]*m[4*j+2]
			want := 0.0
			if i == j {
				want = 1
			}
			if !closeTo(d, want) {
				bad(fmt.Sprintf("rows %d and %d have dot product %g", i, j, d))
				return
			}
		}
	}
	if d := m.Determinant(); !closeTo(d, 1) {
		bad(fmt.Sprintf("determinant %g, want +1", d))
		return
	}
	n := ax.Normalize()
	if q := m.MulPosition(n); !closeTo(q.X, n.X) || !closeTo(q.Y, n.Y) || !closeTo(q.Z, n.Z) {
		bad(fmt.Sprintf("axis %v is moved to %v", n, q))
		return
	}
	// a vector perpendicular to the axis: R u = cos a u + sin a (n x u)
	w := h.vec3(2)
	u := w.Sub(n.MulScalar(w.Dot(n)))
	if u.Length() < 1e-3 {
		return
	}
	want := u.MulScalar(math.Cos(a)).Add(n.Cross(u).MulScalar(math.Sin(a)))
	got := m.MulPosition(u)
	if !closeTo(got.X, want.X, 4) || !closeTo(got.Y, want.Y, 4) || !closeTo(got.Z, want.Z, 4) {
		bad(fmt.Sprintf("u = %v perpendicular to the axis goes to %v, right-handed rotation gives %v", u, got, want))
	}
}

// ---------------------------------------------------------------- blends, SawTooth, extrusion maps

func (h *harness) blendArgs() (k, a, b float64, stratum string) {
	scale := math.Pow(10, float64(h.rng.Range(-2, 2)))
	a, b = h.rng.Uniform(-1, 1)*scale, h.rng.Uniform(-1, 1)*scale
	switch h.rng.Intn(6) {
	case 0:
		k, stratum = scale*math.Pow(10, -float64(h.rng.Range(3, 6))), "tiny-radius"
	case 1:
		k, stratum = scale*float64(h.rng.Range(2, 100)), "radius>operands"
	case 2: // |a-b| exactly k, or the operands equal
		k, stratum = float64(h.rng.Range(1, 16))/16, "on-threshold"
		a = h.rng.Dyadic(2, 4)
		if h.rng.Bool() {
			b = a + k
		} else {
			b = a
		}
	case 3:
		k, stratum = float64(h.rng.Range(1, 32))/16, "dyadic"
		a, b = h.rng.Dyadic(4, 4), h.rng.Dyadic(4, 4)
	default:
		k, stratum = h.rng.Uniform(0.05, 2)*scale, "generic"
	}
	return
}

func (h *harness) addFun(stratum, op string, got []float64, nontrivial bool) {
	h.init()
	id := h.next()
	h.fun.Add(fmt.Sprintf("(%d%%N, %s, %s)", id, op, fl(got)))
	h.r.Case("corr/"+stratum, op, nontrivial)
	if id%331 == 0 {
		h.r.Sample(map[string]interface{}{"id": id, "function": op, "go": got})
	}
}

func (h *harness) funCases(n int) error {
	for i := 0; i < n; i++ {
		switch i % 10 {
		case 0:
			k, a, b, s := h.blendArgs()
			h.addFun("blend/roundmin/"+s, fmt.Sprintf("(BRoundMin %s %s %s)", CF(k), CF(a), CF(b)), []float64{sdf.RoundMin(k)(a, b)}, true)
		case 1:
			k, a, b, s := h.blendArgs()
			h.addFun("blend/chamfermin/"+s, fmt.Sprintf("(BChamferMin %s %s %s)", CF(k), CF(a), CF(b)), []float64{sdf.ChamferMin(k)(a, b)}, true)
		case 2, 3:
			k, a, b, s := h.blendArgs()
			h.addFun("blend/polymin/"+s, fmt.Sprintf("(BPolyMin %s %s %s)", CF(k), CF(a), CF(b)), []float64{sdf.PolyMin(k)(a, b)}, true)
		case 4:
			k, a, b, s := h.blendArgs()
			h.addFun("blend/polymax/"+s, fmt.Sprintf("(BPolyMax %s %s %s)", CF(k), CF(a), CF(b)), []float64{sdf.PolyMax(k)(a, b)}, true)
		case 5, 6:
			var x, period float64
			s := "generic"
			switch h.rng.Intn(4) {
			case 0: // the periods RotateCopy uses, angles from Atan2's range incl. its ends
				period = 2 * math.Pi / float64(h.rng.Range(1, 12))
				x = []float64{math.Pi, -math.Pi, 0, period / 2, -period / 2, math.Pi / 2}[h.rng.Intn(6)]
				s = "sector-boundary"
			case 1:
				period = 2 * math.Pi / float64(h.rng.Range(1, 12))
				x = h.rng.Uniform(-math.Pi, math.Pi)
				s = "sector"
			case 2:
				period = float64(h.rng.Range(1, 64)) / 8
				x = h.rng.Dyadic(64, 3)
				s = "dyadic"
			default:
				period = h.rng.Uniform(0.01, 10)
				x = h.rng.Uniform(-100, 100)
			}
			g := sdf.SawTooth(x, period)
			h.addFun("sawtooth/"+s, fmt.Sprintf("(FSaw %s %s)", CF(x), CF(period)), []float64{g}, true)
			// direct: range and congruence
			key := "sawtooth:" + hx(x, period)
			if !(leq(-period/2, g) && leq(g, period/2)) {
				h.r.Violate(key, fmt.Sprintf("SawTooth(%g, %g) = %g outside [-period/2, period/2]", x, period, g), map[string]interface{}{"x": x, "period": period})
			}
			if q := (x - g) / period; !closeTo(q, math.Round(q), q) {
				h.r.Violate(key, fmt.Sprintf("SawTooth(%g, %g) = %g differs from x by %g periods", x, period, g, q), map[string]interface{}{"x": x, "period": period})
			}
			if g2 := sdf.SawTooth(x+3*period, period); !closeTo(g2, g, x, 3*period) && !closeTo(math.Abs(g2-g), period, x) {
				h.r.Violate(key, fmt.Sprintf("SawTooth(x + 3 period) = %g, SawTooth(x) = %g", g2, g), map[string]interface{}{"x": x, "period": period})
			}
		default:
			height := float64(h.rng.Range(1, 48)) / 8
			if h.rng.Intn(3) == 0 {
				height = h.rng.Uniform(0.2, 6)
			}
			tw, _ := h.angle()
			sc := v2.Vec{X: float64(h.rng.Range(2, 20)) / 8, Y: float64(h.rng.Range(2, 20)) / 8}
			if h.rng.Intn(3) == 0 {
				sc = v2.Vec{X: h.rng.Uniform(0.25, 2.5), Y: h.rng.Uniform(0.25, 2.5)}
			}
			p := h.vec3(4)
			p.Z = h.rng.Uniform(-0.6, 0.6) * height
			if h.rng.Intn(4) == 0 {
				p.Z = []float64{-height / 2, height / 2, 0}[h.rng.Intn(3)]
			}
			switch h.rng.Intn(4) {
			case 0:
				q := sdf.NormalExtrude(p)
				h.addFun("extrude-map/normal", fmt.Sprintf("(XNormal %s)", cv3(p)), []float64{q.X, q.Y}, false)
			case 1:
				q := sdf.TwistExtrude(height, tw)(p)
				h.addFun("extrude-map/twist", fmt.Sprintf("(XTwist %s %s %s)", CF(height), CF(tw), cv3(p)), []float64{q.X, q.Y}, true)
			case 2:
				q := sdf.ScaleExtrude(height, sc)(p)
				h.addFun("extrude-map/scale", fmt.Sprintf("(XScale %s %s %s)", CF(height), cv2(sc), cv3(p)), []float64{q.X, q.Y}, true)
			default:
				q := sdf.ScaleTwistExtrude(height, tw, sc)(p)
				h.addFun("extrude-map/scaletwist", fmt.Sprintf("(XScaleTwist %s %s %s %s)", CF(height), CF(tw), cv2(sc), cv3(p)), []float64{q.X, q.Y}, true)
			}
		}
	}
	return nil
}

// ---------------------------------------------------------------- cache

func (h *harness) cacheHistory(s sdf.SDF2, desc string, qs []v2.Vec, stratum string) {
	h.init()
	c := sdf.Cache2D(s)
	cs, ok := c.(*sdf.CacheSDF2)
	if !ok {
		h.r.Violate("cache:type", "Cache2D did not return a *CacheSDF2", nil)
		return
	}
	id := h.next()
	var items []string
	seen := map[[2]uint64]bool{}
	hits := 0
	key := fmt.Sprintf("cache:%s|%d queries", desc, len(qs))
	for i, p := range qs {
		direct := s.Evaluate(p)
		got := c.Evaluate(p)
		items = append(items, fmt.Sprintf("((%s, %s, %s), %s)", CF(p.X), CF(p.Y), CF(direct), CF(got)))
		k := [2]uint64{math.Float64bits(p.X), math.Float64bits(p.Y)}
		if seen[k] {
			hits++
		}
		seen[k] = true
		// the property itself: the cache returns the wrapped shape's own value, whatever was asked before
		if math.Float64bits(direct) != math.Float64bits(got) && !(math.IsNaN(direct) && math.IsNaN(got)) {
			h.r.Violate(fmt.Sprintf("cache:%s@%s#%d", desc, hx(p.X, p.Y), i),
				fmt.Sprintf("Cache2D(s).Evaluate(%v) = %g as query %d of the history, s.Evaluate = %g", p, got, i, direct),
				map[string]interface{}{"shape": desc, "history": hxPoints(qs[:i+1])})
		}
	}
	reads, hts, entries := cs.VerifCacheStats()
	if int(reads) != len(qs) || int(hts) != hits || entries != len(seen) {
		h.r.Violate(key, fmt.Sprintf("counters after %d queries on %d distinct points: reads %d hits %d entries %d (expected %d %d %d)",
			len(qs), len(seen), reads, hts, entries, len(qs), hits, len(seen)), map[string]interface{}{"shape": desc, "history": hxPoints(qs)})
	}
	if bb := c.BoundingBox(); bb != s.BoundingBox() {
		h.r.Violate(key, "Cache2D changes the bounding box", nil)
	}
	h.cache.Add(fmt.Sprintf("(%d%%N, %s, (%d%%N, %d%%N, %d%%N))", id, CList(items), reads, hts, entries))
	h.r.Case("cache/"+stratum, key, hits > 0)
	if id%17 == 0 {
		h.r.Sample(map[string]interface{}{"id": id, "cache_of": desc, "queries": len(qs), "repeats": hits})
	}
}

// exact, JSON-safe rendering of a query history (NaN and -0 included)
func hxPoints(qs []v2.Vec) []string {
	out := make([]string, len(qs))
	for i, p := range qs {
		out[i] = hx(p.X, p.Y)
	}
	return out
}

func (h *harness) cacheCases(n int) error {
	negz := math.Copysign(0, -1)
	for i := 0; i < n; i++ {
		t := h.g.Gen2(i%3 + 1)
		bb := t.Go.BoundingBox()
		cen, sz := bb.Center(), bb.Size()
		nq := h.rng.Range(5, 40)
		var pool []v2.Vec
		for j := 0; j < 8; j++ {
			pool = append(pool, v2.Vec{X: cen.X + h.rng.Uniform(-1, 1)*sz.X, Y: cen.Y + h.rng.Uniform(-1, 1)*sz.Y})
		}
		pool = append(pool, v2.Vec{X: 0, Y: 0}, v2.Vec{X: negz, Y: 0}, v2.Vec{X: 0, Y: negz}, v2.Vec{X: -1, Y: 0}, v2.Vec{X: -1, Y: negz},
			v2.Vec{X: h.rng.Dyadic(4, 2), Y: h.rng.Dyadic(4, 2)})
		// near-duplicates: distinct float64 points that agree to far more digits than any coarser
		// key (float32, rounded decimals, a grid) can tell apart - each is a query of its own
		for j := 0; j < 4; j++ {
			q := pool[h.rng.Intn(8)]
			pool = append(pool, v2.Vec{X: math.Nextafter(q.X, math.Inf(1)), Y: q.Y}, v2.Vec{X: q.X, Y: q.Y * (1 + 1e-12)},
				v2.Vec{X: q.X + 1e-10, Y: q.Y - 1e-10})
		}
		stratum := "repeats+signed-zero+near-duplicates"
		if i%7 == 3 {
			pool = append(pool, v2.Vec{X: math.NaN(), Y: 1})
			stratum = "repeats+signed-zero+near-duplicates+nan"
		}
		var qs []v2.Vec
		for j := 0; j < nq; j++ {
			qs = append(qs, pool[h.rng.Intn(len(pool))])
		}
		h.cacheHistory(t.Go, t.Desc, qs, stratum)
	}
	return nil
}

// ---------------------------------------------------------------- voxel

func (h *harness) voxelCase(s sdf.SDF3, desc string, mesh int, stratum string, record bool) {
	h.init()
	vs := sdf.NewVoxelSDF3(s, mesh, nil)
	vx, ok := vs.(*sdf.VoxelSDF3)
	if !ok {
		h.r.Violate("voxel:type", "NewVoxelSDF3 did not return a *VoxelSDF3", nil)
		return
	}
	bb, cells, tab := vx.VerifVoxelDump()
	key := fmt.Sprintf("voxel:%s|mesh=%d", desc, mesh)
	h.r.Case("voxel/"+stratum, key, true)
	in := map[string]interface{}{"shape": desc, "meshCells": mesh, "box": bb, "cells": cells}
	if cells.X < 1 || cells.Y < 1 || cells.Z < 1 {
		h.r.Violate(key, fmt.Sprintf("NewVoxelSDF3: %v cells", cells), in)
		return
	}
	if wb := s.BoundingBox(); wb != bb {
		h.r.Violate(key, "the voxel wrapper changes the bounding box", in)
	}
	size := bb.Size()
	fc := v3.Vec{X: float64(cells.X), Y: float64(cells.Y), Z: float64(cells.Z)}
	corner := func(i v3i.Vec) v3.Vec {
		return bb.Min.Add(size.Mul(v3.Vec{X: float64(i.X), Y: float64(i.Y), Z: float64(i.Z)}).Div(fc))
	}
	scale := math.Max(1, size.Length())
	if len(tab) != (cells.X+1)*(cells.Y+1)*(cells.Z+1) {
		h.r.Violate(key, fmt.Sprintf("%d stored corners for %v cells", len(tab), cells), in)
		return
	}
	var queries []v3.Vec
	// (1) lattice corners: stored value = wrapped shape at the corner; Evaluate at the corner = stored value
	for j := 0; j < 30; j++ {
		i := v3i.Vec{X: h.rng.Intn(cells.X + 1), Y: h.rng.Intn(cells.Y + 1), Z: h.rng.Intn(cells.Z + 1)}
		if j < 8 { // the 8 extreme corners first
			i = v3i.Vec{X: (j & 1) * cells.X, Y: (j >> 1 & 1) * cells.Y, Z: (j >> 2 & 1) * cells.Z}
		}
		p := corner(i)
		st, present := tab[i]
		want := s.Evaluate(p)
		ck := fmt.Sprintf("%s@corner%v", key, i)
		if !present || math.Float64bits(st) != math.Float64bits(want) {
			h.r.Violate(ck, fmt.Sprintf("stored corner value %g (present %v), wrapped shape at the corner %v gives %g", st, present, p, want), in)
			continue
		}
		if got := vs.Evaluate(p); !closeTo(got, st, scale) {
			h.r.Violate(ck, fmt.Sprintf("Evaluate at lattice corner %v = %g, stored corner value %g", p, got, st), in)
		}
		queries = append(queries, p)
	}
	// (2) inside a cell (interior, on faces, on edges): between the least and greatest of the 8 corners
	vsz := size.Div(fc)
	for j := 0; j < 40; j++ {
		i := v3i.Vec{X: h.rng.Intn(cells.X), Y: h.rng.Intn(cells.Y), Z: h.rng.Intn(cells.Z)}
		d := v3.Vec{X: h.rng.Uniform(0.02, 0.98), Y: h.rng.Uniform(0.02, 0.98), Z: h.rng.Uniform(0.02, 0.98)}
		switch j % 4 {
		case 1: // on a face of the cell
			d.X = 0
		case 2: // on an edge
			d.Y, d.Z = 0, 0
		}
		p := bb.Min.Add(vsz.Mul(v3.Vec{X: float64(i.X) + d.X, Y: float64(i.Y) + d.Y, Z: float64(i.Z) + d.Z}))
		lo, hi := math.Inf(1), math.Inf(-1)
		// the point may sit on a lattice plane: accept the corners of the cells on both sides
		for dx := -1; dx <= 1; dx++ {
			for dy := -1; dy <= 1; dy++ {
				for dz := -1; dz <= 1; dz++ {
					if (dx == -1 && d.X != 0) || (dy == -1 && d.Y != 0) || (dz == -1 && d.Z != 0) {
						continue
					}
					if v, ok := tab[v3i.Vec{X: i.X + dx, Y: i.Y + dy, Z: i.Z + dz}]; ok {
						lo, hi = math.Min(lo, v), math.Max(hi, v)
					}
				}
			}
		}
		got := vs.Evaluate(p)
		if !(leq(lo, got, scale) && leq(got, hi, scale)) {
			h.r.Violate(fmt.Sprintf("%s@%s", key, hx(p.X, p.Y, p.Z)),
				fmt.Sprintf("Evaluate(%v) = %g inside cell %v, outside the range [%g, %g] of the cell corners", p, got, i, lo, hi), in)
		}
		queries = append(queries, p)
	}
	// (3) outside the box: nearest box point plus distance
	for j := 0; j < 6; j++ {
		c := bb.Center()
		p := v3.Vec{X: c.X + h.rng.Uniform(-1.5, 1.5)*size.X, Y: c.Y + h.rng.Uniform(-1.5, 1.5)*size.Y, Z: c.Z + h.rng.Uniform(-1.5, 1.5)*size.Z}
		if bb.Contains(p) {
			continue
		}
		q := p.Clamp(bb.Min, bb.Max)
		if got, want := vs.Evaluate(p), vs.Evaluate(q)+p.Sub(q).Length(); !closeTo(got, want, scale) {
			h.r.Violate(fmt.Sprintf("%s@%s", key, hx(p.X, p.Y, p.Z)), fmt.Sprintf("Evaluate(%v) = %g outside the box, nearest box point + distance = %g", p, got, want), in)
		}
		queries = append(queries, p)
	}
	if !record {
		return
	}
	id := h.next()
	var keys []v3i.Vec
	for k := range tab {
		keys = append(keys, k)
	}
	sort.Slice(keys, func(a, b int) bool {
		if keys[a].X != keys[b].X {
			return keys[a].X < keys[b].X
		}
		if keys[a].Y != keys[b].Y {
			return keys[a].Y < keys[b].Y
		}
		return keys[a].Z < keys[b].Z
	})
	var ts, qs []string
	for _, k := range keys {
		ts = append(ts, fmt.Sprintf("(i3 %d%%Z %d%%Z %d%%Z, %s)", k.X, k.Y, k.Z, CF(tab[k])))
	}
	for _, p := range queries {
		qs = append(qs, fmt.Sprintf("(%s, %s)", cv3(p), CF(vs.Evaluate(p))))
	}
	h.voxel.Add(fmt.Sprintf("(%d%%N, %s, %s, %d%%Z, i3 %d%%Z %d%%Z %d%%Z, %s, %s)", id, cv3(bb.Min), cv3(bb.Max), mesh, cells.X, cells.Y, cells.Z,
		"["+strings.Join(ts, "; ")+"]", "["+strings.Join(qs, "; ")+"]"))
	if id%5 == 0 {
		h.r.Sample(map[string]interface{}{"id": id, "voxel_of": desc, "meshCells": mesh, "cells": cells})
	}
}

func (h *harness) voxelCases(n int) error {
	for i := 0; i < n; i++ {
		t := h.g.Gen3(i%3 + 1)
		bb := t.Go.BoundingBox()
		sz := bb.Size()
		if !(sz.X > 1e-6 && sz.Y > 1e-6 && sz.Z > 1e-6) || sz.MaxComponent() > 1e6 {
			continue
		}
		mesh := []int{1, 2, 3, 5, 8}[h.rng.Intn(5)]
		h.voxelCase(t.Go, t.Desc, mesh, fmt.Sprintf("mesh=%d", mesh), mesh <= 5)
	}
	return nil
}
