package main

// C02: combinators denote the set / geometric operation they name.
//
//  (a) correspondence, evaluated by coq/Sdf/C02Corr.v at primitive floats: the matrix constructors
//      and M22/M33/M44 Mul / Inverse / Determinant / MulPosition (model translated from
//      sdf/matrix.go by harness/exprgen on this run), the blend functions, SawTooth, the extrusion
//      maps, CacheSDF2 on query histories and VoxelSDF3 at corners / faces / interior / outside;
//  (b) direct metamorphic oracles on the implementation: for every node of random expression
//      trees (harness/shapes) the parent's Evaluate against the named operation applied to the
//      children's Evaluate, plus adversarial parameter strata built through the public API.
//
// The trees themselves are compared with the Coq model by cmd/c01 (same generator).

import (
	"encoding/json"
	"fmt"
	"math"
	"os"
	"path/filepath"

	"verifharness/exprgen"
	. "verifharness/kit"
	"verifharness/sdfgen"
	"verifharness/shapes"
)

func main() { Main("C02", check, stateGen, exprgen.Gen, sdfgen.Gen) }

const imp = "From Sdfx Require Import Sdf.C02Corr.\nOpen Scope float_scope."

// tolerance of the direct oracles: 1e-9 relative to the magnitudes involved
func closeTo(a, b float64, scale ...float64) bool {
	if a == b {
		return true
	}
	if math.IsNaN(a) || math.IsNaN(b) || math.IsInf(a, 0) || math.IsInf(b, 0) {
		return false
	}
	m := math.Max(1, math.Max(math.Abs(a), math.Abs(b)))
	for _, s := range scale {
		m = math.Max(m, math.Abs(s))
	}
	return math.Abs(a-b) <= 1e-9*m
}

// leq: a <= b up to the tolerance
func leq(a, b float64, scale ...float64) bool { return a <= b || closeTo(a, b, scale...) }

func hx(xs ...float64) string {
	s := ""
	for i, x := range xs {
		if i > 0 {
			s += ","
		}
		s += fmt.Sprintf("%x", x)
	}
	return s
}

type corpusT struct {
	PowMin  [][3]float64 `json:"powmin"`     // k, a, b: the known finding (PowMin removes material)
	Cache0  [][2]float64 `json:"cache_zero"` // points queried as (+0 / -0) pairs through a cache of RotateCopy2D
	Voxel   [][4]float64 `json:"voxel_thin"` // box size x y z, meshCells: thin boxes (0 cells per axis before the fix)
	Loft    [][3]float64 `json:"loft_flat"`  // height, round (= height/2), z
	Revolve []float64    `json:"revolve_theta"`
}

func check(c *Ctx, r *Report) error {
	rng := NewRng(c.Seed)
	var cp corpusT
	if b, err := os.ReadFile(filepath.Join(c.Verif, "corpus", "C02.json")); err == nil {
		if err := json.Unmarshal(b, &cp); err != nil {
			return fmt.Errorf("corpus/C02.json: %v", err)
		}
	}
	h := &harness{c: c, r: r, rng: rng, g: &shapes.Gen{R: rng}, hist: map[string]int{}}

	// ---- corpus first: witnesses of repaired defects and of the known finding
	h.corpus(&cp)

	// ---- (a) correspondence
	if err := h.matrixCases(TierN(c.Tier, 1800, 20000, 4000)); err != nil {
		return err
	}
	h.lookalikeCases(TierN(c.Tier, 600, 8000, 2000)) // determinant +-1 without being rigid, nearly diagonal / symmetric / affine ... (lookalike.go)
	if err := h.funCases(TierN(c.Tier, 3000, 30000, 6000)); err != nil {
		return err
	}
	if err := h.cacheCases(TierN(c.Tier, 60, 600, 150)); err != nil {
		return err
	}
	if err := h.voxelCases(TierN(c.Tier, 30, 300, 60)); err != nil {
		return err
	}

	// ---- (b) direct oracles
	h.blendOracles(TierN(c.Tier, 20000, 400000, 60000))
	n3 := TierN(c.Tier, 1500, 20000, 4000)
	n2 := TierN(c.Tier, 800, 10000, 2000)
	for k := 0; k < n3; k++ {
		h.walk(h.g.Gen3(k%4+1), 0)
	}
	for k := 0; k < n2; k++ {
		h.walk(h.g.Gen2(k%4+1), 0)
	}
	h.strata(TierN(c.Tier, 120, 2000, 400))
	h.seamStrata(TierN(c.Tier, 60, 1000, 240)) // exact-seam points of the n-ary combinators (seam.go)
	h.flatStrata(TierN(c.Tier, 1, 12, 4))      // operands with flat / point boxes under every box-building combinator, pointwise-minimum reference over the leaves (flat.go)
	h.foldStrata(TierN(c.Tier, 160, 3000, 600)) // arrays / rotate-unions / rotate-copies against the fold over ALL copies: blends wider than the pitch, 1..20 copies per axis, stretched operands, far points (fold.go)
	h.histStrata(TierN(c.Tier, 60, 1200, 240))  // Union2D / Union3D built from a caller's slice that the caller goes on writing to (hist.go)

	r.Coverage["node_oracles"] = h.hist
	r.Rule = "correspondence: generated arguments for every matrix constructor / Mul / Inverse / Determinant / MulPosition of M22, M33, M44 (rotation axes incl. near-degenerate and huge, angles at and around multiples of pi/2, mirrors, products of rigid and non-rigid factors, nearly singular matrices; look-alike matrices: determinant exactly / nearly +-1 without being orthogonal (unit-product scalings, shears, unimodular integer matrices), orthogonal columns of different length, rotation plus tiny shear, nearly identity / diagonal / symmetric, bottom row slightly off (0,0,0,1), alone and composed with rotations and translations), RoundMin/ChamferMin/PolyMin/PolyMax (radius from 1e-6 to 100x the operands), SawTooth, the four extrusion maps, CacheSDF2 histories with repeats / -0 / NaN, VoxelSDF3 at every kind of position; the Coq model at primitive floats must agree within 1e-12 relative (bit-exact agreement counted separately). direct oracles: every internal node of random expression trees (depth <= 4, 35 combinators, parameters recovered from the Coq term the generator emitted in lock step) and adversarial parameter strata: parent Evaluate vs the named operation on the children's Evaluate at 6 points per node; exact where the operation is exact in floating point (min, max, negation, offset, elongate, array), 1e-9 relative otherwise. look-alike matrices additionally against exact rational arithmetic, independent of the implementation's Inverse: Inverse / Determinant / Mul / MulPosition within 64 ulp of the running error bound of the cofactor formula, Transform2D/3D(s, M).Evaluate(p) = s.Evaluate(M^-1 p) and RotateUnion2D/3D with a non-orthogonal step = minimum over the operand at step^-i p with the inverse (powers) taken in the rationals. exact seams: every union / intersection / difference / array node is additionally evaluated at points on an edge (face) of one operand's bounding box inside another operand's box and at exact zeros of an operand found by bisection from a point strictly inside another operand; operand sets on a dyadic grid (boxes, rounded boxes, discs, lines, offsets, exact quarter turns / mirrors, inner unions; boxes / spheres / cylinders in 3D) in every operand order on the full arrangement grid of their box edges, centres and midpoints (plain minimum: bit-exact minimum of the operand values; PolyMin: blend bounds). non-trivial = a node with at least one operand that is itself a combinator, or a blend / matrix case off the trivial strata; distinct by tree description / argument tuple. fold stratum: Array2D/3D, RotateUnion2D/3D (default minimum and SetMin with PolyMin / RoundMin / ChamferMin and two blends defined in the harness, k = 0.1, 1, 3, 10 x the pitch; 1..20 copies per axis; overlapping, touching, disjoint, negative and zero steps; exact, stretched-and-rotated and random operands) and RotateCopy2D/3D against the fold over ALL copies computed in the harness (plain minimum bit for bit, blends 1e-9), at points in the box, at and between copies and up to 10 box diagonals outside. history stratum: Union2D/3D(parts...) built from a caller-owned slice (nil entries, spare capacity), then overwrite / reuse / append / zero / fill-nil / rebuild on that slice: the first union keeps its values bit for bit and is the fold over the operands it was built from, the caller's slice is left untouched, a second union is the fold over its own operands."
	r.Trusted = append(r.Trusted,
		"hand model coq/Sdf/Shape.v tied to the Go code by differential execution (cmd/c01, same tree generator); matrix code translated from the Go AST by harness/exprgen on every run",
		"Gallina port of Go math (coq/Num/GoMath.v)",
		"CacheSDF2: the mutex makes Evaluate atomic (C10); histories are therefore sequences of atomic bodies",
		"ExpMin / PowMin use math.Exp / Log / Pow (assembly on amd64): compared with an independent float64 evaluation of the same real formula within 1e-9, not with a Coq model")
	r.Assumptions = append(r.Assumptions,
		"theorems are over the reals; float64 rounding is not proved (oracle tolerance 1e-9 relative, correspondence tolerance 1e-12 relative)",
		"rotate-copy invariance is sampled away from the sector boundaries (azimuth margin 1e-6): on a boundary the fold is discontinuous and rounding may pick either side",
		"revolve sector membership is sampled with an azimuth margin of 1e-6 from 0 and theta",
		"ExpMin: result <= min is checked only where exp(-k*a) + exp(-k*b) neither underflows to 0 nor overflows (far outside it returns +Inf, which keeps outside points outside)")
	return h.flush()
}
