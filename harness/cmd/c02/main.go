package main

import (
	"verifharness/exprgen"
	. "verifharness/kit"
)

func main() { Main("C02", check, exprgen.Gen) }

func check(c *Ctx, r *Report) error { return nil }
