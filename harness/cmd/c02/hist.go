package main

// HISTORY stratum for the list constructors Union2D / Union3D (after harness/cmd/c01/history.go, with the
// pointwise-minimum oracle of this property instead of the enclosure oracle).
//
// Why: "union is the pointwise minimum of its operands" is a statement about the operands the union was BUILT
// from.  Every other oracle of this check builds a shape and evaluates it at once, with the operands listed
// (Union3D(a, b, c): Go allocates a fresh slice), so a constructor that keeps the caller's slice
// (`s.sdf = sdf[:0]` filtering nils in place, `s.sdf = sdf`) is indistinguishable from one that copies.  With
// Union3D(parts...) the variadic parameter IS the caller's slice; here the caller goes on using it:
//
//	S    := a caller-owned slice (optionally with nil entries, spare capacity filled with other operands)
//	u    := Union(S...)                       [optionally SetMin(blend)]
//	        the constructor must leave S (all of its capacity) untouched
//	history on S:  overwrite  S[i] = other operand            reuse   S = S[:0]; append others; second union
//	               append     inside the capacity; second union        zero    S[i] = nil
//	               fillnil    a nil slot of S gets an operand  rebuild second union from the unchanged S
//	u.Evaluate(p) must still be the minimum (the fold of the blend) over the operands u was built from, bit for
//	bit what it was before the history; the second union the minimum over ITS operands.  Points: interiors of the
//	first and of the later operands (where an aliased union reads "outside" for an original operand or "inside"
//	for a later one) and random points around them.

import (
	"fmt"
	"math"

	"github.com/deadsy/sdfx/sdf"
	v2 "github.com/deadsy/sdfx/vec/v2"
	v3 "github.com/deadsy/sdfx/vec/v3"
)

// hop: an operand behind one interface (2D points use X, Y), nil = a nil entry of the list
type hop struct {
	s2   sdf.SDF2
	s3   sdf.SDF3
	desc string
	in   v3.Vec // a point well inside (centre of the box of a convex primitive)
}

func (o *hop) eval(p v3.Vec) float64 {
	if o.s3 != nil {
		return o.s3.Evaluate(p)
	}
	return o.s2.Evaluate(v2.Vec{X: p.X, Y: p.Y})
}

func (h *harness) histOperand(dim int, spread float64) *hop {
	if dim == 3 {
		n := h.seamPlace3(h.seamPrim3(), spread)
		return &hop{s3: n.Go, desc: n.Desc, in: n.Go.BoundingBox().Center()}
	}
	n := h.seamPlace2(h.seamPrim2(), spread)
	c := n.Go.BoundingBox().Center()
	return &hop{s2: n.Go, desc: n.Desc, in: v3.Vec{X: c.X, Y: c.Y}}
}

// hunion: a union built from a list, with the reference fold over the operands it was built from
type hunion struct {
	ops  []*hop // the non-nil operands at construction time, in order
	eval func(v3.Vec) float64
	bl   blendSpec
	desc string
}

func (u *hunion) ref(p v3.Vec) float64 {
	f := u.bl.f
	if f == nil {
		f = math.Min
	}
	var d float64
	for i, o := range u.ops {
		if i == 0 {
			d = o.eval(p)
		} else {
			d = f(d, o.eval(p))
		}
	}
	return d
}

// histList: the caller's slice, in both typed forms (only one is used per dimension), kept in step
type histList struct {
	dim int
	l2  []sdf.SDF2
	l3  []sdf.SDF3
	ops []*hop // what the caller believes is in the slice (full capacity), nil = nil entry
	n   int    // len
}

func (l *histList) set(i int, o *hop) {
	l.ops[i] = o
	if l.dim == 3 {
		if o == nil {
			l.l3[:cap(l.l3)][i] = nil
		} else {
			l.l3[:cap(l.l3)][i] = o.s3
		}
		return
	}
	if o == nil {
		l.l2[:cap(l.l2)][i] = nil
	} else {
		l.l2[:cap(l.l2)][i] = o.s2
	}
}

func (l *histList) resize(n int) {
	l.n = n
	if l.dim == 3 {
		l.l3 = l.l3[:n]
	} else {
		l.l2 = l.l2[:n]
	}
}

// intact: the slice (all of its capacity) still holds what the caller put there
func (l *histList) intact() (int, bool) {
	for i, o := range l.ops {
		if l.dim == 3 {
			x := l.l3[:cap(l.l3)][i]
			if (o == nil) != (x == nil) || (o != nil && x != o.s3) {
				return i, false
			}
		} else {
			x := l.l2[:cap(l.l2)][i]
			if (o == nil) != (x == nil) || (o != nil && x != o.s2) {
				return i, false
			}
		}
	}
	return 0, true
}

// build passes the caller's slice itself (spread) to the constructor
func (h *harness) histBuild(l *histList, bl blendSpec) *hunion {
	u := &hunion{bl: bl}
	for _, o := range l.ops[:l.n] {
		if o != nil {
			u.ops = append(u.ops, o)
			u.desc += o.desc + ";"
		}
	}
	if l.dim == 3 {
		s := sdf.Union3D(l.l3...)
		if s == nil {
			return nil
		}
		if us, ok := s.(*sdf.UnionSDF3); ok && bl.f != nil {
			us.SetMin(bl.f)
		}
		u.eval = func(p v3.Vec) float64 { return s.Evaluate(p) }
		u.desc = fmt.Sprintf("Union3D[%s](parts...) parts=[%s]", bl.name, u.desc)
	} else {
		s := sdf.Union2D(l.l2...)
		if s == nil {
			return nil
		}
		if us, ok := s.(*sdf.UnionSDF2); ok && bl.f != nil {
			us.SetMin(bl.f)
		}
		u.eval = func(p v3.Vec) float64 { return s.Evaluate(v2.Vec{X: p.X, Y: p.Y}) }
		u.desc = fmt.Sprintf("Union2D[%s](parts...) parts=[%s]", bl.name, u.desc)
	}
	if len(u.ops) == 0 {
		return nil
	}
	return u
}

var histNames = []string{"overwrite", "reuse", "append", "zero", "fillnil", "rebuild"}

func (h *harness) histRun(dim, it int) {
	hist := histNames[it%len(histNames)]
	na, nb := h.rng.Range(2, 5), h.rng.Range(2, 4)
	var a, b []*hop
	for i := 0; i < na; i++ {
		a = append(a, h.histOperand(dim, 3))
	}
	withNil := hist == "fillnil" || h.rng.Intn(3) == 0
	if withNil { // nil entries anywhere, also first and last
		for k := h.rng.Range(1, 2); k > 0; k-- {
			i := h.rng.Intn(len(a) + 1)
			a = append(a[:i], append([]*hop{nil}, a[i:]...)...)
		}
	}
	far := v3.Vec{X: 12, Y: -9}
	if dim == 3 {
		far.Z = 7
	}
	for i := 0; i < nb; i++ { // the LATER operands sit elsewhere in space
		o := h.histOperand(dim, 2)
		if dim == 3 {
			o = &hop{s3: sdf.Transform3D(o.s3, sdf.Translate3d(far)), desc: "far:" + o.desc, in: o.in.Add(far)}
		} else {
			o = &hop{s2: sdf.Transform2D(o.s2, sdf.Translate2d(v2.Vec{X: far.X, Y: far.Y})), desc: "far:" + o.desc, in: o.in.Add(far)}
		}
		b = append(b, o)
	}
	spare := h.rng.Intn(nb + 1) // spare capacity, filled with later operands
	if hist == "append" && spare == 0 {
		spare = 1
	}
	l := &histList{dim: dim, n: len(a), ops: make([]*hop, len(a)+spare)}
	if dim == 3 {
		l.l3 = make([]sdf.SDF3, len(a), len(a)+spare)
	} else {
		l.l2 = make([]sdf.SDF2, len(a), len(a)+spare)
	}
	for i, o := range a {
		l.set(i, o)
	}
	for i := 0; i < spare; i++ {
		l.set(len(a)+i, b[i%nb])
	}
	bl := blendSpec{"MinDef", nil}
	if h.rng.Intn(3) == 0 {
		k := []float64{0.25, 1, 4}[h.rng.Intn(3)]
		bl = blendSpec{fmt.Sprintf("PolyMin(%s)", hx(k)), sdf.PolyMin(k)}
	}
	first := h.histBuild(l, bl)
	if first == nil {
		return
	}
	ctor := fmt.Sprintf("Union%dD", dim)
	h.r.Case("oracle/history/"+ctor+"/"+hist+"/"+blendKind(bl), "hist:"+hist+":"+first.desc, true)
	h.hist["history/"+ctor+"/"+hist]++
	v := viol{h, "history-" + ctor + "-" + hist, first.desc, ""}
	// probes: inside every operand, first and later ones, and around them
	var probes []v3.Vec
	for _, o := range append(append([]*hop{}, a...), b...) {
		if o != nil {
			probes = append(probes, o.in)
			q := o.in.Add(v3.Vec{X: h.rng.Uniform(-1.5, 1.5), Y: h.rng.Uniform(-1.5, 1.5)})
			if dim == 3 {
				q.Z += h.rng.Uniform(-1.5, 1.5)
			}
			probes = append(probes, q)
		}
	}
	before := make([]float64, len(probes))
	for i, p := range probes {
		before[i] = first.eval(p)
		if want := first.ref(p); !bl.agrees(before[i], want, p.Length()) {
			v.at(p, fmt.Sprintf("%s(parts...).Evaluate(%v) = %v right after construction, fold over its operands = %v", ctor, p, before[i], want))
			return
		}
	}
	if i, ok := l.intact(); !ok {
		v.at(probes[0], fmt.Sprintf("%s(parts...) changed the caller's parts slice (len %d, cap %d): entry %d no longer holds what the caller put there (nil entries in the list: %v)", ctor, l.n, len(l.ops), i, withNil))
		// no return: the history shows the consequence at the level of Evaluate
	}
	// ---- the history
	var second *hunion
	switch hist {
	case "overwrite":
		for k := h.rng.Range(1, l.n); k > 0; k-- {
			l.set(h.rng.Intn(l.n), b[h.rng.Intn(nb)])
		}
	case "reuse":
		l.resize(0)
		m := h.rng.Range(1, len(l.ops))
		for i := 0; i < m; i++ {
			l.resize(i + 1)
			l.set(i, b[i%nb])
		}
		second = h.histBuild(l, bl)
	case "append":
		m := h.rng.Range(1, len(l.ops)-l.n)
		for i := 0; i < m; i++ {
			l.resize(l.n + 1)
			l.set(l.n-1, b[h.rng.Intn(nb)])
		}
		second = h.histBuild(l, bl)
	case "zero":
		for k := h.rng.Range(1, l.n); k > 0; k-- {
			l.set(h.rng.Intn(l.n), nil)
		}
	case "fillnil":
		for i := 0; i < l.n; i++ {
			if l.ops[i] == nil {
				l.set(i, b[h.rng.Intn(nb)])
			}
		}
		second = h.histBuild(l, bl)
	case "rebuild": // the same list once more: a constructor that moved the caller's entries gets other operands now
		second = h.histBuild(l, bl)
	}
	cur := probes[0]
	defer func() { // an aliased union may now hold nil entries: a panic inside Evaluate is a failing input, not a harness crash
		if x := recover(); x != nil {
			v.at(cur, fmt.Sprintf("u := %s(parts...); then %s on the caller's slice: Evaluate(%v) of a union built before / from the slice panics: %v", ctor, hist, cur, x))
		}
	}()
	for i, p := range probes {
		h.hist["history/points"]++
		cur = p
		got := first.eval(p)
		if !sameBits(got, before[i]) && !(math.IsNaN(got) && math.IsNaN(before[i])) {
			v.at(p, fmt.Sprintf("u := %s(parts...); then %s on the caller's slice: u.Evaluate(%v) was %v and is now %v; the fold over the operands u was built from is %v (inside/outside %v vs %v): the union shares the caller's list",
				ctor, hist, p, before[i], got, first.ref(p), got < 0, first.ref(p) < 0))
			return
		}
	}
	if second != nil {
		v2nd := viol{h, "history-" + ctor + "-" + hist + "-second", second.desc, ""}
		for _, p := range probes {
			cur = p
			got, want := second.eval(p), second.ref(p)
			if !bl.agrees(got, want, p.Length()) {
				v2nd.at(p, fmt.Sprintf("after u := %s(parts...) and %s on the caller's slice, the union built from the slice as the caller left it evaluates to %v at %v, the fold over those operands is %v (inside/outside %v vs %v)",
					ctor, hist, got, p, want, got < 0, want < 0))
				return
			}
		}
		if i, ok := l.intact(); !ok {
			v2nd.at(probes[0], fmt.Sprintf("%s(parts...) (second construction) changed the caller's parts slice: entry %d", ctor, i))
		}
	}
}

// (the operands are exact primitives under rigid maps: they respect their boxes, so the box-pruned Union2D must be
// the exact minimum as well)

func (h *harness) histStrata(n int) {
	for i := 0; i < n; i++ {
		h.histRun(3, i)
		h.histRun(2, i)
	}
}
